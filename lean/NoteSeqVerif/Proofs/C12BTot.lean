import NoteSeqVerif.Proofs.C12BSus
/-! C12 (part B) — the exact `total_time` after `apply_sustain_control_changes`.

C14's `sustain_spec` pins down the notes of the result but leaves `total_time` between bounds.  For the storage-order
theorem the exact value is needed, so C14's per-note invariant `InvJ` is extended here by three ghost facts about *how*
a note was taken out of its active list (`Extra`), re-using C14's step lemma `invJ_step` unchanged.  Result
(`applySustain_exact`): `total_time` becomes the maximum of the old value, of the held ends of the notes ended by a
pedal release, and — if some note is still held when the events run out — of the time of the last event. -/
set_option linter.unusedSimpArgs false
set_option linter.unusedVariables false
namespace NSV.C12
open NSV NSV.C14 NSV.C14.Gen

section perNote
variable {n : Nat} {notes : Fin n → Note} {j : Fin n}

/-- ghost facts about the tag of note `j`, on top of `InvJ` -/
structure Extra (notes : Fin n → Note) (j : Fin n) (PD : Prop) (P : List (Ev n)) (a : Abs) : Prop where
  byPed : a.tag = .byPed → ∃ y ∈ P, IsPedOff notes j y ∧ (notes j).end_ < y.time ∧ y.time = a.e
  byStrike : a.tag = .byStrike → ∃ z ∈ P, z.typ = NOTE_ON ∧ z.time = a.e ∧
      ∀ y ∈ P, IsPedOff notes j y → (notes j).end_ < y.time → a.e < y.time
  closedNone : a.act = false → a.tag = .none → onEv notes j ∈ P → ¬ PD

theorem extra_keep {PD : Prop} {P : List (Ev n)} {x : Ev n} {a a' : Abs}
    (htag : a'.tag = a.tag) (he : a'.e = a.e)
    (hx2 : a.tag = .byStrike → IsPedOff notes j x → (notes j).end_ < x.time → a.e < x.time)
    (h3 : a'.act = false → a'.tag = .none → onEv notes j ∈ P ++ [x] → ¬ PD)
    (hex : Extra notes j PD P a) : Extra notes j PD (P ++ [x]) a' := by
  refine ⟨?_, ?_, h3⟩
  · intro ht
    rw [htag] at ht
    obtain ⟨y, hy, r⟩ := hex.byPed ht
    exact ⟨y, List.mem_append_left _ hy, by rw [he]; exact r⟩
  · intro ht
    rw [htag] at ht
    obtain ⟨z, hz, r1, r2, r3⟩ := hex.byStrike ht
    refine ⟨z, List.mem_append_left _ hz, r1, by rw [he]; exact r2, ?_⟩
    intro y hy hoff hlt
    rw [he]
    rcases mem_snoc.mp hy with hy | hy
    · exact r3 y hy hoff hlt
    · subst hy; exact hx2 ht hoff hlt

theorem closedNone_keep {PD : Prop} {P : List (Ev n)} {x : Ev n} {a a' : Abs}
    (htag : a'.tag = a.tag) (hact : a'.act = false → a.act = false) (hx : x ≠ onEv notes j)
    (hex : Extra notes j PD P a) :
    a'.act = false → a'.tag = .none → onEv notes j ∈ P ++ [x] → ¬ PD := by
  intro h1 h2 h3
  rcases mem_snoc.mp h3 with h3 | h3
  · exact hex.closedNone (hact h1) (by rw [← htag]; exact h2) h3
  · exact absurd h3.symm hx

/-- an event that does not change the abstract state and is no pedal-up of `j`'s instrument -/
theorem extra_irrelevant {PD : Prop} {P : List (Ev n)} {x : Ev n} {a : Abs}
    (h2 : ¬ IsPedOff notes j x) (h4 : x ≠ onEv notes j) (hex : Extra notes j PD P a) :
    Extra notes j PD (P ++ [x]) a :=
  extra_keep rfl rfl (fun _ h => absurd h h2) (closedNone_keep rfl id h4 hex) hex

/-- one step of the per-note automaton preserves the ghost facts -/
theorem extra_step {E P Q : List (Ev n)} {x : Ev n} {PD : Prop} {H LT : Rat} {a : Abs}
    (hc : Ctx (notes := notes) (j := j) E P x Q)
    (hsp : HSpec (notes := notes) (j := j) E PD H LT) (hinv : InvJ notes j E PD H P a)
    (hex : Extra notes j PD P a) :
    Extra notes j PD (P ++ [x]) (astep notes j a x) := by
  have hto := typ_order
  have hok := hc.ok x ((hc.split x).mpr (Or.inr (Or.inl rfl)))
  -- when the note is active its recorded end is still the original one
  have hact_e : a.act = true → a.e = (notes j).end_ := by
    intro h
    rcases hinv.2 with g | g | g | g
    · rw [g.2.1] at h; cases h
    · exact g.2.2.2.1
    · exact g.2.2.2.2.1
    · rw [g.2.1] at h; cases h
  obtain ⟨t, typ, obj⟩ := x
  cases obj with
  | cc c =>
    simp only [EvOK] at hok
    have h4 : (⟨t, typ, .cc c⟩ : Ev n) ≠ onEv notes j := by
      intro e; have := congrArg Ev.obj e; simp only [onEv] at this; cases this
    by_cases hi : c.instrument = (notes j).instrument
    · rcases hok with h | h
      · subst h
        have hA : astep notes j a ⟨t, SUSTAIN_ON, .cc c⟩ = { a with ped := true } := by simp [astep, hi]
        rw [hA]
        have hnoff : ¬ IsPedOff notes j (⟨t, SUSTAIN_ON, .cc c⟩ : Ev n) := by
          rintro ⟨h, _⟩; exact t01 h
        exact extra_keep (a := a) rfl rfl (fun _ h => absurd h hnoff) (closedNone_keep (a := a) rfl id h4 hex) hex
      · subst h
        have hA : astep notes j a ⟨t, SUSTAIN_OFF, .cc c⟩ =
            if a.act = true ∧ a.e < t then { act := false, e := t, ped := false, tag := .byPed }
            else { a with ped := false } := by simp [astep, hi, Ne.symm t01]
        have hx : IsPedOff notes j (⟨t, SUSTAIN_OFF, .cc c⟩ : Ev n) := ⟨rfl, c, rfl, hi⟩
        rw [hA]
        by_cases hcond : a.act = true ∧ a.e < t
        · rw [if_pos hcond]
          refine ⟨fun _ => ⟨_, by simp, hx, ?_, rfl⟩, (fun h => by cases h), (fun _ h => by cases h)⟩
          rw [← hact_e hcond.1]; exact hcond.2
        · rw [if_neg hcond]
          refine extra_keep (a := a) rfl rfl ?_ (closedNone_keep (a := a) rfl id h4 hex) hex
          intro ht _ _
          obtain ⟨z, hz, r1, r2, _⟩ := hex.byStrike ht
          rcases (evLe_iff _ _).mp (hc.before z hz) with g | g
          · rw [← r2]; exact g
          · have := g.2; rw [r1] at this; simp only at this; omega
    · have hA : astep notes j a ⟨t, typ, .cc c⟩ = a := by simp [astep, hi]
      rw [hA]
      apply extra_irrelevant _ h4 hex
      rintro ⟨_, c', hc', hi'⟩
      simp only [Obj.cc.injEq] at hc'; subst hc'; exact hi hi'
  | note k =>
    simp only [EvOK] at hok
    obtain ⟨hkd, ⟨htyp, ht⟩ | ⟨htyp, ht⟩⟩ := hok
    · subst htyp
      have hnoff : ¬ IsPedOff notes j (⟨t, NOTE_ON, .note k⟩ : Ev n) := by
        rintro ⟨h, _⟩; exact t12 h.symm
      by_cases hkj : k = j
      · subst hkj
        have hA : astep notes k a ⟨t, NOTE_ON, .note k⟩ = { a with act := true } := by simp [astep]
        rw [hA]
        exact extra_keep (a := a) rfl rfl (fun _ h => absurd h hnoff) (fun h => by cases h) hex
      · have h4 : (⟨t, NOTE_ON, .note k⟩ : Ev n) ≠ onEv notes j := by
          intro e
          have := congrArg Ev.obj e
          simp only [onEv, Obj.note.injEq] at this
          exact hkj this
        by_cases hs : (notes k).instrument = (notes j).instrument ∧ (notes k).pitch = (notes j).pitch
        · have hA : astep notes j a ⟨t, NOTE_ON, .note k⟩ =
              if a.ped = true ∧ a.act = true then { a with act := false, e := t, tag := .byStrike } else a := by
            simp [astep, hkj, hs.1, hs.2]
          rw [hA]
          by_cases hcond : a.ped = true ∧ a.act = true
          · rw [if_pos hcond]
            refine ⟨(fun h => by cases h), fun _ => ⟨(⟨t, NOTE_ON, .note k⟩ : Ev n), by simp, rfl, rfl, ?_⟩, (fun _ h => by cases h)⟩
            intro y hy hoff hlt
            show t < y.time
            rcases mem_snoc.mp hy with hy | hy
            · exfalso
              rcases hinv.2 with g | g | g | g
              · rw [g.2.1] at hcond; cases hcond.2
              · -- sounding: everything so far is not after the note's own end
                have h5 : (⟨t, NOTE_ON, .note k⟩ : Ev n) ≠ offEv notes j := by
                  intro e; exact t23 (congrArg Ev.typ e)
                have e1 := evLe_time (ctx_before_off hc g.2.1 h5)
                have e2 := evLe_time (hc.before y hy)
                simp only [offEv] at e1
                grind
              · exact g.2.2.2.2.2.2.2 y hy (Or.inl ⟨hoff, hlt⟩)
              · rw [g.2.1] at hcond; cases hcond.2
            · subst hy; exact absurd hoff hnoff
          · rw [if_neg hcond]
            exact extra_irrelevant hnoff h4 hex
        · have hA : astep notes j a ⟨t, NOTE_ON, .note k⟩ = a := by
            simp only [astep, if_true, hkj, if_false]
            have : ¬ ((notes k).instrument = (notes j).instrument ∧ (notes k).pitch = (notes j).pitch ∧
                a.ped = true ∧ a.act = true) := fun h => hs ⟨h.1, h.2.1⟩
            rw [if_neg this]
          rw [hA]
          exact extra_irrelevant hnoff h4 hex
    · subst htyp
      have hnoff : ¬ IsPedOff notes j (⟨t, NOTE_OFF, .note k⟩ : Ev n) := by
        rintro ⟨h, _⟩; exact t13 h.symm
      have h4 : (⟨t, NOTE_OFF, .note k⟩ : Ev n) ≠ onEv notes j := by
        intro e; exact t23 (congrArg Ev.typ e).symm
      by_cases hkj : k = j
      · subst hkj
        have hA : astep notes k a ⟨t, NOTE_OFF, .note k⟩ =
            if a.ped = false then { a with act := false } else a := by
          simp [astep, Ne.symm t23]
        rw [hA]
        by_cases hp : a.ped = false
        · rw [if_pos hp]
          refine extra_keep (a := a) rfl rfl (fun _ h => absurd h hnoff) ?_ hex
          intro _ htag hon
          cases hact : a.act with
          | false => exact closedNone_keep (a' := a) rfl id h4 hex hact htag hon
          | true =>
            intro hpd
            have hiff := pedP_iff_PD hc hsp ht (by show NOTE_ON ≤ NOTE_OFF; omega)
            have := hinv.1.mpr (hiff.mpr hpd)
            rw [hp] at this; cases this
        · rw [if_neg hp]
          exact extra_irrelevant hnoff h4 hex
      · have hA : astep notes j a ⟨t, NOTE_OFF, .note k⟩ = a := by
          simp [astep, Ne.symm t23, hkj]
        rw [hA]
        exact extra_irrelevant hnoff h4 hex

/-- `InvJ` and `Extra` over the whole sorted event list -/
theorem invX_run {E : List (Ev n)} {PD : Prop} {H LT : Rat}
    (hst : Static (notes := notes) (j := j) E) (hsp : HSpec (notes := notes) (j := j) E PD H LT) :
    ∀ (Q P : List (Ev n)) (a : Abs), (∀ y, y ∈ E ↔ y ∈ P ∨ y ∈ Q) →
      Q.Pairwise (fun a b => evLe a b = true) → (∀ p ∈ P, ∀ q ∈ Q, evLe p q = true) →
      (onIds (P ++ Q)).Nodup → InvJ notes j E PD H P a → Extra notes j PD P a →
      InvJ notes j E PD H (P ++ Q) (Q.foldl (astep notes j) a) ∧
        Extra notes j PD (P ++ Q) (Q.foldl (astep notes j) a) := by
  intro Q
  induction Q with
  | nil => intro P a _ _ _ _ h hx; simpa using ⟨h, hx⟩
  | cons x Q ih =>
    intro P a hsplit hpw hPQ hnd hinv hex
    have hpw' := List.pairwise_cons.mp hpw
    have hc : Ctx (notes := notes) (j := j) E P x Q := {
      split := by intro y; rw [hsplit y, List.mem_cons]
      before := fun y hy => hPQ y hy x (by simp)
      after := hpw'.1
      ok := hst.ok
      uniq := by
        intro hP hx
        subst hx
        rw [onIds_append] at hnd
        have h1 : j ∈ onIds P := mem_onIds (notes := notes) hP
        have h2 : j ∈ onIds (onEv notes j :: Q) := mem_onIds (notes := notes) (by simp)
        exact (List.nodup_append.mp hnd).2.2 j h1 j h2 rfl
      on_mem := hst.on_mem
      off_mem := hst.off_mem
      nondrum := hst.nondrum
      wf := hst.wf
      noov := hst.noov }
    have hstep := invJ_step hc hsp hinv
    have hxstep := extra_step hc hsp hinv hex
    have := ih (P ++ [x]) (astep notes j a x)
      (by intro y; rw [hsplit y, mem_snoc, List.mem_cons, or_assoc])
      hpw'.2
      (by
        intro p hp q hq
        rcases mem_snoc.mp hp with hp | hp
        · exact hPQ p hp q (List.mem_cons_of_mem _ hq)
        · subst hp; exact hpw'.1 q hq)
      (by rw [List.append_assoc]; exact hnd)
      hstep hxstep
    rw [List.append_assoc] at this
    exact this

/-- how the per-note automaton ends, exactly: still active iff the pedal is down at the note's end and nothing closes
it; ended by the pedal iff the pedal is down at its end and its held end is the time of a later pedal release -/
theorem abs_final_exact {E : List (Ev n)} {PD : Prop} {H LT : Rat}
    (hst : Static (notes := notes) (j := j) E) (hsp : HSpec (notes := notes) (j := j) E PD H LT)
    (hpw : E.Pairwise (fun a b => evLe a b = true)) (hnd : (onIds E).Nodup) :
    let aF := E.foldl (astep notes j) (abs0 notes j)
    (aF.act = true ↔ PD ∧ ∀ y ∈ E, ¬ Closing notes j y) ∧
    (aF.tag = .byPed ↔ PD ∧ ∃ y ∈ E, IsPedOff notes j y ∧ (notes j).end_ < y.time ∧ y.time = H) ∧
    (aF.tag = .byPed → aF.e = H) := by
  intro aF
  have h0 : InvJ notes j E PD H [] (abs0 notes j) := by
    refine ⟨?_, Or.inl ⟨by simp, rfl, rfl, rfl⟩⟩
    constructor
    · intro h; cases h
    · rintro ⟨x, hx, _⟩; cases hx
  have hx0 : Extra notes j PD [] (abs0 notes j) :=
    ⟨(fun h => by cases h), (fun h => by cases h), (fun _ _ h => by cases h)⟩
  obtain ⟨hF, hX⟩ := invX_run hst hsp E [] (abs0 notes j) (by simp) hpw (by simp) (by simpa using hnd) h0 hx0
  simp only [List.nil_append] at hF hX
  have hH := e0_le_H hsp hst.off_mem
  rcases hF.2 with h | h | h | h
  · exact absurd hst.on_mem h.1
  · exact absurd hst.off_mem h.2.1
  · -- held to the end
    have hact : aF.act = true := h.2.2.1
    have htag : aF.tag = .none := h.2.2.2.2.2.1
    have hpd : PD := h.2.2.2.2.2.2.1
    have hncl := h.2.2.2.2.2.2.2
    refine ⟨⟨fun _ => ⟨hpd, hncl⟩, fun _ => hact⟩, ⟨?_, ?_⟩, ?_⟩
    · intro hh; rw [htag] at hh; cases hh
    · rintro ⟨_, y, hy, hoff, hlt, _⟩
      exact absurd (Or.inl ⟨hoff, hlt⟩) (hncl y hy)
    · intro hh; rw [htag] at hh; cases hh
  · -- done
    have hact : aF.act = false := h.2.1
    have he : aF.e = H := h.2.2.1
    refine ⟨⟨(fun hh => by rw [hact] at hh; cases hh), ?_⟩, ⟨?_, ?_⟩, fun _ => he⟩
    · rintro ⟨hpd, hncl⟩
      exfalso
      cases htag : aF.tag with
      | none => exact hX.closedNone hact htag h.1 hpd
      | byPed =>
        obtain ⟨y, hy, hoff, hlt, _⟩ := hX.byPed htag
        exact hncl y hy (Or.inl ⟨hoff, hlt⟩)
      | byStrike =>
        obtain ⟨_, y, hy, hs, hyt⟩ := h.2.2.2.2.1 htag
        exact hncl y hy (Or.inr ⟨hs, by rw [hyt]; exact hH⟩)
    · intro htag
      obtain ⟨y, hy, hoff, hlt, hyt⟩ := hX.byPed htag
      exact ⟨h.2.2.2.1 htag, y, hy, hoff, hlt, by rw [hyt, he]⟩
    · rintro ⟨hpd, y, hy, hoff, hlt, hyt⟩
      cases htag : aF.tag with
      | none => exact absurd hpd (hX.closedNone hact htag h.1)
      | byPed => rfl
      | byStrike =>
        obtain ⟨_, _, _, _, r⟩ := hX.byStrike htag
        have := r y hy hoff hlt
        rw [he, hyt] at this
        exact absurd this Rat.lt_irrefl

end perNote

/-! ### the sequence level -/
section seq
variable (ctl : Int) (s : NoteSeq)

/-- the note is ended by a pedal release: the pedal is down at its end and its held end is the time of a later
release of its instrument's pedal (this is when the loop raises `total_time`) -/
def pedClosed (nt : Note) : Prop :=
  nt.isDrum = false ∧ pedalDown ctl s.ccs nt.instrument nt.end_ ∧ heldEnd ctl s nt ∈ releaseTimes ctl s nt

/-- the note is still held when the events run out: the pedal is down at its end and neither a later release nor a
later re-strike ends it (the close-out then ends it at the time of the last event) -/
def stillHeld (nt : Note) : Prop :=
  nt.isDrum = false ∧ pedalDown ctl s.ccs nt.instrument nt.end_ ∧
    releaseTimes ctl s nt = [] ∧ restrikeTimes s nt = []

instance (nt : Note) : Decidable (pedClosed ctl s nt) := by unfold pedClosed; infer_instance
instance (nt : Note) : Decidable (stillHeld ctl s nt) := by unfold stillHeld; infer_instance

/-- `total_time` after `apply_sustain_control_changes` -/
def totalSpec : Rat :=
  if s.notes.any (fun nt => decide (stillHeld ctl s nt)) then
    max (((s.notes.filter (fun nt => decide (pedClosed ctl s nt))).map (heldEnd ctl s)).foldl max s.totalTime)
      (lastEventTime ctl s)
  else ((s.notes.filter (fun nt => decide (pedClosed ctl s nt))).map (heldEnd ctl s)).foldl max s.totalTime

variable {ctl s}

theorem closing_mem (ho : NoSamePitchOverlap s) (j : Fin s.notes.length) (hj : (notesOf s j).isDrum = false) :
    ∀ x ∈ sortedEvents ctl (notesOf s) s.ccs, Closing (notesOf s) j x →
      x.time ∈ releaseTimes ctl s (notesOf s j) ++ restrikeTimes s (notesOf s j) := by
  intro x hx hcl
  rw [List.mem_append]
  rcases hcl with ⟨hoff, hlt⟩ | ⟨hst, hle⟩
  · left
    obtain ⟨c, hc, hn, hi, hv, rfl⟩ := (mem_pedOff ctl s j x).mp ⟨hx, hoff⟩
    simp only [releaseTimes, List.mem_map, List.mem_filter]
    exact ⟨c, ⟨hc, by simp [hn, hi, hv]; exact hlt⟩, rfl⟩
  · right
    obtain ⟨k, hkj, hkd, hki, hkp, rfl⟩ := (mem_strike ctl s j x).mp ⟨hx, hst⟩
    simp only [restrikeTimes, List.mem_map, List.mem_filter]
    refine ⟨notesOf s k, ⟨notesOf_mem s k, ?_⟩, rfl⟩
    have hne : notesOf s k ≠ notesOf s j := by
      intro e
      exact (idx_noov s ho k j hkj hkd hj hki hkp).1 (by rw [e])
    simp only [onEv] at hle
    simp [hne, hkd, hki, hkp, hle]

theorem mem_closing (j : Fin s.notes.length) :
    ∀ t ∈ releaseTimes ctl s (notesOf s j) ++ restrikeTimes s (notesOf s j),
      ∃ x ∈ sortedEvents ctl (notesOf s) s.ccs, Closing (notesOf s) j x ∧ x.time = t := by
  intro t h
  rw [List.mem_append] at h
  rcases h with h | h
  · simp only [releaseTimes, List.mem_map, List.mem_filter] at h
    obtain ⟨c, ⟨hc, hcond⟩, hct⟩ := h
    simp only [decide_eq_true_eq] at hcond
    obtain ⟨hn, hi, hv, hlt⟩ := hcond
    have := (mem_pedOff ctl s j ⟨c.time, SUSTAIN_OFF, .cc c⟩).mpr ⟨c, hc, hn, hi, hv, rfl⟩
    exact ⟨_, this.1, Or.inl ⟨this.2, hlt⟩, hct⟩
  · simp only [restrikeTimes, List.mem_map, List.mem_filter] at h
    obtain ⟨m, ⟨hm, hcond⟩, hmt⟩ := h
    simp only [decide_eq_true_eq] at hcond
    obtain ⟨hne, hmd, hmi, hmp, hle⟩ := hcond
    obtain ⟨k, rfl⟩ := exists_notesOf s hm
    have hkj : k ≠ j := fun e => hne (by rw [e])
    have := (mem_strike ctl s j (onEv (notesOf s) k)).mpr ⟨k, hkj, hmd, hmi, hmp, rfl⟩
    exact ⟨_, this.1, Or.inr ⟨this.2, hle⟩, hmt⟩

theorem noClosing_iff (ho : NoSamePitchOverlap s) (j : Fin s.notes.length) (hj : (notesOf s j).isDrum = false) :
    (∀ y ∈ sortedEvents ctl (notesOf s) s.ccs, ¬ Closing (notesOf s) j y) ↔
      (releaseTimes ctl s (notesOf s j) = [] ∧ restrikeTimes s (notesOf s j) = []) := by
  constructor
  · intro h
    have : releaseTimes ctl s (notesOf s j) ++ restrikeTimes s (notesOf s j) = [] := by
      rw [List.eq_nil_iff_forall_not_mem]
      intro t ht
      obtain ⟨x, hx, hcl, _⟩ := mem_closing j t ht
      exact h x hx hcl
    exact List.append_eq_nil_iff.mp this
  · rintro ⟨h1, h2⟩ y hy hcl
    have := closing_mem ho j hj y hy hcl
    rw [h1, h2] at this
    cases this

theorem pedOffAt_iff (j : Fin s.notes.length) (t : Rat) :
    (∃ y ∈ sortedEvents ctl (notesOf s) s.ccs, IsPedOff (notesOf s) j y ∧ (notesOf s j).end_ < y.time ∧ y.time = t) ↔
      t ∈ releaseTimes ctl s (notesOf s j) := by
  simp only [releaseTimes, List.mem_map, List.mem_filter, decide_eq_true_eq]
  constructor
  · rintro ⟨y, hy, hoff, hlt, hyt⟩
    obtain ⟨c, hc, hn, hi, hv, rfl⟩ := (mem_pedOff ctl s j y).mp ⟨hy, hoff⟩
    exact ⟨c, ⟨hc, hn, hi, hv, hlt⟩, hyt⟩
  · rintro ⟨c, ⟨hc, hn, hi, hv, hlt⟩, hct⟩
    have := (mem_pedOff ctl s j ⟨c.time, SUSTAIN_OFF, .cc c⟩).mpr ⟨c, hc, hn, hi, hv, rfl⟩
    exact ⟨_, this.1, this.2, hlt, hct⟩

/-- the exact result of the core of `apply_sustain_control_changes` -/
theorem core_total (hw : WellFormed s) (ho : NoSamePitchOverlap s) :
    applyCore ctl (notesOf s) s.ccs s.totalTime = .ok (specNotes ctl s, totalSpec ctl s) := by
  obtain ⟨T, h1, _⟩ := core_spec ctl s hw ho
  have hpw := sorted_pairwise ctl (notesOf s) s.ccs
  have hndE := sorted_onIds_nodup ctl (notesOf s) s.ccs
  obtain ⟨stF, hrun, htime, hsim⟩ := sim_run (T0 := s.totalTime) (distinctStarts_of s ho)
    (sortedEvents ctl (notesOf s) s.ccs) (sorted_ok ctl (notesOf s) s.ccs) hndE (sim_init _)
  have htime' : stF.time = lastTimeOf 0 (sortedEvents ctl (notesOf s) s.ccs) := htime
  have hT : T = (closeOut stF).total := by
    have h2 : applyCore ctl (notesOf s) s.ccs s.totalTime =
        .ok ((closeOut stF).seq.map (closeOut stF).store, (closeOut stF).total) := by
      simp only [applyCore, hrun]
    rw [h1] at h2
    injection h2 with h2
    exact (Prod.mk.inj h2).2
  rw [h1, hT]
  congr 2
  -- per-note facts
  have honE : ∀ j, (notesOf s j).isDrum = false → onEv (notesOf s) j ∈ sortedEvents ctl (notesOf s) s.ccs :=
    fun j hj => (mem_sorted ctl _ _ _).mpr (Or.inl ⟨j, hj, Or.inl rfl⟩)
  have hfx : ∀ j, (hj : (notesOf s j).isDrum = false) → _ := fun j hj =>
    abs_final_exact (notes := notesOf s) (j := j)
      { ok := sorted_ok ctl (notesOf s) s.ccs
        on_mem := honE j hj
        off_mem := (mem_sorted ctl _ _ _).mpr (Or.inl ⟨j, hj, Or.inr rfl⟩)
        nondrum := hj
        wf := idx_wf s hw j hj
        noov := fun k hkj hkd hki hkp => by
          have := idx_noov s ho j k (fun e => hkj e.symm) hj hkd hki.symm hkp.symm
          exact ⟨fun e => this.1 e.symm, this.2⟩ }
      (hspec_of_spec ctl s hw ho j hj) hpw hndE
  generalize hE : sortedEvents ctl (notesOf s) s.ccs = E at *
  have hAct : ∀ j, (notesOf s j).isDrum = false →
      ((E.foldl (astep (notesOf s) j) (abs0 (notesOf s) j)).act = true ↔ stillHeld ctl s (notesOf s j)) := by
    intro j hj
    rw [(hfx j hj).1]
    have := noClosing_iff (ctl := ctl) ho j hj
    rw [hE] at this
    rw [this]
    unfold stillHeld
    constructor
    · rintro ⟨a, b, c⟩; exact ⟨hj, a, b, c⟩
    · rintro ⟨_, a, b, c⟩; exact ⟨a, b, c⟩
  have hPed : ∀ j, (notesOf s j).isDrum = false →
      ((E.foldl (astep (notesOf s) j) (abs0 (notesOf s) j)).tag = .byPed ↔ pedClosed ctl s (notesOf s j)) := by
    intro j hj
    rw [(hfx j hj).2.1]
    have := pedOffAt_iff (ctl := ctl) (s := s) j (heldEnd ctl s (notesOf s j))
    rw [hE] at this
    rw [this]
    unfold pedClosed
    constructor
    · rintro ⟨a, b⟩; exact ⟨hj, a, b⟩
    · rintro ⟨_, a, b⟩; exact ⟨a, b⟩
  -- the total before the close-out
  have hmemL : ∀ t, t ∈ (s.notes.filter (fun nt => decide (pedClosed ctl s nt))).map (heldEnd ctl s) ↔
      ∃ j, (notesOf s j).isDrum = false ∧ pedClosed ctl s (notesOf s j) ∧ heldEnd ctl s (notesOf s j) = t := by
    intro t
    simp only [List.mem_map, List.mem_filter, decide_eq_true_eq]
    constructor
    · rintro ⟨nt, ⟨hnt, hp⟩, rfl⟩
      obtain ⟨j, rfl⟩ := exists_notesOf s hnt
      exact ⟨j, hp.1, hp, rfl⟩
    · rintro ⟨j, _, hp, rfl⟩
      exact ⟨notesOf s j, ⟨notesOf_mem s j, hp⟩, rfl⟩
  have htot : stF.total =
      ((s.notes.filter (fun nt => decide (pedClosed ctl s nt))).map (heldEnd ctl s)).foldl max s.totalTime := by
    apply Rat.le_antisymm
    · rcases hsim.tot_wit with h | ⟨j, hj, htag, he⟩
      · rw [h]; exact foldl_max_ge_init _ _
      · rw [← he]
        apply foldl_max_ge_mem
        rw [hmemL]
        exact ⟨j, hj, (hPed j hj).mp htag, ((hfx j hj).2.2 htag).symm⟩
    · rcases foldl_max_mem ((s.notes.filter (fun nt => decide (pedClosed ctl s nt))).map (heldEnd ctl s))
          s.totalTime with h | h
      · rw [h]; exact hsim.tot_ge
      · rw [hmemL] at h
        obtain ⟨j, hj, hp, hh⟩ := h
        have htag := (hPed j hj).mpr hp
        rw [← hh, ← (hfx j hj).2.2 htag]
        exact hsim.tot_cov j hj htag
  -- the close-out
  obtain ⟨c1, c2, c3, c4⟩ := foldl_closeNote (stF.active.flatMap (·.2)) stF
  have hids : ∀ j, j ∈ stF.active.flatMap (·.2) ↔
      ((notesOf s j).isDrum = false ∧ (E.foldl (astep (notesOf s) j) (abs0 (notesOf s) j)).act = true) := by
    intro j
    rw [List.mem_flatMap]
    constructor
    · rintro ⟨⟨k, l⟩, he, hjl⟩
      have hd := dget_of_mem stF.active k l [] hsim.keys he
      have hm : j ∈ dget stF.active k [] := by rw [hd]; exact hjl
      have hjk := hsim.act_mem k j hm
      refine ⟨hjk.1, (hsim.act_iff j hjk.1).mpr ?_⟩
      rw [hjk.2]; exact hm
    · rintro ⟨hj, hact⟩
      have hm := (hsim.act_iff j hj).mp hact
      have hne : dget stF.active (notesOf s j).instrument [] ≠ [] := by
        intro e; rw [e] at hm; cases hm
      exact ⟨_, mem_of_dget_ne _ _ _ hne, hm⟩
  show (closeOut stF).total = totalSpec ctl s
  unfold closeOut totalSpec
  rw [c2, ← htot]
  by_cases hany : s.notes.any (fun nt => decide (stillHeld ctl s nt)) = true
  · rw [if_pos hany]
    rw [List.any_eq_true] at hany
    obtain ⟨nt, hnt, hsh⟩ := hany
    simp only [decide_eq_true_eq] at hsh
    obtain ⟨j, rfl⟩ := exists_notesOf s hnt
    have hj := hsh.1
    have hjm : j ∈ stF.active.flatMap (·.2) := (hids j).mpr ⟨hj, (hAct j hj).mpr hsh⟩
    have hne : stF.active.flatMap (·.2) ≠ [] := by intro e; rw [e] at hjm; cases hjm
    rw [if_neg hne]
    have hLT : lastEventTime ctl s = stF.time := by
      rw [htime', ← hE]
      exact lastEventTime_eq ctl s _ (by rw [hE]; exact honE j hj)
    rw [hLT]
    split <;> grind
  · rw [if_neg hany]
    have hnil : stF.active.flatMap (·.2) = [] := by
      rw [List.eq_nil_iff_forall_not_mem]
      intro j hjm
      obtain ⟨hj, hact⟩ := (hids j).mp hjm
      apply hany
      rw [List.any_eq_true]
      exact ⟨notesOf s j, notesOf_mem s j, by simpa using (hAct j hj).mp hact⟩
    rw [if_pos hnil]

/-- **the exact result of `apply_sustain_control_changes`** on a well-formed sequence without same-pitch overlaps -/
theorem applySustain_exact (ctl : Int) (s : NoteSeq) (hq : s.isQuantized = false) (hw : WellFormed s)
    (ho : NoSamePitchOverlap s) :
    applySustain ctl s = .ok { s with notes := specNotes ctl s, totalTime := totalSpec ctl s } := by
  have h1 : applyCore ctl (fun (i : Fin s.notes.length) => s.notes[i]) s.ccs s.totalTime =
      .ok (specNotes ctl s, totalSpec ctl s) := core_total hw ho
  simp only [applySustain, hq, Bool.false_eq_true, if_false, h1]

end seq

/-! ### the exact total is a function of the bags of notes and control changes -/

theorem foldl_maxR_perm {l l' : List Rat} (h : l.Perm l') (a : Rat) : l.foldl max a = l'.foldl max a := by
  induction h generalizing a with
  | nil => rfl
  | cons x _ ih => simp only [List.foldl_cons]; exact ih _
  | swap x y l =>
    simp only [List.foldl_cons]
    congr 1
    grind
  | trans _ _ ih1 ih2 => exact (ih1 a).trans (ih2 a)

theorem releaseTimes_perm (ctl : Int) {s s' : NoteSeq} (h : NSPerm s s') (nt : Note) :
    (releaseTimes ctl s nt).Perm (releaseTimes ctl s' nt) := by
  unfold releaseTimes; exact (h.ccs.filter _).map _

theorem restrikeTimes_perm {s s' : NoteSeq} (h : NSPerm s s') (nt : Note) :
    (restrikeTimes s nt).Perm (restrikeTimes s' nt) := by
  unfold restrikeTimes; exact (h.notes.filter _).map _

theorem pedClosed_perm (ctl : Int) {s s' : NoteSeq} (h : NSPerm s s') (nt : Note) :
    pedClosed ctl s nt ↔ pedClosed ctl s' nt := by
  unfold pedClosed
  rw [pedalDown_perm ctl h.ccs, heldEnd_perm ctl h, (releaseTimes_perm ctl h nt).mem_iff]

theorem stillHeld_perm (ctl : Int) {s s' : NoteSeq} (h : NSPerm s s') (nt : Note) :
    stillHeld ctl s nt ↔ stillHeld ctl s' nt := by
  unfold stillHeld
  rw [pedalDown_perm ctl h.ccs]
  have e1 : releaseTimes ctl s nt = [] ↔ releaseTimes ctl s' nt = [] :=
    ⟨fun e => (e ▸ releaseTimes_perm ctl h nt).symm.eq_nil, fun e => (e ▸ (releaseTimes_perm ctl h nt).symm).symm.eq_nil⟩
  have e2 : restrikeTimes s nt = [] ↔ restrikeTimes s' nt = [] :=
    ⟨fun e => (e ▸ restrikeTimes_perm h nt).symm.eq_nil, fun e => (e ▸ (restrikeTimes_perm h nt).symm).symm.eq_nil⟩
  rw [e1, e2]

theorem totalSpec_perm (ctl : Int) {s s' : NoteSeq} (h : NSPerm s s') : totalSpec ctl s = totalSpec ctl s' := by
  unfold totalSpec
  have f1 : (fun nt => decide (stillHeld ctl s nt)) = (fun nt => decide (stillHeld ctl s' nt)) := by
    funext nt; exact decide_eq_decide.mpr (stillHeld_perm ctl h nt)
  have f2 : (fun nt => decide (pedClosed ctl s nt)) = (fun nt => decide (pedClosed ctl s' nt)) := by
    funext nt; exact decide_eq_decide.mpr (pedClosed_perm ctl h nt)
  have f3 : heldEnd ctl s = heldEnd ctl s' := by funext nt; exact heldEnd_perm ctl h nt
  rw [f1, f2, f3, h.notes.any_eq, foldl_maxR_perm ((h.notes.filter _).map _), ← h.totalTime,
    lastEventTime_perm ctl h]

end NSV.C12
