import NoteSeqVerif.Proofs.C06Float
import NoteSeqVerif.Model.C06P
/-! C06 (performance half) — the interface between the float half and the discrete half.

`Grid T q S B`: `T` is the time the renderer computes for (relative) step `k`, `q` the quantizer applied
afterwards; `T` is monotone and `q (T k) = S + k` for `0 ≤ k < B`.  The discrete theorems only use this
interface; `grid_abs` / `grid_metric` instantiate it from the shared float lemma (`Proofs/C06Float.lean`) for
`Performance` / `NotePerformance` (`1.0 / steps_per_second`) and `MetricPerformance`
(`60.0 / (steps_per_quarter * qpm)`) with the exact float operation order of `performance_lib`.
Also: what the C01 quantizers do to a sequence whose note times lie on such a grid. -/
namespace NSV.C06P
open NSV NSV.C06 NSV.C01 NSV.C07

structure Grid (T : Int → Rat) (q : Rat → Int) (S B : Int) : Prop where
  mono : ∀ k k' : Int, k ≤ k' → T k ≤ T k'
  inv : ∀ k : Int, 0 ≤ k → k < B → q (T k) = S + k

theorem Grid.inj {T q S B} (g : Grid T q S B) {k k' : Int} (h0 : 0 ≤ k) (h1 : k < B) (h0' : 0 ≤ k')
    (h1' : k' < B) (h : T k = T k') : k = k' := by
  have a := g.inv k h0 h1
  have b := g.inv k' h0' h1'
  rw [h] at a
  omega

theorem Grid.lt {T q S B} (g : Grid T q S B) {k k' : Int} (h0 : 0 ≤ k) (h1' : k' < B) (h : k < k') :
    T k < T k' := by
  rcases lt_or_eq_of_le (g.mono k k' (le_of_lt h)) with h' | h'
  · exact h'
  · have := g.inj h0 (by omega) (by omega) h1' h'
    omega

theorem Grid.lt_iff {T q S B} (g : Grid T q S B) {k k' : Int} (h0 : 0 ≤ k) (_h1 : k < B) (_h0' : 0 ≤ k')
    (h1' : k' < B) : T k < T k' ↔ k < k' := by
  constructor
  · intro h
    by_contra hn
    have := g.mono k' k (by omega)
    exact absurd h (not_lt.mpr this)
  · exact g.lt h0 h1'

theorem Grid.eq_iff {T q S B} (g : Grid T q S B) {k k' : Int} (h0 : 0 ≤ k) (h1 : k < B) (h0' : 0 ≤ k')
    (h1' : k' < B) : T k = T k' ↔ k = k' :=
  ⟨g.inj h0 h1 h0' h1', fun h => by rw [h]⟩

theorem stepTimeR_mono {R : ℚ → ℚ} (hR : Rounding R) {σ : ℚ} (hσ : 0 ≤ σ) (sst : ℚ) (k k' : Int)
    (h : k ≤ k') : stepTimeR R σ sst k ≤ stepTimeR R σ sst k' := by
  unfold stepTimeR
  apply hR.mono
  have : (k : ℚ) ≤ (k' : ℚ) := by exact_mod_cast h
  have := hR.mono _ _ (mul_le_mul_of_nonneg_right this hσ)
  linarith

/-- the time grid of `Performance.to_sequence` / `NotePerformance.to_sequence` against
`quantize_note_sequence_absolute` at the same `steps_per_second` -/
theorem grid_abs {R : ℚ → ℚ} (hR : Rounding R) (sps S B : Int) (hs : 0 < sps) (hS : 0 ≤ S)
    (hB : S + B ≤ 2 ^ 40) :
    Grid (stepTimeR R (secPerStepAbsR R sps) (seqStartR R (secPerStepAbsR R sps) S))
      (fun t => qstepR R C01.Gen.QUANTIZE_CUTOFF t (sps : Rat)) S B where
  mono := by
    intro k k' h
    have hsq : (0 : ℚ) < sps := by exact_mod_cast hs
    have h2 : 0 ≤ secPerStepAbsR R sps := by
      unfold secPerStepAbsR
      exact hR.nonneg (by positivity)
    exact stepTimeR_mono hR h2 _ k k' h
  inv := by
    intro k h0 h1
    exact render_quantize_exact_abs hR sps S k hs hS h0 (by omega)

/-- the time grid of `MetricPerformance.to_sequence(qpm)` against `quantize_note_sequence` at the same
`steps_per_quarter` and that tempo -/
theorem grid_metric {R : ℚ → ℚ} (hR : Rounding R) (qpm : ℚ) (spq S B : Int) (hq : 0 < qpm) (hs : 0 < spq)
    (hS : 0 ≤ S) (hB : S + B ≤ 2 ^ 40) :
    Grid (stepTimeR R (secPerStepMetricR R qpm spq) (seqStartR R (secPerStepMetricR R qpm spq) S))
      (fun t => qstepR R C01.Gen.QUANTIZE_CUTOFF t (spsR R spq qpm)) S B where
  mono := by
    intro k k' h
    have hsq : (0 : ℚ) < spq := by exact_mod_cast hs
    have h1 : 0 ≤ R ((spq : ℚ) * qpm) := hR.nonneg (by positivity)
    have h2 : 0 ≤ secPerStepMetricR R qpm spq := by
      unfold secPerStepMetricR
      exact hR.nonneg (div_nonneg (by norm_num) h1)
    exact stepTimeR_mono hR h2 _ k k' h
  inv := by
    intro k h0 h1
    exact render_quantize_exact_metric hR qpm spq S k hq hs hS h0 (by omega)

/-! ### quantizing notes whose times lie on the grid -/

/-- `_quantize_notes` on notes that all quantize to a non-negative start and a later end: every note gets its two
steps, nothing else changes, no error -/
theorem qNotes_ok (q : Rat → Int) : ∀ (l : List Note) (tot : Int),
    (∀ n ∈ l, 0 ≤ q n.start ∧ q n.start < q n.end_) →
    ∃ tot', qNotes q l tot = .ok (l.map (fun n => { n with qs := q n.start, qe := q n.end_ }), tot') := by
  intro l
  induction l with
  | nil => intro tot _; exact ⟨tot, rfl⟩
  | cons n ns ih =>
    intro tot h
    obtain ⟨h0, h1⟩ := h n (List.mem_cons_self ..)
    have hne : ¬ q n.end_ = q n.start := by omega
    obtain ⟨tot', ht⟩ := ih (if tot < q n.end_ then q n.end_ else tot)
      (fun m hm => h m (List.mem_cons_of_mem _ hm))
    refine ⟨tot', ?_⟩
    simp only [qNotes, hne, ↓reduceIte, List.map_cons]
    have : ¬ (q n.start < 0 ∨ q n.end_ < 0) := by omega
    simp only [this, ↓reduceIte, ht]

/-- a rendered note after quantization on the grid: `mkNote` with its two steps filled in -/
def qnote (R : Rat → Rat) (c : RenderCfg) (S : Int) (r : RNote) : Note :=
  { mkNote R c r with qs := S + r.s, qe := S + r.e }

/-- a rendered note inside the grid: starts at or after the performance's start, ends later, before the bound -/
def RNote.inB (B : Int) (r : RNote) : Prop := 0 ≤ r.s ∧ r.s < r.e ∧ r.e < B

theorem mkNote_start (R : Rat → Rat) (c : RenderCfg) (r : RNote) :
    (mkNote R c r).start = stepTimeR R c.sigma c.sst r.s := rfl

theorem mkNote_end (R : Rat → Rat) (c : RenderCfg) (hmd : c.maxDur = none) (r : RNote) :
    (mkNote R c r).end_ = stepTimeR R c.sigma c.sst r.e := by
  simp only [mkNote, hmd]

theorem qNotes_grid {R : Rat → Rat} {c : RenderCfg} {q : Rat → Int} {S B : Int}
    (g : Grid (stepTimeR R c.sigma c.sst) q S B) (hS : 0 ≤ S) (hmd : c.maxDur = none)
    (rs : List RNote) (h : ∀ r ∈ rs, r.inB B) (tot : Int) :
    ∃ tot', qNotes q (rs.map (mkNote R c)) tot = .ok (rs.map (qnote R c S), tot') := by
  have hq : ∀ r ∈ rs, q (mkNote R c r).start = S + r.s ∧ q (mkNote R c r).end_ = S + r.e := by
    intro r hr
    obtain ⟨h0, h1, h2⟩ := h r hr
    rw [mkNote_start, mkNote_end R c hmd]
    exact ⟨g.inv r.s h0 (by omega), g.inv r.e (by omega) h2⟩
  obtain ⟨tot', ht⟩ := qNotes_ok q (rs.map (mkNote R c)) tot (by
    intro n hn
    obtain ⟨r, hr, rfl⟩ := List.mem_map.mp hn
    obtain ⟨h0, h1, h2⟩ := h r hr
    rw [(hq r hr).1, (hq r hr).2]
    omega)
  refine ⟨tot', ?_⟩
  rw [ht, List.map_map]
  congr 2
  apply List.map_congr_left
  intro r hr
  simp only [Function.comp, qnote, (hq r hr).1, (hq r hr).2]

/-- `quantize_note_sequence_absolute` on a rendered sequence (notes on the grid, no control changes, no text
annotations): no error, every note gets `start_step + its steps` -/
theorem quantizeAbs_grid {R : Rat → Rat} {c : RenderCfg} {S B : Int} (cutoff : Rat) (sps : Int) (ns : NoteSeq)
    (rs : List RNote) (hn : ns.notes = rs.map (mkNote R c)) (hcc : ns.ccs = []) (htx : ns.texts = [])
    (g : Grid (stepTimeR R c.sigma c.sst) (fun t => qstepR R cutoff t (sps : Rat)) S B) (hS : 0 ≤ S)
    (hmd : c.maxDur = none) (h : ∀ r ∈ rs, r.inB B) :
    ∃ qs, quantizeAbsR R cutoff ns sps = .ok qs ∧ qs.notes = rs.map (qnote R c S) ∧ qs.sps = sps ∧
      qs.spq = 0 := by
  unfold quantizeAbsR quantizeNotes
  simp only [hn, hcc, htx]
  obtain ⟨tot', ht⟩ := qNotes_grid g hS hmd rs h (qstepR R cutoff ns.totalTime (sps : Rat))
  rw [ht]
  simp only [qCCs, qTexts]
  exact ⟨_, rfl, rfl, rfl, rfl⟩

/-- `quantize_note_sequence` on a rendered metric sequence (no time signature, the one tempo `to_sequence` adds) -/
theorem quantizeRel_grid {R : Rat → Rat} {c : RenderCfg} {S B : Int} (cutoff dq qpm : Rat) (spq : Int) (ns : NoteSeq)
    (rs : List RNote) (hn : ns.notes = rs.map (mkNote R c)) (hcc : ns.ccs = []) (htx : ns.texts = [])
    (hts : ns.timeSigs = []) (htp : ns.tempos = [⟨0, qpm⟩])
    (g : Grid (stepTimeR R c.sigma c.sst) (fun t => qstepR R cutoff t (spsR R spq qpm)) S B) (hS : 0 ≤ S)
    (hmd : c.maxDur = none) (h : ∀ r ∈ rs, r.inB B) :
    ∃ qs, quantizeRelR R cutoff dq ns spq = .ok qs ∧ qs.notes = rs.map (qnote R c S) ∧ qs.spq = spq ∧
      qs.sps = 0 := by
  unfold quantizeRelR
  have h1 : checkTimeSigs ns.timeSigs = .ok ⟨0, 4, 4⟩ := by rw [hts]; rfl
  have h2 : checkTempos dq ns.tempos = .ok ⟨0, qpm⟩ := by
    rw [htp]
    simp [checkTempos, sortByRat]
  rw [h1, h2]
  have h3 : isPow2 4 = true := by decide
  simp only [h3, not_true_eq_false, ↓reduceIte]
  unfold quantizeNotes
  simp only [hn, hcc, htx]
  obtain ⟨tot', ht⟩ := qNotes_grid g hS hmd rs h (qstepR R cutoff ns.totalTime (spsR R spq qpm))
  rw [ht]
  simp only [qCCs, qTexts]
  exact ⟨_, rfl, rfl, rfl, rfl⟩

end NSV.C06P
