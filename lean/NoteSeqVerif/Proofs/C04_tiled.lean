import NoteSeqVerif.Proofs.C04_repeats
/-! C04 — `expand_section_groups` (notes), the FULL result: every section copy is the section's notes
shifted to zero and then by the accumulated duration of the copies before it (`placed`).  For sections
that are tiled by their notes (as every parsed ABC tune's are) the onsets of the expansion are the
running sums of the durations in expansion order.  Exact arithmetic (`R = id`). -/
namespace NSV.C04
open NSV

/-- the duration of a note -/
def dur (n : Note) : Rat := n.end_ - n.start

theorem pd_eq (n : Note) : pd n = (n.pitch, dur n) := rfl

/-! ## consecutive intervals -/

theorem spans_shift (t c : Rat) (ds : List Rat) :
    (spans t ds).map (fun p => (p.1 + c, p.2 + c)) = spans (t + c) ds := by
  induction ds generalizing t with
  | nil => rfl
  | cons d r ih =>
    simp only [spans, List.map_cons, ih]
    congr 2 <;> ring

theorem spans_length (t : Rat) (ds : List Rat) : (spans t ds).length = ds.length := by
  induction ds generalizing t with
  | nil => rfl
  | cons d r ih => simp [spans, ih]

theorem sum_nonneg' (l : List Rat) (h : ∀ x ∈ l, 0 ≤ x) : 0 ≤ l.sum := by
  induction l with
  | nil => simp
  | cons a r ih =>
    have := h a (by simp)
    have := ih (fun x hx => h x (by simp [hx]))
    simp only [List.sum_cons]; linarith

/-- a list of notes that follow each other without gap from `s` on -/
def Tiled (s : Rat) (ns : List Note) : Prop := ns.map span = spans s (ns.map dur)

theorem Tiled.nil (s : Rat) : Tiled s [] := rfl

theorem Tiled.cons {s : Rat} {n : Note} {r : List Note} (h : Tiled s (n :: r)) :
    n.start = s ∧ Tiled n.end_ r := by
  unfold Tiled at h ⊢
  simp only [List.map_cons, spans, List.cons.injEq, span, Prod.mk.injEq] at h
  obtain ⟨⟨h1, _⟩, h2⟩ := h
  refine ⟨h1, ?_⟩
  have : s + dur n = n.end_ := by rw [← h1]; unfold dur; ring
  rw [this] at h2
  exact h2

theorem Tiled.mk_cons {s : Rat} {n : Note} {r : List Note} (h1 : n.start = s) (h2 : Tiled n.end_ r) :
    Tiled s (n :: r) := by
  unfold Tiled at h2 ⊢
  have : s + dur n = n.end_ := by rw [← h1]; unfold dur; ring
  simp only [List.map_cons, spans, span, this, h2, h1]

theorem Tiled.append {s : Rat} {a b : List Note} (ha : Tiled s a) (hb : Tiled (s + (a.map dur).sum) b) :
    Tiled s (a ++ b) := by
  unfold Tiled at *
  rw [List.map_append, List.map_append, spans_append, ha, hb]

theorem Tiled.snoc {s : Rat} {a : List Note} {n : Note} (ha : Tiled s a) (hn : n.start = s + (a.map dur).sum) :
    Tiled s (a ++ [n]) :=
  ha.append (Tiled.mk_cons hn (Tiled.nil _))

/-- in a tiled list of notes of positive duration every note lies inside `[s, s + Σ durations]` -/
theorem Tiled.bounds : ∀ {s : Rat} {ns : List Note}, Tiled s ns → (∀ n ∈ ns, n.start < n.end_) →
    ∀ n ∈ ns, s ≤ n.start ∧ n.end_ ≤ s + (ns.map dur).sum
  | _, [], _, _ => by simp
  | s, n :: r, h, hp => by
    obtain ⟨h1, h2⟩ := h.cons
    have hn := hp n (by simp)
    have ih := Tiled.bounds h2 (fun m hm => hp m (by simp [hm]))
    have hsum : 0 ≤ (r.map dur).sum := by
      apply sum_nonneg'
      intro x hx
      obtain ⟨m, hm, rfl⟩ := List.mem_map.mp hx
      have := hp m (by simp [hm])
      unfold dur; linarith
    have he : s + ((n :: r).map dur).sum = n.end_ + (r.map dur).sum := by
      simp only [List.map_cons, List.sum_cons]; rw [← h1]; unfold dur; ring
    intro m hm
    rcases List.mem_cons.mp hm with rfl | hm
    · exact ⟨by rw [h1], by rw [he]; linarith⟩
    · obtain ⟨a, b⟩ := ih m hm
      exact ⟨by rw [← h1]; linarith, by rw [he]; exact b⟩

theorem Tiled.sorted : ∀ {s : Rat} {ns : List Note}, Tiled s ns → (∀ n ∈ ns, n.start < n.end_) →
    ns.Pairwise (fun a b => a.start ≤ b.start)
  | _, [], _, _ => List.Pairwise.nil
  | s, n :: r, h, hp => by
    obtain ⟨h1, h2⟩ := h.cons
    have hpr : ∀ m ∈ r, m.start < m.end_ := fun m hm => hp m (by simp [hm])
    refine List.Pairwise.cons ?_ (Tiled.sorted h2 hpr)
    intro m hm
    have := (Tiled.bounds h2 hpr m hm).1
    have := hp n (by simp)
    linarith

theorem durs_sum_pos {ns : List Note} (hp : ∀ n ∈ ns, n.start < n.end_) (hne : ns ≠ []) :
    0 < (ns.map dur).sum := by
  cases ns with
  | nil => exact absurd rfl hne
  | cons n r =>
    have h1 : 0 < dur n := by have := hp n (by simp); unfold dur; linarith
    have h2 : 0 ≤ (r.map dur).sum := by
      apply sum_nonneg'
      intro x hx
      obtain ⟨m, hm, rfl⟩ := List.mem_map.mp hx
      have := hp m (by simp [hm])
      unfold dur; linarith
    simp only [List.map_cons, List.sum_cons]; linarith

theorem Tiled.last {s : Rat} {ns : List Note} {n : Note} (h : Tiled s ns) (hl : ns.getLast? = some n) :
    n.end_ = s + (ns.map dur).sum := by
  induction ns generalizing s with
  | nil => simp at hl
  | cons m r ih =>
    obtain ⟨h1, h2⟩ := h.cons
    have he : s + ((m :: r).map dur).sum = m.end_ + (r.map dur).sum := by
      simp only [List.map_cons, List.sum_cons]; rw [← h1]; unfold dur; ring
    cases r with
    | nil =>
      simp only [List.getLast?_singleton, Option.some.injEq] at hl
      subst hl; rw [he]; simp
    | cons m' r' =>
      rw [List.getLast?_cons_cons] at hl
      rw [he]; exact ih h2 hl

/-! ## blocks tiled by their notes -/

/-- every section is tiled by its notes from its start to the start of the next one (`T` for the last) -/
def BlocksTiled : List Block → Rat → Prop
  | [], _ => True
  | (s, ns) :: rest, T => Tiled s ns ∧ s + (ns.map dur).sum = endOf rest T ∧ BlocksTiled rest T

theorem BlocksTiled_snoc {bs : List Block} {s T : Rat} {ns : List Note} (h : BlocksTiled bs s)
    (h1 : Tiled s ns) (h2 : s + (ns.map dur).sum = T) : BlocksTiled (bs ++ [(s, ns)]) T := by
  induction bs with
  | nil => exact ⟨h1, h2, trivial⟩
  | cons b r ih =>
    obtain ⟨s0, ns0⟩ := b
    obtain ⟨a1, a2, a3⟩ := h
    refine ⟨a1, ?_, ih a3⟩
    show s0 + (ns0.map dur).sum = endOf (r ++ [(s, ns)]) T
    rw [endOf_snoc]; exact a2

theorem BlocksTiled_get {bs : List Block} {T : Rat} (h : BlocksTiled bs T) {k : Nat} {s : Rat} {ns : List Note}
    (hk : bs[k]? = some (s, ns)) : Tiled s ns ∧ s + (ns.map dur).sum = endOf (bs.drop (k + 1)) T := by
  induction bs generalizing k with
  | nil => simp at hk
  | cons b r ih =>
    obtain ⟨s0, ns0⟩ := b
    cases k with
    | zero =>
      simp only [List.getElem?_cons_zero, Option.some.injEq, Prod.mk.injEq] at hk
      obtain ⟨rfl, rfl⟩ := hk
      exact ⟨h.1, by simpa using h.2.1⟩
    | succ k =>
      simp only [List.getElem?_cons_succ] at hk
      simpa using ih h.2.2 hk

/-- notes of blocks that are tiled, well formed and positive are in onset order -/
theorem blockNotes_sorted : ∀ {bs : List Block} {T : Rat}, BlocksWF bs T → BlocksTiled bs T →
    (∀ n ∈ blockNotes bs, n.start < n.end_) → (blockNotes bs).Pairwise (fun a b => a.start ≤ b.start)
  | [], _, _, _, _ => by simp [blockNotes]
  | (s, ns) :: rest, T, hwf, ht, hp => by
    have hnotes : blockNotes ((s, ns) :: rest) = ns ++ blockNotes rest := by simp [blockNotes]
    rw [hnotes] at hp ⊢
    rw [List.pairwise_append]
    refine ⟨ht.1.sorted (fun n hn => hp n (List.mem_append_left _ hn)),
      blockNotes_sorted hwf.2.2 ht.2.2 (fun n hn => hp n (List.mem_append_right _ hn)), ?_⟩
    intro a ha b hb
    have h1 := (hwf.2.1 a ha).2.1
    have h2 := later_notes_ge hwf.2.2 b hb
    linarith

/-! ## the full result of the expansion -/

/-- `concatenate_sequences` on (notes shifted to zero, total, duration): every piece shifted by the
durations of the pieces before it -/
def placed : Rat → List (List Note × Rat × Rat) → List Note
  | _, [] => []
  | c, (ns, _, d) :: r => ns.map (fun n => { n with start := n.start + c, end_ := n.end_ + c }) ++ placed (c + d) r

theorem concatNotes_full (es : List (List Note × Rat × Rat)) (cur : Rat) (hc : 0 ≤ cur)
    (h : ∀ e ∈ es, e.2.1 ≤ e.2.2) (hd : ∀ e ∈ es, 0 ≤ e.2.2) : concatNotes id es cur = .ok (placed cur es) := by
  induction es generalizing cur with
  | nil => rfl
  | cons e r ih =>
    obtain ⟨ns, tot, d⟩ := e
    have h1 : tot ≤ d := h (ns, tot, d) (by simp)
    have h2 : 0 ≤ d := hd (ns, tot, d) (by simp)
    simp only [concatNotes, id]
    rw [if_neg (by linarith), ih (cur + d) (by linarith) (fun e he => h e (by simp [he])) (fun e he => hd e (by simp [he]))]
    simp only [placed]
    congr 2
    split
    · rfl
    · have : cur = 0 := by linarith
      subst this
      simp

/-- the table entry of section `i`: its notes shifted to zero, their largest end, its length -/
def blockEntry (bs : List Block) (T : Rat) (i : Int) : List Note × Rat × Rat :=
  match bs[i.toNat]? with
  | some (s, ns) => (shiftBlock s ns, maxEnd (shiftBlock s ns) 0, endOf (bs.drop (i.toNat + 1)) T - s)
  | none => ([], 0, 0)

/-- the sections in playing order: every group's section `num_times` times -/
abbrev playList (groups : List (Int × Nat)) : List Int := groups.flatMap (fun g => List.replicate g.2 g.1)

/-- `expand_section_groups` (notes; exact arithmetic) on a sequence whose notes are partitioned by its
section annotations: the result is, copy by copy in playing order, the section's notes shifted to zero
and then by the summed lengths of the copies before it. -/
theorem expand_blocks_full (bs : List Block) (T : Rat) (groups : List (Int × Nat)) (base : Tune)
    (hwf : BlocksWF bs T) (hsorted : (blockNotes bs).Pairwise (fun a b => a.start ≤ b.start))
    (hne : groups ≠ []) (hids : ∀ g ∈ groups, 0 ≤ g.1 ∧ g.1 < bs.length) :
    expand id (tuneOfBlocks bs T groups base) = .ok (placed 0 ((playList groups).map (blockEntry bs T))) := by
  unfold expand
  simp only [tuneOfBlocks, hne, ↓reduceIte]
  rw [List.mergeSort_of_pairwise (by simpa using hsorted)]
  have hst := sectionTable_blocks [] bs T 0 [] (by simpa using hwf)
  simp only [List.nil_append] at hst
  rw [hst]
  simp only
  have hentry : ∀ i : Int, 0 ≤ i → i < bs.length → lookup i (tableOf bs 0 T []) = some (blockEntry bs T i) := by
    intro i h0 h1
    have hk : i.toNat < bs.length := by omega
    obtain ⟨⟨s, ns⟩, hb⟩ : ∃ b, bs[i.toNat]? = some b := ⟨bs[i.toNat], by simp [hk]⟩
    have := lookup_tableOf bs 0 T [] i.toNat s ns hb
    simp only [zero_add, Int.toNat_of_nonneg h0] at this
    rw [this]
    simp only [blockEntry, hb]
  have hmem : ∀ i ∈ playList groups, 0 ≤ i ∧ i < bs.length := by
    intro i hi
    obtain ⟨g, hg, hi⟩ := List.mem_flatMap.mp hi
    have := List.eq_of_mem_replicate hi
    subst this
    exact hids g hg
  rw [lookupAll_ok _ _ (blockEntry bs T) (fun i hi => hentry i (hmem i hi).1 (hmem i hi).2)]
  simp only
  -- the block and what follows it are well formed
  have hblock : ∀ i ∈ playList groups, ∃ s ns, bs[i.toNat]? = some (s, ns) ∧
      BlocksWF ((s, ns) :: bs.drop (i.toNat + 1)) T := by
    intro i hi
    obtain ⟨h0, h1⟩ := hmem i hi
    have hk : i.toNat < bs.length := by omega
    obtain ⟨⟨s, ns⟩, hb⟩ : ∃ b, bs[i.toNat]? = some b := ⟨bs[i.toNat], by simp [hk]⟩
    refine ⟨s, ns, hb, ?_⟩
    have hsplit : bs = bs.take i.toNat ++ (s, ns) :: bs.drop (i.toNat + 1) := by
      have h2 : bs[i.toNat] = (s, ns) := by
        have := List.getElem?_eq_getElem hk
        rw [this] at hb; simpa using hb
      conv_lhs => rw [← List.take_append_drop i.toNat bs]
      rw [List.drop_eq_getElem_cons hk, h2]
    apply BlocksWF_suffix (pre := bs.take i.toNat)
    rw [← hsplit]; exact hwf
  apply concatNotes_full _ 0 (le_refl _)
  · intro e he
    obtain ⟨i, hi, rfl⟩ := List.mem_map.mp he
    obtain ⟨s, ns, hb, hsuf⟩ := hblock i hi
    simp only [blockEntry, hb]
    apply maxEnd_le
    · have := hsuf.1; linarith
    · intro n hn
      simp only [shiftBlock, List.mem_map] at hn
      obtain ⟨m, hm, rfl⟩ := hn
      have := (hsuf.2.1 m hm).2.2
      simp only
      linarith
  · intro e he
    obtain ⟨i, hi, rfl⟩ := List.mem_map.mp he
    obtain ⟨s, ns, hb, hsuf⟩ := hblock i hi
    simp only [blockEntry, hb]
    have := hsuf.1; linarith

/-- pitch and duration of the placed copies -/
theorem placed_pd (es : List (List Note × Rat × Rat)) (c : Rat) :
    (placed c es).map pd = es.flatMap (fun e => e.1.map pd) := by
  induction es generalizing c with
  | nil => rfl
  | cons e r ih =>
    obtain ⟨ns, tot, d⟩ := e
    simp only [placed, List.map_append, List.flatMap_cons, ih, List.map_map]
    congr 1
    apply List.map_congr_left
    intro n _
    simp only [Function.comp, pd, Prod.mk.injEq, true_and]
    ring

/-- copies that are tiled from zero over exactly their length: the placed notes are tiled from the
offset on, i.e. every onset is the sum of the durations before it -/
theorem placed_tiled (es : List (List Note × Rat × Rat)) (c : Rat)
    (h : ∀ e ∈ es, Tiled 0 e.1 ∧ (e.1.map dur).sum = e.2.2) : Tiled c (placed c es) := by
  induction es generalizing c with
  | nil => exact Tiled.nil _
  | cons e r ih =>
    obtain ⟨ns, tot, d⟩ := e
    obtain ⟨h1, h2⟩ := h (ns, tot, d) (by simp)
    simp only at h1 h2
    simp only [placed]
    have hdur : (ns.map (fun n => ({ n with start := n.start + c, end_ := n.end_ + c } : Note))).map dur = ns.map dur := by
      rw [List.map_map]
      apply List.map_congr_left
      intro n _
      simp only [Function.comp, dur]; ring
    apply Tiled.append
    · unfold Tiled at h1 ⊢
      rw [hdur]
      have := spans_shift 0 c (ns.map dur)
      rw [zero_add] at this
      rw [← this, ← h1, List.map_map, List.map_map]
      apply List.map_congr_left
      intro n _
      rfl
    · rw [hdur, h2]
      exact ih (c + d) (fun e he => h e (by simp [he]))

theorem shiftBlock_tiled {s : Rat} {ns : List Note} (h : Tiled s ns) : Tiled 0 (shiftBlock s ns) := by
  unfold Tiled at h ⊢
  have hdur : (shiftBlock s ns).map dur = ns.map dur := by
    simp only [shiftBlock, List.map_map]
    apply List.map_congr_left
    intro n _
    simp only [Function.comp, dur]; ring
  rw [hdur]
  have := spans_shift s (-s) (ns.map dur)
  rw [add_neg_cancel] at this
  rw [← this, ← h]
  simp only [shiftBlock, List.map_map]
  apply List.map_congr_left
  intro n _
  simp only [Function.comp, span, Prod.mk.injEq]
  constructor <;> ring

theorem shiftBlock_dur (s : Rat) (ns : List Note) : (shiftBlock s ns).map dur = ns.map dur := by
  simp only [shiftBlock, List.map_map]
  apply List.map_congr_left
  intro n _
  simp only [Function.comp, dur]; ring

/-- the full expansion of tiled blocks: pitches and durations in playing order, and the notes follow
each other without gap from time 0 — every onset is the running sum of the durations before it -/
theorem expand_blocks_tiled (bs : List Block) (T : Rat) (groups : List (Int × Nat)) (base : Tune)
    (hwf : BlocksWF bs T) (htile : BlocksTiled bs T) (hpos : ∀ n ∈ blockNotes bs, n.start < n.end_)
    (hne : groups ≠ []) (hids : ∀ g ∈ groups, 0 ≤ g.1 ∧ g.1 < bs.length) :
    ∃ L, expand id (tuneOfBlocks bs T groups base) = .ok L ∧
      L.map pd = groups.flatMap (fun g => (List.replicate g.2 (blockPd bs g.1)).flatten) ∧
      L.map span = spans 0 (L.map dur) := by
  have hsorted := blockNotes_sorted hwf htile hpos
  refine ⟨_, expand_blocks_full bs T groups base hwf hsorted hne hids, ?_, ?_⟩
  · rw [placed_pd]
    simp only [List.flatMap_map, playList]
    rw [regroup]
    apply flatMap_congr'
    intro g hg
    have h0 := (hids g hg).1
    have h1 := (hids g hg).2
    have hk : g.1.toNat < bs.length := by omega
    obtain ⟨⟨s, ns⟩, hb⟩ : ∃ b, bs[g.1.toNat]? = some b := ⟨bs[g.1.toNat], by simp [hk]⟩
    have : List.map pd (blockEntry bs T g.1).1 = blockPd bs g.1 := by
      simp only [blockEntry, blockPd, hb, pd_shiftBlock]
    rw [this]
  · apply placed_tiled
    intro e he
    obtain ⟨i, hi, rfl⟩ := List.mem_map.mp he
    obtain ⟨g, hg, hi⟩ := List.mem_flatMap.mp hi
    have := List.eq_of_mem_replicate hi
    subst this
    have h0 := (hids g hg).1
    have h1 := (hids g hg).2
    have hk : g.1.toNat < bs.length := by omega
    obtain ⟨⟨s, ns⟩, hb⟩ : ∃ b, bs[g.1.toNat]? = some b := ⟨bs[g.1.toNat], by simp [hk]⟩
    obtain ⟨t1, t2⟩ := BlocksTiled_get htile hb
    simp only [blockEntry, hb]
    exact ⟨shiftBlock_tiled t1, by rw [shiftBlock_dur]; linarith⟩


/-! ## evaluating `expand` on a concrete tune (the merge sort does not reduce in the kernel) -/

/-- `expand` on notes that are already in onset order -/
def expandSorted (R : Rat → Rat) (t : Tune) : Except Err (List Note) :=
  if t.groups = [] then .ok t.notes
  else
    match sectionTable R t.notes t.totalTime t.sections [] with
    | .error e => .error e
    | .ok tbl =>
      match lookupAll tbl (t.groups.flatMap (fun g => List.replicate g.2 g.1)) with
      | .error e => .error e
      | .ok secs => concatNotes R secs 0

theorem expand_of_sorted (R : Rat → Rat) (t : Tune) (h : t.notes.Pairwise (fun a b => a.start ≤ b.start)) :
    expand R t = expandSorted R t := by
  unfold expand expandSorted
  rw [List.mergeSort_of_pairwise (by simpa using h)]
  rfl

end NSV.C04
