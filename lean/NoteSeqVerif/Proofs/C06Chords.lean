import NoteSeqVerif.Props.C07
import NoteSeqVerif.Proofs.C06Quant
/-! C06 — ChordProgression, discrete half: re-extraction over `[start, start + len)` (C07 model, through its
specification `chords_steps`) of a sequence whose chord annotations are exactly the rendered changes returns the
event list.  (core Lean only) -/
namespace NSV.C06
open NSV.C07

/-- the rendered chord changes have strictly increasing indexes, all `≥ k` -/
theorem chordChangesFrom_ge : ∀ (fs : List String) (k : Int) (cur : String),
    ∀ c ∈ chordChangesFrom k cur fs, k ≤ c.1 := by
  intro fs
  induction fs with
  | nil => intro k cur c hc; simp [chordChangesFrom] at hc
  | cons f fs ih =>
    intro k cur c hc
    unfold chordChangesFrom at hc
    split at hc
    · rcases List.mem_cons.mp hc with rfl | h
      · exact Int.le_refl _
      · have := ih (k + 1) f c h; omega
    · have := ih (k + 1) cur c hc; omega

theorem chordChangesFrom_lt : ∀ (fs : List String) (k : Int) (cur : String),
    ∀ c ∈ chordChangesFrom k cur fs, c.1 < k + fs.length := by
  intro fs
  induction fs with
  | nil => intro k cur c hc; simp [chordChangesFrom] at hc
  | cons f fs ih =>
    intro k cur c hc
    unfold chordChangesFrom at hc
    simp only [List.length_cons]
    split at hc
    · rcases List.mem_cons.mp hc with rfl | h
      · show k < k + ((fs.length + 1 : Nat) : Int); omega
      · have := ih (k + 1) f c h; push_cast; omega
    · have := ih (k + 1) cur c hc; push_cast; omega

theorem chordChangesFrom_sorted : ∀ (fs : List String) (k : Int) (cur : String),
    (chordChangesFrom k cur fs).Pairwise (fun a b => a.1 < b.1) := by
  intro fs
  induction fs with
  | nil => intro k cur; simp [chordChangesFrom]
  | cons f fs ih =>
    intro k cur
    unfold chordChangesFrom
    split
    · refine List.pairwise_cons.mpr ⟨?_, ih (k + 1) f⟩
      intro c hc
      have := chordChangesFrom_ge fs (k + 1) f c hc
      show k < c.1
      omega
    · exact ih (k + 1) cur

/-- the chord in force at step `S + k + i` of the rendered annotations is event `i` -/
theorem chordAt_rendered (tm : Int → Rat) (S : Int) : ∀ (fs : List String) (k : Int) (cur : String) (i : Nat),
    i < fs.length →
    chordAt cur ((chordChangesFrom k cur fs).map (qChord tm S)) (S + k + i) = fs[i]?.getD cur := by
  intro fs
  induction fs with
  | nil => intro k cur i hi; simp at hi
  | cons f fs ih =>
    intro k cur i hi
    have hgt : ∀ (cur' : String), ∀ c ∈ (chordChangesFrom (k + 1) cur' fs).map (qChord tm S), S + k < c.qstep := by
      intro cur' c hc
      obtain ⟨x, hx, rfl⟩ := List.mem_map.mp hc
      have := chordChangesFrom_ge fs (k + 1) cur' x hx
      show S + k < S + x.1
      omega
    unfold chordChangesFrom
    split
    · rename_i hne
      rw [List.map_cons, chordAt_cons_le (by show S + k ≤ S + k + (i : Int); omega)]
      cases i with
      | zero =>
        rw [chordAt_all_gt (by intro c hc; have := hgt f c hc; omega)]
        simp [qChord, rChord]
      | succ j =>
        have := ih (k + 1) f j (by simpa using hi)
        have e : S + k + ((j + 1 : Nat) : Int) = S + (k + 1) + (j : Int) := by push_cast; omega
        rw [e]
        show chordAt f _ _ = _
        rw [this]
        simp only [List.getElem?_cons_succ]
        have hj : j < fs.length := by simpa using hi
        simp [List.getElem?_eq_getElem hj]
    · rename_i heq
      have heq' : f = cur := by simpa using heq
      cases i with
      | zero =>
        rw [chordAt_all_gt (by intro c hc; have := hgt cur c hc; omega)]
        simp [heq']
      | succ j =>
        have := ih (k + 1) cur j (by simpa using hi)
        have e : S + k + ((j + 1 : Nat) : Int) = S + (k + 1) + (j : Int) := by push_cast; omega
        rw [e, this]
        simp only [List.getElem?_cons_succ]

/-- two rendered annotations on one step are the same annotation -/
theorem sorted_fst_inj {l : List (Int × String)} (h : l.Pairwise (fun a b => a.1 < b.1)) :
    ∀ a ∈ l, ∀ b ∈ l, a.1 = b.1 → a = b := by
  induction l with
  | nil => intro a ha; simp at ha
  | cons x xs ih =>
    obtain ⟨hx, hxs⟩ := List.pairwise_cons.mp h
    intro a ha b hb hab
    rcases List.mem_cons.mp ha with rfl | ha'
    · rcases List.mem_cons.mp hb with rfl | hb'
      · rfl
      · have := hx b hb'; omega
    · rcases List.mem_cons.mp hb with rfl | hb'
      · have := hx a ha'; omega
      · exact ih hxs a ha' b hb' hab

/-- **discrete half for ChordProgression**: `s` is any quantized sequence whose text annotations are the rendered
chord changes of the non-empty list `ev` started at step `S`.  Re-extraction over `[S, S + len)` returns `ev`. -/
theorem chords_discrete (s : NoteSeq) (tm : Int → Rat) (ev : List String) (S spb : Int)
    (hspb : stepsPerBar s = .ok spb)
    (hs : s.texts = (chordChanges ev).map (qChord tm S))
    (hne : ev ≠ []) :
    chordsFromQuantized s S (S + ev.length) = .ok ⟨ev, S, S + ev.length, spb, s.spq⟩ := by
  have hlen : 0 < ev.length := List.length_pos_iff.mpr hne
  have hse : S < S + (ev.length : Int) := by omega
  have hsorted := chordChangesFrom_sorted ev 0 Gen.NO_CHORD
  have hnc : ¬ ChordsCoincident s S (S + ev.length) := by
    rintro ⟨a, ha, b, hb, _, _, hq, _, _, hne'⟩
    rw [hs] at ha hb
    obtain ⟨x, hx, rfl⟩ := List.mem_map.mp ha
    obtain ⟨y, hy, rfl⟩ := List.mem_map.mp hb
    have hxy : x.1 = y.1 := by
      have : S + x.1 = S + y.1 := hq
      omega
    have := sorted_fst_inj hsorted x hx y hy hxy
    subst this
    exact hne' rfl
  obtain ⟨E, hE, hElen, hEi⟩ := chords_steps s S (S + ev.length) spb hspb hse hnc
  have hanns : chordAnns s = (chordChanges ev).map (qChord tm S) := by
    unfold chordAnns
    have hf : s.texts.filter (fun a => a.kind == Gen.CHORD_SYMBOL) = s.texts := by
      rw [List.filter_eq_self]; intro a ha
      rw [hs] at ha
      obtain ⟨x, _, rfl⟩ := List.mem_map.mp ha
      simp [qChord, rChord]
    rw [hf, hs]
    apply List.mergeSort_of_pairwise
    rw [List.pairwise_map]
    apply List.Pairwise.imp _ hsorted
    intro a b hab
    rw [chordLe_iff]
    left
    show S + a.1 < S + b.1
    omega
  have : E = ev := by
    apply List.ext_getElem?
    intro i
    by_cases hi : i < ev.length
    · rw [hEi i (by omega), hanns]
      have := chordAt_rendered tm S ev 0 Gen.NO_CHORD i hi
      simp only [Int.add_zero] at this
      rw [chordChanges, this, List.getElem?_eq_getElem hi]
      simp
    · have hEl : E.length = ev.length := by
        have : (E.length : Int) = ev.length := by rw [hElen]; omega
        exact_mod_cast this
      rw [List.getElem?_eq_none (by omega), List.getElem?_eq_none (by omega)]
  rw [hE, this]

/-- **what extraction produces is canonical** (ChordProgression): a result over a range `0 ≤ start < end` without
coincident chords is a non-empty list of `end − start` figures -/
theorem chords_extract_canonical (s : NoteSeq) (start end_ : Int) (h0 : 0 ≤ start) (hse : start < end_)
    (r : SimpleResult String) (hr : chordsFromQuantized s start end_ = .ok r) :
    CanonicalChords r.startStep r.events ∧ r.startStep = start ∧ r.endStep = end_ ∧
      r.endStep = r.startStep + r.events.length ∧ r.stepsPerQuarter = s.spq := by
  cases hspb : stepsPerBar s with
  | error e => simp [chordsFromQuantized, hspb] at hr
  | ok spb =>
    rcases chords_top s start end_ spb hspb hse with ⟨_, he⟩ | ⟨_, E, hE, hl, _⟩
    · rw [he] at hr; cases hr
    · rw [hE] at hr
      cases hr
      refine ⟨⟨?_, h0⟩, rfl, rfl, ?_, rfl⟩
      · intro h
        simp only at h
        rw [h] at hl
        simp at hl
        omega
      · show end_ = start + (E.length : Int)
        omega

end NSV.C06
