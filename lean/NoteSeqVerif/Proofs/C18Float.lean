import Mathlib.Tactic.Linarith
import Mathlib.Tactic.Ring
import Mathlib.Tactic.Positivity
import Mathlib.Tactic.NormNum
import Mathlib.Tactic.GCongr
import Mathlib.Tactic.FieldSimp
import Mathlib.Algebra.Order.Field.Rat
import Mathlib.Algebra.Order.Ring.Abs
import NoteSeqVerif.Model.C18
namespace NSV.C18

/-- unit roundoff of binary64 -/
def u53 : Rat := 1 / 2 ^ 53

/-- what the theorems assume about the float64 rounding operator -/
structure Rounding (R : Rat → Rat) : Prop where
  mono : ∀ x y : Rat, x ≤ y → R x ≤ R y
  exact_int : ∀ n : Int, -(2 ^ 53) ≤ n → n ≤ 2 ^ 53 → R (n : Rat) = (n : Rat)
  rel : ∀ x : Rat, |R x - x| ≤ |x| * u53

theorem rabs_eq_abs (x : Rat) : rabs x = |x| := by
  unfold rabs
  split
  · rw [abs_of_neg (by assumption)]
  · rw [abs_of_nonneg (by linarith)]

theorem le_rmax_left (a b : Rat) : a ≤ rmax a b := by unfold rmax; split <;> linarith
theorem le_rmax_right (a b : Rat) : b ≤ rmax a b := by unfold rmax; split <;> linarith

namespace Rounding
variable {R : Rat → Rat} (hR : Rounding R)
include hR

theorem zero : R 0 = 0 := by simpa using hR.exact_int 0 (by norm_num) (by norm_num)

theorem nonneg {x : Rat} (hx : 0 ≤ x) : 0 ≤ R x := by
  have := hR.mono 0 x hx; rwa [hR.zero] at this

theorem lo {x : Rat} (hx : 0 ≤ x) : x * (1 - u53) ≤ R x := by
  have h := hR.rel x
  rw [abs_of_nonneg hx, abs_le] at h
  linarith [h.1]

theorem hi {x : Rat} (hx : 0 ≤ x) : R x ≤ x * (1 + u53) := by
  have h := hR.rel x
  rw [abs_of_nonneg hx, abs_le] at h
  linarith [h.2]

theorem abs_le_abs (x : Rat) : |R x| ≤ |x| * (1 + u53) := by
  have h := hR.rel x
  have : |R x| ≤ |R x - x| + |x| := by
    have := abs_add_le (R x - x) x
    simpa using this
  linarith

end Rounding

theorem roundHalfEven_of_near (x : Rat) (k : Int) (h1 : (k : Rat) - x < 1 / 2) (h2 : x - k < 1 / 2) :
    roundHalfEven x = k := by
  unfold roundHalfEven
  by_cases hk : (k : Rat) ≤ x
  · have hf : x.floor = k := by
      apply Int.le_antisymm
      · have : x.floor < k + 1 := by
          rw [Rat.floor_lt_iff]; push_cast; linarith
        omega
      · rw [Rat.le_floor_iff]; exact hk
    simp only [hf]
    rw [if_pos (by linarith)]
  · have hk' : x < k := lt_of_not_ge hk
    have hf : x.floor = k - 1 := by
      apply Int.le_antisymm
      · have : x.floor < k := by rw [Rat.floor_lt_iff]; exact hk'
        omega
      · rw [Rat.le_floor_iff]; push_cast; linarith
    simp only [hf]
    push_cast
    rw [if_neg (by linarith), if_pos (by linarith)]
    omega

theorem rounding_id : Rounding id := by
  refine ⟨fun _ _ h => h, fun _ _ _ => rfl, fun x => ?_⟩
  simp only [id, sub_self, abs_zero]
  have : (0:Rat) ≤ u53 := by unfold u53; positivity
  positivity

/-- the product `R (R (k · R (1/fps)) · fps)` is within `4·2⁻⁵³` (relative) of `k` -/
theorem grid_near {R : Rat → Rat} (hR : Rounding R) (fps : Rat) (hf : 0 < fps) (k : Nat) :
    (k : Rat) * (1 - 4 * u53) ≤ R (R ((k : Rat) * R (1 / fps)) * fps) ∧
    R (R ((k : Rat) * R (1 / fps)) * fps) ≤ (k : Rat) * (1 + 4 * u53) := by
  have hu : u53 = 1 / 2 ^ 53 := rfl
  have hu0 : 0 < u53 := by rw [hu]; positivity
  set a := R (1 / fps) with ha
  have hinv : 0 ≤ 1 / fps := by positivity
  have ha_lo := hR.lo hinv
  have ha_hi := hR.hi hinv
  have ha0 : 0 ≤ a := hR.nonneg hinv
  set b := a * fps with hb
  have hb_lo : 1 - u53 ≤ b := by
    have : 1 / fps * (1 - u53) * fps ≤ a * fps := by gcongr
    have e : 1 / fps * (1 - u53) * fps = 1 - u53 := by field_simp
    linarith
  have hb_hi : b ≤ 1 + u53 := by
    have : a * fps ≤ 1 / fps * (1 + u53) * fps := by gcongr
    have e : 1 / fps * (1 + u53) * fps = 1 + u53 := by field_simp
    linarith
  have hK0 : (0 : Rat) ≤ k := by positivity
  have hKa : 0 ≤ (k : Rat) * a := by positivity
  set t := R ((k : Rat) * a) with ht
  have ht_lo := hR.lo hKa
  have ht_hi := hR.hi hKa
  have ht0 : 0 ≤ t := hR.nonneg hKa
  have hy0 : 0 ≤ t * fps := by positivity
  have hx_lo := hR.lo hy0
  have hx_hi := hR.hi hy0
  have h1u : 0 ≤ 1 - u53 := by rw [hu]; norm_num
  constructor
  · calc (k : Rat) * (1 - 4 * u53) ≤ (k : Rat) * ((1 - u53) * (1 - u53) * (1 - u53)) := by
          have : 1 - 4 * u53 ≤ (1 - u53) * (1 - u53) * (1 - u53) := by rw [hu]; norm_num
          gcongr
      _ = (k : Rat) * (1 - u53) * (1 - u53) * (1 - u53) := by ring
      _ ≤ (k : Rat) * b * (1 - u53) * (1 - u53) := by gcongr
      _ = ((k : Rat) * a * (1 - u53)) * fps * (1 - u53) := by rw [hb]; ring
      _ ≤ t * fps * (1 - u53) := by gcongr
      _ ≤ R (t * fps) := hx_lo
  · calc R (t * fps) ≤ t * fps * (1 + u53) := hx_hi
      _ ≤ ((k : Rat) * a * (1 + u53)) * fps * (1 + u53) := by gcongr
      _ = (k : Rat) * b * (1 + u53) * (1 + u53) := by rw [hb]; ring
      _ ≤ (k : Rat) * (1 + u53) * (1 + u53) * (1 + u53) := by gcongr
      _ ≤ (k : Rat) * (1 + 4 * u53) := by
          have : (1 + u53) * (1 + u53) * (1 + u53) ≤ 1 + 4 * u53 := by rw [hu]; norm_num
          calc (k : Rat) * (1 + u53) * (1 + u53) * (1 + u53)
              = (k : Rat) * ((1 + u53) * (1 + u53) * (1 + u53)) := by ring
            _ ≤ (k : Rat) * (1 + 4 * u53) := by gcongr

/-- **No drift**: a time the decoder writes, `R (k · R (1/fps))`, is read back by `time_to_frames`
as exactly frame `k`, for every rounding operator with relative error `2⁻⁵³`, every positive frame
rate and every frame index below `2³¹`, provided the snap tolerance is at least `2⁻³⁰`. -/
theorem timeToFrames_grid {R : Rat → Rat} (hR : Rounding R) (eps fps : Rat) (he : 1 / 2 ^ 30 ≤ eps)
    (hf : 0 < fps) (k : Nat) (hk : k < 2 ^ 31) :
    timeToFrames R eps fps (R ((k : Rat) * R (1 / fps))) = (k : Rat) := by
  have hu : u53 = 1 / 2 ^ 53 := rfl
  have hu0 : 0 < u53 := by rw [hu]; positivity
  obtain ⟨hx_lo', hx_hi'⟩ := grid_near hR fps hf k
  set x := R (R ((k : Rat) * R (1 / fps)) * fps) with hx
  have hK0 : (0 : Rat) ≤ k := by positivity
  have hKlt : (k : Rat) < 2 ^ 31 := by exact_mod_cast hk
  have h1u : 0 ≤ 1 - u53 := by rw [hu]; norm_num
  have hsmall : (k : Rat) * (4 * u53) < 1 / 2 := by
    have : (k : Rat) * (4 * u53) ≤ 2 ^ 31 * (4 * u53) := by gcongr
    have e : (2 : Rat) ^ 31 * (4 * u53) < 1 / 2 := by rw [hu]; norm_num
    linarith
  have hround : roundHalfEven x = (k : Int) := by
    apply roundHalfEven_of_near
    · push_cast; linarith
    · push_cast; linarith
  unfold timeToFrames
  simp only [← hx, hround]
  rw [if_pos]
  · push_cast; rfl
  · rw [rabs_eq_abs, rabs_eq_abs]
    push_cast
    by_cases hk0 : k = 0
    · subst hk0
      have : x = 0 := by
        have h1 : (((0 : Nat) : Rat)) * (1 + 4 * u53) = 0 := by simp
        linarith
      rw [this]
      simp only [Nat.cast_zero, sub_self, hR.zero, abs_zero]
      apply hR.nonneg
      have := le_rmax_left 1 (0 : Rat)
      have : (0:Rat) ≤ eps := by
        have : (0:Rat) < 1 / 2 ^ 30 := by positivity
        linarith
      positivity
    · have hk1 : (1 : Rat) ≤ k := by
        have : 1 ≤ k := Nat.one_le_iff_ne_zero.mpr hk0
        exact_mod_cast this
      have hD : |x - (k : Rat)| ≤ (k : Rat) * (4 * u53) := by
        rw [abs_le]; constructor <;> linarith
      have hL := hR.abs_le_abs (x - (k : Rat))
      have heps0 : (0:Rat) ≤ eps := by
        have : (0:Rat) < 1 / 2 ^ 30 := by positivity
        linarith
      have hm : (k : Rat) * (1 - 4 * u53) ≤ rmax 1 |x| := by
        have := le_rmax_right 1 |x|
        have := le_abs_self x
        linarith
      have hm0 : 0 ≤ rmax 1 |x| := by
        have := le_rmax_left 1 |x|; linarith
      have hz0 : 0 ≤ eps * rmax 1 |x| := by positivity
      have hRlo := hR.lo hz0
      have h14 : 0 ≤ 1 - 4 * u53 := by rw [hu]; norm_num
      have key : (k : Rat) * (4 * u53) * (1 + u53) ≤ eps * ((k : Rat) * (1 - 4 * u53)) * (1 - u53) := by
        have num : 4 * u53 * (1 + u53) ≤ 1 / 2 ^ 30 * (1 - 4 * u53) * (1 - u53) := by rw [hu]; norm_num
        have : 1 / 2 ^ 30 * (1 - 4 * u53) * (1 - u53) ≤ eps * (1 - 4 * u53) * (1 - u53) := by gcongr
        calc (k : Rat) * (4 * u53) * (1 + u53) = (k : Rat) * (4 * u53 * (1 + u53)) := by ring
          _ ≤ (k : Rat) * (eps * (1 - 4 * u53) * (1 - u53)) :=
              mul_le_mul_of_nonneg_left (by linarith) hK0
          _ = eps * ((k : Rat) * (1 - 4 * u53)) * (1 - u53) := by ring
      calc |R (x - (k : Rat))| ≤ |x - (k : Rat)| * (1 + u53) := hL
        _ ≤ (k : Rat) * (4 * u53) * (1 + u53) := by gcongr
        _ ≤ eps * ((k : Rat) * (1 - 4 * u53)) * (1 - u53) := key
        _ ≤ eps * rmax 1 |x| * (1 - u53) := by gcongr
        _ ≤ R (eps * rmax 1 |x|) := hRlo


/-- the roll the encoder allocates for the decoder's `total_time = R (k · R (1/fps))` has `k` or
`k + 1` frames -/
theorem numRows_grid {R : Rat → Rat} (hR : Rounding R) (fps : Rat) (hf : 0 < fps) (k : Nat)
    (hk : k < 2 ^ 31) :
    (k : Int) ≤ numRows R fps (R ((k : Rat) * R (1 / fps))) ∧
    numRows R fps (R ((k : Rat) * R (1 / fps))) ≤ (k : Int) + 1 := by
  have hu : u53 = 1 / 2 ^ 53 := rfl
  have hu0 : 0 < u53 := by rw [hu]; positivity
  obtain ⟨hlo, hhi⟩ := grid_near hR fps hf k
  set x := R (R ((k : Rat) * R (1 / fps)) * fps) with hx
  have hKlt : (k : Rat) < 2 ^ 31 := by exact_mod_cast hk
  have hK0 : (0 : Rat) ≤ k := by positivity
  have hsmall : (k : Rat) * (4 * u53) < 1 / 2 := by
    have : (k : Rat) * (4 * u53) ≤ 2 ^ 31 * (4 * u53) := by gcongr
    have e : (2 : Rat) ^ 31 * (4 * u53) < 1 / 2 := by rw [hu]; norm_num
    linarith
  have hx1 : (0:Rat) ≤ x + 1 := by linarith
  have hge : ((k : Int) : Rat) ≤ R (x + 1) := by
    have h := hR.mono ((k : Int) : Rat) (x + 1) (by push_cast; linarith)
    rwa [hR.exact_int k (by have : (0:Int) ≤ k := Int.natCast_nonneg k; omega) (by omega)] at h
  have hlt : R (x + 1) < (((k : Int) + 2 : Int) : Rat) := by
    have h := hR.hi hx1
    have : (x + 1) * (1 + u53) < (k : Rat) + 2 := by
      have h2 : (x + 1) * (1 + u53) ≤ ((k : Rat) * (1 + 4 * u53) + 1) * (1 + u53) := by gcongr
      have h3 : ((k : Rat) * (1 + 4 * u53) + 1) * (1 + u53)
          = (k : Rat) + 1 + (k : Rat) * (4 * u53) * (1 + u53) + ((k : Rat) + 1) * u53 := by ring
      have h4 : (k : Rat) * (4 * u53) * (1 + u53) ≤ 1 / 2 * (1 + u53) := by gcongr
      have h5 : ((k : Rat) + 1) * u53 ≤ (2 ^ 31 + 1) * u53 := by gcongr
      have h6 : (1:Rat) / 2 * (1 + u53) + (2 ^ 31 + 1) * u53 < 1 := by rw [hu]; norm_num
      linarith
    push_cast; linarith
  unfold numRows
  rw [← hx]
  have h0 : (0:Rat) ≤ R (x + 1) := hR.nonneg hx1
  unfold truncR
  rw [if_pos h0]
  constructor
  · rw [Rat.le_floor_iff]; exact hge
  · have : (R (x + 1)).floor < (k : Int) + 2 := by rw [Rat.floor_lt_iff]; exact hlt
    omega

end NSV.C18
