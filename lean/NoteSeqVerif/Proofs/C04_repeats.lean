import NoteSeqVerif.Proofs.C04_time
import NoteSeqVerif.Proofs.C04_expand
import Mathlib.Tactic.Linarith
import Mathlib.Data.Rat.Defs
/-! C04 — the repeat clause: the "player" (an independent reading of the bar tokens) and the
invariant that links it to the sections / section groups `_parse_music_code` builds.
Exact arithmetic (`R = id`). -/
namespace NSV.C04
open NSV

/-! ## the notated repeat order (specification) -/

/-- backward / forward counts a bar token notates: `:`×a `|` `:`×b plays the section before it a+1
times and opens a section played b+1 times; a colon-only run of 2m colons is both, m+1 times -/
def barCounts : Tok → Option (Option Nat × Option Nat)
  | .bar c1 _ c2 => if c1 = 0 ∧ c2 = 0 then none
                    else some (if 0 < c1 then some (c1 + 1) else none, if 0 < c2 then some (c2 + 1) else none)
  | .colons n => some (some (n / 2 + 1), some (n / 2 + 1))
  | _ => none

/-- the "player": an independent reading of the bar tokens.  `played` = what has been played,
`cur` = the notes since the most recent section start (start of tune, double bar outside a repeat,
any repeat sign), `open_` = the count the open forward repeat asks for -/
structure Player where
  played : List (Int × Rat) := []
  cur : List (Int × Rat) := []
  open_ : Option Nat := none

/-- one item; `vals` are the (pitch, duration) of the notes still to come, in order -/
def playItem (p : Player) (vals : List (Int × Rat)) : Item → Option (Player × List (Int × Rat))
  | .tok (.note _ _ _ _) =>
    match vals with
    | v :: r => some ({ p with cur := p.cur ++ [v] }, r)
    | [] => none
  | .tok t =>
    match barCounts t with
    | some (b, f) =>
      if p.open_.isSome ∧ b ≠ p.open_ then none
      else some ({ played := p.played ++ (List.replicate (b.getD 1) p.cur).flatten, cur := [], open_ := f }, vals)
    | none =>
      match t with
      | .bar _ len _ =>
        if 2 ≤ len ∧ p.open_.isNone then some ({ p with played := p.played ++ p.cur, cur := [] }, vals)
        else some (p, vals)
      | _ => some (p, vals)
  | _ => some (p, vals)

def playItems : Player → List (Int × Rat) → List Item → Option Player
  | p, _, [] => some p
  | p, vals, i :: r =>
    match playItem p vals i with
    | some (p', vals') => playItems p' vals' r
    | none => none

/-- the played order of a tune: at `:|`×n go back to the most recent section start n−1 times -/
def unfold (items : List Item) (vals : List (Int × Rat)) : Option (List (Int × Rat)) :=
  match playItems {} vals items with
  | some p => if p.open_.isNone then some (p.played ++ p.cur) else none
  | none => none

/-- every repeated section contains a note: no repeat sign directly after a section start -/
def NonDegenerate (items : List Item) : Prop :=
  ∀ pre t b f post, items = pre ++ .tok t :: post → barCounts t = some (some b, f) →
    ∃ p vals, playItems {} vals pre = some p ∧ p.cur ≠ []

/-! ## the player with its left-over values -/

def playRun : Player → List (Int × Rat) → List Item → Option (Player × List (Int × Rat))
  | p, vals, [] => some (p, vals)
  | p, vals, i :: r =>
    match playItem p vals i with
    | some (p', vals') => playRun p' vals' r
    | none => none

theorem playItems_eq_playRun (p : Player) (vals : List (Int × Rat)) (items : List Item) :
    playItems p vals items = (playRun p vals items).map (·.1) := by
  induction items generalizing p vals with
  | nil => rfl
  | cons i r ih =>
    simp only [playItems, playRun]
    cases h : playItem p vals i with
    | none => rfl
    | some q => obtain ⟨p', v'⟩ := q; simp [ih]

theorem playRun_append (p : Player) (vals : List (Int × Rat)) (a b : List Item) :
    playRun p vals (a ++ b) =
      match playRun p vals a with
      | some (p', v') => playRun p' v' b
      | none => none := by
  induction a generalizing p vals with
  | nil => simp [playRun]
  | cons i r ih =>
    simp only [List.cons_append, playRun]
    cases h : playItem p vals i with
    | none => rfl
    | some q => obtain ⟨p', v'⟩ := q; simp [ih]

theorem playItem_note (p : Player) (vals : List (Int × Rat)) (a : Acc) (l : Char) (o : List Bool) (n : LenSpec) :
    playItem p vals (.tok (.note a l o n)) =
      match vals with
      | v :: r => some ({ p with cur := p.cur ++ [v] }, r)
      | [] => none := rfl

/-- the number of bar characters of a bar token (0 for any other token) -/
def barLen : Tok → Nat
  | .bar _ len _ => len
  | _ => 0

/-- a token that is not a note -/
theorem playItem_tok (p : Player) (vals : List (Int × Rat)) (t : Tok) (hn : ∀ a l o n, t ≠ .note a l o n) :
    playItem p vals (.tok t) =
      match barCounts t with
      | some (b, f) =>
        if p.open_.isSome ∧ b ≠ p.open_ then none
        else some ({ played := p.played ++ (List.replicate (b.getD 1) p.cur).flatten, cur := [], open_ := f }, vals)
      | none =>
        if 2 ≤ barLen t ∧ p.open_.isNone then some ({ p with played := p.played ++ p.cur, cur := [] }, vals)
        else some (p, vals) := by
  cases t
  case note a l o n => exact absurd rfl (hn _ _ _ _)
  case bar c1 len c2 => rfl
  case colons n => rfl
  all_goals simp [playItem, barCounts, barLen]

theorem playItem_extend {p p' : Player} {v r : List (Int × Rat)} {i : Item} (w : List (Int × Rat))
    (h : playItem p v i = some (p', r)) : playItem p (v ++ w) i = some (p', r ++ w) := by
  cases i with
  | field f => simp only [playItem, Option.some.injEq, Prod.mk.injEq] at h ⊢; exact ⟨h.1, by rw [h.2]⟩
  | start => simp only [playItem, Option.some.injEq, Prod.mk.injEq] at h ⊢; exact ⟨h.1, by rw [h.2]⟩
  | tok t =>
    by_cases hn : ∃ a l o n, t = .note a l o n
    · obtain ⟨a, l, o, n, rfl⟩ := hn
      rw [playItem_note] at h ⊢
      cases v with
      | nil => simp at h
      | cons x xs =>
        simp only [Option.some.injEq, Prod.mk.injEq] at h
        simp only [List.cons_append, Option.some.injEq, Prod.mk.injEq]
        exact ⟨h.1, by rw [h.2]⟩
    · have hn' : ∀ a l o n, t ≠ .note a l o n := fun a l o n he => hn ⟨a, l, o, n, he⟩
      rw [playItem_tok _ _ _ hn'] at h ⊢
      split at h
      · split at h
        · simp at h
        · rename_i hc
          simp only [Option.some.injEq, Prod.mk.injEq] at h
          rw [if_neg hc]
          simp only [Option.some.injEq, Prod.mk.injEq]
          exact ⟨h.1, by rw [h.2]⟩
      · split at h <;> rename_i hc
        · simp only [Option.some.injEq, Prod.mk.injEq] at h
          rw [if_pos hc]
          simp only [Option.some.injEq, Prod.mk.injEq]
          exact ⟨h.1, by rw [h.2]⟩
        · simp only [Option.some.injEq, Prod.mk.injEq] at h
          rw [if_neg hc]
          simp only [Option.some.injEq, Prod.mk.injEq]
          exact ⟨h.1, by rw [h.2]⟩

theorem playRun_extend {p p' : Player} {v r : List (Int × Rat)} {items : List Item} (w : List (Int × Rat))
    (h : playRun p v items = some (p', r)) : playRun p (v ++ w) items = some (p', r ++ w) := by
  induction items generalizing p v with
  | nil =>
    simp only [playRun, Option.some.injEq, Prod.mk.injEq] at h ⊢
    exact ⟨h.1, by rw [h.2]⟩
  | cons i rest ih =>
    simp only [playRun] at h ⊢
    cases hi : playItem p v i with
    | none => simp [hi] at h
    | some q =>
      obtain ⟨p1, v1⟩ := q
      rw [hi] at h
      rw [playItem_extend w hi]
      exact ih h

/-! ## the length of the current section does not depend on the values -/

def Sim (p q : Player) : Prop := p.cur.length = q.cur.length ∧ p.open_ = q.open_

theorem playItem_sim {p q p' q' : Player} {v w v' w' : List (Int × Rat)} {i : Item} (h : Sim p q)
    (hp : playItem p v i = some (p', v')) (hq : playItem q w i = some (q', w')) : Sim p' q' := by
  cases i with
  | field f =>
    simp only [playItem, Option.some.injEq, Prod.mk.injEq] at hp hq
    rw [← hp.1, ← hq.1]; exact h
  | start =>
    simp only [playItem, Option.some.injEq, Prod.mk.injEq] at hp hq
    rw [← hp.1, ← hq.1]; exact h
  | tok t =>
    by_cases hn : ∃ a l o n, t = .note a l o n
    · obtain ⟨a, l, o, n, rfl⟩ := hn
      rw [playItem_note] at hp hq
      cases v with
      | nil => simp at hp
      | cons x xs =>
        cases w with
        | nil => simp at hq
        | cons y ys =>
          simp only [Option.some.injEq, Prod.mk.injEq] at hp hq
          rw [← hp.1, ← hq.1]
          exact ⟨by simp [h.1], h.2⟩
    · have hn' : ∀ a l o n, t ≠ .note a l o n := fun a l o n he => hn ⟨a, l, o, n, he⟩
      rw [playItem_tok _ _ _ hn'] at hp hq
      cases hbc : barCounts t with
      | some bf =>
        obtain ⟨b, f⟩ := bf
        rw [hbc] at hp hq
        simp only at hp hq
        split at hp
        · simp at hp
        · split at hq
          · simp at hq
          · simp only [Option.some.injEq, Prod.mk.injEq] at hp hq
            rw [← hp.1, ← hq.1]
            exact ⟨rfl, rfl⟩
      | none =>
        rw [hbc] at hp hq
        simp only at hp hq
        rw [h.2] at hp
        split at hp <;> rename_i hc
        · rw [if_pos hc] at hq
          simp only [Option.some.injEq, Prod.mk.injEq] at hp hq
          rw [← hp.1, ← hq.1]
          exact ⟨rfl, rfl⟩
        · rw [if_neg hc] at hq
          simp only [Option.some.injEq, Prod.mk.injEq] at hp hq
          rw [← hp.1, ← hq.1]; exact h

theorem playItems_sim {p q p' q' : Player} {v w : List (Int × Rat)} {items : List Item} (h : Sim p q)
    (hp : playItems p v items = some p') (hq : playItems q w items = some q') : Sim p' q' := by
  induction items generalizing p q v w with
  | nil =>
    simp only [playItems, Option.some.injEq] at hp hq
    rw [← hp, ← hq]; exact h
  | cons i r ih =>
    simp only [playItems] at hp hq
    cases h1 : playItem p v i with
    | none => simp [h1] at hp
    | some a =>
      cases h2 : playItem q w i with
      | none => simp [h2] at hq
      | some b =>
        obtain ⟨p1, v1⟩ := a
        obtain ⟨q1, w1⟩ := b
        rw [h1] at hp
        rw [h2] at hq
        exact ih (playItem_sim h h1 h2) hp hq

/-! ## closed sections, their groups, what has been played -/

theorem blockSections_append (a b : List Block) (i : Int) :
    blockSections (a ++ b) i = blockSections a i ++ blockSections b (i + a.length) := by
  induction a generalizing i with
  | nil => simp [blockSections]
  | cons x r ih =>
    obtain ⟨s, ns⟩ := x
    have e : i + 1 + (r.length : Int) = i + ((r.length + 1 : Nat) : Int) := by push_cast; ring
    simp only [List.cons_append, blockSections, ih, List.length_cons, e]

theorem blockSections_snoc (bs : List Block) (s : Rat) (ns : List Note) :
    blockSections (bs ++ [(s, ns)]) 0 = blockSections bs 0 ++ [(s, (bs.length : Int))] := by
  rw [blockSections_append]; simp [blockSections]

theorem blockNotes_snoc (bs : List Block) (b : Block) : blockNotes (bs ++ [b]) = blockNotes bs ++ b.2 := by
  simp [blockNotes]

theorem endOf_snoc (rest : List Block) (s T : Rat) (ns : List Note) : endOf (rest ++ [(s, ns)]) T = endOf rest s := by
  cases rest with
  | nil => rfl
  | cons b r => obtain ⟨s', ns'⟩ := b; rfl

theorem BlocksWF_snoc {bs : List Block} {s T : Rat} {ns : List Note} (h : BlocksWF bs s) (hlt : s < T)
    (hns : ∀ n ∈ ns, s ≤ n.start ∧ n.start < T ∧ n.end_ ≤ T) : BlocksWF (bs ++ [(s, ns)]) T := by
  induction bs with
  | nil => exact ⟨hlt, hns, trivial⟩
  | cons b r ih =>
    obtain ⟨s0, ns0⟩ := b
    obtain ⟨h1, h2, h3⟩ := h
    refine ⟨?_, ?_, ih h3⟩
    · show s0 < endOf (r ++ [(s, ns)]) T
      rw [endOf_snoc]; exact h1
    · show ∀ n ∈ ns0, s0 ≤ n.start ∧ n.start < endOf (r ++ [(s, ns)]) T ∧ n.end_ ≤ endOf (r ++ [(s, ns)]) T
      rw [endOf_snoc]; exact h2

/-- one group per closed section, ids consecutive from `i` -/
def groupsOf : List Nat → Int → List (Int × Nat)
  | [], _ => []
  | k :: r, i => (i, k) :: groupsOf r (i + 1)

theorem groupsOf_append (a b : List Nat) (i : Int) :
    groupsOf (a ++ b) i = groupsOf a i ++ groupsOf b (i + a.length) := by
  induction a generalizing i with
  | nil => simp [groupsOf]
  | cons k r ih =>
    have e : i + 1 + (r.length : Int) = i + ((r.length + 1 : Nat) : Int) := by push_cast; ring
    simp only [List.cons_append, groupsOf, ih, List.length_cons, e]

theorem mem_groupsOf {ks : List Nat} {i : Int} {g : Int × Nat} (h : g ∈ groupsOf ks i) :
    i ≤ g.1 ∧ g.1 < i + ks.length := by
  induction ks generalizing i with
  | nil => simp [groupsOf] at h
  | cons k r ih =>
    simp only [groupsOf, List.mem_cons] at h
    rcases h with rfl | h
    · simp only [List.length_cons]; push_cast; omega
    · have := ih h
      simp only [List.length_cons]; push_cast; omega

/-- what the player has played once the sections `bs` have been closed with the counts `ks` -/
def playedOf (bs : List Block) (ks : List Nat) : List (Int × Rat) :=
  (bs.zip ks).flatMap (fun bk => (List.replicate bk.2 (bk.1.2.map pd)).flatten)

theorem playedOf_snoc (bs : List Block) (ks : List Nat) (b : Block) (k : Nat) (h : ks.length = bs.length) :
    playedOf (bs ++ [b]) (ks ++ [k]) = playedOf bs ks ++ (List.replicate k (b.2.map pd)).flatten := by
  unfold playedOf
  rw [List.zip_append h.symm]
  simp

/-- the expansion `abc_repeats_expansion` describes, for one group per closed section -/
theorem flatMap_groupsOf (pre bs : List Block) (ks : List Nat) (h : ks.length ≤ bs.length) :
    (groupsOf ks pre.length).flatMap (fun g => (List.replicate g.2 (blockPd (pre ++ bs) g.1)).flatten) =
      playedOf bs ks := by
  induction ks generalizing pre bs with
  | nil => simp [groupsOf, playedOf]
  | cons k r ih =>
    cases bs with
    | nil => simp at h
    | cons b br =>
      have hb : blockPd (pre ++ b :: br) (pre.length : Int) = b.2.map pd := by
        obtain ⟨s, ns⟩ := b
        simp [blockPd]
      have := ih (pre ++ [b]) br (by simpa using h)
      simp only [List.length_append, List.length_cons, List.length_nil, Nat.zero_add, List.append_assoc,
        List.cons_append, List.nil_append] at this
      push_cast at this
      simp only [groupsOf, List.flatMap_cons, hb, this]
      simp [playedOf]

/-! ## the invariant: parser state ↔ player state -/

/-- `bs` are the closed sections (start, notes), `ks` their play counts, `s` the start of the current
section and `cur` its notes so far -/
structure Inv (st : St) (p : Player) (bs : List Block) (ks : List Nat) (s : Rat) (cur : List Note) : Prop where
  notes : st.notes = blockNotes bs ++ cur
  secs : (st.sections = [] ∧ bs = [] ∧ s = 0) ∨ st.sections = blockSections bs 0 ++ [(s, (bs.length : Int))]
  groups : st.groups = groupsOf ks 0
  klen : ks.length = bs.length
  wf : BlocksWF bs s
  curlo : ∀ n ∈ cur, s ≤ n.start
  pos : ∀ n ∈ st.notes, 0 ≤ n.start ∧ n.start < n.end_ ∧ n.end_ ≤ st.time
  sorted : st.notes.Pairwise (fun a b => a.start ≤ b.start)
  s0 : 0 ≤ s
  sle : s ≤ st.time
  curnil : cur = [] → s = st.time
  last : ∀ n, st.notes.getLast? = some n → n.end_ = st.time
  exp : p.open_ = st.expected
  exp0 : st.expected ≠ some 0
  open1 : bs = [] → st.sections ≠ [] → truthy st.expected = true
  played : p.played = playedOf bs ks
  pcur : p.cur = cur.map pd
  broken : st.broken = none

theorem Inv_init : Inv init {} [] [] 0 [] := by
  constructor <;> simp [init, blockNotes, groupsOf, BlocksWF, playedOf]

/-- the invariant reads only these fields of the state -/
theorem Inv.frame {st st' : St} {p : Player} {bs ks s cur} (h : Inv st p bs ks s cur)
    (hn : st'.notes = st.notes) (hs : st'.sections = st.sections) (hg : st'.groups = st.groups)
    (ht : st'.time = st.time) (he : st'.expected = st.expected) (hb : st'.broken = none) :
    Inv st' p bs ks s cur := by
  refine ⟨?_, ?_, ?_, h.klen, h.wf, h.curlo, ?_, ?_, h.s0, ?_, ?_, ?_, ?_, ?_, ?_, h.played, h.pcur, hb⟩
  · rw [hn]; exact h.notes
  · rw [hs]; exact h.secs
  · rw [hg]; exact h.groups
  · rw [hn, ht]; exact h.pos
  · rw [hn]; exact h.sorted
  · rw [ht]; exact h.sle
  · rw [ht]; exact h.curnil
  · rw [hn, ht]; exact h.last
  · rw [he]; exact h.exp
  · rw [he]; exact h.exp0
  · rw [hs, he]; exact h.open1

theorem Inv.cur_lt {st : St} {p : Player} {bs ks s cur} (h : Inv st p bs ks s cur) (hc : cur ≠ []) : s < st.time := by
  obtain ⟨n, hn⟩ := List.exists_mem_of_ne_nil cur hc
  have h1 := h.curlo n hn
  have h2 := h.pos n (by rw [h.notes]; exact List.mem_append_right _ hn)
  linarith [h2.2.1, h2.2.2]

theorem Inv.time_nonneg {st : St} {p : Player} {bs ks s cur} (h : Inv st p bs ks s cur) : 0 ≤ st.time :=
  le_trans h.s0 h.sle

theorem Inv.notes_nil_of_time {st : St} {p : Player} {bs ks s cur} (h : Inv st p bs ks s cur) (h0 : st.time = 0) :
    st.notes = [] := by
  cases hn : st.notes with
  | nil => rfl
  | cons n r =>
    have := h.pos n (by rw [hn]; simp)
    linarith [this.1, this.2.1, this.2.2]

/-- closing the current section at the current time with play count `k` -/
theorem Inv.close {st st' : St} {p p' : Player} {bs ks s cur} (h : Inv st p bs ks s cur) (k : Nat) (f : Option Nat)
    (hlt : s < st.time) (hf : f ≠ some 0)
    (hn : st'.notes = st.notes)
    (hs : st'.sections = blockSections bs 0 ++ [(s, (bs.length : Int)), (st.time, (bs.length : Int) + 1)])
    (hg : st'.groups = st.groups ++ [((bs.length : Int), k)])
    (ht : st'.time = st.time) (he : st'.expected = f) (hb : st'.broken = none)
    (hp1 : p'.played = p.played ++ (List.replicate k p.cur).flatten) (hp2 : p'.cur = []) (hp3 : p'.open_ = f) :
    Inv st' p' (bs ++ [(s, cur)]) (ks ++ [k]) st.time [] := by
  have hcur : ∀ n ∈ cur, s ≤ n.start ∧ n.start < st.time ∧ n.end_ ≤ st.time := by
    intro n hn'
    have h2 := h.pos n (by rw [h.notes]; exact List.mem_append_right _ hn')
    exact ⟨h.curlo n hn', by linarith [h2.2.1, h2.2.2], h2.2.2⟩
  refine ⟨?_, ?_, ?_, ?_, BlocksWF_snoc h.wf hlt hcur, ?_, ?_, ?_, h.time_nonneg, ?_, ?_, ?_, ?_, ?_, ?_, ?_, ?_, hb⟩
  · rw [hn, h.notes, blockNotes_snoc]; simp
  · right
    rw [hs, blockSections_snoc]
    simp
  · rw [hg, h.groups, groupsOf_append, h.klen]
    simp [groupsOf]
  · simp [h.klen]
  · simp
  · rw [hn, ht]; exact h.pos
  · rw [hn]; exact h.sorted
  · rw [ht]
  · intro _; rw [ht]
  · rw [hn, ht]; exact h.last
  · rw [hp3, he]
  · rw [he]; exact hf
  · intro hc; simp at hc
  · rw [hp1, h.played, playedOf_snoc _ _ _ _ h.klen, h.pcur]
  · rw [hp2]; rfl

/-- a note token -/
theorem Inv.note {st st' : St} {p : Player} {bs ks s cur} (h : Inv st p bs ks s cur) (n : Note)
    (hstart : n.start = st.time) (hpos : n.start < n.end_)
    (hn : st'.notes = st.notes ++ [n]) (hs : st'.sections = st.sections) (hg : st'.groups = st.groups)
    (ht : st'.time = n.end_) (he : st'.expected = st.expected) (hb : st'.broken = none) :
    Inv st' { p with cur := p.cur ++ [pd n] } bs ks s (cur ++ [n]) := by
  refine ⟨?_, ?_, ?_, h.klen, h.wf, ?_, ?_, ?_, h.s0, ?_, ?_, ?_, ?_, ?_, ?_, h.played, ?_, hb⟩
  · rw [hn, h.notes]; simp
  · rw [hs]; exact h.secs
  · rw [hg]; exact h.groups
  · intro m hm
    rcases List.mem_append.mp hm with hm | hm
    · exact h.curlo m hm
    · simp only [List.mem_singleton] at hm; subst hm; rw [hstart]; exact h.sle
  · intro m hm
    rw [hn] at hm
    rw [ht]
    rcases List.mem_append.mp hm with hm | hm
    · have := h.pos m hm
      exact ⟨this.1, this.2.1, by linarith [this.2.2]⟩
    · simp only [List.mem_singleton] at hm; subst hm
      exact ⟨by rw [hstart]; exact h.time_nonneg, hpos, le_refl _⟩
  · rw [hn, List.pairwise_append]
    refine ⟨h.sorted, by simp, ?_⟩
    intro a ha b hb'
    simp only [List.mem_singleton] at hb'; subst hb'
    have := h.pos a ha
    linarith [this.2.1, this.2.2]
  · rw [ht]; linarith [h.sle]
  · intro hc; simp at hc
  · intro m hm
    rw [hn] at hm
    simp only [List.getLast?_append, List.getLast?_singleton, Option.some_or, Option.some.injEq] at hm
    rw [ht, hm]
  · rw [he]; exact h.exp
  · rw [he]; exact h.exp0
  · rw [hs, he]; exact h.open1
  · simp [h.pcur]

/-- the invariant reads only these fields of the player -/
theorem Inv.player {st : St} {p p' : Player} {bs ks s cur} (h : Inv st p bs ks s cur)
    (hp1 : p'.played = p.played) (hp2 : p'.cur = p.cur) (hp3 : p'.open_ = p.open_) : Inv st p' bs ks s cur := by
  obtain ⟨a1, a2, a3, a4, a5, a6, a7, a8, a9, a10, a11, a12, a13, a14, a15, a16, a17, a18⟩ := h
  exact ⟨a1, a2, a3, a4, a5, a6, a7, a8, a9, a10, a11, a12, by rw [hp3]; exact a13, a14, a15,
    by rw [hp1]; exact a16, by rw [hp2]; exact a17, a18⟩

/-- a forward repeat sign directly at a section start: the section structure stays, the repeat opens -/
theorem Inv.reopen {st st' : St} {p p' : Player} {bs ks s} (h : Inv st p bs ks s []) (f : Option Nat)
    (hf0 : f ≠ some 0) (hft : truthy f = true)
    (hn : st'.notes = st.notes) (hs : st'.sections = blockSections bs 0 ++ [(s, (bs.length : Int))])
    (hg : st'.groups = st.groups) (ht : st'.time = st.time) (he : st'.expected = f) (hb : st'.broken = none)
    (hp1 : p'.played = p.played) (hp2 : p'.cur = []) (hp3 : p'.open_ = f) : Inv st' p' bs ks s [] := by
  refine ⟨?_, .inr hs, ?_, h.klen, h.wf, h.curlo, ?_, ?_, h.s0, ?_, ?_, ?_, ?_, ?_, ?_, ?_, ?_, hb⟩
  · rw [hn]; exact h.notes
  · rw [hg]; exact h.groups
  · rw [hn, ht]; exact h.pos
  · rw [hn]; exact h.sorted
  · rw [ht]; exact h.sle
  · rw [ht]; exact h.curnil
  · rw [hn, ht]; exact h.last
  · rw [hp3, he]
  · rw [he]; exact hf0
  · intro _ _; rw [he]; exact hft
  · rw [hp1]; exact h.played
  · rw [hp2]; rfl

/-! ## `_add_section` and the group that follows it -/

theorem addSection_close (st : St) (bs : List Block) (s : Rat)
    (hsecs : (st.sections = [] ∧ bs = [] ∧ s = 0) ∨ st.sections = blockSections bs 0 ++ [(s, (bs.length : Int))])
    (hlt : s < st.time) :
    addSection st st.time =
      ({ st with sections := blockSections bs 0 ++ [(s, (bs.length : Int)), (st.time, (bs.length : Int) + 1)] },
        some ((bs.length : Int) + 1)) := by
  unfold addSection
  rcases hsecs with ⟨h1, rfl, rfl⟩ | h1
  · have h0 : (0 : Rat) ≠ st.time := ne_of_lt hlt
    simp [h1, hlt, h0, blockSections]
  · have hst : s ≠ st.time := ne_of_lt hlt
    simp [h1, hst]

theorem addSection_same (st : St) (bs : List Block) (s : Rat)
    (h1 : st.sections = blockSections bs 0 ++ [(s, (bs.length : Int))]) (hst : s = st.time) :
    addSection st st.time = (st, none) := by
  unfold addSection
  subst hst
  simp only [h1]
  simp only [List.append_eq_nil_iff, List.cons_ne_self, and_false, false_and, ↓reduceIte,
    List.getLast?_append, List.getLast?_singleton, Option.some_or]
  rw [← h1]

theorem addSection_zero (st : St) (h1 : st.sections = []) (h0 : st.time = 0) :
    addSection st st.time = ({ st with sections := [(0, 0)] }, some 0) := by
  unfold addSection
  simp [h1, h0]

theorem addGroup_two (st : St) (xs : List (Rat × Int)) (a b : Rat × Int) (k : Nat) (h : st.sections = xs ++ [a, b]) :
    addGroup st k = .ok { st with groups := st.groups ++ [(a.2, k)] } := by
  unfold addGroup secondLast?
  rw [h]
  simp

/-! ## repeat signs -/

theorem truthy_some {k : Nat} (hk : k ≠ 0) : truthy (some k) = true := by simp [truthy, hk]

theorem Inv.open_none {st : St} {p : Player} {bs ks s cur} (h : Inv st p bs ks s cur)
    (ht : truthy st.expected = false) : st.expected = none ∧ p.open_ = none := by
  have : st.expected = none := by
    cases he : st.expected with
    | none => rfl
    | some k =>
      have hk : k ≠ 0 := fun hk => h.exp0 (by rw [he, hk])
      rw [he, truthy_some hk] at ht; simp at ht
  exact ⟨this, by rw [h.exp, this]⟩

theorem Inv.open_some {st : St} {p : Player} {bs ks s cur} (h : Inv st p bs ks s cur)
    (ht : truthy st.expected = true) : p.open_.isSome = true := by
  rw [h.exp]
  cases he : st.expected with
  | none => rw [he] at ht; simp [truthy] at ht
  | some k => rfl

theorem doRepeat_inv {st0 st : St} {p : Player} {bs ks s cur} (h : Inv st0 p bs ks s cur) (b f : Option Nat)
    (hb0 : b ≠ some 0) (hf0 : f ≠ some 0) (hbf : b = none → truthy f = true)
    (hnd : ∀ x, b = some x → p.cur ≠ []) (hrun : doRepeat st0 b f = .ok st) :
    ¬ (p.open_.isSome ∧ b ≠ p.open_) ∧ st.notes = st0.notes ∧
    ∃ bs' ks' s', Inv st { played := p.played ++ (List.replicate (b.getD 1) p.cur).flatten, cur := [], open_ := f }
      bs' ks' s' [] := by
  unfold doRepeat at hrun
  split at hrun
  · simp at hrun
  rename_i hmis
  have hplayer : ¬ (p.open_.isSome ∧ b ≠ p.open_) := by
    rintro ⟨h1, h2⟩
    apply hmis
    rw [h.exp] at h1 h2
    refine ⟨?_, h2⟩
    cases he : st0.expected with
    | none => simp [he] at h1
    | some k =>
      have : k ≠ 0 := fun hk => h.exp0 (by rw [he, hk])
      exact truthy_some this
  refine ⟨hplayer, ?_⟩
  simp only at hrun
  by_cases hc : cur = []
  · -- nothing in the current section: only a forward repeat can stand here
    subst hc
    have hpc : p.cur = [] := by rw [h.pcur]; rfl
    have hb : b = none := by
      cases b with
      | none => rfl
      | some x => exact absurd hpc (hnd x rfl)
    subst hb
    have hst : s = st0.time := h.curnil rfl
    have hft := hbf rfl
    simp only at hrun
    rcases h.secs with ⟨h1, hbs, hs⟩ | h1
    · -- the first section event of the tune, at time 0
      have ht0 : st0.time = 0 := by rw [← hst, hs]
      rw [addSection_zero st0 h1 ht0] at hrun
      have hnpos : ¬ (0 < st0.time) := by rw [ht0]; simp
      simp only [playPreviousOnce, hnpos, false_and, ↓reduceIte, Except.ok.injEq] at hrun
      subst hrun
      refine ⟨rfl, bs, ks, s, ?_⟩
      refine h.reopen f hf0 hft rfl ?_ rfl rfl rfl h.broken ?_ rfl rfl
      · subst hbs; subst hs; simp [blockSections]
      · simp [hpc]
    · rw [addSection_same st0 bs s h1 hst] at hrun
      simp only [playPreviousOnce, Option.isSome_none, Bool.false_eq_true, and_false, ↓reduceIte,
        Except.ok.injEq] at hrun
      subst hrun
      refine ⟨rfl, bs, ks, s, ?_⟩
      refine h.reopen f hf0 hft rfl h1 rfl rfl rfl h.broken ?_ rfl rfl
      simp [hpc]
  · have hlt := h.cur_lt hc
    have htpos : 0 < st0.time := lt_of_le_of_lt h.s0 hlt
    have htne : st0.time ≠ 0 := ne_of_gt htpos
    rw [addSection_close st0 bs s h.secs hlt] at hrun
    simp only at hrun
    have hgrp : ∀ k, addGroup { st0 with sections := blockSections bs 0 ++ [(s, (bs.length : Int)), (st0.time, (bs.length : Int) + 1)] } k =
        .ok { st0 with sections := blockSections bs 0 ++ [(s, (bs.length : Int)), (st0.time, (bs.length : Int) + 1)],
                       groups := st0.groups ++ [((bs.length : Int), k)] } := fun k =>
      addGroup_two _ (blockSections bs 0) (s, (bs.length : Int)) (st0.time, (bs.length : Int) + 1) k rfl
    have hclose : ∀ k, k = b.getD 1 →
        st = { st0 with sections := blockSections bs 0 ++ [(s, (bs.length : Int)), (st0.time, (bs.length : Int) + 1)],
                        groups := st0.groups ++ [((bs.length : Int), k)], expected := f } →
        st.notes = st0.notes ∧ ∃ bs' ks' s', Inv st
          { played := p.played ++ (List.replicate (b.getD 1) p.cur).flatten, cur := [], open_ := f } bs' ks' s' [] := by
      intro k hk hst
      subst hst
      refine ⟨rfl, bs ++ [(s, cur)], ks ++ [k], st0.time, ?_⟩
      exact h.close k f hlt hf0 rfl rfl rfl rfl rfl h.broken (by rw [hk]) rfl rfl
    cases b with
    | none =>
      simp only [playPreviousOnce, htpos, Option.isSome_some, and_self, ↓reduceIte, hgrp, Except.ok.injEq] at hrun
      exact hclose 1 rfl hrun.symm
    | some x =>
      have hx : x ≠ 0 := fun hx => hb0 (by rw [hx])
      simp only [hx, ne_eq, not_false_eq_true, ↓reduceIte, closeRepeat, htne, hgrp, Except.ok.injEq] at hrun
      exact hclose x rfl hrun.symm

theorem barCounts_props {t : Tok} {b f : Option Nat} (h : barCounts t = some (b, f)) :
    b ≠ some 0 ∧ f ≠ some 0 ∧ (b = none → truthy f = true) := by
  cases t <;> simp only [barCounts] at h
  case bar c1 len c2 =>
    split at h
    · simp at h
    rename_i hz
    simp only [Option.some.injEq, Prod.mk.injEq] at h
    obtain ⟨rfl, rfl⟩ := h
    refine ⟨?_, ?_, ?_⟩
    · split <;> simp
    · split <;> simp
    · intro hb
      have h1 : ¬ 0 < c1 := by
        intro hc; rw [if_pos hc] at hb; simp at hb
      have h2 : 0 < c2 := by omega
      rw [if_pos h2]
      exact truthy_some (by omega)
  case colons n =>
    simp only [Option.some.injEq, Prod.mk.injEq] at h
    obtain ⟨rfl, rfl⟩ := h
    exact ⟨by simp, by simp, by simp⟩
  all_goals simp at h

/-! ## one item -/

theorem playItem_other (p : Player) (vals : List (Int × Rat)) (t : Tok) (hn : ∀ a l o n, t ≠ .note a l o n)
    (hb : barCounts t = none) (hl : barLen t = 0) : playItem p vals (.tok t) = some (p, vals) := by
  rw [playItem_tok _ _ _ hn, hb]
  simp [hl]

theorem Inv.dbl_nil {st : St} {p : Player} {bs ks s cur} (h : Inv st p bs ks s cur) (hc : p.cur = []) :
    Inv st { p with played := p.played ++ p.cur, cur := [] } bs ks s cur :=
  h.player (by simp [hc]) (by simp [hc]) rfl

theorem Inv.cur_nil_of_time {st : St} {p : Player} {bs ks s cur} (h : Inv st p bs ks s cur) (h0 : st.time = 0) :
    p.cur = [] := by
  have := h.notes_nil_of_time h0
  rw [h.notes] at this
  rw [h.pcur, (List.append_eq_nil_iff.mp this).2]; rfl

theorem step_inv {st1 st : St} {p1 : Player} {bs ks s cur} {i : Item} (h : Inv st1 p1 bs ks s cur)
    (hstep : stepItem id st1 i = .ok st) (hnb : isBrokenItem i = false)
    (hpos : ∀ n ∈ st.notes, n.start < n.end_)
    (hnd : ∀ t b f, i = .tok t → barCounts t = some (some b, f) → p1.cur ≠ []) :
    ∃ p new bs' ks' s' cur', st.notes = st1.notes ++ new ∧ playItem p1 (new.map pd) i = some (p, []) ∧
      Inv st p bs' ks' s' cur' := by
  cases i with
  | field f =>
    simp only [stepItem] at hstep
    obtain ⟨e1, _, e3, e4, e5, e6, e7, _, _⟩ := parseField_frame hstep
    exact ⟨p1, [], bs, ks, s, cur, by simp [e1], rfl, h.frame e1 e5 e6 e4 e7 (by rw [e3]; exact h.broken)⟩
  | start =>
    simp only [stepItem] at hstep
    obtain ⟨u, t, rfl⟩ := startMusic_shape hstep
    exact ⟨p1, [], bs, ks, s, cur, by simp, rfl, h.frame rfl rfl rfl rfl rfl rfl⟩
  | tok t =>
    simp only [stepItem] at hstep
    rcases stepTok_cases hstep with ⟨a, l, o, n, rfl⟩ | ⟨f, rfl⟩ | ⟨a, b, c, rfl⟩ | ⟨n, rfl⟩ | ⟨gt, n, rfl, rfl⟩ |
      ⟨x, rfl, rfl⟩ | ⟨rfl, ht⟩
    · -- a note
      simp only [stepTok] at hstep
      obtain ⟨base, delta, barAcc', u, len, dt, notes', _, _, _, _, _, _, _, hn, rfl⟩ := stepNote_ok hstep
      rw [h.broken] at hn
      simp only at hn
      subst hn
      have hp := hpos (newNote (base + delta + octaveShift o) st1.time (id (st1.time + dt))) (by simp)
      refine ⟨{ p1 with cur := p1.cur ++ [pd (newNote (base + delta + octaveShift o) st1.time (id (st1.time + dt)))] },
        [newNote (base + delta + octaveShift o) st1.time (id (st1.time + dt))], bs, ks, s,
        cur ++ [newNote (base + delta + octaveShift o) st1.time (id (st1.time + dt))], rfl, ?_, ?_⟩
      · rw [playItem_note]; rfl
      · exact h.note _ rfl hp rfl rfl rfl rfl rfl rfl
    · -- an inline field
      simp only [stepTok] at hstep
      obtain ⟨e1, _, e3, e4, e5, e6, e7, _, _⟩ := parseField_frame hstep
      exact ⟨p1, [], bs, ks, s, cur, by simp [e1], playItem_other _ _ _ (by simp) rfl rfl,
        h.frame e1 e5 e6 e4 e7 (by rw [e3]; exact h.broken)⟩
    · -- a bar token
      simp only [stepTok] at hstep
      unfold stepBar at hstep
      simp only at hstep
      have h0 : Inv { st1 with barAcc := [] } p1 bs ks s cur := h.frame rfl rfl rfl rfl rfl h.broken
      by_cases hz : a = 0 ∧ c = 0
      · have hbc : barCounts (.bar a b c) = none := by simp [barCounts, hz]
        have hpl : ∀ vals, playItem p1 vals (.tok (.bar a b c)) =
            if 2 ≤ b ∧ p1.open_.isNone then some ({ p1 with played := p1.played ++ p1.cur, cur := [] }, vals)
            else some (p1, vals) := by
          intro vals
          rw [playItem_tok _ _ _ (by simp), hbc]; rfl
        rw [if_pos hz] at hstep
        by_cases hcond : 2 ≤ b ∧ ¬ truthy st1.expected = true ∧ 0 < st1.time
        · rw [if_pos hcond] at hstep
          obtain ⟨hb2, hexp, htpos⟩ := hcond
          obtain ⟨hen, hon⟩ := h.open_none (by simpa using hexp)
          have hplc : 2 ≤ b ∧ p1.open_.isNone = true := ⟨hb2, by rw [hon]; rfl⟩
          by_cases hc : cur = []
          · subst hc
            have hst : s = st1.time := h.curnil rfl
            rcases h.secs with ⟨_, _, hs⟩ | h1
            · rw [hs] at hst; rw [← hst] at htpos; exact absurd htpos (lt_irrefl _)
            · rw [addSection_same { st1 with barAcc := [] } bs s h1 hst] at hstep
              simp only [Option.isSome_none, Bool.false_eq_true, ↓reduceIte, Except.ok.injEq] at hstep
              subst hstep
              refine ⟨{ p1 with played := p1.played ++ p1.cur, cur := [] }, [], bs, ks, s, [], by simp, ?_, h0.dbl_nil (by rw [h.pcur]; rfl)⟩
              rw [hpl, if_pos hplc]; rfl
          · have hlt := h.cur_lt hc
            rw [addSection_close { st1 with barAcc := [] } bs s h.secs hlt] at hstep
            simp only [Option.isSome_some, ↓reduceIte] at hstep
            rw [addGroup_two _ (blockSections bs 0) (s, (bs.length : Int)) (st1.time, (bs.length : Int) + 1) 1 rfl] at hstep
            simp only [Except.ok.injEq] at hstep
            subst hstep
            refine ⟨{ p1 with played := p1.played ++ p1.cur, cur := [] }, [], bs ++ [(s, cur)], ks ++ [1], st1.time, [], by simp, ?_, ?_⟩
            · rw [hpl, if_pos hplc]; rfl
            · exact h.close 1 st1.expected hlt h.exp0 rfl rfl rfl rfl rfl h.broken (by simp) rfl h.exp
        · rw [if_neg hcond] at hstep
          simp only [Except.ok.injEq] at hstep
          subst hstep
          by_cases hplc : 2 ≤ b ∧ p1.open_.isNone = true
          · -- a double bar before the first note
            have hexp : ¬ truthy st1.expected = true := by
              intro ht
              have := h.open_some ht
              rw [Option.isNone_iff_eq_none.mp hplc.2] at this
              simp at this
            have ht0 : st1.time = 0 := by
              by_contra hne
              exact hcond ⟨hplc.1, hexp, lt_of_le_of_ne h.time_nonneg (Ne.symm hne)⟩
            refine ⟨{ p1 with played := p1.played ++ p1.cur, cur := [] }, [], bs, ks, s, cur, by simp, ?_, h0.dbl_nil (h.cur_nil_of_time ht0)⟩
            rw [hpl, if_pos hplc]; rfl
          · refine ⟨p1, [], bs, ks, s, cur, by simp, ?_, h0⟩
            rw [hpl, if_neg hplc]; rfl
      · rw [if_neg hz] at hstep
        have hbc : barCounts (.bar a b c) =
            some (if 0 < a then some (a + 1) else none, if 0 < c then some (c + 1) else none) := by
          simp only [barCounts, hz, ↓reduceIte]
        obtain ⟨q1, q2, q3⟩ := barCounts_props hbc
        obtain ⟨r1, r2, bs', ks', s', r3⟩ := doRepeat_inv h0 _ _ q1 q2 q3
          (fun x hx => hnd _ x _ rfl (by rw [hbc, hx])) hstep
        refine ⟨_, [], bs', ks', s', [], by simp [r2], ?_, r3⟩
        rw [playItem_tok _ _ _ (by simp), hbc]
        simp only
        rw [if_neg r1]; rfl
    · -- colons without a bar character
      simp only [stepTok] at hstep
      unfold stepColons at hstep
      split at hstep
      · simp at hstep
      simp only at hstep
      have h0 : Inv { st1 with barAcc := [] } p1 bs ks s cur := h.frame rfl rfl rfl rfl rfl h.broken
      have hbc : barCounts (.colons n) = some (some (n / 2 + 1), some (n / 2 + 1)) := rfl
      obtain ⟨q1, q2, q3⟩ := barCounts_props hbc
      obtain ⟨r1, r2, bs', ks', s', r3⟩ := doRepeat_inv h0 _ _ q1 q2 q3
        (fun x hx => hnd _ x _ rfl (by rw [hbc, hx])) hstep
      refine ⟨_, [], bs', ks', s', [], by simp [r2], ?_, r3⟩
      rw [playItem_tok _ _ _ (by simp), hbc]
      simp only
      rw [if_neg r1]; rfl
    · simp [isBrokenItem] at hnb
    · exact ⟨p1, [], bs, ks, s, cur, by simp, playItem_other _ _ _ (by simp) rfl rfl,
        h.frame rfl rfl rfl rfl rfl h.broken⟩
    · rcases ht with rfl | rfl | rfl | rfl <;>
        exact ⟨p1, [], bs, ks, s, cur, by simp, playItem_other _ _ _ (by simp) rfl rfl, h⟩

/-! ## the whole tune -/

/-- without broken-rhythm tokens the notes only grow and no broken rhythm is pending -/
theorem stepItem_prefix {R : Rat → Rat} {st st' : St} {i : Item} (hb : st.broken = none)
    (hnb : isBrokenItem i = false) (h : stepItem R st i = .ok st') :
    (∃ new, st'.notes = st.notes ++ new) ∧ st'.broken = none := by
  cases i with
  | field f =>
    simp only [stepItem] at h
    obtain ⟨e1, _, e3, _⟩ := parseField_frame h
    exact ⟨⟨[], by simp [e1]⟩, by rw [e3]; exact hb⟩
  | start =>
    simp only [stepItem] at h
    obtain ⟨u, t, rfl⟩ := startMusic_shape h
    exact ⟨⟨[], by simp⟩, rfl⟩
  | tok t =>
    simp only [stepItem] at h
    rcases stepTok_cases h with ⟨a, l, o, n, rfl⟩ | ⟨f, rfl⟩ | ⟨a, b, c, rfl⟩ | ⟨n, rfl⟩ | ⟨gt, n, rfl, rfl⟩ |
      ⟨x, rfl, rfl⟩ | ⟨rfl, ht⟩
    · simp only [stepTok] at h
      obtain ⟨base, delta, barAcc', u, len, dt, notes', _, _, _, _, _, _, _, hn, rfl⟩ := stepNote_ok h
      rw [hb] at hn
      simp only at hn
      subst hn
      exact ⟨⟨_, rfl⟩, rfl⟩
    · simp only [stepTok] at h
      obtain ⟨e1, _, e3, _⟩ := parseField_frame h
      exact ⟨⟨[], by simp [e1]⟩, by rw [e3]; exact hb⟩
    · simp only [stepTok] at h
      obtain ⟨secs, g, e, rfl⟩ := stepBar_shape h
      exact ⟨⟨[], by simp⟩, hb⟩
    · simp only [stepTok] at h
      obtain ⟨secs, g, e, rfl⟩ := stepColons_shape h
      exact ⟨⟨[], by simp⟩, hb⟩
    · simp [isBrokenItem] at hnb
    · exact ⟨⟨[], by simp⟩, hb⟩
    · exact ⟨⟨[], by simp⟩, hb⟩

theorem runItems_broken_none {R : Rat → Rat} {st st' : St} {items : List Item} (hb : st.broken = none)
    (hnb : ∀ i ∈ items, isBrokenItem i = false) (h : runItems R st items = .ok st') : st'.broken = none := by
  induction items generalizing st with
  | nil => simp only [runItems, Except.ok.injEq] at h; rw [← h]; exact hb
  | cons i r ih =>
    simp only [runItems] at h
    split at h
    · simp at h
    rename_i st1 h1
    exact ih (stepItem_prefix hb (hnb i (by simp)) h1).2 (fun j hj => hnb j (by simp [hj])) h

/-- the invariant holds after every accepted prefix; the player has then consumed exactly the
notes produced so far -/
theorem run_inv (ritems : List Item) : ∀ st, runItems id init ritems.reverse = .ok st →
    (∀ i ∈ ritems, isBrokenItem i = false) → (∀ n ∈ st.notes, n.start < n.end_) → NonDegenerate ritems.reverse →
    ∃ p bs ks s cur, playRun {} (st.notes.map pd) ritems.reverse = some (p, []) ∧ Inv st p bs ks s cur := by
  induction ritems with
  | nil =>
    intro st h _ _ _
    simp only [List.reverse_nil, runItems, Except.ok.injEq] at h
    subst h
    exact ⟨{}, [], [], 0, [], rfl, Inv_init⟩
  | cons i r ih =>
    intro st h hnb hpos hnd
    rw [List.reverse_cons, runItems_append] at h
    split at h
    · simp at h
    rename_i st1 h1
    simp only [runItems] at h
    split at h
    · simp at h
    rename_i st2 h2
    simp only [Except.ok.injEq] at h
    subst h
    have hnbr : ∀ j ∈ r.reverse, isBrokenItem j = false := fun j hj => hnb j (by simp [List.mem_reverse.mp hj])
    have hb1 : st1.broken = none := runItems_broken_none rfl hnbr h1
    obtain ⟨⟨new0, hnew0⟩, _⟩ := stepItem_prefix hb1 (hnb i (by simp)) h2
    have hpos1 : ∀ n ∈ st1.notes, n.start < n.end_ := fun n hn =>
      hpos n (by rw [hnew0]; exact List.mem_append_left _ hn)
    have hnd1 : NonDegenerate r.reverse := by
      intro pre t b f post he hbc
      exact hnd pre t b f (post ++ [i]) (by rw [List.reverse_cons, he]; simp) hbc
    obtain ⟨p1, bs, ks, s, cur, hrun1, hinv1⟩ := ih st1 h1 (fun j hj => hnb j (by simp [hj])) hpos1 hnd1
    have hndi : ∀ t b f, i = .tok t → barCounts t = some (some b, f) → p1.cur ≠ [] := by
      intro t b f hi hbc
      obtain ⟨q, vals, hq, hqc⟩ := hnd r.reverse t b f [] (by rw [List.reverse_cons, hi]) hbc
      have hp1 : playItems {} (st1.notes.map pd) r.reverse = some p1 := by
        rw [playItems_eq_playRun, hrun1]; rfl
      have hsim := playItems_sim (p := {}) (q := {}) ⟨rfl, rfl⟩ hq hp1
      intro hc
      apply hqc
      exact List.eq_nil_of_length_eq_zero (by rw [hsim.1, hc]; rfl)
    obtain ⟨p, new, bs', ks', s', cur', hnew, hplay, hinv⟩ := step_inv hinv1 h2 (hnb i (by simp)) hpos hndi
    refine ⟨p, bs', ks', s', cur', ?_, hinv⟩
    rw [List.reverse_cons, playRun_append, hnew, List.map_append, playRun_extend (new.map pd) hrun1]
    simp only [List.nil_append, playRun, hplay]

/-- what `ABCTune.__init__` does after the line loop -/
theorem parseTune_ok {R : Rat → Rat} {lines : List Line} {tune : Tune} (h : parseTune R lines = .ok tune) :
    ∃ st st1 st2, runItems R init (flatten lines) = .ok st ∧
      st1.notes = st.notes ∧ st1.sections = st.sections ∧ st1.groups = st.groups ∧ st1.time = st.time ∧
      st1.expected = st.expected ∧ st1.broken = st.broken ∧
      truthy st1.expected = false ∧ finalizeSections st1 = .ok st2 ∧ tune = toTune st2 := by
  unfold parseTune at h
  split at h
  · simp at h
  rename_i st hst
  unfold finishTune at h
  split at h
  · simp at h
  rename_i st1 h1
  split at h
  · simp at h
  rename_i hexp
  split at h
  · simp at h
  rename_i st2 h2
  simp only [Except.ok.injEq] at h
  refine ⟨st, st1, st2, by rw [← runLines_eq_runItems]; exact hst, ?_, ?_, ?_, ?_, ?_, ?_, by simpa using hexp, h2, h.symm⟩
  all_goals
    split at h1
    · obtain ⟨u, t, rfl⟩ := finishHeader_shape h1; rfl
    · simp only [Except.ok.injEq] at h1; rw [h1]

/-- `_finalize_sections` on a state that satisfies the invariant -/
theorem finalize_inv {st1 st2 : St} {p : Player} {bs ks s cur} (h : Inv st1 p bs ks s cur)
    (hexp : truthy st1.expected = false) (hf : finalizeSections st1 = .ok st2) :
    (st1.sections = [] ∧ st2 = st1) ∨
    (∃ n, st1.notes.getLast? = some n ∧ bs ≠ [] ∧
      ((cur = [] ∧ st2 = { st1 with sections := blockSections bs 0 }) ∨
       (cur ≠ [] ∧ st2 = { st1 with groups := st1.groups ++ [((bs.length : Int), 1)] }))) := by
  unfold finalizeSections at hf
  simp only at hf
  rcases h.secs with ⟨h1, _, _⟩ | h1
  · left
    simp only [h1, List.getLast?_nil, Except.ok.injEq] at hf
    exact ⟨h1, hf.symm⟩
  · right
    have hbs : bs ≠ [] := by
      intro hb
      have := h.open1 hb (by rw [h1]; simp)
      rw [this] at hexp; simp at hexp
    obtain ⟨bs0, b, rfl⟩ : ∃ bs0 b, bs = bs0 ++ [b] := by
      rcases List.eq_nil_or_concat bs with hb | ⟨L, b, hb⟩
      · exact absurd hb hbs
      · exact ⟨L, b, by rw [hb]; simp⟩
    obtain ⟨sb, nb⟩ := b
    have hk : ks ≠ [] := by
      intro hk; have := h.klen; rw [hk] at this; simp at this
    obtain ⟨ks0, k, rfl⟩ : ∃ ks0 k, ks = ks0 ++ [k] := by
      rcases List.eq_nil_or_concat ks with hb | ⟨L, b, hb⟩
      · exact absurd hb hk
      · exact ⟨L, b, by rw [hb]; simp⟩
    have hlen : ks0.length = bs0.length := by
      have := h.klen; simpa using this
    have hglast : st1.groups.getLast? = some ((bs0.length : Int), k) := by
      rw [h.groups, groupsOf_append]
      simp [groupsOf, hlen]
    have hslast : (blockSections (bs0 ++ [(sb, nb)]) 0).getLast? = some (sb, (bs0.length : Int)) := by
      rw [blockSections_snoc]; simp
    have hl : st1.sections.getLast? = some (s, (((bs0 ++ [(sb, nb)]).length : Nat) : Int)) := by
      rw [h1]; simp
    have hdl : st1.sections.dropLast = blockSections (bs0 ++ [(sb, nb)]) 0 := by
      rw [h1]; simp
    simp only [hl] at hf
    cases hn : st1.notes.getLast? with
    | none => rw [hn] at hf; simp at hf
    | some n =>
      refine ⟨n, rfl, hbs, ?_⟩
      rw [hn] at hf
      simp only at hf
      have hend := h.last n hn
      by_cases hs : s = n.end_
      · left
        have hc : cur = [] := by
          by_contra hc
          have := h.cur_lt hc
          rw [hs, hend] at this
          exact lt_irrefl _ this
        rw [if_pos hs] at hf
        simp only [hdl, hslast, hglast, ne_eq, not_true_eq_false, ↓reduceIte, Except.ok.injEq] at hf
        exact ⟨hc, hf.symm⟩
      · right
        have hc : cur ≠ [] := by
          intro hc
          exact hs (by rw [h.curnil hc, hend])
        rw [if_neg hs] at hf
        have hne : ¬ ((bs0.length : Int) = (((bs0 ++ [(sb, nb)]).length : Nat) : Int)) := by
          simp
        simp only [hl, hglast, ne_eq, hne, not_false_eq_true, ↓reduceIte, Except.ok.injEq] at hf
        exact ⟨hc, hf.symm⟩

theorem flatMap_groupsOf0 (bs : List Block) (ks : List Nat) (h : ks.length ≤ bs.length) :
    (groupsOf ks 0).flatMap (fun g => (List.replicate g.2 (blockPd bs g.1)).flatten) = playedOf bs ks := by
  have := flatMap_groupsOf [] bs ks h
  simpa using this

/-- the repeat clause: the expansion of the parsed section structure is the played order -/
theorem repeats_core (lines : List Line) (tune : Tune) (h : parseTune id lines = .ok tune)
    (hnb : ∀ i ∈ flatten lines, isBrokenItem i = false) (hpos : ∀ n ∈ tune.notes, n.start < n.end_)
    (hnd : NonDegenerate (flatten lines)) :
    ∃ L, expand id tune = .ok L ∧ unfold (flatten lines) (tune.notes.map pd) = some (L.map pd) := by
  obtain ⟨st, st1, st2, hrun, e1, e2, e3, e4, e5, e6, hexp, hfin, rfl⟩ := parseTune_ok h
  have hnotes2 : st2.notes = st.notes := by rw [finalizeSections_notes hfin, e1]
  have hpos' : ∀ n ∈ st.notes, n.start < n.end_ := by
    intro n hn
    apply hpos
    show n ∈ st2.notes
    rw [hnotes2]; exact hn
  obtain ⟨p, bs, ks, s, cur, hplay, hinv⟩ := run_inv (flatten lines).reverse st (by simpa using hrun)
    (by simpa using hnb) hpos' (by simpa using hnd)
  rw [List.reverse_reverse] at hplay
  have hinv1 : Inv st1 p bs ks s cur := hinv.frame e1 e2 e3 e4 e5 (by rw [e6]; exact hinv.broken)
  obtain ⟨_, hopen⟩ := hinv1.open_none hexp
  have hunf : unfold (flatten lines) ((toTune st2).notes.map pd) = some (p.played ++ p.cur) := by
    unfold unfold
    rw [playItems_eq_playRun]
    show (match Option.map (·.1) (playRun {} (st2.notes.map pd) (flatten lines)) with
      | some p => if p.open_.isNone then some (p.played ++ p.cur) else none
      | none => none) = _
    rw [hnotes2, hplay]
    simp [hopen]
  rw [hunf]
  rcases finalize_inv hinv1 hexp hfin with ⟨hs, hst2⟩ | ⟨n, hlast, hbs, ⟨hc, rfl⟩ | ⟨hc, rfl⟩⟩
  · -- no section structure at all
    rw [hst2]
    have hbs : bs = [] := by
      rcases hinv1.secs with ⟨_, hb, _⟩ | h1
      · exact hb
      · rw [hs] at h1; simp at h1
    subst hbs
    have hks : ks = [] := List.eq_nil_of_length_eq_zero (by rw [hinv1.klen]; rfl)
    subst hks
    refine ⟨st1.notes, ?_, ?_⟩
    · simp [expand, toTune, hinv1.groups, groupsOf]
    · rw [hinv1.played, hinv1.pcur, hinv1.notes]
      simp [playedOf, blockNotes]
  · -- the last section ends with the tune
    subst hc
    have htot : totalTimeOf st1.notes = st1.time := by
      simp only [totalTimeOf, hlast]; exact hinv1.last n hlast
    have hnotes : st1.notes = blockNotes bs := by rw [hinv1.notes]; simp
    have htune : toTune { st1 with sections := blockSections bs 0 } =
        tuneOfBlocks bs st1.time (groupsOf ks 0) (toTune { st1 with sections := blockSections bs 0 }) := by
      have htot' : totalTimeOf (blockNotes bs) = st1.time := by rw [← hnotes]; exact htot
      simp only [toTune, tuneOfBlocks, htot', hinv1.groups, hnotes]
    rw [htune]
    have hk : ks ≠ [] := by
      intro hk; have := hinv1.klen; rw [hk] at this; exact hbs (List.eq_nil_of_length_eq_zero this.symm)
    obtain ⟨L, hL, hpdL⟩ := expand_blocks bs st1.time (groupsOf ks 0) (toTune { st1 with sections := blockSections bs 0 })
      (by rw [← hinv1.curnil rfl]; exact hinv1.wf) (by rw [← hnotes]; exact hinv1.sorted)
      (by cases ks with
          | nil => exact absurd rfl hk
          | cons k r => simp [groupsOf])
      (by intro g hg
          have := mem_groupsOf hg
          rw [hinv1.klen] at this
          omega)
    refine ⟨L, hL, ?_⟩
    rw [hpdL, flatMap_groupsOf0 bs ks (le_of_eq hinv1.klen), hinv1.played, hinv1.pcur]
    simp
  · -- the last section is still open at the end: it is played once
    have htot : totalTimeOf st1.notes = st1.time := by
      simp only [totalTimeOf, hlast]; exact hinv1.last n hlast
    have hlt := hinv1.cur_lt hc
    have hsec : st1.sections = blockSections (bs ++ [(s, cur)]) 0 := by
      rcases hinv1.secs with ⟨_, hb, _⟩ | h1
      · exact absurd hb hbs
      · rw [h1, blockSections_snoc]
    have hgrp : st1.groups ++ [((bs.length : Int), 1)] = groupsOf (ks ++ [1]) 0 := by
      rw [hinv1.groups, groupsOf_append, hinv1.klen]; simp [groupsOf]
    have hnotes : st1.notes = blockNotes (bs ++ [(s, cur)]) := by rw [hinv1.notes, blockNotes_snoc]
    have htune : toTune { st1 with groups := st1.groups ++ [((bs.length : Int), 1)] } =
        tuneOfBlocks (bs ++ [(s, cur)]) st1.time (groupsOf (ks ++ [1]) 0)
          (toTune { st1 with groups := st1.groups ++ [((bs.length : Int), 1)] }) := by
      simp only [toTune, tuneOfBlocks, htot, hgrp, ← hnotes, ← hsec]
    rw [htune]
    have hcur : ∀ m ∈ cur, s ≤ m.start ∧ m.start < st1.time ∧ m.end_ ≤ st1.time := by
      intro m hm
      have h2 := hinv1.pos m (by rw [hinv1.notes]; exact List.mem_append_right _ hm)
      exact ⟨hinv1.curlo m hm, by linarith [h2.2.1, h2.2.2], h2.2.2⟩
    obtain ⟨L, hL, hpdL⟩ := expand_blocks (bs ++ [(s, cur)]) st1.time (groupsOf (ks ++ [1]) 0)
      (toTune { st1 with groups := st1.groups ++ [((bs.length : Int), 1)] })
      (BlocksWF_snoc hinv1.wf hlt hcur) (by rw [← hnotes]; exact hinv1.sorted)
      (by rw [groupsOf_append]; simp [groupsOf])
      (by intro g hg
          have := mem_groupsOf hg
          simp only [List.length_append, List.length_cons, List.length_nil] at this ⊢
          rw [hinv1.klen] at this
          omega)
    refine ⟨L, hL, ?_⟩
    rw [hpdL, flatMap_groupsOf0 _ _ (by simp [hinv1.klen]), playedOf_snoc _ _ _ _ hinv1.klen, hinv1.played, hinv1.pcur]
    simp

/-! ## a decidable sufficient condition for `NonDegenerate` (for concrete tunes) -/

def ndCheck (items : List Item) : Bool :=
  (List.range items.length).all fun k =>
    match items[k]? with
    | some (.tok t) =>
      match barCounts t with
      | some (some _, _) =>
        match playItems {} (List.replicate k (0, 0)) (items.take k) with
        | some p => !p.cur.isEmpty
        | none => false
      | _ => true
    | _ => true

theorem nonDegenerate_of_check {items : List Item} (h : ndCheck items = true) : NonDegenerate items := by
  intro pre t b f post he hbc
  have hk : pre.length < items.length := by rw [he]; simp
  have h0 := List.all_eq_true.mp h pre.length (List.mem_range.mpr hk)
  have h1 : items[pre.length]? = some (.tok t) := by rw [he]; simp
  have h2 : items.take pre.length = pre := by rw [he]; simp
  rw [h1] at h0
  simp only [hbc, h2] at h0
  split at h0
  · rename_i p hp
    exact ⟨p, _, hp, by simpa using h0⟩
  · simp at h0

end NSV.C04
