import NoteSeqVerif.Proofs.C12
/-! C12 — generic helper lemmas for the permutation-invariance corollaries (extraction / splitting,
transposition, stretching): `NSPerm` is an equivalence, lists of results up to storage order,
uniqueness of the stably sorted list when no two keys coincide, `takeWhile`/`dropWhile` of a sorted
list are filters. -/
namespace NSV.C12
open NSV

/-! ## `NSPerm` is an equivalence relation -/

theorem NSPerm.refl (s : NoteSeq) : NSPerm s s :=
  ⟨.refl _, .refl _, .refl _, .refl _, .refl _, .refl _, .refl _, .refl _,
   rfl, rfl, rfl, rfl, rfl, rfl, rfl, rfl, rfl, rfl⟩

theorem NSPerm.symm {s s' : NoteSeq} (h : NSPerm s s') : NSPerm s' s :=
  ⟨h.notes.symm, h.tempos.symm, h.timeSigs.symm, h.keySigs.symm, h.texts.symm, h.ccs.symm,
   h.bends.symm, h.sectionAnns.symm, h.sgroups.symm, h.totalTime.symm, h.totalQSteps.symm,
   h.spq.symm, h.sps.symm, h.hasSub.symm, h.subStart.symm, h.subEnd.symm, h.tpq.symm, h.metaTag.symm⟩

theorem NSPerm.trans {a b c : NoteSeq} (h : NSPerm a b) (g : NSPerm b c) : NSPerm a c :=
  ⟨h.notes.trans g.notes, h.tempos.trans g.tempos, h.timeSigs.trans g.timeSigs,
   h.keySigs.trans g.keySigs, h.texts.trans g.texts, h.ccs.trans g.ccs, h.bends.trans g.bends,
   h.sectionAnns.trans g.sectionAnns, h.sgroups.trans g.sgroups, h.totalTime.trans g.totalTime,
   h.totalQSteps.trans g.totalQSteps, h.spq.trans g.spq, h.sps.trans g.sps, h.hasSub.trans g.hasSub,
   h.subStart.trans g.subStart, h.subEnd.trans g.subEnd, h.tpq.trans g.tpq, h.metaTag.trans g.metaTag⟩

theorem NSPerm.isQuantized {s s' : NoteSeq} (h : NSPerm s s') : s.isQuantized = s'.isQuantized := by
  unfold NoteSeq.isQuantized; rw [h.spq, h.sps]

theorem ResPerm.refl (r : Except Err NoteSeq) : ResPerm r r := by
  cases r with
  | ok a => exact NSPerm.refl a
  | error e => rfl

/-! ## lists of sequences up to storage order -/

/-- same length, and the sequences at equal positions differ only in storage order -/
def PermList : List NoteSeq → List NoteSeq → Prop
  | [], [] => True
  | a :: l, b :: l' => NSPerm a b ∧ PermList l l'
  | _, _ => False

/-- results that are lists of sequences agree up to storage order: same error, or both succeed with
lists of the same length whose entries pairwise differ only in storage order -/
def ResPermList (r r' : Except Err (List NoteSeq)) : Prop :=
  match r, r' with
  | .ok l, .ok l' => PermList l l'
  | .error e, .error e' => e = e'
  | _, _ => False

theorem PermList.refl (l : List NoteSeq) : PermList l l := by
  induction l with
  | nil => trivial
  | cons a l ih => exact ⟨NSPerm.refl a, ih⟩

theorem PermList.length_eq : ∀ {l l' : List NoteSeq}, PermList l l' → l.length = l'.length
  | [], [], _ => rfl
  | _ :: _, _ :: _, h => by simp [PermList.length_eq h.2]
  | [], _ :: _, h => h.elim
  | _ :: _, [], h => h.elim

theorem PermList.get : ∀ {l l' : List NoteSeq}, PermList l l' → ∀ (i : Nat) (a b : NoteSeq),
    l[i]? = some a → l'[i]? = some b → NSPerm a b
  | [], [], _, i, a, b, ha, _ => by simp at ha
  | x :: l, y :: l', h, 0, a, b, ha, hb => by
    simp at ha hb; subst ha hb; exact h.1
  | x :: l, y :: l', h, i + 1, a, b, ha, hb => by
    simp at ha hb; exact PermList.get h.2 i a b ha hb
  | [], _ :: _, h, _, _, _, _, _ => h.elim
  | _ :: _, [], h, _, _, _, _, _ => h.elim

/-- the reading of `PermList`: equal lengths and position-wise `NSPerm` -/
theorem permList_iff (l l' : List NoteSeq) :
    PermList l l' ↔ l.length = l'.length ∧
      ∀ (i : Nat) (a b : NoteSeq), l[i]? = some a → l'[i]? = some b → NSPerm a b := by
  constructor
  · intro h; exact ⟨h.length_eq, h.get⟩
  · induction l generalizing l' with
    | nil =>
      rintro ⟨hl, _⟩
      cases l' with
      | nil => trivial
      | cons b l' => simp at hl
    | cons a l ih =>
      rintro ⟨hl, hg⟩
      cases l' with
      | nil => simp at hl
      | cons b l' =>
        refine ⟨hg 0 a b (by simp) (by simp), ih l' ⟨by simpa using hl, ?_⟩⟩
        intro i x y hx hy
        exact hg (i + 1) x y (by simpa using hx) (by simpa using hy)

theorem PermList.map {α : Type} (f g : α → NoteSeq) (l : List α) (h : ∀ x ∈ l, NSPerm (f x) (g x)) :
    PermList (l.map f) (l.map g) := by
  induction l with
  | nil => trivial
  | cons a l ih =>
    exact ⟨h a (by simp), ih (fun x hx => h x (List.mem_cons_of_mem _ hx))⟩

theorem ResPermList.refl (r : Except Err (List NoteSeq)) : ResPermList r r := by
  cases r with
  | ok a => exact PermList.refl a
  | error e => rfl

/-! ## a sorted list without coinciding keys is determined by its multiset -/

theorem pairwise_mem_ne {α : Type} {R : α → α → Prop} (hR : ∀ {x y}, R x y → R y x) {l : List α}
    (h : l.Pairwise R) {a b : α} (ha : a ∈ l) (hb : b ∈ l) (hab : a ≠ b) : R a b := by
  induction l with
  | nil => simp at ha
  | cons x l ih =>
    have hx := (List.pairwise_cons.mp h).1
    have hl := (List.pairwise_cons.mp h).2
    rcases List.mem_cons.mp ha with rfl | ha' <;> rcases List.mem_cons.mp hb with rfl | hb'
    · exact absurd rfl hab
    · exact hx b hb'
    · exact hR (hx a ha')
    · exact ih hl ha' hb'

/-- two strictly key-increasing lists with the same elements are equal -/
theorem eq_of_perm_of_strict {α : Type} (key : α → Rat) : ∀ {l l' : List α}, l.Perm l' →
    l.Pairwise (fun a b => key a < key b) → l'.Pairwise (fun a b => key a < key b) → l = l'
  | [], l', h, _, _ => h.nil_eq
  | a :: t, [], h, _, _ => absurd h.symm.nil_eq (by simp)
  | a :: t, b :: t', h, hs, hs' => by
    have hab : a = b := by
      apply Classical.byContradiction
      intro hne
      have ha : a ∈ b :: t' := h.mem_iff.mp (by simp)
      have hb : b ∈ a :: t := h.mem_iff.mpr (by simp)
      have ha' : a ∈ t' := by
        rcases List.mem_cons.mp ha with h1 | h1
        · exact absurd h1 hne
        · exact h1
      have hb' : b ∈ t := by
        rcases List.mem_cons.mp hb with h1 | h1
        · exact absurd h1.symm hne
        · exact h1
      have h1 := (List.pairwise_cons.mp hs).1 b hb'
      have h2 := (List.pairwise_cons.mp hs').1 a ha'
      grind
    subst hab
    have ht := eq_of_perm_of_strict key (List.Perm.cons_inv h) (List.pairwise_cons.mp hs).2
      (List.pairwise_cons.mp hs').2
    rw [ht]

/-- no two elements of the list have the same key (as a relation between list positions) -/
abbrev DistinctKeys {α : Type} (key : α → Rat) (l : List α) : Prop :=
  l.Pairwise (fun a b => key a ≠ key b)

theorem DistinctKeys.perm {α : Type} {key : α → Rat} {l l' : List α} (h : l.Perm l')
    (hd : DistinctKeys key l) : DistinctKeys key l' :=
  h.pairwise hd (fun hxy => fun e => hxy e.symm)

theorem strict_of_sorted_distinct {α : Type} (key : α → Rat) {l : List α}
    (hs : l.Pairwise (fun a b => key a ≤ key b)) (hd : DistinctKeys key l) :
    l.Pairwise (fun a b => key a < key b) := by
  induction l with
  | nil => exact List.Pairwise.nil
  | cons a l ih =>
    have h1 := List.pairwise_cons.mp hs
    have h2 := List.pairwise_cons.mp hd
    refine List.pairwise_cons.mpr ⟨?_, ih h1.2 h2.2⟩
    intro b hb
    exact Rat.lt_of_le_of_ne (h1.1 b hb) (h2.1 b hb)

/-- two key-sorted permutations of one multiset without coinciding keys are equal -/
theorem sorted_unique {α : Type} (key : α → Rat) {S S' : List α} (h : S.Perm S')
    (hs : S.Pairwise (fun a b => key a ≤ key b)) (hs' : S'.Pairwise (fun a b => key a ≤ key b))
    (hd : DistinctKeys key S) : S = S' :=
  eq_of_perm_of_strict key h (strict_of_sorted_distinct key hs hd)
    (strict_of_sorted_distinct key hs' (hd.perm h))

theorem sortByRat_pairwise' {α : Type} (key : α → Rat) (l : List α) :
    (sortByRat key l).Pairwise (fun a b => key a ≤ key b) := by
  have h := List.pairwise_mergeSort (le := fun a b => decide (key a ≤ key b))
    (by intro a b c h1 h2; simp at *; exact Rat.le_trans h1 h2)
    (by intro a b; simp; exact Rat.le_total) l
  unfold sortByRat
  refine h.imp ?_
  intro a b hab; simpa using hab

theorem sortByRat_perm' {α : Type} (key : α → Rat) (l : List α) : (sortByRat key l).Perm l :=
  List.mergeSort_perm l _

/-- the stable sort by time of two storage orders of one multiset (always a permutation of each other) -/
theorem sortByRat_perm_of_perm {α : Type} (key : α → Rat) {l l' : List α} (h : l.Perm l') :
    (sortByRat key l).Perm (sortByRat key l') :=
  ((sortByRat_perm' key l).trans h).trans (sortByRat_perm' key l').symm

/-- … and equal when no two keys coincide -/
theorem sortByRat_eq_of_perm {α : Type} (key : α → Rat) {l l' : List α} (h : l.Perm l')
    (hd : DistinctKeys key l) : sortByRat key l = sortByRat key l' :=
  sorted_unique key (sortByRat_perm_of_perm key h) (sortByRat_pairwise' key l) (sortByRat_pairwise' key l')
    (hd.perm (sortByRat_perm' key l).symm)

/-! ## prefixes of a sorted list are filters -/

theorem takeWhile_eq_filter_of_sorted {α : Type} (key : α → Rat) (t : Rat) (l : List α)
    (hs : l.Pairwise (fun a b => key a ≤ key b)) :
    l.takeWhile (fun n => decide (key n < t)) = l.filter (fun n => decide (key n < t)) := by
  induction l with
  | nil => rfl
  | cons a l ih =>
    have h1 := List.pairwise_cons.mp hs
    by_cases h : key a < t
    · simp [h, ih h1.2]
    · have hnil : l.filter (fun n => decide (key n < t)) = [] := by
        rw [List.filter_eq_nil_iff]
        intro b hb
        have := h1.1 b hb
        simp; grind
      simp [h, hnil]

theorem dropWhile_eq_filter_of_sorted {α : Type} (key : α → Rat) (t : Rat) (l : List α)
    (hs : l.Pairwise (fun a b => key a ≤ key b)) :
    l.dropWhile (fun n => decide (key n < t)) = l.filter (fun n => !decide (key n < t)) := by
  induction l with
  | nil => rfl
  | cons a l ih =>
    have h1 := List.pairwise_cons.mp hs
    by_cases h : key a < t
    · simp [h, ih h1.2]
    · have hall : l.filter (fun n => !decide (key n < t)) = l := by
        rw [List.filter_eq_self]
        intro b hb
        have := h1.1 b hb
        simp; grind
      simp [h, hall]

/-- `isEmpty` of a list only depends on its multiset -/
theorem isEmpty_perm {α : Type} {l l' : List α} (h : l.Perm l') : l.isEmpty = l'.isEmpty := by
  cases l with
  | nil => rw [h.nil_eq]
  | cons a t =>
    cases l' with
    | nil => exact absurd h.symm.nil_eq (by simp)
    | cons b t' => rfl

end NSV.C12
