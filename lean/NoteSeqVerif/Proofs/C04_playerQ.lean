import NoteSeqVerif.Proofs.C04_tiled
/-! C04 — the player that also does what the code does at a DEGENERATE backward repeat (a `:|` directly
after a section start): it plays the most recently closed section again.  Everywhere else it is the
player of `Proofs/C04_repeats.lean`. -/
namespace NSV.C04
open NSV

/-- `prev` = the most recently closed section -/
structure PlayerQ where
  played : List (Int × Rat) := []
  cur : List (Int × Rat) := []
  prev : List (Int × Rat) := []
  open_ : Option Nat := none

/-- a repeat sign with backward count `b` and forward count `f` -/
def qRepeat (p : PlayerQ) (b f : Option Nat) : Option PlayerQ :=
  if p.open_.isSome ∧ b ≠ p.open_ then none
  else if p.cur = [] then
    match b with
    | some x =>
      -- DEGENERATE: nothing has been played since the last section start; the code repeats the
      -- section before it `x` more times (and raises if there is none: the tune is at time 0)
      if p.prev = [] then none
      else some { p with played := p.played ++ (List.replicate x p.prev).flatten, open_ := f }
    | none => some { p with open_ := f }
  else some { played := p.played ++ (List.replicate (b.getD 1) p.cur).flatten, cur := [], prev := p.cur, open_ := f }

/-- a bar token that is not a repeat sign: a double bar outside a repeat closes the current section -/
def qBar (p : PlayerQ) (len : Nat) : PlayerQ :=
  if 2 ≤ len ∧ p.open_.isNone ∧ p.cur ≠ [] then { p with played := p.played ++ p.cur, cur := [], prev := p.cur }
  else p

def playItemQ (p : PlayerQ) (vals : List (Int × Rat)) : Item → Option (PlayerQ × List (Int × Rat))
  | .tok (.note _ _ _ _) =>
    match vals with
    | v :: r => some ({ p with cur := p.cur ++ [v] }, r)
    | [] => none
  | .tok t =>
    match barCounts t with
    | some (b, f) => (qRepeat p b f).map (fun q => (q, vals))
    | none => some (qBar p (barLen t), vals)
  | _ => some (p, vals)

def playRunQ : PlayerQ → List (Int × Rat) → List Item → Option (PlayerQ × List (Int × Rat))
  | p, vals, [] => some (p, vals)
  | p, vals, i :: r =>
    match playItemQ p vals i with
    | some (p', vals') => playRunQ p' vals' r
    | none => none

/-- the order the code plays a tune in -/
def unfoldQ (items : List Item) (vals : List (Int × Rat)) : Option (List (Int × Rat)) :=
  match playRunQ {} vals items with
  | some (p, _) => if p.open_.isNone then some (p.played ++ p.cur) else none
  | none => none

theorem playItemQ_note (p : PlayerQ) (vals : List (Int × Rat)) (a : Acc) (l : Char) (o : List Bool) (n : LenSpec) :
    playItemQ p vals (.tok (.note a l o n)) =
      match vals with
      | v :: r => some ({ p with cur := p.cur ++ [v] }, r)
      | [] => none := rfl

theorem playItemQ_tok (p : PlayerQ) (vals : List (Int × Rat)) (t : Tok) (hn : ∀ a l o n, t ≠ .note a l o n) :
    playItemQ p vals (.tok t) =
      match barCounts t with
      | some (b, f) => (qRepeat p b f).map (fun q => (q, vals))
      | none => some (qBar p (barLen t), vals) := by
  cases t
  case note a l o n => exact absurd rfl (hn _ _ _ _)
  all_goals rfl

theorem qBar_zero (p : PlayerQ) : qBar p 0 = p := by simp [qBar]

/-- a token that is neither a note nor a bar token -/
theorem playItemQ_other (p : PlayerQ) (vals : List (Int × Rat)) (t : Tok) (hn : ∀ a l o n, t ≠ .note a l o n)
    (hb : barCounts t = none) (hl : barLen t = 0) : playItemQ p vals (.tok t) = some (p, vals) := by
  rw [playItemQ_tok _ _ _ hn, hb, hl, qBar_zero]

theorem playRunQ_append (p : PlayerQ) (vals : List (Int × Rat)) (a b : List Item) :
    playRunQ p vals (a ++ b) =
      match playRunQ p vals a with
      | some (p', v') => playRunQ p' v' b
      | none => none := by
  induction a generalizing p vals with
  | nil => simp [playRunQ]
  | cons i r ih =>
    simp only [List.cons_append, playRunQ]
    cases h : playItemQ p vals i with
    | none => rfl
    | some q => obtain ⟨p', v'⟩ := q; simp [ih]

/-- a non-note item does not look at the values -/
theorem playItemQ_non_note {p : PlayerQ} {i : Item} (hn : isNote i = false) (v w : List (Int × Rat)) :
    (∃ q, playItemQ p v i = some (q, v) ∧ playItemQ p w i = some (q, w)) ∨
    (playItemQ p v i = none ∧ playItemQ p w i = none) := by
  cases i with
  | field f => exact .inl ⟨p, rfl, rfl⟩
  | start => exact .inl ⟨p, rfl, rfl⟩
  | tok t =>
    have hn' : ∀ a l o n, t ≠ .note a l o n := by
      intro a l o n he; subst he; simp [isNote] at hn
    rw [playItemQ_tok _ _ _ hn', playItemQ_tok _ _ _ hn']
    cases barCounts t with
    | none => exact .inl ⟨_, rfl, rfl⟩
    | some bf =>
      obtain ⟨b, f⟩ := bf
      simp only
      cases qRepeat p b f with
      | none => exact .inr ⟨by simp, by simp⟩
      | some q => exact .inl ⟨q, by simp, by simp⟩

theorem playItemQ_extend {p p' : PlayerQ} {v r : List (Int × Rat)} {i : Item} (w : List (Int × Rat))
    (h : playItemQ p v i = some (p', r)) : playItemQ p (v ++ w) i = some (p', r ++ w) := by
  by_cases hn : isNote i = true
  · cases i with
    | tok t =>
      cases t with
      | note a l o n =>
        rw [playItemQ_note] at h ⊢
        cases v with
        | nil => simp at h
        | cons x xs =>
          simp only [Option.some.injEq, Prod.mk.injEq] at h
          simp only [List.cons_append, Option.some.injEq, Prod.mk.injEq]
          exact ⟨h.1, by rw [h.2]⟩
      | _ => simp [isNote] at hn
    | _ => simp [isNote] at hn
  · have hn' : isNote i = false := by simpa using hn
    rcases playItemQ_non_note (p := p) hn' v (v ++ w) with ⟨q, h1, h2⟩ | ⟨h1, _⟩
    · rw [h1] at h
      simp only [Option.some.injEq, Prod.mk.injEq] at h
      rw [h2, ← h.1, ← h.2]
    · rw [h1] at h; simp at h

theorem playRunQ_extend {p p' : PlayerQ} {v r : List (Int × Rat)} {items : List Item} (w : List (Int × Rat))
    (h : playRunQ p v items = some (p', r)) : playRunQ p (v ++ w) items = some (p', r ++ w) := by
  induction items generalizing p v with
  | nil =>
    simp only [playRunQ, Option.some.injEq, Prod.mk.injEq] at h ⊢
    exact ⟨h.1, by rw [h.2]⟩
  | cons i rest ih =>
    simp only [playRunQ] at h ⊢
    cases hi : playItemQ p v i with
    | none => simp [hi] at h
    | some q =>
      obtain ⟨p1, v1⟩ := q
      rw [hi] at h
      rw [playItemQ_extend w hi]
      exact ih h

/-! ## what a step does to the current section -/

theorem qRepeat_cur {p q : PlayerQ} {b f : Option Nat} (h : qRepeat p b f = some q) : q.cur = [] := by
  unfold qRepeat at h
  split at h
  · simp at h
  split at h
  · rename_i hc
    split at h
    · split at h
      · simp at h
      · simp only [Option.some.injEq] at h; rw [← h]; exact hc
    · simp only [Option.some.injEq] at h; rw [← h]; exact hc
  · simp only [Option.some.injEq] at h; rw [← h]

theorem qBar_cur (p : PlayerQ) (len : Nat) : qBar p len = p ∨ (qBar p len).cur = [] := by
  unfold qBar
  split
  · right; rfl
  · left; rfl

/-- a non-note item leaves the player alone or empties the current section -/
theorem playItemQ_non_note_cur {p q : PlayerQ} {v r : List (Int × Rat)} {i : Item} (hn : isNote i = false)
    (h : playItemQ p v i = some (q, r)) : r = v ∧ (q = p ∨ q.cur = []) := by
  cases i with
  | field f => simp only [playItemQ, Option.some.injEq, Prod.mk.injEq] at h; exact ⟨h.2.symm, .inl h.1.symm⟩
  | start => simp only [playItemQ, Option.some.injEq, Prod.mk.injEq] at h; exact ⟨h.2.symm, .inl h.1.symm⟩
  | tok t =>
    have hn' : ∀ a l o n, t ≠ .note a l o n := by
      intro a l o n he; subst he; simp [isNote] at hn
    rw [playItemQ_tok _ _ _ hn'] at h
    cases hbc : barCounts t with
    | none =>
      rw [hbc] at h
      simp only [Option.some.injEq, Prod.mk.injEq] at h
      refine ⟨h.2.symm, ?_⟩
      rw [← h.1]
      exact qBar_cur p _
    | some bf =>
      obtain ⟨b, f⟩ := bf
      rw [hbc] at h
      simp only at h
      cases hq : qRepeat p b f with
      | none => rw [hq] at h; simp at h
      | some q' =>
        rw [hq] at h
        simp only [Option.map_some, Option.some.injEq, Prod.mk.injEq] at h
        exact ⟨h.2.symm, .inr (by rw [← h.1]; exact qRepeat_cur hq)⟩

/-- with no values left the current section can only stay or become empty — and once empty it stays empty -/
theorem playRunQ_nil_cur {p q : PlayerQ} {r : List (Int × Rat)} {items : List Item}
    (h : playRunQ p [] items = some (q, r)) : r = [] ∧ (q.cur = [] ∨ q.cur = p.cur) := by
  induction items generalizing p with
  | nil =>
    simp only [playRunQ, Option.some.injEq, Prod.mk.injEq] at h
    exact ⟨h.2.symm, .inr (by rw [h.1])⟩
  | cons i rest ih =>
    simp only [playRunQ] at h
    cases hi : playItemQ p [] i with
    | none => simp [hi] at h
    | some x =>
      obtain ⟨p1, v1⟩ := x
      rw [hi] at h
      by_cases hn : isNote i = true
      · cases i with
        | tok t =>
          cases t with
          | note a l o n => rw [playItemQ_note] at hi; simp at hi
          | _ => simp [isNote] at hn
        | _ => simp [isNote] at hn
      · obtain ⟨hv, hc⟩ := playItemQ_non_note_cur (by simpa using hn) hi
        subst hv
        obtain ⟨r1, r2⟩ := ih h
        refine ⟨r1, ?_⟩
        rcases hc with rfl | hc
        · exact r2
        · rcases r2 with r2 | r2
          · exact .inl r2
          · exact .inl (by rw [r2, hc])

/-- the fields of the player a step looks at besides `cur`-emptiness -/
def PlayerQ.withCur (p : PlayerQ) (c : List (Int × Rat)) : PlayerQ := { p with cur := c }

/-- with no values left and a current section that survives: the run does not depend on what the
current section contains -/
theorem playRunQ_nil_swap {p q : PlayerQ} {items : List Item} (c : List (Int × Rat))
    (h : playRunQ p [] items = some (q, [])) (hq : q.cur ≠ []) :
    playRunQ (p.withCur c) [] items = some (q.withCur c, []) := by
  induction items generalizing p with
  | nil =>
    simp only [playRunQ, Option.some.injEq, Prod.mk.injEq] at h
    simp [playRunQ, h.1]
  | cons i rest ih =>
    simp only [playRunQ] at h ⊢
    cases hi : playItemQ p [] i with
    | none => simp [hi] at h
    | some x =>
      obtain ⟨p1, v1⟩ := x
      rw [hi] at h
      have hn : isNote i = false := by
        by_contra hn
        cases i with
        | tok t =>
          cases t with
          | note a l o n => rw [playItemQ_note] at hi; simp at hi
          | _ => simp [isNote] at hn
        | _ => simp [isNote] at hn
      obtain ⟨hv, hcase⟩ := playItemQ_non_note_cur hn hi
      subst hv
      -- the step cannot have emptied the current section
      have hp1 : p1.cur ≠ [] := by
        intro he
        rcases (playRunQ_nil_cur h).2 with r2 | r2
        · exact hq r2
        · exact hq (by rw [r2, he])
      have hp1' : p1 = p := by
        rcases hcase with h1 | h1
        · exact h1
        · exact absurd h1 hp1
      subst hp1'
      -- the same step on the swapped player
      have hstep : playItemQ (p1.withCur c) [] i = some (p1.withCur c, []) := by
        cases i with
        | field f => rfl
        | start => rfl
        | tok t =>
          have hn' : ∀ a l o n, t ≠ .note a l o n := by
            intro a l o n he; subst he; simp [isNote] at hn
          rw [playItemQ_tok _ _ _ hn'] at hi ⊢
          cases hbc : barCounts t with
          | none =>
            rw [hbc] at hi
            simp only [Option.some.injEq, Prod.mk.injEq, and_true] at hi ⊢
            unfold qBar at hi ⊢
            by_cases hcond : 2 ≤ barLen t ∧ p1.open_.isNone = true
            · have : (2 ≤ barLen t ∧ p1.open_.isNone = true ∧ p1.cur ≠ []) := ⟨hcond.1, hcond.2, hp1⟩
              rw [if_pos this] at hi
              have := congrArg PlayerQ.cur hi
              simp at this
              exact absurd this hp1
            · rw [if_neg (by intro hx; exact hcond ⟨hx.1, hx.2.1⟩)]
          | some bf =>
            obtain ⟨b, f⟩ := bf
            rw [hbc] at hi
            simp only at hi
            cases hqr : qRepeat p1 b f with
            | none => rw [hqr] at hi; simp at hi
            | some q' =>
              rw [hqr] at hi
              simp only [Option.map_some, Option.some.injEq, Prod.mk.injEq, and_true] at hi
              have := qRepeat_cur hqr
              rw [hi] at this
              exact absurd this hp1
      rw [hstep]
      exact ih h

/-- replacing the LAST value: if the current section is non-empty at the end, the last value sits at
its end and nothing else depends on it -/
theorem playRunQ_modify_last {p q : PlayerQ} {vs : List (Int × Rat)} {v v' : Int × Rat} {items : List Item}
    (h : playRunQ p (vs ++ [v]) items = some (q, [])) (hq : q.cur ≠ []) :
    playRunQ p (vs ++ [v']) items = some (q.withCur (q.cur.dropLast ++ [v']), []) := by
  induction items generalizing p vs with
  | nil => simp [playRunQ] at h
  | cons i rest ih =>
    simp only [playRunQ] at h ⊢
    cases hi : playItemQ p (vs ++ [v]) i with
    | none => simp [hi] at h
    | some x =>
      obtain ⟨p1, v1⟩ := x
      rw [hi] at h
      by_cases hn : isNote i = true
      · cases i with
        | tok t =>
          cases t with
          | note a l o n =>
            rw [playItemQ_note] at hi ⊢
            cases vs with
            | nil =>
              simp only [List.nil_append, Option.some.injEq, Prod.mk.injEq] at hi ⊢
              obtain ⟨rfl, rfl⟩ := hi
              -- the rest runs without values
              have hcur : q.cur = p.cur ++ [v] := by
                rcases (playRunQ_nil_cur h).2 with r2 | r2
                · exact absurd r2 hq
                · exact r2
              have := playRunQ_nil_swap (p.cur ++ [v']) h hq
              simp only [PlayerQ.withCur] at this ⊢
              rw [this, hcur]
              simp
            | cons w ws =>
              simp only [List.cons_append, Option.some.injEq, Prod.mk.injEq] at hi ⊢
              obtain ⟨rfl, rfl⟩ := hi
              exact ih h
          | _ => simp [isNote] at hn
        | _ => simp [isNote] at hn
      · have hn' : isNote i = false := by simpa using hn
        rcases playItemQ_non_note (p := p) hn' (vs ++ [v]) (vs ++ [v']) with ⟨q1, h1, h2⟩ | ⟨h1, _⟩
        · rw [h1] at hi
          simp only [Option.some.injEq, Prod.mk.injEq] at hi
          obtain ⟨rfl, rfl⟩ := hi
          rw [h2]
          exact ih h
        · rw [h1] at hi; simp at hi

/-! ## the plain player agrees wherever no backward repeat meets an empty current section -/

def PlayerQ.toPlain (p : PlayerQ) : Player := { played := p.played, cur := p.cur, open_ := p.open_ }

/-- one item: if the code's player moves, the plain player moves to a state with the same current
section and open count; if moreover the item is not a degenerate backward repeat, to the same state -/
theorem playItemQ_plain {p q : PlayerQ} {v r : List (Int × Rat)} {i : Item} (h : playItemQ p v i = some (q, r)) :
    ∃ q', playItem p.toPlain v i = some (q', r) ∧ q'.cur = q.cur ∧ q'.open_ = q.open_ ∧
      ((∀ t b f, i = .tok t → barCounts t = some (some b, f) → p.cur ≠ []) → q' = q.toPlain) := by
  cases i with
  | field f =>
    simp only [playItemQ, Option.some.injEq, Prod.mk.injEq] at h
    obtain ⟨rfl, rfl⟩ := h
    exact ⟨_, rfl, rfl, rfl, fun _ => rfl⟩
  | start =>
    simp only [playItemQ, Option.some.injEq, Prod.mk.injEq] at h
    obtain ⟨rfl, rfl⟩ := h
    exact ⟨_, rfl, rfl, rfl, fun _ => rfl⟩
  | tok t =>
    by_cases hn : ∃ a l o n, t = .note a l o n
    · obtain ⟨a, l, o, n, rfl⟩ := hn
      rw [playItemQ_note] at h
      rw [playItem_note]
      cases v with
      | nil => simp at h
      | cons x xs =>
        simp only [Option.some.injEq, Prod.mk.injEq] at h
        obtain ⟨rfl, rfl⟩ := h
        exact ⟨_, rfl, rfl, rfl, fun _ => rfl⟩
    · have hn' : ∀ a l o n, t ≠ .note a l o n := fun a l o n he => hn ⟨a, l, o, n, he⟩
      rw [playItemQ_tok _ _ _ hn'] at h
      rw [playItem_tok _ _ _ hn']
      cases hbc : barCounts t with
      | none =>
        rw [hbc] at h
        simp only [Option.some.injEq, Prod.mk.injEq] at h
        obtain ⟨rfl, rfl⟩ := h
        simp only
        unfold qBar
        by_cases hc : 2 ≤ barLen t ∧ p.open_.isNone = true
        · have e1 : (2 ≤ barLen t ∧ p.toPlain.open_.isNone = true) := hc
          rw [if_pos e1]
          by_cases hcur : p.cur = []
          · rw [if_neg (by intro hx; exact hx.2.2 hcur)]
            refine ⟨_, rfl, hcur.symm, rfl, fun _ => ?_⟩
            simp [PlayerQ.toPlain, hcur]
          · rw [if_pos ⟨hc.1, hc.2, hcur⟩]
            exact ⟨_, rfl, rfl, rfl, fun _ => rfl⟩
        · have e1 : ¬ (2 ≤ barLen t ∧ p.toPlain.open_.isNone = true) := hc
          rw [if_neg e1, if_neg (by intro hx; exact hc ⟨hx.1, hx.2.1⟩)]
          exact ⟨_, rfl, rfl, rfl, fun _ => rfl⟩
      | some bf =>
        obtain ⟨b, f⟩ := bf
        rw [hbc] at h
        simp only at h ⊢
        cases hq : qRepeat p b f with
        | none => rw [hq] at h; simp at h
        | some q0 =>
          rw [hq] at h
          simp only [Option.map_some, Option.some.injEq, Prod.mk.injEq] at h
          obtain ⟨rfl, rfl⟩ := h
          unfold qRepeat at hq
          split at hq
          · simp at hq
          rename_i hmis
          have e1 : ¬ (p.toPlain.open_.isSome = true ∧ b ≠ p.toPlain.open_) := hmis
          rw [if_neg e1]
          split at hq
          · rename_i hcur
            split at hq
            · rename_i x
              split at hq
              · simp at hq
              · simp only [Option.some.injEq] at hq
                subst hq
                refine ⟨_, rfl, hcur.symm, rfl, fun hnd => ?_⟩
                exact absurd hcur (hnd t x f rfl hbc)
            · simp only [Option.some.injEq] at hq
              subst hq
              refine ⟨_, rfl, hcur.symm, rfl, fun _ => ?_⟩
              simp [PlayerQ.toPlain, hcur]
          · simp only [Option.some.injEq] at hq
            subst hq
            exact ⟨_, rfl, rfl, rfl, fun _ => rfl⟩

end NSV.C04
