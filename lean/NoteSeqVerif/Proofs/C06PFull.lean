import NoteSeqVerif.Proofs.C06PEvents
/-! C06 (performance half) — the round trip at full strength: several NOTE_ONs of one pitch on one step.

Then two rendered notes can share start time and pitch, the extractor's first sort no longer has distinct keys, and
its result depends on the order in which `_to_sequence` stores the notes (Python's `sorted` is stable).  That order
is the NOTE_OFF order, and first-in-first-out matching closes notes of one pitch in the order of their NOTE_ONs
(`FOrd`), so the stable sort puts tied notes back in NOTE_ON order (`sortedNotes_full`). -/
namespace NSV.C06P
open NSV NSV.C06 NSV.C01 NSV.C07

/-! ### first-in-first-out: notes of one pitch are closed in the order they were opened -/

structure FOrd (st : AnState) : Prop where
  openInc : st.open_.Pairwise (fun a b => a.idx < b.idx)
  openLt : ∀ o ∈ st.open_, o.idx < st.nOn
  offLt : ∀ a ∈ st.offs, a.idx < st.nOn
  offOpen : ∀ a ∈ st.offs, ∀ o ∈ st.open_, a.pitch = o.pitch → a.idx < o.idx
  offsOrd : st.offs.Pairwise (fun a b => a.pitch = b.pitch → a.idx < b.idx)

theorem FOrd.init : FOrd ⟨0, [], [], true⟩ :=
  ⟨by simp, by intro o ho; simp at ho, by intro a ha; simp [AnState.offs] at ha,
   by intro a ha; simp [AnState.offs] at ha, by simp [AnState.offs]⟩

/-- the first element satisfying `p` precedes every other element satisfying `p` -/
theorem find_first {α} (R : α → α → Prop) (p : α → Bool) : ∀ (l : List α) (o : α), l.Pairwise R →
    l.find? p = some o → ∀ x ∈ l.eraseP p, p x = true → R o x := by
  intro l
  induction l with
  | nil => intro o _ h; simp at h
  | cons y ys ih =>
    intro o hpw hf x hx hpx
    rw [List.pairwise_cons] at hpw
    by_cases hy : p y = true
    · simp only [List.find?_cons, hy, Option.some.injEq] at hf
      subst hf
      simp only [List.eraseP_cons, hy, cond_true] at hx
      exact hpw.1 x hx
    · have hy' : p y = false := by simpa using hy
      simp only [List.find?_cons, hy'] at hf
      simp only [List.eraseP_cons, hy', cond_false, List.mem_cons] at hx
      rcases hx with rfl | hx
      · rw [hy'] at hpx; exact absurd hpx (by simp)
      · exact ih o hpw.2 hf x hx hpx

theorem FOrd.step {st : AnState} (h : FOrd st) (e : SEv) : FOrd (anStep st e) := by
  unfold anStep
  cases hoff : e.isOff with
  | true =>
    simp only [↓reduceIte]
    cases hf : st.open_.find? (fun o => o.pitch == e.pitch) with
    | none => exact ⟨h.openInc, h.openLt, h.offLt, h.offOpen, h.offsOrd⟩
    | some o =>
      simp only
      have ho : o ∈ st.open_ := List.mem_of_find?_eq_some hf
      have hp : o.pitch = e.pitch := by have := List.find?_some hf; simpa using this
      have hoffs : (⟨st.nOn, st.open_.eraseP (fun o => o.pitch == e.pitch),
          st.out ++ [⟨e.step, o.idx, true, e.pitch, o.s, o.bin⟩], st.ok⟩ : AnState).offs =
          st.offs ++ [⟨e.step, o.idx, true, e.pitch, o.s, o.bin⟩] := by
        simp [AnState.offs, List.filter_append]
      refine ⟨h.openInc.sublist List.eraseP_sublist, fun o' ho' => h.openLt o' (List.mem_of_mem_eraseP ho'),
        ?_, ?_, ?_⟩
      · intro a ha
        rw [hoffs, List.mem_append, List.mem_singleton] at ha
        rcases ha with ha | rfl
        · exact h.offLt a ha
        · exact h.openLt o ho
      · intro a ha o' ho' hpp
        rw [hoffs, List.mem_append, List.mem_singleton] at ha
        rcases ha with ha | rfl
        · exact h.offOpen a ha o' (List.mem_of_mem_eraseP ho') hpp
        · simp only at hpp ⊢
          exact find_first (fun a b => a.idx < b.idx) _ st.open_ o h.openInc hf o' ho' (by simp [← hpp])
      · rw [hoffs, List.pairwise_append]
        refine ⟨h.offsOrd, by simp, ?_⟩
        intro a ha b hb hpp
        simp only [List.mem_singleton] at hb
        subst hb
        simp only at hpp ⊢
        exact h.offOpen a ha o ho (by rw [hpp, hp])
  | false =>
    simp only [Bool.false_eq_true, ↓reduceIte]
    have hoffs : (⟨st.nOn + 1, st.open_ ++ [⟨e.pitch, st.nOn, e.step, e.bin⟩],
        st.out ++ [⟨e.step, st.nOn, false, e.pitch, e.step, e.bin⟩], st.ok⟩ : AnState).offs = st.offs := by
      simp [AnState.offs, List.filter_append]
    refine ⟨?_, ?_, ?_, ?_, ?_⟩
    · rw [List.pairwise_append]
      refine ⟨h.openInc, by simp, ?_⟩
      intro a ha b hb
      simp only [List.mem_singleton] at hb
      subst hb
      exact h.openLt a ha
    · intro o ho
      simp only [List.mem_append, List.mem_singleton] at ho
      rcases ho with ho | rfl
      · have := h.openLt o ho
        show o.idx < st.nOn + 1
        omega
      · simp
    · intro a ha
      rw [hoffs] at ha
      have := h.offLt a ha
      show a.idx < st.nOn + 1
      omega
    · intro a ha o ho hpp
      rw [hoffs] at ha
      simp only [List.mem_append, List.mem_singleton] at ho
      rcases ho with ho | rfl
      · exact h.offOpen a ha o ho hpp
      · exact h.offLt a ha
    · rw [hoffs]; exact h.offsOrd

theorem FOrd.run {st : AnState} (h : FOrd st) (es : List SEv) : FOrd (anRun st es) := by
  induction es generalizing st with
  | nil => exact h
  | cons e es ih => rw [anRun_cons]; exact ih (h.step e)

theorem annotate_ford (es : List SEv) : FOrd (annotate es) := FOrd.init.run es

/-! ### two members of a list -/

theorem pair_sublist_or {α} : ∀ (l : List α) (a b : α), a ∈ l → b ∈ l → a ≠ b →
    [a, b].Sublist l ∨ [b, a].Sublist l := by
  intro l
  induction l with
  | nil => intro a b ha; simp at ha
  | cons x xs ih =>
    intro a b ha hb hab
    rcases List.mem_cons.mp ha with rfl | ha' <;> rcases List.mem_cons.mp hb with rfl | hb'
    · exact absurd rfl hab
    · left; exact List.Sublist.cons_cons _ (List.singleton_sublist.mpr hb')
    · right; exact List.Sublist.cons_cons _ (List.singleton_sublist.mpr ha')
    · rcases ih a b ha' hb' hab with h | h
      · exact Or.inl (h.cons _)
      · exact Or.inr (h.cons _)

theorem nodup_pair_sublist {α} : ∀ (l : List α) (a b : α), l.Nodup → [a, b].Sublist l → [b, a].Sublist l → False := by
  intro l
  induction l with
  | nil => intro a b _ h; simp at h
  | cons x xs ih =>
    intro a b hnd h1 h2
    rw [List.nodup_cons] at hnd
    rw [List.sublist_cons_iff] at h1 h2
    rcases h1 with h1 | ⟨r1, e1, h1⟩ <;> rcases h2 with h2 | ⟨r2, e2, h2⟩
    · exact ih a b hnd.2 h1 h2
    · -- b = x, a ∈ xs, and [a, b] <+ xs puts b ∈ xs
      simp only [List.cons.injEq] at e2
      have : b ∈ xs := h1.subset (by simp)
      rw [e2.1] at this; exact hnd.1 this
    · simp only [List.cons.injEq] at e1
      have : a ∈ xs := h2.subset (by simp)
      rw [e1.1] at this; exact hnd.1 this
    · simp only [List.cons.injEq] at e1 e2
      have : b ∈ xs := by rw [← e1.2] at h1; exact h1.subset (by simp)
      rw [e2.1] at this; exact hnd.1 this

/-! ### the stable first sort -/

section full
variable {nb B v0 : Int} {strict : Bool} {st : AnState} (acc : Accepted nb B strict st) (ford : FOrd st)
include acc ford

/-- **first sort, with ties**: the stable sort by `(start_time, pitch)` of the notes in the order `_to_sequence`
stores them (NOTE_OFF order) is the list of notes in NOTE_ON order -/
theorem sortedNotes_full {R : Rat → Rat} {c : RenderCfg} {q : Rat → Int} {S : Int}
    (g : Grid (stepTimeR R c.sigma c.sst) q S B) :
    ((st.offs.map (noteOfOff nb v0)).map (qnote R c S)).mergeSort timePitchLe =
      ((List.range st.nOn).map (noteAt nb v0 st)).map (qnote R c S) := by
  -- tag every note with the number of its NOTE_ON
  let le' : Nat × Note → Nat × Note → Bool := fun x y => timePitchLe x.2 y.2
  let Xi : List (Nat × Note) := st.offs.map (fun a => (a.idx, qnote R c S (noteOfOff nb v0 a)))
  let Yi : List (Nat × Note) := (List.range st.nOn).map (fun i => (i, qnote R c S (noteAt nb v0 st i)))
  have hXsnd : Xi.map Prod.snd = (st.offs.map (noteOfOff nb v0)).map (qnote R c S) := by
    simp only [Xi, List.map_map]; rfl
  have hYsnd : Yi.map Prod.snd = ((List.range st.nOn).map (noteAt nb v0 st)).map (qnote R c S) := by
    simp only [Yi, List.map_map]; rfl
  have hXfst : Xi.map Prod.fst = st.offs.map (·.idx) := by
    simp only [Xi, List.map_map]; rfl
  have hXnodup : Xi.Nodup := by
    have := acc.offsIdx_nodup
    rw [← hXfst] at this
    exact List.Nodup.of_map _ this
  have hXY : Xi.Perm Yi := by
    have h1 : Xi = (st.offs.map (·.idx)).map (fun i => (i, qnote R c S (noteAt nb v0 st i))) := by
      simp only [Xi, List.map_map]
      apply List.map_congr_left
      intro a ha
      simp only [Function.comp, acc.noteAt_off (v0 := v0) a ha]
    rw [h1]
    exact acc.offsIdx_perm.map _
  have hle'_trans : ∀ a b c : Nat × Note, le' a b = true → le' b c = true → le' a c = true :=
    fun a b c => timePitchLe_trans a.2 b.2 c.2
  have hle'_total : ∀ a b : Nat × Note, (le' a b || le' b a) = true := fun a b => timePitchLe_total a.2 b.2
  have hres_perm : (Xi.mergeSort le').Perm Xi := List.mergeSort_perm _ _
  have hres_nodup : (Xi.mergeSort le').Nodup := (hres_perm.nodup_iff).mpr hXnodup
  have hres_sorted := List.pairwise_mergeSort hle'_trans hle'_total Xi
  -- the refined strict order: by key, ties by NOTE_ON number
  let lt' : Nat × Note → Nat × Note → Prop := fun x y => le' x y = true ∧ (le' y x = true → x.1 < y.1)
  have hY : Yi.Pairwise lt' := by
    simp only [Yi]
    rw [List.pairwise_map]
    have hle := acc.noteAt_sorted_le (v0 := v0)
    rw [List.pairwise_map] at hle
    refine List.Pairwise.imp_of_mem ?_ (hle.and (List.pairwise_lt_range (n := st.nOn)))
    intro i j hi hj ⟨h1, h2⟩
    refine ⟨?_, fun _ => h2⟩
    simp only [le']
    rw [timePitchLe_qnote g _ _ (acc.noteAt_inB i (List.mem_range.mp hi)) (acc.noteAt_inB j (List.mem_range.mp hj))]
    exact h1
  have hX : (Xi.mergeSort le').Pairwise lt' := by
    rw [List.pairwise_iff_forall_sublist]
    intro x y hxy
    have hle : le' x y = true := (List.pairwise_iff_forall_sublist.mp hres_sorted) hxy
    refine ⟨hle, fun hge => ?_⟩
    -- x and y come from two NOTE_OFFs a and b
    have hxm : x ∈ Xi := hres_perm.mem_iff.mp (hxy.subset (by simp))
    have hym : y ∈ Xi := hres_perm.mem_iff.mp (hxy.subset (by simp))
    obtain ⟨a, ha, rfl⟩ := List.mem_map.mp hxm
    obtain ⟨b, hb, rfl⟩ := List.mem_map.mp hym
    simp only
    by_contra hnlt
    have hne : a ≠ b := by
      intro hab
      subst hab
      exact nodup_pair_sublist _ _ _ hres_nodup hxy hxy
    have hidx : a.idx ≠ b.idx := by
      intro hi
      have h1 := acc.noteAt_off (v0 := v0) a ha
      have := find_of_nodup_map (·.idx) st.offs a acc.offsIdx_nodup ha
      have h2 := find_of_nodup_map (·.idx) st.offs b acc.offsIdx_nodup hb
      simp only [hi] at this
      rw [this] at h2
      simp only [Option.some.injEq] at h2
      exact hne h2
    have hlt : b.idx < a.idx := by omega
    -- tied keys: same start step, same pitch
    have hk1 : rnLe (noteOfOff nb v0 a) (noteOfOff nb v0 b) = true := by
      rw [← timePitchLe_qnote g _ _ (acc.inB a ha) (acc.inB b hb)]; exact hle
    have hk2 : rnLe (noteOfOff nb v0 b) (noteOfOff nb v0 a) = true := by
      rw [← timePitchLe_qnote g _ _ (acc.inB b hb) (acc.inB a ha)]; exact hge
    have hpitch : a.pitch = b.pitch := by
      simp only [rnLe, noteOfOff, Bool.or_eq_true, Bool.and_eq_true, beq_iff_eq] at hk1 hk2
      rcases hk1 with h1 | ⟨_, h1⟩ <;> rcases hk2 with h2 | ⟨_, h2⟩
      · have := of_decide_eq_true h1; have := of_decide_eq_true h2; omega
      · have := of_decide_eq_true h1; omega
      · have := of_decide_eq_true h2; omega
      · have := of_decide_eq_true h1; have := of_decide_eq_true h2; omega
    -- FIFO: b (smaller NOTE_ON number, same pitch) was closed before a
    have hba : [b, a].Sublist st.offs := by
      rcases pair_sublist_or st.offs a b ha hb hne with h | h
      · have := (List.pairwise_iff_forall_sublist.mp ford.offsOrd) h hpitch
        omega
      · exact h
    have hyx : [(b.idx, qnote R c S (noteOfOff nb v0 b)), (a.idx, qnote R c S (noteOfOff nb v0 a))].Sublist Xi :=
      hba.map (fun (z : AEv) => (z.idx, qnote R c S (noteOfOff nb v0 z)))
    have := List.pair_sublist_mergeSort hle'_trans hle'_total hge hyx
    exact nodup_pair_sublist _ _ _ hres_nodup hxy this
  have hsort : Xi.mergeSort le' = Yi := by
    refine List.Perm.eq_of_pairwise ?_ hX hY (hres_perm.trans hXY)
    intro x y _ _ h1 h2
    have := h1.2 h2.1
    have := h2.2 h1.1
    omega
  rw [← hXsnd, ← hYsnd, ← hsort]
  exact (List.map_mergeSort (f := Prod.snd) (r := le') (s := timePitchLe) (fun a _ b _ => rfl)).symm

end full

/-- **discrete half at full strength**: the quantized sequence holds the notes `_to_sequence` adds, in the order
it adds them -/
theorem perfEvents_roundtrip_full {R : Rat → Rat} {c : RenderCfg} {q : Rat → Int} {S : Int}
    (nb ms v0 : Int) (evs : List PEvent) (hcanon : CanonicalPerfFull nb ms evs)
    (hnb0 : 0 ≤ nb)
    (g : Grid (stepTimeR R c.sigma c.sst) q S (shiftSum evs + 1))
    (filt : Option Int) (hfilt : filt = none ∨ filt = some c.instrument) :
    ∃ D, decodeEvents nb v0 evs = .ok D ∧ (∀ r ∈ D, r.inB (shiftSum evs + 1)) ∧
      ∀ qs : NoteSeq, qs.notes = D.map (qnote R c S) → perfEvents qs S nb ms filt = .ok evs := by
  obtain ⟨_, _, _, acc⟩ := accepted_of_canonicalB nb ms false evs hcanon
  refine ⟨_, decodeEvents_canonicalB nb ms v0 false evs hcanon, ?_, ?_⟩
  · intro r hr
    obtain ⟨a, ha, rfl⟩ := List.mem_map.mp hr
    exact acc.inB a ha
  intro qs hqn
  refine perfEvents_of_sorted nb ms v0 false evs hcanon hnb0 filt hfilt qs (fun n hn => by rw [hqn] at hn; exact hn) ?_
  rw [hqn]
  exact sortedNotes_full acc (annotate_ford _) g

end NSV.C06P
