import Mathlib.Tactic.Set
import NoteSeqVerif.Proofs.C18Float
import NoteSeqVerif.Proofs.C18Enc
import NoteSeqVerif.Proofs.C18Snap
/-! C18 helper lemmas, encoder side (second part): frame formulas of one note, rejections. -/
namespace NSV.C18

theorem noteFrames_overlap (R : Rat → Rat) (eps : Rat) (c : Cfg) (total : Rat) (n : Nat) (nt : PNote)
    (hm : c.mode = 0 ∨ c.mode = 1) (ho : c.overlap = true) :
    ∃ nf, noteFrames R eps c total n nt = .ok nf ∧
      nf.sf = (framesFromTimes R eps c.fps c.occ nt.start nt.end_).1 ∧
      nf.ef = (framesFromTimes R eps c.fps c.occ nt.start nt.end_).2 := by
  unfold noteFrames
  rcases hm with hm | hm <;> simp [hm, ho]

theorem NoteCovers_onset_iff (R : Rat → Rat) (eps : Rat) (c : Cfg) (total : Rat) (n f p : Nat) (nt : PNote) :
    NoteCovers R eps c total n (selOnset c) f p nt = true ↔
      InRange c nt ∧ p = colOf c nt ∧
        ∃ nf, noteFrames R eps c total n nt = .ok nf ∧ inSlice n nf.os nf.oe f = true := by
  unfold NoteCovers
  cases h : noteOp R eps c total n (selOnset c) nt with
  | none =>
    simp only [Bool.false_eq_true, false_iff]
    rintro ⟨hr, _, nf, hnf, _⟩
    have := (noteOp_some_iff R eps c total n (selOnset c) nt (selOnset c nf nt)).mpr ⟨hr, nf, hnf, rfl⟩
    rw [h] at this; cases this
  | some op =>
    obtain ⟨hr, nf, hnf, rfl⟩ := (noteOp_some_iff R eps c total n (selOnset c) nt op).mp h
    simp only [covers, selOnset, Bool.and_eq_true]
    constructor
    · rintro ⟨h1, h2⟩; exact ⟨hr, of_decide_eq_true h2, nf, hnf, h1⟩
    · rintro ⟨_, h2, nf', hnf', h1⟩
      rw [hnf] at hnf'; cases hnf'
      exact ⟨h1, decide_eq_true h2⟩

theorem NoteCovers_vel_eq (R R32 : Rat → Rat) (eps : Rat) (c : Cfg) (total : Rat) (n f p : Nat) (nt : PNote) :
    NoteCovers R eps c total n (selVel R R32 c) f p nt = NoteCovers R eps c total n (selActive c) f p nt := by
  unfold NoteCovers noteOp
  by_cases hr : nt.pitch < c.minPitch ∨ nt.pitch > c.maxPitch
  · simp only [if_pos hr]
  · simp only [if_neg hr]
    cases noteFrames R eps c total n nt <;> rfl

theorem noteVal_vel (R R32 : Rat → Rat) (eps : Rat) (c : Cfg) (total : Rat) (n f p : Nat) (nt : PNote)
    (h : NoteCovers R eps c total n (selVel R R32 c) f p nt = true) :
    noteVal R eps c total n (selVel R R32 c) nt = R32 (R ((nt.velocity : Rat) / (c.maxVelocity : Rat))) := by
  unfold NoteCovers at h
  unfold noteVal
  cases hop : noteOp R eps c total n (selVel R R32 c) nt with
  | none => rw [hop] at h; cases h
  | some op =>
    obtain ⟨_, nf, _, rfl⟩ := (noteOp_some_iff _ _ _ _ _ _ _ _).mp hop
    rfl

theorem mem_insertBy {α} (key : α → Rat) (a x : α) (l : List α) : x ∈ insertBy key a l ↔ x = a ∨ x ∈ l := by
  induction l with
  | nil => simp [insertBy]
  | cons b l ih =>
    simp only [insertBy]
    split
    · simp
    · simp only [List.mem_cons, ih]
      constructor
      · rintro (h | h | h)
        · exact Or.inr (Or.inl h)
        · exact Or.inl h
        · exact Or.inr (Or.inr h)
      · rintro (h | h | h)
        · exact Or.inr (Or.inl h)
        · exact Or.inl h
        · exact Or.inr (Or.inr h)

theorem mem_sortBy {α} (key : α → Rat) (x : α) (l : List α) : x ∈ sortBy key l ↔ x ∈ l := by
  induction l with
  | nil => simp [sortBy]
  | cons a l ih => simp only [sortBy, mem_insertBy, ih, List.mem_cons]

theorem mem_sortByStart (nt : PNote) (notes : List PNote) : nt ∈ sortByStart notes ↔ nt ∈ notes :=
  mem_sortBy _ nt notes

theorem floor_nonneg_of_nonneg (x : Rat) (hx : 0 ≤ x) : (0 : Int) ≤ x.floor := by
  rw [Rat.le_floor_iff]; exact_mod_cast hx

theorem length_setCell {α} (m : List (List α)) (r col : Nat) (v : α) : (setCell m r col v).length = m.length := by
  unfold setCell; simp

theorem paintNote_active_length {R R32 : Rat → Rat} {c : Cfg} {n : Nat} {st st' : Rolls} {nt : PNote}
    {col : Nat} {f : NF} (h : paintNote R R32 c n st nt col f = .ok st') :
    st'.active.length = st.active.length := by
  unfold paintNote at h
  simp only at h
  split at h
  · cases h
  · split at h
    · cases h
    · split at h
      · cases h
      · split at h
        · cases h; simp [length_setCell, length_paint]
        · cases h; simp [length_paint]

theorem encNotes_active_length {R R32 : Rat → Rat} {eps : Rat} {c : Cfg} {total : Rat} {n : Nat}
    (l : List PNote) (st st' : Rolls) (h : encNotes R R32 eps c total n st l = .ok st') :
    st'.active.length = st.active.length := by
  induction l generalizing st with
  | nil => simp only [encNotes] at h; cases h; rfl
  | cons nt rest ih =>
    simp only [encNotes] at h
    split at h
    · cases h
    · rename_i st1 h1
      rw [ih st1 h]
      rcases encNote_cases h1 with ⟨_, rfl⟩ | ⟨_, nf, _, hp⟩
      · rfl
      · exact paintNote_active_length hp

theorem numRows_id (fps total : Rat) (h : 0 ≤ total * fps) : numRows id fps total = (total * fps).floor + 1 := by
  unfold numRows
  simp only [id]
  rw [truncR_of_nonneg _ (by linarith)]
  exact Rat.floor_add_one


theorem noteFrames_ok_mode {R : Rat → Rat} {eps : Rat} {c : Cfg} {total : Rat} {n : Nat} {nt : PNote} {nf : NF}
    (h : noteFrames R eps c total n nt = .ok nf) : c.mode = 0 ∨ c.mode = 1 := by
  by_cases h0 : c.mode = 0
  · exact Or.inl h0
  · by_cases h1 : c.mode = 1
    · exact Or.inr h1
    · exfalso
      unfold noteFrames at h
      simp [h0, h1] at h

theorem noteFrames_bad_mode (R : Rat → Rat) (eps : Rat) (c : Cfg) (total : Rat) (n : Nat) (nt : PNote)
    (h0 : c.mode ≠ 0) (h1 : c.mode ≠ 1) : noteFrames R eps c total n nt = .error .valueError := by
  unfold noteFrames
  simp [h0, h1]

theorem encNotes_each_ok {R R32 : Rat → Rat} {eps : Rat} {c : Cfg} {total : Rat} {n : Nat}
    (l : List PNote) (st st' : Rolls) (h : encNotes R R32 eps c total n st l = .ok st') :
    ∀ nt ∈ l, ∃ s s', encNote R R32 eps c total n s nt = .ok s' := by
  induction l generalizing st with
  | nil => intro nt hnt; cases hnt
  | cons a rest ih =>
    simp only [encNotes] at h
    split at h
    · cases h
    · rename_i st1 h1
      intro nt hnt
      rcases List.mem_cons.mp hnt with rfl | hr
      · exact ⟨st, st1, h1⟩
      · exact ih st1 h nt hr

theorem encNotes_bad_mode (R R32 : Rat → Rat) (eps : Rat) (c : Cfg) (total : Rat) (n : Nat)
    (h0 : c.mode ≠ 0) (h1 : c.mode ≠ 1) (l : List PNote) (st : Rolls) (hex : ∃ nt ∈ l, InRange c nt) :
    encNotes R R32 eps c total n st l = .error .valueError := by
  induction l generalizing st with
  | nil => obtain ⟨nt, hnt, _⟩ := hex; cases hnt
  | cons a rest ih =>
    simp only [encNotes]
    by_cases ha : a.pitch < c.minPitch ∨ a.pitch > c.maxPitch
    · have : encNote R R32 eps c total n st a = .ok st := by unfold encNote; rw [if_pos ha]
      rw [this]
      apply ih
      obtain ⟨nt, hnt, hr⟩ := hex
      rcases List.mem_cons.mp hnt with rfl | hrest
      · unfold InRange at hr; omega
      · exact ⟨nt, hrest, hr⟩
    · have : encNote R R32 eps c total n st a = .error .valueError := by
        unfold encNote; rw [if_neg ha, noteFrames_bad_mode R eps c total n a h0 h1]
      rw [this]



theorem rowLen_paint {α} (m : List (List α)) (a b : Int) (col : Nat) (v : α) (w : Nat)
    (h : ∀ row ∈ m, row.length = w) : ∀ row ∈ paint m a b col v, row.length = w := by
  intro row hrow
  unfold paint at hrow
  simp only [List.mem_mapIdx] at hrow
  obtain ⟨i, hi, rfl⟩ := hrow
  split
  · rw [List.length_set]; exact h _ (List.getElem_mem hi)
  · exact h _ (List.getElem_mem hi)

theorem rowLen_foldl_paintOp (ops : List Op) (m : List (List Rat)) (w : Nat)
    (h : ∀ row ∈ m, row.length = w) : ∀ row ∈ ops.foldl paintOp m, row.length = w := by
  induction ops generalizing m with
  | nil => exact h
  | cons op rest ih => exact ih _ (rowLen_paint m _ _ _ _ w h)

/-- shape of the active roll (no blank frames) -/
theorem encode_active_rect {R R32 : Rat → Rat} {eps : Rat} {c : Cfg} {total : Rat} {notes : List PNote}
    {ccs : List PCC} {pr : Pianoroll} (hb : c.blank = false)
    (h : encode R R32 eps c total notes ccs = .ok pr) :
    pr.active.length = (numRows R c.fps total).toNat ∧
    ∀ row ∈ pr.active, row.length = (c.maxPitch - c.minPitch + 1).toNat := by
  obtain ⟨_, _, st, hst, ha, _⟩ := encode_ok h
  rw [ha, encNotes_proj R R32 eps c total _ (·.active) (selActive c)
    (step_active R R32 eps c total _ hb) _ _ st hst]
  constructor
  · rw [length_foldl_paintOp]; simp [initRolls]
  · apply rowLen_foldl_paintOp
    intro row hrow
    simp only [initRolls, List.mem_replicate] at hrow
    rw [hrow.2]; simp

end NSV.C18
