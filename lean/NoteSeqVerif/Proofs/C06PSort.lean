import NoteSeqVerif.Proofs.C06PNote
import NoteSeqVerif.Proofs.C06PDecode
/-! C06 (performance half) — the sorting half: for an accepted annotated stream, the extractor's two sorts
(`sorted_notes` by `(start_time, pitch)`, `note_events` by `(step, idx, is_offset)`) applied to the rendered and
re-quantized notes reproduce the stream's own order. -/
namespace NSV.C06P
open NSV NSV.C06 NSV.C01 NSV.C07

/-! ### small list facts -/

theorem find_of_nodup_map {α β} [DecidableEq β] (f : α → β) : ∀ (l : List α) (a : α), (l.map f).Nodup → a ∈ l →
    l.find? (fun x => f x == f a) = some a := by
  intro l
  induction l with
  | nil => intro a _ h; simp at h
  | cons x xs ih =>
    intro a hnd ha
    rw [List.map_cons, List.nodup_cons] at hnd
    by_cases hx : f x = f a
    · have : a = x := by
        rcases List.mem_cons.mp ha with h | h
        · exact h
        · exact absurd (hx ▸ List.mem_map.mpr ⟨a, h, rfl⟩) hnd.1
      subst this
      simp
    · have hne : a ≠ x := fun h => hx (h ▸ rfl)
      have hmem : a ∈ xs := by
        rcases List.mem_cons.mp ha with h | h
        · exact absurd h hne
        · exact h
      rw [List.find?_cons_of_neg (by simpa using hx)]
      exact ih a hnd.2 hmem

theorem getElem?_of_map_eq_range {α} (f : α → Nat) (l : List α) (n : Nat) (h : l.map f = List.range n) (a : α)
    (ha : a ∈ l) : l[f a]? = some a := by
  obtain ⟨k, hk⟩ := List.mem_iff_getElem?.mp ha
  have h1 : (l.map f)[k]? = some (f a) := by rw [List.getElem?_map, hk]; rfl
  rw [h] at h1
  have hkn : k < n := by
    rcases Nat.lt_or_ge k n with h' | h'
    · exact h'
    · rw [List.getElem?_eq_none (by simpa using h')] at h1; simp at h1
  rw [List.getElem?_range hkn] at h1
  simp only [Option.some.injEq] at h1
  rw [← h1]; exact hk

theorem zipIdx_map_range' {α} (f : Nat → α) : ∀ (n k : Nat),
    ((List.range' k n).map f).zipIdx k = (List.range' k n).map (fun i => (f i, i)) := by
  intro n
  induction n with
  | zero => intro k; simp
  | succ n ih => intro k; simp [List.range'_succ, List.zipIdx_cons, ih]

theorem zipIdx_map_range {α} (f : Nat → α) (n : Nat) :
    ((List.range n).map f).zipIdx = (List.range n).map (fun i => (f i, i)) := by
  rw [List.range_eq_range']; exact zipIdx_map_range' f n 0

/-! ### `timePitchLe` is a total preorder -/

theorem timePitchLe_trans (a b c : Note) (h1 : timePitchLe a b = true) (h2 : timePitchLe b c = true) :
    timePitchLe a c = true := by
  simp only [timePitchLe, Bool.or_eq_true, decide_eq_true_eq, Bool.and_eq_true, beq_iff_eq] at *
  rcases h1 with h1 | ⟨h1, p1⟩ <;> rcases h2 with h2 | ⟨h2, p2⟩
  · left; exact lt_trans h1 h2
  · left; rw [← h2]; exact h1
  · left; rw [h1]; exact h2
  · right; exact ⟨h1.trans h2, by omega⟩

theorem timePitchLe_total (a b : Note) : (timePitchLe a b || timePitchLe b a) = true := by
  simp only [timePitchLe, Bool.or_eq_true, decide_eq_true_eq, Bool.and_eq_true, beq_iff_eq]
  rcases lt_trichotomy a.start b.start with h | h | h
  · left; left; exact h
  · rcases Int.le_total a.pitch b.pitch with p | p
    · left; right; exact ⟨h, p⟩
    · right; right; exact ⟨h.symm, p⟩
  · right; left; exact h

/-! ### an accepted annotated stream -/

/-- strict `(start step, pitch)` order on rendered notes -/
def rnLt (a b : RNote) : Prop := a.s < b.s ∨ (a.s = b.s ∧ a.pitch < b.pitch)

/-- the hypotheses `streamOk nb strict` gives about the final annotator state, plus step bounds -/
structure Accepted (nb B : Int) (strict : Bool) (st : AnState) : Prop where
  inv : AInv st
  ok : st.ok = true
  closed : st.open_ = []
  sorted : st.out.Pairwise (fun a b => aevLt a b = true)
  onsSorted : st.ons.Pairwise (fun a b => (if strict then onLt a b else onLe a b) = true)
  pos : PosLen st.out
  bins : nb ≠ 0 → ∀ a ∈ st.out, a.isOff = false → 1 ≤ a.bin
  range : ∀ a ∈ st.out, 0 ≤ a.step ∧ a.step < B

theorem mem_offs {st : AnState} {a : AEv} : a ∈ st.offs ↔ a ∈ st.out ∧ a.isOff = true := by
  simp [AnState.offs]

theorem mem_ons {st : AnState} {a : AEv} : a ∈ st.ons ↔ a ∈ st.out ∧ a.isOff = false := by
  simp [AnState.ons]

section accepted
variable {nb B v0 : Int} {strict : Bool} {st : AnState} (acc : Accepted nb B strict st)
include acc

theorem Accepted.offsIdx_perm : (st.offs.map (·.idx)).Perm (List.range st.nOn) := by
  have := acc.inv.perm
  rw [acc.closed] at this
  simpa using this

theorem Accepted.offsIdx_nodup : (st.offs.map (·.idx)).Nodup :=
  (acc.offsIdx_perm.nodup_iff).mpr List.nodup_range

/-- the note whose NOTE_ON is the `i`-th NOTE_ON -/
def noteAt (nb v0 : Int) (st : AnState) (i : Nat) : RNote :=
  match st.offs.find? (fun a => a.idx == i) with
  | some a => noteOfOff nb v0 a
  | none => ⟨0, 0, 0, 0⟩

theorem Accepted.noteAt_off (a : AEv) (ha : a ∈ st.offs) : noteAt nb v0 st a.idx = noteOfOff nb v0 a := by
  unfold noteAt
  rw [find_of_nodup_map (·.idx) st.offs a acc.offsIdx_nodup ha]

theorem Accepted.off_of_idx (i : Nat) (hi : i < st.nOn) : ∃ a ∈ st.offs, a.idx = i := by
  have : i ∈ st.offs.map (·.idx) := (acc.offsIdx_perm.mem_iff).mpr (List.mem_range.mpr hi)
  obtain ⟨a, ha, rfl⟩ := List.mem_map.mp this
  exact ⟨a, ha, rfl⟩

theorem Accepted.on_of_off (a : AEv) (ha : a ∈ st.offs) : st.ons[a.idx]? = some a.onOf :=
  acc.inv.offOn a (mem_offs.mp ha).1 (mem_offs.mp ha).2

theorem Accepted.on_self (a : AEv) (ha : a ∈ st.ons) : st.ons[a.idx]? = some a :=
  getElem?_of_map_eq_range (·.idx) st.ons st.nOn acc.inv.onsIdx a ha

theorem Accepted.idx_lt (a : AEv) (ha : a ∈ st.out) : a.idx < st.nOn := by
  cases h : a.isOff with
  | true =>
    have := acc.on_of_off a (mem_offs.mpr ⟨ha, h⟩)
    rcases Nat.lt_or_ge a.idx st.ons.length with h' | h'
    · rw [acc.inv.onsLen] at h'; exact h'
    · rw [List.getElem?_eq_none h'] at this; simp at this
  | false =>
    have := acc.on_self a (mem_ons.mpr ⟨ha, h⟩)
    rcases Nat.lt_or_ge a.idx st.ons.length with h' | h'
    · rw [acc.inv.onsLen] at h'; exact h'
    · rw [List.getElem?_eq_none h'] at this; simp at this

/-- the note of a NOTE_ON event: same pitch, starts at the event's step, velocity of the bin in force -/
theorem Accepted.noteAt_on (a : AEv) (ha : a ∈ st.ons) :
    (noteAt nb v0 st a.idx).pitch = a.pitch ∧ (noteAt nb v0 st a.idx).s = a.step ∧
    (noteAt nb v0 st a.idx).vel = velOf nb v0 a.bin := by
  obtain ⟨b, hb, hbi⟩ := acc.off_of_idx a.idx (acc.idx_lt a (mem_ons.mp ha).1)
  have h1 := acc.on_of_off b hb
  rw [hbi, acc.on_self a ha] at h1
  simp only [Option.some.injEq] at h1
  rw [← hbi, acc.noteAt_off (v0 := v0) b hb]
  rw [h1]
  simp [noteOfOff, AEv.onOf]

/-- every rendered note lies inside the grid -/
theorem Accepted.inB (a : AEv) (ha : a ∈ st.offs) : (noteOfOff nb v0 a).inB B := by
  have hm := mem_offs.mp ha
  have hon := acc.on_of_off a ha
  have hmem : a.onOf ∈ st.ons := List.mem_of_getElem? hon
  have h0 := (acc.range a.onOf (mem_ons.mp hmem).1).1
  exact ⟨h0, acc.pos a hm.1 hm.2, (acc.range a hm.1).2⟩

theorem Accepted.noteAt_inB (i : Nat) (hi : i < st.nOn) : (noteAt nb v0 st i).inB B := by
  obtain ⟨a, ha, rfl⟩ := acc.off_of_idx i hi
  rw [acc.noteAt_off a ha]; exact acc.inB a ha

/-- the notes of two NOTE_OFF events, compared through their NOTE_ONs' position in the NOTE_ON order -/
theorem Accepted.ons_rel (a b : AEv) (ha : a ∈ st.offs) (hb : b ∈ st.offs) (hij : a.idx < b.idx) :
    (if strict then onLt a.onOf b.onOf else onLe a.onOf b.onOf) = true := by
  have h1 := acc.on_of_off a ha
  have h2 := acc.on_of_off b hb
  have hpw := List.pairwise_iff_getElem.mp acc.onsSorted
  have hi' : a.idx < st.ons.length := by
    rcases Nat.lt_or_ge a.idx st.ons.length with h' | h'
    · exact h'
    · rw [List.getElem?_eq_none h'] at h1; simp at h1
  have hj' : b.idx < st.ons.length := by
    rcases Nat.lt_or_ge b.idx st.ons.length with h' | h'
    · exact h'
    · rw [List.getElem?_eq_none h'] at h2; simp at h2
  have := hpw a.idx b.idx hi' hj' hij
  rw [List.getElem?_eq_getElem hi', Option.some.injEq] at h1
  rw [List.getElem?_eq_getElem hj', Option.some.injEq] at h2
  rw [h1, h2] at this
  exact this

/-- the rendered notes in NOTE_ON order are `(start step, pitch)`-sorted -/
theorem Accepted.noteAt_sorted_le :
    ((List.range st.nOn).map (noteAt nb v0 st)).Pairwise (fun a b => rnLe a b = true) := by
  rw [List.pairwise_map]
  refine List.Pairwise.imp_of_mem ?_ (List.pairwise_lt_range (n := st.nOn))
  intro i j hi hj hij
  obtain ⟨a, ha, rfl⟩ := acc.off_of_idx i (List.mem_range.mp hi)
  obtain ⟨b, hb, rfl⟩ := acc.off_of_idx j (List.mem_range.mp hj)
  rw [acc.noteAt_off a ha, acc.noteAt_off b hb]
  have hlt := acc.ons_rel a b ha hb hij
  have hle : onLe a.onOf b.onOf = true := by
    cases strict with
    | false => simpa using hlt
    | true =>
      simp only [↓reduceIte, onLt, Bool.or_eq_true, Bool.and_eq_true, beq_iff_eq] at hlt
      simp only [onLe, Bool.or_eq_true, Bool.and_eq_true, beq_iff_eq]
      rcases hlt with h | ⟨h, p⟩
      · exact Or.inl h
      · exact Or.inr ⟨h, decide_eq_true (Int.le_of_lt (of_decide_eq_true p))⟩
  simp only [onLe, AEv.onOf, Bool.or_eq_true, Bool.and_eq_true, beq_iff_eq] at hle
  simp only [rnLe, noteOfOff, Bool.or_eq_true, Bool.and_eq_true, beq_iff_eq]
  exact hle

/-- the notes `_to_sequence` adds are a permutation of the notes in NOTE_ON order -/
theorem Accepted.notes_perm :
    (st.offs.map (noteOfOff nb v0)).Perm ((List.range st.nOn).map (noteAt nb v0 st)) := by
  have h1 : st.offs.map (noteOfOff nb v0) = (st.offs.map (·.idx)).map (noteAt nb v0 st) := by
    rw [List.map_map]
    apply List.map_congr_left
    intro a ha
    exact (acc.noteAt_off a ha).symm
  rw [h1]
  exact acc.offsIdx_perm.map _

end accepted

/-- with `strict`: the rendered notes in NOTE_ON order are strictly `(start step, pitch)`-sorted -/
theorem Accepted.noteAt_sorted {nb B v0 : Int} {st : AnState} (acc : Accepted nb B true st) :
    ((List.range st.nOn).map (noteAt nb v0 st)).Pairwise rnLt := by
  rw [List.pairwise_map]
  refine List.Pairwise.imp_of_mem ?_ (List.pairwise_lt_range (n := st.nOn))
  intro i j hi hj hij
  obtain ⟨a, ha, rfl⟩ := acc.off_of_idx i (List.mem_range.mp hi)
  obtain ⟨b, hb, rfl⟩ := acc.off_of_idx j (List.mem_range.mp hj)
  rw [acc.noteAt_off a ha, acc.noteAt_off b hb]
  have hlt := acc.ons_rel a b ha hb hij
  simp only [↓reduceIte, onLt, AEv.onOf, Bool.or_eq_true, Bool.and_eq_true, beq_iff_eq] at hlt
  unfold rnLt noteOfOff
  rcases hlt with h | ⟨h, p⟩
  · exact Or.inl (of_decide_eq_true h)
  · exact Or.inr ⟨h, of_decide_eq_true p⟩

/-! ### the extractor's first sort -/

theorem rnLt_rnLe {a b : RNote} (h : rnLt a b) : rnLe a b = true := by
  simp only [rnLe, Bool.or_eq_true, decide_eq_true_eq, Bool.and_eq_true, beq_iff_eq]
  rcases h with h | ⟨h, p⟩
  · left; exact h
  · right; exact ⟨h, by omega⟩

theorem rnLt_asymm {a b : RNote} (h1 : rnLe a b = true) (h2 : rnLe b a = true) : ¬ rnLt a b := by
  simp only [rnLe, Bool.or_eq_true, decide_eq_true_eq, Bool.and_eq_true, beq_iff_eq] at h1 h2
  unfold rnLt
  omega

/-- in a strictly sorted list two members that are mutually `≤` are equal -/
theorem eq_of_rnLe_of_sorted : ∀ (l : List RNote), l.Pairwise rnLt → ∀ a ∈ l, ∀ b ∈ l,
    rnLe a b = true → rnLe b a = true → a = b := by
  intro l
  induction l with
  | nil => intro _ a ha; simp at ha
  | cons x xs ih =>
    intro hpw a ha b hb h1 h2
    rw [List.pairwise_cons] at hpw
    rcases List.mem_cons.mp ha with rfl | ha' <;> rcases List.mem_cons.mp hb with rfl | hb'
    · rfl
    · exact absurd (hpw.1 b hb') (rnLt_asymm h1 h2)
    · exact absurd (hpw.1 a ha') (rnLt_asymm h2 h1)
    · exact ih hpw.2 a ha' b hb' h1 h2

/-- **first sort**: `sorted(notes, key=(start_time, pitch))` of the rendered, re-quantized notes — in whatever order
they are stored — is the list of notes in NOTE_ON order -/
theorem sortedNotes_accepted {nb B v0 : Int} {st : AnState} (acc : Accepted nb B true st)
    {R : Rat → Rat} {c : RenderCfg} {q : Rat → Int} {S : Int}
    (g : Grid (stepTimeR R c.sigma c.sst) q S B) (X : List Note)
    (hX : X.Perm ((st.offs.map (noteOfOff nb v0)).map (qnote R c S))) :
    X.mergeSort timePitchLe = ((List.range st.nOn).map (noteAt nb v0 st)).map (qnote R c S) := by
  have hLin : ∀ r ∈ (List.range st.nOn).map (noteAt nb v0 st), r.inB B := by
    intro r hr
    obtain ⟨i, hi, rfl⟩ := List.mem_map.mp hr
    exact acc.noteAt_inB i (List.mem_range.mp hi)
  have hperm := hX.trans ((acc.notes_perm (v0 := v0)).map (qnote R c S))
  have hsortedL : (((List.range st.nOn).map (noteAt nb v0 st)).map (qnote R c S)).Pairwise
      (fun a b => timePitchLe a b = true) := by
    rw [List.pairwise_map]
    refine (acc.noteAt_sorted (v0 := v0)).imp_of_mem ?_
    intro a b ha hb hab
    rw [timePitchLe_qnote g a b (hLin a ha) (hLin b hb)]
    exact rnLt_rnLe hab
  refine List.Perm.eq_of_pairwise ?_ (List.pairwise_mergeSort timePitchLe_trans timePitchLe_total _) hsortedL
    ((List.mergeSort_perm _ _).trans hperm)
  intro a b ha hb h1 h2
  have ha' : a ∈ ((List.range st.nOn).map (noteAt nb v0 st)).map (qnote R c S) :=
    (hperm.mem_iff).mp ((List.mergeSort_perm _ _).mem_iff.mp ha)
  obtain ⟨x, hx, rfl⟩ := List.mem_map.mp ha'
  obtain ⟨y, hy, rfl⟩ := List.mem_map.mp hb
  rw [timePitchLe_qnote g x y (hLin x hx) (hLin y hy)] at h1
  rw [timePitchLe_qnote g y x (hLin y hy) (hLin x hx)] at h2
  rw [eq_of_rnLe_of_sorted _ (acc.noteAt_sorted (v0 := v0)) x hx y hy h1 h2]

end NSV.C06P
