import Mathlib.Tactic.Set
import NoteSeqVerif.Proofs.C18Float
import NoteSeqVerif.Proofs.C18Enc
namespace NSV.C18

/-- the snap of `time_to_frames` in exact arithmetic -/
def snap (eps x : Rat) : Rat :=
  if rabs (x - (roundHalfEven x : Rat)) ≤ eps * rmax 1 (rabs x) then (roundHalfEven x : Rat) else x

theorem timeToFrames_id (eps fps t : Rat) : timeToFrames id eps fps t = snap eps (t * fps) := rfl

theorem roundHalfEven_bounds (x : Rat) : (x.floor ≤ roundHalfEven x) ∧ (roundHalfEven x ≤ x.floor + 1) := by
  unfold roundHalfEven
  simp only
  repeat' split
  all_goals omega

theorem roundHalfEven_near (x : Rat) : |x - (roundHalfEven x : Rat)| ≤ 1 / 2 := by
  have h1 := Rat.floor_le x
  have h2 := Rat.lt_floor_add_one x
  unfold roundHalfEven
  simp only
  push_cast at h2
  rw [abs_le]
  split
  · constructor <;> linarith
  · split
    · push_cast; constructor <;> linarith
    · have : x - (x.floor : Rat) = 1 / 2 := by linarith
      split
      · constructor <;> linarith
      · push_cast; constructor <;> linarith

/-- the snap moves a position by at most `eps · max(1, |x|)` and leaves integers alone -/
theorem snap_close (eps x : Rat) (he : 0 ≤ eps) : |snap eps x - x| ≤ eps * rmax 1 (rabs x) := by
  unfold snap
  split
  · rename_i h
    rw [rabs_eq_abs] at h
    rw [abs_sub_comm]; exact h
  · simp only [sub_self, abs_zero]
    have := le_rmax_left 1 (rabs x)
    positivity

theorem snap_int (eps : Rat) (k : Int) : snap eps (k : Rat) = (k : Rat) := by
  have : roundHalfEven (k : Rat) = k := roundHalfEven_of_near _ k (by norm_num) (by norm_num)
  unfold snap
  rw [this]; simp

theorem snap_nonneg (eps x : Rat) (hx : 0 ≤ x) : 0 ≤ snap eps x := by
  unfold snap
  split
  · have h1 : (0 : Int) ≤ x.floor := by rw [Rat.le_floor_iff]; exact_mod_cast hx
    have h2 := (roundHalfEven_bounds x).1
    have : (0 : Int) ≤ roundHalfEven x := by omega
    exact_mod_cast this
  · exact hx

theorem truncR_of_nonneg (x : Rat) (hx : 0 ≤ x) : truncR x = x.floor := by
  unfold truncR; rw [if_pos hx]

end NSV.C18
