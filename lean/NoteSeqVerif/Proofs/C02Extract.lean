import NoteSeqVerif.Proofs.C02
/-! C02 — `_extract_subsequences` equals the list of closed-form pieces (`extract_eq_spec`). -/
namespace NSV.C02

/-! ## sorting -/

theorem sortByRat_pairwise {α : Type} (key : α → Rat) (l : List α) :
    (sortByRat key l).Pairwise (fun a b => key a ≤ key b) := by
  have h := List.pairwise_mergeSort (le := fun a b => decide (key a ≤ key b))
    (by intro a b c h1 h2; simp at *; exact Rat.le_trans h1 h2)
    (by intro a b; simp; exact Rat.le_total) l
  unfold sortByRat
  refine h.imp ?_
  intro a b hab; simpa using hab

theorem sortByRat_perm {α : Type} (key : α → Rat) (l : List α) : (sortByRat key l).Perm l :=
  List.mergeSort_perm l _

theorem sortByRat_of_pairwise {α : Type} (key : α → Rat) (l : List α)
    (h : l.Pairwise (fun a b => key a ≤ key b)) : sortByRat key l = l := by
  unfold sortByRat
  apply List.mergeSort_of_pairwise
  refine h.imp ?_
  intro a b hab; simpa using hab

/-! ## split-time vectors -/

theorem pairs_getElem? (st : List Rat) (i : Nat) (a b : Rat) :
    (pairs st)[i]? = some (a, b) ↔ st[i]? = some a ∧ st[i + 1]? = some b := by
  induction st generalizing i with
  | nil => simp [pairs]
  | cons x l ih =>
    cases l with
    | nil => simp [pairs]
    | cons y r =>
      cases i with
      | zero => simp [pairs]
      | succ j =>
        have := ih j
        simp only [pairs, List.getElem?_cons_succ] at this ⊢
        exact this

theorem pairs_map_fst (st : List Rat) : (pairs st).map (·.1) = st.dropLast := by
  induction st with
  | nil => simp [pairs]
  | cons x l ih =>
    cases l with
    | nil => simp [pairs]
    | cons y r => simp [pairs, List.dropLast] at ih ⊢; exact ih

theorem pairs_sorted_iff (st : List Rat) :
    (pairs st).any (fun p => decide (p.1 > p.2)) = false ↔ SortedLE st := by
  induction st with
  | nil => simp [pairs]
  | cons x l ih =>
    cases l with
    | nil => simp [pairs]
    | cons y r =>
      simp only [pairs, List.any_cons, Bool.or_eq_false_iff, ih]
      constructor
      · rintro ⟨h1, h2⟩
        have hxy : x ≤ y := by simp at h1; exact Rat.not_lt.mp h1
        refine List.pairwise_cons.mpr ⟨?_, h2⟩
        intro z hz
        rcases List.mem_cons.mp hz with h | h
        · subst h; exact hxy
        · exact Rat.le_trans hxy ((List.pairwise_cons.mp h2).1 z h)
      · intro h
        have h' := List.pairwise_cons.mp h
        refine ⟨?_, h'.2⟩
        have := h'.1 y (by simp)
        simp; exact Rat.not_lt.mpr this

theorem pairs_pastEnd_iff (st : List Rat) (total : Rat) :
    (pairs st).any (fun p => decide (p.1 ≥ total)) = true ↔ ∃ t ∈ st.dropLast, total ≤ t := by
  rw [← pairs_map_fst]
  simp [List.any_eq_true]

/-! ## the closed-form piece -/

/-- notes of the piece `[a, b)`: the stably start-sorted notes starting in `[a, b)`, clipped -/
def specNotes (R : Rat → Rat) (s : NoteSeq) (a b : Rat) : List Note :=
  ((sortByRat (·.start) s.notes).filter (fun n => decide (a ≤ n.start) && decide (n.start < b))).map (clipR R a b)

/-- state events of the piece `[a, b)`: the last event at or before `a` (stable time order) moved to
time 0, then the events strictly inside `(a, b)` shifted by `-a` -/
def specState {α : Type} (R : Rat → Rat) (time : α → Rat) (setTime : α → Rat → α) (evs : List α)
    (a b : Rat) : List α :=
  (match ((sortByRat time evs).filter (fun e => decide (time e ≤ a))).getLast? with
    | none => []
    | some e => [setTime e 0]) ++
  ((sortByRat time evs).filter (fun e => decide (a < time e) && decide (time e < b))).map
    (fun e => setTime e (R (time e - a)))

/-- beat annotations of the piece `[a, b)` -/
def specBeats (R : Rat → Rat) (s : NoteSeq) (a b : Rat) : List TextAnn :=
  ((sortByRat (·.time) (beats s)).filter (fun e => decide (a ≤ e.time) && decide (e.time < b))).map
    (fun e => TextAnn.setTime e (R (e.time - a)))

/-- pedal events of the piece `[a, b)` -/
def specPedals (R : Rat → Rat) (preserve : List Int) (s : NoteSeq) (a b : Rat) : List CC :=
  pieceSpec (pedalL R) [] (sortByRat (·.time) (pedals preserve s)) (a, b)

def specPiece (R : Rat → Rat) (preserve : List Int) (s : NoteSeq) (ab : Rat × Rat) : NoteSeq :=
  { emptied s with
    notes := specNotes R s ab.1 ab.2
    totalTime := pieceTotal (specNotes R s ab.1 ab.2)
    timeSigs := specState R (·.time) TimeSig.setTime s.timeSigs ab.1 ab.2
    keySigs := specState R (·.time) KeySig.setTime s.keySigs ab.1 ab.2
    tempos := specState R (·.time) Tempo.setTime s.tempos ab.1 ab.2
    texts := specState R (·.time) TextAnn.setTime (chords s) ab.1 ab.2 ++ specBeats R s ab.1 ab.2
    ccs := specPedals R preserve s ab.1 ab.2
    hasSub := true
    subStart := ab.1
    subEnd := R (R (s.totalTime - ab.1) - pieceTotal (specNotes R s ab.1 ab.2)) }

theorem foldl_some_getLast? {α : Type} (l : List α) (m : Option α) :
    l.foldl (fun _ e => some e) m = l.getLast?.or m := by
  induction l generalizing m with
  | nil => simp
  | cons e es ih =>
    simp only [List.foldl_cons, ih, List.getLast?_cons]
    cases es.getLast? <;> simp

theorem pieceSpec_notes (R : Rat → Rat) (s : NoteSeq) (ab : Rat × Rat) :
    pieceSpec (notesL R) () (sortByRat (·.start) s.notes) ab = specNotes R s ab.1 ab.2 := by
  simp [pieceSpec, notesL, inside, within, specNotes]
  rfl

theorem pieceSpec_beats (R : Rat → Rat) (s : NoteSeq) (ab : Rat × Rat) :
    pieceSpec (beatL R) () (sortByRat (·.time) (beats s)) ab = specBeats R s ab.1 ab.2 := by
  simp [pieceSpec, beatL, inside, within, specBeats]
  rfl

theorem pieceSpec_state {α : Type} (R : Rat → Rat) (time : α → Rat) (setTime : α → Rat → α)
    (evs : List α) (ab : Rat × Rat) :
    pieceSpec (stateL R time setTime) none (sortByRat time evs) ab = specState R time setTime evs ab.1 ab.2 := by
  simp only [pieceSpec, stateL, inside, within, specState, memAt, before, foldl_some_getLast?]
  simp only [↓reduceIte, Option.or_none]
  rfl

theorem zipWith_map_map {α β γ δ : Type} (f : β → γ → δ) (g : α → β) (h : α → γ) (l : List α) :
    List.zipWith f (l.map g) (l.map h) = l.map (fun x => f (g x) (h x)) := by
  rw [List.zipWith_map, List.zipWith_self]

theorem zipWith_map_self {α β δ : Type} (f : β → α → δ) (g : α → β) (l : List α) :
    List.zipWith f (l.map g) l = l.map (fun x => f (g x) x) := by
  have := zipWith_map_map f g id l
  simpa using this

/-- all loops at once: for sorted split times the assembled pieces are the closed-form pieces -/
theorem assemble_eq_spec (R : Rat → Rat) (preserve : List Int) (s : NoteSeq) (t0 : Rat) (r : List Rat)
    (hst : SortedLE (t0 :: r)) :
    assemble R preserve s (t0 :: r) t0 = (pairs (t0 :: r)).map (specPiece R preserve s) := by
  have e1 := run_eq_spec (notesL R) () t0 r (sortByRat (·.start) s.notes) hst (sortByRat_pairwise _ _)
  have e2 := run_eq_spec (stateL R (·.time) TimeSig.setTime) none t0 r (sortByRat (·.time) s.timeSigs) hst (sortByRat_pairwise _ _)
  have e3 := run_eq_spec (stateL R (·.time) KeySig.setTime) none t0 r (sortByRat (·.time) s.keySigs) hst (sortByRat_pairwise _ _)
  have e4 := run_eq_spec (stateL R (·.time) Tempo.setTime) none t0 r (sortByRat (·.time) s.tempos) hst (sortByRat_pairwise _ _)
  have e5 := run_eq_spec (stateL R (·.time) TextAnn.setTime) none t0 r (sortByRat (·.time) (chords s)) hst (sortByRat_pairwise _ _)
  have e6 := run_eq_spec (beatL R) () t0 r (sortByRat (·.time) (beats s)) hst (sortByRat_pairwise _ _)
  have e7 := run_eq_spec (pedalL R) [] t0 r (sortByRat (·.time) (pedals preserve s)) hst (sortByRat_pairwise _ _)
  unfold assemble notePieces timeSigPieces keySigPieces tempoPieces chordPieces beatPieces pedalPieces
  rw [e1, e2, e3, e4, e5, e6, e7]
  simp only [zipWith_map_map, zipWith_map_self]
  apply List.map_congr_left
  intro ab _
  simp only [pieceSpec_notes, pieceSpec_beats, pieceSpec_state, specPiece, specPedals, emptied]

/-- the inputs the extractor accepts -/
structure Valid (s : NoteSeq) (st : List Rat) : Prop where
  unquantized : s.isQuantized = false
  two : 2 ≤ st.length
  sorted : SortedLE st
  inside : ∀ t ∈ st.dropLast, t < s.totalTime

theorem extract_eq_spec (R : Rat → Rat) (preserve : List Int) (s : NoteSeq) (st : List Rat)
    (hv : Valid s st) :
    extractSubsequencesR R preserve s st = .ok ((pairs st).map (specPiece R preserve s)) := by
  obtain ⟨hq, h2, hs, hin⟩ := hv
  match st, h2 with
  | t0 :: t1 :: r, _ =>
    have h1 : (pairs (t0 :: t1 :: r)).any (fun p => decide (p.1 > p.2)) = false :=
      (pairs_sorted_iff _).mpr hs
    have h3 : (pairs (t0 :: t1 :: r)).any (fun p => decide (p.1 ≥ s.totalTime)) = false := by
      cases h : (pairs (t0 :: t1 :: r)).any (fun p => decide (p.1 ≥ s.totalTime)) with
      | false => rfl
      | true =>
        obtain ⟨t, ht, hle⟩ := (pairs_pastEnd_iff _ _).mp h
        exact absurd (hin t ht) (Rat.not_lt.mpr hle)
    unfold extractSubsequencesR
    simp only [hq, Bool.false_eq_true, ↓reduceIte, h1, h3]
    rw [assemble_eq_spec R preserve s t0 (t1 :: r) hs]

end NSV.C02
