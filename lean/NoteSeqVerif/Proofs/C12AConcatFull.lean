import NoteSeqVerif.Proofs.C12AConcat
import NoteSeqVerif.Props.C12_extract
/-! C12 — `concatenate_sequences` / `repeat_sequence_to_duration` under the property's own quantifier
(no two state events of one kind share a time *inside each input*), helper lemmas.

1. What a stable sort by key is: the key-sorted list whose *classes* (the sublist of the elements of
   one key, in stored order) are those of the input (`filter_class_sort`, `sorted_eq_of_classes`).
   So two lists have the same stable sort iff they have the same classes (`SameClasses`).
2. Lists built block by block (`l ++ b`, `l' ++ b'` with `b'` a permutation of `b` and no two elements
   of `b` in one class) have the same classes (`SameClasses.append`): elements of one class come from
   different blocks, and the blocks are in the same order in both lists.
3. The concatenation loop appends one shifted piece per round (`mergeFrom`), so the merged containers
   of two storage orders have the same classes as soon as every *shifted piece* is free of ties
   (`PiecesOK`, `catLoop_classes`); in exact arithmetic a shift is injective on times, so it is enough
   that the inputs are (`piecesOK_exact`).
4. Extraction (C02's closed form `specPiece`) only needs the stably sorted state containers to agree
   (`SortAgree`, `specPiece_perm_of_agree`), which is what 1–3 give for the concatenation result. -/
namespace NSV.C12
open NSV NSV.C13

/-! ## 1. stable sort = key-sorted + same classes -/

/-- the elements of each class (value of `c`) are the same, in the same order, in both lists -/
def SameClasses {α γ : Type} [DecidableEq γ] (c : α → γ) (l l' : List α) : Prop :=
  ∀ k, l.filter (fun a => decide (c a = k)) = l'.filter (fun a => decide (c a = k))

theorem SameClasses.refl {α γ : Type} [DecidableEq γ] (c : α → γ) (l : List α) : SameClasses c l l :=
  fun _ => rfl

theorem SameClasses.of_eq {α γ : Type} [DecidableEq γ] (c : α → γ) {l l' : List α} (h : l = l') :
    SameClasses c l l' := h ▸ SameClasses.refl c l

/-- **stability**: the stable sort keeps every class as stored -/
theorem filter_class_sort {α : Type} (key : α → Rat) (l : List α) (k : Rat) :
    (sortByRat key l).filter (fun a => decide (key a = k)) = l.filter (fun a => decide (key a = k)) := by
  have hsub : (l.filter (fun a => decide (key a = k))).Sublist (sortByRat key l) := by
    unfold sortByRat
    refine List.sublist_mergeSort (le := fun a b => decide (key a ≤ key b))
      (by intro a b c h1 h2; simp at *; exact Rat.le_trans h1 h2)
      (by intro a b; simp; exact Rat.le_total) ?_ List.filter_sublist
    refine List.pairwise_of_forall_mem_list ?_
    intro a ha b hb
    have h1 := (List.mem_filter.mp ha).2
    have h2 := (List.mem_filter.mp hb).2
    simp only [decide_eq_true_eq] at h1 h2 ⊢
    rw [h1, h2]
  have hsub2 := hsub.filter (fun a => decide (key a = k))
  rw [List.filter_filter] at hsub2
  simp only [Bool.and_self] at hsub2
  exact (hsub2.eq_of_length (((sortByRat_perm' key l).filter _).length_eq).symm).symm

/-- two key-sorted lists with the same classes are equal -/
theorem sorted_eq_of_classes {α : Type} (key : α → Rat) : ∀ {S S' : List α},
    S.Pairwise (fun a b => key a ≤ key b) → S'.Pairwise (fun a b => key a ≤ key b) →
    SameClasses key S S' → S = S'
  | [], [], _, _, _ => rfl
  | [], b :: t', _, _, h => by have := h (key b); simp at this
  | a :: t, [], _, _, h => by have := h (key a); simp at this
  | a :: t, b :: t', hs, hs', h => by
    have hs1 := List.pairwise_cons.mp hs
    have hs1' := List.pairwise_cons.mp hs'
    have ha : a ∈ b :: t' := by
      have : a ∈ (b :: t').filter (fun x => decide (key x = key a)) := by rw [← h (key a)]; simp
      exact (List.mem_filter.mp this).1
    have hb : b ∈ a :: t := by
      have : b ∈ (a :: t).filter (fun x => decide (key x = key b)) := by rw [h (key b)]; simp
      exact (List.mem_filter.mp this).1
    have hab : key a = key b := by
      have h1 : key b ≤ key a := by
        rcases List.mem_cons.mp ha with e | e
        · rw [e]
        · exact hs1'.1 a e
      have h2 : key a ≤ key b := by
        rcases List.mem_cons.mp hb with e | e
        · rw [e]
        · exact hs1.1 b e
      exact Rat.le_antisymm h2 h1
    have hk := h (key a)
    simp only [List.filter_cons, hab, decide_true, ↓reduceIte, List.cons.injEq] at hk
    obtain ⟨e, _⟩ := hk
    subst e
    have ht : SameClasses key t t' := by
      intro k
      have := h k
      by_cases hk : key a = k
      · simpa [List.filter_cons, hk] using this
      · simpa [List.filter_cons, hk] using this
    rw [sorted_eq_of_classes key hs1.2 hs1'.2 ht]

/-- two storage orders with the same classes have the same stable sort -/
theorem sortByRat_eq_of_classes {α : Type} (key : α → Rat) {l l' : List α} (h : SameClasses key l l') :
    sortByRat key l = sortByRat key l' := by
  refine sorted_eq_of_classes key (sortByRat_pairwise' key l) (sortByRat_pairwise' key l') ?_
  intro k
  rw [filter_class_sort, filter_class_sort, h k]

/-- … and conversely -/
theorem classes_of_sortByRat_eq {α : Type} (key : α → Rat) {l l' : List α}
    (h : sortByRat key l = sortByRat key l') : SameClasses key l l' := by
  intro k
  rw [← filter_class_sort, ← filter_class_sort key l', h]

/-- a stable sort commutes with filtering -/
theorem sortByRat_filter {α : Type} (key : α → Rat) (p : α → Bool) (l : List α) :
    (sortByRat key l).filter p = sortByRat key (l.filter p) := by
  refine sorted_eq_of_classes key ((sortByRat_pairwise' key l).filter p) (sortByRat_pairwise' key _) ?_
  intro k
  rw [filter_class_sort, List.filter_filter, List.filter_filter]
  have : (fun a => decide (key a = k) && p a) = (fun a => p a && decide (key a = k)) := by
    funext a; exact Bool.and_comm _ _
  rw [this, ← List.filter_filter, ← List.filter_filter (p := p), filter_class_sort]

/-! ## 2. block-wise permutations keep the classes -/

theorem filter_class_eq_of_perm {α γ : Type} [DecidableEq γ] (c : α → γ) {b b' : List α} (hp : b.Perm b')
    (hd : b.Pairwise (fun x y => c x ≠ c y)) (k : γ) :
    b.filter (fun a => decide (c a = k)) = b'.filter (fun a => decide (c a = k)) := by
  have hp' := hp.filter (fun a => decide (c a = k))
  have hd' := hd.filter (fun a => decide (c a = k))
  cases hf : b.filter (fun a => decide (c a = k)) with
  | nil => rw [hf] at hp'; exact hp'.nil_eq
  | cons x r =>
    cases r with
    | nil => rw [hf] at hp'; exact (List.perm_singleton.mp hp'.symm).symm
    | cons y r =>
      exfalso
      rw [hf] at hd'
      have hx : x ∈ b.filter (fun a => decide (c a = k)) := by rw [hf]; simp
      have hy : y ∈ b.filter (fun a => decide (c a = k)) := by rw [hf]; simp
      have h1 := (List.mem_filter.mp hx).2
      have h2 := (List.mem_filter.mp hy).2
      simp only [decide_eq_true_eq] at h1 h2
      exact (List.pairwise_cons.mp hd').1 y (by simp) (h1.trans h2.symm)

/-- **the block lemma**: appending to both lists a block in two storage orders, no two elements of the
block in one class, keeps the classes equal -/
theorem SameClasses.append {α γ : Type} [DecidableEq γ] {c : α → γ} {l l' b b' : List α}
    (h : SameClasses c l l') (hp : b.Perm b') (hd : b.Pairwise (fun x y => c x ≠ c y)) :
    SameClasses c (l ++ b) (l' ++ b') := by
  intro k
  rw [List.filter_append, List.filter_append, h k, filter_class_eq_of_perm c hp hd k]

/-- from classes of (time, key) to the time classes of one key -/
theorem SameClasses.filter_snd {α γ : Type} [DecidableEq γ] {t : α → Rat} {g : α → γ} {l l' : List α}
    (h : SameClasses (fun e => (t e, g e)) l l') (κ : γ) :
    SameClasses t (l.filter (fun e => decide (g e = κ))) (l'.filter (fun e => decide (g e = κ))) := by
  intro k
  rw [List.filter_filter, List.filter_filter]
  have : (fun a => decide (t a = k) && decide (g a = κ)) = (fun a => decide ((t a, g a) = (k, κ))) := by
    funext a; simp [Prod.ext_iff]
  rw [this]; exact h (k, κ)

/-! ## 3. the concatenation loop -/

/-- every piece, *as shifted by the loop*, satisfies `P` (nothing is asked from the first raised error on) -/
def PiecesOK (P : NoteSeq → Prop) (R : Rat → Rat) (useD : Bool) : Rat → MSeq → List (MSeq × Rat) → Prop
  | _, _, [] => True
  | cur, cat, (s, d) :: rest =>
    if useD ∧ d < s.ns.totalTime then True
    else
      match (if 0 < cur then shiftM R cur s else .ok s) with
      | .error _ => True
      | .ok sh =>
        P sh.ns ∧ PiecesOK P R useD (if useD then R (cur + d) else (mergeFromM cat sh).ns.totalTime)
          (mergeFromM cat sh) rest

instance piecesOKDecidable (P : NoteSeq → Prop) [DecidablePred P] (R : Rat → Rat) (useD : Bool) :
    ∀ (ps : List (MSeq × Rat)) (cur : Rat) (cat : MSeq), Decidable (PiecesOK P R useD cur cat ps)
  | [], _, _ => by unfold PiecesOK; infer_instance
  | (s, d) :: rest, cur, cat => by
    unfold PiecesOK
    by_cases hc : (useD = true ∧ d < s.ns.totalTime)
    · rw [if_pos hc]; infer_instance
    · rw [if_neg hc]
      cases (if 0 < cur then shiftM R cur s else Except.ok s) with
      | error e => simp only []; infer_instance
      | ok sh =>
        simp only []
        have := piecesOKDecidable P R useD rest
          (if useD then R (cur + d) else (mergeFromM cat sh).ns.totalTime) (mergeFromM cat sh)
        infer_instance

theorem PiecesOK.mono {P Q : NoteSeq → Prop} (hPQ : ∀ s, P s → Q s) (R : Rat → Rat) (useD : Bool) :
    ∀ (ps : List (MSeq × Rat)) (cur : Rat) (cat : MSeq), PiecesOK P R useD cur cat ps →
      PiecesOK Q R useD cur cat ps
  | [], _, _, _ => by unfold PiecesOK; trivial
  | (s, d) :: rest, cur, cat, h => by
    unfold PiecesOK at h ⊢
    split
    · trivial
    · rename_i hc
      rw [if_neg hc] at h
      cases e1 : (if 0 < cur then shiftM R cur s else Except.ok s) with
      | error e => trivial
      | ok sh =>
        rw [e1] at h
        simp only [] at h ⊢
        exact ⟨hPQ _ h.1, PiecesOK.mono hPQ R useD rest _ _ h.2⟩

/-- the loop on two storage orders: a container `π` that `MergeFrom` appends has the same classes in
both results when no shifted piece has two of its `π`-events in one class -/
theorem catLoop_classes {α γ : Type} [DecidableEq γ] (π : NoteSeq → List α) (c : α → γ)
    (hπ : ∀ a b, π (mergeFrom a b) = π a ++ π b)
    (hπp : ∀ {s s'}, NSPerm s s' → (π s).Perm (π s'))
    (R : Rat → Rat) (useD : Bool) : ∀ (ps ps' : List (MSeq × Rat)), PairsPerm ps ps' →
    ∀ (cur : Rat) (cat cat' : MSeq), MPerm cat cat' → SameClasses c (π cat.ns) (π cat'.ns) →
    PiecesOK (fun s => (π s).Pairwise (fun x y => c x ≠ c y)) R useD cur cat ps →
    ∀ r r', catLoop R useD cur cat ps = .ok r → catLoop R useD cur cat' ps' = .ok r' →
    SameClasses c (π r.ns) (π r'.ns)
  | [], [], _, _, _, _, _, hc, _, r, r', h1, h2 => by
    simp only [catLoop] at h1 h2
    cases h1; cases h2; exact hc
  | (s, d) :: rest, (s', d') :: rest', hp, cur, cat, cat', hm, hc, hok, r, r', h1, h2 => by
    obtain ⟨hs, hd, hr⟩ := hp
    simp only [] at hs hd
    subst hd
    unfold catLoop at h1 h2
    unfold PiecesOK at hok
    rw [← hs.1.totalTime] at h2
    by_cases hcond : (useD = true ∧ d < s.ns.totalTime)
    · rw [if_pos hcond] at h1; cases h1
    · rw [if_neg hcond] at h1 h2 hok
      have hsh : ResPermM (if 0 < cur then shiftM R cur s else .ok s)
          (if 0 < cur then shiftM R cur s' else .ok s') := by
        split
        · exact shiftM_perm R cur hs
        · exact hs
      cases e1 : (if 0 < cur then shiftM R cur s else Except.ok s) with
      | error e => rw [e1] at h1; cases h1
      | ok sh =>
        cases e2 : (if 0 < cur then shiftM R cur s' else Except.ok s') with
        | error e => rw [e2] at h2; cases h2
        | ok sh' =>
          rw [e1] at h1 hok hsh
          rw [e2] at h2 hsh
          simp only [] at h1 h2 hok
          have hmm := mergeFromM_perm hm hsh
          rw [← hmm.1.totalTime] at h2
          refine catLoop_classes π c hπ hπp R useD rest rest' hr _ _ _ hmm ?_ hok.2 r r' h1 h2
          show SameClasses c (π (mergeFrom cat.ns sh.ns)) (π (mergeFrom cat'.ns sh'.ns))
          rw [hπ, hπ]
          exact hc.append (hπp hsh.1) hok.1
  | [], _ :: _, h, _, _, _, _, _, _, _, _, _, _ => h.elim
  | _ :: _, [], h, _, _, _, _, _, _, _, _, _, _ => h.elim

/-- `PiecesOK P` (for a storage-order-invariant `P`) holds for one storage order iff for the other -/
theorem piecesOK_perm {P : NoteSeq → Prop} (hP : ∀ {s s'}, NSPerm s s' → P s → P s') (R : Rat → Rat) (useD : Bool) :
    ∀ (ps ps' : List (MSeq × Rat)), PairsPerm ps ps' → ∀ (cur : Rat) (cat cat' : MSeq),
      MPerm cat cat' → PiecesOK P R useD cur cat ps → PiecesOK P R useD cur cat' ps'
  | [], [], _, _, _, _, _, _ => by unfold PiecesOK; trivial
  | (s, d) :: rest, (s', d') :: rest', hp, cur, cat, cat', hm, hok => by
    obtain ⟨hs, hd, hr⟩ := hp
    simp only [] at hs hd
    subst hd
    unfold PiecesOK at hok ⊢
    rw [← hs.1.totalTime]
    split
    · trivial
    · rename_i hc
      rw [if_neg hc] at hok
      have hsh : ResPermM (if 0 < cur then shiftM R cur s else .ok s)
          (if 0 < cur then shiftM R cur s' else .ok s') := by
        split
        · exact shiftM_perm R cur hs
        · exact hs
      cases e1 : (if 0 < cur then shiftM R cur s else Except.ok s) with
      | error e =>
        cases e2 : (if 0 < cur then shiftM R cur s' else Except.ok s') with
        | error e' => trivial
        | ok sh' => rw [e1, e2] at hsh; exact hsh.elim
      | ok sh =>
        cases e2 : (if 0 < cur then shiftM R cur s' else Except.ok s') with
        | error e' => rw [e1, e2] at hsh; exact hsh.elim
        | ok sh' =>
          rw [e1] at hok hsh
          rw [e2] at hsh
          simp only [] at hok ⊢
          have hmm := mergeFromM_perm hm hsh
          rw [← hmm.1.totalTime]
          exact ⟨hP hsh.1 hok.1, piecesOK_perm hP R useD rest rest' hr _ _ _ hmm hok.2⟩
  | [], _ :: _, h, _, _, _, _, _ => h.elim
  | _ :: _, [], h, _, _, _, _, _ => h.elim

/-- the hypothesis of `concat_perm_pieces` / `repeat_perm_pieces`: every input sequence, after the shift
the loop applies to it, satisfies `P` -/
def ConcatPieces (P : NoteSeq → Prop) (R : Rat → Rat) (seqs : List MSeq) (durs : List Rat) : Prop :=
  PiecesOK P R (!durs.isEmpty) 0 emptyM (catPairs seqs durs)

instance (P : NoteSeq → Prop) [DecidablePred P] (R : Rat → Rat) (seqs : List MSeq) (durs : List Rat) :
    Decidable (ConcatPieces P R seqs durs) := by unfold ConcatPieces; infer_instance

/-! ### exact arithmetic: a shift keeps distinct times distinct -/

theorem shiftR_id_fields {d : Rat} {s s' : NoteSeq} (h : shiftR id d s = .ok s') :
    (s'.timeSigs = s.timeSigs ∨ s'.timeSigs = s.timeSigs.map (fun e => { e with time := e.time + d })) ∧
    (s'.keySigs = s.keySigs ∨ s'.keySigs = s.keySigs.map (fun e => { e with time := e.time + d })) ∧
    (s'.tempos = s.tempos ∨ s'.tempos = s.tempos.map (fun e => { e with time := e.time + d })) ∧
    (s'.texts = s.texts ∨ s'.texts = s.texts.map (fun e => { e with time := e.time + d })) ∧
    (s'.ccs = s.ccs ∨ s'.ccs = s.ccs.map (fun e => { e with time := e.time + d })) := by
  unfold shiftR at h
  split at h
  · cases h
  · split at h
    · cases h
    · injection h with h
      subst h
      simp only [mapEv, id]
      refine ⟨?_, ?_, ?_, ?_, ?_⟩ <;> split <;> simp

theorem distinct_shift {α : Type} (time : α → Rat) (f : α → α) (d : Rat) (hf : ∀ e, time (f e) = time e + d)
    {l : List α} (h : DistinctKeys time l) : DistinctKeys time (l.map f) := by
  refine List.pairwise_map.mpr (h.imp ?_)
  intro a b hab e
  rw [hf, hf] at e
  exact hab (Rat.add_right_cancel _ e)

theorem stateNoTies_shift_id {d : Rat} {s s' : NoteSeq} (h : shiftR id d s = .ok s') (hn : StateNoTies s) :
    StateNoTies s' := by
  obtain ⟨h1, h2, h3, _, _⟩ := shiftR_id_fields h
  refine ⟨?_, ?_, ?_⟩
  · rcases h1 with e | e <;> rw [e]
    · exact hn.1
    · exact distinct_shift _ _ d (fun _ => rfl) hn.1
  · rcases h2 with e | e <;> rw [e]
    · exact hn.2.1
    · exact distinct_shift _ _ d (fun _ => rfl) hn.2.1
  · rcases h3 with e | e <;> rw [e]
    · exact hn.2.2
    · exact distinct_shift _ _ d (fun _ => rfl) hn.2.2

theorem noTies_shift_id {preserve : List Int} {d : Rat} {s s' : NoteSeq} (h : shiftR id d s = .ok s')
    (hn : NoTies preserve s) : NoTies preserve s' := by
  obtain ⟨h1, h2, h3, h4, h5⟩ := shiftR_id_fields h
  obtain ⟨n1, n2, n3, n4, n5⟩ := hn
  have hs := stateNoTies_shift_id h ⟨n2, n3, n1⟩
  refine ⟨hs.2.2, hs.1, hs.2.1, ?_, ?_⟩
  · unfold NSV.C02.chords at n4 ⊢
    rcases h4 with e | e <;> rw [e]
    · exact n4
    · rw [List.filter_map]
      exact distinct_shift _ _ d (fun _ => rfl) n4
  · unfold NSV.C02.pedals at n5 ⊢
    rcases h5 with e | e <;> rw [e]
    · exact n5
    · rw [List.filter_map]
      refine List.pairwise_map.mpr (n5.imp ?_)
      intro a b hab ht
      apply hab
      obtain ⟨t1, t2⟩ := ht
      exact ⟨Rat.add_right_cancel _ t1, t2⟩

/-- in exact arithmetic the pieces satisfy a shift-invariant condition as soon as the inputs do -/
theorem piecesOK_exact {P : NoteSeq → Prop} (hP : ∀ d s s', shiftR id d s = .ok s' → P s → P s')
    (useD : Bool) : ∀ (ps : List (MSeq × Rat)) (cur : Rat) (cat : MSeq), (∀ p ∈ ps, P p.1.ns) →
      PiecesOK P id useD cur cat ps
  | [], _, _, _ => by unfold PiecesOK; trivial
  | (s, d) :: rest, cur, cat, h => by
    unfold PiecesOK
    split
    · trivial
    · cases e1 : (if 0 < cur then shiftM id cur s else Except.ok s) with
      | error e => trivial
      | ok sh =>
        simp only []
        refine ⟨?_, piecesOK_exact hP useD rest _ _ (fun p hp => h p (List.mem_cons_of_mem _ hp))⟩
        have hs : P s.ns := h (s, d) (by simp)
        split at e1
        · unfold shiftM at e1
          cases e2 : shiftR id cur s.ns with
          | error e => rw [e2] at e1; cases e1
          | ok t =>
            rw [e2] at e1
            injection e1 with e1
            subst e1
            exact hP cur s.ns t e2 hs
        · injection e1 with e1
          subst e1
          exact hs

theorem mem_catPairs {seqs : List MSeq} {durs : List Rat} {p : MSeq × Rat} (h : p ∈ catPairs seqs durs) :
    p.1 ∈ seqs := by
  unfold catPairs at h
  split at h
  · exact (List.of_mem_zip h).1
  · obtain ⟨x, hx, e⟩ := List.mem_map.mp h
    subst e
    exact hx

theorem concatPieces_exact {P : NoteSeq → Prop} (hP : ∀ d s s', shiftR id d s = .ok s' → P s → P s')
    {seqs : List MSeq} (durs : List Rat) (h : ∀ m ∈ seqs, P m.ns) : ConcatPieces P id seqs durs :=
  piecesOK_exact hP _ _ _ _ (fun _ hp => h _ (mem_catPairs hp))

/-! ### `remove_redundant_data` and the whole of `concatenate_sequences` -/

/-- the three state containers of the merged sequences have the same classes -/
def StateClasses (s s' : NoteSeq) : Prop :=
  SameClasses (·.time) s.timeSigs s'.timeSigs ∧ SameClasses (·.time) s.keySigs s'.keySigs ∧
  SameClasses (·.time) s.tempos s'.tempos

/-- after `remove_redundant_data` the three state containers are *equal*, everything else is as before -/
theorem finishCat_classes (mm : List String → String) {seqs seqs' : List MSeq} (hl : MPermList seqs seqs')
    {cat cat' : MSeq} (h : MPerm cat cat') (hc : StateClasses cat.ns cat'.ns) :
    MPerm (finishCat mm seqs cat) (finishCat mm seqs' cat') ∧
    (finishCat mm seqs cat).ns.timeSigs = (finishCat mm seqs' cat').ns.timeSigs ∧
    (finishCat mm seqs cat).ns.keySigs = (finishCat mm seqs' cat').ns.keySigs ∧
    (finishCat mm seqs cat).ns.tempos = (finishCat mm seqs' cat').ns.tempos := by
  unfold finishCat removeRedundant
  rw [← hl.metaTags]
  simp only [redTimeSigs, redKeySigs, redTempos]
  rw [sortByRat_eq_of_classes _ hc.1, sortByRat_eq_of_classes _ hc.2.1, sortByRat_eq_of_classes _ hc.2.2]
  refine ⟨⟨?_, by simp only []; rw [h.2.1], by simp only []; rw [h.2.2]⟩, rfl, rfl, rfl⟩
  have hp := h.1
  constructor <;> simp only []
  · exact hp.notes
  · exact List.Perm.refl _
  · exact List.Perm.refl _
  · exact List.Perm.refl _
  · exact hp.texts
  · exact hp.ccs
  · exact hp.bends
  · exact hp.sectionAnns
  · exact hp.sgroups
  · exact hp.totalTime
  · exact hp.totalQSteps
  · exact hp.spq
  · exact hp.sps
  · exact hp.tpq

theorem stateClasses_empty : StateClasses emptyM.ns emptyM.ns :=
  ⟨SameClasses.refl _ _, SameClasses.refl _ _, SameClasses.refl _ _⟩

/-- the loop, all three state containers -/
theorem catLoop_stateClasses (R : Rat → Rat) (useD : Bool) {ps ps' : List (MSeq × Rat)} (hp : PairsPerm ps ps')
    (hok : PiecesOK StateNoTies R useD 0 emptyM ps) {r r' : MSeq}
    (h1 : catLoop R useD 0 emptyM ps = .ok r) (h2 : catLoop R useD 0 emptyM ps' = .ok r') :
    StateClasses r.ns r'.ns := by
  refine ⟨?_, ?_, ?_⟩
  · exact catLoop_classes (·.timeSigs) (·.time) (fun _ _ => rfl) (fun h => h.timeSigs) R useD ps ps' hp 0 _ _
      (MPerm.refl _) (SameClasses.refl _ _) (PiecesOK.mono (fun _ h => h.1) R useD ps _ _ hok) r r' h1 h2
  · exact catLoop_classes (·.keySigs) (·.time) (fun _ _ => rfl) (fun h => h.keySigs) R useD ps ps' hp 0 _ _
      (MPerm.refl _) (SameClasses.refl _ _) (PiecesOK.mono (fun _ h => h.2.1) R useD ps _ _ hok) r r' h1 h2
  · exact catLoop_classes (·.tempos) (·.time) (fun _ _ => rfl) (fun h => h.tempos) R useD ps ps' hp 0 _ _
      (MPerm.refl _) (SameClasses.refl _ _) (PiecesOK.mono (fun _ h => h.2.2) R useD ps _ _ hok) r r' h1 h2

/-- `concatenate_sequences` on two storage orders, every shifted piece free of state ties: same error, or
results equal up to storage order whose time signatures, key signatures and tempos are the same lists -/
theorem concat_perm_pieces_aux (R : Rat → Rat) (mm : List String → String) {seqs seqs' : List MSeq}
    (h : MPermList seqs seqs') (durs : List Rat) (hn : ConcatPieces StateNoTies R seqs durs) :
    ResPermM (concatR R mm seqs durs) (concatR R mm seqs' durs) := by
  rw [concatR_eq, concatR_eq, ← h.length_eq]
  split
  · rfl
  · have hc := catLoop_perm R (!durs.isEmpty) _ _ (catPairs_perm h durs) 0 emptyM emptyM (MPerm.refl _)
    unfold ConcatPieces at hn
    cases h1 : catLoop R (!durs.isEmpty) 0 emptyM (catPairs seqs durs) with
    | ok cat =>
      cases h2 : catLoop R (!durs.isEmpty) 0 emptyM (catPairs seqs' durs) with
      | ok cat' =>
        rw [h1, h2] at hc
        exact (finishCat_classes mm h hc (catLoop_stateClasses R _ (catPairs_perm h durs) hn h1 h2)).1
      | error e' => rw [h1, h2] at hc; exact hc.elim
    | error e =>
      cases h2 : catLoop R (!durs.isEmpty) 0 emptyM (catPairs seqs' durs) with
      | ok cat' => rw [h1, h2] at hc; exact hc.elim
      | error e' => rw [h1, h2] at hc; exact hc

/-! ## 4. extraction only needs the stably sorted state containers to agree -/

section extraction
open NSV.C02

/-- the two storage orders have the same stably time-sorted tempos / time signatures / key signatures /
chord symbols, and for every (instrument, controller) the same time-sorted preserved control changes.
`NoTies` of one of them implies it (`SortAgree.of_noTies`); so does a block-wise permutation of tie-free
blocks, which is what concatenation produces. -/
structure SortAgree (preserve : List Int) (s s' : NoteSeq) : Prop where
  tempos : sortByRat (·.time) s.tempos = sortByRat (·.time) s'.tempos
  timeSigs : sortByRat (·.time) s.timeSigs = sortByRat (·.time) s'.timeSigs
  keySigs : sortByRat (·.time) s.keySigs = sortByRat (·.time) s'.keySigs
  chords : sortByRat (·.time) (chords s) = sortByRat (·.time) (chords s')
  pedals : ∀ κ : PedalKey, (sortByRat (·.time) (pedals preserve s)).filter (fun x => decide (CC.key x = κ)) =
    (sortByRat (·.time) (pedals preserve s')).filter (fun x => decide (CC.key x = κ))

theorem pedal_memory_perm_of_classes {F F' : List CC}
    (hk : ∀ κ : PedalKey, F.filter (fun x => decide (CC.key x = κ)) = F'.filter (fun x => decide (CC.key x = κ))) :
    ((F.foldl (fun m e => assocSet m (CC.key e) e) []).map (·.2)).Perm
      ((F'.foldl (fun m e => assocSet m (CC.key e) e) []).map (·.2)) := by
  rw [List.perm_ext_iff_of_nodup (pedal_memory_nodup F) (pedal_memory_nodup F')]
  intro e
  rw [mem_pedal_memory, mem_pedal_memory, hk]

theorem pedalPiece_perm_of_classes (R : Rat → Rat) {S S' : List CC} (h : S.Perm S')
    (hk : ∀ κ : PedalKey, S.filter (fun x => decide (CC.key x = κ)) = S'.filter (fun x => decide (CC.key x = κ)))
    (ab : Rat × Rat) :
    (pieceSpec (pedalL R) [] S ab).Perm (pieceSpec (pedalL R) [] S' ab) := by
  unfold pieceSpec
  refine List.Perm.append ?_ ?_
  · have hm : ∀ T : List CC, (pedalL R).enter (memAt (pedalL R) [] ab.1 T) =
        (((T.filter (fun e => before true ab.1 e.time)).foldl
          (fun m e => assocSet m (CC.key e) e) []).map (·.2)).map (fun e => CC.setTime e 0) := by
      intro T
      simp only [pedalL, memAt, List.map_map]
      rfl
    rw [hm, hm]
    refine (pedal_memory_perm_of_classes ?_).map _
    intro κ
    rw [List.filter_filter, List.filter_filter]
    have hcomm : (fun a : CC => decide (CC.key a = κ) && before true ab.1 a.time) =
        (fun a : CC => before true ab.1 a.time && decide (CC.key a = κ)) := by
      funext a; exact Bool.and_comm _ _
    rw [hcomm, ← List.filter_filter, ← List.filter_filter (p := fun a : CC => before true ab.1 a.time), hk κ]
  · unfold inside
    exact (h.filter _).map _

/-- the closed-form piece `[a, b)` of two storage orders whose sorted state containers agree -/
theorem specPiece_perm_of_agree (R : Rat → Rat) (preserve : List Int) {s s' : NoteSeq} (h : NSPerm s s')
    (ha : SortAgree preserve s s') (ab : Rat × Rat) :
    NSPerm (specPiece R preserve s ab) (specPiece R preserve s' ab) := by
  have hnotes := specNotes_perm R h ab.1 ab.2
  have htot := pieceTotal_perm hnotes
  have hst : ∀ {α : Type} (time : α → Rat) (setTime : α → Rat → α) {evs evs' : List α},
      sortByRat time evs = sortByRat time evs' →
      specState R time setTime evs ab.1 ab.2 = specState R time setTime evs' ab.1 ab.2 := by
    intro α time setTime evs evs' e
    unfold specState
    rw [e]
  unfold specPiece emptied
  constructor <;> simp only []
  · exact hnotes
  · rw [hst _ _ ha.tempos]
  · rw [hst _ _ ha.timeSigs]
  · rw [hst _ _ ha.keySigs]
  · rw [hst _ _ ha.chords]
    exact List.Perm.append (List.Perm.refl _) (specBeats_perm R h ab.1 ab.2)
  · unfold specPedals
    exact pedalPiece_perm_of_classes R (sortByRat_perm_of_perm _ (pedals_perm preserve h)) ha.pedals (ab.1, ab.2)
  · exact List.Perm.refl _
  · exact h.sectionAnns
  · exact h.sgroups
  · exact htot
  · exact h.totalQSteps
  · exact h.spq
  · exact h.sps
  · rw [h.totalTime, htot]
  · exact h.tpq
  · exact h.metaTag

/-- `extract_subsequence` on two storage orders whose sorted state containers agree -/
theorem extractSubsequence_perm_of_agree (R : Rat → Rat) (preserve : List Int) {s s' : NoteSeq}
    (h : NSPerm s s') (ha : SortAgree preserve s s') (a b : Rat) :
    ResPerm (extractSubsequenceR R preserve s a b) (extractSubsequenceR R preserve s' a b) := by
  rw [extract_subsequence_spec, extract_subsequence_spec, ← h.isQuantized, ← h.totalTime]
  split
  · rfl
  · split
    · rfl
    · exact specPiece_perm_of_agree R preserve h ha (a, b)

/-- classes (time) of the chord symbols and classes (time, instrument, controller) of the preserved
control changes are enough for the last two clauses of `SortAgree` -/
theorem sortAgree_of_classes (preserve : List Int) {s s' : NoteSeq}
    (h1 : s.tempos = s'.tempos) (h2 : s.timeSigs = s'.timeSigs) (h3 : s.keySigs = s'.keySigs)
    (h4 : SameClasses (·.time) (chords s) (chords s'))
    (h5 : SameClasses (fun e : CC => (e.time, CC.key e)) (pedals preserve s) (pedals preserve s')) :
    SortAgree preserve s s' := by
  refine ⟨by rw [h1], by rw [h2], by rw [h3], sortByRat_eq_of_classes _ h4, ?_⟩
  intro κ
  rw [sortByRat_filter, sortByRat_filter]
  exact sortByRat_eq_of_classes _ (h5.filter_snd κ)

/-- `NoTies` of one storage order gives `SortAgree` with every other -/
theorem SortAgree.of_noTies {preserve : List Int} {s s' : NoteSeq} (h : NSPerm s s') (hn : NoTies preserve s) :
    SortAgree preserve s s' := by
  obtain ⟨n1, n2, n3, n4, n5⟩ := hn
  refine ⟨sortByRat_eq_of_perm _ h.tempos n1, sortByRat_eq_of_perm _ h.timeSigs n2,
    sortByRat_eq_of_perm _ h.keySigs n3, sortByRat_eq_of_perm _ (chords_perm h) n4, ?_⟩
  intro κ
  refine filter_key_eq (sortByRat_perm_of_perm _ (pedals_perm preserve h)) (sortByRat_pairwise' _ _)
    (sortByRat_pairwise' _ _) ?_ κ
  refine (sortByRat_perm' _ _).symm.pairwise n5 ?_
  intro x y hxy hyx
  exact hxy ⟨hyx.1.symm, hyx.2.symm⟩

theorem chords_mergeFrom (a b : NoteSeq) : chords (mergeFrom a b) = chords a ++ chords b := by
  unfold chords mergeFrom
  simp only [List.filter_append]

theorem pedals_mergeFrom (preserve : List Int) (a b : NoteSeq) :
    pedals preserve (mergeFrom a b) = pedals preserve a ++ pedals preserve b := by
  unfold pedals mergeFrom
  simp only [List.filter_append]

/-- the concatenation of two storage orders, every shifted piece satisfying extraction's `NoTies`: the
results (both `ok`) agree in the sense of `SortAgree` -/
theorem concat_sortAgree (R : Rat → Rat) (mm : List String → String) (preserve : List Int)
    {seqs seqs' : List MSeq} (h : MPermList seqs seqs') (durs : List Rat)
    (hn : ConcatPieces (NoTies preserve) R seqs durs) {r r' : MSeq}
    (e1 : concatR R mm seqs durs = .ok r) (e2 : concatR R mm seqs' durs = .ok r') :
    MPerm r r' ∧ SortAgree preserve r.ns r'.ns := by
  rw [concatR_eq] at e1 e2
  rw [← h.length_eq] at e2
  split at e1
  · cases e1
  · rename_i hcond
    rw [if_neg hcond] at e2
    have hc := catLoop_perm R (!durs.isEmpty) _ _ (catPairs_perm h durs) 0 emptyM emptyM (MPerm.refl _)
    unfold ConcatPieces at hn
    cases h1 : catLoop R (!durs.isEmpty) 0 emptyM (catPairs seqs durs) with
    | error e => rw [h1] at e1; cases e1
    | ok cat =>
      cases h2 : catLoop R (!durs.isEmpty) 0 emptyM (catPairs seqs' durs) with
      | error e => rw [h2] at e2; cases e2
      | ok cat' =>
        rw [h1] at e1 hc
        rw [h2] at e2 hc
        simp only [] at e1 e2
        injection e1 with e1
        injection e2 with e2
        subst e1 e2
        have hp := catPairs_perm h durs
        have hst := catLoop_stateClasses R _ hp
          (PiecesOK.mono (fun _ (x : NoTies preserve _) => ⟨x.2.1, x.2.2.1, x.1⟩) R _ _ _ _ hn) h1 h2
        obtain ⟨hm, t1, t2, t3⟩ := finishCat_classes mm h hc hst
        refine ⟨hm, sortAgree_of_classes preserve t3 t1 t2 ?_ ?_⟩
        · show SameClasses (·.time) (chords cat.ns) (chords cat'.ns)
          exact catLoop_classes chords (·.time) chords_mergeFrom chords_perm R _ _ _ hp 0 _ _
            (MPerm.refl _) (SameClasses.refl _ _)
            (PiecesOK.mono (fun _ (x : NoTies preserve _) => x.2.2.2.1) R _ _ _ _ hn) _ _ h1 h2
        · show SameClasses (fun e : CC => (e.time, CC.key e)) (pedals preserve cat.ns) (pedals preserve cat'.ns)
          refine catLoop_classes (pedals preserve) (fun e : CC => (e.time, CC.key e)) (pedals_mergeFrom preserve)
            (pedals_perm preserve) R _ _ _ hp 0 _ _ (MPerm.refl _) (SameClasses.refl _ _)
            (PiecesOK.mono ?_ R _ _ _ _ hn) _ _ h1 h2
          intro s x
          refine x.2.2.2.2.imp ?_
          intro a b hab e
          exact hab ⟨congrArg Prod.fst e, congrArg Prod.snd e⟩

end extraction

/-! ## for the examples -/

/-- the tempos of a `concatenate_sequences` result whose merged tempo list `ts` is already in time order -/
theorem concat_tempos_of_sorted {mm : List String → String} {seqs : List MSeq} {durs : List Rat} (ts : List Tempo)
    (hl : ¬ ((!durs.isEmpty) = true ∧ seqs.length ≠ durs.length))
    (hc : (catLoop id (!durs.isEmpty) 0 emptyM (catPairs seqs durs)).toOption.map (·.ns.tempos) = some ts)
    (hs : ts.Pairwise (fun a b => a.time ≤ b.time)) :
    (concatR id mm seqs durs).toOption.map (·.ns.tempos) = some (dropRepeats sameTempo ts) := by
  rw [concatR_eq, if_neg hl]
  cases h : catLoop id (!durs.isEmpty) 0 emptyM (catPairs seqs durs) with
  | error e => rw [h] at hc; simp [Except.toOption] at hc
  | ok cat =>
    rw [h] at hc
    simp only [Except.toOption, Option.map_some, Option.some.injEq] at hc
    show some (redTempos cat.ns.tempos) = _
    rw [hc]
    unfold redTempos
    rw [NSV.C02.sortByRat_of_pairwise _ _ hs]

end NSV.C12
