import NoteSeqVerif.Proofs.C12
import NoteSeqVerif.Proofs.C07
/-! C12 (part B) — helper lemmas for the storage-order theorems about the event extractors (C07 models):
generic facts about stable sorts of permuted lists, canonical sets, and the tie predicates the theorems are
stated with. -/
namespace NSV.C12
open NSV NSV.C07

/-! ### generic list facts -/

/-- Sorting two permutations of one list with a key-based order and then projecting with `f` gives the same list,
provided `f` determines the comparison (`hf`) and elements that compare equal have the same projection (`hanti`).
This is "Python's stable `sorted` is insensitive to storage order up to ties". -/
theorem map_mergeSort_perm {α β} {le : α → α → Bool} {le' : β → β → Bool} {f : α → β}
    (hf : ∀ a b, le a b = le' (f a) (f b))
    (htrans : ∀ a b c : β, le' a b = true → le' b c = true → le' a c = true)
    (htotal : ∀ a b : β, (le' a b || le' b a) = true)
    {l l' : List α} (hperm : l.Perm l')
    (hanti : ∀ a ∈ l, ∀ b ∈ l, le a b = true → le b a = true → f a = f b) :
    (l.mergeSort le).map f = (l'.mergeSort le).map f := by
  have htr : ∀ a b c : α, le a b = true → le b c = true → le a c = true := by
    intro a b c h1 h2; rw [hf] at h1 h2 ⊢; exact htrans _ _ _ h1 h2
  have hto : ∀ a b : α, (le a b || le b a) = true := by
    intro a b; rw [hf a b, hf b a]; exact htotal _ _
  have hp1 : ((l.mergeSort le).map f).Pairwise (fun x y => le' x y = true) := by
    rw [List.pairwise_map]
    exact (List.pairwise_mergeSort htr hto l).imp (fun {a b} h => by rw [← hf]; exact h)
  have hp2 : ((l'.mergeSort le).map f).Pairwise (fun x y => le' x y = true) := by
    rw [List.pairwise_map]
    exact (List.pairwise_mergeSort htr hto l').imp (fun {a b} h => by rw [← hf]; exact h)
  have hperm' : ((l.mergeSort le).map f).Perm ((l'.mergeSort le).map f) :=
    (((List.mergeSort_perm l le).trans hperm).trans (List.mergeSort_perm l' le).symm).map f
  refine List.Perm.eq_of_pairwise ?_ hp1 hp2 hperm'
  intro x y hx hy hxy hyx
  rw [List.mem_map] at hx hy
  obtain ⟨a, ha, rfl⟩ := hx
  obtain ⟨b, hb, rfl⟩ := hy
  rw [List.mem_mergeSort] at ha hb
  exact hanti a ha b (hperm.mem_iff.mpr hb) (by rw [hf]; exact hxy) (by rw [hf]; exact hyx)

/-- strictly increasing lists with the same members are equal -/
theorem sorted_ext {l l' : List Int} (h1 : l.Pairwise (· < ·)) (h2 : l'.Pairwise (· < ·))
    (hm : ∀ x, x ∈ l ↔ x ∈ l') : l = l' := by
  have n1 : l.Nodup := h1.imp (fun {a b} h => by omega)
  have n2 : l'.Nodup := h2.imp (fun {a b} h => by omega)
  refine List.Perm.eq_of_pairwise ?_ h1 h2 ((List.perm_ext_iff_of_nodup n1 n2).mpr hm)
  intro a b _ _ hab hba; omega

/-- a Python `frozenset` does not depend on the order (or multiplicity) of what it is built from -/
theorem canonSet_ext {l l' : List Int} (hm : ∀ x, x ∈ l ↔ x ∈ l') : canonSet l = canonSet l' :=
  sorted_ext (canonSet_sorted l) (canonSet_sorted l') (by intro x; rw [mem_canonSet, mem_canonSet]; exact hm x)

theorem canonSet_perm {l l' : List Int} (h : l.Perm l') : canonSet l = canonSet l' :=
  canonSet_ext (fun _ => h.mem_iff)

/-! ### bar length: the first *stored* time signature decides -/

/-- all stored time signatures have the same numerator and denominator (what `quantize_note_sequence` enforces:
it raises `MultipleTimeSignatureError` otherwise).  `steps_per_bar_in_quantized_sequence` reads
`time_signatures[0]`, so without this the bar length depends on which signature is stored first. -/
def BarAgree (s : NoteSeq) : Prop :=
  ∀ a ∈ s.timeSigs, ∀ b ∈ s.timeSigs, a.num = b.num ∧ a.den = b.den

instance (s : NoteSeq) : Decidable (BarAgree s) := by unfold BarAgree; infer_instance

theorem BarAgree.perm {s s' : NoteSeq} (h : NSPerm s s') (hb : BarAgree s) : BarAgree s' :=
  fun a ha b hb' => hb a (h.timeSigs.mem_iff.mpr ha) b (h.timeSigs.mem_iff.mpr hb')

theorem stepsPerBarR_perm (R : Rat → Rat) {s s' : NoteSeq} (h : NSPerm s s') (hb : BarAgree s) :
    stepsPerBarR R s = stepsPerBarR R s' := by
  have hf : stepsPerBarFloatR R s = stepsPerBarFloatR R s' := by
    unfold stepsPerBarFloatR
    rw [← h.spq]
    have hp := h.timeSigs
    cases hl : s.timeSigs with
    | nil => rw [hl] at hp; rw [hp.symm.eq_nil]
    | cons a as =>
      cases hl' : s'.timeSigs with
      | nil => rw [hl, hl'] at hp; exact absurd hp.eq_nil (by simp)
      | cons b bs =>
        have ha : a ∈ s.timeSigs := by rw [hl]; simp
        have hb' : b ∈ s.timeSigs := h.timeSigs.mem_iff.mpr (by rw [hl']; simp)
        obtain ⟨e1, e2⟩ := hb a ha b hb'
        simp only [e1, e2]
  unfold stepsPerBarR
  rw [hf]

theorem stepsPerBar_perm {s s' : NoteSeq} (h : NSPerm s s') (hb : BarAgree s) :
    stepsPerBar s = stepsPerBar s' := stepsPerBarR_perm rne53 h hb

/-! ### program / is_drum of a performance -/

theorem programAndIsDrum_perm {s s' : NoteSeq} (h : NSPerm s s') (inst : Option Int) :
    programAndIsDrum s inst = programAndIsDrum s' inst := by
  unfold programAndIsDrum
  have hp : (s.notes.filter (instOk inst)).Perm (s'.notes.filter (instOk inst)) := h.notes.filter _
  simp only [hp.all_eq, canonSet_perm (hp.map (·.program))]

/-! ### pianoroll -/

/-- painting in start order: the roll is a function of the *set* of notes -/
theorem rollFrames_perm (c : RollCfg) {l l' : List Note} (hp : l.Perm l')
    (h1 : l.Pairwise (fun a b => a.qs ≤ b.qs)) (h2 : l'.Pairwise (fun a b => a.qs ≤ b.qs)) :
    rollFrames c (l.foldl (paint c) (fun _ _ => false)) = rollFrames c (l'.foldl (paint c) (fun _ _ => false)) := by
  unfold rollFrames
  apply List.map_congr_left
  intro f _
  congr 1
  apply List.filter_congr
  intro p _
  rw [paint_foldl c _ _ l h1, paint_foldl c _ _ l' h2, hp.any_eq, hp.any_eq]

/-! ### drums -/

theorem pitchesAt_perm {sel sel' : List Note} (hp : sel.Perm sel') (t : Int) :
    pitchesAt sel t = pitchesAt sel' t :=
  canonSet_perm ((hp.filter _).map _)

theorem drumLoop_perm {sel sel' : List Note} (hp : sel.Perm sel') (trackStart gap : Int) :
    ∀ (steps : List Int) (ev : List (List Int)) (gsi : Int),
      drumLoop sel trackStart gap steps ev gsi = drumLoop sel' trackStart gap steps ev gsi := by
  intro steps
  induction steps with
  | nil => intro ev gsi; rfl
  | cons t ts ih =>
    intro ev gsi
    simp only [drumLoop, pitchesAt_perm hp, ih]

/-! ### chords -/

/-- chord symbols stored with one (step, time) *before* `startStep` carry the same text.  (`from_quantized_sequence`
sorts by `(quantized_step, time)` and keeps the last one in sorted — for ties in both: storage — order as the chord in
force at `start_step`; chords on one step with different times are ordered by time whatever the storage order; two
different symbols on one step inside `[start_step, end_step)` raise `CoincidentChordsError` in either order, so no
condition is needed there.) -/
def ChordTiesAgree (s : NoteSeq) (startStep : Int) : Prop :=
  ∀ a ∈ s.texts, ∀ b ∈ s.texts, a.kind = Gen.CHORD_SYMBOL → b.kind = Gen.CHORD_SYMBOL →
    a.qstep = b.qstep → a.time = b.time → a.qstep < startStep → a.text = b.text

instance (s : NoteSeq) (startStep : Int) : Decidable (ChordTiesAgree s startStep) := by
  unfold ChordTiesAgree; infer_instance

theorem ChordTiesAgree.perm {s s' : NoteSeq} (h : NSPerm s s') {startStep : Int}
    (ht : ChordTiesAgree s startStep) : ChordTiesAgree s' startStep :=
  fun a ha b hb => ht a (h.texts.mem_iff.mpr ha) b (h.texts.mem_iff.mpr hb)

theorem chordsCoincident_perm {s s' : NoteSeq} (h : NSPerm s s') (start end_ : Int) :
    ChordsCoincident s start end_ ↔ ChordsCoincident s' start end_ := by
  unfold ChordsCoincident
  constructor
  · rintro ⟨a, ha, b, hb, r⟩
    exact ⟨a, h.texts.mem_iff.mp ha, b, h.texts.mem_iff.mp hb, r⟩
  · rintro ⟨a, ha, b, hb, r⟩
    exact ⟨a, h.texts.mem_iff.mpr ha, b, h.texts.mem_iff.mpr hb, r⟩

/-- the chord in force at step `t` does not depend on storage order when chord symbols sharing a (step, time) with
step `≤ t` agree -/
theorem chordAt_perm (d : String) {s s' : NoteSeq} (h : NSPerm s s') (t : Int)
    (hties : ∀ a ∈ s.texts, ∀ b ∈ s.texts, a.kind = Gen.CHORD_SYMBOL → b.kind = Gen.CHORD_SYMBOL →
      a.qstep = b.qstep → a.time = b.time → a.qstep ≤ t → a.text = b.text) :
    chordAt d (chordAnns s) t = chordAt d (chordAnns s') t := by
  let pr : TextAnn → Int × Rat × String := fun a => (a.qstep, a.time, a.text)
  have key : ((chordAnns s).filter (fun c => decide (c.qstep ≤ t))).map pr =
      ((chordAnns s').filter (fun c => decide (c.qstep ≤ t))).map pr := by
    have hpw : ∀ u : NoteSeq, (((chordAnns u).filter (fun c => decide (c.qstep ≤ t))).map pr).Pairwise
        (fun x y => x.1 < y.1 ∨ (x.1 = y.1 ∧ x.2.1 ≤ y.2.1)) := by
      intro u
      rw [List.pairwise_map]
      exact (chordAnns_sorted u).filter _
    have hperm : (((chordAnns s).filter (fun c => decide (c.qstep ≤ t))).map pr).Perm
        (((chordAnns s').filter (fun c => decide (c.qstep ≤ t))).map pr) := by
      apply List.Perm.map
      apply List.Perm.filter
      unfold chordAnns
      exact ((List.mergeSort_perm _ _).trans (h.texts.filter _)).trans (List.mergeSort_perm _ _).symm
    refine List.Perm.eq_of_pairwise ?_ (hpw s) (hpw s') hperm
    intro x y hx hy hxy hyx
    simp only [List.mem_map, List.mem_filter, decide_eq_true_eq] at hx hy
    obtain ⟨a, ⟨ha, hat⟩, rfl⟩ := hx
    obtain ⟨b, ⟨hb, _⟩, rfl⟩ := hy
    rw [mem_chordAnns] at ha hb
    simp only [pr] at hxy hyx
    have hq : a.qstep = b.qstep := by omega
    have htm : a.time = b.time := by
      rcases hxy with hxy | ⟨_, hxy⟩
      · omega
      · rcases hyx with hyx | ⟨_, hyx⟩
        · omega
        · exact Rat.le_antisymm hxy hyx
    have := hties a ha.1 b (h.texts.mem_iff.mpr hb.1) ha.2 hb.2 hq htm hat
    simp only [pr, hq, htm, this]
  unfold chordAt
  have hl := congrArg List.getLast? key
  rw [List.getLast?_map, List.getLast?_map] at hl
  cases h1 : ((chordAnns s).filter (fun c => decide (c.qstep ≤ t))).getLast? with
  | none =>
    cases h2 : ((chordAnns s').filter (fun c => decide (c.qstep ≤ t))).getLast? with
    | none => rfl
    | some b => rw [h1, h2] at hl; simp at hl
  | some a =>
    cases h2 : ((chordAnns s').filter (fun c => decide (c.qstep ≤ t))).getLast? with
    | none => rw [h1, h2] at hl; simp at hl
    | some b =>
      rw [h1, h2] at hl
      simp only [Option.map_some, Option.some.injEq] at hl
      exact (congrArg (fun x => x.2.2) hl)

/-- the loop over the chords when `end_step ≤ start_step`: no event is ever written -/
theorem chordLoop_degenerate (start end_ : Int) (hse : end_ ≤ start) :
    ∀ (l : List TextAnn) (ps : Option Int) (pf : String), (∀ p, ps = some p → p < end_) →
      ∃ ps' pf', chordLoop start end_ l ps pf [] = .ok (ps', pf', []) ∧ (∀ p, ps' = some p → p < end_) := by
  intro l
  induction l with
  | nil => intro ps pf hps; exact ⟨ps, pf, rfl, hps⟩
  | cons c cs ih =>
    intro ps pf hps
    unfold chordLoop
    by_cases h1 : c.qstep ≥ end_
    · rw [if_pos h1]; exact ⟨ps, pf, rfl, hps⟩
    · rw [if_neg h1, if_pos (by omega)]
      exact ih (some c.qstep) c.text (by intro p hp; cases hp; omega)

/-- `end_step ≤ start_step`: `_add_chord` is asked for an empty range — `BadChordError`, whatever the annotations -/
theorem chords_degenerate (s : NoteSeq) (start end_ spb : Int) (hspb : stepsPerBar s = .ok spb)
    (hse : end_ ≤ start) : chordsFromQuantized s start end_ = .error .badChordError := by
  obtain ⟨ps', pf', hl, hps⟩ := chordLoop_degenerate start end_ hse (chordAnns s) none Gen.NO_CHORD (by simp)
  unfold chordsFromQuantized
  simp only [hspb, hl]
  have hadd : ∀ si : Int, 0 ≤ si → addChord [] pf' si (end_ - start) = .error .badChordError := by
    intro si hsi; unfold addChord; rw [if_pos (by omega)]
  cases ps' with
  | none => simp only [chordFinish, chordStartIndex, hadd 0 (by omega)]
  | some p =>
    have := hps p rfl
    simp only [chordFinish, this, if_true, chordStartIndex, hadd (max p start - start) (by omega)]

/-! ### melody -/

/-- what `Melody.from_quantized_sequence` looks at in a note -/
def melKey (fd : Bool) (n : Note) : Int × Int × Int × Bool × Bool :=
  (n.qs, n.pitch, n.qe, fd && n.isDrum, decide (n.velocity = 0))

/-- … together with the third component of the sort key, the unquantized start time (only the sort reads it) -/
def melSortKey (fd : Bool) (n : Note) : Rat × Int × Int × Int × Bool × Bool := (n.start, melKey fd n)

def melKeyLe (x y : Rat × Int × Int × Int × Bool × Bool) : Bool :=
  decide (x.2.1 < y.2.1) || (x.2.1 == y.2.1 &&
    (decide (y.2.2.1 < x.2.2.1) || (y.2.2.1 == x.2.2.1 && decide (x.1 ≤ y.1))))

theorem melLe_key (fd : Bool) (a b : Note) : melLe a b = melKeyLe (melSortKey fd a) (melSortKey fd b) := rfl

theorem melKeyLe_trans (a b c : Rat × Int × Int × Int × Bool × Bool) (h1 : melKeyLe a b = true)
    (h2 : melKeyLe b c = true) : melKeyLe a c = true := by
  simp only [melKeyLe, Bool.or_eq_true, Bool.and_eq_true, decide_eq_true_eq, beq_iff_eq] at *
  rcases h1 with h1 | ⟨h1, h1' | ⟨h1', h1''⟩⟩ <;> rcases h2 with h2 | ⟨h2, h2' | ⟨h2', h2''⟩⟩
  all_goals first
    | (left; omega)
    | (right; refine ⟨by omega, Or.inl (by omega)⟩)
    | (right; exact ⟨by omega, Or.inr ⟨by omega, Rat.le_trans h1'' h2''⟩⟩)

theorem melKeyLe_total (a b : Rat × Int × Int × Int × Bool × Bool) : (melKeyLe a b || melKeyLe b a) = true := by
  simp only [melKeyLe, Bool.or_eq_true, Bool.and_eq_true, decide_eq_true_eq, beq_iff_eq]
  by_cases h1 : a.2.1 < b.2.1
  · exact Or.inl (Or.inl h1)
  · by_cases h2 : b.2.1 < a.2.1
    · exact Or.inr (Or.inl h2)
    · by_cases h3 : b.2.2.1 < a.2.2.1
      · exact Or.inl (Or.inr ⟨by omega, Or.inl h3⟩)
      · by_cases h4 : a.2.2.1 < b.2.2.1
        · exact Or.inr (Or.inr ⟨by omega, Or.inl h4⟩)
        · rcases Rat.le_total (a := a.1) (b := b.1) with h | h
          · exact Or.inl (Or.inr ⟨by omega, Or.inr ⟨by omega, h⟩⟩)
          · exact Or.inr (Or.inr ⟨by omega, Or.inr ⟨by omega, h⟩⟩)

/-- selected notes that share start step, pitch and (unquantized) start time also share the end step.  (The sort key is
`(quantized_start_step, -pitch, start_time)`; with `ignore_polyphonic_notes` the first note of an onset in sorted — for
ties in all three: storage — order is kept and the others are dropped, so their end steps matter.  Notes of one pitch on
one step with different start times are ordered by start time whatever the storage order.) -/
def MelTiesAgree (s : NoteSeq) (searchStart inst : Int) (filterDrums : Bool) : Prop :=
  ∀ a ∈ s.notes, ∀ b ∈ s.notes, melSel searchStart inst filterDrums a = true →
    melSel searchStart inst filterDrums b = true → a.qs = b.qs → a.pitch = b.pitch → a.start = b.start → a.qe = b.qe

instance (s : NoteSeq) (ss inst : Int) (fd : Bool) : Decidable (MelTiesAgree s ss inst fd) := by
  unfold MelTiesAgree; infer_instance

theorem MelTiesAgree.perm {s s' : NoteSeq} (h : NSPerm s s') {ss inst : Int} {fd : Bool}
    (ht : MelTiesAgree s ss inst fd) : MelTiesAgree s' ss inst fd :=
  fun a ha b hb => ht a (h.notes.mem_iff.mpr ha) b (h.notes.mem_iff.mpr hb)

/-- the loop reads a note only through `melKey` -/
theorem melLoop_key (fd ip : Bool) (gap mstart : Int) :
    ∀ (l l' : List Note) (ev : List Int), l.map (melKey fd) = l'.map (melKey fd) →
      melLoop fd ip gap mstart l ev = melLoop fd ip gap mstart l' ev := by
  intro l
  induction l with
  | nil =>
    intro l' ev h
    cases l' with
    | nil => rfl
    | cons b bs => simp at h
  | cons a as ih =>
    intro l' ev h
    cases l' with
    | nil => simp at h
    | cons b bs =>
      simp only [List.map_cons, List.cons.injEq] at h
      obtain ⟨hk, ht⟩ := h
      have ih' : ∀ ev, melLoop fd ip gap mstart as ev = melLoop fd ip gap mstart bs ev := fun ev => ih bs ev ht
      simp only [melKey, Prod.mk.injEq, decide_eq_decide] at hk
      obtain ⟨h1, h2, h3, h4, h5⟩ := hk
      rw [melLoop, melLoop]
      simp only [h1, h2, h3, h4, h5, ih']

theorem melSorted_key {s s' : NoteSeq} (h : NSPerm s s') {ss inst : Int} {fd : Bool}
    (ht : MelTiesAgree s ss inst fd) :
    ((s.notes.filter (melSel ss inst fd)).mergeSort melLe).map (melKey fd) =
      ((s'.notes.filter (melSel ss inst fd)).mergeSort melLe).map (melKey fd) := by
  have hkey : ((s.notes.filter (melSel ss inst fd)).mergeSort melLe).map (melSortKey fd) =
      ((s'.notes.filter (melSel ss inst fd)).mergeSort melLe).map (melSortKey fd) := by
    apply map_mergeSort_perm (le' := melKeyLe) (melLe_key fd) melKeyLe_trans melKeyLe_total (h.notes.filter _)
    intro a ha b hb hab hba
    rw [List.mem_filter] at ha hb
    rw [melLe_iff] at hab hba
    unfold MelOrd at hab hba
    have hq : a.qs = b.qs ∧ a.pitch = b.pitch := by
      rcases hab with h1 | ⟨_, h1 | ⟨h1, _⟩⟩ <;> rcases hba with h2 | ⟨_, h2 | ⟨h2, _⟩⟩ <;> omega
    have hst : a.start = b.start := by
      rcases hab with h1 | ⟨_, h1 | ⟨_, h1⟩⟩
      · omega
      · omega
      · rcases hba with h2 | ⟨_, h2 | ⟨_, h2⟩⟩
        · omega
        · omega
        · exact Rat.le_antisymm h1 h2
    have he := ht a ha.1 b hb.1 ha.2 hb.2 hq.1 hq.2 hst
    have sa := ha.2
    have sb := hb.2
    simp only [melSel, Bool.and_eq_true, beq_iff_eq, decide_eq_true_eq, Bool.not_eq_true', bne_iff_ne, ne_eq] at sa sb
    simp only [melSortKey, melKey, hq.1, hq.2, hst, he, sa.1.2, sb.1.2, sa.2, sb.2]
  have := congrArg (List.map Prod.snd) hkey
  simpa only [List.map_map, Function.comp_def, melSortKey] using this

/-! ### performances -/

/-- what the performance extractors look at in a note (`binOf nb 0` = its velocity bin, `0` when bins are off) -/
def perfKey (nb : Int) (n : Note) : Rat × Int × Int × Int × Int :=
  (n.start, n.pitch, n.qs, n.qe, binOf nb 0 n)

def perfKeyLe (x y : Rat × Int × Int × Int × Int) : Bool :=
  decide (x.1 < y.1) || (x.1 == y.1 && decide (x.2.1 ≤ y.2.1))

theorem timePitchLe_key (nb : Int) (a b : Note) : timePitchLe a b = perfKeyLe (perfKey nb a) (perfKey nb b) := rfl

theorem perfKeyLe_trans (a b c : Rat × Int × Int × Int × Int) (h1 : perfKeyLe a b = true)
    (h2 : perfKeyLe b c = true) : perfKeyLe a c = true := by
  simp only [perfKeyLe, Bool.or_eq_true, Bool.and_eq_true, decide_eq_true_eq, beq_iff_eq] at *
  rcases h1 with h1 | ⟨h1, h1'⟩ <;> rcases h2 with h2 | ⟨h2, h2'⟩
  · exact Or.inl (by grind)
  · exact Or.inl (h2 ▸ h1)
  · exact Or.inl (h1 ▸ h2)
  · exact Or.inr ⟨h1.trans h2, by omega⟩

theorem perfKeyLe_total (a b : Rat × Int × Int × Int × Int) : (perfKeyLe a b || perfKeyLe b a) = true := by
  simp only [perfKeyLe, Bool.or_eq_true, Bool.and_eq_true, decide_eq_true_eq, beq_iff_eq]
  have htri : a.1 < b.1 ∨ a.1 = b.1 ∨ b.1 < a.1 := by grind
  rcases htri with h | h | h
  · exact Or.inl (Or.inl h)
  · rcases Int.le_total a.2.1 b.2.1 with h' | h'
    · exact Or.inl (Or.inr ⟨h, h'⟩)
    · exact Or.inr (Or.inr ⟨h.symm, h'⟩)
  · exact Or.inr (Or.inl h)

/-- selected notes that share start time and pitch also share start step, end step and velocity bin.  (The
extractors sort by `(start_time, pitch)`; ties keep storage order.) -/
def PerfTiesAgree (s : NoteSeq) (startStep nb : Int) (inst : Option Int) : Prop :=
  ∀ a ∈ s.notes, ∀ b ∈ s.notes, (startStep ≤ a.qs ∧ instOk inst a = true) → (startStep ≤ b.qs ∧ instOk inst b = true) →
    a.start = b.start → a.pitch = b.pitch → a.qs = b.qs ∧ a.qe = b.qe ∧ binOf nb 0 a = binOf nb 0 b

instance (s : NoteSeq) (ss nb : Int) (inst : Option Int) : Decidable (PerfTiesAgree s ss nb inst) := by
  unfold PerfTiesAgree; infer_instance

theorem PerfTiesAgree.perm {s s' : NoteSeq} (h : NSPerm s s') {ss nb : Int} {inst : Option Int}
    (ht : PerfTiesAgree s ss nb inst) : PerfTiesAgree s' ss nb inst :=
  fun a ha b hb => ht a (h.notes.mem_iff.mpr ha) b (h.notes.mem_iff.mpr hb)

theorem sortedNotes_key {s s' : NoteSeq} (h : NSPerm s s') {ss nb : Int} {inst : Option Int}
    (ht : PerfTiesAgree s ss nb inst) :
    (sortedNotes s ss inst).map (perfKey nb) = (sortedNotes s' ss inst).map (perfKey nb) := by
  unfold sortedNotes selectNotes
  apply map_mergeSort_perm (le' := perfKeyLe) (timePitchLe_key nb) perfKeyLe_trans perfKeyLe_total (h.notes.filter _)
  intro a ha b hb hab hba
  rw [List.mem_filter] at ha hb
  have sa := ha.2
  have sb := hb.2
  simp only [Bool.and_eq_true, decide_eq_true_eq] at sa sb
  have hq : a.start = b.start ∧ a.pitch = b.pitch := by
    simp only [timePitchLe, Bool.or_eq_true, Bool.and_eq_true, decide_eq_true_eq, beq_iff_eq] at hab hba
    rcases hab with h1 | ⟨h1, h1'⟩
    · rcases hba with h2 | ⟨h2, _⟩
      · exact absurd h1 (by grind)
      · rw [h2] at h1; exact absurd h1 Rat.lt_irrefl
    · rcases hba with h2 | ⟨_, h2'⟩
      · rw [h1] at h2; exact absurd h2 Rat.lt_irrefl
      · exact ⟨h1, by omega⟩
  obtain ⟨e1, e2, e3⟩ := ht a ha.1 b hb.1 sa sb hq.1 hq.2
  simp only [perfKey, hq.1, hq.2, e1, e2, e3]

/-- what the event loop looks at in a note event -/
def evKey (nb : Int) (e : NEv) : Int × Nat × Bool × Int × Int :=
  (e.step, e.idx, e.isOff, e.note.pitch, binOf nb 0 e.note)

def evKeyLe (a b : Int × Nat × Bool × Int × Int) : Bool :=
  decide (a.1 < b.1) || (a.1 == b.1 &&
    (decide (a.2.1 < b.2.1) || (a.2.1 == b.2.1 && (!a.2.2.1 || b.2.2.1))))

theorem nevLe_key (nb : Int) (a b : NEv) : nevLe a b = evKeyLe (evKey nb a) (evKey nb b) := rfl

theorem onsets_key (nb : Int) (l : List Note) :
    (onsets l).map (evKey nb) = ((l.map (perfKey nb)).zipIdx).map
      (fun p => (p.1.2.2.1, p.2, false, p.1.2.1, p.1.2.2.2.2)) := by
  rw [List.zipIdx_map, onsets, List.map_map, List.map_map]
  apply List.map_congr_left
  rintro ⟨n, i⟩ _
  rfl

theorem offsets_key (nb : Int) (l : List Note) :
    (offsets l).map (evKey nb) = ((l.map (perfKey nb)).zipIdx).map
      (fun p => (p.1.2.2.2.1, p.2, true, p.1.2.1, p.1.2.2.2.2)) := by
  rw [List.zipIdx_map, offsets, List.map_map, List.map_map]
  apply List.map_congr_left
  rintro ⟨n, i⟩ _
  rfl

theorem noteEvents_key (nb : Int) {l l' : List Note} (h : l.map (perfKey nb) = l'.map (perfKey nb)) :
    (noteEvents l).map (evKey nb) = (noteEvents l').map (evKey nb) := by
  unfold noteEvents
  rw [List.map_mergeSort (s := evKeyLe) (fun a _ b _ => nevLe_key nb a b),
      List.map_mergeSort (s := evKeyLe) (fun a _ b _ => nevLe_key nb a b),
      List.map_append, List.map_append, onsets_key, offsets_key, onsets_key, offsets_key, h]

theorem perfStep_key (nb ms : Int) (st : PState) {a b : NEv} (h : evKey nb a = evKey nb b) :
    perfStep nb ms st a = perfStep nb ms st b := by
  simp only [evKey, Prod.mk.injEq] at h
  obtain ⟨h1, _, h3, h4, h5⟩ := h
  have hv : ∀ st1, perfVelocity nb st1 a = perfVelocity nb st1 b := by
    intro st1
    unfold perfVelocity
    by_cases hn : nb = 0
    · simp only [hn, if_true]
    · simp only [binOf, hn, if_false] at h5
      simp only [hn, if_false, h5, h3]
  have hn : ∀ st2, perfNote st2 a = perfNote st2 b := by
    intro st2; unfold perfNote; simp only [h3, h4]
  unfold perfStep
  simp only [h1, hv, hn]

theorem perfLoop_key (nb ms : Int) :
    ∀ (l l' : List NEv) (st : PState), l.map (evKey nb) = l'.map (evKey nb) →
      perfLoop nb ms st l = perfLoop nb ms st l' := by
  intro l
  induction l with
  | nil =>
    intro l' st h
    cases l' with
    | nil => rfl
    | cons b bs => simp at h
  | cons a as ih =>
    intro l' st h
    cases l' with
    | nil => simp at h
    | cons b bs =>
      simp only [List.map_cons, List.cons.injEq] at h
      rw [perfLoop, perfLoop, perfStep_key nb ms st h.1]
      cases perfStep nb ms st b with
      | error x => rfl
      | ok st' => exact ih bs st' h.2

theorem perfEvents_perm {s s' : NoteSeq} (h : NSPerm s s') {ss nb : Int} {inst : Option Int}
    (ht : PerfTiesAgree s ss nb inst) (ms : Int) :
    perfEvents s ss nb ms inst = perfEvents s' ss nb ms inst := by
  unfold perfEvents
  rw [perfLoop_key nb ms _ _ _ (noteEvents_key nb (sortedNotes_key h ht))]

/-- the note-based loop reads a note only through `perfKey` -/
theorem notePerfLoop_key (nb ms md : Int) :
    ∀ (l l' : List Note) (cur : Int), l.map (perfKey nb) = l'.map (perfKey nb) →
      notePerfLoop nb ms md cur l = notePerfLoop nb ms md cur l' := by
  intro l
  induction l with
  | nil =>
    intro l' cur h
    cases l' with
    | nil => rfl
    | cons b bs => simp at h
  | cons a as ih =>
    intro l' cur h
    cases l' with
    | nil => simp at h
    | cons b bs =>
      simp only [List.map_cons, List.cons.injEq] at h
      obtain ⟨hk, ht⟩ := h
      have ih' : ∀ cur, notePerfLoop nb ms md cur as = notePerfLoop nb ms md cur bs := fun cur => ih bs cur ht
      simp only [perfKey, Prod.mk.injEq] at hk
      obtain ⟨_, h2, h3, h4, h5⟩ := hk
      rw [notePerfLoop, notePerfLoop]
      by_cases hn : nb = 0
      · simp only [hn, if_true, h2, h3]
      · simp only [binOf, hn, if_false] at h5
        simp only [h2, h3, h4, h5, ih']

/-! ### a canonical non-trivial permutation (for the non-vacuity examples) -/

/-- every repeated field stored in reverse order -/
def revAll (s : NoteSeq) : NoteSeq :=
  { s with notes := s.notes.reverse, tempos := s.tempos.reverse, timeSigs := s.timeSigs.reverse,
           keySigs := s.keySigs.reverse, texts := s.texts.reverse, ccs := s.ccs.reverse,
           bends := s.bends.reverse, sectionAnns := s.sectionAnns.reverse }

theorem nsperm_revAll (s : NoteSeq) : NSPerm s (revAll s) := by
  constructor <;> first | rfl | exact (List.reverse_perm _).symm

theorem NSPerm.symm {s s' : NoteSeq} (h : NSPerm s s') : NSPerm s' s := by
  constructor
  · exact h.notes.symm
  · exact h.tempos.symm
  · exact h.timeSigs.symm
  · exact h.keySigs.symm
  · exact h.texts.symm
  · exact h.ccs.symm
  · exact h.bends.symm
  · exact h.sectionAnns.symm
  · exact h.sgroups.symm
  · exact h.totalTime.symm
  · exact h.totalQSteps.symm
  · exact h.spq.symm
  · exact h.sps.symm
  · exact h.hasSub.symm
  · exact h.subStart.symm
  · exact h.subEnd.symm
  · exact h.tpq.symm
  · exact h.metaTag.symm

end NSV.C12
