import NoteSeqVerif.Props.C07
import NoteSeqVerif.Proofs.C06MelCanon
/-! C06 — Melody: everything `Melody.from_quantized_sequence` returns is canonical (`CanonicalMelody`), from C07's
`melody_steps` (the output reads the kept notes position by position) and `Proofs/C06MelCanon.lean`.
(core Lean only) -/
namespace NSV.C06
open NSV.C07

theorem ruleAt_range {gap : Int} {N : List SNote} (hN : ChainData gap N) (t : Int) :
    C07.Gen.MELODY_NO_EVENT ≤ ruleAt N t ∧ ruleAt N t ≤ Gen.MAX_MIDI_PITCH := by
  rw [ruleAt_eq]
  simp only [C07.Gen.MELODY_NO_EVENT, C07.Gen.MELODY_NOTE_OFF, Gen.MAX_MIDI_PITCH]
  cases ho : onset N t with
  | some d =>
    have := (isPitch_iff d.pitch).mp (hN.valid d (onset_some ho).1).2
    simp only
    omega
  | none =>
    simp only
    cases latest N t with
    | none => simp only; omega
    | some x =>
      simp only
      split <;> omega

/-- **an event list that reads a chain of notes is canonical** -/
theorem canonical_of_rule (spb gap : Int) (pad : Bool) (ss start : Int) (n0 : SNote) (N' : List SNote)
    (last : SNote) (E : List Int)
    (hpos : 0 < spb) (hN : ChainData gap (n0 :: N')) (hlast : (n0 :: N').getLast? = some last)
    (h0 : 0 ≤ n0.a) (h1 : n0.a < spb) (hss0 : 0 ≤ ss) (hssS : ss ≤ start) (hmod : (start - ss) % spb = 0)
    (hlen : (E.length : Int) = last.b + (if pad then Int.fmod (-last.b) spb else 0))
    (hE : ∀ i : Nat, i < E.length → E[i]? = some (ruleAt (n0 :: N') i)) :
    CanonicalMelody spb gap pad ss start E := by
  have hEtab := eq_tab (ruleAt (n0 :: N')) E hE
  have hlm : last ∈ n0 :: N' := List.mem_of_getLast? hlast
  obtain ⟨hlab, _⟩ := hN.valid last hlm
  have hla : n0.a ≤ last.a := by
    rcases List.mem_cons.mp hlm with rfl | h
    · omega
    · have := (List.pairwise_cons.mp hN.sorted).1 last h; omega
  have hge : ∀ d ∈ n0 :: N', ¬ d.a < 0 := by
    intro d hd
    rcases List.mem_cons.mp hd with rfl | h
    · omega
    · have := (List.pairwise_cons.mp hN.sorted).1 d h; omega
  have hl0 : latest (n0 :: N') 0 = none := by
    unfold latest
    rw [List.getLast?_eq_none_iff, List.filter_eq_nil_iff]
    intro d hd; have := hge d hd; simpa using this
  have hpadnn : 0 ≤ (if pad then Int.fmod (-last.b) spb else 0) := by
    split
    · exact Int.fmod_nonneg_of_pos _ hpos
    · omega
  have hpadlt : (if pad then Int.fmod (-last.b) spb else 0) < spb := by
    split
    · rw [Int.fmod_eq_emod_of_nonneg _ (by omega)]; exact Int.emod_lt_of_pos _ hpos
    · omega
  refine Or.inr ⟨?_, ?_, hss0, hssS, hmod, ?_, ?_, ?_⟩
  · -- range
    intro x hx
    obtain ⟨i, hi, rfl⟩ := List.mem_iff_getElem.mp hx
    have := hE i hi
    rw [List.getElem?_eq_getElem hi] at this
    rw [Option.some.inj this]
    exact ruleAt_range hN _
  · -- NOTE_OFF only while a note sounds
    rw [hEtab]
    have := offs_tab hN E.length 0
    have e : soundingAt (n0 :: N') 0 = false := by simp [soundingAt, hl0]
    rw [e] at this; exact this
  · -- the first note lies in the first bar
    rw [hEtab]
    unfold firstOk
    have hp := (hN.valid n0 (List.mem_cons_self ..)).2
    rw [first_tab hN.sorted hp E.length 0 h0 (by omega)]
    simp only [Int.sub_zero, decide_eq_true_eq]
    omega
  · -- gaps
    rw [hEtab]
    have := gaps_tab hN E.length 0
    have e : gapState (n0 :: N') 0 = none := by simp [gapState, hl0]
    rw [e] at this; exact this
  · -- the end
    have hlenN : E.length = last.b.toNat + (if pad then Int.fmod (-last.b) spb else 0).toNat := by omega
    unfold endOk
    have hend := end_tab hN last hlast (by omega) (if pad then Int.fmod (-last.b) spb else 0).toNat
    rw [← hlenN, ← hEtab] at hend
    rw [hend]
    by_cases hz : (if pad then Int.fmod (-last.b) spb else 0).toNat = 0
    · rw [if_pos hz]
      simp only [Bool.or_eq_true, Bool.not_eq_eq_eq_not, Bool.not_true, decide_eq_true_eq]
      cases pad with
      | false => left; rfl
      | true =>
        right
        simp only [↓reduceIte] at hz hlen hpadnn
        have hz' : Int.fmod (-last.b) spb = 0 := by omega
        rw [hlen, hz', Int.add_zero]
        rw [Int.fmod_eq_emod_of_nonneg _ (by omega)] at hz'
        have := Int.dvd_of_emod_eq_zero hz'
        exact Int.emod_eq_zero_of_dvd (Int.dvd_neg.mp this)
    · rw [if_neg hz]
      cases pad with
      | false => simp at hz
      | true =>
        simp only [↓reduceIte] at hz hlen hpadlt hpadnn
        simp only [Bool.true_and, Bool.and_eq_true, decide_eq_true_eq]
        constructor
        · rw [hlen, Int.fmod_eq_emod_of_nonneg _ (by omega)]
          have := Int.emod_add_mul_ediv (-last.b) spb
          have e : last.b + -last.b % spb = spb * (-((-last.b) / spb)) := by
            rw [Int.mul_neg]; omega
          rw [e, Int.mul_emod_right]
        · omega

/-- C07's `melRule` on absolute steps is `ruleAt` on the steps relative to the start -/
theorem melRule_rel (start : Int) (K : List Note) (t : Int) :
    melRule K (start + t) = ruleAt (K.map (fun k => ⟨k.pitch, k.qs - start, k.qe - start⟩)) t := by
  have e1 : ((fun d : SNote => d.a == t) ∘ (fun k : Note => (⟨k.pitch, k.qs - start, k.qe - start⟩ : SNote))) =
      (fun k : Note => k.qs == start + t) := by
    funext k
    show (k.qs - start == t) = (k.qs == start + t)
    by_cases h : k.qs = start + t
    · have : k.qs - start = t := by omega
      rw [beq_iff_eq.mpr this, beq_iff_eq.mpr h]
    · have : ¬ k.qs - start = t := by omega
      rw [beq_eq_false_iff_ne.mpr this, beq_eq_false_iff_ne.mpr h]
  have e2 : ((fun d : SNote => decide (d.a < t)) ∘ (fun k : Note => (⟨k.pitch, k.qs - start, k.qe - start⟩ : SNote))) =
      (fun k : Note => decide (k.qs < start + t)) := by
    funext k
    show decide (k.qs - start < t) = decide (k.qs < start + t)
    by_cases h : k.qs < start + t
    · have : k.qs - start < t := by omega
      simp [h, this]
    · have : ¬ k.qs - start < t := by omega
      simp [h, this]
  unfold melRule ruleAt
  rw [List.find?_map, List.filter_map, List.getLast?_map, e1, e2]
  cases K.find? (fun k => k.qs == start + t) with
  | some d => rfl
  | none =>
    simp only [Option.map_none]
    cases (K.filter (fun k => decide (k.qs < start + t))).getLast? with
    | none => rfl
    | some d =>
      simp only [Option.map_some]
      show _ = (if d.qe - start = t then _ else _)
      by_cases h : d.qe = start + t
      · have : d.qe - start = t := by omega
        rw [if_pos h, if_pos this]
      · have : ¬ d.qe - start = t := by omega
        rw [if_neg h, if_neg this]

/-- **what extraction produces is canonical** (Melody): on every quantized sequence with a positive bar length whose
selected notes have positive length and pitches in `0 .. 127`, for every `search_start_step ≥ 0`, `gap_bars`,
`pad_end`, `ignore_polyphonic_notes`, `filter_drums` -/
theorem melody_extract_canonical (s : NoteSeq) (ss inst gapBars : Int) (ip pad fd : Bool) (spb : Int)
    (hspb : stepsPerBar s = .ok spb) (hpos : 0 < spb) (hss : 0 ≤ ss)
    (hvalid : ∀ n ∈ s.notes, melSel ss inst fd n = true → n.qs < n.qe ∧ 0 ≤ n.pitch ∧ n.pitch ≤ 127)
    (r : SimpleResult Int) (hr : melodyFromQuantized s ss inst gapBars ip pad fd = .ok r) :
    CanonicalMelody spb (gapBars * spb) pad ss r.startStep r.events ∧
      r.endStep = r.startStep + r.events.length ∧ r.stepsPerBar = spb ∧ r.stepsPerQuarter = s.spq := by
  cases hL : (s.notes.filter (melSel ss inst fd)).mergeSort melLe with
  | nil =>
    have hsel : s.notes.filter (melSel ss inst fd) = [] := by
      have := congrArg List.length hL
      rw [List.length_mergeSort] at this
      exact List.eq_nil_of_length_eq_zero this
    rw [melody_empty s ss inst gapBars ip pad fd spb hspb hsel] at hr
    cases hr
    exact ⟨Or.inl ⟨rfl, rfl⟩, by simp, rfl, rfl⟩
  | cons first rest =>
    have hvalid' : ∀ n ∈ s.notes, melSel ss inst fd n = true → n.qs < n.qe ∧ 0 ≤ n.pitch :=
      fun n hn h => ⟨(hvalid n hn h).1, (hvalid n hn h).2.1⟩
    obtain ⟨hdupcase, hmain⟩ := melody_steps s ss inst gapBars ip pad fd spb hspb hpos hvalid' first rest hL
    by_cases hdup : ip = false ∧ dupFrom (gapBars * spb) first rest = true
    · rw [hdupcase hdup] at hr; cases hr
    · obtain ⟨last, evs, hlast, hres, hlen, hidx⟩ := hmain hdup
      rw [hres] at hr
      cases hr
      -- facts about the selected / kept notes
      have hmemsel : ∀ n ∈ first :: rest, n ∈ s.notes ∧ melSel ss inst fd n = true := by
        intro n hn
        rw [← hL, List.mem_mergeSort, List.mem_filter] at hn
        exact hn
      have hsorted : (first :: rest).Pairwise (fun a b => a.qs ≤ b.qs) := by
        rw [← hL]
        apply List.Pairwise.imp _ (melSorted _)
        intro a b h; rcases h with h | h <;> omega
      have hinc := kept_increasing (gapBars * spb) rest first hsorted
      have hsub := keptFrom_sublist (gapBars * spb) rest first
      have hKmem : ∀ k ∈ first :: keptFrom (gapBars * spb) first rest, k ∈ first :: rest := by
        intro k hk
        rcases List.mem_cons.mp hk with rfl | h
        · exact List.mem_cons_self ..
        · exact List.mem_cons_of_mem _ (hsub.subset h)
      have hfss : ss ≤ first.qs := by
        have := (hmemsel first (List.mem_cons_self ..)).2
        simp only [melSel, Bool.and_eq_true, decide_eq_true_eq] at this
        exact this.1.1.2
      generalize hstart : first.qs - Int.fmod (first.qs - ss) spb = start at *
      have hfm : Int.fmod (first.qs - ss) spb = (first.qs - ss) % spb := Int.fmod_eq_emod_of_nonneg _ (by omega)
      have hm0 : 0 ≤ (first.qs - ss) % spb := Int.emod_nonneg _ (by omega)
      have hm1 : (first.qs - ss) % spb < spb := Int.emod_lt_of_pos _ hpos
      have hm2 : (first.qs - ss) % spb ≤ first.qs - ss := by
        have := Int.emod_add_mul_ediv (first.qs - ss) spb
        have hd : 0 ≤ (first.qs - ss) / spb := Int.ediv_nonneg (by omega) (by omega)
        have : 0 ≤ spb * ((first.qs - ss) / spb) := Int.mul_nonneg (by omega) hd
        omega
      have hmod : (start - ss) % spb = 0 := by
        have : start - ss = spb * ((first.qs - ss) / spb) := by
          have := Int.emod_add_mul_ediv (first.qs - ss) spb
          omega
        rw [this, Int.mul_emod_right]
      let rel : Note → SNote := fun k => ⟨k.pitch, k.qs - start, k.qe - start⟩
      have hchain : ChainData (gapBars * spb) (rel first :: (keptFrom (gapBars * spb) first rest).map rel) := by
        rw [← List.map_cons]
        refine ⟨?_, ?_, ?_⟩
        · rw [List.pairwise_map]
          apply List.Pairwise.imp _ hinc
          intro a b h
          show a.qs - start < b.qs - start
          omega
        · intro d hd
          obtain ⟨k, hk, rfl⟩ := List.mem_map.mp hd
          obtain ⟨hks, hksel⟩ := hmemsel k (hKmem k hk)
          obtain ⟨h1, h2, h3⟩ := hvalid k hks hksel
          exact ⟨by show k.qs - start < k.qe - start; omega, (isPitch_iff k.pitch).mpr ⟨h2, h3⟩⟩
        · intro pre x y post hsplit
          obtain ⟨l1, l2, hK, hl1, hl2⟩ := List.map_eq_append_iff.mp hsplit
          obtain ⟨x', l3, hl2', hx', hl3⟩ := List.map_eq_cons_iff.mp hl2
          obtain ⟨y', l4, hl3', hy', _⟩ := List.map_eq_cons_iff.mp hl3
          have := kept_chain (gapBars * spb) rest first l1 x' y' l4 (by rw [hK, hl2', hl3'])
          rw [← hx', ← hy']
          show y'.qs - start - (x'.qe - start) < gapBars * spb
          omega
      have hlast' : (rel first :: (keptFrom (gapBars * spb) first rest).map rel).getLast? = some (rel last) := by
        rw [← List.map_cons, List.getLast?_map, hlast]; rfl
      have hcanon := canonical_of_rule spb (gapBars * spb) pad ss start (rel first)
        ((keptFrom (gapBars * spb) first rest).map rel) (rel last) evs hpos hchain hlast'
        (by show 0 ≤ first.qs - start; omega) (by show first.qs - start < spb; omega) hss (by omega) hmod
        (by rw [hlen])
        (by
          intro i hi
          rw [hidx i hi, melRule_rel start, List.map_cons])
      exact ⟨hcanon, rfl, rfl, rfl⟩

end NSV.C06
