import NoteSeqVerif.Proofs.C17Spec
/-! C17 — helper lemmas for `Props/C17.lean` (core Lean only). -/
namespace NSV.C17
open Gen
variable {α : Type}

theorem clampIdx_le (len : Nat) (i : Int) : clampIdx len i ≤ len := by
  unfold clampIdx; split <;> omega

theorem clampIdx_of_nonneg (len : Nat) (i : Int) (h : 0 ≤ i) : clampIdx len i = min i.toNat len := by
  unfold clampIdx; split <;> omega

theorem setLength_events_right (c : Cls α) (s : Seq α) (n : Int) (h : 0 ≤ n) :
    (setLength c s n false).events =
      if n.toNat ≤ s.events.length then s.events.take n.toNat
      else s.events ++ ((c.sustain s.events).getD c.pad :: List.replicate (n.toNat - s.events.length - 1) c.pad) := by
  unfold setLength baseSetLength
  by_cases hn : n > (s.events.length : Int)
  · have h1 : ¬ n.toNat ≤ s.events.length := by omega
    simp only [hn, h1, if_true, if_false, Bool.false_eq_true, and_self, pyRepeat]
    have hk : (n - (s.events.length : Int)).toNat = (n.toNat - s.events.length - 1) + 1 := by omega
    cases hs : c.sustain s.events with
    | none => simp [hk, List.replicate_succ]
    | some x =>
      simp [hk, List.replicate_succ]
  · have h1 : n.toNat ≤ s.events.length := by omega
    simp only [hn, h1, if_true, if_false, false_and, pyDelSlice, sliceLo, sliceHi, clampIdx_of_nonneg _ _ h]
    simp [Nat.min_eq_left h1]
    omega

theorem setLength_events_left (c : Cls α) (s : Seq α) (n : Int) (h : 0 ≤ n) :
    (setLength c s n true).events =
      if n.toNat ≤ s.events.length then s.events.drop (s.events.length - n.toNat)
      else List.replicate (n.toNat - s.events.length) c.pad ++ s.events := by
  unfold setLength baseSetLength
  by_cases hn : n > (s.events.length : Int)
  · have h1 : ¬ n.toNat ≤ s.events.length := by omega
    simp only [hn, h1, if_true, if_false, pyRepeat]
    have hk : (n - (s.events.length : Int)).toNat = (n.toNat - s.events.length) := by omega
    simp [hk]
  · have h1 : n.toNat ≤ s.events.length := by omega
    have h2 : 0 ≤ (s.events.length : Int) - n := by omega
    simp only [hn, h1, if_true, if_false, false_and, pyDelSlice, sliceLo, sliceHi, clampIdx_of_nonneg _ _ h2]
    have : ((s.events.length : Int) - n).toNat = s.events.length - n.toNat := by omega
    simp [this]

theorem setLength_fields_right (c : Cls α) (s : Seq α) (n : Int) :
    (setLength c s n false).start = s.start ∧ (setLength c s n false).stop = s.start + n ∧
    (setLength c s n false).spb = s.spb ∧ (setLength c s n false).spq = s.spq := by
  unfold setLength baseSetLength
  cases c.sustain s.events <;> by_cases h : n > (s.events.length : Int) <;> simp [h]

theorem setLength_fields_left (c : Cls α) (s : Seq α) (n : Int) :
    (setLength c s n true).start = s.stop - n ∧ (setLength c s n true).stop = s.stop ∧
    (setLength c s n true).spb = s.spb ∧ (setLength c s n true).spq = s.spq := by
  unfold setLength baseSetLength
  simp

theorem fillOf_length (f : Option α) (k : Int) (hk : 1 ≤ k) (e : α) : (fillOf f k e).length = k.toNat := by
  unfold fillOf pyRepeat
  cases f <;> simp <;> omega

theorem flatMap_length_const {β : Type} (l : List α) (f : α → List β) (k : Nat) (h : ∀ e, (f e).length = k) :
    (l.flatMap f).length = l.length * k := by
  induction l with
  | nil => simp
  | cons a l ih => simp [List.flatMap_cons, ih, h, Nat.succ_mul]; omega

theorem flatMap_getElem_mul {β : Type} (l : List α) (f : α → List β) (k : Nat) (hk : 0 < k)
    (h : ∀ e, (f e).length = k) (g : α → β) (hg : ∀ e, (f e)[0]? = some (g e)) (i : Nat) :
    (l.flatMap f)[i * k]? = (l[i]?).map g := by
  induction l generalizing i with
  | nil => simp
  | cons a l ih =>
    cases i with
    | zero =>
      simp [List.flatMap_cons]
      rw [List.getElem?_append_left (by rw [h]; exact hk)]
      exact hg a
    | succ i =>
      simp only [List.flatMap_cons, List.getElem?_cons_succ]
      rw [List.getElem?_append_right (by rw [h, Nat.succ_mul]; omega)]
      rw [h, Nat.succ_mul, Nat.add_sub_cancel]
      exact ih i

theorem fillOf_head (f : Option α) (k : Int) (hk : 1 ≤ k) (e : α) : (fillOf f k e)[0]? = some e := by
  unfold fillOf pyRepeat
  cases f with
  | none =>
    have : k.toNat = (k.toNat - 1) + 1 := by omega
    rw [this]; simp [List.replicate_succ]
  | some x => simp

theorem fromEventList_ok (c : Cls α) (evs : List α) (st b q : Int) (s : Seq α)
    (h : fromEventList c evs st b q = .ok s) :
    (∀ e ∈ evs, c.valid e = true) ∧ s.events = c.clean evs ∧ s.start = st ∧
      s.stop = st + ((c.clean evs).length : Int) ∧ s.spb = b ∧ s.spq = q := by
  unfold fromEventList at h
  split at h
  · rename_i hv
    cases h
    simp at hv
    exact ⟨hv, by simp⟩
  · cases h

theorem fromEventList_inv (c : Cls α) (hc : Lawful c) (evs : List α) (st b q : Int) (s : Seq α)
    (h : fromEventList c evs st b q = .ok s) : Inv c s := by
  obtain ⟨hv, he, hs, ht, _, _⟩ := fromEventList_ok c evs st b q s h
  constructor
  · rw [ht, hs, he]; omega
  · rw [he]; exact hc.clean_valid evs hv

theorem setLength_length (c : Cls α) (s : Seq α) (n : Int) (fl : Bool) (h : 0 ≤ n) :
    (setLength c s n fl).events.length = n.toNat := by
  cases fl
  · rw [setLength_events_right c s n h]; split <;> simp <;> omega
  · rw [setLength_events_left c s n h]; split <;> simp <;> omega

theorem setLength_valid (c : Cls α) (hc : Lawful c) (s : Seq α) (n : Int) (fl : Bool) (h : 0 ≤ n)
    (hv : ∀ e ∈ s.events, c.valid e = true) : ∀ e ∈ (setLength c s n fl).events, c.valid e = true := by
  cases fl
  · rw [setLength_events_right c s n h]
    split
    · intro e he; exact hv e (List.mem_of_mem_take he)
    · intro e he
      simp only [List.mem_append, List.mem_cons, List.mem_replicate] at he
      rcases he with he | he | he
      · exact hv e he
      · subst he
        cases hs : c.sustain s.events with
        | none => simpa using hc.pad_valid
        | some x => simpa using hc.sustain_valid _ _ hs
      · rw [he.2]; exact hc.pad_valid
  · rw [setLength_events_left c s n h]
    split
    · intro e he; exact hv e (List.mem_of_mem_drop he)
    · intro e he
      simp only [List.mem_append, List.mem_replicate] at he
      rcases he with he | he
      · rw [he.2]; exact hc.pad_valid
      · exact hv e he

theorem setLength_inv (c : Cls α) (hc : Lawful c) (s : Seq α) (n : Int) (fl : Bool) (h : 0 ≤ n)
    (hi : Inv c s) : Inv c (setLength c s n fl) := by
  refine ⟨?_, setLength_valid c hc s n fl h hi.2⟩
  rw [setLength_length c s n fl h]
  cases fl
  · obtain ⟨a, b, _, _⟩ := setLength_fields_right c s n; rw [a, b]; omega
  · obtain ⟨a, b, _, _⟩ := setLength_fields_left c s n; rw [a, b]; omega

theorem incRes_length (c : Cls α) (s : Seq α) (k : Int) (fill : Option α) (hk : 1 ≤ k) :
    (incRes c s k fill).events.length = s.events.length * k.toNat := by
  unfold incRes
  exact flatMap_length_const _ _ _ (fillOf_length _ k hk)

theorem incRes_inv (c : Cls α) (hc : Lawful c) (s : Seq α) (k : Int) (fill : Option α)
    (hok : OpOk c (.incRes k fill)) (hi : Inv c s) : Inv c (incRes c s k fill) := by
  obtain ⟨hk, hf⟩ := hok
  constructor
  · rw [incRes_length c s k fill hk]
    simp only [incRes]
    rw [← Int.sub_mul, hi.1, Int.natCast_mul, Int.toNat_of_nonneg (by omega)]
  · intro e he
    simp only [incRes, List.mem_flatMap] at he
    obtain ⟨a, ha, he⟩ := he
    have hva := hi.2 a ha
    unfold fillOf pyRepeat at he
    cases hff : c.fixedFill with
    | some x =>
      simp only [hff, List.mem_cons, List.mem_replicate] at he
      rcases he with he | he
      · rw [he]; exact hva
      · rw [he.2]; exact hc.fill_valid x hff
    | none =>
      simp only [hff] at he
      cases fill with
      | none => simp only [List.mem_replicate] at he; rw [he.2]; exact hva
      | some x =>
        simp only [List.mem_cons, List.mem_replicate] at he
        rcases he with he | he
        · rw [he]; exact hva
        · rw [he.2]; exact hf hff x rfl

theorem step_inv (c : Cls α) (hc : Lawful c) (s s' : Seq α) (op : Op α) (hi : Inv c s)
    (hok : OpOk c op) (h : step c s op = .ok s') : Inv c s' := by
  cases op with
  | append e =>
    simp only [step] at h
    split at h
    · rename_i hv
      cases h
      refine ⟨by simp; have := hi.1; omega, ?_⟩
      intro x hx
      simp only [List.mem_append, List.mem_singleton] at hx
      rcases hx with hx | hx
      · exact hi.2 x hx
      · rw [hx]; exact hv
    · cases h
  | setLength n fl => simp only [step] at h; cases h; exact setLength_inv c hc s n fl hok hi
  | slice i j => exact fromEventList_inv c hc _ _ _ _ _ h
  | sliceStep i j k =>
    simp only [step] at h
    split at h
    · cases h
    · exact fromEventList_inv c hc _ _ _ _ _ h
  | incRes k fill => simp only [step] at h; cases h; exact incRes_inv c hc s k fill hok hi
  | deepcopy => exact fromEventList_inv c hc _ _ _ _ _ h
  | reinit ev st b q => exact fromEventList_inv c hc _ _ _ _ _ h
  | reset => simp only [step] at h; cases h; exact ⟨by simp, by simp⟩

theorem runSkip_inv (c : Cls α) (hc : Lawful c) (ops : List (Op α)) (s : Seq α) (hi : Inv c s)
    (hok : ∀ op ∈ ops, OpOk c op) : Inv c (runSkip c s ops) := by
  induction ops generalizing s with
  | nil => exact hi
  | cons op ops ih =>
    simp only [runSkip, List.foldl_cons]
    apply ih
    · unfold stepSkip
      cases hs : step c s op with
      | ok s' => exact step_inv c hc s s' op hi (hok op (by simp)) hs
      | error e => exact hi
    · intro o ho; exact hok o (by simp [ho])

theorem sliceLo_le (len : Nat) (i : Option Int) : sliceLo len i ≤ len := by
  cases i <;> simp [sliceLo, clampIdx_le]

theorem sliceHi_le (len : Nat) (i : Option Int) : sliceHi len i ≤ len := by
  cases i <;> simp [sliceHi, clampIdx_le]

/-- the clamped slice start, case by case, as CPython's `slice.indices` defines it -/
theorem sliceLo_spec (len : Nat) (i : Int) :
    (0 ≤ i → i ≤ len → (sliceLo len (some i) : Int) = i) ∧
    ((len : Int) < i → sliceLo len (some i) = len) ∧
    (-(len : Int) ≤ i → i < 0 → (sliceLo len (some i) : Int) = len + i) ∧
    (i < -(len : Int) → sliceLo len (some i) = 0) ∧ sliceLo len none = 0 := by
  simp only [sliceLo, clampIdx]
  refine ⟨?_, ?_, ?_, ?_, trivial⟩ <;> intros <;> split <;> omega

theorem pySlice_length (l : List α) (i j : Option Int) :
    (pySlice l i j).length = sliceHi l.length j - sliceLo l.length i := by
  have := sliceLo_le l.length i
  have := sliceHi_le l.length j
  simp [pySlice]; omega

theorem pySlice_getElem (l : List α) (i j : Option Int) (k : Nat) (h : k < (pySlice l i j).length) :
    (pySlice l i j)[k]? = l[sliceLo l.length i + k]? := by
  rw [pySlice_length] at h
  simp [pySlice, h]

theorem pyIndex_spec (l : List α) :
    (∀ k (h : k < l.length), pyIndex l (k : Int) = .ok l[k] ∧ pyIndex l ((k : Int) - l.length) = .ok l[k]) ∧
    (∀ i : Int, (l.length : Int) ≤ i ∨ i < -(l.length : Int) → pyIndex l i = .error .indexError) := by
  constructor
  · intro k h
    constructor
    · have : ¬ ((k:Int) < 0) := by omega
      simp [pyIndex, this, h]
    · have h1 : (k : Int) - l.length < 0 := by omega
      have h2 : ¬ ((k : Int) - l.length + l.length < 0) := by omega
      have h3 : ((k : Int) - l.length + l.length).toNat = k := by omega
      simp [pyIndex, h1, h]
  · intro i hi
    unfold pyIndex
    rcases hi with hi | hi
    · have h1 : ¬ i < 0 := by omega
      have h2 : l.length ≤ i.toNat := by omega
      simp [h1, List.getElem?_eq_none h2]
    · have h1 : i < 0 := by omega
      have h2 : i + l.length < 0 := by omega
      simp [h1, h2]

theorem pyRange_spec (a b : Int) :
    (pyRange a b).length = (b - a).toNat ∧ ∀ k, k < (b - a).toNat → (pyRange a b)[k]? = some (a + k) := by
  unfold pyRange
  constructor
  · simp
  · intro k hk; simp [hk]

theorem obs_consistent (c : Cls α) (s : Seq α) (h : Inv c s) :
    (s.len : Int) = s.stop - s.start ∧ s.iter.length = s.len ∧
    s.steps.length = s.len ∧ (∀ k, k < s.len → s.steps[k]? = some (s.start + k)) ∧
    (∀ k (hk : k < s.iter.length), s.index (k : Int) = .ok s.iter[k] ∧ s.index ((k : Int) - s.len) = .ok s.iter[k]) ∧
    (∀ i : Int, (s.len : Int) ≤ i ∨ i < -(s.len : Int) → s.index i = .error .indexError) := by
  have h1 := h.1
  obtain ⟨r1, r2⟩ := pyRange_spec s.start s.stop
  obtain ⟨i1, i2⟩ := pyIndex_spec s.events
  have hl : (s.stop - s.start).toNat = s.events.length := by omega
  refine ⟨by simp [Seq.len]; omega, rfl, ?_, ?_, ?_, ?_⟩
  · simp [Seq.steps, Seq.len, r1, hl]
  · intro k hk; exact r2 k (by simp [Seq.len] at hk; omega)
  · intro k hk; exact i1 k hk
  · intro i hi; exact i2 i hi

theorem slice_offset' (c : Cls α) (s s' : Seq α) (i j : Option Int) (h : step c s (.slice i j) = .ok s') :
    s'.start = s.start + (sliceLo s.events.length i : Int) ∧ s'.events = c.clean (pySlice s.events i j) ∧
    s'.spb = s.spb ∧ s'.spq = s.spq := by
  obtain ⟨_, he, hs, _, hb, hq⟩ := fromEventList_ok _ _ _ _ _ _ h
  exact ⟨hs, he, hb, hq⟩

theorem slice_elements' (c : Cls α) (hc : Lawful c) (s s' : Seq α) (i j : Option Int) (hi : Inv c s)
    (h : step c s (.slice i j) = .ok s') :
    s.start ≤ s'.start ∧ s'.start + (s'.events.length : Int) ≤ s.stop ∧
    ∃ raw, s'.events = c.clean raw ∧ ∀ k, k < raw.length →
      raw[k]? = s.events[((s'.start + (k : Int)) - s.start).toNat]? := by
  obtain ⟨_, he, hs, ht, _, _⟩ := fromEventList_ok _ _ _ _ _ _ h
  have hlo := sliceLo_le s.events.length i
  have hhi := sliceHi_le s.events.length j
  refine ⟨by omega, ?_, pySlice s.events i j, he, ?_⟩
  · have h1 := hi.1
    have h2 : s'.events.length = sliceHi s.events.length j - sliceLo s.events.length i := by
      rw [he, hc.clean_length, pySlice_length]
    omega
  · intro k hk
    rw [pySlice_getElem _ _ _ _ hk, hs]
    congr 1
    omega

theorem incRes_scales' (c : Cls α) (s : Seq α) (k : Int) (fill : Option α) (hk : 1 ≤ k) :
    (incRes c s k fill).events.length = s.events.length * k.toNat ∧
    (incRes c s k fill).start = s.start * k ∧ (incRes c s k fill).stop = s.stop * k ∧
    (incRes c s k fill).spb = s.spb * k ∧ (incRes c s k fill).spq = s.spq * k ∧
    ∀ i, (incRes c s k fill).events[i * k.toNat]? = s.events[i]? := by
  refine ⟨incRes_length c s k fill hk, rfl, rfl, rfl, rfl, ?_⟩
  intro i
  simp only [incRes]
  rw [flatMap_getElem_mul s.events _ k.toNat (by omega) (fillOf_length _ k hk) id (fun e => fillOf_head _ k hk e) i]
  simp

theorem step_frame' (c : Cls α) (s s' : Seq α) (op : Op α) (h : step c s op = .ok s') :
    match op with
    | .append e => s'.events = s.events ++ [e] ∧ s'.start = s.start ∧ s'.spb = s.spb ∧ s'.spq = s.spq
    | .setLength _ _ => s'.spb = s.spb ∧ s'.spq = s.spq
    | .slice _ _ => s'.spb = s.spb ∧ s'.spq = s.spq
    | .sliceStep _ _ _ => s'.spb = s.spb ∧ s'.spq = s.spq
    | .deepcopy => s'.events = c.clean s.events ∧ s'.start = s.start ∧ s'.spb = s.spb ∧ s'.spq = s.spq
    | .reinit ev st b q => s'.events = c.clean ev ∧ s'.start = st ∧ s'.spb = b ∧ s'.spq = q
    | .reset => s'.events = [] ∧ s'.start = 0
    | .incRes _ _ => True := by
  cases op with
  | append e =>
    simp only [step] at h
    split at h
    · cases h; simp
    · cases h
  | setLength n fl =>
    simp only [step] at h; cases h
    cases fl
    · obtain ⟨_, _, a, b⟩ := setLength_fields_right c s n; exact ⟨a, b⟩
    · obtain ⟨_, _, a, b⟩ := setLength_fields_left c s n; exact ⟨a, b⟩
  | slice i j => obtain ⟨_, _, _, _, hb, hq⟩ := fromEventList_ok _ _ _ _ _ _ h; exact ⟨hb, hq⟩
  | sliceStep i j k =>
    simp only [step] at h
    split at h
    · cases h
    · obtain ⟨_, _, _, _, hb, hq⟩ := fromEventList_ok _ _ _ _ _ _ h; exact ⟨hb, hq⟩
  | deepcopy => obtain ⟨_, he, hs, _, hb, hq⟩ := fromEventList_ok _ _ _ _ _ _ h; exact ⟨he, hs, hb, hq⟩
  | reinit ev st b q => obtain ⟨_, he, hs, _, hb, hq⟩ := fromEventList_ok _ _ _ _ _ _ h; exact ⟨he, hs, hb, hq⟩
  | reset => simp only [step] at h; cases h; exact ⟨rfl, rfl⟩
  | incRes k f => trivial

theorem fromEventList_map_abs (c : Cls α) (evs : List α) (st b q : Int) :
    (fromEventList c evs st b q).map Seq.abs =
      if evs.all c.valid then .ok (st, c.clean evs) else .error .valueError := by
  unfold fromEventList
  by_cases h : evs.all c.valid = true
  · rw [if_pos h, if_pos h]; rfl
  · rw [if_neg h, if_neg h]; rfl

theorem refines_abstract' (c : Cls α) (s : Seq α) (op : Op α) (hi : Inv c s) (hok : OpOk c op) :
    (step c s op).map Seq.abs = astep c s.abs op := by
  cases op with
  | append e =>
    by_cases hv : c.valid e = true <;> simp [step, astep, Seq.abs, hv, Except.map]
  | setLength n fl =>
    have hn : 0 ≤ n := hok
    cases fl
    · obtain ⟨a, _, _, _⟩ := setLength_fields_right c s n
      simp only [step, Except.map, astep, Seq.abs, a, setLength_events_right c s n hn]
      rfl
    · obtain ⟨a, _, _, _⟩ := setLength_fields_left c s n
      have := hi.1
      simp only [step, Except.map, astep, Seq.abs, a, setLength_events_left c s n hn]
      congr 2
      omega
  | slice i j =>
    simp only [step, fromEventList_map_abs, astep, Seq.abs, pySlice]
    rfl
  | sliceStep i j k =>
    by_cases hk : k = 0
    · simp [step, astep, hk, Except.map]
    · simp only [step, astep, hk, if_false, fromEventList_map_abs, Seq.abs]
      rfl
  | incRes k f =>
    simp only [step, Except.map, astep, Seq.abs, incRes]
    refine congrArg (fun g => Except.ok (s.start * k, List.flatMap g s.events)) ?_
    funext e
    unfold fillOf pyRepeat
    have hk : 1 ≤ k := hok.1
    have : (k - 1).toNat = k.toNat - 1 := by omega
    cases c.fixedFill <;> cases f <;> simp [this]
  | deepcopy => simp only [step, fromEventList_map_abs, astep, Seq.abs]; rfl
  | reinit ev st b q => simp only [step, fromEventList_map_abs, astep]
  | reset => rfl

theorem melClean_length (l : List Int) : (melClean l).length = l.length := by
  induction l with
  | nil => rfl
  | cons e l ih => unfold melClean; split <;> simp [ih]

theorem melClean_mem (l : List Int) : ∀ e ∈ melClean l, e ∈ l ∨ e = MELODY_NO_EVENT := by
  induction l with
  | nil => simp [melClean]
  | cons a l ih =>
    unfold melClean
    split
    · intro e he
      simp only [List.mem_cons] at he ⊢
      rcases he with he | he
      · exact Or.inr he
      · rcases ih e he with h | h
        · exact Or.inl (Or.inr h)
        · exact Or.inr h
    · intro e he; exact Or.inl he

/-- pointwise: cleaning only ever turns a NOTE_OFF into NO_EVENT -/
theorem melClean_getElem (l : List Int) (k : Nat) :
    (melClean l)[k]? = l[k]? ∨ ((melClean l)[k]? = some MELODY_NO_EVENT ∧ l[k]? = some MELODY_NOTE_OFF) := by
  induction l generalizing k with
  | nil => simp [melClean]
  | cons a l ih =>
    unfold melClean
    split
    · rename_i h
      cases k with
      | zero => simp; rcases h with h | h <;> simp [h]
      | succ k => simpa using ih k
    · exact Or.inl rfl

theorem melSustainRev_cases (rev : List Int) :
    melSustainRev rev = none ∨ melSustainRev rev = some MELODY_NOTE_OFF := by
  induction rev with
  | nil => simp [melSustainRev]
  | cons e rest ih =>
    unfold melSustainRev
    split
    · simp
    · split
      · simp
      · exact ih

theorem melSustainRev_iff (rev : List Int) :
    melSustainRev rev = some MELODY_NOTE_OFF ↔
      ∃ pre p post, rev = pre ++ p :: post ∧ (∀ x ∈ pre, x = MELODY_NO_EVENT) ∧
        p ≠ MELODY_NO_EVENT ∧ p ≠ MELODY_NOTE_OFF := by
  induction rev with
  | nil => simp [melSustainRev]
  | cons e rest ih =>
    unfold melSustainRev
    by_cases h1 : e = MELODY_NOTE_OFF
    · simp only [h1, if_true]
      constructor
      · intro h; cases h
      · rintro ⟨pre, p, post, heq, hpre, hp1, hp2⟩
        cases pre with
        | nil => simp at heq; exact absurd heq.1.symm hp2
        | cons a pre =>
          simp at heq
          have := hpre a (by simp)
          rw [← heq.1] at this
          simp [MELODY_NOTE_OFF, MELODY_NO_EVENT] at this
    · by_cases h2 : e = MELODY_NO_EVENT
      · have h3 : ¬ (MELODY_NO_EVENT = MELODY_NOTE_OFF) := by decide
        subst h2
        simp only [h3, if_false, ne_eq, not_true_eq_false]
        rw [ih]
        constructor
        · rintro ⟨pre, p, post, heq, hpre, hp1, hp2⟩
          refine ⟨MELODY_NO_EVENT :: pre, p, post, by simp [heq], ?_, hp1, hp2⟩
          intro x hx; simp at hx; rcases hx with hx | hx
          · exact hx
          · exact hpre x hx
        · rintro ⟨pre, p, post, heq, hpre, hp1, hp2⟩
          cases pre with
          | nil => simp at heq; exact absurd heq.1.symm hp1
          | cons a pre =>
            simp at heq
            exact ⟨pre, p, post, heq.2, fun x hx => hpre x (by simp [hx]), hp1, hp2⟩
      · simp only [h1, if_false, ne_eq, h2, not_false_eq_true, if_true, true_iff]
        exact ⟨[], e, rest, by simp, by simp, h2, h1⟩

theorem melSustain_iff (evs : List Int) : melSustain evs = some MELODY_NOTE_OFF ↔ Sounding evs := by
  unfold melSustain Sounding
  rw [melSustainRev_iff]
  constructor
  · rintro ⟨pre, p, post, heq, hpre, hp1, hp2⟩
    refine ⟨post.reverse, p, pre.reverse, ?_, hp1, hp2, ?_⟩
    · have := congrArg List.reverse heq
      simpa using this
    · intro x hx; exact hpre x (by simpa using hx)
  · rintro ⟨pre, p, post, heq, hp1, hp2, hpost⟩
    refine ⟨post.reverse, p, pre.reverse, ?_, ?_, hp1, hp2⟩
    · rw [heq]; simp
    · intro x hx; exact hpost x (by simpa using hx)

theorem melSustain_none_iff (evs : List Int) : melSustain evs = none ↔ ¬ Sounding evs := by
  rw [← melSustain_iff]
  rcases melSustainRev_cases evs.reverse with h | h <;> simp [melSustain, h]

theorem melody_lawful : Lawful melodyCls where
  clean_length := melClean_length
  clean_valid := by
    intro l hl e he
    rcases melClean_mem l e he with h | h
    · exact hl e h
    · rw [h]; decide
  pad_valid := by decide
  fill_valid := by intro f hf; simp [melodyCls] at hf; rw [← hf]; decide
  sustain_valid := by
    intro l x hx
    simp only [melodyCls] at hx
    rcases melSustainRev_cases l.reverse with h | h
    · simp [melSustain, h] at hx
    · simp [melSustain, h] at hx; rw [← hx]; decide

theorem drum_lawful : Lawful drumCls where
  clean_length := by intro l; rfl
  clean_valid := by intro l hl e he; exact hl e he
  pad_valid := by decide
  fill_valid := by intro f hf; simp [drumCls] at hf; rw [← hf]; decide
  sustain_valid := by intro l x hx; simp [drumCls] at hx

theorem simple_lawful (pad : α) : Lawful (simpleCls pad) where
  clean_length := by intro l; rfl
  clean_valid := by intro l hl e he; exact hl e he
  pad_valid := rfl
  fill_valid := by intro f hf; simp [simpleCls] at hf
  sustain_valid := by intro l x hx; simp [simpleCls] at hx

theorem melody_events_in_range (s : Seq Int) (h : Inv melodyCls s) : ∀ e ∈ s.events, -2 ≤ e ∧ e ≤ 127 := by
  intro e he
  have := h.2 e he
  simp only [melodyCls, melValid, MIN_MELODY_EVENT, MAX_MELODY_EVENT, Bool.and_eq_true] at this
  exact ⟨of_decide_eq_true this.1, of_decide_eq_true this.2⟩

theorem step_append_ok (c : Cls α) (s s' : Seq α) (e : α) (h : step c s (.append e) = .ok s') :
    s' = { s with events := s.events ++ [e], stop := s.stop + 1 } := by
  simp only [step] at h
  split at h
  · cases h; rfl
  · cases h

theorem mkLeadSheet_ok (m : Seq Int) (c : Seq String) (l : LeadSheet) (h : mkLeadSheet m c = .ok l) :
    l = ⟨m, c⟩ ∧ m.events.length = c.events.length ∧ m.spb = c.spb ∧ m.spq = c.spq ∧ m.start = c.start ∧
      m.stop = c.stop := by
  unfold mkLeadSheet at h
  split at h
  · cases h
  · rename_i hn
    cases h
    simp only [not_or, Decidable.not_not] at hn
    exact ⟨rfl, hn.1, hn.2.1, hn.2.2.1, hn.2.2.2.1, hn.2.2.2.2⟩

theorem chord_lawful : Lawful chordCls := simple_lawful _

theorem bind_ok {β γ : Type} (x : Except Err β) (f : β → Except Err γ) (r : γ) (h : (x >>= f) = .ok r) :
    ∃ b, x = .ok b ∧ f b = .ok r := by
  cases x with
  | error e => simp [bind, Except.bind] at h
  | ok b => exact ⟨b, rfl, h⟩

theorem lead_inv_step' (l l' : LeadSheet) (op : LOp) (hi : LInv l) (hok : LOpOk op) (h : lstep l op = .ok l') :
    LInv l' := by
  obtain ⟨im, ic, hlen, hst, hsp, hb, hq⟩ := hi
  cases op with
  | append m c =>
    simp only [lstep] at h
    obtain ⟨m', hm, h⟩ := bind_ok _ _ _ h
    obtain ⟨c', hc, h⟩ := bind_ok _ _ _ h
    cases h
    have im' := step_inv _ melody_lawful _ _ (.append m) im trivial hm
    have ic' := step_inv _ chord_lawful _ _ (.append c) ic trivial hc
    rw [step_append_ok _ _ _ _ hm] at im' ⊢
    rw [step_append_ok _ _ _ _ hc] at ic' ⊢
    exact ⟨im', ic', by simp [hlen], hst, by simp [hsp], hb, hq⟩
  | setLength n =>
    simp only [lstep] at h; cases h
    have hn : 0 ≤ n := hok
    obtain ⟨a1, a2, a3, a4⟩ := setLength_fields_right melodyCls l.melody n
    obtain ⟨b1, b2, b3, b4⟩ := setLength_fields_right chordCls l.chords n
    refine ⟨setLength_inv _ melody_lawful _ _ _ hn im, setLength_inv _ chord_lawful _ _ _ hn ic, ?_, ?_, ?_, ?_, ?_⟩
    · simp only [setLength_length _ _ _ _ hn]
    · simp only [a1, b1, hst]
    · simp only [a2, b2, hst]
    · simp only [a3, b3, hb]
    · simp only [a4, b4, hq]
  | slice i j =>
    simp only [lstep] at h
    obtain ⟨m', hm, h⟩ := bind_ok _ _ _ h
    obtain ⟨c', hc, h⟩ := bind_ok _ _ _ h
    obtain ⟨e, a1, a2, a3, a4, a5⟩ := mkLeadSheet_ok _ _ _ h
    subst e
    exact ⟨step_inv _ melody_lawful _ _ (.slice i j) im trivial hm, step_inv _ chord_lawful _ _ (.slice i j) ic trivial hc, a1, a4, a5, a2, a3⟩
  | sliceStep i j k =>
    simp only [lstep] at h
    obtain ⟨m', hm, h⟩ := bind_ok _ _ _ h
    obtain ⟨c', hc, h⟩ := bind_ok _ _ _ h
    obtain ⟨e, a1, a2, a3, a4, a5⟩ := mkLeadSheet_ok _ _ _ h
    subst e
    exact ⟨step_inv _ melody_lawful _ _ (.sliceStep i j k) im trivial hm, step_inv _ chord_lawful _ _ (.sliceStep i j k) ic trivial hc, a1, a4, a5, a2, a3⟩
  | incRes k =>
    simp only [lstep] at h; cases h
    have hk : 1 ≤ k := hok
    refine ⟨incRes_inv _ melody_lawful _ k none ⟨hk, by simp [melodyCls]⟩ im,
      incRes_inv _ chord_lawful _ k none ⟨hk, by simp⟩ ic, ?_, ?_, ?_, ?_, ?_⟩
    · simp only [incRes_length _ _ _ _ hk, hlen]
    · simp only [incRes, hst]
    · simp only [incRes, hsp]
    · simp only [incRes, hb]
    · simp only [incRes, hq]
  | deepcopy =>
    simp only [lstep] at h
    obtain ⟨m', hm, h⟩ := bind_ok _ _ _ h
    obtain ⟨c', hc, h⟩ := bind_ok _ _ _ h
    obtain ⟨e, a1, a2, a3, a4, a5⟩ := mkLeadSheet_ok _ _ _ h
    subst e
    exact ⟨step_inv _ melody_lawful _ _ .deepcopy im trivial hm, step_inv _ chord_lawful _ _ .deepcopy ic trivial hc, a1, a4, a5, a2, a3⟩
  | init mev ms mb mq cev cs cb cq =>
    simp only [lstep] at h
    obtain ⟨m', hm, h⟩ := bind_ok _ _ _ h
    obtain ⟨c', hc, h⟩ := bind_ok _ _ _ h
    obtain ⟨e, a1, a2, a3, a4, a5⟩ := mkLeadSheet_ok _ _ _ h
    subst e
    exact ⟨fromEventList_inv _ melody_lawful _ _ _ _ _ hm, fromEventList_inv _ chord_lawful _ _ _ _ _ hc, a1, a4, a5, a2, a3⟩
  | reset =>
    simp only [lstep] at h; cases h
    exact ⟨⟨by simp [Seq.empty], by simp [Seq.empty]⟩, ⟨by simp [Seq.empty], by simp [Seq.empty]⟩, rfl, rfl, rfl, rfl, rfl⟩

theorem fromEventList_of_valid (c : Cls α) (evs : List α) (st b q : Int) (hv : ∀ e ∈ evs, c.valid e = true) :
    fromEventList c evs st b q = .ok ⟨c.clean evs, st, st + ((c.clean evs).length : Int), b, q⟩ := by
  have : evs.all c.valid = true := by simpa using hv
  simp [fromEventList, this]

theorem pySlice_mem (l : List α) (i j : Option Int) : ∀ e ∈ pySlice l i j, e ∈ l := by
  intro e he
  exact List.mem_of_mem_drop (List.mem_of_mem_take he)

theorem lead_slice_ok' (l : LeadSheet) (i j : Option Int) (hi : LInv l) :
    ∃ l', lstep l (.slice i j) = .ok l' ∧
      l'.melody.start = l.melody.start + (sliceLo l.len i : Int) ∧
      l'.len = sliceHi l.len j - sliceLo l.len i ∧
      l'.chords.events = pySlice l.chords.events i j ∧
      l'.melody.events = melClean (pySlice l.melody.events i j) := by
  obtain ⟨im, ic, hlen, hst, hsp, hb, hq⟩ := hi
  have hm := fromEventList_of_valid melodyCls (pySlice l.melody.events i j)
    (l.melody.start + (sliceLo l.melody.events.length i : Int)) l.melody.spb l.melody.spq
    (fun e he => im.2 e (pySlice_mem _ _ _ e he))
  have hc := fromEventList_of_valid chordCls (pySlice l.chords.events i j)
    (l.chords.start + (sliceLo l.chords.events.length i : Int)) l.chords.spb l.chords.spq
    (fun e he => ic.2 e (pySlice_mem _ _ _ e he))
  have hcl : (melodyCls.clean (pySlice l.melody.events i j)).length = (pySlice l.chords.events i j).length := by
    rw [melody_lawful.clean_length, pySlice_length, pySlice_length, hlen]
  refine ⟨⟨⟨melodyCls.clean (pySlice l.melody.events i j),
      l.melody.start + (sliceLo l.melody.events.length i : Int),
      l.melody.start + (sliceLo l.melody.events.length i : Int) + ((melodyCls.clean (pySlice l.melody.events i j)).length : Int),
      l.melody.spb, l.melody.spq⟩,
    ⟨chordCls.clean (pySlice l.chords.events i j),
      l.chords.start + (sliceLo l.chords.events.length i : Int),
      l.chords.start + (sliceLo l.chords.events.length i : Int) + ((chordCls.clean (pySlice l.chords.events i j)).length : Int),
      l.chords.spb, l.chords.spq⟩⟩, ?_, ?_, ?_, ?_, ?_⟩
  · simp only [lstep, step, hm, hc, bind, Except.bind]
    unfold mkLeadSheet
    have : chordCls.clean (pySlice l.chords.events i j) = pySlice l.chords.events i j := rfl
    rw [if_neg]
    simp only [this, hcl, hlen, hst, hb, hq, not_or, Decidable.not_not, and_self]
  · simp [LeadSheet.len]
  · simp only [LeadSheet.len, melody_lawful.clean_length, pySlice_length]
  · rfl
  · rfl

theorem lead_inv_reachable' (ops : List LOp) (l : LeadSheet) (hi : LInv l) (hok : ∀ op ∈ ops, LOpOk op) :
    LInv (lrunSkip l ops) := by
  induction ops generalizing l with
  | nil => exact hi
  | cons op ops ih =>
    simp only [lrunSkip, List.foldl_cons]
    apply ih
    · unfold lstepSkip
      cases hs : lstep l op with
      | ok l' => exact lead_inv_step' l l' op hi (hok op (by simp)) hs
      | error e => exact hi
    · intro o ho; exact hok o (by simp [ho])

theorem lead_obs_consistent' (l : LeadSheet) (hi : LInv l) :
    (l.len : Int) = l.melody.stop - l.melody.start ∧ l.iter.length = l.len ∧
    l.steps.length = l.len ∧ (∀ k, k < l.len → l.steps[k]? = some (l.melody.start + k)) ∧
    (∀ k (hk : k < l.iter.length), l.index (k : Int) = .ok l.iter[k] ∧ l.index ((k : Int) - l.len) = .ok l.iter[k]) ∧
    (∀ i : Int, (l.len : Int) ≤ i ∨ i < -(l.len : Int) → l.index i = .error .indexError) ∧
    (∀ e ∈ l.iter, -2 ≤ e.1 ∧ e.1 ≤ 127) := by
  obtain ⟨im, ic, hlen, hst, hsp, hb, hq⟩ := hi
  obtain ⟨o1, o2, o3, o4, o5, o6⟩ := obs_consistent melodyCls l.melody im
  have hzl : l.iter.length = l.melody.events.length := by simp [LeadSheet.iter, hlen]
  refine ⟨o1, hzl, o3, o4, ?_, ?_, ?_⟩
  · intro k hk
    have hkm : k < l.melody.events.length := by omega
    have hkc : k < l.chords.events.length := by omega
    obtain ⟨m1, m2⟩ := (pyIndex_spec l.melody.events).1 k hkm
    obtain ⟨c1, c2⟩ := (pyIndex_spec l.chords.events).1 k hkc
    have hz : l.iter[k] = (l.melody.events[k], l.chords.events[k]) := by simp [LeadSheet.iter]
    constructor
    · simp only [LeadSheet.index, m1, c1, hz, bind, Except.bind, pure, Except.pure]
    · have c2' : pyIndex l.chords.events ((k : Int) - l.melody.events.length) = .ok l.chords.events[k] := by
        rw [hlen]; exact c2
      simp only [LeadSheet.index, LeadSheet.len, m2, c2', hz, bind, Except.bind, pure, Except.pure]
  · intro i hi'
    simp only [LeadSheet.index, LeadSheet.len] at *
    rw [(pyIndex_spec l.melody.events).2 i hi']
    rfl
  · intro e he
    have := List.of_mem_zip he
    exact melody_events_in_range l.melody im e.1 this.1

def NonNeg (evs : List PEvent) : Prop := ∀ e ∈ evs, isShift e = true → 0 ≤ e.val

theorem numStepsOf_append (a b : List PEvent) : numStepsOf (a ++ b) = numStepsOf a + numStepsOf b := by
  induction a with
  | nil => simp [numStepsOf]
  | cons e a ih => simp [numStepsOf, ih]; omega

theorem numStepsOf_reverse (a : List PEvent) : numStepsOf a.reverse = numStepsOf a := by
  induction a with
  | nil => rfl
  | cons e a ih => simp [numStepsOf_append, numStepsOf, ih]; omega

theorem numStepsOf_nonneg (a : List PEvent) (h : NonNeg a) : 0 ≤ numStepsOf a := by
  induction a with
  | nil => simp [numStepsOf]
  | cons e a ih =>
    have h1 := ih (fun x hx => h x (by simp [hx]))
    have h2 := h e (by simp)
    simp only [numStepsOf]
    split
    · rename_i hs; have := h2 hs; omega
    · omega

theorem numStepsOf_replicate (k : Nat) (v : Int) :
    numStepsOf (List.replicate k ⟨TIME_SHIFT, v⟩) = k * v := by
  induction k with
  | zero => simp [numStepsOf]
  | succ k ih =>
    simp only [List.replicate_succ, numStepsOf, ih, isShift]
    simp
    rw [Int.add_mul]; omega

theorem mkEvent_shift (v : Int) (h : 0 ≤ v) : mkEvent TIME_SHIFT v = .ok ⟨TIME_SHIFT, v⟩ := by
  simp [mkEvent, TIME_SHIFT, NOTE_ON, NOTE_OFF, h]

theorem isShift_mk (v : Int) : isShift ⟨TIME_SHIFT, v⟩ = true := by simp [isShift]

/-- what `appendTail` produces for a usable `max_shift_steps` and a non-negative count -/
theorem appendTail_spec (mx n : Int) (hmx : 1 ≤ mx) (hn : 0 ≤ n) :
    ∃ tl, appendTail mx n = .ok tl ∧ numStepsOf tl = n ∧
      ∀ e ∈ tl, isShift e = true ∧ 1 ≤ e.val ∧ e.val ≤ mx := by
  unfold appendTail
  by_cases h1 : n < mx
  · simp only [h1, if_true]
    by_cases h2 : n > 0
    · simp only [h2, if_true, mkEvent_shift n hn]
      refine ⟨[⟨TIME_SHIFT, n⟩], rfl, by simp [numStepsOf, isShift], ?_⟩
      intro e he; simp at he; subst he; exact ⟨isShift_mk n, by dsimp only; omega, by dsimp only; omega⟩
    · simp only [h2, if_false]
      exact ⟨[], rfl, by simp [numStepsOf]; omega, by simp⟩
  · have h3 : ¬ mx ≤ 0 := by omega
    simp only [h1, if_false, h3, mkEvent_shift mx (by omega)]
    have hq : 0 ≤ n / mx := Int.ediv_nonneg hn (by omega)
    have hr0 : 0 ≤ n % mx := Int.emod_nonneg n (by omega)
    have hr1 : n % mx < mx := Int.emod_lt_of_pos n (by omega)
    have hdm : mx * (n / mx) + n % mx = n := Int.mul_ediv_add_emod n mx
    have hr : n - n / mx * mx = n % mx := by rw [Int.mul_comm] at hdm; omega
    have hqc : ((n / mx).toNat : Int) = n / mx := Int.toNat_of_nonneg hq
    rw [hr]
    by_cases h4 : n % mx > 0
    · simp only [h4, if_true, mkEvent_shift _ hr0]
      refine ⟨_, rfl, ?_, ?_⟩
      · rw [numStepsOf_append, numStepsOf_replicate, hqc]
        simp [numStepsOf, isShift]
        rw [Int.mul_comm] at hdm; omega
      · intro e he
        simp only [List.mem_append, List.mem_replicate, List.mem_singleton] at he
        rcases he with he | he
        · rw [he.2]; exact ⟨isShift_mk mx, by dsimp only; omega, by dsimp only; omega⟩
        · rw [he]; exact ⟨isShift_mk _, by dsimp only; omega, by dsimp only; omega⟩
    · simp only [h4, if_false]
      refine ⟨_, rfl, ?_, ?_⟩
      · rw [numStepsOf_replicate, hqc]
        rw [Int.mul_comm] at hdm; omega
      · intro e he
        simp only [List.mem_replicate] at he
        rw [he.2]; exact ⟨isShift_mk mx, by dsimp only; omega, by dsimp only; omega⟩

theorem NonNeg_of_ShiftsOk (mx : Int) (evs : List PEvent) (h : ShiftsOk mx evs) : NonNeg evs :=
  fun e he hs => by have := h e he hs; omega

/-- `_append_steps` on the reversed list -/
theorem appendStepsRev_spec (mx : Int) (rev : List PEvent) (n : Int) (hmx : 1 ≤ mx) (hn : 0 ≤ n)
    (hnn : NonNeg rev) :
    ∃ out, appendStepsRev mx rev n = .ok out ∧ numStepsOf out = numStepsOf rev + n ∧ NonNeg out ∧
      (ShiftsOk mx rev → ShiftsOk mx out) ∧ (∃ tl, out = rev.reverse.dropLast ++ tl) ∧
      rev.length ≤ out.length := by
  cases rev with
  | nil =>
    obtain ⟨tl, h1, h2, h3⟩ := appendTail_spec mx n hmx hn
    refine ⟨tl, by simp [appendStepsRev, h1], by simp [numStepsOf, h2], ?_, ?_, ⟨tl, by simp⟩, by simp⟩
    · intro e he _; have := h3 e he; omega
    · intro _ e he _; have := h3 e he; omega
  | cons last before =>
    by_cases hc : isShift last = true ∧ last.val < mx
    · have hl0 : 0 ≤ last.val := hnn last (by simp) hc.1
      have ha : 0 ≤ min n (mx - last.val) := by omega
      obtain ⟨tl, h1, h2, h3⟩ := appendTail_spec mx (n - min n (mx - last.val)) hmx (by omega)
      refine ⟨before.reverse ++ [⟨TIME_SHIFT, last.val + min n (mx - last.val)⟩] ++ tl, ?_, ?_, ?_, ?_, ?_, ?_⟩
      · simp only [appendStepsRev, hc, and_self, if_true, mkEvent_shift _ (show 0 ≤ last.val + min n (mx - last.val) by omega), h1]
        rfl
      · simp only [numStepsOf_append, numStepsOf_reverse, numStepsOf, h2, isShift_mk, hc.1, if_true]
        omega
      · intro e he hs
        simp only [List.mem_append, List.mem_reverse, List.mem_singleton] at he
        rcases he with (he | he) | he
        · exact hnn e (by simp [he]) hs
        · rw [he]; dsimp only; omega
        · have := h3 e he; omega
      · intro hok e he hs
        simp only [List.mem_append, List.mem_reverse, List.mem_singleton] at he
        rcases he with (he | he) | he
        · exact hok e (by simp [he]) hs
        · have := hok last (by simp) hc.1
          rw [he]; dsimp only; omega
        · have := h3 e he; omega
      · exact ⟨[⟨TIME_SHIFT, last.val + min n (mx - last.val)⟩] ++ tl, by simp⟩
      · simp
    · obtain ⟨tl, h1, h2, h3⟩ := appendTail_spec mx n hmx hn
      refine ⟨(last :: before).reverse ++ tl, ?_, ?_, ?_, ?_, ?_, ?_⟩
      · simp only [appendStepsRev, hc, if_false, h1]; rfl
      · rw [numStepsOf_append, numStepsOf_reverse, h2]
      · intro e he hs
        simp only [List.mem_append, List.mem_reverse] at he
        rcases he with he | he
        · exact hnn e he hs
        · have := h3 e he; omega
      · intro hok e he hs
        simp only [List.mem_append, List.mem_reverse] at he
        rcases he with he | he
        · exact hok e he hs
        · have := h3 e he; omega
      · refine ⟨[last] ++ tl, ?_⟩
        simp
      · simp

theorem trimRev_spec (mx n : Int) (rev : List PEvent) (t : Int) (ht : t ≤ n) (hnn : NonNeg rev) :
    ∃ out, trimRev rev t n = .ok out ∧
      numStepsOf out = numStepsOf rev - min (n - t) (numStepsOf rev) ∧ NonNeg out ∧
      (ShiftsOk mx rev → ShiftsOk mx out) ∧ out.tail <:+ rev ∧ out.length ≤ rev.length := by
  induction rev generalizing t with
  | nil => exact ⟨[], rfl, by simp [numStepsOf]; omega, hnn, fun h => h, by simp, by simp⟩
  | cons e rest ih =>
    have hnr : NonNeg rest := fun x hx => hnn x (by simp [hx])
    have h0 := numStepsOf_nonneg rest hnr
    unfold trimRev
    by_cases h1 : t < n
    · simp only [h1, if_true]
      by_cases h2 : isShift e = true
      · have hv := hnn e (by simp) h2
        simp only [h2, if_true]
        by_cases h3 : t + e.val > n
        · simp only [h3, if_true, mkEvent_shift (e.val - n + t) (by omega)]
          refine ⟨⟨TIME_SHIFT, e.val - n + t⟩ :: rest, rfl, ?_, ?_, ?_, ?_, by simp⟩
          · simp only [numStepsOf, isShift_mk, h2, if_true]; omega
          · intro x hx hs
            simp only [List.mem_cons] at hx
            rcases hx with hx | hx
            · rw [hx]; dsimp only; omega
            · exact hnr x hx hs
          · intro hok x hx hs
            simp only [List.mem_cons] at hx
            rcases hx with hx | hx
            · have := hok e (by simp) h2
              rw [hx]; dsimp only; omega
            · exact hok x (by simp [hx]) hs
          · simp
        · simp only [h3, if_false]
          obtain ⟨out, a, b, c, d, f, g⟩ := ih (t + e.val) (by omega) hnr
          refine ⟨out, a, ?_, c, fun hok => d (fun x hx => hok x (by simp [hx])), ?_, by simp; omega⟩
          · simp only [numStepsOf, h2, if_true]; omega
          · exact f.trans (List.suffix_cons e rest)
      · simp only [h2]
        obtain ⟨out, a, b, c, d, f, g⟩ := ih t ht hnr
        refine ⟨out, by simpa using a, ?_, c, fun hok => d (fun x hx => hok x (by simp [hx])), ?_, by simp; omega⟩
        · simp only [numStepsOf, h2]; simp; omega
        · exact f.trans (List.suffix_cons e rest)
    · simp only [h1, if_false]
      have := numStepsOf_nonneg _ hnn
      refine ⟨e :: rest, rfl, by omega, hnn, fun h => h, by simp, by simp⟩

theorem NonNeg_reverse (evs : List PEvent) : NonNeg evs.reverse ↔ NonNeg evs := by
  simp [NonNeg]

theorem ShiftsOk_reverse (mx : Int) (evs : List PEvent) : ShiftsOk mx evs.reverse ↔ ShiftsOk mx evs := by
  simp [ShiftsOk]

theorem dropLast_reverse_eq (l : List PEvent) : l.reverse.dropLast = l.tail.reverse := by
  cases l with
  | nil => rfl
  | cons a l => simp

theorem perf_append_steps' (p : Perf) (n : Int) (hi : PInv p) (hn : 0 ≤ n) :
    ∃ p', appendSteps p n = .ok p' ∧ p'.numSteps = p.numSteps + n ∧ PInv p' ∧
      (ShiftsOk p.maxShift p.events → ShiftsOk p'.maxShift p'.events) ∧
      p'.start = p.start ∧ p'.maxShift = p.maxShift ∧
      p.events.dropLast <+: p'.events ∧ p.events.length ≤ p'.events.length := by
  obtain ⟨hmx, hnn⟩ := hi
  obtain ⟨out, a, b, c, d, ⟨tl, f⟩, g⟩ :=
    appendStepsRev_spec p.maxShift p.events.reverse n hmx hn ((NonNeg_reverse _).2 hnn)
  refine ⟨{ p with events := out }, ?_, ?_, ⟨hmx, c⟩, ?_, rfl, rfl, ?_, ?_⟩
  · simp [appendSteps, a]; rfl
  · simp only [Perf.numSteps, b, numStepsOf_reverse]
  · intro hok; exact d ((ShiftsOk_reverse _ _).2 hok)
  · rw [f, List.reverse_reverse]; exact List.prefix_append _ _
  · simpa using g

theorem perf_trim_steps' (p : Perf) (n : Int) (hi : PInv p) (hn : 0 ≤ n) :
    ∃ p', trimSteps p n = .ok p' ∧ p'.numSteps = p.numSteps - min n p.numSteps ∧ PInv p' ∧
      (ShiftsOk p.maxShift p.events → ShiftsOk p'.maxShift p'.events) ∧
      p'.start = p.start ∧ p'.maxShift = p.maxShift ∧
      p'.events.dropLast <+: p.events ∧ p'.events.length ≤ p.events.length := by
  obtain ⟨hmx, hnn⟩ := hi
  obtain ⟨out, a, b, c, d, f, g⟩ :=
    trimRev_spec p.maxShift n p.events.reverse 0 hn ((NonNeg_reverse _).2 hnn)
  refine ⟨{ p with events := out.reverse }, ?_, ?_, ⟨hmx, (NonNeg_reverse _).2 c⟩, ?_, rfl, rfl, ?_, ?_⟩
  · simp [trimSteps, a]; rfl
  · simp only [Perf.numSteps, numStepsOf_reverse, b]; simp
  · intro hok; exact (ShiftsOk_reverse _ _).2 (d ((ShiftsOk_reverse _ _).2 hok))
  · rw [dropLast_reverse_eq]
    have := List.reverse_prefix.2 f
    simpa using this
  · simpa using g

theorem perf_set_length' (p : Perf) (n : Int) (hi : PInv p) (hn : 0 ≤ n) :
    ∃ p', pstep p (.setLength n false) = .ok p' ∧ p'.numSteps = n ∧ PInv p' ∧
      (ShiftsOk p.maxShift p.events → ShiftsOk p'.maxShift p'.events) ∧
      p'.start = p.start ∧ p'.maxShift = p.maxShift ∧
      (p.numSteps ≤ n → p.events.dropLast <+: p'.events ∧ p.events.length ≤ p'.events.length) ∧
      (n ≤ p.numSteps → p'.events.dropLast <+: p.events ∧ p'.events.length ≤ p.events.length) ∧
      (n = p.numSteps → p' = p) := by
  have h0 : 0 ≤ p.numSteps := numStepsOf_nonneg _ hi.2
  simp only [pstep, perfSetLengthCore, Bool.false_eq_true, if_false]
  by_cases h1 : numStepsOf p.events < n
  · obtain ⟨p', a, b, c, d, e, f, g, h⟩ := perf_append_steps' p (n - numStepsOf p.events) hi (by omega)
    have hb : numStepsOf p'.events = n := by simp only [Perf.numSteps] at b; omega
    refine ⟨p', by simp [h1, a, hb, bind, Except.bind, pure, Except.pure], hb, c, d, e, f, fun _ => ⟨g, h⟩, ?_, ?_⟩
    · intro h2; simp only [Perf.numSteps] at h2; omega
    · intro h2; simp only [Perf.numSteps] at h2; omega
  · by_cases h2 : numStepsOf p.events > n
    · obtain ⟨p', a, b, c, d, e, f, g, h⟩ := perf_trim_steps' p (numStepsOf p.events - n) hi (by omega)
      have hb : numStepsOf p'.events = n := by simp only [Perf.numSteps] at b h0; omega
      refine ⟨p', by simp [h1, h2, a, hb, bind, Except.bind, pure, Except.pure], hb, c, d, e, f, ?_, fun _ => ⟨g, h⟩, ?_⟩
      · intro h3; simp only [Perf.numSteps] at h3; omega
      · intro h3; simp only [Perf.numSteps] at h3; omega
    · have hb : numStepsOf p.events = n := by omega
      refine ⟨p, by simp [hb, bind, Except.bind, pure, Except.pure], hb, hi, fun h => h, rfl, rfl, ?_, ?_, fun _ => rfl⟩
      · intro _; exact ⟨List.dropLast_prefix _, Nat.le_refl _⟩
      · intro _; exact ⟨List.dropLast_prefix _, Nat.le_refl _⟩

theorem mkEvent_ok (ty : Nat) (v : Int) (e : PEvent) (h : mkEvent ty v = .ok e) :
    e = ⟨ty, v⟩ ∧ (ty = TIME_SHIFT → 0 ≤ v) := by
  unfold mkEvent at h
  by_cases h1 : ty = NOTE_ON ∨ ty = NOTE_OFF
  · simp only [h1, if_true] at h
    split at h
    · cases h; refine ⟨rfl, ?_⟩; intro ht; rcases h1 with h1 | h1 <;> simp [ht, TIME_SHIFT, NOTE_ON, NOTE_OFF] at h1
    · cases h
  · simp only [h1, if_false] at h
    by_cases h2 : ty = TIME_SHIFT
    · simp only [h2, if_true] at h
      split at h
      · rename_i hv; cases h; exact ⟨by rw [h2], fun _ => hv⟩
      · cases h
    · simp only [h2, if_false] at h
      split at h
      · split at h
        · cases h; exact ⟨rfl, fun ht => absurd ht h2⟩
        · cases h
      · split at h
        · split at h
          · cases h; exact ⟨rfl, fun ht => absurd ht h2⟩
          · cases h
        · cases h

theorem perf_setLength_core (p p' : Perf) (n : Int) (h : pstep p (.setLength n false) = .ok p') :
    perfSetLengthCore p n = .ok p' := by
  simp only [pstep, Bool.false_eq_true, if_false] at h
  cases hc : perfSetLengthCore p n with
  | error e => simp [hc, bind, Except.bind] at h
  | ok q =>
    simp only [hc, bind, Except.bind] at h
    split at h
    · cases h; rfl
    · cases h

theorem perf_inv_step' (p p' : Perf) (op : POp) (hi : PInv p) (hok : POpOk op) (h : pstep p op = .ok p') :
    PInv p' ∧ p'.start = p.start ∧ p'.maxShift = p.maxShift ∧
      (ShiftsOk p.maxShift p.events → POpShiftOk p.maxShift op → ShiftsOk p'.maxShift p'.events) := by
  cases op with
  | append ty v =>
    simp only [pstep, bind, Except.bind] at h
    cases hm : mkEvent ty v with
    | error e => simp [hm] at h
    | ok e =>
      simp only [hm, pure, Except.pure] at h
      cases h
      obtain ⟨he, hv⟩ := mkEvent_ok ty v e hm
      refine ⟨⟨hi.1, ?_⟩, rfl, rfl, ?_⟩
      · intro x hx hs
        simp only [List.mem_append, List.mem_singleton] at hx
        rcases hx with hx | hx
        · exact hi.2 x hx hs
        · subst hx; subst he
          exact hv (by simpa [isShift] using hs)
      · intro hsh hop x hx hs
        simp only [List.mem_append, List.mem_singleton] at hx
        rcases hx with hx | hx
        · exact hsh x hx hs
        · subst hx; subst he
          exact hop (by simpa [isShift] using hs)
  | appendBad => simp [pstep] at h
  | setLength n fl =>
    cases fl with
    | true => simp [pstep] at h
    | false =>
      obtain ⟨q, a, _, c, d, e, f, _⟩ := perf_set_length' p n hi hok
      rw [a] at h; cases h
      exact ⟨c, e, f, fun hs _ => d hs⟩
  | truncate n =>
    simp only [pstep] at h; cases h
    refine ⟨⟨hi.1, fun x hx hs => hi.2 x (pySlice_mem _ _ _ x hx) hs⟩, rfl, rfl, ?_⟩
    intro hsh _ x hx hs
    exact hsh x (pySlice_mem _ _ _ x hx) hs
  | appendSteps n =>
    obtain ⟨q, a, _, c, d, e, f, _⟩ := perf_append_steps' p n hi hok
    simp only [pstep] at h; rw [a] at h; cases h
    exact ⟨c, e, f, fun hs _ => d hs⟩
  | trimSteps n =>
    obtain ⟨q, a, _, c, d, e, f, _⟩ := perf_trim_steps' p n hi hok
    simp only [pstep] at h; rw [a] at h; cases h
    exact ⟨c, e, f, fun hs _ => d hs⟩
  | deepcopy => simp only [pstep] at h; cases h; exact ⟨hi, rfl, rfl, fun hs _ => hs⟩

theorem perf_stepSkip_inv (p : Perf) (op : POp) (hi : PInv p) (hok : POpOk op) :
    PInv (pstepSkip p op) ∧ (pstepSkip p op).start = p.start ∧ (pstepSkip p op).maxShift = p.maxShift ∧
      (ShiftsOk p.maxShift p.events → POpShiftOk p.maxShift op →
        ShiftsOk (pstepSkip p op).maxShift (pstepSkip p op).events) := by
  have key : ∀ q, pstepSkip p op = q → (∃ p', pstep p op = .ok p' ∧ q = p') ∨ q = p := by
    intro q hq
    unfold pstepSkip at hq
    split at hq
    · rename_i n
      obtain ⟨p', a, _⟩ := perf_set_length' p n hi hok
      rw [perf_setLength_core p p' n a] at hq
      exact Or.inl ⟨p', a, hq.symm⟩
    · split at hq
      · rename_i p' hp; exact Or.inl ⟨p', hp, hq.symm⟩
      · exact Or.inr hq.symm
  rcases key _ rfl with ⟨p', hp, he⟩ | he
  · rw [he]; exact perf_inv_step' p p' op hi hok hp
  · rw [he]; exact ⟨hi, rfl, rfl, fun hs _ => hs⟩

theorem perf_inv_reachable' (ops : List POp) (p : Perf) (hi : PInv p) (hok : ∀ op ∈ ops, POpOk op) :
    PInv (prunSkip p ops) ∧ (prunSkip p ops).start = p.start ∧ (prunSkip p ops).maxShift = p.maxShift ∧
      (ShiftsOk p.maxShift p.events → (∀ op ∈ ops, POpShiftOk p.maxShift op) →
        ShiftsOk p.maxShift (prunSkip p ops).events) := by
  induction ops generalizing p with
  | nil => exact ⟨hi, rfl, rfl, fun h _ => h⟩
  | cons op ops ih =>
    obtain ⟨a, b, c, d⟩ := perf_stepSkip_inv p op hi (hok op (by simp))
    obtain ⟨a', b', c', d'⟩ := ih (pstepSkip p op) a (fun o ho => hok o (by simp [ho]))
    simp only [prunSkip, List.foldl_cons] at *
    refine ⟨a', by rw [b', b], by rw [c', c], ?_⟩
    intro hs hop
    rw [c] at d d'
    exact d' (d hs (hop op (by simp))) (fun o ho => hop o (by simp [ho]))

theorem stepsFrom_length (st : Int) (evs : List PEvent) : (stepsFrom st evs).length = evs.length := by
  induction evs generalizing st with
  | nil => rfl
  | cons e evs ih => simp [stepsFrom, ih]

theorem stepsFrom_getElem (st : Int) (evs : List PEvent) (k : Nat) (hk : k < evs.length) :
    (stepsFrom st evs)[k]? = some (st + numStepsOf (evs.take k)) := by
  induction evs generalizing st k with
  | nil => simp at hk
  | cons e evs ih =>
    cases k with
    | zero => simp [stepsFrom, numStepsOf]
    | succ k =>
      simp only [stepsFrom, List.getElem?_cons_succ, List.take_succ_cons, numStepsOf]
      rw [ih _ k (by simpa using hk)]
      split <;> simp <;> omega

theorem stepsFrom_mono (st : Int) (evs : List PEvent) (h : NonNeg evs) :
    (∀ x ∈ stepsFrom st evs, st ≤ x) ∧ (stepsFrom st evs).Pairwise (· ≤ ·) := by
  induction evs generalizing st with
  | nil => simp [stepsFrom]
  | cons e evs ih =>
    have hnn : NonNeg evs := fun x hx => h x (by simp [hx])
    simp only [stepsFrom]
    split
    · rename_i hs
      have hv := h e (by simp) hs
      obtain ⟨a, b⟩ := ih (st + e.val) hnn
      refine ⟨?_, ?_⟩
      · intro x hx; simp only [List.mem_cons] at hx
        rcases hx with hx | hx
        · omega
        · have := a x hx; omega
      · rw [List.pairwise_cons]; exact ⟨fun x hx => by have := a x hx; omega, b⟩
    · obtain ⟨a, b⟩ := ih st hnn
      refine ⟨?_, ?_⟩
      · intro x hx; simp only [List.mem_cons] at hx
        rcases hx with hx | hx
        · omega
        · exact a x hx
      · rw [List.pairwise_cons]; exact ⟨a, b⟩

/-! ### pianoroll -/
theorem rollSetLengthCore_events (r : Roll) (n : Int) (h : 0 ≤ n) :
    (rollSetLengthCore r n).events =
      if n.toNat ≤ r.events.length then r.events.take n.toNat
      else r.events ++ List.replicate (n.toNat - r.events.length) [] := by
  unfold rollSetLengthCore
  by_cases h1 : (r.events.length : Int) < n
  · have h2 : ¬ n.toNat ≤ r.events.length := by omega
    have h3 : (n - (r.events.length : Int)).toNat = n.toNat - r.events.length := by omega
    simp only [h1, if_true, h2, if_false, pyRepeat, h3]
  · by_cases h2 : (r.events.length : Int) > n
    · have h3 : n.toNat ≤ r.events.length := by omega
      simp only [h1, if_false, h2, if_true, h3, pyDelSlice, sliceLo, sliceHi, clampIdx_of_nonneg _ _ h]
      simp [Nat.min_eq_left h3]
      omega
    · have h3 : n.toNat = r.events.length := by omega
      simp [h1, h2, h3]

theorem roll_set_length' (r : Roll) (n : Int) (h : 0 ≤ n) :
    ∃ r', rstep r (.setLength n false) = .ok r' ∧ r' = rstepSkip r (.setLength n false) ∧
      r'.events.length = n.toNat ∧ r'.numSteps = n ∧ r'.stop - r'.start = n ∧
      r'.start = r.start ∧ r'.spq = r.spq ∧
      r'.events = (if n.toNat ≤ r.events.length then r.events.take n.toNat
        else r.events ++ List.replicate (n.toNat - r.events.length) []) := by
  have he := rollSetLengthCore_events r n h
  have hl : (rollSetLengthCore r n).events.length = n.toNat := by
    rw [he]; split <;> simp <;> omega
  refine ⟨rollSetLengthCore r n, ?_, rfl, hl, ?_, ?_, rfl, rfl, he⟩
  · have : ((rollSetLengthCore r n).events.length : Int) = n := by omega
    simp [rstep, this]
  · simp only [Roll.numSteps]; omega
  · simp only [Roll.stop, Roll.numSteps]; omega

theorem roll_step' (r r' : Roll) (op : ROp) (h : rstep r op = .ok r') :
    r'.start = r.start ∧ r'.spq = r.spq ∧ r'.minPitch = r.minPitch ∧ r'.maxPitch = r.maxPitch ∧
    (r'.len : Int) = r'.stop - r'.start ∧
    (match op with
     | .append e false => r'.events = r.events ++ [e]
     | .append _ true => ∃ e', r'.events = r.events ++ [e'] ∧ ∀ x ∈ e', 0 ≤ x ∧ x ≤ r.maxPitch - r.minPitch
     | .setLength n _ => (r'.events.length : Int) = n
     | .deepcopy => r' = r) := by
  have hlen : ∀ q : Roll, (q.len : Int) = q.stop - q.start := by
    intro q; simp only [Roll.len, Roll.stop, Roll.numSteps]; omega
  cases op with
  | append e sh =>
    simp only [rstep] at h; cases h
    refine ⟨rfl, rfl, rfl, rfl, hlen _, ?_⟩
    cases sh with
    | false => simp
    | true =>
      refine ⟨_, rfl, ?_⟩
      intro x hx
      simp only [if_true, List.mem_map, List.mem_filter, Bool.and_eq_true, decide_eq_true_eq] at hx
      obtain ⟨a, ⟨_, h1, h2⟩, rfl⟩ := hx
      omega
  | setLength n fl =>
    simp only [rstep] at h
    split at h
    · cases h
    · split at h
      · rename_i hl; cases h; exact ⟨rfl, rfl, rfl, rfl, hlen _, hl⟩
      · cases h
  | deepcopy => simp only [rstep] at h; cases h; exact ⟨rfl, rfl, rfl, rfl, hlen _, rfl⟩

theorem roll_obs' (r : Roll) :
    (r.len : Int) = r.stop - r.start ∧ r.numSteps = r.len ∧ r.steps.length = r.len ∧
    (∀ k, k < r.len → r.steps[k]? = some (r.start + k)) ∧
    (∀ k (hk : k < r.events.length), r.index (k : Int) = .ok r.events[k] ∧ r.index ((k : Int) - r.len) = .ok r.events[k]) ∧
    (∀ i : Int, (r.len : Int) ≤ i ∨ i < -(r.len : Int) → r.index i = .error .indexError) := by
  obtain ⟨r1, r2⟩ := pyRange_spec r.start r.stop
  obtain ⟨i1, i2⟩ := pyIndex_spec r.events
  have hl : (r.stop - r.start).toNat = r.events.length := by simp only [Roll.stop, Roll.numSteps]; omega
  refine ⟨by simp only [Roll.len, Roll.stop, Roll.numSteps]; omega, rfl, ?_, ?_, i1, i2⟩
  · simp only [Roll.steps, Roll.len, r1, hl]
  · intro k hk; exact r2 k (by simp only [Roll.len] at hk; omega)

end NSV.C17
