import Mathlib.Tactic.Set
import Mathlib.Tactic.SplitIfs
import NoteSeqVerif.Proofs.C18Float
import NoteSeqVerif.Proofs.C18Enc
import NoteSeqVerif.Proofs.C18EncB
import NoteSeqVerif.Proofs.C18EncC
/-! C18 helper lemmas, encoder side (fourth part): the ACTIVE roll for either setting of
`add_blank_frame_before_onset` (per-note step, fold over the notes in start order, the
"covered and not blanked later" characterisation), last-writer form of the weights roll, the
`velocities * onsets` product roll. -/
namespace NSV.C18

/-! ### the active roll, one note -/

/-- what one painted note does to cell `fr` of its pitch column in the ACTIVE roll (`old` = the cell
before the note): `roll[start:end] = 1`, then — with `add_blank_frame_before_onset`, and only when
`0 < start_frame <= rows`, which for a frame `fr < rows` is what `fr = start_frame - 1` says —
`roll[start_frame - 1] = 0` -/
def aUpd (c : Cfg) (n : Nat) (nf : NF) (fr : Nat) (old : Rat) : Rat :=
  if c.blank = true ∧ (fr : Int) = nf.sf - 1 then 0
  else if inSlice n nf.sf nf.ef fr = true then 1 else old

theorem paintNote_active_cell {R R32 : Rat → Rat} {c : Cfg} {n : Nat} {st st' : Rolls} {nt : PNote}
    {col : Nat} {f : NF} (h : paintNote R R32 c n st nt col f = .ok st') (hlen : st.active.length = n)
    (fr p : Nat) (hfr : fr < n) :
    getCell st'.active fr p =
      if p = col then (getCell st.active fr p).map (aUpd c n f fr) else getCell st.active fr p := by
  unfold paintNote at h
  simp only at h
  split at h
  · cases h
  · split at h
    · cases h
    · split at h
      · cases h
      · split at h
        · rename_i hb
          cases h
          simp only
          rw [getCell_setCell, getCell_paint, hlen]
          by_cases hp : p = col
          · subst hp
            simp only [and_true, if_true]
            unfold aUpd
            by_cases hbl : fr = (f.sf - 1).toNat
            · have hw : c.blank = true ∧ (fr : Int) = f.sf - 1 := ⟨hb.1, by omega⟩
              rw [if_pos hbl]
              cases hg : getCell st.active fr p with
              | none => simp
              | some old => by_cases hi : inSlice n f.sf f.ef fr = true <;> simp [hw, hi]
            · have hw : ¬ (c.blank = true ∧ (fr : Int) = f.sf - 1) := fun hh => hbl (by have := hh.2; omega)
              rw [if_neg hbl]
              cases hg : getCell st.active fr p with
              | none => simp
              | some old => by_cases hi : inSlice n f.sf f.ef fr = true <;> simp [hw, hi]
          · simp [hp]
        · rename_i hb
          cases h
          simp only
          rw [getCell_paint, hlen]
          by_cases hp : p = col
          · subst hp
            simp only [and_true, if_true]
            unfold aUpd
            have hw : ¬ (c.blank = true ∧ (fr : Int) = f.sf - 1) :=
              fun hh => hb ⟨hh.1, by have := hh.2; omega, by have := hh.2; omega⟩
            cases hg : getCell st.active fr p with
            | none => simp
            | some old => by_cases hi : inSlice n f.sf f.ef fr = true <;> simp [hw, hi]
          · simp [hp]

/-- what note `nt` does to the value `x` of cell `(fr, p)` of the active roll -/
def noteA (R : Rat → Rat) (eps : Rat) (c : Cfg) (total : Rat) (n fr p : Nat) (x : Rat) (nt : PNote) : Rat :=
  if c.minPitch ≤ nt.pitch ∧ nt.pitch ≤ c.maxPitch ∧ p = colOf c nt then
    match noteFrames R eps c total n nt with
    | .ok nf => aUpd c n nf fr x
    | .error _ => x
  else x

theorem encNote_active_cell {R R32 : Rat → Rat} {eps : Rat} {c : Cfg} {total : Rat} {n : Nat} {st st' : Rolls}
    {nt : PNote} (h : encNote R R32 eps c total n st nt = .ok st') (hlen : st.active.length = n)
    (fr p : Nat) (hfr : fr < n) :
    getCell st'.active fr p = (getCell st.active fr p).map fun x => noteA R eps c total n fr p x nt := by
  rcases encNote_cases h with ⟨ho, rfl⟩ | ⟨hi, nf, hnf, hp⟩
  · have : ∀ x, noteA R eps c total n fr p x nt = x := by
      intro x; unfold noteA; rw [if_neg (by omega)]
    simp [this]
  · rw [paintNote_active_cell hp hlen fr p hfr]
    by_cases hpc : p = colOf c nt
    · rw [if_pos hpc]
      congr 1
      funext x
      unfold noteA
      rw [if_pos ⟨by omega, by omega, hpc⟩, hnf]
    · rw [if_neg hpc]
      have : ∀ x, noteA R eps c total n fr p x nt = x := by
        intro x; unfold noteA; rw [if_neg (fun hh => hpc hh.2.2)]
      simp [this]

theorem encNotes_active_cell {R R32 : Rat → Rat} {eps : Rat} {c : Cfg} {total : Rat} {n : Nat}
    (l : List PNote) (st st' : Rolls) (h : encNotes R R32 eps c total n st l = .ok st')
    (hlen : st.active.length = n) (fr p : Nat) (hfr : fr < n) :
    getCell st'.active fr p =
      (getCell st.active fr p).map fun x => l.foldl (noteA R eps c total n fr p) x := by
  induction l generalizing st with
  | nil => simp only [encNotes] at h; cases h; simp
  | cons nt rest ih =>
    simp only [encNotes] at h
    split at h
    · cases h
    · rename_i st1 h1
      have hl1 : st1.active.length = n := by
        rcases encNote_cases h1 with ⟨_, rfl⟩ | ⟨_, nf, _, hp⟩
        · exact hlen
        · rw [paintNote_active_length hp]; exact hlen
      rw [ih st1 h hl1, encNote_active_cell h1 hlen fr p hfr]
      cases getCell st.active fr p <;> simp

/-! ### covered / blanked -/

/-- note `nt` blanks cell `(f, p)`: `add_blank_frame_before_onset` is on, the note is in range, of that
pitch, and `f` is the frame before its first frame -/
def Blanks (R : Rat → Rat) (eps : Rat) (c : Cfg) (total : Rat) (n f p : Nat) (nt : PNote) : Bool :=
  c.blank && decide (c.minPitch ≤ nt.pitch ∧ nt.pitch ≤ c.maxPitch ∧ p = colOf c nt) &&
    match noteFrames R eps c total n nt with
    | .ok nf => decide ((f : Int) = nf.sf - 1)
    | .error _ => false

theorem Blanks_iff (R : Rat → Rat) (eps : Rat) (c : Cfg) (total : Rat) (n f p : Nat) (nt : PNote) :
    Blanks R eps c total n f p nt = true ↔
      c.blank = true ∧ InRange c nt ∧ p = colOf c nt ∧
        ∃ nf, noteFrames R eps c total n nt = .ok nf ∧ (f : Int) = nf.sf - 1 := by
  unfold Blanks InRange
  cases hnf : noteFrames R eps c total n nt with
  | error e => simp
  | ok nf =>
    simp only [Bool.and_eq_true, decide_eq_true_eq]
    constructor
    · rintro ⟨⟨hb, h1, h2, h3⟩, h4⟩; exact ⟨hb, ⟨h1, h2⟩, h3, nf, rfl, h4⟩
    · rintro ⟨hb, ⟨h1, h2⟩, h3, nf', hnf', h4⟩
      cases hnf'
      exact ⟨⟨hb, h1, h2, h3⟩, h4⟩

theorem Blanks_of_noblank (R : Rat → Rat) (eps : Rat) (c : Cfg) (total : Rat) (n f p : Nat) (nt : PNote)
    (hb : c.blank = false) : Blanks R eps c total n f p nt = false := by
  unfold Blanks; simp [hb]

/-- a note never blanks a frame of its own span: `start_frame - 1` lies before the slice
`[start_frame:end_frame]` (here `0 < start_frame ≤ rows`, so the slice bound is not wrapped or clamped) -/
theorem Blanks_not_covers (R : Rat → Rat) (eps : Rat) (c : Cfg) (total : Rat) (n f p : Nat) (nt : PNote)
    (hf : f < n) (h : Blanks R eps c total n f p nt = true) :
    NoteCovers R eps c total n (selActive c) f p nt = false := by
  obtain ⟨_, _, _, nf, hnf, hfr⟩ := (Blanks_iff R eps c total n f p nt).mp h
  cases hc : NoteCovers R eps c total n (selActive c) f p nt with
  | false => rfl
  | true =>
    exfalso
    obtain ⟨_, _, nf', hnf', hs⟩ := (NoteCovers_active_iff R eps c total n f p nt).mp hc
    rw [hnf] at hnf'; cases hnf'
    unfold inSlice normIdx at hs
    simp only [Bool.and_eq_true, decide_eq_true_eq] at hs
    split_ifs at hs <;> omega

theorem noteA_eq (R : Rat → Rat) (eps : Rat) (c : Cfg) (total : Rat) (n f p : Nat) (x : Rat) (nt : PNote) :
    noteA R eps c total n f p x nt =
      if Blanks R eps c total n f p nt = true then 0
      else if NoteCovers R eps c total n (selActive c) f p nt = true then 1 else x := by
  unfold noteA Blanks NoteCovers noteOp
  by_cases hr : c.minPitch ≤ nt.pitch ∧ nt.pitch ≤ c.maxPitch ∧ p = colOf c nt
  · have hr' : ¬ (nt.pitch < c.minPitch ∨ nt.pitch > c.maxPitch) := by omega
    rw [if_pos hr, if_neg hr']
    cases hnf : noteFrames R eps c total n nt with
    | error e => simp
    | ok nf =>
      simp only [aUpd, covers, selActive, hr, and_self, decide_true, Bool.and_true, Bool.and_eq_true,
        decide_eq_true_eq]
  · rw [if_neg hr]
    have h1 : decide (c.minPitch ≤ nt.pitch ∧ nt.pitch ≤ c.maxPitch ∧ p = colOf c nt) = false :=
      decide_eq_false hr
    rw [h1]
    simp only [Bool.and_false, Bool.false_and, Bool.false_eq_true, if_false]
    by_cases hr' : nt.pitch < c.minPitch ∨ nt.pitch > c.maxPitch
    · rw [if_pos hr']; simp
    · rw [if_neg hr']
      have hp : ¬ p = colOf c nt := fun hp => hr ⟨by omega, by omega, hp⟩
      cases hnf : noteFrames R eps c total n nt with
      | error e => simp
      | ok nf => simp [covers, selActive, hp]

/-- painting 1 / blanking 0 in sequence: the result is 1 exactly when an element that paints is
followed by no element that blanks (or the start value is 1 and nothing blanks); it is 0 otherwise -/
theorem foldl_blank_cover {α} (l : List α) (b c : α → Bool) (x : Rat) (hx : x = 0 ∨ x = 1) :
    (l.foldl (fun x a => if b a = true then 0 else if c a = true then 1 else x) x = 0 ∨
     l.foldl (fun x a => if b a = true then 0 else if c a = true then 1 else x) x = 1) ∧
    (l.foldl (fun x a => if b a = true then 0 else if c a = true then 1 else x) x = 1 ↔
      (∃ l1 a l2, l = l1 ++ a :: l2 ∧ c a = true ∧ b a = false ∧ ∀ o ∈ l2, b o = false) ∨
      (x = 1 ∧ ∀ o ∈ l, b o = false)) := by
  induction l generalizing x with
  | nil =>
    refine ⟨by simpa using hx, ?_⟩
    simp
  | cons a rest ih =>
    simp only [List.foldl_cons]
    have hx' : (if b a = true then (0 : Rat) else if c a = true then 1 else x) = 0 ∨
        (if b a = true then (0 : Rat) else if c a = true then 1 else x) = 1 := by
      split_ifs
      · left; rfl
      · right; rfl
      · exact hx
    obtain ⟨hv, hiff⟩ := ih _ hx'
    refine ⟨hv, ?_⟩
    rw [hiff]
    constructor
    · rintro (⟨l1, y, l2, hl, hc, hb, hall⟩ | ⟨h1, hall⟩)
      · left; exact ⟨a :: l1, y, l2, by rw [hl]; rfl, hc, hb, hall⟩
      · by_cases hba : b a = true
        · rw [if_pos hba] at h1; norm_num at h1
        · rw [if_neg hba] at h1
          have hba' : b a = false := by simpa using hba
          by_cases hca : c a = true
          · left; exact ⟨[], a, rest, rfl, hca, hba', hall⟩
          · rw [if_neg hca] at h1
            right
            refine ⟨h1, ?_⟩
            intro o ho
            rcases List.mem_cons.mp ho with rfl | ho
            · exact hba'
            · exact hall o ho
    · rintro (⟨l1, y, l2, hl, hc, hb, hall⟩ | ⟨h1, hall⟩)
      · rcases List.cons_eq_append_iff.mp hl with ⟨rfl, h2⟩ | ⟨l1', rfl, h2⟩
        · injection h2 with h2 h3
          subst h2; subst h3
          right
          refine ⟨?_, hall⟩
          rw [if_neg (by simp [hb]), if_pos hc]
        · left; exact ⟨l1', y, l2, h2, hc, hb, hall⟩
      · right
        have hba : b a = false := hall a List.mem_cons_self
        refine ⟨?_, fun o ho => hall o (List.mem_cons_of_mem _ ho)⟩
        rw [if_neg (by simp [hba])]
        split_ifs
        · rfl
        · exact h1

/-! ### rectangular shape of the active roll for either blank setting -/

theorem rowLen_setCell {α} (m : List (List α)) (r col : Nat) (v : α) (w : Nat)
    (h : ∀ row ∈ m, row.length = w) : ∀ row ∈ setCell m r col v, row.length = w := by
  intro row hrow
  unfold setCell at hrow
  simp only [List.mem_mapIdx] at hrow
  obtain ⟨i, hi, rfl⟩ := hrow
  split
  · rw [List.length_set]; exact h _ (List.getElem_mem hi)
  · exact h _ (List.getElem_mem hi)

theorem paintNote_active_rowLen {R R32 : Rat → Rat} {c : Cfg} {n : Nat} {st st' : Rolls} {nt : PNote}
    {col : Nat} {f : NF} (h : paintNote R R32 c n st nt col f = .ok st') (w : Nat)
    (hw : ∀ row ∈ st.active, row.length = w) : ∀ row ∈ st'.active, row.length = w := by
  unfold paintNote at h
  simp only at h
  split at h
  · cases h
  · split at h
    · cases h
    · split at h
      · cases h
      · split at h
        · cases h
          exact rowLen_setCell _ _ _ _ w (rowLen_paint _ _ _ _ _ w hw)
        · cases h
          exact rowLen_paint _ _ _ _ _ w hw

theorem encNotes_active_rowLen {R R32 : Rat → Rat} {eps : Rat} {c : Cfg} {total : Rat} {n : Nat}
    (l : List PNote) (st st' : Rolls) (h : encNotes R R32 eps c total n st l = .ok st') (w : Nat)
    (hw : ∀ row ∈ st.active, row.length = w) : ∀ row ∈ st'.active, row.length = w := by
  induction l generalizing st with
  | nil => simp only [encNotes] at h; cases h; exact hw
  | cons nt rest ih =>
    simp only [encNotes] at h
    split at h
    · cases h
    · rename_i st1 h1
      apply ih st1 h
      rcases encNote_cases h1 with ⟨_, rfl⟩ | ⟨_, nf, _, hp⟩
      · exact hw
      · exact paintNote_active_rowLen hp w hw

/-- shape of the active roll, either blank setting -/
theorem encode_active_rect' {R R32 : Rat → Rat} {eps : Rat} {c : Cfg} {total : Rat} {notes : List PNote}
    {ccs : List PCC} {pr : Pianoroll} (h : encode R R32 eps c total notes ccs = .ok pr) :
    pr.active.length = (numRows R c.fps total).toNat ∧
    ∀ row ∈ pr.active, row.length = (c.maxPitch - c.minPitch + 1).toNat := by
  obtain ⟨_, _, st, hst, ha, _⟩ := encode_ok h
  rw [ha]
  constructor
  · rw [encNotes_active_length _ _ _ hst]; simp [initRolls]
  · apply encNotes_active_rowLen _ _ _ hst
    intro row hrow
    simp only [initRolls, List.mem_replicate] at hrow
    rw [hrow.2]; simp

/-! ### the product roll `velocities * onsets` -/

theorem getCell_zipWith2 {α β γ} (g : α → β → γ) (A : List (List α)) (B : List (List β)) (f p : Nat) :
    getCell (List.zipWith (List.zipWith g) A B) f p =
      match getCell A f p, getCell B f p with
      | some a, some b => some (g a b)
      | _, _ => none := by
  unfold getCell
  rw [List.getElem?_zipWith]
  cases hA : A[f]? with
  | none => simp
  | some ra =>
    cases hB : B[f]? with
    | none =>
      simp only [Option.bind_some, Option.bind_none]
      cases ra[p]? <;> rfl
    | some rb =>
      simp only [Option.bind_some]
      rw [List.getElem?_zipWith]
      cases ra[p]? <;> cases rb[p]? <;> rfl

/-! ### last-writer form of the weights roll -/

/-- note frames `nf` write the weight of frame `fr` (blank frame, decaying tail or onset frames) -/
def wTouches (c : Cfg) (nf : NF) (fr : Nat) : Bool :=
  (c.blank && decide ((fr : Int) = nf.sf - 1)) ||
    decide (nf.oe ≤ (fr : Int) ∧ (fr : Int) < nf.ef) || decide (nf.os ≤ (fr : Int) ∧ (fr : Int) < nf.oe)

theorem wUpd_untouched (R R32 : Rat → Rat) (c : Cfg) (nf : NF) (fr : Nat) (old : Rat)
    (h : wTouches c nf fr = false) : wUpd R R32 c nf fr old = old := by
  unfold wTouches at h
  simp only [Bool.or_eq_false_iff, Bool.and_eq_false_iff, decide_eq_false_iff_not] at h
  obtain ⟨⟨h1, h2⟩, h3⟩ := h
  unfold wUpd
  rw [if_neg (by rintro ⟨hb, hf⟩; rcases h1 with h1 | h1 <;> simp_all), if_neg h2, if_neg h3]

theorem wUpd_touched (R R32 : Rat → Rat) (c : Cfg) (nf : NF) (fr : Nat) (old old' : Rat)
    (h : wTouches c nf fr = true) : wUpd R R32 c nf fr old = wUpd R R32 c nf fr old' := by
  unfold wTouches at h
  simp only [Bool.or_eq_true, Bool.and_eq_true, decide_eq_true_eq] at h
  unfold wUpd
  split_ifs <;> first | rfl | (exfalso; tauto)

/-- note `nt` writes the weight of cell `(f, p)` -/
def NoteTouchesW (R : Rat → Rat) (eps : Rat) (c : Cfg) (total : Rat) (n f p : Nat) (nt : PNote) : Bool :=
  decide (c.minPitch ≤ nt.pitch ∧ nt.pitch ≤ c.maxPitch ∧ p = colOf c nt) &&
    match noteFrames R eps c total n nt with
    | .ok nf => wTouches c nf f
    | .error _ => false

/-- the weight note `nt` writes into frame `f` of its column when it touches it: 1 in the blanked frame,
`onset_upweight / (j + 1)` in the `j`-th frame after the onset frames, `onset_upweight` in the onset frames -/
def noteWVal (R R32 : Rat → Rat) (eps : Rat) (c : Cfg) (total : Rat) (n f : Nat) (nt : PNote) : Rat :=
  match noteFrames R eps c total n nt with
  | .ok nf => wUpd R R32 c nf f 0
  | .error _ => 0

theorem noteW_eq (R R32 : Rat → Rat) (eps : Rat) (c : Cfg) (total : Rat) (n f p : Nat) (x : Rat) (nt : PNote) :
    noteW R R32 eps c total n f p x nt =
      if NoteTouchesW R eps c total n f p nt = true then noteWVal R R32 eps c total n f nt else x := by
  unfold noteW NoteTouchesW noteWVal
  by_cases hr : c.minPitch ≤ nt.pitch ∧ nt.pitch ≤ c.maxPitch ∧ p = colOf c nt
  · rw [if_pos hr]
    cases hnf : noteFrames R eps c total n nt with
    | error e => simp
    | ok nf =>
      simp only [hr, and_self, decide_true, Bool.true_and]
      cases ht : wTouches c nf f with
      | true => simp only [if_true]; exact wUpd_touched R R32 c nf f x 0 ht
      | false => simp only [Bool.false_eq_true, if_false]; exact wUpd_untouched R R32 c nf f x ht
  · rw [if_neg hr]
    simp [hr]

end NSV.C18
