import NoteSeqVerif.Model.C20
import NoteSeqVerif.Proofs.C20_rne
/-! C20 — helper lemmas for crop / cyclic repeat / stereo packing (core Lean only). -/
namespace NSV.C20

-- so that the non-vacuity examples can compare results by `decide`
deriving instance DecidableEq for Except

/-! ### Python slices with non-negative bounds -/

theorem pySlice_nonneg {α} (xs : List α) (a n : Int) (ha : 0 ≤ a) (hn : 0 ≤ n) :
    pySlice xs a (a + n) = (xs.drop a.toNat).take n.toNat := by
  unfold pySlice pyIdx
  have h1 : ¬ a < 0 := by omega
  have h2 : ¬ a + n < 0 := by omega
  simp only [h1, h2, if_false]
  apply List.ext_getElem?
  intro i
  simp only [List.getElem?_take, List.getElem?_drop]
  by_cases hi : i < n.toNat
  · simp only [hi, if_true]
    by_cases hl : a.toNat + i < xs.length
    · have : i < min (a + n).toNat xs.length - min a.toNat xs.length := by omega
      simp only [this, if_true]
      congr 1
      omega
    · have e1 : xs[a.toNat + i]? = none := List.getElem?_eq_none (by omega)
      have e2 : xs[min a.toNat xs.length + i]? = none := List.getElem?_eq_none (by omega)
      simp [e1, e2]
  · have : ¬ i < min (a + n).toNat xs.length - min a.toNat xs.length := by omega
    simp [hi, this]

/-! ### slices / repetition commute with a per-frame map (multi-channel input: a frame is one list element) -/

theorem pySlice_map {α β} (f : α → β) (xs : List α) (a b : Int) :
    pySlice (xs.map f) a b = (pySlice xs a b).map f := by
  unfold pySlice
  simp only [List.length_map, List.map_take, List.map_drop]

theorem flatten_replicate_map {α β} (f : α → β) (xs : List α) (k : Nat) :
    (List.replicate k (xs.map f)).flatten = ((List.replicate k xs).flatten).map f := by
  induction k with
  | zero => simp
  | succ k ih => rw [List.replicate_succ, List.flatten_cons, ih, List.replicate_succ, List.flatten_cons, List.map_append]

/-! ### `np.concatenate([xs] * k)` -/

theorem length_flatten_replicate {α} (xs : List α) (k : Nat) :
    (List.replicate k xs).flatten.length = k * xs.length := by
  induction k with
  | zero => simp
  | succ k ih => simp [List.replicate_succ, ih, Nat.succ_mul, Nat.add_comm]

theorem getElem?_flatten_replicate {α} (xs : List α) (k i : Nat) (h : i < k * xs.length) :
    (List.replicate k xs).flatten[i]? = xs[i % xs.length]? := by
  induction k generalizing i with
  | zero => simp at h
  | succ k ih =>
    rw [List.replicate_succ, List.flatten_cons]
    by_cases hi : i < xs.length
    · rw [List.getElem?_append_left hi, Nat.mod_eq_of_lt hi]
    · rw [List.getElem?_append_right (by omega), ih (i - xs.length) (by rw [Nat.succ_mul] at h; omega),
        ← Nat.mod_eq_sub_mod (by omega)]

/-! ### masked assignment -/

theorem mask_eq (m n : Nat) :
    (List.range m).map (fun i => decide (i < n)) =
      List.replicate (min n m) true ++ List.replicate (m - n) false := by
  apply List.ext_getElem?
  intro i
  by_cases hi : i < m
  · rw [List.getElem?_map, List.getElem?_range hi]
    by_cases hn : i < n
    · rw [List.getElem?_append_left (by simp; omega), List.getElem?_replicate]
      have : i < min n m := by omega
      rw [if_pos this]
      simp [hn]
    · rw [List.getElem?_append_right (by simp; omega), List.getElem?_replicate]
      simp only [List.length_replicate]
      have : i - min n m < m - n := by omega
      rw [if_pos this]
      simp [hn]
  · rw [List.getElem?_eq_none (by simp; omega), List.getElem?_eq_none (by simp; omega)]

theorem fillMasked_true {α} (z : α) (l : List α) (rest : List Bool) (vs : List α) :
    fillMasked z (List.replicate l.length true ++ rest) (l ++ vs) =
      (fillMasked z rest vs).map (l ++ ·) := by
  induction l with
  | nil => cases h : fillMasked z rest vs <;> simp [Except.map, h]
  | cons a l ih =>
    simp only [List.length_cons, List.replicate_succ, List.cons_append, fillMasked, ih]
    cases fillMasked z rest vs <;> simp [Except.map]

theorem fillMasked_false {α} (z : α) (k : Nat) (rest : List Bool) (vs : List α) :
    fillMasked z (List.replicate k false ++ rest) vs =
      (fillMasked z rest vs).map (List.replicate k z ++ ·) := by
  induction k with
  | zero => cases h : fillMasked z rest vs <;> simp [Except.map, h]
  | succ k ih =>
    simp only [List.replicate_succ, List.cons_append, fillMasked, ih]
    cases fillMasked z rest vs <;> simp [Except.map]

/-! ### rounding operators: what crop / repeat need of them -/

/-- what the theorems need of the rounding operator: zero stays zero, positive stays positive -/
structure SignPreserving (R : Rat → Rat) : Prop where
  zero : R 0 = 0
  pos : ∀ x, 0 < x → 0 < R x

theorem SignPreserving.nonneg {R} (h : SignPreserving R) (x : Rat) (hx : 0 ≤ x) : 0 ≤ R x := by
  by_cases h0 : x = 0
  · subst h0; rw [h.zero]; exact Rat.le_refl
  · exact Rat.le_of_lt (h.pos x (by grind))

theorem secToSamples_nonneg {R} (hR : SignPreserving R) (secs : Rat) (rate : Int)
    (hs : 0 ≤ secs) (hr : 0 ≤ rate) : 0 ≤ secToSamples R secs rate := by
  unfold secToSamples
  apply truncR_nonneg
  apply hR.nonneg
  exact Rat.mul_nonneg hs (Rat.intCast_nonneg.mpr hr)

theorem secToSamples_zero {R} (hR : SignPreserving R) (rate : Int) : secToSamples R 0 rate = 0 := by
  unfold secToSamples
  rw [Rat.zero_mul, hR.zero]
  decide

/-! ### the two rows produced by `make_stereo` -/

/-- the masked assignment into `np.zeros((2, maxlen))` produces the two zero-padded rows -/
theorem stereo_rows {α} (z : α) (l r : List α) :
    fillMasked z
      ((List.range (max l.length r.length)).map (fun i => decide (i < l.length)) ++
       (List.range (max l.length r.length)).map (fun i => decide (i < r.length))) (l ++ r) =
    .ok ((l ++ List.replicate (max l.length r.length - l.length) z) ++
         (r ++ List.replicate (max l.length r.length - r.length) z)) := by
  rw [mask_eq, mask_eq]
  have e1 : min l.length (max l.length r.length) = l.length := by omega
  have e2 : min r.length (max l.length r.length) = r.length := by omega
  rw [e1, e2, List.append_assoc, fillMasked_true, fillMasked_false]
  have h := fillMasked_true z r (List.replicate (max l.length r.length - r.length) false ++ []) []
  rw [List.append_nil] at h
  rw [List.append_nil] at h
  rw [h]
  have h2 := fillMasked_false z (max l.length r.length - r.length) [] []
  rw [List.append_nil] at h2
  rw [h2]
  simp [fillMasked, Except.map]

end NSV.C20
