import NoteSeqVerif.Model.C18
/-! C18 helper lemmas, decoder side: the frame loop decomposes into per-pitch loops; the per-pitch
loop without onset predictions emits exactly the maximal runs. -/
namespace NSV.C18

/-- the inner loop restricted to one pitch `p`: emitted notes and the IndexError flag -/
def colScan (P : DParams) (p : Nat) : Nat → Cell → List CellIn → List Emit × Bool
  | _, _, [] => ([], false)
  | i, st, c :: cs =>
    let r := cellStep P i p st c
    let rest := colScan P p (i + 1) r.1 cs
    ((match r.2.1 with | some e => e :: rest.1 | none => rest.1), r.2.2 || rest.2)

/-- column `p` of a matrix -/
def colOfRows {α} (rows : List (List α)) (p : Nat) : List α := rows.filterMap (·[p]?)

theorem frameStep_length (P : DParams) (i : Nat) (p0 : Nat) (sts : List Cell) (cs : List CellIn)
    (h : cs.length = sts.length) : (frameStep P i p0 sts cs).1.length = sts.length := by
  induction sts generalizing p0 cs with
  | nil => cases cs <;> simp [frameStep]
  | cons s rest ih =>
    cases cs with
    | nil => simp at h
    | cons c cs' =>
      simp only [frameStep, List.length_cons]
      rw [ih (p0 + 1) cs' (by simpa using h)]

theorem frameStep_state (P : DParams) (i : Nat) (p0 : Nat) (sts : List Cell) (cs : List CellIn)
    (h : cs.length = sts.length) (j : Nat) (s : Cell) (c : CellIn) (hs : sts[j]? = some s)
    (hc : cs[j]? = some c) : (frameStep P i p0 sts cs).1[j]? = some (cellStep P i (p0 + j) s c).1 := by
  induction sts generalizing p0 cs j with
  | nil => simp at hs
  | cons s0 rest ih =>
    cases cs with
    | nil => simp at hc
    | cons c0 cs' =>
      simp only [frameStep]
      cases j with
      | zero =>
        simp only [List.getElem?_cons_zero, Option.some.injEq] at hs hc
        subst hs; subst hc; simp
      | succ j' =>
        simp only [List.getElem?_cons_succ] at hs hc ⊢
        rw [ih (p0 + 1) cs' (by simpa using h) j' hs hc]
        congr 3; omega

theorem frameStep_emits (P : DParams) (i : Nat) (p0 : Nat) (sts : List Cell) (cs : List CellIn)
    (h : cs.length = sts.length) (e : Emit) :
    e ∈ (frameStep P i p0 sts cs).2.1 ↔
      ∃ j s c, sts[j]? = some s ∧ cs[j]? = some c ∧ (cellStep P i (p0 + j) s c).2.1 = some e := by
  induction sts generalizing p0 cs with
  | nil => cases cs <;> simp [frameStep]
  | cons s0 rest ih =>
    cases cs with
    | nil => simp at h
    | cons c0 cs' =>
      simp only [frameStep]
      have ih' := ih (p0 + 1) cs' (by simpa using h)
      constructor
      · intro he
        cases hem : (cellStep P i p0 s0 c0).2.1 with
        | none =>
          simp only [hem] at he
          obtain ⟨j, s, c, hs, hc, hce⟩ := ih'.mp he
          refine ⟨j + 1, s, c, by simpa using hs, by simpa using hc, ?_⟩
          rw [← hce]; congr 3; omega
        | some e0 =>
          simp only [hem, List.mem_cons] at he
          rcases he with rfl | he
          · exact ⟨0, s0, c0, by simp, by simp, by simpa using hem⟩
          · obtain ⟨j, s, c, hs, hc, hce⟩ := ih'.mp he
            refine ⟨j + 1, s, c, by simpa using hs, by simpa using hc, ?_⟩
            rw [← hce]; congr 3; omega
      · rintro ⟨j, s, c, hs, hc, hce⟩
        cases j with
        | zero =>
          simp only [List.getElem?_cons_zero, Option.some.injEq] at hs hc
          subst hs; subst hc
          simp only [Nat.add_zero] at hce
          simp [hce]
        | succ j' =>
          simp only [List.getElem?_cons_succ] at hs hc
          have : e ∈ (frameStep P i (p0 + 1) rest cs').2.1 :=
            ih'.mpr ⟨j', s, c, hs, hc, by rw [← hce]; congr 3; omega⟩
          cases hem : (cellStep P i p0 s0 c0).2.1 with
          | none => simpa [hem] using this
          | some e0 => simp [hem, this]

theorem frameStep_oob (P : DParams) (i : Nat) (p0 : Nat) (sts : List Cell) (cs : List CellIn)
    (h : cs.length = sts.length) :
    (frameStep P i p0 sts cs).2.2 = true ↔
      ∃ j s c, sts[j]? = some s ∧ cs[j]? = some c ∧ (cellStep P i (p0 + j) s c).2.2 = true := by
  induction sts generalizing p0 cs with
  | nil => cases cs <;> simp [frameStep]
  | cons s0 rest ih =>
    cases cs with
    | nil => simp at h
    | cons c0 cs' =>
      simp only [frameStep, Bool.or_eq_true]
      have ih' := ih (p0 + 1) cs' (by simpa using h)
      constructor
      · rintro (h0 | hr)
        · exact ⟨0, s0, c0, by simp, by simp, by simpa using h0⟩
        · obtain ⟨j, s, c, hs, hc, hce⟩ := ih'.mp hr
          refine ⟨j + 1, s, c, by simpa using hs, by simpa using hc, ?_⟩
          rw [← hce]; congr 3; omega
      · rintro ⟨j, s, c, hs, hc, hce⟩
        cases j with
        | zero =>
          simp only [List.getElem?_cons_zero, Option.some.injEq] at hs hc
          subst hs; subst hc
          left; simpa using hce
        | succ j' =>
          simp only [List.getElem?_cons_succ] at hs hc
          right
          exact ih'.mpr ⟨j', s, c, hs, hc, by rw [← hce]; congr 3; omega⟩


theorem colOfRows_cons {α} (row : List α) (rest : List (List α)) (p : Nat) (c : α) (h : row[p]? = some c) :
    colOfRows (row :: rest) p = c :: colOfRows rest p := by
  simp [colOfRows, List.filterMap_cons, h]

/-- the frame loop decomposes into independent per-pitch loops -/
theorem scan_column (P : DParams) (rows : List (List CellIn)) (i : Nat) (st : List Cell)
    (hrows : ∀ row ∈ rows, row.length = st.length) :
    (∀ e, e ∈ (scan P i st rows).1 ↔
      ∃ (p : Nat) (s : Cell), st[p]? = some s ∧ e ∈ (colScan P p i s (colOfRows rows p)).1) ∧
    ((scan P i st rows).2 = true ↔
      ∃ (p : Nat) (s : Cell), st[p]? = some s ∧ (colScan P p i s (colOfRows rows p)).2 = true) := by
  induction rows generalizing i st with
  | nil => simp [scan, colScan, colOfRows]
  | cons row rest ih =>
    have hrow : row.length = st.length := hrows row List.mem_cons_self
    have hlen := frameStep_length P i 0 st row hrow
    have ih' := ih (i + 1) (frameStep P i 0 st row).1
      (fun r hr => by rw [hlen]; exact hrows r (List.mem_cons_of_mem _ hr))
    have hget : ∀ (p : Nat) (s : Cell), st[p]? = some s → ∃ c, row[p]? = some c := by
      intro p s hs
      have hp : p < st.length := by
        rcases Nat.lt_or_ge p st.length with h | h
        · exact h
        · rw [List.getElem?_eq_none h] at hs; cases hs
      exact ⟨row[p]'(by omega), List.getElem?_eq_getElem (by omega)⟩
    have hgetS : ∀ (p : Nat) (c : CellIn), row[p]? = some c → ∃ s, st[p]? = some s := by
      intro p c hc
      have hp : p < row.length := by
        rcases Nat.lt_or_ge p row.length with h | h
        · exact h
        · rw [List.getElem?_eq_none h] at hc; cases hc
      exact ⟨st[p]'(by omega), List.getElem?_eq_getElem (by omega)⟩
    constructor
    · intro e
      simp only [scan, List.mem_append]
      rw [frameStep_emits P i 0 st row hrow e, ih'.1 e]
      constructor
      · rintro (⟨j, s, c, hs, hc, hce⟩ | ⟨p, s', hs', he⟩)
        · refine ⟨j, s, hs, ?_⟩
          rw [colOfRows_cons row rest j c hc]
          simp only [colScan]
          simp only [Nat.zero_add] at hce
          simp [hce]
        · obtain ⟨s, hs⟩ : ∃ s, st[p]? = some s := by
            have hp : p < st.length := by
              rcases Nat.lt_or_ge p st.length with h | h
              · exact h
              · rw [List.getElem?_eq_none (by omega)] at hs'; cases hs'
            exact ⟨st[p]'hp, List.getElem?_eq_getElem hp⟩
          obtain ⟨c, hc⟩ := hget p s hs
          refine ⟨p, s, hs, ?_⟩
          rw [colOfRows_cons row rest p c hc]
          simp only [colScan]
          have hst := frameStep_state P i 0 st row hrow p s c hs hc
          simp only [Nat.zero_add] at hst
          rw [hst] at hs'
          cases hs'
          cases (cellStep P i p s c).2.1 <;> simp [he]
      · rintro ⟨p, s, hs, he⟩
        obtain ⟨c, hc⟩ := hget p s hs
        rw [colOfRows_cons row rest p c hc] at he
        simp only [colScan] at he
        have hst := frameStep_state P i 0 st row hrow p s c hs hc
        simp only [Nat.zero_add] at hst
        cases hem : (cellStep P i p s c).2.1 with
        | none =>
          simp only [hem] at he
          right; exact ⟨p, _, hst, he⟩
        | some e0 =>
          simp only [hem, List.mem_cons] at he
          rcases he with rfl | he
          · left; exact ⟨p, s, c, hs, hc, by simpa using hem⟩
          · right; exact ⟨p, _, hst, he⟩
    · simp only [scan, Bool.or_eq_true]
      rw [frameStep_oob P i 0 st row hrow, ih'.2]
      constructor
      · rintro (⟨j, s, c, hs, hc, hce⟩ | ⟨p, s', hs', he⟩)
        · refine ⟨j, s, hs, ?_⟩
          rw [colOfRows_cons row rest j c hc]
          simp only [colScan, Bool.or_eq_true]
          simp only [Nat.zero_add] at hce
          left; exact hce
        · obtain ⟨s, hs⟩ : ∃ s, st[p]? = some s := by
            have hp : p < st.length := by
              rcases Nat.lt_or_ge p st.length with h | h
              · exact h
              · rw [List.getElem?_eq_none (by omega)] at hs'; cases hs'
            exact ⟨st[p]'hp, List.getElem?_eq_getElem hp⟩
          obtain ⟨c, hc⟩ := hget p s hs
          refine ⟨p, s, hs, ?_⟩
          rw [colOfRows_cons row rest p c hc]
          simp only [colScan, Bool.or_eq_true]
          have hst := frameStep_state P i 0 st row hrow p s c hs hc
          simp only [Nat.zero_add] at hst
          rw [hst] at hs'
          cases hs'
          right; exact he
      · rintro ⟨p, s, hs, he⟩
        obtain ⟨c, hc⟩ := hget p s hs
        rw [colOfRows_cons row rest p c hc] at he
        simp only [colScan, Bool.or_eq_true] at he
        have hst := frameStep_state P i 0 st row hrow p s c hs hc
        simp only [Nat.zero_add] at hst
        rcases he with he | he
        · left; exact ⟨p, s, c, hs, hc, by simpa using he⟩
        · right; exact ⟨p, _, hst, he⟩


/-- `[s, e)` is a maximal run of active frames of the column `A` -/
def IsMaxRun (A : Nat → Bool) (s e : Nat) : Prop :=
  s < e ∧ (∀ k, s ≤ k → k < e → A k = true) ∧ (s = 0 ∨ A (s - 1) = false) ∧ A e = false

theorem IsMaxRun.start_unique {A : Nat → Bool} {s s' e : Nat} (h : IsMaxRun A s e) (h' : IsMaxRun A s' e) :
    s = s' := by
  obtain ⟨h1, h2, h3, _⟩ := h
  obtain ⟨h1', h2', h3', _⟩ := h'
  rcases Nat.lt_trichotomy s s' with hlt | heq | hgt
  · rcases h3' with h0 | h0
    · omega
    · have := h2 (s' - 1) (by omega) (by omega); rw [this] at h0; cases h0
  · exact heq
  · rcases h3 with h0 | h0
    · omega
    · have := h2' (s - 1) (by omega) (by omega); rw [this] at h0; cases h0

/-- without onset predictions, one pitch: the notes emitted from frame `i` on are the maximal runs
that end at a frame `≥ i` (the state carries the run that is open at `i`) -/
theorem colScan_runs (P : DParams) (hP : P.hasOn = false) (p : Nat) (A : Nat → Bool) (v : Int)
    (cs : List CellIn) (i : Nat) (o : Option Nat)
    (hA : ∀ k (h : k < cs.length), cs[k].active = A (i + k))
    (ho : match o with
      | some s => s < i ∧ (∀ k, s ≤ k → k < i → A k = true) ∧ (s = 0 ∨ A (s - 1) = false)
      | none => i = 0 ∨ A (i - 1) = false) (e : Emit) :
    e ∈ (colScan P p i (o, v) cs).1 ↔
      e.pitch = p ∧ e.vel = v ∧ P.keep e.s e.e = true ∧ IsMaxRun A e.s e.e ∧ i ≤ e.e ∧ e.e < i + cs.length := by
  induction cs generalizing i o with
  | nil =>
    simp only [colScan, List.not_mem_nil, List.length_nil, Nat.add_zero, false_iff]
    intro h; omega
  | cons c cs' ih =>
    have hAi : c.active = A i := by
      have h0 := hA 0 (Nat.zero_lt_succ _)
      simp only [List.getElem_cons_zero, Nat.add_zero] at h0
      exact h0
    have hA' : ∀ k (h : k < cs'.length), cs'[k].active = A (i + 1 + k) := by
      intro k hk
      have := hA (k + 1) (by simp; omega)
      simp only [List.getElem_cons_succ] at this
      rw [this]; congr 1; omega
    simp only [colScan, List.length_cons]
    cases hact : c.active with
    | true =>
      have hAt : A i = true := by rw [← hAi, hact]
      -- no run ends at frame i
      have hne : ∀ s, ¬ IsMaxRun A s i := fun s h => by have := h.2.2.2; rw [hAt] at this; cases this
      cases o with
      | none =>
        have hstep : cellStep P i p (none, v) c = ((some i, v), none, false) := by
          simp [cellStep, hact, hP]
        rw [hstep]
        simp only
        rw [ih (i + 1) (some i) hA' ⟨by omega, fun k h1 h2 => by
          have : k = i := by omega
          rw [this]; exact hAt, ho⟩]
        constructor
        · rintro ⟨h1, h2, h3, h4, h5, h6⟩; exact ⟨h1, h2, h3, h4, by omega, by omega⟩
        · rintro ⟨h1, h2, h3, h4, h5, h6⟩
          refine ⟨h1, h2, h3, h4, ?_, by omega⟩
          rcases Nat.lt_or_ge i e.e with h | h
          · omega
          · have : e.e = i := by omega
            rw [this] at h4; exact absurd h4 (hne _)
      | some s =>
        have hstep : cellStep P i p (some s, v) c = ((some s, v), none, false) := by
          simp [cellStep, hact, hP]
        rw [hstep]
        simp only
        obtain ⟨ho1, ho2, ho3⟩ := ho
        rw [ih (i + 1) (some s) hA' ⟨by omega, fun k h1 h2 => by
          rcases Nat.lt_or_ge k i with h | h
          · exact ho2 k h1 h
          · have : k = i := by omega
            rw [this]; exact hAt, ho3⟩]
        constructor
        · rintro ⟨h1, h2, h3, h4, h5, h6⟩; exact ⟨h1, h2, h3, h4, by omega, by omega⟩
        · rintro ⟨h1, h2, h3, h4, h5, h6⟩
          refine ⟨h1, h2, h3, h4, ?_, by omega⟩
          rcases Nat.lt_or_ge i e.e with h | h
          · omega
          · have : e.e = i := by omega
            rw [this] at h4; exact absurd h4 (hne _)
    | false =>
      have hAf : A i = false := by rw [← hAi, hact]
      have ho' : (i + 1 = 0 ∨ A (i + 1 - 1) = false) := by right; simpa using hAf
      cases o with
      | none =>
        have hstep : cellStep P i p (none, v) c = ((none, v), none, false) := by
          simp [cellStep, hact]
        rw [hstep]
        simp only
        rw [ih (i + 1) none hA' ho']
        constructor
        · rintro ⟨h1, h2, h3, h4, h5, h6⟩; exact ⟨h1, h2, h3, h4, by omega, by omega⟩
        · rintro ⟨h1, h2, h3, h4, h5, h6⟩
          refine ⟨h1, h2, h3, h4, ?_, by omega⟩
          rcases Nat.lt_or_ge i e.e with h | h
          · omega
          · have hei : e.e = i := by omega
            exfalso
            obtain ⟨r1, r2, _, _⟩ := h4
            rcases ho with h0 | h0
            · omega
            · have := r2 (i - 1) (by omega) (by omega); rw [this] at h0; cases h0
      | some s =>
        obtain ⟨ho1, ho2, ho3⟩ := ho
        have hrun : IsMaxRun A s i := ⟨ho1, ho2, ho3, hAf⟩
        have hstep : cellStep P i p (some s, v) c =
            ((none, v), (if P.keep s i then some ⟨p, s, i, v⟩ else none), (if P.keep s i then decide (Gen.VEL_SLOTS ≤ p) else false)) := by
          simp only [cellStep, hact, endEmit, Bool.false_eq_true, ↓reduceIte]
          by_cases hk : P.keep s i = true <;> simp [hk]
        rw [hstep]
        simp only
        have key : ∀ (l : List Emit), (e ∈ l ↔ e.pitch = p ∧ e.vel = v ∧ P.keep e.s e.e = true ∧
              IsMaxRun A e.s e.e ∧ i + 1 ≤ e.e ∧ e.e < i + 1 + cs'.length) →
            (e ∈ (match (if P.keep s i then some (⟨p, s, i, v⟩ : Emit) else none) with
              | some e0 => e0 :: l | none => l) ↔
            e.pitch = p ∧ e.vel = v ∧ P.keep e.s e.e = true ∧ IsMaxRun A e.s e.e ∧ i ≤ e.e ∧
              e.e < i + (cs'.length + 1)) := by
          intro l hl
          by_cases hk : P.keep s i = true
          · simp only [hk, ↓reduceIte, List.mem_cons]
            rw [hl]
            constructor
            · rintro (rfl | ⟨h1, h2, h3, h4, h5, h6⟩)
              · exact ⟨rfl, rfl, hk, hrun, by simp, by simp⟩
              · exact ⟨h1, h2, h3, h4, by omega, by omega⟩
            · rintro ⟨h1, h2, h3, h4, h5, h6⟩
              rcases Nat.lt_or_ge i e.e with h | h
              · right; exact ⟨h1, h2, h3, h4, by omega, by omega⟩
              · left
                have hei : e.e = i := by omega
                have hs : e.s = s := by rw [hei] at h4; exact h4.start_unique hrun
                cases e; simp_all
          · simp only [hk, Bool.false_eq_true, ↓reduceIte]
            rw [hl]
            constructor
            · rintro ⟨h1, h2, h3, h4, h5, h6⟩; exact ⟨h1, h2, h3, h4, by omega, by omega⟩
            · rintro ⟨h1, h2, h3, h4, h5, h6⟩
              refine ⟨h1, h2, h3, h4, ?_, by omega⟩
              rcases Nat.lt_or_ge i e.e with h | h
              · omega
              · exfalso
                have hei : e.e = i := by omega
                have hs : e.s = s := by rw [hei] at h4; exact h4.start_unique hrun
                rw [hs, hei] at h3; exact hk h3
        exact key _ (ih (i + 1) none hA' ho')


theorem colScan_oob_noOnset (P : DParams) (hP : P.hasOn = false) (p : Nat) (cs : List CellIn) (i : Nat)
    (st : Cell) (h : (colScan P p i st cs).2 = true) : Gen.VEL_SLOTS ≤ p := by
  induction cs generalizing i st with
  | nil => simp [colScan] at h
  | cons c cs' ih =>
    simp only [colScan, Bool.or_eq_true] at h
    rcases h with h | h
    · obtain ⟨o, v⟩ := st
      simp only [cellStep, hP, endEmit] at h
      by_cases hk : Gen.VEL_SLOTS ≤ p
      · exact hk
      · exfalso
        revert h
        cases c.active <;> cases o <;> simp [hk]
        all_goals (split <;> simp [hk])
    · exact ih _ _ h

theorem getM_toMat {α} (m : List (List α)) (i p : Nat) : getM (toMat m) i p = (m[i]?).bind (·[p]?) := by
  unfold getM toMat
  simp only [List.getElem?_toArray, List.getElem?_map]
  cases m[i]? <;> simp

theorem getB_true_lt (m : List (List Bool)) (k p : Nat) (h : getB (some (toMat m)) k p = true) :
    k < m.length := by
  unfold getB at h
  simp only [getM_toMat] at h
  rcases Nat.lt_or_ge k m.length with hk | hk
  · exact hk
  · rw [List.getElem?_eq_none hk] at h; simp at h

theorem IsMaxRun.end_le {m : List (List Bool)} {p s e : Nat}
    (h : IsMaxRun (fun k => getB (some (toMat m)) k p) s e) : e ≤ m.length := by
  obtain ⟨h1, h2, _, _⟩ := h
  have := getB_true_lt m (e - 1) p (h2 (e - 1) (by omega) (by omega))
  omega

theorem colOfRows_prepareWith (F O X : Nat → Nat → Bool) (V : Nat → Nat → Option Rat) (n w p : Nat)
    (hp : p < w) :
    colOfRows (prepareWith F O X V n w) p = (List.range (n + 1)).map fun i => mkCell F O X V i p := by
  unfold colOfRows prepareWith
  rw [List.filterMap_map]
  have : ((fun x : List CellIn => x[p]?) ∘ fun i => List.map (fun p => mkCell F O X V i p) (List.range w))
      = fun i => some (mkCell F O X V i p) := by
    funext i
    simp [List.getElem?_map, List.getElem?_range, hp]
  rw [this]
  induction (List.range (n + 1)) with
  | nil => rfl
  | cons a l ih => simp [List.filterMap_cons, ih]



/-- the frames column of pitch index `p`, `false` past the last frame -/
def frameCol (frames : List (List Bool)) (p : Nat) : Nat → Bool := fun k => getB (some (toMat frames)) k p

theorem mkCell_active_plain (F : Nat → Nat → Bool) (V : Nat → Nat → Option Rat) (i p : Nat) :
    (mkCell F (getB none) (getB none) V i p).active = F i p := by
  simp [mkCell, getB]

/-- what `decode` computes when there are no onset / offset predictions -/
theorem decode_plain_eq (R Rv : Rat → Rat) (d : DCfg) (frames : List (List Bool)) (w : Nat)
    (hfps : d.fps ≠ 0) (hne : frames ≠ []) (hrect : isRect frames frames.length w = true) :
    decode R Rv d frames none none none =
      let fls := R (1 / d.fps)
      let P := dparams R Rv d false false
      let r := scan P 0 (List.replicate w (none, d.velocity)) (prepare frames none none none w)
      if r.2 then .error .indexError
      else .ok (r.1.map (emitNote R fls d.minMidiPitch), R (((frames.length + 1 : Nat) : Rat) * fls)) := by
  unfold decode
  rw [if_neg hfps]
  cases frames with
  | nil => exact absurd rfl hne
  | cons row0 rest =>
    have hw : row0.length = w := by
      unfold isRect at hrect
      simp only [List.length_cons, BEq.rfl, List.all_cons, Bool.and_eq_true, beq_iff_eq, Bool.true_and] at hrect
      exact hrect.1
    simp only [hw]
    have : shapesOk (row0 :: rest) none none none (row0 :: rest).length w = true := by
      unfold shapesOk; simp only [Bool.and_true]; exact hrect
    rw [if_pos this]
    rfl

/-- a successful `decode` ran the loop on rectangular inputs -/
theorem decode_ok_inv {R Rv : Rat → Rat} {d : DCfg} {frames : List (List Bool)}
    {ons offs : Option (List (List Bool))} {vels : Option (List (List Rat))} {res : List ONote × Rat}
    (h : decode R Rv d frames ons offs vels = .ok res) :
    d.fps ≠ 0 ∧ ∃ row0 rest, frames = row0 :: rest ∧
      shapesOk frames ons offs vels frames.length row0.length = true ∧
      decodeCore R Rv d frames ons offs vels row0.length = .ok res := by
  unfold decode at h
  split at h
  · cases h
  · rename_i hfps
    refine ⟨hfps, ?_⟩
    split at h
    · cases h
    · rename_i row0 rest
      split at h
      · rename_i hs; exact ⟨row0, rest, rfl, hs, h⟩
      · cases h

theorem prepare_plain (frames : List (List Bool)) (w : Nat) :
    prepare frames none none none w =
      prepareWith (getB (some (toMat frames))) (getB none) (getB none) (getV none) frames.length w := by
  unfold prepare
  simp

theorem prepareWith_row_length (F O X : Nat → Nat → Bool) (V : Nat → Nat → Option Rat) (n w : Nat) :
    ∀ row ∈ prepareWith F O X V n w, row.length = w := by
  intro row hrow
  unfold prepareWith at hrow
  simp only [List.mem_map, List.mem_range] at hrow
  obtain ⟨i, _, rfl⟩ := hrow
  simp



theorem exists_run_start (A : Nat → Bool) (f : Nat) (hf : A f = true) :
    ∃ s, s ≤ f ∧ (∀ k, s ≤ k → k ≤ f → A k = true) ∧ (s = 0 ∨ A (s - 1) = false) := by
  induction f with
  | zero => exact ⟨0, Nat.le_refl _, fun k h1 h2 => by have : k = 0 := (by omega); rw [this]; exact hf, Or.inl rfl⟩
  | succ f ih =>
    cases hA : A f with
    | false => exact ⟨f + 1, Nat.le_refl _, fun k h1 h2 => by have : k = f + 1 := (by omega); rw [this]; exact hf, Or.inr (by simpa using hA)⟩
    | true =>
      obtain ⟨s, h1, h2, h3⟩ := ih hA
      refine ⟨s, by omega, fun k hk1 hk2 => ?_, h3⟩
      rcases Nat.lt_or_ge k (f + 1) with h | h
      · exact h2 k hk1 (by omega)
      · have : k = f + 1 := by omega
        rw [this]; exact hf

theorem exists_run_end (A : Nat → Bool) (N : Nat) (hN : ∀ k, N ≤ k → A k = false) (m f : Nat)
    (hm : N ≤ f + m) (hf : A f = true) :
    ∃ e, f < e ∧ A e = false ∧ ∀ k, f ≤ k → k < e → A k = true := by
  induction m generalizing f with
  | zero => have := hN f (by omega); rw [this] at hf; cases hf
  | succ m ih =>
    cases hA : A (f + 1) with
    | false => exact ⟨f + 1, by omega, hA, fun k h1 h2 => by have : k = f := (by omega); rw [this]; exact hf⟩
    | true =>
      obtain ⟨e, h1, h2, h3⟩ := ih (f + 1) (by omega) hA
      refine ⟨e, by omega, h2, fun k hk1 hk2 => ?_⟩
      rcases Nat.lt_or_ge k (f + 1) with h | h
      · have : k = f := by omega
        rw [this]; exact hf
      · exact h3 k h hk2

/-- every active frame lies in a maximal run -/
theorem exists_maxRun (A : Nat → Bool) (N : Nat) (hN : ∀ k, N ≤ k → A k = false) (f : Nat)
    (hf : A f = true) : ∃ s e, IsMaxRun A s e ∧ s ≤ f ∧ f < e := by
  obtain ⟨s, hs1, hs2, hs3⟩ := exists_run_start A f hf
  obtain ⟨e, he1, he2, he3⟩ := exists_run_end A N hN N f (by omega) hf
  refine ⟨s, e, ⟨by omega, fun k h1 h2 => ?_, hs3, he2⟩, hs1, he1⟩
  rcases Nat.lt_or_ge k f with h | h
  · exact hs2 k h1 (by omega)
  · exact he3 k h h2



/-- maximal runs of a union of pairwise separated intervals are exactly the intervals -/
theorem maxRun_of_separated (A : Nat → Bool) (S : List (Nat × Nat))
    (hA : ∀ k, A k = true ↔ ∃ ij ∈ S, ij.1 ≤ k ∧ k < ij.2)
    (hne : ∀ ij ∈ S, ij.1 < ij.2)
    (hsep : ∀ a ∈ S, ∀ b ∈ S, a = b ∨ a.2 < b.1 ∨ b.2 < a.1) (s e : Nat) :
    IsMaxRun A s e ↔ (s, e) ∈ S := by
  have hAf : ∀ k, A k = false ↔ ¬ ∃ ij ∈ S, ij.1 ≤ k ∧ k < ij.2 := by
    intro k
    rw [← hA k]
    cases A k <;> simp
  constructor
  · rintro ⟨h1, h2, h3, h4⟩
    -- the interval covering frame s
    obtain ⟨⟨a, b⟩, hab, ha1, ha2⟩ := (hA s).mp (h2 s (Nat.le_refl _) h1)
    simp only at ha1 ha2
    have hane := hne _ hab
    simp only at hane
    -- a = s
    have has : a = s := by
      rcases Nat.lt_or_ge a s with hlt | hge
      · exfalso
        rcases h3 with h0 | h0
        · omega
        · exact (hAf (s - 1)).mp h0 ⟨(a, b), hab, by simp only; omega, by simp only; omega⟩
      · omega
    subst has
    -- b = e
    have hbe : b = e := by
      rcases Nat.lt_trichotomy b e with hlt | heq | hgt
      · exfalso
        -- frame b is in the run, covered by another interval (a', b')
        obtain ⟨⟨a', b'⟩, hab', h1', h2'⟩ := (hA b).mp (h2 b (by omega) hlt)
        simp only at h1' h2'
        rcases hsep _ hab _ hab' with heq | hs | hs
        · cases heq; omega
        · simp only at hs; omega
        · simp only at hs; omega
      · exact heq
      · exfalso
        exact (hAf e).mp h4 ⟨(a, b), hab, by simp only; omega, by simp only; omega⟩
    subst hbe
    exact hab
  · intro hmem
    have hlt := hne _ hmem
    simp only at hlt
    refine ⟨hlt, fun k hk1 hk2 => (hA k).mpr ⟨(s, e), hmem, hk1, hk2⟩, ?_, ?_⟩
    · rcases Nat.eq_zero_or_pos s with h0 | hpos
      · exact Or.inl h0
      · right
        rw [hAf]
        rintro ⟨⟨a', b'⟩, hab', h1', h2'⟩
        simp only at h1' h2'
        rcases hsep _ hmem _ hab' with heq | hs | hs
        · cases heq; omega
        · simp only at hs; omega
        · simp only at hs; omega
    · rw [hAf]
      rintro ⟨⟨a', b'⟩, hab', h1', h2'⟩
      simp only at h1' h2'
      rcases hsep _ hmem _ hab' with heq | hs | hs
      · cases heq; omega
      · simp only at hs; omega
      · simp only at hs; omega



/-- a note may begin at frame `s`: active, onset predicted, and not the continuation of a held onset -/
def IsStart (A O : Nat → Bool) (s : Nat) : Prop :=
  A s = true ∧ O s = true ∧ (s = 0 ∨ O (s - 1) = false ∨ A (s - 1) = false)

/-- `[s, e)` is a note of the onset-aware decoder: it begins at a start frame, stays active without a
new start, and ends at the first frame that is inactive or a new start -/
def IsNote (A O : Nat → Bool) (s e : Nat) : Prop :=
  IsStart A O s ∧ s < e ∧ (∀ k, s < k → k < e → A k = true ∧ ¬ IsStart A O k) ∧
    (A e = false ∨ IsStart A O e)

/-- no note is sounding just before frame `i` -/
def NotOpen (A O : Nat → Bool) (i : Nat) : Prop :=
  ∀ s, s < i → IsStart A O s → (∀ k, s < k → k < i → A k = true ∧ ¬ IsStart A O k) → False

theorem IsNote.start_unique {A O : Nat → Bool} {s s' e : Nat} (h : IsNote A O s e) (h' : IsNote A O s' e) :
    s = s' := by
  rcases Nat.lt_trichotomy s s' with hlt | heq | hgt
  · exact absurd h'.1 (h.2.2.1 s' hlt h'.2.1).2
  · exact heq
  · exact absurd h.1 (h'.2.2.1 s hgt h.2.1).2

/-- velocity of a note that starts at frame `s` -/
def velAt (P : DParams) (V : Nat → Option Rat) (v0 : Int) (s : Nat) : Int :=
  if P.hasVel then (match V s with | some x => P.unscale x | none => v0) else v0


/-- what the decoder's per-pitch state means before frame `i` -/
def OnsInv (P : DParams) (A O : Nat → Bool) (V : Nat → Option Rat) (v0 : Int) (i : Nat) (o : Option Nat)
    (v : Int) : Prop :=
  match o with
  | some s => s < i ∧ IsStart A O s ∧ (∀ k, s < k → k < i → A k = true ∧ ¬ IsStart A O k) ∧
      v = velAt P V v0 s
  | none => NotOpen A O i ∧ (i = 0 ∨ A (i - 1) = false ∨ O (i - 1) = false)

theorem colScan_cons_noemit (P : DParams) (p i : Nat) (st st' : Cell) (c : CellIn) (cs' : List CellIn)
    (h1 : (cellStep P i p st c).1 = st') (h2 : (cellStep P i p st c).2.1 = none) :
    (colScan P p i st (c :: cs')).1 = (colScan P p (i + 1) st' cs').1 := by
  simp only [colScan, h1, h2]

theorem colScan_cons_emit (P : DParams) (p i : Nat) (st st' : Cell) (c : CellIn) (cs' : List CellIn) (e0 : Emit)
    (h1 : (cellStep P i p st c).1 = st') (h2 : (cellStep P i p st c).2.1 = some e0) :
    (colScan P p i st (c :: cs')).1 = e0 :: (colScan P p (i + 1) st' cs').1 := by
  simp only [colScan, h1, h2]

/-- with onset predictions, one pitch: the notes emitted from frame `i` on are the `IsNote` spans
ending at a frame `≥ i`, each with the velocity read at its start frame -/
theorem colScan_onsets (P : DParams) (hP : P.hasOn = true) (p : Nat) (A O : Nat → Bool)
    (V : Nat → Option Rat) (v0 : Int)
    (hV : P.hasVel = true → ∀ k, A k = true → O k = true → ∃ x, V k = some x)
    (cs : List CellIn) (i : Nat) (o : Option Nat) (v : Int)
    (hA : ∀ k (h : k < cs.length), cs[k].active = A (i + k) ∧ cs[k].on = O (i + k) ∧
        cs[k].prevOn = (if i + k = 0 then false else O (i + k - 1)) ∧ cs[k].vel = V (i + k))
    (hv : P.hasVel = false → v = v0)
    (ho : OnsInv P A O V v0 i o v)
    (e : Emit) :
    e ∈ (colScan P p i (o, v) cs).1 ↔
      e.pitch = p ∧ e.vel = velAt P V v0 e.s ∧ P.keep e.s e.e = true ∧ IsNote A O e.s e.e ∧
        i ≤ e.e ∧ e.e < i + cs.length := by
  induction cs generalizing i o v with
  | nil =>
    simp only [colScan, List.not_mem_nil, List.length_nil, Nat.add_zero, false_iff]
    intro h; omega
  | cons c cs' ih =>
    obtain ⟨hc1, hc2, hc3, hc4⟩ : c.active = A i ∧ c.on = O i ∧
        c.prevOn = (if i = 0 then false else O (i - 1)) ∧ c.vel = V i := by
      have h0 := hA 0 (Nat.zero_lt_succ _)
      simpa only [List.getElem_cons_zero, Nat.add_zero] using h0
    have hA' : ∀ k (h : k < cs'.length), cs'[k].active = A (i + 1 + k) ∧ cs'[k].on = O (i + 1 + k) ∧
        cs'[k].prevOn = (if i + 1 + k = 0 then false else O (i + 1 + k - 1)) ∧ cs'[k].vel = V (i + 1 + k) := by
      intro k hk
      have := hA (k + 1) (by simp only [List.length_cons]; omega)
      simp only [List.getElem_cons_succ] at this
      have e1 : i + (k + 1) = i + 1 + k := by omega
      rw [e1] at this
      exact this
    simp only [List.length_cons]
    -- a frame that emits nothing
    have noemit : ∀ (o' : Option Nat) (v' : Int), (cellStep P i p (o, v) c).1 = (o', v') →
        (cellStep P i p (o, v) c).2.1 = none → (P.hasVel = false → v' = v0) →
        OnsInv P A O V v0 (i + 1) o' v' →
        (∀ s, ¬ IsNote A O s i) →
        (e ∈ (colScan P p i (o, v) (c :: cs')).1 ↔
          e.pitch = p ∧ e.vel = velAt P V v0 e.s ∧ P.keep e.s e.e = true ∧ IsNote A O e.s e.e ∧
            i ≤ e.e ∧ e.e < i + (cs'.length + 1)) := by
      intro o' v' h1 h2 hv' hinv hno
      rw [colScan_cons_noemit P p i (o, v) (o', v') c cs' h1 h2, ih (i + 1) o' v' hA' hv' hinv]
      constructor
      · rintro ⟨a1, a2, a3, a4, a5, a6⟩; exact ⟨a1, a2, a3, a4, by omega, by omega⟩
      · rintro ⟨a1, a2, a3, a4, a5, a6⟩
        refine ⟨a1, a2, a3, a4, ?_, by omega⟩
        rcases Nat.lt_or_ge i e.e with h | h
        · omega
        · have : e.e = i := by omega
          rw [this] at a4; exact absurd a4 (hno _)
    -- a frame that closes the note started at s
    have emit : ∀ (s : Nat) (o' : Option Nat) (v' : Int), (cellStep P i p (o, v) c).1 = (o', v') →
        (cellStep P i p (o, v) c).2.1 = (if P.keep s i then some ⟨p, s, i, v⟩ else none) →
        v = velAt P V v0 s → IsNote A O s i → (P.hasVel = false → v' = v0) →
        OnsInv P A O V v0 (i + 1) o' v' →
        (e ∈ (colScan P p i (o, v) (c :: cs')).1 ↔
          e.pitch = p ∧ e.vel = velAt P V v0 e.s ∧ P.keep e.s e.e = true ∧ IsNote A O e.s e.e ∧
            i ≤ e.e ∧ e.e < i + (cs'.length + 1)) := by
      intro s o' v' h1 h2 hvs hnote hv' hinv
      have hl := ih (i + 1) o' v' hA' hv' hinv
      by_cases hk : P.keep s i = true
      · rw [if_pos hk] at h2
        rw [colScan_cons_emit P p i (o, v) (o', v') c cs' _ h1 h2, List.mem_cons, hl]
        constructor
        · rintro (rfl | ⟨a1, a2, a3, a4, a5, a6⟩)
          · exact ⟨rfl, hvs, hk, hnote, Nat.le_refl _, by simp⟩
          · exact ⟨a1, a2, a3, a4, by omega, by omega⟩
        · rintro ⟨a1, a2, a3, a4, a5, a6⟩
          rcases Nat.lt_or_ge i e.e with h | h
          · right; exact ⟨a1, a2, a3, a4, by omega, by omega⟩
          · left
            have hei : e.e = i := by omega
            have hs : e.s = s := by rw [hei] at a4; exact a4.start_unique hnote
            rw [hs] at a2
            cases e; simp_all
      · rw [if_neg hk] at h2
        rw [colScan_cons_noemit P p i (o, v) (o', v') c cs' h1 h2, hl]
        constructor
        · rintro ⟨a1, a2, a3, a4, a5, a6⟩; exact ⟨a1, a2, a3, a4, by omega, by omega⟩
        · rintro ⟨a1, a2, a3, a4, a5, a6⟩
          refine ⟨a1, a2, a3, a4, ?_, by omega⟩
          rcases Nat.lt_or_ge i e.e with h | h
          · omega
          · exfalso
            have hei : e.e = i := by omega
            have hs : e.s = s := by rw [hei] at a4; exact a4.start_unique hnote
            rw [hs, hei] at a3; exact hk a3
    -- invariant after a frame that leaves the pitch silent
    have inv_none_of_inactive : ∀ v', A i = false → OnsInv P A O V v0 (i + 1) none v' := by
      intro v' hAi
      unfold OnsInv
      refine ⟨fun s hs hst hall => ?_, Or.inr (Or.inl (by simpa using hAi))⟩
      rcases Nat.lt_or_ge s i with h | h
      · have := (hall i h (by omega)).1; rw [hAi] at this; cases this
      · have : s = i := by omega
        rw [this] at hst; have := hst.1; rw [hAi] at this; cases this
    cases hact : c.active with
    | false =>
      have hAi : A i = false := by rw [← hc1, hact]
      cases o with
      | none =>
        unfold OnsInv at ho
        obtain ⟨hno, _⟩ := ho
        apply noemit none v
        · simp [cellStep, hact]
        · simp [cellStep, hact]
        · exact hv
        · exact inv_none_of_inactive _ hAi
        · intro s hs
          exact hno s hs.2.1 hs.1 hs.2.2.1
      | some s =>
        unfold OnsInv at ho
        obtain ⟨ho1, ho2, ho3, ho4⟩ := ho
        apply emit s none v
        · simp only [cellStep, hact, endEmit, Bool.false_eq_true, ↓reduceIte]
        · simp only [cellStep, hact, endEmit, Bool.false_eq_true, ↓reduceIte]
          by_cases hk : P.keep s i = true <;> simp [hk]
        · exact ho4
        · exact ⟨ho2, ho1, ho3, Or.inl hAi⟩
        · exact hv
        · exact inv_none_of_inactive _ hAi
    | true =>
      have hAi : A i = true := by rw [← hc1, hact]
      -- the state after a start at frame i
      have inv_start : IsStart A O i → ∀ v', v' = velAt P V v0 i → OnsInv P A O V v0 (i + 1) (some i) v' := by
        intro hst v' hv'
        unfold OnsInv
        exact ⟨by omega, hst, fun k h1 h2 => by omega, hv'⟩
      have hstartVel : O i = true → (startCell P i p v c).1 = (some i, velAt P V v0 i) ∨
          (P.hasVel = false ∧ (startCell P i p v c).1 = (some i, v)) := by
        intro hOi
        unfold startCell velAt
        cases hhv : P.hasVel with
        | false => right; simp
        | true =>
          left
          obtain ⟨x, hx⟩ := hV hhv i hAi hOi
          simp [hc4, hx]
      cases o with
      | none =>
        unfold OnsInv at ho
        obtain ⟨hno, hprev⟩ := ho
        cases hOi : O i with
        | false =>
          apply noemit none v
          · simp [cellStep, hact, hP, hc2, hOi]
          · simp [cellStep, hact, hP, hc2, hOi]
          · exact hv
          · unfold OnsInv
            refine ⟨fun s hs hst hall => ?_, Or.inr (Or.inr (by simpa using hOi))⟩
            rcases Nat.lt_or_ge s i with h | h
            · exact hno s h hst (fun k h1 h2 => hall k h1 (by omega))
            · have : s = i := by omega
              rw [this] at hst; have := hst.2.1; rw [hOi] at this; cases this
          · intro s hs
            rcases hs.2.2.2 with h | h
            · rw [hAi] at h; cases h
            · have := h.2.1; rw [hOi] at this; cases this
        | true =>
          have hst : IsStart A O i := ⟨hAi, hOi, by
            rcases hprev with h | h | h
            · exact Or.inl h
            · exact Or.inr (Or.inr h)
            · exact Or.inr (Or.inl h)⟩
          have hnoNote : ∀ s, ¬ IsNote A O s i := fun s hs => hno s hs.2.1 hs.1 hs.2.2.1
          rcases hstartVel hOi with h | ⟨hhv, h⟩
          · apply noemit (some i) (velAt P V v0 i)
            · simp [cellStep, hact, hP, hc2, hOi, h]
            · simp [cellStep, hact, hP, hc2, hOi]
            · intro hhv; unfold velAt; simp [hhv]
            · exact inv_start hst _ rfl
            · exact hnoNote
          · apply noemit (some i) v
            · simp [cellStep, hact, hP, hc2, hOi, h]
            · simp [cellStep, hact, hP, hc2, hOi]
            · exact hv
            · exact inv_start hst v (by rw [hv hhv]; unfold velAt; simp [hhv])
            · exact hnoNote
      | some s =>
        unfold OnsInv at ho
        obtain ⟨ho1, ho2, ho3, ho4⟩ := ho
        have hi0 : i ≠ 0 := by omega
        have hprevOn : c.prevOn = O (i - 1) := by rw [hc3, if_neg hi0]
        have hAprev : A (i - 1) = true := by
          rcases Nat.lt_or_ge s (i - 1) with h | h
          · exact (ho3 (i - 1) h (by omega)).1
          · have : s = i - 1 := by omega
            rw [← this]; exact ho2.1
        by_cases hfresh : O i = true ∧ O (i - 1) = false
        · obtain ⟨hOi, hOp⟩ := hfresh
          have hst : IsStart A O i := ⟨hAi, hOi, Or.inr (Or.inl hOp)⟩
          have hnote : IsNote A O s i := ⟨ho2, ho1, ho3, Or.inr hst⟩
          rcases hstartVel hOi with h | ⟨hhv, h⟩
          · apply emit s (some i) (velAt P V v0 i)
            · simp [cellStep, hact, hP, hc2, hOi, hprevOn, hOp, h]
            · simp only [cellStep, hact, hP, hc2, hOi, hprevOn, hOp, endEmit]
              by_cases hk : P.keep s i = true <;> simp [hk]
            · exact ho4
            · exact hnote
            · intro hhv; unfold velAt; simp [hhv]
            · exact inv_start hst _ rfl
          · apply emit s (some i) v
            · simp [cellStep, hact, hP, hc2, hOi, hprevOn, hOp, h]
            · simp only [cellStep, hact, hP, hc2, hOi, hprevOn, hOp, endEmit]
              by_cases hk : P.keep s i = true <;> simp [hk]
            · exact ho4
            · exact hnote
            · exact hv
            · exact inv_start hst v (by rw [hv hhv]; unfold velAt; simp [hhv])
        · have hnotStart : ¬ IsStart A O i := by
            rintro ⟨_, hOi, h3⟩
            rcases h3 with h | h | h
            · exact hi0 h
            · exact hfresh ⟨hOi, h⟩
            · rw [hAprev] at h; cases h
          have hcond : (P.hasOn && c.on && !c.prevOn) = false := by
            rw [hP, hc2, hprevOn]
            cases h1 : O i <;> cases h2 : O (i - 1) <;> simp_all
          apply noemit (some s) v
          · simp [cellStep, hact, hcond]
          · simp [cellStep, hact, hcond]
          · exact hv
          · unfold OnsInv
            refine ⟨by omega, ho2, fun k h1 h2 => ?_, ho4⟩
            rcases Nat.lt_or_ge k i with h | h
            · exact ho3 k h1 h
            · have : k = i := by omega
              rw [this]; exact ⟨hAi, hnotStart⟩
          · intro s' hs'
            rcases hs'.2.2.2 with h | h
            · rw [hAi] at h; cases h
            · exact hnotStart h



/-- the arrays the decoder loops over, as functions (row `n` and beyond read `false` / `none`) -/
def onsCol (ons : List (List Bool)) (p : Nat) : Nat → Bool := fun k => getB (some (toMat ons)) k p
def actCol (frames ons : List (List Bool)) (offs : Option (List (List Bool))) (p : Nat) : Nat → Bool :=
  fun k => (getB (some (toMat frames)) k p || getB (some (toMat ons)) k p) &&
    !((getB (some (toMat frames)) k p || getB (some (toMat ons)) k p) && getB (offs.map toMat) k p)
def velCol (vels : Option (List (List Rat))) (p : Nat) : Nat → Option Rat :=
  fun k => getV (vels.map toMat) k p

theorem getM_some_of_rect {α} (m : List (List α)) (n w k p : Nat) (h : isRect m n w = true) (hk : k < n)
    (hp : p < w) : ∃ x, getM (toMat m) k p = some x := by
  unfold isRect at h
  simp only [Bool.and_eq_true, beq_iff_eq, List.all_eq_true] at h
  obtain ⟨hl, hr⟩ := h
  rw [getM_toMat]
  have hk' : k < m.length := by omega
  rw [List.getElem?_eq_getElem hk']
  simp only [Option.bind_some]
  have := hr m[k] (List.getElem_mem hk')
  exact ⟨m[k][p]'(by omega), List.getElem?_eq_getElem (by omega)⟩

theorem getB_true_lt' (m : List (List Bool)) (k p : Nat) (h : getB (some (toMat m)) k p = true) :
    k < m.length := getB_true_lt m k p h



/-- emission order: by end frame, then by pitch -/
def emitLt (a b : Emit) : Prop := a.e < b.e ∨ (a.e = b.e ∧ a.pitch < b.pitch)

theorem cellStep_emit {P : DParams} {i p : Nat} {st : Cell} {c : CellIn} {e : Emit}
    (h : (cellStep P i p st c).2.1 = some e) : e.e = i ∧ e.pitch = p := by
  obtain ⟨o, v⟩ := st
  unfold cellStep endEmit at h
  simp only at h
  split at h
  · split at h
    · split at h
      · split at h <;> simp at h
      · simp at h
    · split at h
      · simp only at h
        split at h
        · simp only [Option.some.injEq] at h; subst h; exact ⟨rfl, rfl⟩
        · simp at h
      · simp at h
  · split at h
    · simp only at h
      split at h
      · simp only [Option.some.injEq] at h; subst h; exact ⟨rfl, rfl⟩
      · simp at h
    · simp at h

theorem frameStep_sorted (P : DParams) (i : Nat) (p0 : Nat) (sts : List Cell) (cs : List CellIn) :
    (frameStep P i p0 sts cs).2.1.Pairwise (fun a b => a.pitch < b.pitch) ∧
    ∀ e ∈ (frameStep P i p0 sts cs).2.1, e.e = i ∧ p0 ≤ e.pitch := by
  induction sts generalizing p0 cs with
  | nil => cases cs <;> simp [frameStep]
  | cons s rest ih =>
    cases cs with
    | nil => simp [frameStep]
    | cons c cs' =>
      simp only [frameStep]
      obtain ⟨ih1, ih2⟩ := ih (p0 + 1) cs'
      cases hem : (cellStep P i p0 s c).2.1 with
      | none =>
        simp only
        exact ⟨ih1, fun e he => ⟨(ih2 e he).1, by have := (ih2 e he).2; omega⟩⟩
      | some e0 =>
        simp only
        obtain ⟨h1, h2⟩ := cellStep_emit hem
        constructor
        · rw [List.pairwise_cons]
          exact ⟨fun b hb => by have := (ih2 b hb).2; omega, ih1⟩
        · intro e he
          rcases List.mem_cons.mp he with rfl | he
          · exact ⟨h1, by omega⟩
          · exact ⟨(ih2 e he).1, by have := (ih2 e he).2; omega⟩

/-- the notes come out ordered by end frame, then pitch; in particular without repetition -/
theorem scan_sorted (P : DParams) (rows : List (List CellIn)) (i : Nat) (st : List Cell) :
    (scan P i st rows).1.Pairwise emitLt ∧ ∀ e ∈ (scan P i st rows).1, i ≤ e.e := by
  induction rows generalizing i st with
  | nil => simp [scan]
  | cons row rest ih =>
    simp only [scan]
    obtain ⟨f1, f2⟩ := frameStep_sorted P i 0 st row
    obtain ⟨ih1, ih2⟩ := ih (i + 1) (frameStep P i 0 st row).1
    constructor
    · rw [List.pairwise_append]
      refine ⟨f1.imp_of_mem (fun {a b} ha hb hab => ?_), ih1, fun a ha b hb => ?_⟩
      · right; exact ⟨by rw [(f2 a ha).1, (f2 b hb).1], hab⟩
      · left
        have := (f2 a ha).1
        have := ih2 b hb
        omega
    · intro e he
      rcases List.mem_append.mp he with h | h
      · have := (f2 e h).1; omega
      · have := ih2 e h; omega


theorem emitLt_irrefl (a : Emit) : ¬ emitLt a a := by unfold emitLt; omega

theorem nodup_of_sorted (l : List Emit) (h : l.Pairwise emitLt) : l.Nodup := by
  unfold List.Nodup
  exact h.imp (fun {a b} hab heq => by subst heq; exact emitLt_irrefl a hab)

end NSV.C18
