import NoteSeqVerif.Proofs.C06PAnnot
/-! C06 (performance half) — the renderer's integer part (`decLoop`, per-pitch dict of FIFO queues) against the
annotator (`anStep`, one list of open notes): on an accepted event list `_to_sequence` adds exactly one note per
NOTE_OFF, in NOTE_OFF order, from the FIFO-matched NOTE_ON's step to the NOTE_OFF's step, with the velocity in
force at the NOTE_ON (core Lean only). -/
namespace NSV.C06P
open NSV NSV.C07

/-- velocity of a NOTE_ON under bin `b` in force (`0` = no VELOCITY event yet: the `velocity` argument) -/
def velOf (nb v0 b : Int) : Int := if b = 0 then v0 else C07.Gen.velocityBinToVelocity b nb

/-- the note a NOTE_OFF event closes -/
def noteOfOff (nb v0 : Int) (a : AEv) : RNote := ⟨a.pitch, a.s, a.step, velOf nb v0 a.bin⟩

def projOpen (nb v0 : Int) (l : List OpenE) : List (Int × Int) := l.map (fun o => (o.s, velOf nb v0 o.bin))

def openOf (l : List OpenE) (p : Int) : List OpenE := l.filter (fun o => o.pitch == p)

/-! ### the open list, per pitch -/

theorem openOf_append (l : List OpenE) (o : OpenE) (q : Int) :
    openOf (l ++ [o]) q = if o.pitch = q then openOf l q ++ [o] else openOf l q := by
  unfold openOf
  by_cases h : o.pitch = q
  · simp [List.filter_append, h]
  · simp [List.filter_append, h]

theorem openOf_find_none (l : List OpenE) (p : Int) (h : l.find? (fun o => o.pitch == p) = none) :
    openOf l p = [] := by
  unfold openOf
  rw [List.filter_eq_nil_iff]
  intro o ho
  have := List.find?_eq_none.mp h o ho
  exact this

theorem openOf_find_some : ∀ (l : List OpenE) (p : Int) (o : OpenE), l.find? (fun o => o.pitch == p) = some o →
    openOf l p = o :: openOf (l.eraseP (fun o => o.pitch == p)) p ∧
    ∀ q, q ≠ p → openOf (l.eraseP (fun o => o.pitch == p)) q = openOf l q := by
  intro l
  induction l with
  | nil => intro p o h; simp at h
  | cons x xs ih =>
    intro p o h
    by_cases hx : x.pitch = p
    · have hx' : (x.pitch == p) = true := by simp [hx]
      simp only [List.find?_cons, hx', Option.some.injEq] at h
      subst h
      simp only [List.eraseP_cons, hx', cond_true]
      refine ⟨by simp [openOf, hx'], fun q hq => ?_⟩
      have : (x.pitch == q) = false := by simp [hx]; exact fun h => hq h.symm
      simp [openOf, this]
    · have hx' : (x.pitch == p) = false := by simp [hx]
      simp only [List.find?_cons, hx'] at h
      obtain ⟨i1, i2⟩ := ih p o h
      simp only [List.eraseP_cons, hx', cond_false]
      refine ⟨?_, fun q hq => ?_⟩
      · simp only [openOf, List.filter_cons, hx', Bool.false_eq_true, ↓reduceIte]
        exact i1
      · simp only [openOf, List.filter_cons]
        have := i2 q hq
        simp only [openOf] at this
        rw [this]

/-! ### the dict -/

structure TabRel (nb v0 : Int) (tab : Tab) (open_ : List OpenE) : Prop where
  keys : tab.Pairwise (fun a b => a.1 ≠ b.1)
  vals : ∀ e ∈ tab, e.2 = projOpen nb v0 (openOf open_ e.1)
  absent : ∀ p, (∀ e ∈ tab, e.1 ≠ p) → openOf open_ p = []

theorem tabGet_rel {nb v0 : Int} {tab : Tab} {open_ : List OpenE} (h : TabRel nb v0 tab open_) (p : Int) :
    tabGet tab p = projOpen nb v0 (openOf open_ p) := by
  unfold tabGet
  cases hf : tab.find? (fun e => e.1 == p) with
  | none =>
    have : ∀ e ∈ tab, e.1 ≠ p := by
      intro e he
      have := List.find?_eq_none.mp hf e he
      simpa using this
    simp only [h.absent p this, projOpen, List.map_nil]
  | some e =>
    have he : e ∈ tab := List.mem_of_find?_eq_some hf
    have hp : e.1 = p := by have := List.find?_some hf; simpa using this
    simp only [h.vals e he, hp]

theorem tabSet_rel {nb v0 : Int} {tab : Tab} {open_ open' : List OpenE} (h : TabRel nb v0 tab open_) (p : Int)
    (l : List (Int × Int)) (hl : l = projOpen nb v0 (openOf open' p))
    (hother : ∀ q, q ≠ p → openOf open' q = openOf open_ q) : TabRel nb v0 (tabSet tab p l) open' := by
  unfold tabSet
  by_cases hany : tab.any (fun e => e.1 == p) = true
  · simp only [hany, ↓reduceIte]
    refine ⟨?_, ?_, ?_⟩
    · rw [List.pairwise_map]
      refine h.keys.imp ?_
      intro a b hab
      by_cases ha : a.1 = p <;> by_cases hb : b.1 = p <;> simp [ha, hb] <;> grind
    · intro e he
      obtain ⟨e0, he0, rfl⟩ := List.mem_map.mp he
      by_cases ha : e0.1 = p
      · simp [ha, hl]
      · simp only [beq_iff_eq, ha, ↓reduceIte]
        rw [h.vals e0 he0, hother e0.1 ha]
    · intro q hq
      have hqp : q ≠ p := by
        obtain ⟨e0, he0, hp0⟩ := List.any_eq_true.mp hany
        have hp0' : e0.1 = p := by simpa using hp0
        have := hq (if e0.1 == p then (p, l) else e0) (List.mem_map.mpr ⟨e0, he0, rfl⟩)
        simp only [beq_iff_eq, hp0', ↓reduceIte] at this
        exact fun h => this h.symm
      rw [hother q hqp]
      apply h.absent
      intro e0 he0 heq
      have := hq (if e0.1 == p then (p, l) else e0) (List.mem_map.mpr ⟨e0, he0, rfl⟩)
      have hne : ¬ e0.1 = p := by rw [heq]; exact hqp
      simp only [beq_iff_eq, hne, ↓reduceIte] at this
      exact this heq
  · simp only [hany, Bool.false_eq_true, ↓reduceIte]
    have hnone : ∀ e ∈ tab, e.1 ≠ p := by
      intro e he hp
      exact hany (List.any_eq_true.mpr ⟨e, he, by simp [hp]⟩)
    refine ⟨?_, ?_, ?_⟩
    · rw [List.pairwise_append]
      refine ⟨h.keys, by simp, ?_⟩
      intro a ha b hb
      simp only [List.mem_singleton] at hb
      subst hb
      exact hnone a ha
    · intro e he
      simp only [List.mem_append, List.mem_singleton] at he
      rcases he with he | rfl
      · rw [h.vals e he, hother e.1 (hnone e he)]
      · exact hl
    · intro q hq
      have hqp : q ≠ p := by
        have := hq (p, l) (by simp)
        exact fun h => this h.symm
      rw [hother q hqp]
      exact h.absent q (fun e he => hq e (List.mem_append_left _ he))

/-! ### decoder against annotator -/

structure DRel (nb v0 : Int) (st : AnState) (d : DState) : Prop where
  out : d.out = st.offs.map (noteOfOff nb v0)
  tab : TabRel nb v0 d.tab st.open_

theorem DRel.init (nb v0 : Int) : DRel nb v0 ⟨0, [], [], true⟩ ⟨0, v0, [], []⟩ :=
  ⟨rfl, ⟨by simp, by intro e he; simp at he, by intro p _; rfl⟩⟩

/-- every NOTE_OFF of the final annotated stream ends after its note started -/
def PosLen (out : List AEv) : Prop := ∀ a ∈ out, a.isOff = true → a.s < a.step

theorem decLoop_annot (nb v0 : Int) : ∀ (evs : List PEvent) (cur bin : Int) (st : AnState) (d : DState),
    DRel nb v0 st d → d.step = cur → d.vel = velOf nb v0 bin →
    (∀ x ∈ evs, x.valid = true) → (∀ x ∈ evs, ∀ v, x ≠ PEvent.duration v) →
    (nb = 0 → ∀ x ∈ evs, ∀ b, x ≠ PEvent.velocity b) →
    (anRun st (stream cur bin evs)).ok = true → PosLen (anRun st (stream cur bin evs)).out →
    ∃ d', decLoop nb d evs = .ok d' ∧ DRel nb v0 (anRun st (stream cur bin evs)) d' ∧
      d'.step = cur + shiftSum evs := by
  intro evs
  induction evs with
  | nil =>
    intro cur bin st d hrel hstep _ _ _ _ _ _
    exact ⟨d, rfl, hrel, by simp [shiftSum, hstep]⟩
  | cons x r ih =>
    intro cur bin st d hrel hstep hvel hvalid hnodur hnovel hok hpos
    have hvalid' : ∀ y ∈ r, y.valid = true := fun y hy => hvalid y (List.mem_cons_of_mem _ hy)
    have hnodur' : ∀ y ∈ r, ∀ v, y ≠ PEvent.duration v := fun y hy => hnodur y (List.mem_cons_of_mem _ hy)
    have hnovel' : nb = 0 → ∀ y ∈ r, ∀ b, y ≠ PEvent.velocity b :=
      fun h0 y hy => hnovel h0 y (List.mem_cons_of_mem _ hy)
    cases x with
    | timeShift v =>
      simp only [stream] at hok hpos ⊢
      obtain ⟨d', h1, h2, h3⟩ := ih (cur + v) bin st { d with step := d.step + v } ⟨hrel.out, hrel.tab⟩
        (by simp [hstep]) hvel hvalid' hnodur' hnovel' hok hpos
      refine ⟨d', ?_, h2, ?_⟩
      · simp only [decLoop, decStep]; exact h1
      · rw [h3]; simp only [shiftSum]; omega
    | duration v => exact absurd rfl (hnodur _ (List.mem_cons_self ..) v)
    | velocity b =>
      simp only [stream] at hok hpos ⊢
      have hnb : ¬ nb = 0 := fun h0 => hnovel h0 _ (List.mem_cons_self ..) b rfl
      have hb : 1 ≤ b := by
        have := hvalid _ (List.mem_cons_self ..)
        simp only [PEvent.valid, Bool.and_eq_true, decide_eq_true_eq] at this
        exact this.1
      obtain ⟨d', h1, h2, h3⟩ := ih cur b st { d with vel := C07.Gen.velocityBinToVelocity b nb } ⟨hrel.out, hrel.tab⟩
        hstep (by simp only [velOf]; rw [if_neg (by omega)]) hvalid' hnodur' hnovel' hok hpos
      refine ⟨d', ?_, h2, ?_⟩
      · simp only [decLoop, decStep, hnb, ↓reduceIte]; exact h1
      · rw [h3]; simp only [shiftSum]
    | noteOn p =>
      simp only [stream] at hok hpos ⊢
      rw [anRun_cons] at hok hpos ⊢
      have hst1 : anStep st ⟨cur, false, p, bin⟩ = ⟨st.nOn + 1, st.open_ ++ [⟨p, st.nOn, cur, bin⟩],
          st.out ++ [⟨cur, st.nOn, false, p, cur, bin⟩], st.ok⟩ := by
        simp [anStep]
      have hrel1 : DRel nb v0 (anStep st ⟨cur, false, p, bin⟩)
          { d with tab := tabSet d.tab p (tabGet d.tab p ++ [(d.step, d.vel)]) } := by
        rw [hst1]
        refine ⟨?_, ?_⟩
        · simp only [AnState.offs, List.filter_append, List.filter_cons, Bool.false_eq_true, ↓reduceIte,
            List.filter_nil, List.append_nil]
          exact hrel.out
        · apply tabSet_rel hrel.tab p
          · rw [tabGet_rel hrel.tab p, openOf_append]
            simp only [↓reduceIte, projOpen, List.map_append, List.map_cons, List.map_nil, hstep, hvel]
          · intro q hq
            rw [openOf_append]
            simp only [show ¬ p = q from fun h => hq h.symm, ↓reduceIte]
      obtain ⟨d', h1, h2, h3⟩ := ih cur bin _ _ hrel1 hstep hvel hvalid' hnodur' hnovel' hok hpos
      refine ⟨d', ?_, h2, ?_⟩
      · simp only [decLoop, decStep]; exact h1
      · rw [h3]; simp only [shiftSum]
    | noteOff p =>
      simp only [stream] at hok hpos ⊢
      rw [anRun_cons] at hok hpos ⊢
      have hok1 := anRun_ok _ _ hok
      cases hf : st.open_.find? (fun o => o.pitch == p) with
      | none =>
        have : (anStep st ⟨cur, true, p, 0⟩).ok = false := by simp [anStep, hf]
        rw [this] at hok1; exact absurd hok1 (by simp)
      | some o =>
        have hst1 : anStep st ⟨cur, true, p, 0⟩ = ⟨st.nOn, st.open_.eraseP (fun o => o.pitch == p),
            st.out ++ [⟨cur, o.idx, true, p, o.s, o.bin⟩], st.ok⟩ := by
          simp [anStep, hf]
        obtain ⟨hsplit, hothers⟩ := openOf_find_some st.open_ p o hf
        -- the closed note has positive length
        have hlen : o.s < cur := by
          obtain ⟨new, hnew⟩ := anRun_out (anStep st ⟨cur, true, p, 0⟩) (stream cur bin r)
          have hmem : (⟨cur, o.idx, true, p, o.s, o.bin⟩ : AEv) ∈ (anRun (anStep st ⟨cur, true, p, 0⟩) (stream cur bin r)).out := by
            rw [hnew, hst1]; simp
          exact hpos _ hmem rfl
        have hget : tabGet d.tab p = (o.s, velOf nb v0 o.bin) :: projOpen nb v0 (openOf (st.open_.eraseP (fun o => o.pitch == p)) p) := by
          rw [tabGet_rel hrel.tab p, hsplit]; rfl
        have hne : ¬ d.step = o.s := by omega
        have hrel1 : DRel nb v0 (anStep st ⟨cur, true, p, 0⟩)
            ⟨d.step, d.vel, tabSet d.tab p (projOpen nb v0 (openOf (st.open_.eraseP (fun o => o.pitch == p)) p)),
              d.out ++ [⟨p, o.s, d.step, velOf nb v0 o.bin⟩]⟩ := by
          rw [hst1]
          refine ⟨?_, ?_⟩
          · simp only [AnState.offs, List.filter_append, List.filter_cons, ↓reduceIte, List.filter_nil,
              List.map_append, List.map_cons, List.map_nil, noteOfOff, hstep]
            rw [hrel.out]; rfl
          · exact tabSet_rel hrel.tab p _ rfl hothers
        obtain ⟨d', h1, h2, h3⟩ := ih cur bin _ _ hrel1 hstep hvel hvalid' hnodur' hnovel' hok hpos
        refine ⟨d', ?_, h2, ?_⟩
        · simp only [decLoop, decStep, hget, hne, ↓reduceIte]; exact h1
        · rw [h3]; simp only [shiftSum]

/-- **what `_to_sequence` adds** for an accepted event list: one note per NOTE_OFF, in NOTE_OFF order -/
theorem decodeEvents_annot (nb v0 : Int) (evs : List PEvent)
    (hvalid : ∀ x ∈ evs, x.valid = true) (hnodur : ∀ x ∈ evs, ∀ v, x ≠ PEvent.duration v)
    (hnovel : nb = 0 → ∀ x ∈ evs, ∀ b, x ≠ PEvent.velocity b)
    (hok : (annotate (stream 0 0 evs)).ok = true) (hopen : (annotate (stream 0 0 evs)).open_ = [])
    (hpos : PosLen (annotate (stream 0 0 evs)).out) :
    decodeEvents nb v0 evs = .ok ((annotate (stream 0 0 evs)).offs.map (noteOfOff nb v0)) := by
  obtain ⟨d', h1, h2, _⟩ := decLoop_annot nb v0 evs 0 0 ⟨0, [], [], true⟩ ⟨0, v0, [], []⟩ (DRel.init nb v0) rfl
    (by simp [velOf]) hvalid hnodur hnovel hok hpos
  unfold decodeEvents
  rw [h1]
  simp only
  have hclose : closeOpen d'.step d'.tab = [] := by
    unfold closeOpen
    rw [List.flatMap_eq_nil_iff]
    intro e he
    have := h2.tab.vals e he
    rw [← annotate_eq, hopen] at this
    simp only [openOf, List.filter_nil, projOpen, List.map_nil] at this
    simp [this]
  rw [hclose, List.append_nil, h2.out]
  rfl

end NSV.C06P
