import Mathlib.Data.Int.Log
import Mathlib.Tactic.Positivity
import NoteSeqVerif.Proofs.RoundingInt
/-! `NSV.floorLog2 n d = Int.log 2 (n / d)`: the executable exponent finder computes the binade
`2^e ≤ n/d < 2^(e+1)`. -/
namespace NSV

theorem ilog2_unique {x : ℚ} (hx : 0 < x) {e : ℤ} (h1 : (2 : ℚ) ^ e ≤ x)
    (h2 : x < (2 : ℚ) ^ (e + 1)) : Int.log 2 x = e := by
  have a : e ≤ Int.log 2 x :=
    (Int.zpow_le_iff_le_log (by norm_num) hx).mp (by simpa using h1)
  have b : Int.log 2 x < e + 1 :=
    (Int.lt_zpow_iff_log_lt (by norm_num) hx).mp (by simpa using h2)
  omega

theorem ilog2_le {x : ℚ} (hx : 0 < x) : (2 : ℚ) ^ Int.log 2 x ≤ x := by
  simpa using Int.zpow_log_le_self (b := 2) (by norm_num) hx

theorem ilog2_lt (x : ℚ) : x < (2 : ℚ) ^ (Int.log 2 x + 1) := by
  simpa using Int.lt_zpow_succ_log_self (b := 2) (by norm_num) x

theorem ilog2_mono {a b : ℚ} (ha : 0 < a) (h : a ≤ b) : Int.log 2 a ≤ Int.log 2 b :=
  Int.log_mono_right ha h

theorem two_zpow_pos (e : ℤ) : (0 : ℚ) < (2 : ℚ) ^ e := zpow_pos (by norm_num) e

theorem ilog2_mul_zpow {x : ℚ} (hx : 0 < x) (k : ℤ) :
    Int.log 2 (x * (2 : ℚ) ^ k) = Int.log 2 x + k := by
  have hk := two_zpow_pos k
  apply ilog2_unique (mul_pos hx hk)
  · rw [zpow_add₀ (by norm_num)]
    exact mul_le_mul_of_nonneg_right (ilog2_le hx) hk.le
  · rw [show Int.log 2 x + k + 1 = (Int.log 2 x + 1) + k by ring, zpow_add₀ (by norm_num)]
    exact mul_lt_mul_of_pos_right (ilog2_lt x) hk

theorem floorLog2_eq (n d : ℕ) (hn : 0 < n) (hd : 0 < d) :
    floorLog2 n d = Int.log 2 ((n : ℚ) / d) := by
  have hnq : (0 : ℚ) < n := by exact_mod_cast hn
  have hdq : (0 : ℚ) < d := by exact_mod_cast hd
  have hx : (0 : ℚ) < (n : ℚ) / d := div_pos hnq hdq
  have n1 : ((2 : ℚ) ^ (Nat.log2 n)) ≤ n := by
    exact_mod_cast @Nat.log2_self_le n (by omega)
  have n2 : (n : ℚ) < (2 : ℚ) ^ (Nat.log2 n + 1) := by
    exact_mod_cast @Nat.lt_log2_self n
  have d1 : ((2 : ℚ) ^ (Nat.log2 d)) ≤ d := by
    exact_mod_cast @Nat.log2_self_le d (by omega)
  have d2 : (d : ℚ) < (2 : ℚ) ^ (Nat.log2 d + 1) := by
    exact_mod_cast @Nat.lt_log2_self d
  unfold floorLog2
  simp only
  generalize Nat.log2 n = ln at *
  generalize Nat.log2 d = ld at *
  have two_ne : (2 : ℚ) ≠ 0 := by norm_num
  have pl : (0 : ℚ) < 2 ^ ln := by positivity
  have pd : (0 : ℚ) < 2 ^ ld := by positivity
  -- (B) 2^(e0-1) < x
  have hB : (2 : ℚ) ^ ((ln : ℤ) - ld - 1) < (n : ℚ) / d := by
    rw [show (ln : ℤ) - ld - 1 = (ln : ℤ) - ((ld + 1 : ℕ) : ℤ) by push_cast; ring,
      zpow_sub₀ two_ne, zpow_natCast, zpow_natCast, div_lt_div_iff₀ (by positivity) hdq]
    calc (2 : ℚ) ^ ln * d < 2 ^ ln * 2 ^ (ld + 1) := mul_lt_mul_of_pos_left d2 pl
      _ ≤ n * 2 ^ (ld + 1) := mul_le_mul_of_nonneg_right n1 (by positivity)
  -- (C) x < 2^(e0+1)
  have hC : (n : ℚ) / d < (2 : ℚ) ^ ((ln : ℤ) - ld + 1) := by
    rw [show (ln : ℤ) - ld + 1 = ((ln + 1 : ℕ) : ℤ) - (ld : ℤ) by push_cast; ring,
      zpow_sub₀ two_ne, zpow_natCast, zpow_natCast, div_lt_div_iff₀ hdq pd]
    calc (n : ℚ) * 2 ^ ld < 2 ^ (ln + 1) * 2 ^ ld := mul_lt_mul_of_pos_right n2 pd
      _ ≤ 2 ^ (ln + 1) * d := mul_le_mul_of_nonneg_left d1 (by positivity)
  -- (A) the test decides 2^e0 ≤ x
  have hA : (if (0 : ℤ) ≤ (ln : ℤ) - ld then decide (d * 2 ^ ((ln : ℤ) - ld).toNat ≤ n)
      else decide (d ≤ n * 2 ^ (-((ln : ℤ) - ld)).toNat)) = true ↔
      (2 : ℚ) ^ ((ln : ℤ) - ld) ≤ (n : ℚ) / d := by
    by_cases h0 : (0 : ℤ) ≤ (ln : ℤ) - ld
    · simp only [h0, if_true, decide_eq_true_eq]
      obtain ⟨k, hk⟩ := Int.eq_ofNat_of_zero_le h0
      rw [hk, Int.toNat_natCast, zpow_natCast, le_div_iff₀ hdq, mul_comm]
      exact_mod_cast Iff.rfl
    · simp only [h0, if_false, decide_eq_true_eq]
      obtain ⟨k, hk⟩ := Int.eq_ofNat_of_zero_le (show (0 : ℤ) ≤ -((ln : ℤ) - ld) by omega)
      rw [hk, Int.toNat_natCast, show (ln : ℤ) - ld = -(k : ℤ) by omega, zpow_neg, zpow_natCast,
        inv_eq_one_div, div_le_div_iff₀ (by positivity) hdq, one_mul]
      exact_mod_cast Iff.rfl
  by_cases hge : (2 : ℚ) ^ ((ln : ℤ) - ld) ≤ (n : ℚ) / d
  · rw [if_pos (hA.mpr hge)]
    exact (ilog2_unique hx hge hC).symm
  · rw [if_neg (fun h => hge (hA.mp h))]
    refine (ilog2_unique hx hB.le ?_).symm
    rw [show (ln : ℤ) - ld - 1 + 1 = (ln : ℤ) - ld by ring]
    exact lt_of_not_ge hge

end NSV
