import NoteSeqVerif.Proofs.C04_playerQ
import Mathlib.Tactic.Positivity
import Mathlib.Algebra.Order.Field.Basic
/-! C04 — the repeat clause in general: tunes WITH broken-rhythm tokens and WITH degenerate backward
repeats.  The invariant links the parser state (notes, sections, section groups, expected count) to the
player `PlayerQ` over the item list; sections are tiled by their notes, which also gives the onsets of the
expansion as running sums.  Exact arithmetic (`R = id`). -/
namespace NSV.C04
open NSV

/-! ## list facts -/

theorem Tiled.split : ∀ {s : Rat} {a b : List Note}, Tiled s (a ++ b) → Tiled s a ∧ Tiled (s + (a.map dur).sum) b
  | s, [], b, h => by simpa [Tiled.nil] using h
  | s, n :: r, b, h => by
    obtain ⟨h1, h2⟩ := Tiled.cons (r := r ++ b) h
    obtain ⟨i1, i2⟩ := Tiled.split h2
    refine ⟨Tiled.mk_cons h1 i1, ?_⟩
    have : s + ((n :: r).map dur).sum = n.end_ + (r.map dur).sum := by
      simp only [List.map_cons, List.sum_cons]; rw [← h1]; unfold dur; ring
    rw [this]; exact i2

theorem blockNotes_ne_nil {bs : List Block} {T : Rat} (hwf : BlocksWF bs T) (ht : BlocksTiled bs T)
    (hne : bs ≠ []) : blockNotes bs ≠ [] := by
  cases bs with
  | nil => exact absurd rfl hne
  | cons b rest =>
    obtain ⟨s, ns⟩ := b
    have h1 : s < endOf rest T := hwf.1
    have h2 : s + (ns.map dur).sum = endOf rest T := ht.2.1
    have hns : ns ≠ [] := by
      intro he; subst he; simp at h2; linarith
    simp [blockNotes, hns]

theorem block_ne_nil {bs : List Block} {T : Rat} (hwf : BlocksWF bs T) (ht : BlocksTiled bs T) :
    ∀ b ∈ bs, b.2 ≠ [] := by
  induction bs with
  | nil => simp
  | cons b rest ih =>
    obtain ⟨s, ns⟩ := b
    intro x hx
    rcases List.mem_cons.mp hx with rfl | hx
    · have h1 : s < endOf rest T := hwf.1
      have h2 : s + (ns.map dur).sum = endOf rest T := ht.2.1
      intro he; simp only at he; subst he; simp at h2; linarith
    · exact ih hwf.2.2 ht.2.2 x hx

theorem blockNotes_last_end : ∀ {bs : List Block} {T : Rat} {n : Note}, BlocksWF bs T → BlocksTiled bs T →
    (blockNotes bs).getLast? = some n → n.end_ = T
  | [], _, _, _, _, h => by simp [blockNotes] at h
  | (s, ns) :: rest, T, n, hwf, ht, h => by
    have hnotes : blockNotes ((s, ns) :: rest) = ns ++ blockNotes rest := by simp [blockNotes]
    rw [hnotes, List.getLast?_append] at h
    cases rest with
    | nil =>
      simp only [blockNotes, List.flatMap_nil, List.getLast?_nil, Option.none_or] at h
      have := ht.1.last h
      rw [this]; exact ht.2.1
    | cons b r =>
      have hne := blockNotes_ne_nil hwf.2.2 ht.2.2 (by simp)
      cases hl : (blockNotes (b :: r)).getLast? with
      | none => rw [List.getLast?_eq_none_iff] at hl; exact absurd hl hne
      | some m =>
        rw [hl] at h
        simp only [Option.some_or, Option.some.injEq] at h
        subst h
        exact blockNotes_last_end hwf.2.2 ht.2.2 hl

theorem blockPd_snoc_lt (bs : List Block) (b : Block) (i : Int) (h0 : 0 ≤ i) (h1 : i < bs.length) :
    blockPd (bs ++ [b]) i = blockPd bs i := by
  unfold blockPd
  rw [List.getElem?_append_left (by omega)]

theorem blockPd_snoc_self (bs : List Block) (b : Block) : blockPd (bs ++ [b]) (bs.length : Int) = b.2.map pd := by
  obtain ⟨s, ns⟩ := b
  simp [blockPd]

theorem blockPd_last (bs : List Block) (b : Block) : blockPd (bs ++ [b]) (((bs ++ [b]).length : Int) - 1) = b.2.map pd := by
  have : (((bs ++ [b]).length : Int) - 1) = (bs.length : Int) := by simp
  rw [this]; exact blockPd_snoc_self bs b

/-! ## `_apply_broken_rhythm`, exact arithmetic, any two notes it accepts -/

/-- the first note keeps its start, its duration is multiplied by a positive factor; the second keeps
its end and starts later / earlier by the same amount the first one ends later / earlier -/
theorem applyBroken_shape {notes L : List Note} {gt : Bool} {k : Nat} (h : applyBroken id notes gt k = .ok L) :
    ∃ pre n1 n2 e1 e2 c, notes = pre ++ [n1, n2] ∧ 0 < c ∧ e1 - n1.start = (n1.end_ - n1.start) * c ∧
      e2 - n2.start = e1 - n1.end_ ∧ L = pre ++ [{ n1 with end_ := e1 }, { n2 with start := e2 }] := by
  unfold applyBroken at h
  split at h
  · rename_i n2 n1 rest hr
    have hn : notes = rest.reverse ++ [n1, n2] := by
      have := congrArg List.reverse hr
      simpa using this
    simp only [id] at h
    split at h
    · simp at h
    have h2k : (0 : Rat) < 2 ^ k := by positivity
    have hle : (1 : Rat) / 2 ^ k ≤ 1 := by
      rw [div_le_one h2k]
      exact one_le_pow₀ (by norm_num)
    split at h
    · simp only [Except.ok.injEq] at h
      refine ⟨rest.reverse, n1, n2, _, _, 2 - 1 / 2 ^ k, hn, by linarith, ?_, ?_, h.symm⟩
      · field_simp; ring
      · ring
    · simp only [Except.ok.injEq] at h
      refine ⟨rest.reverse, n1, n2, _, _, 1 / 2 ^ k, hn, by positivity, ?_, ?_, h.symm⟩
      · field_simp; ring
      · ring
  · simp at h

/-- what a note token does when a broken rhythm is pending -/
theorem stepNote_pending {st st' : St} {a : Acc} {l : Char} {o : List Bool} {len : LenSpec} {gt : Bool} {k : Nat}
    (hb : st.broken = some (gt, k)) (h : stepNote id st a l o len = .ok st') :
    ∃ pre n1 e1 e2 p t2 c, st.notes = pre ++ [n1] ∧ 0 < c ∧ e1 - n1.start = (n1.end_ - n1.start) * c ∧
      e2 - st.time = e1 - n1.end_ ∧
      st'.notes = pre ++ [{ n1 with end_ := e1 }, { newNote p st.time t2 with start := e2 }] ∧
      st'.time = t2 ∧ st'.sections = st.sections ∧ st'.groups = st.groups ∧ st'.expected = st.expected ∧
      st'.broken = none := by
  obtain ⟨base, delta, barAcc', u, ln, dt, notes', _, _, _, _, _, _, _, hn, rfl⟩ := stepNote_ok h
  rw [hb] at hn
  simp only at hn
  obtain ⟨pre, n1, n2, e1, e2, c, hsplit, hc, he1, he2, rfl⟩ := applyBroken_shape hn
  have hs : st.notes ++ [newNote (base + delta + octaveShift o) st.time (id (st.time + dt))] = (pre ++ [n1]) ++ [n2] := by
    rw [hsplit]; simp
  obtain ⟨h1, h2⟩ := List.append_inj' hs rfl
  simp only [List.cons.injEq, and_true] at h2
  subst h2
  exact ⟨pre, n1, e1, e2, _, _, c, h1, hc, he1, he2, rfl, rfl, rfl, rfl, rfl, rfl⟩

/-- positivity of the notes goes back through a step: a note that is positive after a broken rhythm
has been applied to it was positive before -/
theorem stepItem_pos_back {st st' : St} {i : Item} (h : stepItem id st i = .ok st')
    (hp : ∀ n ∈ st'.notes, n.start < n.end_) : ∀ n ∈ st.notes, n.start < n.end_ := by
  cases i with
  | field f =>
    simp only [stepItem] at h
    rw [(parseField_frame h).1] at hp; exact hp
  | start =>
    simp only [stepItem] at h
    obtain ⟨u, t, rfl⟩ := startMusic_shape h
    exact hp
  | tok t =>
    simp only [stepItem] at h
    rcases stepTok_cases h with ⟨a, l, o, n, rfl⟩ | ⟨f, rfl⟩ | ⟨a, b, c, rfl⟩ | ⟨n, rfl⟩ | ⟨gt, n, rfl, rfl⟩ |
      ⟨x, rfl, rfl⟩ | ⟨rfl, ht⟩
    · simp only [stepTok] at h
      cases hb : st.broken with
      | none =>
        obtain ⟨base, delta, barAcc', u, len, dt, notes', _, _, _, _, _, _, _, hn, rfl⟩ := stepNote_ok h
        rw [hb] at hn
        simp only at hn
        subst hn
        intro m hm
        exact hp m (List.mem_append_left _ hm)
      | some gk =>
        obtain ⟨gt, k⟩ := gk
        obtain ⟨pre, n1, e1, e2, p, t2, c, h1, hc, he1, _, hn', _⟩ := stepNote_pending hb h
        intro m hm
        rw [h1] at hm
        rcases List.mem_append.mp hm with hm | hm
        · exact hp m (by rw [hn']; exact List.mem_append_left _ hm)
        · simp only [List.mem_singleton] at hm
          subst hm
          have := hp { m with end_ := e1 } (by rw [hn']; simp)
          simp only at this
          have h0 : 0 < (m.end_ - m.start) * c := by rw [← he1]; linarith
          have : 0 < m.end_ - m.start := by
            by_contra hle
            have : (m.end_ - m.start) * c ≤ 0 := mul_nonpos_of_nonpos_of_nonneg (by linarith) hc.le
            linarith
          linarith
    · simp only [stepTok] at h
      rw [(parseField_frame h).1] at hp; exact hp
    · simp only [stepTok] at h
      obtain ⟨secs, g, e, rfl⟩ := stepBar_shape h
      exact hp
    · simp only [stepTok] at h
      obtain ⟨secs, g, e, rfl⟩ := stepColons_shape h
      exact hp
    · exact hp
    · exact hp
    · exact hp

/-! ## broken rhythm inside a bar (syntactic) -/

/-- flags `(clean, pending)`: `clean` = a note has been read and no bar token since; `pending` = a
broken-rhythm token waits for its second note.  `none`: a bar token inside a broken pair, or a
broken-rhythm token that is not preceded by a note of the same bar. -/
def flagStep (cp : Bool × Bool) : Item → Option (Bool × Bool)
  | .tok (.note _ _ _ _) => some (true, false)
  | .tok (.bar _ _ _) => if cp.2 then none else some (false, false)
  | .tok (.colons _) => if cp.2 then none else some (false, false)
  | .tok (.broken _ _) => if cp.1 then some (true, true) else none
  | .start => some (cp.1, false)
  | _ => some cp

def flagsRun : Bool × Bool → List Item → Option (Bool × Bool)
  | cp, [] => some cp
  | cp, i :: r =>
    match flagStep cp i with
    | some cp' => flagsRun cp' r
    | none => none

/-- every broken-rhythm token stands between two notes of one bar: no bar token (of any kind) between
the note before it and the note after it -/
def brokenOK (items : List Item) : Bool := (flagsRun (false, false) items).isSome

theorem flagsRun_append (cp : Bool × Bool) (a b : List Item) :
    flagsRun cp (a ++ b) =
      match flagsRun cp a with
      | some cp' => flagsRun cp' b
      | none => none := by
  induction a generalizing cp with
  | nil => rfl
  | cons i r ih =>
    simp only [List.cons_append, flagsRun]
    cases flagStep cp i with
    | none => rfl
    | some cp' => exact ih cp'

theorem flagStep_inv {cp cp' : Bool × Bool} {i : Item} (h : flagStep cp i = some cp') (hi : cp.2 = true → cp.1 = true) :
    cp'.2 = true → cp'.1 = true := by
  cases i with
  | field f => simp only [flagStep, Option.some.injEq] at h; subst h; exact hi
  | start => simp only [flagStep, Option.some.injEq] at h; subst h; simp
  | tok t =>
    cases t <;> simp only [flagStep] at h
    case note => simp only [Option.some.injEq] at h; subst h; simp
    case bar => split at h <;> simp at h; subst h; simp
    case colons => split at h <;> simp at h; subst h; simp
    case broken => split at h <;> simp at h; subst h; simp
    all_goals (simp only [Option.some.injEq] at h; subst h; exact hi)

theorem flagsRun_inv {cp cp' : Bool × Bool} {items : List Item} (h : flagsRun cp items = some cp')
    (hi : cp.2 = true → cp.1 = true) : cp'.2 = true → cp'.1 = true := by
  induction items generalizing cp with
  | nil => simp only [flagsRun, Option.some.injEq] at h; subst h; exact hi
  | cons i r ih =>
    simp only [flagsRun] at h
    cases hs : flagStep cp i with
    | none => rw [hs] at h; simp at h
    | some c1 => rw [hs] at h; exact ih h (flagStep_inv hs hi)

/-- `pending` is `broken_rhythm` of `_parse_music_code` -/
theorem stepItem_flag {R : Rat → Rat} {st st' : St} {i : Item} {c : Bool} {cp' : Bool × Bool}
    (h : stepItem R st i = .ok st') (hf : flagStep (c, st.broken.isSome) i = some cp') : st'.broken.isSome = cp'.2 := by
  cases i with
  | field f =>
    simp only [stepItem] at h
    simp only [flagStep, Option.some.injEq] at hf; subst hf
    rw [(parseField_frame h).2.2.1]
  | start =>
    simp only [stepItem] at h
    obtain ⟨u, t, rfl⟩ := startMusic_shape h
    simp only [flagStep, Option.some.injEq] at hf; subst hf; rfl
  | tok t =>
    simp only [stepItem] at h
    rcases stepTok_cases h with ⟨a, l, o, n, rfl⟩ | ⟨f, rfl⟩ | ⟨a, b, c', rfl⟩ | ⟨n, rfl⟩ | ⟨gt, n, rfl, rfl⟩ |
      ⟨x, rfl, rfl⟩ | ⟨rfl, ht⟩
    · simp only [stepTok] at h
      obtain ⟨base, delta, barAcc', u, len, dt, notes', _, _, _, _, _, _, _, _, rfl⟩ := stepNote_ok h
      simp only [flagStep, Option.some.injEq] at hf; subst hf; rfl
    · simp only [stepTok] at h
      simp only [flagStep, Option.some.injEq] at hf; subst hf
      rw [(parseField_frame h).2.2.1]
    · simp only [stepTok] at h
      obtain ⟨secs, g, e, rfl⟩ := stepBar_shape h
      simp only [flagStep] at hf
      split at hf
      · simp at hf
      · rename_i hp
        simp only [Option.some.injEq] at hf; subst hf
        simpa using hp
    · simp only [stepTok] at h
      obtain ⟨secs, g, e, rfl⟩ := stepColons_shape h
      simp only [flagStep] at hf
      split at hf
      · simp at hf
      · rename_i hp
        simp only [Option.some.injEq] at hf; subst hf
        simpa using hp
    · simp only [flagStep] at hf
      split at hf
      · simp only [Option.some.injEq] at hf; subst hf; rfl
      · simp at hf
    · simp only [flagStep, Option.some.injEq] at hf; subst hf; rfl
    · rcases ht with rfl | rfl | rfl | rfl <;> (simp only [flagStep, Option.some.injEq] at hf; subst hf; rfl)

theorem runItems_flag {R : Rat → Rat} {st st' : St} {items : List Item} {c : Bool} {cp' : Bool × Bool}
    (h : runItems R st items = .ok st') (hf : flagsRun (c, st.broken.isSome) items = some cp') :
    st'.broken.isSome = cp'.2 := by
  induction items generalizing st c with
  | nil =>
    simp only [runItems, Except.ok.injEq] at h; subst h
    simp only [flagsRun, Option.some.injEq] at hf; subst hf; rfl
  | cons i r ih =>
    simp only [runItems] at h
    split at h
    · simp at h
    rename_i st1 h1
    simp only [flagsRun] at hf
    cases hs : flagStep (c, st.broken.isSome) i with
    | none => rw [hs] at hf; simp at hf
    | some c1 =>
      rw [hs] at hf
      have := stepItem_flag h1 hs
      obtain ⟨c1a, c1b⟩ := c1
      simp only at this
      rw [← this] at hf
      exact ih h hf

/-- `clean` implies that the player's current section is not empty -/
theorem playItemQ_flag {p q : PlayerQ} {v r : List (Int × Rat)} {i : Item} {cp cp' : Bool × Bool}
    (h : playItemQ p v i = some (q, r)) (hf : flagStep cp i = some cp') (hi : cp.1 = true → p.cur ≠ []) :
    cp'.1 = true → q.cur ≠ [] := by
  cases i with
  | field f =>
    simp only [playItemQ, Option.some.injEq, Prod.mk.injEq] at h
    simp only [flagStep, Option.some.injEq] at hf; subst hf; rw [← h.1]; exact hi
  | start =>
    simp only [playItemQ, Option.some.injEq, Prod.mk.injEq] at h
    simp only [flagStep, Option.some.injEq] at hf; subst hf; rw [← h.1]; exact hi
  | tok t =>
    cases t <;> simp only [flagStep] at hf
    case note a l o n =>
      rw [playItemQ_note] at h
      cases v with
      | nil => simp at h
      | cons x xs =>
        simp only [Option.some.injEq, Prod.mk.injEq] at h
        intro _; rw [← h.1]; simp
    case bar => split at hf <;> simp at hf; subst hf; simp
    case colons => split at hf <;> simp at hf; subst hf; simp
    case broken gt n =>
      split at hf
      · rename_i hc
        simp only [Option.some.injEq] at hf; subst hf
        rw [playItemQ_other _ _ _ (by simp) rfl rfl] at h
        simp only [Option.some.injEq, Prod.mk.injEq] at h
        intro _; rw [← h.1]; exact hi hc
      · simp at hf
    all_goals
      simp only [Option.some.injEq] at hf; subst hf
      rw [playItemQ_other _ _ _ (by simp) rfl rfl] at h
      simp only [Option.some.injEq, Prod.mk.injEq] at h
      rw [← h.1]; exact hi

theorem playRunQ_flag {p q : PlayerQ} {v r : List (Int × Rat)} {items : List Item} {cp cp' : Bool × Bool}
    (h : playRunQ p v items = some (q, r)) (hf : flagsRun cp items = some cp') (hi : cp.1 = true → p.cur ≠ []) :
    cp'.1 = true → q.cur ≠ [] := by
  induction items generalizing p v cp with
  | nil =>
    simp only [playRunQ, Option.some.injEq, Prod.mk.injEq] at h
    simp only [flagsRun, Option.some.injEq] at hf; subst hf; rw [← h.1]; exact hi
  | cons i rest ih =>
    simp only [playRunQ] at h
    simp only [flagsRun] at hf
    cases h1 : playItemQ p v i with
    | none => simp [h1] at h
    | some x =>
      obtain ⟨p1, v1⟩ := x
      rw [h1] at h
      cases hs : flagStep cp i with
      | none => rw [hs] at hf; simp at hf
      | some c1 =>
        rw [hs] at hf
        exact ih h hf (playItemQ_flag h1 hs hi)

/-! ## the invariant: parser state ↔ player state -/

/-- `bs` are the closed sections (start, notes), `s` the start of the current section and `cur` its
notes so far -/
structure InvG (st : St) (p : PlayerQ) (bs : List Block) (s : Rat) (cur : List Note) : Prop where
  notes : st.notes = blockNotes bs ++ cur
  secs : (st.sections = [] ∧ bs = [] ∧ s = 0) ∨ st.sections = blockSections bs 0 ++ [(s, (bs.length : Int))]
  gids : ∀ g ∈ st.groups, 0 ≤ g.1 ∧ g.1 < bs.length
  glast : bs ≠ [] → ∃ k, st.groups.getLast? = some ((bs.length : Int) - 1, k)
  wf : BlocksWF bs s
  tiled : BlocksTiled bs s
  ctile : Tiled s cur
  ctime : s + (cur.map dur).sum = st.time
  pos : ∀ n ∈ st.notes, n.start < n.end_
  s0 : 0 ≤ s
  spos : bs ≠ [] → 0 < s
  exp : p.open_ = st.expected
  exp0 : st.expected ≠ some 0
  open1 : bs = [] → st.sections ≠ [] → truthy st.expected = true
  played : p.played = st.groups.flatMap (fun g => (List.replicate g.2 (blockPd bs g.1)).flatten)
  prev : p.prev = (match bs.getLast? with | some b => b.2.map pd | none => [])
  pcur : p.cur = cur.map pd

theorem InvG_init : InvG init {} [] 0 [] := by
  constructor <;> simp [init, blockNotes, BlocksWF, BlocksTiled, Tiled.nil]

namespace InvG
variable {st st' : St} {p p' : PlayerQ} {bs : List Block} {s : Rat} {cur : List Note}

theorem curpos (h : InvG st p bs s cur) : ∀ n ∈ cur, n.start < n.end_ :=
  fun n hn => h.pos n (by rw [h.notes]; exact List.mem_append_right _ hn)

theorem cur_lt (h : InvG st p bs s cur) (hc : cur ≠ []) : s < st.time := by
  have := durs_sum_pos h.curpos hc
  have := h.ctime
  linarith

theorem curnil (h : InvG st p bs s cur) (hc : cur = []) : s = st.time := by
  have := h.ctime
  rw [hc] at this
  simpa using this

theorem sle (h : InvG st p bs s cur) : s ≤ st.time := by
  by_cases hc : cur = []
  · exact le_of_eq (h.curnil hc)
  · exact le_of_lt (h.cur_lt hc)

theorem time_nonneg (h : InvG st p bs s cur) : 0 ≤ st.time := le_trans h.s0 h.sle

theorem nil_of_time (h : InvG st p bs s cur) (h0 : st.time = 0) : bs = [] ∧ cur = [] := by
  have hbs : bs = [] := by
    by_contra hne
    have := h.spos hne
    have := h.sle
    linarith
  refine ⟨hbs, ?_⟩
  by_contra hc
  have := h.cur_lt hc
  have := h.s0
  linarith

theorem cur_bounds (h : InvG st p bs s cur) : ∀ n ∈ cur, s ≤ n.start ∧ n.start < st.time ∧ n.end_ ≤ st.time := by
  intro n hn
  obtain ⟨a, b⟩ := h.ctile.bounds h.curpos n hn
  rw [h.ctime] at b
  have := h.curpos n hn
  exact ⟨a, by linarith, b⟩

theorem last (h : InvG st p bs s cur) {n : Note} (hl : st.notes.getLast? = some n) : n.end_ = st.time := by
  rw [h.notes, List.getLast?_append] at hl
  cases hc : cur.getLast? with
  | some m =>
    rw [hc] at hl
    simp only [Option.some_or, Option.some.injEq] at hl
    subst hl
    rw [h.ctile.last hc, h.ctime]
  | none =>
    rw [hc] at hl
    simp only [Option.none_or] at hl
    have hcn : cur = [] := List.getLast?_eq_none_iff.mp hc
    rw [← h.curnil hcn]
    exact blockNotes_last_end h.wf h.tiled hl

/-- the invariant reads only these fields of the state -/
theorem frame (h : InvG st p bs s cur) (hn : st'.notes = st.notes) (hs : st'.sections = st.sections)
    (hg : st'.groups = st.groups) (ht : st'.time = st.time) (he : st'.expected = st.expected) :
    InvG st' p bs s cur := by
  obtain ⟨a1, a2, a3, a4, a5, a6, a7, a8, a9, a10, a11, a12, a13, a14, a15, a16, a17⟩ := h
  exact ⟨by rw [hn]; exact a1, by rw [hs]; exact a2, by rw [hg]; exact a3, by rw [hg]; exact a4, a5, a6, a7,
    by rw [ht]; exact a8, by rw [hn]; exact a9, a10, a11, by rw [he]; exact a12, by rw [he]; exact a13,
    by rw [hs, he]; exact a14, by rw [hg]; exact a15, a16, a17⟩

/-- a note token with no broken rhythm pending -/
theorem note (h : InvG st p bs s cur) (n : Note) (hstart : n.start = st.time)
    (hn : st'.notes = st.notes ++ [n]) (hs : st'.sections = st.sections) (hg : st'.groups = st.groups)
    (ht : st'.time = n.end_) (he : st'.expected = st.expected) (hpos : ∀ m ∈ st'.notes, m.start < m.end_) :
    InvG st' { p with cur := p.cur ++ [pd n] } bs s (cur ++ [n]) := by
  refine ⟨?_, ?_, ?_, ?_, h.wf, h.tiled, ?_, ?_, hpos, h.s0, h.spos, ?_, ?_, ?_, ?_, h.prev, ?_⟩
  · rw [hn, h.notes]; simp
  · rw [hs]; exact h.secs
  · rw [hg]; exact h.gids
  · rw [hg]; exact h.glast
  · exact h.ctile.snoc (by rw [hstart, h.ctime])
  · have e : ((cur ++ [n]).map dur).sum = (cur.map dur).sum + dur n := by simp
    have hd : dur n = n.end_ - n.start := rfl
    rw [ht, e, hd]
    linarith [h.ctime, hstart]
  · rw [he]; exact h.exp
  · rw [he]; exact h.exp0
  · rw [hs, he]; exact h.open1
  · rw [hg]; exact h.played
  · simp [h.pcur]

/-- a note token that completes a broken-rhythm pair inside the current section -/
theorem pending (h : InvG st p bs s (cur ++ [n1])) (m1 m2 : Note) (pre : List Note)
    (h1 : st.notes = pre ++ [n1]) (hn : st'.notes = pre ++ [m1, m2])
    (hm1 : m1.start = n1.start) (hm2 : m2.start = m1.end_) (hm3 : m2.end_ = st'.time)
    (hs : st'.sections = st.sections) (hg : st'.groups = st.groups) (he : st'.expected = st.expected)
    (hpos : ∀ m ∈ st'.notes, m.start < m.end_) :
    InvG st' { p with cur := cur.map pd ++ [pd m1, pd m2] } bs s (cur ++ [m1, m2]) := by
  have hpre : pre = blockNotes bs ++ cur := by
    have := h.notes
    rw [h1, ← List.append_assoc] at this
    exact (List.append_inj' this rfl).1
  obtain ⟨t1, t2⟩ := Tiled.split h.ctile
  obtain ⟨t3, _⟩ := Tiled.cons t2
  refine ⟨?_, ?_, ?_, ?_, h.wf, h.tiled, ?_, ?_, hpos, h.s0, h.spos, ?_, ?_, ?_, ?_, h.prev, ?_⟩
  · rw [hn, hpre]; simp
  · rw [hs]; exact h.secs
  · rw [hg]; exact h.gids
  · rw [hg]; exact h.glast
  · refine t1.append (Tiled.mk_cons (by rw [hm1, t3]) (Tiled.mk_cons hm2 (Tiled.nil _)))
  · have e : ((cur ++ [m1, m2]).map dur).sum = (cur.map dur).sum + (dur m1 + dur m2) := by simp
    have hd1 : dur m1 = m1.end_ - m1.start := rfl
    have hd2 : dur m2 = m2.end_ - m2.start := rfl
    rw [e, hd1, hd2, ← hm3, hm2, hm1, t3]
    ring
  · rw [he]; exact h.exp
  · rw [he]; exact h.exp0
  · rw [hs, he]; exact h.open1
  · rw [hg]; exact h.played
  · simp

/-- closing the current section at the current time with play count `k` -/
theorem close (h : InvG st p bs s cur) (k : Nat) (f : Option Nat) (hc : cur ≠ []) (hf : f ≠ some 0)
    (hn : st'.notes = st.notes)
    (hs : st'.sections = blockSections bs 0 ++ [(s, (bs.length : Int)), (st.time, (bs.length : Int) + 1)])
    (hg : st'.groups = st.groups ++ [((bs.length : Int), k)])
    (ht : st'.time = st.time) (he : st'.expected = f)
    (hp1 : p'.played = p.played ++ (List.replicate k p.cur).flatten) (hp2 : p'.cur = []) (hp3 : p'.open_ = f)
    (hp4 : p'.prev = p.cur) :
    InvG st' p' (bs ++ [(s, cur)]) st.time [] := by
  have hlt := h.cur_lt hc
  refine ⟨?_, ?_, ?_, ?_, BlocksWF_snoc h.wf hlt h.cur_bounds, BlocksTiled_snoc h.tiled h.ctile h.ctime,
    Tiled.nil _, ?_, ?_, h.time_nonneg, ?_, ?_, ?_, ?_, ?_, ?_, ?_⟩
  · rw [hn, h.notes, blockNotes_snoc]; simp
  · right
    rw [hs, blockSections_snoc]
    simp
  · intro g hg'
    rw [hg] at hg'
    simp only [List.length_append, List.length_cons, List.length_nil]
    rcases List.mem_append.mp hg' with hg' | hg'
    · have := h.gids g hg'
      push_cast; omega
    · simp only [List.mem_singleton] at hg'
      subst hg'
      push_cast; simp
  · intro _
    refine ⟨k, ?_⟩
    rw [hg]
    simp
  · rw [ht]; simp
  · rw [hn]; exact h.pos
  · intro _; linarith [h.s0]
  · rw [hp3, he]
  · rw [he]; exact hf
  · intro hc'; simp at hc'
  · rw [hp1, hg, List.flatMap_append, h.played, h.pcur]
    congr 1
    · apply flatMap_congr'
      intro g hg'
      rw [blockPd_snoc_lt _ _ _ (h.gids g hg').1 (h.gids g hg').2]
    · simp [blockPd_snoc_self]
  · rw [hp4, h.pcur]; simp
  · rw [hp2]; rfl

/-- a forward repeat sign directly at a section start: the section structure stays, the repeat opens -/
theorem reopen (h : InvG st p bs s []) (f : Option Nat) (hf0 : f ≠ some 0) (hft : truthy f = true)
    (hn : st'.notes = st.notes) (hs : st'.sections = blockSections bs 0 ++ [(s, (bs.length : Int))])
    (hg : st'.groups = st.groups) (ht : st'.time = st.time) (he : st'.expected = f)
    (hp1 : p'.played = p.played) (hp2 : p'.cur = []) (hp3 : p'.open_ = f) (hp4 : p'.prev = p.prev) :
    InvG st' p' bs s [] := by
  obtain ⟨a1, a2, a3, a4, a5, a6, a7, a8, a9, a10, a11, a12, a13, a14, a15, a16, a17⟩ := h
  exact ⟨by rw [hn]; exact a1, .inr hs, by rw [hg]; exact a3, by rw [hg]; exact a4, a5, a6, a7,
    by rw [ht]; exact a8, by rw [hn]; exact a9, a10, a11, by rw [hp3, he], by rw [he]; exact hf0,
    by intro _ _; rw [he]; exact hft, by rw [hp1, hg]; exact a15, by rw [hp4]; exact a16, by rw [hp2]; rfl⟩

/-- a DEGENERATE backward repeat (nothing played since the last section start): the previous section
gets one more group -/
theorem degenerate (h : InvG st p (bs ++ [b]) s []) (x : Nat) (f : Option Nat) (hf0 : f ≠ some 0)
    (hn : st'.notes = st.notes) (hs : st'.sections = st.sections)
    (hg : st'.groups = st.groups ++ [((bs.length : Int), x)]) (ht : st'.time = st.time) (he : st'.expected = f)
    (hp1 : p'.played = p.played ++ (List.replicate x p.prev).flatten) (hp2 : p'.cur = []) (hp3 : p'.open_ = f)
    (hp4 : p'.prev = p.prev) :
    InvG st' p' (bs ++ [b]) s [] := by
  have hlen : (((bs ++ [b]).length : Nat) : Int) = (bs.length : Int) + 1 := by simp
  obtain ⟨a1, a2, a3, a4, a5, a6, a7, a8, a9, a10, a11, a12, a13, a14, a15, a16, a17⟩ := h
  refine ⟨by rw [hn]; exact a1, by rw [hs]; exact a2, ?_, ?_, a5, a6, a7, by rw [ht]; exact a8,
    by rw [hn]; exact a9, a10, a11, by rw [hp3, he], by rw [he]; exact hf0, ?_, ?_, by rw [hp4]; exact a16,
    by rw [hp2]; rfl⟩
  · intro g hg'
    rw [hg] at hg'
    rcases List.mem_append.mp hg' with hg' | hg'
    · exact a3 g hg'
    · simp only [List.mem_singleton] at hg'
      subst hg'
      rw [hlen]; simp
  · intro _
    refine ⟨x, ?_⟩
    rw [hg, hlen]; simp
  · intro hc; simp at hc
  · rw [hp1, hg, List.flatMap_append, a15, a16]
    congr 1
    simp [blockPd_snoc_self]

end InvG

/-! ## repeat signs -/

theorem InvG.open_none {st : St} {p : PlayerQ} {bs s cur} (h : InvG st p bs s cur)
    (ht : truthy st.expected = false) : st.expected = none ∧ p.open_ = none := by
  have : st.expected = none := by
    cases he : st.expected with
    | none => rfl
    | some k =>
      have hk : k ≠ 0 := fun hk => h.exp0 (by rw [he, hk])
      rw [he, truthy_some hk] at ht; simp at ht
  exact ⟨this, by rw [h.exp, this]⟩

theorem InvG.open_some {st : St} {p : PlayerQ} {bs s cur} (h : InvG st p bs s cur)
    (ht : truthy st.expected = true) : p.open_.isSome = true := by
  rw [h.exp]
  cases he : st.expected with
  | none => rw [he] at ht; simp [truthy] at ht
  | some k => rfl

theorem doRepeat_invG {st0 st : St} {p : PlayerQ} {bs s cur} (h : InvG st0 p bs s cur) (b f : Option Nat)
    (hb0 : b ≠ some 0) (hf0 : f ≠ some 0) (hbf : b = none → truthy f = true)
    (hrun : doRepeat st0 b f = .ok st) :
    st.notes = st0.notes ∧ st.broken = st0.broken ∧
    ∃ p' bs' s', qRepeat p b f = some p' ∧ InvG st p' bs' s' [] := by
  obtain ⟨secs0, g0, hshape⟩ := doRepeat_shape hrun
  have hnotes : st.notes = st0.notes := by rw [hshape]
  have hbrk : st.broken = st0.broken := by rw [hshape]
  refine ⟨hnotes, hbrk, ?_⟩
  clear hshape
  unfold doRepeat at hrun
  split at hrun
  · simp at hrun
  rename_i hmis
  have hplayer : ¬ (p.open_.isSome ∧ b ≠ p.open_) := by
    rintro ⟨h1, h2⟩
    apply hmis
    rw [h.exp] at h1 h2
    refine ⟨?_, h2⟩
    cases he : st0.expected with
    | none => simp [he] at h1
    | some k =>
      have : k ≠ 0 := fun hk => h.exp0 (by rw [he, hk])
      exact truthy_some this
  simp only at hrun
  unfold qRepeat
  rw [if_neg hplayer]
  by_cases hc : cur = []
  · subst hc
    have hpc : p.cur = [] := by rw [h.pcur]; rfl
    rw [if_pos hpc]
    have hst : s = st0.time := h.curnil rfl
    cases b with
    | none =>
      -- only a forward repeat: the section structure stays
      have hft := hbf rfl
      simp only at hrun ⊢
      rcases h.secs with ⟨h1, hbs, hs⟩ | h1
      · have ht0 : st0.time = 0 := by rw [← hst, hs]
        rw [addSection_zero st0 h1 ht0] at hrun
        have hnpos : ¬ (0 < st0.time) := by rw [ht0]; simp
        simp only [playPreviousOnce, hnpos, false_and, ↓reduceIte, Except.ok.injEq] at hrun
        subst hrun
        refine ⟨_, bs, s, rfl, ?_⟩
        refine h.reopen f hf0 hft rfl ?_ rfl rfl rfl rfl hpc rfl rfl
        subst hbs; subst hs; simp [blockSections]
      · rw [addSection_same st0 bs s h1 hst] at hrun
        simp only [playPreviousOnce, Option.isSome_none, Bool.false_eq_true, and_false, ↓reduceIte,
          Except.ok.injEq] at hrun
        subst hrun
        exact ⟨_, bs, s, rfl, h.reopen f hf0 hft rfl h1 rfl rfl rfl rfl hpc rfl rfl⟩
    | some x =>
      -- DEGENERATE: a backward repeat directly after a section start
      have hx : x ≠ 0 := fun hx => hb0 (by rw [hx])
      simp only [hx, ne_eq, not_false_eq_true, ↓reduceIte] at hrun ⊢
      rcases h.secs with ⟨h1, hbs, hs⟩ | h1
      · have ht0 : st0.time = 0 := by rw [← hst, hs]
        rw [addSection_zero st0 h1 ht0] at hrun
        simp [closeRepeat, ht0] at hrun
      · rw [addSection_same st0 bs s h1 hst] at hrun
        simp only [closeRepeat] at hrun
        split at hrun
        · simp at hrun
        rcases List.eq_nil_or_concat bs with hb | ⟨bs0, b0, hb⟩
        · subst hb
          simp [addGroup, secondLast?, h1, blockSections] at hrun
        · have hb' : bs = bs0 ++ [b0] := by rw [hb]; simp
          subst hb'
          obtain ⟨sb, nb⟩ := b0
          have hsec : st0.sections = blockSections bs0 0 ++ [(sb, (bs0.length : Int)), (s, (bs0.length : Int) + 1)] := by
            rw [h1, blockSections_snoc]; simp
          rw [addGroup_two st0 _ _ _ x hsec] at hrun
          simp only [Except.ok.injEq] at hrun
          subst hrun
          have hprev : p.prev = nb.map pd := by rw [h.prev]; simp
          have hnb : nb ≠ [] := block_ne_nil h.wf h.tiled (sb, nb) (by simp)
          have hpne : p.prev ≠ [] := by rw [hprev]; simpa using hnb
          rw [if_neg hpne]
          exact ⟨_, bs0 ++ [(sb, nb)], s, rfl, h.degenerate x f hf0 rfl rfl rfl rfl rfl rfl hpc rfl rfl⟩
  · have hpc : p.cur ≠ [] := by rw [h.pcur]; simpa using hc
    rw [if_neg hpc]
    have hlt := h.cur_lt hc
    have htpos : 0 < st0.time := lt_of_le_of_lt h.s0 hlt
    have htne : st0.time ≠ 0 := ne_of_gt htpos
    rw [addSection_close st0 bs s h.secs hlt] at hrun
    simp only at hrun
    have hgrp : ∀ k, addGroup { st0 with sections := blockSections bs 0 ++ [(s, (bs.length : Int)), (st0.time, (bs.length : Int) + 1)] } k =
        .ok { st0 with sections := blockSections bs 0 ++ [(s, (bs.length : Int)), (st0.time, (bs.length : Int) + 1)],
                       groups := st0.groups ++ [((bs.length : Int), k)] } := fun k =>
      addGroup_two _ (blockSections bs 0) (s, (bs.length : Int)) (st0.time, (bs.length : Int) + 1) k rfl
    have hclose : ∀ k, k = b.getD 1 →
        st = { st0 with sections := blockSections bs 0 ++ [(s, (bs.length : Int)), (st0.time, (bs.length : Int) + 1)],
                        groups := st0.groups ++ [((bs.length : Int), k)], expected := f } →
        ∃ p' bs' s', some (PlayerQ.mk (p.played ++ (List.replicate (b.getD 1) p.cur).flatten) [] p.cur f) = some p' ∧
          InvG st p' bs' s' [] := by
      intro k hk hst
      subst hst
      exact ⟨_, bs ++ [(s, cur)], st0.time, rfl,
        h.close k f hc hf0 rfl rfl rfl rfl rfl (by rw [hk]) rfl rfl rfl⟩
    cases b with
    | none =>
      simp only [playPreviousOnce, htpos, Option.isSome_some, and_self, ↓reduceIte, hgrp, Except.ok.injEq] at hrun
      exact hclose 1 rfl hrun.symm
    | some x =>
      have hx : x ≠ 0 := fun hx => hb0 (by rw [hx])
      simp only [hx, ne_eq, not_false_eq_true, ↓reduceIte, closeRepeat, htne, hgrp, Except.ok.injEq] at hrun
      exact hclose x rfl hrun.symm

/-! ## one item -/

/-- a step with no broken rhythm pending at a note token -/
theorem step_invG {st1 st : St} {p1 : PlayerQ} {bs s cur} {i : Item} (h : InvG st1 p1 bs s cur)
    (hstep : stepItem id st1 i = .ok st) (hnp : isNote i = true → st1.broken = none)
    (hpos : ∀ n ∈ st.notes, n.start < n.end_) :
    ∃ p new bs' s' cur', st.notes = st1.notes ++ new ∧ playItemQ p1 (new.map pd) i = some (p, []) ∧
      InvG st p bs' s' cur' := by
  cases i with
  | field f =>
    simp only [stepItem] at hstep
    obtain ⟨e1, _, _, e4, e5, e6, e7, _, _⟩ := parseField_frame hstep
    exact ⟨p1, [], bs, s, cur, by simp [e1], rfl, h.frame e1 e5 e6 e4 e7⟩
  | start =>
    simp only [stepItem] at hstep
    obtain ⟨u, t, rfl⟩ := startMusic_shape hstep
    exact ⟨p1, [], bs, s, cur, by simp, rfl, h.frame rfl rfl rfl rfl rfl⟩
  | tok t =>
    simp only [stepItem] at hstep
    rcases stepTok_cases hstep with ⟨a, l, o, n, rfl⟩ | ⟨f, rfl⟩ | ⟨a, b, c, rfl⟩ | ⟨n, rfl⟩ | ⟨gt, n, rfl, rfl⟩ |
      ⟨x, rfl, rfl⟩ | ⟨rfl, ht⟩
    · -- a note
      simp only [stepTok] at hstep
      obtain ⟨base, delta, barAcc', u, len, dt, notes', _, _, _, _, _, _, _, hn, rfl⟩ := stepNote_ok hstep
      rw [hnp rfl] at hn
      simp only at hn
      subst hn
      refine ⟨{ p1 with cur := p1.cur ++ [pd (newNote (base + delta + octaveShift o) st1.time (id (st1.time + dt)))] },
        [newNote (base + delta + octaveShift o) st1.time (id (st1.time + dt))], bs, s,
        cur ++ [newNote (base + delta + octaveShift o) st1.time (id (st1.time + dt))], rfl, ?_, ?_⟩
      · rw [playItemQ_note]; rfl
      · exact h.note _ rfl rfl rfl rfl rfl rfl hpos
    · -- an inline field
      simp only [stepTok] at hstep
      obtain ⟨e1, _, _, e4, e5, e6, e7, _, _⟩ := parseField_frame hstep
      exact ⟨p1, [], bs, s, cur, by simp [e1], playItemQ_other _ _ _ (by simp) rfl rfl,
        h.frame e1 e5 e6 e4 e7⟩
    · -- a bar token
      simp only [stepTok] at hstep
      unfold stepBar at hstep
      simp only at hstep
      have h0 : InvG { st1 with barAcc := [] } p1 bs s cur := h.frame rfl rfl rfl rfl rfl
      by_cases hz : a = 0 ∧ c = 0
      · have hbc : barCounts (.bar a b c) = none := by simp [barCounts, hz]
        have hpl : ∀ vals, playItemQ p1 vals (.tok (.bar a b c)) = some (qBar p1 b, vals) := by
          intro vals
          rw [playItemQ_tok _ _ _ (by simp), hbc]; rfl
        rw [if_pos hz] at hstep
        by_cases hcond : 2 ≤ b ∧ ¬ truthy st1.expected = true ∧ 0 < st1.time
        · rw [if_pos hcond] at hstep
          obtain ⟨hb2, hexp, htpos⟩ := hcond
          obtain ⟨hen, hon⟩ := h.open_none (by simpa using hexp)
          by_cases hc : cur = []
          · subst hc
            have hst : s = st1.time := h.curnil rfl
            have hpc : p1.cur = [] := by rw [h.pcur]; rfl
            rcases h.secs with ⟨_, _, hs⟩ | h1
            · rw [hs] at hst; rw [← hst] at htpos; exact absurd htpos (lt_irrefl _)
            · rw [addSection_same { st1 with barAcc := [] } bs s h1 hst] at hstep
              simp only [Option.isSome_none, Bool.false_eq_true, ↓reduceIte, Except.ok.injEq] at hstep
              subst hstep
              refine ⟨p1, [], bs, s, [], by simp, ?_, h0⟩
              rw [hpl]
              simp [qBar, hpc]
          · have hlt := h.cur_lt hc
            have hpc : p1.cur ≠ [] := by rw [h.pcur]; simpa using hc
            rw [addSection_close { st1 with barAcc := [] } bs s h.secs hlt] at hstep
            simp only [Option.isSome_some, ↓reduceIte] at hstep
            rw [addGroup_two _ (blockSections bs 0) (s, (bs.length : Int)) (st1.time, (bs.length : Int) + 1) 1 rfl] at hstep
            simp only [Except.ok.injEq] at hstep
            subst hstep
            refine ⟨{ p1 with played := p1.played ++ p1.cur, cur := [], prev := p1.cur }, [], bs ++ [(s, cur)],
              st1.time, [], by simp, ?_, ?_⟩
            · rw [hpl]
              have : (2 ≤ b ∧ p1.open_.isNone = true ∧ p1.cur ≠ []) := ⟨hb2, by rw [hon]; rfl, hpc⟩
              simp [qBar, this]
            · exact h0.close 1 st1.expected hc h.exp0 rfl rfl rfl rfl rfl (by simp) rfl h.exp rfl
        · rw [if_neg hcond] at hstep
          simp only [Except.ok.injEq] at hstep
          subst hstep
          refine ⟨p1, [], bs, s, cur, by simp, ?_, h0⟩
          rw [hpl]
          have : qBar p1 b = p1 := by
            unfold qBar
            rw [if_neg]
            rintro ⟨hb2, hon, hpc⟩
            have hexp : ¬ truthy st1.expected = true := by
              intro ht
              have := h.open_some ht
              rw [Option.isNone_iff_eq_none.mp hon] at this
              simp at this
            have ht0 : st1.time = 0 := by
              by_contra hne
              exact hcond ⟨hb2, hexp, lt_of_le_of_ne h.time_nonneg (Ne.symm hne)⟩
            have := (h.nil_of_time ht0).2
            rw [h.pcur, this] at hpc
            exact hpc rfl
          rw [this]; rfl
      · rw [if_neg hz] at hstep
        have hbc : barCounts (.bar a b c) =
            some (if 0 < a then some (a + 1) else none, if 0 < c then some (c + 1) else none) := by
          simp only [barCounts, hz, ↓reduceIte]
        obtain ⟨q1, q2, q3⟩ := barCounts_props hbc
        obtain ⟨r2, _, p', bs', s', r1, r3⟩ := doRepeat_invG h0 _ _ q1 q2 q3 hstep
        refine ⟨p', [], bs', s', [], by simp [r2], ?_, r3⟩
        rw [playItemQ_tok _ _ _ (by simp), hbc]
        simp only [r1, List.map_nil, Option.map_some]
    · -- colons without a bar character
      simp only [stepTok] at hstep
      unfold stepColons at hstep
      split at hstep
      · simp at hstep
      simp only at hstep
      have h0 : InvG { st1 with barAcc := [] } p1 bs s cur := h.frame rfl rfl rfl rfl rfl
      have hbc : barCounts (.colons n) = some (some (n / 2 + 1), some (n / 2 + 1)) := rfl
      obtain ⟨q1, q2, q3⟩ := barCounts_props hbc
      obtain ⟨r2, _, p', bs', s', r1, r3⟩ := doRepeat_invG h0 _ _ q1 q2 q3 hstep
      refine ⟨p', [], bs', s', [], by simp [r2], ?_, r3⟩
      rw [playItemQ_tok _ _ _ (by simp), hbc]
      simp only [r1, List.map_nil, Option.map_some]
    · -- a broken-rhythm token
      exact ⟨p1, [], bs, s, cur, by simp, playItemQ_other _ _ _ (by simp) rfl rfl, h.frame rfl rfl rfl rfl rfl⟩
    · exact ⟨p1, [], bs, s, cur, by simp, playItemQ_other _ _ _ (by simp) rfl rfl, h.frame rfl rfl rfl rfl rfl⟩
    · rcases ht with rfl | rfl | rfl | rfl <;>
        exact ⟨p1, [], bs, s, cur, by simp, playItemQ_other _ _ _ (by simp) rfl rfl, h⟩

/-- a note token that completes a broken-rhythm pair inside the current section -/
theorem step_invG_pending {st1 st : St} {p1 : PlayerQ} {bs s cur} {a : Acc} {l : Char} {o : List Bool} {len : LenSpec}
    {gt : Bool} {k : Nat} (h : InvG st1 p1 bs s cur) (hb : st1.broken = some (gt, k)) (hc : cur ≠ [])
    (hstep : stepItem id st1 (.tok (.note a l o len)) = .ok st) (hpos : ∀ n ∈ st.notes, n.start < n.end_) :
    ∃ pre n1 m1 m2 cur0, st1.notes = pre ++ [n1] ∧ st.notes = pre ++ [m1, m2] ∧ cur = cur0 ++ [n1] ∧
      InvG st { p1 with cur := cur0.map pd ++ [pd m1, pd m2] } bs s (cur0 ++ [m1, m2]) := by
  simp only [stepItem, stepTok] at hstep
  obtain ⟨pre, n1, e1, e2, p, t2, c, h1, _, _, he2, hn, ht, hs, hg, he, _⟩ := stepNote_pending hb hstep
  obtain ⟨cur0, n1', hcur⟩ : ∃ cur0 n1', cur = cur0 ++ [n1'] := by
    rcases List.eq_nil_or_concat cur with hx | ⟨L, x, hx⟩
    · exact absurd hx hc
    · exact ⟨L, x, by rw [hx]; simp⟩
  subst hcur
  have hn1 : n1' = n1 := by
    have := h.notes
    rw [h1, ← List.append_assoc] at this
    have := (List.append_inj' this rfl).2
    simpa using this.symm
  subst hn1
  have hend : n1'.end_ = st1.time := h.last (by rw [h1]; simp)
  have he12 : e2 = e1 := by linarith
  refine ⟨pre, n1', { n1' with end_ := e1 }, { newNote p st1.time t2 with start := e2 }, cur0, h1, hn, rfl, ?_⟩
  exact h.pending _ _ pre h1 hn rfl (by simp [he12]) (by simp [newNote, ht]) hs hg he hpos

/-! ## the whole tune -/

/-- the invariant holds after every accepted prefix; the player has then consumed exactly the
notes produced so far -/
theorem run_invG (ritems : List Item) : ∀ st, runItems id init ritems.reverse = .ok st →
    (∀ n ∈ st.notes, n.start < n.end_) → brokenOK ritems.reverse = true →
    ∃ p bs s cur, playRunQ {} (st.notes.map pd) ritems.reverse = some (p, []) ∧ InvG st p bs s cur := by
  induction ritems with
  | nil =>
    intro st h _ _
    simp only [List.reverse_nil, runItems, Except.ok.injEq] at h
    subst h
    exact ⟨{}, [], 0, [], rfl, InvG_init⟩
  | cons i r ih =>
    intro st h hpos hbk
    rw [List.reverse_cons, runItems_append] at h
    split at h
    · simp at h
    rename_i st1 h1
    simp only [runItems] at h
    split at h
    · simp at h
    rename_i st2 h2
    simp only [Except.ok.injEq] at h
    subst h
    have hpos1 := stepItem_pos_back h2 hpos
    -- the flags after the prefix
    unfold brokenOK at hbk
    rw [List.reverse_cons, flagsRun_append] at hbk
    cases hfl : flagsRun (false, false) r.reverse with
    | none => rw [hfl] at hbk; simp at hbk
    | some cp =>
      obtain ⟨cl, pe⟩ := cp
      have hbk1 : brokenOK r.reverse = true := by unfold brokenOK; rw [hfl]; rfl
      obtain ⟨p1, bs, s, cur, hrun1, hinv1⟩ := ih st1 h1 hpos1 hbk1
      have hpend : st1.broken.isSome = pe := by
        have := runItems_flag (c := false) h1 (by simpa [init] using hfl)
        simpa using this
      have hclean : cl = true → p1.cur ≠ [] := by
        have := playRunQ_flag hrun1 hfl (by simp)
        simpa using this
      have hpc : pe = true → cl = true := by
        have := flagsRun_inv hfl (by simp)
        simpa using this
      by_cases hcase : isNote i = true ∧ st1.broken ≠ none
      · -- a note that completes a broken-rhythm pair
        obtain ⟨hni, hbr⟩ := hcase
        cases i with
        | tok t =>
          cases t with
          | note a l o len =>
            obtain ⟨⟨gt, k⟩, hb⟩ : ∃ x, st1.broken = some x := by
              cases hx : st1.broken with
              | none => exact absurd hx hbr
              | some x => exact ⟨x, rfl⟩
            have hpe : pe = true := by rw [← hpend, hb]; rfl
            have hcur : cur ≠ [] := by
              intro hc
              have := hclean (hpc hpe)
              rw [hinv1.pcur, hc] at this
              exact this rfl
            obtain ⟨pre, n1, m1, m2, cur0, e1, e2, e3, hinv⟩ := step_invG_pending hinv1 hb hcur h2 hpos
            refine ⟨_, bs, s, _, ?_, hinv⟩
            rw [List.reverse_cons, playRunQ_append]
            have hp1c : p1.cur ≠ [] := hclean (hpc hpe)
            rw [e1, List.map_append] at hrun1
            simp only [List.map_cons, List.map_nil] at hrun1
            have hmod := playRunQ_modify_last (v' := pd m1) hrun1 hp1c
            have hext := playRunQ_extend [pd m2] hmod
            rw [e2]
            simp only [List.map_append, List.map_cons, List.map_nil]
            have e : pre.map pd ++ [pd m1, pd m2] = (pre.map pd ++ [pd m1]) ++ [pd m2] := by simp
            rw [e, hext]
            simp only [List.nil_append, playRunQ, playItemQ_note, PlayerQ.withCur]
            have hdl : p1.cur.dropLast = cur0.map pd := by
              rw [hinv1.pcur, e3]; simp
            rw [hdl]
            simp
          | _ => simp [isNote] at hni
        | _ => simp [isNote] at hni
      · have hnp : isNote i = true → st1.broken = none := by
          intro hn
          by_contra hb
          exact hcase ⟨hn, hb⟩
        obtain ⟨p, new, bs', s', cur', hnew, hplay, hinv⟩ := step_invG hinv1 h2 hnp hpos
        refine ⟨p, bs', s', cur', ?_, hinv⟩
        rw [List.reverse_cons, playRunQ_append, hnew, List.map_append, playRunQ_extend (new.map pd) hrun1]
        simp only [List.nil_append, playRunQ, hplay]

/-- `_finalize_sections` on a state that satisfies the invariant -/
theorem finalize_invG {st1 st2 : St} {p : PlayerQ} {bs s cur} (h : InvG st1 p bs s cur)
    (hexp : truthy st1.expected = false) (hf : finalizeSections st1 = .ok st2) :
    (st1.sections = [] ∧ st2 = st1) ∨
    (∃ n, st1.notes.getLast? = some n ∧ bs ≠ [] ∧
      ((cur = [] ∧ st2 = { st1 with sections := blockSections bs 0 }) ∨
       (cur ≠ [] ∧ st2 = { st1 with groups := st1.groups ++ [((bs.length : Int), 1)] }))) := by
  unfold finalizeSections at hf
  simp only at hf
  rcases h.secs with ⟨h1, _, _⟩ | h1
  · left
    simp only [h1, List.getLast?_nil, Except.ok.injEq] at hf
    exact ⟨h1, hf.symm⟩
  · right
    have hbs : bs ≠ [] := by
      intro hb
      have := h.open1 hb (by rw [h1]; simp)
      rw [this] at hexp; simp at hexp
    obtain ⟨bs0, b, rfl⟩ : ∃ bs0 b, bs = bs0 ++ [b] := by
      rcases List.eq_nil_or_concat bs with hb | ⟨L, b, hb⟩
      · exact absurd hb hbs
      · exact ⟨L, b, by rw [hb]; simp⟩
    obtain ⟨sb, nb⟩ := b
    obtain ⟨k, hglast⟩ := h.glast hbs
    have hglast' : st1.groups.getLast? = some ((bs0.length : Int), k) := by
      rw [hglast]; simp
    have hslast : (blockSections (bs0 ++ [(sb, nb)]) 0).getLast? = some (sb, (bs0.length : Int)) := by
      rw [blockSections_snoc]; simp
    have hl : st1.sections.getLast? = some (s, (((bs0 ++ [(sb, nb)]).length : Nat) : Int)) := by
      rw [h1]; simp
    have hdl : st1.sections.dropLast = blockSections (bs0 ++ [(sb, nb)]) 0 := by
      rw [h1]; simp
    simp only [hl] at hf
    cases hn : st1.notes.getLast? with
    | none => rw [hn] at hf; simp at hf
    | some n =>
      refine ⟨n, rfl, hbs, ?_⟩
      rw [hn] at hf
      simp only at hf
      have hend := h.last hn
      by_cases hs : s = n.end_
      · left
        have hc : cur = [] := by
          by_contra hc
          have := h.cur_lt hc
          rw [hs, hend] at this
          exact lt_irrefl _ this
        rw [if_pos hs] at hf
        simp only [hdl, hslast, hglast', ne_eq, not_true_eq_false, ↓reduceIte, Except.ok.injEq] at hf
        exact ⟨hc, hf.symm⟩
      · right
        have hc : cur ≠ [] := by
          intro hc
          exact hs (by rw [h.curnil hc, hend])
        rw [if_neg hs] at hf
        have hne : ¬ ((bs0.length : Int) = (((bs0 ++ [(sb, nb)]).length : Nat) : Int)) := by
          simp
        simp only [hl, hglast', ne_eq, hne, not_false_eq_true, ↓reduceIte, Except.ok.injEq] at hf
        exact ⟨hc, hf.symm⟩

/-- THE REPEAT CLAUSE IN GENERAL: broken rhythm allowed (inside a bar), degenerate backward repeats
allowed; the expansion of the parsed section structure is what `PlayerQ` plays, and its onsets are the
running sums of its durations -/
theorem repeats_general (lines : List Line) (tune : Tune) (h : parseTune id lines = .ok tune)
    (hpos : ∀ n ∈ tune.notes, n.start < n.end_) (hbk : brokenOK (flatten lines) = true) :
    ∃ L, expand id tune = .ok L ∧ unfoldQ (flatten lines) (tune.notes.map pd) = some (L.map pd) ∧
      L.map span = spans 0 (L.map dur) := by
  obtain ⟨st, st1, st2, hrun, e1, e2, e3, e4, e5, e6, hexp, hfin, rfl⟩ := parseTune_ok h
  have hnotes2 : st2.notes = st.notes := by rw [finalizeSections_notes hfin, e1]
  have hpos' : ∀ n ∈ st.notes, n.start < n.end_ := by
    intro n hn
    apply hpos
    show n ∈ st2.notes
    rw [hnotes2]; exact hn
  obtain ⟨p, bs, s, cur, hplay, hinv⟩ := run_invG (flatten lines).reverse st (by simpa using hrun)
    hpos' (by simpa using hbk)
  rw [List.reverse_reverse] at hplay
  have hinv1 : InvG st1 p bs s cur := hinv.frame e1 e2 e3 e4 e5
  obtain ⟨_, hopen⟩ := hinv1.open_none hexp
  have hunf : unfoldQ (flatten lines) ((toTune st2).notes.map pd) = some (p.played ++ p.cur) := by
    unfold unfoldQ
    show (match playRunQ {} (st2.notes.map pd) (flatten lines) with
      | some (p, _) => if p.open_.isNone then some (p.played ++ p.cur) else none
      | none => none) = _
    rw [hnotes2, hplay]
    simp [hopen]
  rw [hunf]
  rcases finalize_invG hinv1 hexp hfin with ⟨hs, hst2⟩ | ⟨n, hlast, hbs, ⟨hc, rfl⟩ | ⟨hc, rfl⟩⟩
  · -- no section structure at all
    rw [hst2]
    have hbs : bs = [] := by
      rcases hinv1.secs with ⟨_, hb, _⟩ | h1
      · exact hb
      · rw [hs] at h1; simp at h1
    subst hbs
    have hg : st1.groups = [] := by
      cases hgr : st1.groups with
      | nil => rfl
      | cons g r =>
        have := hinv1.gids g (by rw [hgr]; simp)
        simp at this
        omega
    have hs0 : s = 0 := by
      rcases hinv1.secs with ⟨_, _, h0⟩ | h1
      · exact h0
      · rw [hs] at h1; simp at h1
    refine ⟨st1.notes, ?_, ?_, ?_⟩
    · simp [expand, toTune, hg]
    · rw [hinv1.played, hinv1.pcur, hinv1.notes, hg]
      simp [blockNotes]
    · have := hinv1.ctile
      rw [hs0] at this
      rw [hinv1.notes]
      unfold Tiled at this
      simpa [blockNotes] using this
  · -- the last section ends with the tune
    subst hc
    have htot : totalTimeOf st1.notes = st1.time := by
      simp only [totalTimeOf, hlast]; exact hinv1.last hlast
    have hnotes : st1.notes = blockNotes bs := by rw [hinv1.notes]; simp
    have hst : s = st1.time := hinv1.curnil rfl
    have htune : toTune { st1 with sections := blockSections bs 0 } =
        tuneOfBlocks bs st1.time st1.groups (toTune { st1 with sections := blockSections bs 0 }) := by
      have htot' : totalTimeOf (blockNotes bs) = st1.time := by rw [← hnotes]; exact htot
      simp only [toTune, tuneOfBlocks, htot', hnotes]
    rw [htune]
    obtain ⟨k, hgl⟩ := hinv1.glast hbs
    have hgne : st1.groups ≠ [] := by
      intro hg; rw [hg] at hgl; simp at hgl
    obtain ⟨L, hL, hpdL, hsp⟩ := expand_blocks_tiled bs st1.time st1.groups
      (toTune { st1 with sections := blockSections bs 0 })
      (by rw [← hst]; exact hinv1.wf) (by rw [← hst]; exact hinv1.tiled)
      (by rw [← hnotes]; exact hinv1.pos) hgne hinv1.gids
    refine ⟨L, hL, ?_, hsp⟩
    rw [hpdL, hinv1.played, hinv1.pcur]
    simp
  · -- the last section is still open at the end: it is played once
    have htot : totalTimeOf st1.notes = st1.time := by
      simp only [totalTimeOf, hlast]; exact hinv1.last hlast
    have hlt := hinv1.cur_lt hc
    have hsec : st1.sections = blockSections (bs ++ [(s, cur)]) 0 := by
      rcases hinv1.secs with ⟨_, hb, _⟩ | h1
      · exact absurd hb hbs
      · rw [h1, blockSections_snoc]
    have hnotes : st1.notes = blockNotes (bs ++ [(s, cur)]) := by rw [hinv1.notes, blockNotes_snoc]
    have htune : toTune { st1 with groups := st1.groups ++ [((bs.length : Int), 1)] } =
        tuneOfBlocks (bs ++ [(s, cur)]) st1.time (st1.groups ++ [((bs.length : Int), 1)])
          (toTune { st1 with groups := st1.groups ++ [((bs.length : Int), 1)] }) := by
      simp only [toTune, tuneOfBlocks, htot, ← hnotes, ← hsec]
    rw [htune]
    obtain ⟨L, hL, hpdL, hsp⟩ := expand_blocks_tiled (bs ++ [(s, cur)]) st1.time (st1.groups ++ [((bs.length : Int), 1)])
      (toTune { st1 with groups := st1.groups ++ [((bs.length : Int), 1)] })
      (BlocksWF_snoc hinv1.wf hlt hinv1.cur_bounds) (BlocksTiled_snoc hinv1.tiled hinv1.ctile hinv1.ctime)
      (by rw [← hnotes]; exact hinv1.pos) (by simp)
      (by intro g hg
          simp only [List.length_append, List.length_cons, List.length_nil]
          rcases List.mem_append.mp hg with hg | hg
          · have := hinv1.gids g hg
            push_cast; omega
          · simp only [List.mem_singleton] at hg
            subst hg
            push_cast; simp)
    refine ⟨L, hL, ?_, hsp⟩
    rw [hpdL, List.flatMap_append, hinv1.played, hinv1.pcur]
    simp only [Option.some.injEq]
    congr 1
    · apply flatMap_congr'
      intro g hg
      rw [blockPd_snoc_lt _ _ _ (hinv1.gids g hg).1 (hinv1.gids g hg).2]
    · simp [blockPd_snoc_self]


/-! ## non-degenerate tunes: the code's player is the plain player -/

theorem playRunQ_plain_nd (ritems : List Item) : ∀ (q : PlayerQ) (r vals : List (Int × Rat)),
    NonDegenerate ritems.reverse → playRunQ {} vals ritems.reverse = some (q, r) →
    playRun {} vals ritems.reverse = some (q.toPlain, r) := by
  induction ritems with
  | nil =>
    intro q r vals _ h
    simp only [List.reverse_nil, playRunQ, Option.some.injEq, Prod.mk.injEq] at h
    obtain ⟨rfl, rfl⟩ := h
    rfl
  | cons i rest ih =>
    intro q r vals hnd h
    rw [List.reverse_cons, playRunQ_append] at h
    cases h1 : playRunQ {} vals rest.reverse with
    | none => rw [h1] at h; simp at h
    | some x =>
      obtain ⟨q1, r1⟩ := x
      rw [h1] at h
      simp only [playRunQ] at h
      cases h2 : playItemQ q1 r1 i with
      | none => rw [h2] at h; simp at h
      | some y =>
        obtain ⟨q2, r2⟩ := y
        rw [h2] at h
        simp only [Option.some.injEq, Prod.mk.injEq] at h
        obtain ⟨rfl, rfl⟩ := h
        have hnd1 : NonDegenerate rest.reverse := by
          intro pre t b f post he hbc
          exact hnd pre t b f (post ++ [i]) (by rw [List.reverse_cons, he]; simp) hbc
        have ih1 := ih q1 r1 vals hnd1 h1
        obtain ⟨q', hq', _, _, hsame⟩ := playItemQ_plain h2
        have hcur : ∀ t b f, i = .tok t → barCounts t = some (some b, f) → q1.cur ≠ [] := by
          intro t b f hi hbc
          obtain ⟨p0, vals0, hp0, hp0c⟩ := hnd rest.reverse t b f [] (by rw [List.reverse_cons, hi]) hbc
          have hp1 : playItems {} vals rest.reverse = some q1.toPlain := by
            rw [playItems_eq_playRun, ih1]; rfl
          have hsim := playItems_sim (p := {}) (q := {}) ⟨rfl, rfl⟩ hp0 hp1
          intro hc
          apply hp0c
          apply List.eq_nil_of_length_eq_zero
          rw [hsim.1]
          show q1.cur.length = 0
          rw [hc]; rfl
        rw [List.reverse_cons, playRun_append, ih1]
        simp only [playRun, hq', hsame hcur]

/-- for a non-degenerate tune the code's playing order is the notated playing order -/
theorem unfoldQ_eq_unfold {items : List Item} {vals X : List (Int × Rat)} (hnd : NonDegenerate items)
    (h : unfoldQ items vals = some X) : unfold items vals = some X := by
  unfold unfoldQ at h
  cases hr : playRunQ {} vals items with
  | none => rw [hr] at h; simp at h
  | some x =>
    obtain ⟨q, r⟩ := x
    rw [hr] at h
    have := playRunQ_plain_nd items.reverse q r vals (by simpa using hnd) (by simpa using hr)
    rw [List.reverse_reverse] at this
    unfold unfold
    rw [playItems_eq_playRun, this]
    exact h


/-- the section structure of every parsed tune: no section groups at all, or its section annotations
are those of well-formed blocks that are tiled by its notes, and every group names one of them -/
theorem parsed_blocks (lines : List Line) (tune : Tune) (h : parseTune id lines = .ok tune)
    (hpos : ∀ n ∈ tune.notes, n.start < n.end_) (hbk : brokenOK (flatten lines) = true) :
    tune.groups = [] ∨
    ∃ bs, tune.sections = blockSections bs 0 ∧ tune.notes = blockNotes bs ∧ BlocksWF bs tune.totalTime ∧
      BlocksTiled bs tune.totalTime ∧ tune.groups ≠ [] ∧ ∀ g ∈ tune.groups, 0 ≤ g.1 ∧ g.1 < bs.length := by
  obtain ⟨st, st1, st2, hrun, e1, e2, e3, e4, e5, e6, hexp, hfin, rfl⟩ := parseTune_ok h
  have hnotes2 : st2.notes = st.notes := by rw [finalizeSections_notes hfin, e1]
  have hpos' : ∀ n ∈ st.notes, n.start < n.end_ := by
    intro n hn
    apply hpos
    show n ∈ st2.notes
    rw [hnotes2]; exact hn
  obtain ⟨p, bs, s, cur, _, hinv⟩ := run_invG (flatten lines).reverse st (by simpa using hrun)
    hpos' (by simpa using hbk)
  have hinv1 : InvG st1 p bs s cur := hinv.frame e1 e2 e3 e4 e5
  rcases finalize_invG hinv1 hexp hfin with ⟨hs, hst2⟩ | ⟨n, hlast, hbs, ⟨hc, rfl⟩ | ⟨hc, rfl⟩⟩
  · left
    rw [hst2]
    have hbs : bs = [] := by
      rcases hinv1.secs with ⟨_, hb, _⟩ | h1
      · exact hb
      · rw [hs] at h1; simp at h1
    subst hbs
    cases hgr : st1.groups with
    | nil => simp [toTune, hgr]
    | cons g r =>
      have := hinv1.gids g (by rw [hgr]; simp)
      simp at this
      omega
  · right
    subst hc
    have htot : totalTimeOf st1.notes = st1.time := by
      simp only [totalTimeOf, hlast]; exact hinv1.last hlast
    have hnotes : st1.notes = blockNotes bs := by rw [hinv1.notes]; simp
    have hst : s = st1.time := hinv1.curnil rfl
    obtain ⟨k, hgl⟩ := hinv1.glast hbs
    have hgne : st1.groups ≠ [] := by
      intro hg; rw [hg] at hgl; simp at hgl
    refine ⟨bs, rfl, hnotes, ?_, ?_, hgne, hinv1.gids⟩
    · show BlocksWF bs (totalTimeOf st1.notes)
      rw [htot, ← hst]; exact hinv1.wf
    · show BlocksTiled bs (totalTimeOf st1.notes)
      rw [htot, ← hst]; exact hinv1.tiled
  · right
    have htot : totalTimeOf st1.notes = st1.time := by
      simp only [totalTimeOf, hlast]; exact hinv1.last hlast
    have hlt := hinv1.cur_lt hc
    have hsec : st1.sections = blockSections (bs ++ [(s, cur)]) 0 := by
      rcases hinv1.secs with ⟨_, hb, _⟩ | h1
      · exact absurd hb hbs
      · rw [h1, blockSections_snoc]
    have hnotes : st1.notes = blockNotes (bs ++ [(s, cur)]) := by rw [hinv1.notes, blockNotes_snoc]
    refine ⟨bs ++ [(s, cur)], hsec, hnotes, ?_, ?_, by simp [toTune], ?_⟩
    · show BlocksWF (bs ++ [(s, cur)]) (totalTimeOf st1.notes)
      rw [htot]; exact BlocksWF_snoc hinv1.wf hlt hinv1.cur_bounds
    · show BlocksTiled (bs ++ [(s, cur)]) (totalTimeOf st1.notes)
      rw [htot]; exact BlocksTiled_snoc hinv1.tiled hinv1.ctile hinv1.ctime
    · intro g hg
      simp only [toTune] at hg
      simp only [List.length_append, List.length_cons, List.length_nil]
      rcases List.mem_append.mp hg with hg | hg
      · have := hinv1.gids g hg
        push_cast; omega
      · simp only [List.mem_singleton] at hg
        subst hg
        push_cast; simp

end NSV.C04
