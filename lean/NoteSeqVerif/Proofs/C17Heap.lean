import NoteSeqVerif.Model.C17Heap
import NoteSeqVerif.Proofs.C17Extra
/-! C17 — helper lemmas about heaps of objects and the lead-sheet store (core Lean only). -/
namespace NSV.C17

/-! ### heaps of objects of one class -/
section Generic
variable {σ ο : Type}

theorem hskip_length_le (m : Sem σ ο) (h : Heap σ) (op : HOp ο) : h.objs.length ≤ (hskip m h op).objs.length := by
  cases op with
  | switch k => simp only [hskip]; split <;> simp
  | op o =>
    simp only [hskip]
    split
    · simp
    · split
      · split <;> simp
      · simp

/-- one operation leaves every object other than the current one as it was, and an object that
is not current stays not current unless the operation is the switch to it -/
theorem hskip_frame (m : Sem σ ο) (h : Heap σ) (op : HOp ο) (j : Nat) (hj : j < h.objs.length)
    (hc : j ≠ h.cur) (hop : op ≠ .switch j) :
    (hskip m h op).objs[j]? = h.objs[j]? ∧ j ≠ (hskip m h op).cur := by
  cases op with
  | switch k =>
    have hk : k ≠ j := fun e => hop (by rw [e])
    simp only [hskip]
    split
    · exact ⟨rfl, fun e => hk e.symm⟩
    · exact ⟨rfl, hc⟩
  | op o =>
    simp only [hskip]
    split
    · exact ⟨rfl, hc⟩
    · split
      · split
        · exact ⟨by simp [List.getElem?_append_left hj], by simp; omega⟩
        · exact ⟨rfl, hc⟩
      · refine ⟨?_, hc⟩
        simp only [List.getElem?_set]
        rw [if_neg (fun e => hc e.symm)]

theorem hrun_frame (m : Sem σ ο) (ops : List (HOp ο)) (h : Heap σ) (j : Nat) (hj : j < h.objs.length)
    (hc : j ≠ h.cur) (hops : ∀ op ∈ ops, op ≠ .switch j) :
    (hrun m h ops).objs[j]? = h.objs[j]? := by
  induction ops generalizing h with
  | nil => rfl
  | cons op ops ih =>
    simp only [hrun, List.foldl_cons]
    obtain ⟨a, b⟩ := hskip_frame m h op j hj hc (hops op (by simp))
    have hl := hskip_length_le m h op
    have := ih (hskip m h op) (by omega) b (fun o ho => hops o (by simp [ho]))
    simp only [hrun] at this
    rw [this, a]

/-- a predicate that every call preserves holds of every object of the heap after any history -/
theorem hrun_all (m : Sem σ ο) (P : σ → Prop) (Ok : ο → Prop)
    (hskipP : ∀ s o, P s → Ok o → P (m.skip s o))
    (hfreshP : ∀ s o s', P s → Ok o → m.step s o = .ok s' → P s')
    (ops : List (HOp ο)) (h : Heap σ) (hall : ∀ s ∈ h.objs, P s) (hok : ∀ o, HOp.op o ∈ ops → Ok o) :
    ∀ s ∈ (hrun m h ops).objs, P s := by
  induction ops generalizing h with
  | nil => exact hall
  | cons op ops ih =>
    simp only [hrun, List.foldl_cons]
    apply ih
    · cases op with
      | switch k => simp only [hskip]; split <;> exact hall
      | op o =>
        have ho : Ok o := hok o (by simp)
        simp only [hskip]
        split
        · exact hall
        · rename_i s hs
          have hPs : P s := hall s (List.mem_of_getElem? hs)
          split
          · split
            · rename_i s' hs'
              intro x hx
              simp only [List.mem_append, List.mem_singleton] at hx
              rcases hx with hx | hx
              · exact hall x hx
              · rw [hx]; exact hfreshP s o s' hPs ho hs'
            · exact hall
          · intro x hx
            rcases List.mem_or_eq_of_mem_set hx with hx | hx
            · exact hall x hx
            · rw [hx]; exact hskipP s o hPs ho
    · intro o ho; exact hok o (by simp [ho])

end Generic

/-! ### the lead-sheet store -/

/-- references point to existing cells and the current lead sheet exists -/
def WF (st : LStore) : Prop :=
  st.cur < st.leads.length ∧
  ∀ k mi ci : Nat, st.leads[k]? = some (mi, ci) → mi < st.mels.length ∧ ci < st.chds.length

/-- the lead sheets created at or after index `tl` use only cells created at or after `tm` / `tc`,
and the caller is working on one of them -/
def Conf (tl tm tc : Nat) (st : LStore) : Prop :=
  WF st ∧ tl ≤ st.cur ∧ tm ≤ st.mels.length ∧ tc ≤ st.chds.length ∧ tl ≤ st.leads.length ∧
  ∀ k mi ci : Nat, tl ≤ k → st.leads[k]? = some (mi, ci) → tm ≤ mi ∧ tc ≤ ci

def EffConf (tl : Nat) : Effect → Prop
  | .setCur k => tl ≤ k
  | .share a b => tl ≤ a ∧ tl ≤ b
  | _ => True

/-- lead sheet `b` is the only one holding cells `bm` and `bc`, and the caller is not working on it -/
def Priv (b bm bc : Nat) (st : LStore) : Prop :=
  WF st ∧ st.cur ≠ b ∧ st.leads[b]? = some (bm, bc) ∧
  ∀ k mi ci : Nat, k ≠ b → st.leads[k]? = some (mi, ci) → mi ≠ bm ∧ ci ≠ bc

def EffAvoid (b : Nat) : Effect → Prop
  | .setCur k => k ≠ b
  | .share x y => x ≠ b ∧ y ≠ b
  | _ => True

/-- an effect as `effect` produces it: `setCur` / `share` name existing lead sheets -/
def EffWF (st : LStore) : Effect → Prop
  | .setCur k => k < st.leads.length
  | .share a b => a < st.leads.length ∧ b < st.leads.length
  | _ => True

theorem getElem?_lt {α : Type} (l : List α) (k : Nat) (a : α) (h : l[k]? = some a) : k < l.length := by
  by_cases hk : k < l.length
  · exact hk
  · rw [List.getElem?_eq_none (by omega)] at h; cases h

theorem getElem?_snoc {α : Type} (l : List α) (x a : α) (k : Nat) (h : (l ++ [x])[k]? = some a) :
    l[k]? = some a ∨ (k = l.length ∧ a = x) := by
  by_cases hk : k < l.length
  · rw [List.getElem?_append_left hk] at h; exact .inl h
  · by_cases he : k = l.length
    · subst he; simp at h; exact .inr ⟨rfl, h.symm⟩
    · rw [List.getElem?_eq_none (by simp; omega)] at h; cases h

theorem getElem?_set_cases {α : Type} (l : List α) (i : Nat) (x a : α) (k : Nat) (h : (l.set i x)[k]? = some a) :
    (k = i ∧ a = x) ∨ (k ≠ i ∧ l[k]? = some a) := by
  by_cases hk : i = k
  · subst hk
    by_cases hl : i < l.length
    · simp [hl] at h; exact .inl ⟨rfl, h.symm⟩
    · rw [List.getElem?_eq_none (by simp; omega)] at h; cases h
  · rw [List.getElem?_set_ne hk] at h; exact .inr ⟨fun e => hk e.symm, h⟩

theorem apply_wf (st : LStore) (e : Effect) (hw : WF st) (he : EffWF st e) : WF (st.apply e) := by
  obtain ⟨hc, hr⟩ := hw
  cases e with
  | none => exact ⟨hc, hr⟩
  | setCur k => exact ⟨he, hr⟩
  | write m c =>
    simp only [LStore.apply]
    split
    · exact ⟨hc, by simpa using hr⟩
    · exact ⟨hc, hr⟩
  | alloc l =>
    refine ⟨by simp [LStore.apply], ?_⟩
    intro k mi ci hk
    simp only [LStore.apply, List.length_append, List.length_singleton] at hk ⊢
    rcases getElem?_snoc _ _ _ _ hk with hk | ⟨_, hk⟩
    · have := hr k mi ci hk; omega
    · cases hk; omega
  | rebind l =>
    refine ⟨by simpa [LStore.apply] using hc, ?_⟩
    intro k mi ci hk
    simp only [LStore.apply, List.length_append, List.length_singleton] at hk ⊢
    rcases getElem?_set_cases _ _ _ _ _ hk with ⟨_, hk⟩ | ⟨_, hk⟩
    · cases hk; omega
    · have := hr k mi ci hk; omega
  | share a b =>
    simp only [LStore.apply]
    split
    · rename_i ma x y cb ha hb
      refine ⟨by simp, ?_⟩
      intro k mi ci hk
      rcases getElem?_snoc _ _ _ _ hk with hk | ⟨_, hk⟩
      · exact hr k mi ci hk
      · cases hk
        exact ⟨(hr a ma x ha).1, (hr b y cb hb).2⟩
    · exact ⟨hc, hr⟩

theorem apply_conf (tl tm tc : Nat) (st : LStore) (e : Effect) (h : Conf tl tm tc st) (hw : EffWF st e)
    (he : EffConf tl e) :
    Conf tl tm tc (st.apply e) ∧
    (∀ i, i < tm → (st.apply e).mels[i]? = st.mels[i]?) ∧
    (∀ i, i < tc → (st.apply e).chds[i]? = st.chds[i]?) ∧
    (∀ k, k < tl → (st.apply e).leads[k]? = st.leads[k]?) := by
  have hwf' := apply_wf st e h.1 hw
  obtain ⟨hwf, hcur, hm, hc, hl, hrefs⟩ := h
  cases e with
  | none => exact ⟨⟨hwf, hcur, hm, hc, hl, hrefs⟩, fun _ _ => rfl, fun _ _ => rfl, fun _ _ => rfl⟩
  | setCur k => exact ⟨⟨hwf', he, hm, hc, hl, hrefs⟩, fun _ _ => rfl, fun _ _ => rfl, fun _ _ => rfl⟩
  | write m c =>
    cases hcurref : st.leads[st.cur]? with
    | none =>
      have e : st.apply (.write m c) = st := by simp only [LStore.apply, hcurref]
      rw [e]
      exact ⟨⟨hwf, hcur, hm, hc, hl, hrefs⟩, fun _ _ => rfl, fun _ _ => rfl, fun _ _ => rfl⟩
    | some r =>
      obtain ⟨mi, ci⟩ := r
      have e : st.apply (.write m c) = { st with mels := st.mels.set mi m, chds := st.chds.set ci c } := by
        simp only [LStore.apply, hcurref]
      rw [e] at hwf' ⊢
      obtain ⟨a, b⟩ := hrefs st.cur mi ci hcur hcurref
      refine ⟨⟨hwf', hcur, by simpa using hm, by simpa using hc, hl, hrefs⟩, ?_, ?_, fun _ _ => rfl⟩
      · intro i hi; exact List.getElem?_set_ne (by omega)
      · intro i hi; exact List.getElem?_set_ne (by omega)
  | alloc l =>
    simp only [LStore.apply] at hwf' ⊢
    refine ⟨⟨hwf', hl, by simp; omega, by simp; omega, by simp; omega, ?_⟩, ?_, ?_, ?_⟩
    · intro k mi ci hk hkr
      rcases getElem?_snoc _ _ _ _ hkr with hkr | ⟨_, hkr⟩
      · exact hrefs k mi ci hk hkr
      · cases hkr; exact ⟨hm, hc⟩
    · intro i hi; exact List.getElem?_append_left (by omega)
    · intro i hi; exact List.getElem?_append_left (by omega)
    · intro k hk; exact List.getElem?_append_left (by omega)
  | rebind l =>
    simp only [LStore.apply] at hwf' ⊢
    refine ⟨⟨hwf', hcur, by simp; omega, by simp; omega, by simpa using hl, ?_⟩, ?_, ?_, ?_⟩
    · intro k mi ci hk hkr
      rcases getElem?_set_cases _ _ _ _ _ hkr with ⟨_, hkr⟩ | ⟨_, hkr⟩
      · cases hkr; exact ⟨hm, hc⟩
      · exact hrefs k mi ci hk hkr
    · intro i hi; exact List.getElem?_append_left (by omega)
    · intro i hi; exact List.getElem?_append_left (by omega)
    · intro k hk; exact List.getElem?_set_ne (by omega)
  | share a b =>
    cases ha : st.leads[a]? with
    | none =>
      have e : st.apply (.share a b) = st := by simp only [LStore.apply, ha]
      rw [e]
      exact ⟨⟨hwf, hcur, hm, hc, hl, hrefs⟩, fun _ _ => rfl, fun _ _ => rfl, fun _ _ => rfl⟩
    | some ra =>
      cases hb : st.leads[b]? with
      | none =>
        have e : st.apply (.share a b) = st := by simp only [LStore.apply, ha, hb]
        rw [e]
        exact ⟨⟨hwf, hcur, hm, hc, hl, hrefs⟩, fun _ _ => rfl, fun _ _ => rfl, fun _ _ => rfl⟩
      | some rb =>
        obtain ⟨ma, x⟩ := ra
        obtain ⟨y, cb⟩ := rb
        have e : st.apply (.share a b) = { st with leads := st.leads ++ [(ma, cb)], cur := st.leads.length } := by
          simp only [LStore.apply, ha, hb]
        rw [e] at hwf' ⊢
        refine ⟨⟨hwf', hl, hm, hc, by simp; omega, ?_⟩, fun _ _ => rfl, fun _ _ => rfl, ?_⟩
        · intro k mi ci hk hkr
          rcases getElem?_snoc _ _ _ _ hkr with hkr | ⟨_, hkr⟩
          · exact hrefs k mi ci hk hkr
          · cases hkr
            exact ⟨(hrefs a ma x he.1 ha).1, (hrefs b y cb he.2 hb).2⟩
        · intro k hk; exact List.getElem?_append_left (by omega)

theorem apply_priv (b bm bc : Nat) (st : LStore) (e : Effect) (h : Priv b bm bc st) (hw : EffWF st e)
    (he : EffAvoid b e) :
    Priv b bm bc (st.apply e) ∧ (st.apply e).mels[bm]? = st.mels[bm]? ∧ (st.apply e).chds[bc]? = st.chds[bc]? := by
  have hwf' := apply_wf st e h.1 hw
  obtain ⟨hwf, hcur, hb, hrefs⟩ := h
  have hbl : b < st.leads.length := getElem?_lt _ _ _ hb
  obtain ⟨hbm, hbc⟩ := hwf.2 b bm bc hb
  cases e with
  | none => exact ⟨⟨hwf, hcur, hb, hrefs⟩, rfl, rfl⟩
  | setCur k => exact ⟨⟨hwf', he, hb, hrefs⟩, rfl, rfl⟩
  | write m c =>
    cases hcurref : st.leads[st.cur]? with
    | none =>
      have e : st.apply (.write m c) = st := by simp only [LStore.apply, hcurref]
      rw [e]
      exact ⟨⟨hwf, hcur, hb, hrefs⟩, rfl, rfl⟩
    | some r =>
      obtain ⟨mi, ci⟩ := r
      have e : st.apply (.write m c) = { st with mels := st.mels.set mi m, chds := st.chds.set ci c } := by
        simp only [LStore.apply, hcurref]
      rw [e] at hwf' ⊢
      obtain ⟨x, y⟩ := hrefs st.cur mi ci hcur hcurref
      exact ⟨⟨hwf', hcur, hb, hrefs⟩, List.getElem?_set_ne x, List.getElem?_set_ne y⟩
  | alloc l =>
    simp only [LStore.apply] at hwf' ⊢
    refine ⟨⟨hwf', by show st.leads.length ≠ b; omega, by rw [List.getElem?_append_left hbl]; exact hb, ?_⟩,
      List.getElem?_append_left hbm, List.getElem?_append_left hbc⟩
    intro k mi ci hk hkr
    rcases getElem?_snoc _ _ _ _ hkr with hkr | ⟨_, hkr⟩
    · exact hrefs k mi ci hk hkr
    · cases hkr; omega
  | rebind l =>
    simp only [LStore.apply] at hwf' ⊢
    refine ⟨⟨hwf', hcur, by rw [List.getElem?_set_ne hcur]; exact hb, ?_⟩,
      List.getElem?_append_left hbm, List.getElem?_append_left hbc⟩
    intro k mi ci hk hkr
    rcases getElem?_set_cases _ _ _ _ _ hkr with ⟨_, hkr⟩ | ⟨_, hkr⟩
    · cases hkr; omega
    · exact hrefs k mi ci hk hkr
  | share x y =>
    cases hx : st.leads[x]? with
    | none =>
      have e : st.apply (.share x y) = st := by simp only [LStore.apply, hx]
      rw [e]
      exact ⟨⟨hwf, hcur, hb, hrefs⟩, rfl, rfl⟩
    | some rx =>
      cases hy : st.leads[y]? with
      | none =>
        have e : st.apply (.share x y) = st := by simp only [LStore.apply, hx, hy]
        rw [e]
        exact ⟨⟨hwf, hcur, hb, hrefs⟩, rfl, rfl⟩
      | some ry =>
        obtain ⟨ma, u⟩ := rx
        obtain ⟨v, cb⟩ := ry
        have e : st.apply (.share x y) = { st with leads := st.leads ++ [(ma, cb)], cur := st.leads.length } := by
          simp only [LStore.apply, hx, hy]
        rw [e] at hwf' ⊢
        refine ⟨⟨hwf', by show st.leads.length ≠ b; omega, by rw [List.getElem?_append_left hbl]; exact hb, ?_⟩, rfl, rfl⟩
        intro k mi ci hk hkr
        rcases getElem?_snoc _ _ _ _ hkr with hkr | ⟨_, hkr⟩
        · exact hrefs k mi ci hk hkr
        · cases hkr
          exact ⟨(hrefs x ma u he.1 hx).1, (hrefs y v cb he.2 hy).2⟩

/-! what `effect` can produce -/

def SOpConf (tl : Nat) : SOp → Prop
  | .switch k => tl ≤ k
  | .share a b => tl ≤ a ∧ tl ≤ b
  | _ => True

def SOpAvoid (b : Nat) : SOp → Prop
  | .switch k => k ≠ b
  | .share x y => x ≠ b ∧ y ≠ b
  | _ => True

theorem view_lt (st : LStore) (k : Nat) (l : LeadSheet) (h : st.view k = some l) : k < st.leads.length := by
  unfold LStore.view at h
  split at h
  · cases h
  · rename_i hk; exact getElem?_lt _ _ _ hk

theorem effect_spec (st : LStore) (op : SOp) :
    EffWF st (effect st op) ∧ (∀ tl, SOpConf tl op → EffConf tl (effect st op)) ∧
    (∀ b, SOpAvoid b op → EffAvoid b (effect st op)) := by
  cases op with
  | switch k =>
    simp only [effect]
    split
    · rename_i h; exact ⟨h, fun _ h => h, fun _ h => h⟩
    · exact ⟨trivial, fun _ _ => trivial, fun _ _ => trivial⟩
  | lead op =>
    simp only [effect]
    split
    · exact ⟨trivial, fun _ _ => trivial, fun _ _ => trivial⟩
    · split
      · exact ⟨trivial, fun _ _ => trivial, fun _ _ => trivial⟩
      · split
        · exact ⟨trivial, fun _ _ => trivial, fun _ _ => trivial⟩
        · split <;> exact ⟨trivial, fun _ _ => trivial, fun _ _ => trivial⟩
  | share a b =>
    simp only [effect]
    split
    · rename_i la lb ha hb
      split
      · exact ⟨⟨view_lt _ _ _ ha, view_lt _ _ _ hb⟩, fun _ h => h, fun _ h => h⟩
      · exact ⟨trivial, fun _ _ => trivial, fun _ _ => trivial⟩
    · exact ⟨trivial, fun _ _ => trivial, fun _ _ => trivial⟩
  | melody op =>
    simp only [effect]
    split
    · exact ⟨trivial, fun _ _ => trivial, fun _ _ => trivial⟩
    · split <;> exact ⟨trivial, fun _ _ => trivial, fun _ _ => trivial⟩
  | chords op =>
    simp only [effect]
    split
    · exact ⟨trivial, fun _ _ => trivial, fun _ _ => trivial⟩
    · split <;> exact ⟨trivial, fun _ _ => trivial, fun _ _ => trivial⟩

theorem sskip_wf (st : LStore) (op : SOp) (hw : WF st) : WF (sskip st op) :=
  apply_wf st _ hw (effect_spec st op).1

theorem srun_conf (tl tm tc : Nat) (ops : List SOp) (st : LStore) (h : Conf tl tm tc st)
    (hops : ∀ op ∈ ops, SOpConf tl op) :
    Conf tl tm tc (srun st ops) ∧
    (∀ i, i < tm → (srun st ops).mels[i]? = st.mels[i]?) ∧
    (∀ i, i < tc → (srun st ops).chds[i]? = st.chds[i]?) ∧
    (∀ k, k < tl → (srun st ops).leads[k]? = st.leads[k]?) := by
  induction ops generalizing st with
  | nil => exact ⟨h, fun _ _ => rfl, fun _ _ => rfl, fun _ _ => rfl⟩
  | cons op ops ih =>
    obtain ⟨ew, ec, _⟩ := effect_spec st op
    obtain ⟨h', a, b, c⟩ := apply_conf tl tm tc st _ h ew (ec tl (hops op (by simp)))
    obtain ⟨h'', a', b', c'⟩ := ih (sskip st op) h' (fun o ho => hops o (by simp [ho]))
    simp only [srun, List.foldl_cons] at *
    exact ⟨h'', fun i hi => (a' i hi).trans (a i hi), fun i hi => (b' i hi).trans (b i hi),
      fun k hk => (c' k hk).trans (c k hk)⟩

theorem srun_priv (b bm bc : Nat) (ops : List SOp) (st : LStore) (h : Priv b bm bc st)
    (hops : ∀ op ∈ ops, SOpAvoid b op) :
    Priv b bm bc (srun st ops) ∧ (srun st ops).mels[bm]? = st.mels[bm]? ∧ (srun st ops).chds[bc]? = st.chds[bc]? := by
  induction ops generalizing st with
  | nil => exact ⟨h, rfl, rfl⟩
  | cons op ops ih =>
    obtain ⟨ew, _, ea⟩ := effect_spec st op
    obtain ⟨h', a, c⟩ := apply_priv b bm bc st _ h ew (ea b (hops op (by simp)))
    obtain ⟨h'', a', c'⟩ := ih (sskip st op) h' (fun o ho => hops o (by simp [ho]))
    simp only [srun, List.foldl_cons] at *
    exact ⟨h'', a'.trans a, c'.trans c⟩

/-- the view of a lead sheet is determined by its reference pair and the two cells -/
theorem view_congr (st st' : LStore) (k mi ci : Nat) (h : st.leads[k]? = some (mi, ci))
    (h' : st'.leads[k]? = some (mi, ci)) (hm : st'.mels[mi]? = st.mels[mi]?) (hc : st'.chds[ci]? = st.chds[ci]?) :
    st'.view k = st.view k := by
  simp only [LStore.view, h, h', hm, hc]

/-! ### consistency of every lead sheet of the store -/

/-- no two lead sheets hold the same Melody or the same ChordProgression object -/
def NoShare (st : LStore) : Prop :=
  ∀ k k' mi ci mi' ci' : Nat, k ≠ k' → st.leads[k]? = some (mi, ci) → st.leads[k']? = some (mi', ci') →
    mi ≠ mi' ∧ ci ≠ ci'

def AllInv (st : LStore) : Prop := WF st ∧ NoShare st ∧ ∀ k l, st.view k = some l → LInv l

/-- the effects LeadSheet's own methods have on a consistent lead sheet -/
def EffInv : Effect → Prop
  | .none => True
  | .setCur _ => True
  | .write m c => LInv ⟨m, c⟩
  | .alloc l => LInv l
  | .rebind l => LInv l
  | .share _ _ => False

/-- the operations of the property's alphabet: LeadSheet's own methods and continuing on another
lead sheet (no `share`, no call on the melody / chords object from outside) -/
def SOpOwn : SOp → Prop
  | .lead op => LOpOk op
  | .switch _ => True
  | _ => False

theorem view_some (st : LStore) (k : Nat) (l : LeadSheet) :
    st.view k = some l ↔ ∃ mi ci, st.leads[k]? = some (mi, ci) ∧ st.mels[mi]? = some l.melody ∧ st.chds[ci]? = some l.chords := by
  unfold LStore.view
  constructor
  · intro h
    split at h
    · cases h
    · rename_i mi ci hk
      split at h
      · rename_i m c hm hc
        cases h
        exact ⟨mi, ci, hk, hm, hc⟩
      · cases h
  · rintro ⟨mi, ci, hk, hm, hc⟩
    simp only [hk, hm, hc]

theorem apply_allinv (st : LStore) (e : Effect) (h : AllInv st) (hw : EffWF st e) (he : EffInv e) :
    AllInv (st.apply e) := by
  have hwf' := apply_wf st e h.1 hw
  obtain ⟨hwf, hns, hall⟩ := h
  refine ⟨hwf', ?_⟩
  cases e with
  | none => exact ⟨hns, hall⟩
  | setCur k => exact ⟨hns, hall⟩
  | share a b => exact he.elim
  | write m c =>
    cases hcurref : st.leads[st.cur]? with
    | none =>
      have e : st.apply (.write m c) = st := by simp only [LStore.apply, hcurref]
      rw [e]; exact ⟨hns, hall⟩
    | some r =>
      obtain ⟨mi, ci⟩ := r
      have e : st.apply (.write m c) = { st with mels := st.mels.set mi m, chds := st.chds.set ci c } := by
        simp only [LStore.apply, hcurref]
      rw [e]
      refine ⟨hns, ?_⟩
      intro k l hv
      obtain ⟨mi', ci', hk, hm, hc⟩ := (view_some _ k l).1 hv
      simp only at hk hm hc
      by_cases hkc : k = st.cur
      · subst hkc
        rw [hcurref] at hk
        cases hk
        rcases getElem?_set_cases _ _ _ _ _ hm with ⟨_, hm⟩ | ⟨hm, _⟩
        · rcases getElem?_set_cases _ _ _ _ _ hc with ⟨_, hc⟩ | ⟨hc, _⟩
          · have : l = ⟨m, c⟩ := by cases l; simp_all
            rw [this]; exact he
          · exact (hc rfl).elim
        · exact (hm rfl).elim
      · obtain ⟨n1, n2⟩ := hns k st.cur mi' ci' mi ci hkc hk hcurref
        rw [List.getElem?_set_ne (fun e => n1 e.symm)] at hm
        rw [List.getElem?_set_ne (fun e => n2 e.symm)] at hc
        exact hall k l ((view_some st k l).2 ⟨mi', ci', hk, hm, hc⟩)
  | alloc l =>
    simp only [LStore.apply]
    constructor
    · intro k k' mi ci mi' ci' hne hk hk'
      rcases getElem?_snoc _ _ _ _ hk with hk | ⟨e1, hk⟩ <;> rcases getElem?_snoc _ _ _ _ hk' with hk' | ⟨e2, hk'⟩
      · exact hns k k' mi ci mi' ci' hne hk hk'
      · cases hk'; have := hwf.2 k mi ci hk; omega
      · cases hk; have := hwf.2 k' mi' ci' hk'; omega
      · omega
    · intro k l' hv
      obtain ⟨mi', ci', hk, hm, hc⟩ := (view_some _ k l').1 hv
      simp only at hk hm hc
      rcases getElem?_snoc _ _ _ _ hk with hk | ⟨_, hk⟩
      · obtain ⟨b1, b2⟩ := hwf.2 k mi' ci' hk
        rw [List.getElem?_append_left b1] at hm
        rw [List.getElem?_append_left b2] at hc
        exact hall k l' ((view_some st k l').2 ⟨mi', ci', hk, hm, hc⟩)
      · cases hk
        simp at hm hc
        have : l' = l := by cases l; cases l'; simp_all
        rw [this]; exact he
  | rebind l =>
    simp only [LStore.apply]
    constructor
    · intro k k' mi ci mi' ci' hne hk hk'
      rcases getElem?_set_cases _ _ _ _ _ hk with ⟨e1, hk⟩ | ⟨e1, hk⟩ <;>
        rcases getElem?_set_cases _ _ _ _ _ hk' with ⟨e2, hk'⟩ | ⟨e2, hk'⟩
      · omega
      · cases hk; have := hwf.2 k' mi' ci' hk'; omega
      · cases hk'; have := hwf.2 k mi ci hk; omega
      · exact hns k k' mi ci mi' ci' hne hk hk'
    · intro k l' hv
      obtain ⟨mi', ci', hk, hm, hc⟩ := (view_some _ k l').1 hv
      simp only at hk hm hc
      rcases getElem?_set_cases _ _ _ _ _ hk with ⟨_, hk⟩ | ⟨_, hk⟩
      · cases hk
        simp at hm hc
        have : l' = l := by cases l; cases l'; simp_all
        rw [this]; exact he
      · obtain ⟨b1, b2⟩ := hwf.2 k mi' ci' hk
        rw [List.getElem?_append_left b1] at hm
        rw [List.getElem?_append_left b2] at hc
        exact hall k l' ((view_some st k l').2 ⟨mi', ci', hk, hm, hc⟩)

theorem effect_inv (st : LStore) (op : SOp) (h : AllInv st) (hop : SOpOwn op) : EffInv (effect st op) := by
  cases op with
  | switch k => simp only [effect]; split <;> trivial
  | share a b => exact hop.elim
  | melody o => exact hop.elim
  | chords o => exact hop.elim
  | lead lop =>
    simp only [effect]
    split
    · trivial
    · rename_i l hv
      have hl : LInv l := h.2.2 _ l hv
      split
      · trivial
      · rename_i l' hs
        have hl' : LInv l' := lead_inv_step' l l' lop hl hop hs
        split
        · exact hl'
        · split <;> exact hl'

theorem srun_allinv (ops : List SOp) (st : LStore) (h : AllInv st) (hops : ∀ op ∈ ops, SOpOwn op) :
    AllInv (srun st ops) := by
  induction ops generalizing st with
  | nil => exact h
  | cons op ops ih =>
    simp only [srun, List.foldl_cons]
    exact ih (sskip st op) (apply_allinv st _ h (effect_spec st op).1 (effect_inv st op h (hops op (by simp))))
      (fun o ho => hops o (by simp [ho]))

end NSV.C17
