import NoteSeqVerif.Model.NoteSeq
/-! C12 — shared definitions: equality of NoteSequences / results up to storage order. -/
namespace NSV.C12
open NSV

/-- two NoteSequences that differ only in the storage order of their repeated fields -/
structure NSPerm (s s' : NoteSeq) : Prop where
  notes : s.notes.Perm s'.notes
  tempos : s.tempos.Perm s'.tempos
  timeSigs : s.timeSigs.Perm s'.timeSigs
  keySigs : s.keySigs.Perm s'.keySigs
  texts : s.texts.Perm s'.texts
  ccs : s.ccs.Perm s'.ccs
  bends : s.bends.Perm s'.bends
  sectionAnns : s.sectionAnns.Perm s'.sectionAnns
  sgroups : s.sgroups = s'.sgroups
  totalTime : s.totalTime = s'.totalTime
  totalQSteps : s.totalQSteps = s'.totalQSteps
  spq : s.spq = s'.spq
  sps : s.sps = s'.sps
  hasSub : s.hasSub = s'.hasSub
  subStart : s.subStart = s'.subStart
  subEnd : s.subEnd = s'.subEnd
  tpq : s.tpq = s'.tpq
  metaTag : s.metaTag = s'.metaTag

/-- results agree up to storage order: same error, or both succeed with permuted containers -/
def ResPerm (r r' : Except Err NoteSeq) : Prop :=
  match r, r' with
  | .ok a, .ok b => NSPerm a b
  | .error e, .error e' => e = e'
  | _, _ => False

theorem foldl_max_perm {l l' : List Int} (h : l.Perm l') (a : Int) : l.foldl max a = l'.foldl max a := by
  induction h generalizing a with
  | nil => rfl
  | cons x _ ih => simp only [List.foldl_cons]; exact ih _
  | swap x y l =>
    simp only [List.foldl_cons]
    congr 1
    omega
  | trans _ _ ih1 ih2 => exact (ih1 a).trans (ih2 a)

end NSV.C12
