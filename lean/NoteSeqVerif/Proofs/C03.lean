import NoteSeqVerif.Model.C03
/-! helper lemmas for C03, part 1 (core Lean only): key order, sorted key lists, grouping,
the instrument loop, reader enumeration. -/
namespace NSV.C03
open NSV

/-! ### the tuple order on keys -/
theorem keyLt_irrefl (a : Key) : keyLt a a = false := by
  obtain ⟨a1, a2, a3⟩ := a
  cases a3 <;> simp [keyLt]

theorem keyLt_trans {a b c : Key} (h1 : keyLt a b = true) (h2 : keyLt b c = true) : keyLt a c = true := by
  obtain ⟨a1, a2, a3⟩ := a
  obtain ⟨b1, b2, b3⟩ := b
  obtain ⟨c1, c2, c3⟩ := c
  simp only [keyLt, Bool.or_eq_true, Bool.and_eq_true, decide_eq_true_eq, beq_iff_eq, Bool.not_eq_true'] at *
  cases a3 <;> cases b3 <;> cases c3 <;> simp at * <;> omega

theorem keyLt_tri {a b : Key} (h1 : keyLt a b = false) (h2 : keyLt b a = false) : a = b := by
  obtain ⟨a1, a2, a3⟩ := a
  obtain ⟨b1, b2, b3⟩ := b
  simp only [keyLt, Bool.or_eq_false_iff, Bool.and_eq_false_iff, decide_eq_false_iff_not, Bool.not_eq_false',
    beq_eq_false_iff_ne, ne_eq] at h1 h2
  have e1 : a1 = b1 := by omega
  subst e1
  have e2 : a2 = b2 := by
    rcases h1 with ⟨_, h1 | h1⟩ <;> rcases h2 with ⟨_, h2 | h2⟩ <;> first | omega | (exfalso; omega)
  subst e2
  cases a3 <;> cases b3 <;> simp_all

theorem keyLt_asymm {a b : Key} (h : keyLt a b = true) : keyLt b a = false := by
  cases h' : keyLt b a
  · rfl
  · have := keyLt_trans h h'
    rw [keyLt_irrefl] at this
    cases this

/-- strictly increasing in the tuple order -/
def KeySorted (l : List Key) : Prop := l.Pairwise (fun a b => keyLt a b = true)

theorem KeySorted.nodup {l : List Key} (h : KeySorted l) : l.Nodup := by
  unfold KeySorted at h
  refine h.imp ?_
  intro a b hab e
  subst e
  rw [keyLt_irrefl] at hab
  cases hab

theorem mem_insertKey {k x : Key} {l : List Key} : x ∈ insertKey k l ↔ x = k ∨ x ∈ l := by
  induction l with
  | nil => simp [insertKey]
  | cons h t ih =>
    unfold insertKey
    split
    · simp
    · split
      · rename_i e
        subst e
        simp
      · simp [ih]
        constructor
        · rintro (h | h | h) <;> simp [h]
        · rintro (h | h | h) <;> simp [h]

theorem sorted_insertKey {k : Key} {l : List Key} (h : KeySorted l) : KeySorted (insertKey k l) := by
  induction l with
  | nil => simp [insertKey, KeySorted]
  | cons a t ih =>
    unfold KeySorted at h
    have ha := (List.pairwise_cons.mp h).1
    have ht := (List.pairwise_cons.mp h).2
    unfold insertKey
    split
    · rename_i hlt
      refine List.pairwise_cons.mpr ⟨?_, h⟩
      intro b hb
      rcases List.mem_cons.mp hb with e | hb
      · subst e; exact hlt
      · exact keyLt_trans hlt (ha b hb)
    · rename_i hnlt
      split
      · exact h
      · rename_i hne
        refine List.pairwise_cons.mpr ⟨?_, ih ht⟩
        intro b hb
        rcases mem_insertKey.mp hb with e | hb
        · subst e
          cases hba : keyLt a b
          · exfalso
            apply hne
            have hnlt' : keyLt b a = false := by simpa using hnlt
            exact keyLt_tri hnlt' hba
          · rfl
        · exact ha b hb

theorem mem_sortedKeys {x : Key} {ks : List Key} : x ∈ sortedKeys ks ↔ x ∈ ks := by
  induction ks with
  | nil => simp [sortedKeys]
  | cons k t ih =>
    have : sortedKeys (k :: t) = insertKey k (sortedKeys t) := rfl
    rw [this, mem_insertKey, ih]
    simp

theorem sorted_sortedKeys (ks : List Key) : KeySorted (sortedKeys ks) := by
  induction ks with
  | nil => simp [sortedKeys, KeySorted]
  | cons k t ih => exact sorted_insertKey ih

/-- a strictly increasing list is determined by its members -/
theorem KeySorted.ext {l1 l2 : List Key} (h1 : KeySorted l1) (h2 : KeySorted l2)
    (h : ∀ k, k ∈ l1 ↔ k ∈ l2) : l1 = l2 := by
  induction l1 generalizing l2 with
  | nil =>
    cases l2 with
    | nil => rfl
    | cons b t => exact absurd ((h b).mpr (by simp)) (by simp)
  | cons a t ih =>
    cases l2 with
    | nil => exact absurd ((h a).mp (by simp)) (by simp)
    | cons b u =>
      unfold KeySorted at h1 h2
      have h1a := (List.pairwise_cons.mp h1).1
      have h2b := (List.pairwise_cons.mp h2).1
      have hab : a = b := by
        have ha : a ∈ b :: u := (h a).mp (by simp)
        have hb : b ∈ a :: t := (h b).mpr (by simp)
        rcases List.mem_cons.mp ha with e | ha
        · exact e
        · rcases List.mem_cons.mp hb with e | hb
          · exact e.symm
          · have x1 := h2b a ha
            have x2 := h1a b hb
            rw [keyLt_asymm x1] at x2
            cases x2
      subst hab
      congr 1
      apply ih (List.pairwise_cons.mp h1).2 (List.pairwise_cons.mp h2).2
      intro k
      constructor
      · intro hk
        have : k ∈ a :: u := (h k).mp (List.mem_cons_of_mem _ hk)
        rcases List.mem_cons.mp this with e | hk'
        · subst e
          have := h1a k hk
          rw [keyLt_irrefl] at this
          cases this
        · exact hk'
      · intro hk
        have : k ∈ a :: t := (h k).mpr (List.mem_cons_of_mem _ hk)
        rcases List.mem_cons.mp this with e | hk'
        · subst e
          have := h2b k hk
          rw [keyLt_irrefl] at this
          cases this
        · exact hk'

/-! ### grouping: the groups are the fibres of the key -/

theorem flatMap_congr' {α β} {l : List α} {f g : α → List β} (h : ∀ a ∈ l, f a = g a) :
    l.flatMap f = l.flatMap g := by
  induction l with
  | nil => rfl
  | cons a t ih =>
    simp only [List.flatMap_cons]
    rw [h a (by simp), ih (fun b hb => h b (List.mem_cons_of_mem _ hb))]

/-- the fibres of `key` over a duplicate-free list of keys that covers `l` are a rearrangement of `l` -/
theorem perm_flatMap_fibres {α κ} [DecidableEq κ] (key : α → κ) (ks : List κ) (l : List α)
    (hnd : ks.Nodup) (hcov : ∀ a ∈ l, key a ∈ ks) :
    (ks.flatMap (fun k => l.filter (fun a => key a = k))).Perm l := by
  induction ks generalizing l with
  | nil =>
    cases l with
    | nil => simp
    | cons a t => exact absurd (hcov a (by simp)) (by simp)
  | cons k ks ih =>
    simp only [List.flatMap_cons]
    have hk : k ∉ ks := (List.nodup_cons.mp hnd).1
    have hnd' := (List.nodup_cons.mp hnd).2
    have e : ks.flatMap (fun k' => l.filter (fun a => key a = k')) =
        ks.flatMap (fun k' => (l.filter (fun a => !decide (key a = k))).filter (fun a => key a = k')) := by
      apply flatMap_congr'
      intro k' hk'
      rw [List.filter_filter]
      congr 1
      funext a
      by_cases h : key a = k'
      · have : k' ≠ k := by intro h2; rw [h2] at hk'; exact hk hk'
        simp [h, this]
      · simp [h]
    rw [e]
    have ih' := ih (l.filter (fun a => !decide (key a = k))) hnd' (by
      intro a ha
      have ha' := List.mem_filter.mp ha
      have := hcov a ha'.1
      rcases List.mem_cons.mp this with e | h
      · simp [e] at ha'
      · exact h)
    refine (List.Perm.append_left _ ih').trans ?_
    exact List.filter_append_perm (fun a => decide (key a = k)) l

/-! ### the instrument loop -/

/-- once the pre-created instrument is used (or every remaining key has a positive instrument number) the loop
only appends -/
theorem instLoop_append (mk : Key → PMInst) (used : Bool) (first : PMInst) (others : List PMInst) (ks : List Key)
    (h : used = true ∨ ∀ k ∈ ks, 0 < k.1) (r : List PMInst)
    (hr : instLoop mk used first others ks = .ok r) : r = first :: (others ++ ks.map mk) := by
  induction ks generalizing others with
  | nil =>
    simp [instLoop] at hr
    simp [← hr]
  | cons k t ih =>
    unfold instLoop at hr
    have hc : 0 < k.1 ∨ used = true := by
      rcases h with h | h
      · exact Or.inr h
      · exact Or.inl (h k (by simp))
    rw [if_pos hc] at hr
    split at hr
    · cases hr
    · have := ih (others ++ [mk k]) (by
        rcases h with h | h
        · exact Or.inl h
        · exact Or.inr (fun k' hk' => h k' (List.mem_cons_of_mem _ hk'))) hr
      simp [this]

/-- the instrument list for a sorted key list: one instrument per key, in order; the pre-created instrument
`first` is taken over by the first group iff its instrument number is ≤ 0, else it stays in front -/
def writtenInsts (mk : Key → PMInst) (first : PMInst) : List Key → List PMInst
  | [] => [first]
  | k0 :: r => if 0 < k0.1 then first :: (k0 :: r).map mk else (k0 :: r).map mk

/-- what the instrument loop produces for a sorted key list -/
theorem instLoop_sorted (mk : Key → PMInst) (first : PMInst) (ks : List Key) (hs : KeySorted ks) (r : List PMInst)
    (hr : instLoop mk false first [] ks = .ok r) : r = writtenInsts mk first ks := by
  cases ks with
  | nil => simp [instLoop] at hr; simp [← hr, writtenInsts]
  | cons k0 t =>
    unfold writtenInsts
    by_cases h0 : 0 < k0.1
    · simp only [h0, if_true]
      have := instLoop_append mk false first [] (k0 :: t) (Or.inr (by
        intro k hk
        rcases List.mem_cons.mp hk with e | hk
        · subst e; exact h0
        · have hlt := (List.pairwise_cons.mp hs).1 k hk
          obtain ⟨a1, a2, a3⟩ := k0
          obtain ⟨b1, b2, b3⟩ := k
          simp only [keyLt, Bool.or_eq_true, Bool.and_eq_true, decide_eq_true_eq, beq_iff_eq] at hlt
          simp at h0 ⊢
          omega)) r hr
      simpa using this
    · simp only [h0, if_false]
      unfold instLoop at hr
      have hc : ¬ (0 < k0.1 ∨ false = true) := by simp [h0]
      rw [if_neg hc] at hr
      have := instLoop_append mk true (mk k0) [] t (Or.inl rfl) r hr
      simpa using this

/-! ### reader enumeration -/

theorem readNotesFrom_append (i : Nat) (a b : List PMInst) :
    readNotesFrom i (a ++ b) = readNotesFrom i a ++ readNotesFrom (i + a.length) b := by
  induction a generalizing i with
  | nil => simp [readNotesFrom]
  | cons x t ih =>
    simp only [List.cons_append, readNotesFrom, ih, List.length_cons, List.append_assoc]
    congr 3
    omega

/-- enumeration by the reader: instrument numbers are positions, injective on a duplicate-free key list -/
theorem read_enumeration (g : Key → PMInst) (K : List Key) (i : Nat) (hnd : K.Nodup) :
    ∃ f : Key → Nat, (∀ k ∈ K, i ≤ f k) ∧ (∀ k1 ∈ K, ∀ k2 ∈ K, f k1 = f k2 → k1 = k2) ∧
      readNotesFrom i (K.map g) = K.flatMap (fun k => (g k).notes.map (readNote (f k) (g k))) ∧
      readBendsFrom i (K.map g) = K.flatMap (fun k => (g k).bends.map (readBend (f k) (g k))) ∧
      readCCsFrom i (K.map g) = K.flatMap (fun k => (g k).ccs.map (readCC (f k) (g k))) := by
  induction K generalizing i with
  | nil => exact ⟨fun _ => i, by simp, by simp, by simp [readNotesFrom], by simp [readBendsFrom], by simp [readCCsFrom]⟩
  | cons k t ih =>
    have hk : k ∉ t := (List.nodup_cons.mp hnd).1
    obtain ⟨f', hge, hinj, hn, hb, hc⟩ := ih (i + 1) (List.nodup_cons.mp hnd).2
    refine ⟨fun x => if x = k then i else f' x, ?_, ?_, ?_, ?_, ?_⟩
    · intro x hx
      by_cases e : x = k
      · simp [e]
      · simp only [e, if_false]
        rcases List.mem_cons.mp hx with e' | hx
        · exact absurd e' e
        · have := hge x hx
          omega
    · intro x hx y hy hxy
      by_cases ex : x = k <;> by_cases ey : y = k
      · rw [ex, ey]
      · simp only [ex, ey, if_true, if_false] at hxy
        rcases List.mem_cons.mp hy with e' | hy
        · exact absurd e' ey
        · have := hge y hy
          omega
      · simp only [ex, ey, if_true, if_false] at hxy
        rcases List.mem_cons.mp hx with e' | hx
        · exact absurd e' ex
        · have := hge x hx
          omega
      · simp only [ex, ey, if_false] at hxy
        rcases List.mem_cons.mp hx with e' | hx
        · exact absurd e' ex
        rcases List.mem_cons.mp hy with e' | hy
        · exact absurd e' ey
        exact hinj x hx y hy hxy
    all_goals
      simp only [List.map_cons, readNotesFrom, readBendsFrom, readCCsFrom, List.flatMap_cons, if_true, hn, hb, hc]
      congr 1
      apply flatMap_congr'
      intro x hx
      have : x ≠ k := by intro e; rw [e] at hx; exact hk hx
      simp [this]

/-! ### what comes back through the assumed transport -/

def hasNotes (s : NoteSeq) (k : Key) : Bool := !(groupNotes s k).isEmpty

/-- the keys of the groups that have at least one note, in written order -/
def noteGroupKeys (met : Option Rat) (s : NoteSeq) : List Key := (groupKeys met s).filter (hasNotes s)

/-- a note after the round trip: times through `τ`, instrument renumbered, program / drum flag / pitch /
velocity unchanged, every field MIDI does not carry reset -/
def rtNote (τ : Rat → Rat) (i : Nat) (n : Note) : Note :=
  { pitch := n.pitch, velocity := n.velocity, start := τ n.start, end_ := τ n.end_, qs := 0, qe := 0,
    instrument := (i : Int), program := n.program, isDrum := n.isDrum,
    numerator := 0, denominator := 0, voice := 0, part := 0, pitchName := 0 }
def rtBend (τ : Rat → Rat) (i : Nat) (b : Bend) : Bend :=
  { time := τ b.time, bend := b.bend, instrument := (i : Int), program := b.program, isDrum := b.isDrum }
def rtCC (τ : Rat → Rat) (i : Nat) (c : CC) : CC :=
  { time := τ c.time, qstep := 0, number := c.number, value := c.value,
    instrument := (i : Int), program := c.program, isDrum := c.isDrum }

theorem mem_groupKeys {met : Option Rat} {s : NoteSeq} {k : Key} :
    k ∈ groupKeys met s ↔ (∃ n ∈ s.notes, noteKey n = k) ∨ (∃ b ∈ keptBends met s, bendKey b = k) ∨
      (∃ c ∈ keptCCs met s, ccKey c = k) := by
  unfold groupKeys
  rw [mem_sortedKeys]
  simp only [List.mem_append, List.mem_map, or_assoc]

theorem transportInsts_map (τ : Rat → Rat) (met : Option Rat) (s : NoteSeq) (ks : List Key) :
    transportInsts τ (ks.map (mkInst met s)) =
      (ks.filter (hasNotes s)).map (fun k => transportInst τ (mkInst met s k)) := by
  unfold transportInsts
  rw [List.filter_map, List.map_map]
  congr 2
  funext k
  simp [hasNotes, mkInst, Function.comp]

theorem writePM_insts {R : Rat → Rat} {s : NoteSeq} {drop : Option Rat} {pm : PM}
    (h : writePM R s drop = .ok pm) :
    instLoop (mkInst (maxEventTime R s drop) s) false placeholder [] (groupKeys (maxEventTime R s drop) s)
      = .ok pm.insts := by
  unfold writePM at h
  simp only at h
  split at h
  · cases h
  · split at h
    · cases h
    · split at h
      · cases h
      · split at h
        · cases h
        · split at h
          · cases h
          · split at h
            · cases h
            · rename_i insts hi
              cases h
              exact hi

theorem writePM_map {R : Rat → Rat} {s : NoteSeq} {drop : Option Rat} {pm : PM}
    (h : writePM R s drop = .ok pm) :
    tempoScales R (if s.tpq ≠ 0 then s.tpq else Gen.STANDARD_PPQ) (maxEventTime R s drop) s.tempos = .ok pm.map := by
  unfold writePM at h
  unfold tempoScales
  simp only at h ⊢
  split at h
  · cases h
  · split at h
    · cases h
    · split at h
      · cases h
      · split at h
        · cases h
        · rename_i map hm
          split at h
          · cases h
          · split at h
            · cases h
            · cases h
              exact hm

/-- fibres over a duplicate-free key list, each mapped with a key-indexed function, rearrange the part of the
list whose keys are listed (`p` = "the key is listed") -/
theorem perm_fibres_map {α β κ} [DecidableEq κ] (key : α → κ) (K : List κ) (l : List α) (hnd : K.Nodup)
    (G : κ → α → β) (p : α → Bool) (hp : ∀ a ∈ l, (p a = true ↔ key a ∈ K)) :
    (K.flatMap (fun k => (l.filter (fun a => key a = k)).map (G k))).Perm
      ((l.filter p).map (fun a => G (key a) a)) := by
  have e : K.flatMap (fun k => (l.filter (fun a => key a = k)).map (G k)) =
      (K.flatMap (fun k => (l.filter p).filter (fun a => key a = k))).map
        (fun a => G (key a) a) := by
    rw [List.map_flatMap]
    apply flatMap_congr'
    intro k hk
    rw [List.filter_filter]
    have : l.filter (fun a => (decide (key a = k) && p a)) = l.filter (fun a => decide (key a = k)) := by
      apply List.filter_congr
      intro a hal
      by_cases h : key a = k
      · have : p a = true := (hp a hal).mpr (h ▸ hk)
        simp [h, this]
      · simp [h]
    rw [this]
    apply List.map_congr_left
    intro a ha
    have := (List.mem_filter.mp ha).2
    simp only [decide_eq_true_eq] at this
    rw [this]
  rw [e]
  apply List.Perm.map
  apply perm_flatMap_fibres key K _ hnd
  intro a ha
  exact (hp a (List.mem_filter.mp ha).1).mp (List.mem_filter.mp ha).2

theorem transportInsts_written (τ : Rat → Rat) (met : Option Rat) (s : NoteSeq) (ks : List Key) :
    transportInsts τ (writtenInsts (mkInst met s) placeholder ks) =
      (ks.filter (hasNotes s)).map (fun k => transportInst τ (mkInst met s k)) := by
  cases ks with
  | nil => simp [writtenInsts, transportInsts, placeholder]
  | cons k0 r =>
    rw [← transportInsts_map]
    show transportInsts τ (if 0 < k0.1 then placeholder :: (k0 :: r).map (mkInst met s) else (k0 :: r).map (mkInst met s)) = _
    split
    · simp [transportInsts, placeholder]
    · rfl

/-! ### storage-order independence of the tempo loop -/

/-- no two tempos at the same time -/
def DistinctTimes (l : List Tempo) : Prop := l.Pairwise (fun a b => a.time ≠ b.time)

theorem DistinctTimes.eq_of_time {l : List Tempo} (hd : DistinctTimes l) {a b : Tempo} (ha : a ∈ l) (hb : b ∈ l)
    (h : a.time = b.time) : a = b := by
  induction l with
  | nil => cases ha
  | cons x t ih =>
    have hx := (List.pairwise_cons.mp hd).1
    rcases List.mem_cons.mp ha with ea | ha' <;> rcases List.mem_cons.mp hb with eb | hb'
    · rw [ea, eb]
    · rw [ea] at h; exact absurd h (hx b hb')
    · rw [eb] at h; exact absurd h.symm (hx a ha')
    · exact ih (List.pairwise_cons.mp hd).2 ha' hb'

theorem DistinctTimes.perm {l1 l2 : List Tempo} (hp : l1.Perm l2) (hd : DistinctTimes l1) : DistinctTimes l2 :=
  (hp.pairwise_iff (fun h => Ne.symm h)).mp hd

theorem initialTempo_mem {l : List Tempo} {t : Tempo} (h : initialTempo l = some t) : t ∈ l ∧ t.time = 0 := by
  induction l with
  | nil => simp [initialTempo] at h
  | cons x r ih =>
    unfold initialTempo at h
    split at h
    · cases h; rename_i hx; exact ⟨by simp, hx⟩
    · have := ih h; exact ⟨List.mem_cons_of_mem _ this.1, this.2⟩

theorem initialTempo_none {l : List Tempo} (h : initialTempo l = none) : ∀ t ∈ l, t.time ≠ 0 := by
  induction l with
  | nil => simp
  | cons x r ih =>
    unfold initialTempo at h
    split at h
    · cases h
    · rename_i hx
      intro t ht
      rcases List.mem_cons.mp ht with e | ht
      · subst e; exact hx
      · exact ih h t ht

/-- with distinct times the initial tempo does not depend on the storage order -/
theorem initialTempo_perm {l1 l2 : List Tempo} (hp : l1.Perm l2) (hd : DistinctTimes l1) :
    initialTempo l1 = initialTempo l2 := by
  cases h1 : initialTempo l1 with
  | none =>
    cases h2 : initialTempo l2 with
    | none => rfl
    | some t =>
      have := initialTempo_mem h2
      exact absurd this.2 (initialTempo_none h1 t (hp.symm.subset this.1))
  | some t =>
    have m1 := initialTempo_mem h1
    cases h2 : initialTempo l2 with
    | none => exact absurd m1.2 (initialTempo_none h2 t (hp.subset m1.1))
    | some u =>
      have m2 := initialTempo_mem h2
      have : t = u := hd.eq_of_time m1.1 (hp.symm.subset m2.1) (by rw [m1.2, m2.2])
      rw [this]

/-- with distinct times the time-sorted order is unique -/
theorem sortByRat_time_perm {l1 l2 : List Tempo} (hp : l1.Perm l2) (hd : DistinctTimes l1) :
    sortByRat (·.time) l1 = sortByRat (·.time) l2 := by
  unfold sortByRat
  have tr : ∀ a b c : Tempo, decide (a.time ≤ b.time) = true → decide (b.time ≤ c.time) = true →
      decide (a.time ≤ c.time) = true := by
    intro a b c h1 h2
    simp only [decide_eq_true_eq] at *
    exact Rat.le_trans h1 h2
  have tot : ∀ a b : Tempo, (decide (a.time ≤ b.time) || decide (b.time ≤ a.time)) = true := by
    intro a b
    simp only [Bool.or_eq_true, decide_eq_true_eq]
    exact Rat.le_total
  apply List.Perm.eq_of_pairwise (le := fun a b => decide (a.time ≤ b.time) = true)
  · intro a b ha hb h1 h2
    simp only [decide_eq_true_eq] at h1 h2
    have ha' : a ∈ l1 := (List.mergeSort_perm l1 _).subset ha
    have hb' : b ∈ l1 := hp.symm.subset ((List.mergeSort_perm l2 _).subset hb)
    exact hd.eq_of_time ha' hb' (Rat.le_antisymm h1 h2)
  · exact List.pairwise_mergeSort tr tot l1
  · exact List.pairwise_mergeSort tr tot l2
  · exact (List.mergeSort_perm l1 _).trans (hp.trans (List.mergeSort_perm l2 _).symm)

/-- the time-sorted order is strictly increasing when times are distinct -/
theorem sortByRat_time_strict {l : List Tempo} (hd : DistinctTimes l) :
    (sortByRat (·.time) l).Pairwise (fun a b => a.time < b.time) := by
  unfold sortByRat
  have tr : ∀ a b c : Tempo, decide (a.time ≤ b.time) = true → decide (b.time ≤ c.time) = true →
      decide (a.time ≤ c.time) = true := by
    intro a b c h1 h2
    simp only [decide_eq_true_eq] at *
    exact Rat.le_trans h1 h2
  have tot : ∀ a b : Tempo, (decide (a.time ≤ b.time) || decide (b.time ≤ a.time)) = true := by
    intro a b
    simp only [Bool.or_eq_true, decide_eq_true_eq]
    exact Rat.le_total
  have h1 := List.pairwise_mergeSort tr tot l
  have h2 : DistinctTimes (l.mergeSort fun a b => decide (a.time ≤ b.time)) :=
    DistinctTimes.perm (List.mergeSort_perm l _).symm hd
  have := h1.and h2
  refine this.imp ?_
  intro a b ⟨hle, hne⟩
  simp only [decide_eq_true_eq] at hle
  exact Rat.lt_of_le_of_ne hle hne

end NSV.C03
