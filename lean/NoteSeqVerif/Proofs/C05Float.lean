import NoteSeqVerif.Proofs.C05
import NoteSeqVerif.Proofs.RoundingApps
/-! C05 — the timing clause in FLOATING POINT: lemmas behind `Props/C05_float.lean`.

`R` is any rounding operator with the facts of `Proofs/Rounding.lean` (`Rounding R`; the executable
`rne53` is one, `rounding_rne53`).  The file has three layers:

* numbers: how the error of `R (R (R (d · R (PPQ / div)) / PPQ) · R (60 / qpm))` and of
  `R (cursor ± seconds)` propagates (relative `Near` form without `<backup>`, absolute form with it),
  and when every operation is exact;
* parser: what one element does to the cursor for an arbitrary `R` (`parseNote_float`, `parseEl_float`);
* a small simulation framework (`Sim`): an invariant of the parser state indexed by a ghost state that
  follows the element list is lifted from `parseEl` to `parseEls`, `parseMeasure`, `parseMeasures`, and to the
  state in which the element at a given position of a part is read (`Sim.at_el`). -/
namespace NSV.C05
open NSV

/-! ## numbers -/

/-- the unit roundoff of binary64 -/
abbrev u53 : ℚ := 1 / 2 ^ 53

theorem u53_pos : (0 : ℚ) < u53 := by unfold u53; positivity

/-- Bernoulli: `1 - n·u ≤ (1 - u)^n` -/
theorem bernoulli53 (n : ℕ) : 1 - (n : ℚ) * u53 ≤ (1 - u53) ^ n := by
  have hw : (0 : ℚ) ≤ 1 - u53 := by unfold u53; norm_num
  induction n with
  | zero => simp
  | succ n ih =>
    have h1 : (1 - (n : ℚ) * u53) * (1 - u53) ≤ (1 - u53) ^ n * (1 - u53) :=
      mul_le_mul_of_nonneg_right ih hw
    have h2 : (0 : ℚ) ≤ (n : ℚ) * u53 * u53 := by positivity
    rw [pow_succ]
    push_cast
    nlinarith

theorem near_zero {n : ℕ} {a' : ℚ} (h : Near 53 n a' 0) : a' = 0 := by
  have hw : (0 : ℚ) < (1 - 1 / 2 ^ 53) ^ n := pow_pos (Near.w_pos (by norm_num)) n
  obtain ⟨h1, h2⟩ := h
  rw [zero_mul] at h1
  have : a' ≤ 0 := by
    by_contra hc
    have := mul_pos (not_le.mp hc) hw
    linarith
  linarith

theorem near_zero_zero (n : ℕ) : Near 53 n 0 0 := by simp [Near]

theorem near_nonneg {n : ℕ} {a' a : ℚ} (h : Near 53 n a' a) (ha : 0 ≤ a) : 0 ≤ a' := by
  rcases ha.lt_or_eq with h0 | h0
  · exact (h.pos (by norm_num) h0).le
  · subst h0; rw [near_zero h]

theorem near_mono0 {n m : ℕ} {a' a : ℚ} (h : Near 53 n a' a) (ha : 0 ≤ a) (hnm : n ≤ m) :
    Near 53 m a' a := by
  rcases ha.lt_or_eq with h0 | h0
  · exact h.mono (by norm_num) h0 hnm
  · subst h0; rw [near_zero h]; exact near_zero_zero m

theorem near_round0 {R : ℚ → ℚ} (hR : Rounding R) {n : ℕ} {a' a : ℚ} (h : Near 53 n a' a) (ha : 0 ≤ a) :
    Near 53 (n + 1) (R a') a := by
  rcases ha.lt_or_eq with h0 | h0
  · exact h.round hR (by norm_num) h0
  · subst h0; rw [near_zero h, hR.zero]; exact near_zero_zero _

/-- the error index of a sum is the larger of the two, not their sum -/
theorem near_add_max {n m : ℕ} {a' a b' b : ℚ} (ha : 0 ≤ a) (hb : 0 ≤ b) (h1 : Near 53 n a' a)
    (h2 : Near 53 m b' b) : Near 53 (max n m) (a' + b') (a + b) := by
  have k1 := near_mono0 h1 ha (le_max_left n m)
  have k2 := near_mono0 h2 hb (le_max_right n m)
  exact ⟨by rw [add_mul]; exact add_le_add k1.1 k2.1, by rw [add_mul]; exact add_le_add k1.2 k2.2⟩

/-- `Near 53 N` as a relative error bound `(N+1)·2^-53`, for `N (N+1) ≤ 2^53` -/
theorem near_abs {N : ℕ} {a' a : ℚ} (h : Near 53 N a' a) (ha : 0 ≤ a) (hN : N * (N + 1) ≤ 2 ^ 53) :
    |a' - a| ≤ a * (((N : ℚ) + 1) * u53) := by
  rcases ha.lt_or_eq with h0 | h0
  · have hb := bernoulli53 N
    have hu := u53_pos
    have hNq : (N : ℚ) * ((N : ℚ) + 1) * u53 ≤ 1 := by
      have : ((N * (N + 1) : ℕ) : ℚ) ≤ ((2 ^ 53 : ℕ) : ℚ) := by exact_mod_cast hN
      push_cast at this
      unfold u53
      rw [mul_one_div, div_le_one (by positivity)]
      exact this
    have hw : (0 : ℚ) < (1 - 1 / 2 ^ 53) ^ N := pow_pos (Near.w_pos (by norm_num)) N
    refine h.abs_le h0 ?_ ?_ hw
    · show 1 - ((N : ℚ) + 1) * u53 ≤ (1 - u53) ^ N
      linarith
    · show 1 ≤ (1 + ((N : ℚ) + 1) * u53) * (1 - u53) ^ N
      have hc : (0 : ℚ) ≤ 1 + ((N : ℚ) + 1) * u53 := by positivity
      have h1 : (1 + ((N : ℚ) + 1) * u53) * (1 - (N : ℚ) * u53) ≤
          (1 + ((N : ℚ) + 1) * u53) * (1 - u53) ^ N := mul_le_mul_of_nonneg_left hb hc
      have h2 : (1 + ((N : ℚ) + 1) * u53) * (1 - (N : ℚ) * u53) =
          1 + u53 * (1 - (N : ℚ) * ((N : ℚ) + 1) * u53) := by ring
      have h3 : 0 ≤ u53 * (1 - (N : ℚ) * ((N : ℚ) + 1) * u53) := mul_nonneg hu.le (by linarith)
      linarith
  · subst h0; rw [near_zero h]; simp


/-- the arithmetic of `secondsOf` on numbers: `R (R (R (d · R (ppq / div)) / ppq) · spq)` -/
def secF (R : ℚ → ℚ) (ppq div spq d : ℚ) : ℚ := R (R (R (d * R (ppq / div)) / ppq) * spq)

theorem secF_zero {R : ℚ → ℚ} (hR : Rounding R) (ppq div spq : ℚ) : secF R ppq div spq 0 = 0 := by
  simp [secF, hR.zero]

theorem secF_nonneg {R : ℚ → ℚ} (hR : Rounding R) {ppq div spq d : ℚ} (hp : 0 < ppq) (hd : 0 < div)
    (hs : 0 ≤ spq) (h : 0 ≤ d) : 0 ≤ secF R ppq div spq d := by
  unfold secF
  have h1 : 0 ≤ R (ppq / div) := hR.nonneg (div_pos hp hd).le
  have h2 : 0 ≤ R (d * R (ppq / div)) := hR.nonneg (mul_nonneg h h1)
  have h3 : 0 ≤ R (R (d * R (ppq / div)) / ppq) := hR.nonneg (div_nonneg h2 hp.le)
  exact hR.nonneg (mul_nonneg h3 hs)

/-- five roundings: `Near 53 5` of the exact `d / div · 60 / qpm` -/
theorem secF_near {R : ℚ → ℚ} (hR : Rounding R) {ppq div qpm d : ℚ} (hp : 0 < ppq) (hd : 0 < div)
    (hq : 0 < qpm) (h : 0 ≤ d) : Near 53 5 (secF R ppq div (R (60 / qpm)) d) (d / div * (60 / qpm)) := by
  rcases h.lt_or_eq with h0 | h0
  · have := FExpr.near hR (by norm_num : 1 ≤ 53)
      (.mul (.div (.mul (.lit d) (.div (.lit ppq) (.lit div))) (.lit ppq)) (.div (.lit 60) (.lit qpm)))
      ⟨⟨⟨h0, hp, hd⟩, hp⟩, by simp [FExpr.Pos], hq⟩
    simp only [FExpr.ops, FExpr.rounded, FExpr.exact] at this
    have e : d * (ppq / div) / ppq * (60 / qpm) = d / div * (60 / qpm) := by field_simp
    rw [e] at this
    exact this
  · subst h0; rw [secF_zero hR]; simp [Near]

theorem secF_abs {R : ℚ → ℚ} (hR : Rounding R) {ppq div qpm d : ℚ} (hp : 0 < ppq) (hd : 0 < div)
    (hq : 0 < qpm) (h : 0 ≤ d) :
    |secF R ppq div (R (60 / qpm)) d - d / div * (60 / qpm)| ≤ d / div * (60 / qpm) * (6 * u53) := by
  have hσ : 0 ≤ d / div * (60 / qpm) := by positivity
  have := near_abs (secF_near hR hp hd hq h) hσ (by norm_num)
  norm_num at this ⊢
  linarith

/-- one forward move of the cursor, relative form -/
theorem rel_step {R : ℚ → ℚ} (hR : Rounding R) {k : ℕ} {tp t s σ : ℚ} (h1 : Near 53 (k + 5) tp t) (ht : 0 ≤ t)
    (h2 : Near 53 5 s σ) (hσ : 0 ≤ σ) : Near 53 (k + 1 + 5) (R (tp + s)) (t + σ) := by
  have := near_round0 hR (near_add_max ht hσ h1 h2) (add_nonneg ht hσ)
  rwa [max_eq_left (by omega), show k + 5 + 1 = k + 1 + 5 by omega] at this

/-- one move of the cursor in either direction, absolute form: `M` bounds the exact cursors and moves -/
theorem abs_step {R : ℚ → ℚ} (hR : Rounding R) {k : ℕ} {tp t s σ M : ℚ}
    (hE : |tp - t| ≤ 8 * (k : ℚ) * u53 * M) (hs : |s - σ| ≤ |σ| * (6 * u53)) (hσM : |σ| ≤ M)
    (ht' : |t + σ| ≤ M) (hk : 8 * k + 6 ≤ 2 ^ 53) :
    |R (tp + s) - (t + σ)| ≤ 8 * ((k + 1 : ℕ) : ℚ) * u53 * M := by
  have hu := u53_pos
  have hM : 0 ≤ M := (abs_nonneg σ).trans hσM
  have hku : (8 * (k : ℚ) + 6) * u53 ≤ 1 := by
    have : ((8 * k + 6 : ℕ) : ℚ) ≤ ((2 ^ 53 : ℕ) : ℚ) := by exact_mod_cast hk
    push_cast at this
    unfold u53
    rw [mul_one_div, div_le_one (by positivity)]
    exact this
  have hs' : |s - σ| ≤ 6 * u53 * M := by
    calc |s - σ| ≤ |σ| * (6 * u53) := hs
      _ ≤ M * (6 * u53) := mul_le_mul_of_nonneg_right hσM (by positivity)
      _ = 6 * u53 * M := by ring
  -- the error before rounding
  have he : |tp + s - (t + σ)| ≤ (8 * (k : ℚ) + 6) * u53 * M := by
    obtain ⟨a1, a2⟩ := abs_le.mp hE
    obtain ⟨b1, b2⟩ := abs_le.mp hs'
    rw [abs_le]; constructor <;> nlinarith
  have heM : (8 * (k : ℚ) + 6) * u53 * M ≤ M := by
    calc (8 * (k : ℚ) + 6) * u53 * M ≤ 1 * M := mul_le_mul_of_nonneg_right hku hM
      _ = M := one_mul M
  have hx : |tp + s| ≤ 2 * M := by
    obtain ⟨a1, a2⟩ := abs_le.mp he
    obtain ⟨b1, b2⟩ := abs_le.mp ht'
    rw [abs_le]; constructor <;> linarith
  have hr : |R (tp + s) - (tp + s)| ≤ 2 * M * u53 :=
    (hR.rel_err (tp + s)).trans (mul_le_mul_of_nonneg_right hx hu.le)
  obtain ⟨a1, a2⟩ := abs_le.mp he
  obtain ⟨b1, b2⟩ := abs_le.mp hr
  push_cast
  rw [abs_le]; constructor <;> nlinarith

/-- a number the format holds exactly: `n · 2^k` with `|n| ≤ 2^53` -/
def Repr53 (x : ℚ) : Prop := ∃ n k : ℤ, n.natAbs ≤ 2 ^ 53 ∧ x = (n : ℚ) * 2 ^ k

theorem Repr53.fix {R : ℚ → ℚ} (hR : Rounding R) {x : ℚ} (h : Repr53 x) : R x = x := by
  obtain ⟨n, k, hn, rfl⟩ := h
  exact hR.exact_dyadic (by norm_num) n hn k

theorem repr53_zero : Repr53 0 := ⟨0, 0, by simp, by simp⟩

/-- divisions a power of two, tempo `60·2^i`: every operation of `secondsOf` is exact -/
theorem secF_exact {R : ℚ → ℚ} (hR : Rounding R) {ppq d : ℤ} {j : ℕ} {i : ℤ} (hp : 0 < ppq) (hd : 0 ≤ d)
    (hdp : d * ppq ≤ 2 ^ 53) :
    secF R ppq ((2 : ℚ) ^ j) (R (60 / (60 * (2 : ℚ) ^ i))) d = (d : ℚ) / (2 : ℚ) ^ j * (60 / (60 * (2 : ℚ) ^ i)) := by
  rcases hd.lt_or_eq with h | h
  · have hp' : (ppq : ℚ) ≠ 0 := by exact_mod_cast hp.ne'
    have h2j : ((2 : ℚ) ^ j) ≠ 0 := by positivity
    have h2i : ((2 : ℚ) ^ i) ≠ 0 := zpow_ne_zero _ (by norm_num)
    have hle : ppq ≤ d * ppq := by
      have : 1 * ppq ≤ d * ppq := Int.mul_le_mul_of_nonneg_right (by omega) hp.le
      omega
    have hppq : ppq.natAbs ≤ 2 ^ 53 := by omega
    have hdd : d.natAbs ≤ 2 ^ 53 := by
      have : d * 1 ≤ d * ppq := Int.mul_le_mul_of_nonneg_left (by omega) hd
      omega
    have hnj : (2 : ℚ) ^ (-(j : ℤ)) = 1 / 2 ^ j := by rw [zpow_neg, zpow_natCast, one_div]
    have fix : ∀ (n : ℤ) (k : ℤ) (x : ℚ), n.natAbs ≤ 2 ^ 53 → x = (n : ℚ) * 2 ^ k → R x = x := by
      intro n k x hn hx; rw [hx]; exact hR.exact_dyadic (by norm_num) n hn k
    have e1 : R ((ppq : ℚ) / 2 ^ j) = (ppq : ℚ) / 2 ^ j :=
      fix ppq (-(j : ℤ)) _ hppq (by rw [hnj]; ring)
    have e2 : R ((d : ℚ) * ((ppq : ℚ) / 2 ^ j)) = (d : ℚ) * ((ppq : ℚ) / 2 ^ j) :=
      fix (d * ppq) (-(j : ℤ)) _ (by omega) (by rw [hnj]; push_cast; ring)
    have e3 : R ((d : ℚ) * ((ppq : ℚ) / 2 ^ j) / ppq) = (d : ℚ) / 2 ^ j :=
      (fix d (-(j : ℤ)) _ hdd (by rw [hnj]; field_simp)).trans (by field_simp)
    have e4 : R (60 / (60 * (2 : ℚ) ^ i)) = 60 / (60 * (2 : ℚ) ^ i) :=
      fix 1 (-i) _ (by norm_num) (by rw [zpow_neg]; push_cast; field_simp)
    have e5 : R ((d : ℚ) / 2 ^ j * (60 / (60 * (2 : ℚ) ^ i))) = (d : ℚ) / 2 ^ j * (60 / (60 * (2 : ℚ) ^ i)) :=
      fix d (-(j : ℤ) + -i) _ hdd (by
        rw [zpow_add₀ (by norm_num : (2 : ℚ) ≠ 0), hnj, zpow_neg]; field_simp)
    unfold secF
    rw [e1, e2, e3, e4, e5]
  · subst h
    rw [Int.cast_zero, secF_zero hR]; simp


/-! ## the parser for an arbitrary `R` -/

theorem secondsOf_eq (R : ℚ → ℚ) (st : PState) (d : Int) (h : st.divisions ≠ 0) :
    secondsOf R st d = .ok (secF R (Gen.STANDARD_PPQ : ℚ) (st.divisions : ℚ) st.spq (d : ℚ)) := by
  unfold secondsOf secF
  rw [if_neg h]

theorem ppq_pos : (0 : ℚ) < (Gen.STANDARD_PPQ : ℚ) := by
  have : (0 : Int) < Gen.STANDARD_PPQ := by decide
  exact_mod_cast this

/-- the parser state agrees with the context in force, in floating point: `seconds_per_quarter` is the
ROUNDED `60 / qpm` (`Inv` of `Proofs/C05.lean` is the case `R = id`) -/
structure InvF (R : ℚ → ℚ) (st : PState) (c : Ctx) : Prop where
  div : st.divisions = c.div
  qpm : st.qpm = c.qpm
  spq : st.spq = R (60 / c.qpm)

theorem InvF.init {R : ℚ → ℚ} (hR : Rounding R) : InvF R PState.init Ctx.init := by
  refine ⟨rfl, rfl, ?_⟩
  have : (60 : ℚ) / Ctx.init.qpm = 1 / 2 := by
    simp only [Ctx.init, Gen.INIT_QPM]; norm_num
  rw [this, hR.half (by norm_num)]
  simp only [PState.init, Gen.INIT_SPQ]

/-- what `parseNote` does, for every `R`: a grace note leaves the state alone; a chord note copies onset and
duration of `previous_note`; any other note starts at the cursor and moves it by its own length -/
theorem parseNote_float {R : ℚ → ℚ} {st : PState} {n : NoteEl} {st' : PState} {pn : PNote}
    (h : parseNote R st n = .ok (st', pn)) :
    (n.duration = none → st' = st ∧ pn.time = 0 ∧ pn.seconds = 0 ∧ pn.duration = 0) ∧
    (∀ d, n.duration = some d → n.chord = true → ∃ pd pt, st.prev = some (pd, pt) ∧ st' = st ∧
        pn.time = pt ∧ pn.duration = pd ∧ secondsOf R st pd = .ok pn.seconds) ∧
    (∀ d, n.duration = some d → n.chord = false → st' = { st with tp := R (st.tp + pn.seconds) } ∧
        pn.time = st.tp ∧ pn.duration = d ∧ secondsOf R st d = .ok pn.seconds) := by
  unfold parseNote at h
  simp only [] at h
  split at h
  · contradiction
  · split at h
    · contradiction
    · rename_i st1 dur time sec grace hdur
      split at h
      · contradiction
      · split at h
        · contradiction
        · simp only [Except.ok.injEq, Prod.mk.injEq] at h
          obtain ⟨rfl, rfl⟩ := h
          cases hd : n.duration with
          | none =>
            simp only [hd, Except.ok.injEq, Prod.mk.injEq] at hdur
            obtain ⟨rfl, rfl, rfl, rfl, rfl⟩ := hdur
            exact ⟨fun _ => ⟨rfl, rfl, rfl, rfl⟩, fun d h2 => by simp at h2, fun d h2 => by simp at h2⟩
          | some d0 =>
            simp only [hd] at hdur
            cases hc : n.chord with
            | true =>
              simp only [hc, if_true] at hdur
              split at hdur
              · contradiction
              · rename_i pd pt hprev
                split at hdur
                · contradiction
                · rename_i sec' hsec
                  simp only [Except.ok.injEq, Prod.mk.injEq] at hdur
                  obtain ⟨rfl, rfl, rfl, rfl, rfl⟩ := hdur
                  exact ⟨fun h2 => by simp at h2, fun d _ _ => ⟨pd, pt, hprev, rfl, rfl, rfl, hsec⟩,
                    fun d _ h2 => by simp at h2⟩
            | false =>
              simp only [hc, Bool.false_eq_true, if_false] at hdur
              split at hdur
              · contradiction
              · rename_i sec' hsec
                simp only [Except.ok.injEq, Prod.mk.injEq] at hdur
                obtain ⟨rfl, rfl, rfl, rfl, rfl⟩ := hdur
                refine ⟨fun h2 => by simp at h2, fun d _ h2 => by simp at h2, fun d h2 _ => ?_⟩
                simp only [Option.some.injEq] at h2
                subst h2
                exact ⟨rfl, rfl, rfl, hsec⟩

theorem parseAttr_invF {R : ℚ → ℚ} {st : PState} {m : MState} {a : AttrChild} {st' : PState} {m' : MState}
    {c : Ctx} (hinv : InvF R st c) (h : parseAttr st m a = .ok (st', m')) :
    st'.tp = st.tp ∧ InvF R st' (ctxAttr c a) := by
  cases a with
  | divisions d =>
    simp only [parseAttr, Except.ok.injEq, Prod.mk.injEq] at h
    obtain ⟨rfl, rfl⟩ := h
    exact ⟨rfl, ⟨rfl, hinv.qpm, hinv.spq⟩⟩
  | key f mode =>
    simp only [parseAttr] at h
    split at h
    · contradiction
    · simp only [Except.ok.injEq, Prod.mk.injEq] at h
      obtain ⟨rfl, rfl⟩ := h
      exact ⟨rfl, hinv⟩
  | time b bt =>
    simp only [parseAttr] at h
    split at h
    · contradiction
    · split at h
      · contradiction
      · simp only [Except.ok.injEq, Prod.mk.injEq] at h
        obtain ⟨rfl, rfl⟩ := h
        exact ⟨rfl, ⟨hinv.div, hinv.qpm, hinv.spq⟩⟩
  | transpose t =>
    simp only [parseAttr] at h
    split at h <;>
    · simp only [Except.ok.injEq, Prod.mk.injEq] at h
      obtain ⟨rfl, rfl⟩ := h
      exact ⟨rfl, ⟨hinv.div, hinv.qpm, hinv.spq⟩⟩

theorem parseAttrs_invF {R : ℚ → ℚ} {cs : List AttrChild} : ∀ {st : PState} {m : MState} {st' : PState}
    {m' : MState} {c : Ctx}, InvF R st c → parseAttrs st m cs = .ok (st', m') →
    st'.tp = st.tp ∧ InvF R st' (cs.foldl ctxAttr c) := by
  induction cs with
  | nil =>
    intro st m st' m' c hinv h
    simp only [parseAttrs, Except.ok.injEq, Prod.mk.injEq] at h
    obtain ⟨rfl, rfl⟩ := h
    exact ⟨rfl, hinv⟩
  | cons a cs ih =>
    intro st m st' m' c hinv h
    simp only [parseAttrs] at h
    split at h
    · contradiction
    · rename_i st1 m1 h1
      obtain ⟨ht, hi⟩ := parseAttr_invF hinv h1
      obtain ⟨ht2, hi2⟩ := ih hi h
      exact ⟨ht2.trans ht, hi2⟩

theorem parseSound_invF {R : ℚ → ℚ} {st : PState} {m : MState} {s : Sound} {c : Ctx} (hinv : InvF R st c) :
    InvF R (parseSound R st m s).1 (ctxSound c s) := by
  unfold parseSound ctxSound
  cases ht : s.tempo with
  | none => exact hinv
  | some q => cases hd : s.dynamics <;> exact ⟨hinv.div, rfl, rfl⟩

theorem parseSounds_invF {R : ℚ → ℚ} {ss : List Sound} : ∀ {st : PState} {m : MState} {c : Ctx}, InvF R st c →
    InvF R (parseSounds R st m ss).1 (ss.foldl ctxSound c) := by
  induction ss with
  | nil => intro st m c hinv; exact hinv
  | cons s ss ih =>
    intro st m c hinv
    simp only [parseSounds, List.foldl]
    exact ih (m := (parseSound R st m s).2) (parseSound_invF (m := m) (s := s) hinv)

theorem parseAttrs_tp {cs : List AttrChild} : ∀ {st : PState} {m : MState} {st' : PState} {m' : MState},
    parseAttrs st m cs = .ok (st', m') → st'.tp = st.tp := by
  induction cs with
  | nil =>
    intro st m st' m' h
    simp only [parseAttrs, Except.ok.injEq, Prod.mk.injEq] at h
    obtain ⟨rfl, rfl⟩ := h; rfl
  | cons a cs ih =>
    intro st m st' m' h
    simp only [parseAttrs] at h
    split at h
    · contradiction
    · rename_i st1 m1 h1
      rw [ih h]
      cases a with
      | divisions d =>
        simp only [parseAttr, Except.ok.injEq, Prod.mk.injEq] at h1
        obtain ⟨rfl, rfl⟩ := h1; rfl
      | key f mode =>
        simp only [parseAttr] at h1
        split at h1
        · contradiction
        · simp only [Except.ok.injEq, Prod.mk.injEq] at h1
          obtain ⟨rfl, rfl⟩ := h1; rfl
      | time b bt =>
        simp only [parseAttr] at h1
        split at h1
        · contradiction
        · split at h1
          · contradiction
          · simp only [Except.ok.injEq, Prod.mk.injEq] at h1
            obtain ⟨rfl, rfl⟩ := h1; rfl
      | transpose t =>
        simp only [parseAttr] at h1
        split at h1 <;>
        · simp only [Except.ok.injEq, Prod.mk.injEq] at h1
          obtain ⟨rfl, rfl⟩ := h1; rfl

/-- what one element does to cursor, previous-note register and note list, for every `R` -/
theorem parseEl_float {R : ℚ → ℚ} {st : PState} {m : MState} {e : El} {st' : PState} {m' : MState}
    (h : parseEl R st m e = .ok (st', m')) :
    match e with
    | .forward d => ∃ sec, secondsOf R st d = .ok sec ∧ st' = { st with tp := R (st.tp + sec) } ∧ m' = m
    | .backup d => ∃ sec, secondsOf R st d = .ok sec ∧ st' = { st with tp := R (st.tp - sec) } ∧ m' = m
    | .note n => ∃ st1 pn, parseNote R st n = .ok (st1, pn) ∧
        st' = { st1 with prev := some (pn.duration, pn.time) } ∧ m'.notes = m.notes ++ [pn]
    | _ => st'.tp = st.tp ∧ st'.prev = st.prev ∧ m'.notes = m.notes := by
  cases e with
  | attributes cs =>
    simp only [parseEl] at h
    obtain ⟨a1, _, _, _, _, a6, _⟩ := parseAttrs_frame h
    exact ⟨parseAttrs_tp h, a6, a1⟩
  | backup d =>
    simp only [parseEl] at h
    split at h
    · contradiction
    · rename_i sec hsec
      simp only [Except.ok.injEq, Prod.mk.injEq] at h
      obtain ⟨rfl, rfl⟩ := h
      exact ⟨sec, hsec, rfl, rfl⟩
  | forward d =>
    simp only [parseEl] at h
    split at h
    · contradiction
    · rename_i sec hsec
      simp only [Except.ok.injEq, Prod.mk.injEq] at h
      obtain ⟨rfl, rfl⟩ := h
      exact ⟨sec, hsec, rfl, rfl⟩
  | direction ss =>
    simp only [parseEl, Except.ok.injEq] at h
    obtain ⟨a1, _, _, _, a5, a6, _⟩ := parseSounds_frame R ss st m
    rw [h] at a1 a5 a6
    exact ⟨a6, a5, a1⟩
  | note n =>
    simp only [parseEl] at h
    split at h
    · contradiction
    · rename_i st1 pn hn
      simp only [Except.ok.injEq, Prod.mk.injEq] at h
      obtain ⟨rfl, rfl⟩ := h
      exact ⟨st1, pn, hn, rfl, rfl⟩
  | harmony cs =>
    simp only [parseEl] at h
    split at h
    · contradiction
    · simp only [Except.ok.injEq, Prod.mk.injEq] at h
      obtain ⟨rfl, rfl⟩ := h
      exact ⟨rfl, rfl, rfl⟩
  | other =>
    simp only [parseEl, Except.ok.injEq, Prod.mk.injEq] at h
    obtain ⟨rfl, rfl⟩ := h
    exact ⟨rfl, rfl, rfl⟩

/-- the float state follows the context in force through every element (no hypothesis on the element) -/
theorem parseEl_invF {R : ℚ → ℚ} {st : PState} {m : MState} {e : El} {st' : PState} {m' : MState} {c : Ctx}
    (hinv : InvF R st c) (h : parseEl R st m e = .ok (st', m')) : InvF R st' (ctxStep c e) := by
  have hf := parseEl_float h
  cases e with
  | attributes cs =>
    simp only [parseEl] at h
    exact (parseAttrs_invF hinv h).2
  | backup d =>
    obtain ⟨sec, _, rfl, _⟩ := hf
    exact ⟨hinv.div, hinv.qpm, hinv.spq⟩
  | forward d =>
    obtain ⟨sec, _, rfl, _⟩ := hf
    exact ⟨hinv.div, hinv.qpm, hinv.spq⟩
  | direction ss =>
    simp only [parseEl, Except.ok.injEq] at h
    have := parseSounds_invF (ss := ss) (m := m) hinv
    rw [h] at this
    exact this
  | note n =>
    obtain ⟨st1, pn, hn, rfl, _⟩ := hf
    obtain ⟨g1, g2, g3⟩ := parseNote_float hn
    cases hd : n.duration with
    | none =>
      obtain ⟨rfl, _⟩ := g1 hd
      exact ⟨hinv.div, hinv.qpm, hinv.spq⟩
    | some d =>
      cases hc : n.chord with
      | true =>
        obtain ⟨_, _, _, rfl, _⟩ := g2 d hd hc
        exact ⟨hinv.div, hinv.qpm, hinv.spq⟩
      | false =>
        obtain ⟨rfl, _⟩ := g3 d hd hc
        exact ⟨hinv.div, hinv.qpm, hinv.spq⟩
  | harmony cs =>
    simp only [parseEl] at h
    split at h
    · contradiction
    · simp only [Except.ok.injEq, Prod.mk.injEq] at h
      obtain ⟨rfl, rfl⟩ := h
      exact hinv
  | other =>
    simp only [parseEl, Except.ok.injEq, Prod.mk.injEq] at h
    obtain ⟨rfl, rfl⟩ := h
    exact hinv


/-! ## splitting a part at a measure, for every `R` -/

theorem fixTimeSignature_cases {st : PState} {m : MState} {start : ℚ} {st' : PState} {m' : MState}
    (h : fixTimeSignature st m start = .ok (st', m')) :
    (∃ x, st' = { st with ts := x }) ∧ m'.notes = m.notes := by
  unfold fixTimeSignature at h
  simp only [] at h
  split at h
  · contradiction
  · split at h
    · simp only [Except.ok.injEq, Prod.mk.injEq] at h
      obtain ⟨rfl, rfl⟩ := h
      exact ⟨⟨_, rfl⟩, rfl⟩
    · contradiction
    · split at h
      · contradiction
      · split at h
        · simp only [Except.ok.injEq, Prod.mk.injEq] at h
          obtain ⟨rfl, rfl⟩ := h
          exact ⟨⟨_, rfl⟩, rfl⟩
        · simp only [Except.ok.injEq, Prod.mk.injEq] at h
          obtain ⟨rfl, rfl⟩ := h
          exact ⟨⟨st.ts, rfl⟩, rfl⟩

theorem parseMeasures_append {R : ℚ → ℚ} {a : List (List El)} : ∀ {b : List (List El)} {st st' : PState}
    {ms : List MState}, parseMeasures R st (a ++ b) = .ok (st', ms) →
    ∃ st1 ms1 ms2, parseMeasures R st a = .ok (st1, ms1) ∧ parseMeasures R st1 b = .ok (st', ms2) ∧
      ms = ms1 ++ ms2 ∧ ms1.length = a.length := by
  induction a with
  | nil => intro b st st' ms h; exact ⟨st, [], ms, rfl, h, rfl, rfl⟩
  | cons x xs ih =>
    intro b st st' ms h
    simp only [List.cons_append, parseMeasures] at h ⊢
    split at h
    · contradiction
    · rename_i st1 m1 h1
      split at h
      · contradiction
      · rename_i st2 ms2 h2
        simp only [Except.ok.injEq, Prod.mk.injEq] at h
        obtain ⟨rfl, rfl⟩ := h
        obtain ⟨sa, msa, msb, ha, hb, e, l⟩ := ih h2
        rw [ha]
        exact ⟨sa, m1 :: msa, msb, rfl, hb, by rw [e]; rfl, by simp [l]⟩

/-- THE SPLIT, for every `R`: parsing a part whose measure `l` (after `before`) reads `pre ++ e :: post` goes
through the measures `before`, the elements `pre`, the element `e`, the elements `post`, the time-signature
correction and the measures `after`; the note list of that measure is what `pre` produced (one note per
`<note>`), what `e` adds, and what `post` adds -/
theorem parseMeasures_at {R : ℚ → ℚ} {st st' : PState} {ms : List MState} {before after : List (List El)}
    {l pre post : List El} {e : El} (h : parseMeasures R st (before ++ l :: after) = .ok (st', ms))
    (hs : repairMeasure l = pre ++ e :: post) :
    ∃ (stb : PState) (msb : List MState) (sa : PState) (ma : MState) (sb : PState) (mb : MState) (sc : PState)
      (mc : MState) (stm : PState) (mi : MState) (msa : List MState),
      parseMeasures R st before = .ok (stb, msb) ∧ parseEls R stb {} pre = .ok (sa, ma) ∧
      parseEl R sa ma e = .ok (sb, mb) ∧ parseEls R sb mb post = .ok (sc, mc) ∧
      (∃ x, stm = { sc with ts := x }) ∧ mi.notes = mc.notes ∧
      parseMeasures R stm after = .ok (st', msa) ∧ ms = msb ++ mi :: msa ∧ msb.length = before.length ∧
      ma.notes.length = (pre.filter isNote).length := by
  obtain ⟨stb, msb, ms2, hb, h2, e1, l1⟩ := parseMeasures_append h
  simp only [parseMeasures] at h2
  split at h2
  · contradiction
  · rename_i stm mi hm
    split at h2
    · contradiction
    · rename_i st2 msa ha
      simp only [Except.ok.injEq, Prod.mk.injEq] at h2
      obtain ⟨rfl, rfl⟩ := h2
      unfold parseMeasure at hm
      split at hm
      · contradiction
      · rename_i sc mc hc
        rw [hs] at hc
        obtain ⟨sa, ma, hpre, hrest⟩ := parseEls_append hc
        simp only [parseEls] at hrest
        split at hrest
        · contradiction
        · rename_i sb mb he
          obtain ⟨hx, hn⟩ := fixTimeSignature_cases hm
          obtain ⟨_, _, ⟨ns, ens, lns⟩, _, _, _⟩ := parseEls_out hpre
          exact ⟨stb, msb, sa, ma, sb, mb, sc, mc, stm, mi, msa, hb, hpre, he, hrest, hx, hn, ha, e1, l1,
            by rw [ens]; simpa using lns⟩

/-! ## a simulation framework: invariants indexed by a ghost state that follows the element list -/

/-- a condition on the real parser state at every element of a run (e.g. "this `<backup>` fits") -/
def elsFit (R : ℚ → ℚ) (oks : PState → El → Prop) : PState → MState → List El → Prop
  | _, _, [] => True
  | st, m, e :: es => oks st e ∧ ∀ st' m', parseEl R st m e = .ok (st', m') → elsFit R oks st' m' es

def measuresFit (R : ℚ → ℚ) (oks : PState → El → Prop) : PState → List (List El) → Prop
  | _, [] => True
  | st, els :: rest => elsFit R oks st {} (repairMeasure els) ∧
      ∀ st' mi, parseMeasure R st (repairMeasure els) = .ok (st', mi) → measuresFit R oks st' rest

theorem elsFit_true (R : ℚ → ℚ) : ∀ (els : List El) (st : PState) (m : MState), elsFit R (fun _ _ => True) st m els := by
  intro els
  induction els with
  | nil => intro st m; trivial
  | cons e es ih => intro st m; exact ⟨trivial, fun st' m' _ => ih st' m'⟩

theorem measuresFit_true (R : ℚ → ℚ) : ∀ (mss : List (List El)) (st : PState),
    measuresFit R (fun _ _ => True) st mss := by
  intro mss
  induction mss with
  | nil => intro st; trivial
  | cons e es ih => intro st; exact ⟨elsFit_true R _ _ _, fun st' _ _ => ih st'⟩

/-- a condition on the ghost state at every element of a run -/
def ghostOK {G : Type} (gs : G → El → G) (okg : G → El → Prop) : G → List El → Prop
  | _, [] => True
  | g, e :: es => okg g e ∧ ghostOK gs okg (gs g e) es

theorem ghostOK_append {G : Type} {gs : G → El → G} {okg : G → El → Prop} (a : List El) : ∀ (g : G) (b : List El),
    ghostOK gs okg g (a ++ b) ↔ ghostOK gs okg g a ∧ ghostOK gs okg (a.foldl gs g) b := by
  induction a with
  | nil => intro g b; simp [ghostOK]
  | cons e es ih => intro g b; simp only [List.cons_append, ghostOK, List.foldl, ih, and_assoc]

theorem ghostOK_of_forall {G : Type} {gs : G → El → G} {okp : El → Prop} : ∀ (els : List El) (g : G),
    (∀ e ∈ els, okp e) → ghostOK gs (fun _ e => okp e) g els := by
  intro els
  induction els with
  | nil => intro g _; trivial
  | cons e es ih => intro g h; exact ⟨h e (by simp), ih _ (fun x hx => h x (by simp [hx]))⟩

structure Sim (R : ℚ → ℚ) (G : Type) where
  /-- how the ghost state follows the elements -/
  gs : G → El → G
  /-- the invariant -/
  P : G → PState → Prop
  /-- what is required of an element when it is read -/
  ok : G → PState → El → Prop
  /-- what holds of every note the run produces -/
  Q : PNote → Prop
  step : ∀ {g : G} {st : PState} {m : MState} {e : El} {st' : PState} {m' : MState}, P g st → ok g st e →
    parseEl R st m e = .ok (st', m') →
    P (gs g e) st' ∧ ∃ new, m'.notes = m.notes ++ new ∧ ∀ pn ∈ new, Q pn
  /-- the invariant does not look at the time-signature register -/
  ts : ∀ {g : G} {st : PState} (x : Option TSig), P g st → P g { st with ts := x }

namespace Sim
variable {R : ℚ → ℚ} {G : Type} (S : Sim R G)

def run (g : G) (els : List El) : G := els.foldl S.gs g

theorem run_append (g : G) (a b : List El) : S.run g (a ++ b) = S.run (S.run g a) b := by
  simp [run, List.foldl_append]

def elsOK (S : Sim R G) : G → PState → MState → List El → Prop
  | _, _, _, [] => True
  | g, st, m, e :: es => S.ok g st e ∧ ∀ st' m', parseEl R st m e = .ok (st', m') → elsOK S (S.gs g e) st' m' es

def measuresOK (S : Sim R G) : G → PState → List (List El) → Prop
  | _, _, [] => True
  | g, st, els :: rest => S.elsOK g st {} (repairMeasure els) ∧
      ∀ st' mi, parseMeasure R st (repairMeasure els) = .ok (st', mi) →
        measuresOK S (S.run g (repairMeasure els)) st' rest

theorem elsOK_prefix : ∀ (a : List El) {b : List El} {g : G} {st : PState} {m : MState},
    S.elsOK g st m (a ++ b) → S.elsOK g st m a := by
  intro a
  induction a with
  | nil => intro b g st m _; trivial
  | cons e es ih => intro b g st m hok; exact ⟨hok.1, fun st' m' hp => ih (hok.2 st' m' hp)⟩

theorem measuresOK_prefix : ∀ (a : List (List El)) {b : List (List El)} {g : G} {st : PState},
    S.measuresOK g st (a ++ b) → S.measuresOK g st a := by
  intro a
  induction a with
  | nil => intro b g st _; trivial
  | cons e es ih => intro b g st hok; exact ⟨hok.1, fun st' m' hp => ih (hok.2 st' m' hp)⟩

theorem elsOK_of {okg : G → El → Prop} {oks : PState → El → Prop}
    (h : ∀ g st e, okg g e → oks st e → S.ok g st e) : ∀ (els : List El) (g : G) (st : PState) (m : MState),
    ghostOK S.gs okg g els → elsFit R oks st m els → S.elsOK g st m els := by
  intro els
  induction els with
  | nil => intro g st m _ _; trivial
  | cons e es ih =>
    intro g st m h1 h2
    exact ⟨h g st e h1.1 h2.1, fun st' m' hp => ih _ _ _ h1.2 (h2.2 st' m' hp)⟩

theorem measuresOK_of {okg : G → El → Prop} {oks : PState → El → Prop}
    (h : ∀ g st e, okg g e → oks st e → S.ok g st e) : ∀ (mss : List (List El)) (g : G) (st : PState),
    ghostOK S.gs okg g (flatEls mss) → measuresFit R oks st mss → S.measuresOK g st mss := by
  intro mss
  induction mss with
  | nil => intro g st _ _; trivial
  | cons els rest ih =>
    intro g st h1 h2
    rw [flatEls_cons, ghostOK_append] at h1
    exact ⟨S.elsOK_of h _ _ _ _ h1.1 h2.1, fun st' mi hp => ih _ _ h1.2 (h2.2 st' mi hp)⟩

theorem els : ∀ (l : List El) {g : G} {st : PState} {m : MState} {st' : PState} {m' : MState}, S.P g st →
    S.elsOK g st m l → parseEls R st m l = .ok (st', m') →
    S.P (S.run g l) st' ∧ ∃ new, m'.notes = m.notes ++ new ∧ ∀ pn ∈ new, S.Q pn := by
  intro l
  induction l with
  | nil =>
    intro g st m st' m' hP _ h
    simp only [parseEls, Except.ok.injEq, Prod.mk.injEq] at h
    obtain ⟨rfl, rfl⟩ := h
    exact ⟨hP, [], by simp, by simp⟩
  | cons e es ih =>
    intro g st m st' m' hP hok h
    simp only [parseEls] at h
    split at h
    · contradiction
    · rename_i st1 m1 h1
      obtain ⟨hP1, n1, e1, q1⟩ := S.step hP hok.1 h1
      obtain ⟨hP2, n2, e2, q2⟩ := ih hP1 (hok.2 st1 m1 h1) h
      refine ⟨hP2, n1 ++ n2, by rw [e2, e1, List.append_assoc], ?_⟩
      intro pn hpn
      rcases List.mem_append.mp hpn with hx | hx
      · exact q1 pn hx
      · exact q2 pn hx

theorem elsOK_append : ∀ (a : List El) {b : List El} {g : G} {st : PState} {m : MState} {st1 : PState} {m1 : MState},
    S.elsOK g st m (a ++ b) → parseEls R st m a = .ok (st1, m1) → S.elsOK (S.run g a) st1 m1 b := by
  intro a
  induction a with
  | nil =>
    intro b g st m st1 m1 hok h
    simp only [parseEls, Except.ok.injEq, Prod.mk.injEq] at h
    obtain ⟨rfl, rfl⟩ := h
    exact hok
  | cons e es ih =>
    intro b g st m st1 m1 hok h
    simp only [parseEls] at h
    split at h
    · contradiction
    · rename_i st2 m2 h2
      exact ih (hok.2 st2 m2 h2) h

theorem measure {g : G} {st : PState} {l : List El} {st' : PState} {mi : MState} (hP : S.P g st)
    (hok : S.elsOK g st {} l) (h : parseMeasure R st l = .ok (st', mi)) :
    S.P (S.run g l) st' ∧ ∀ pn ∈ mi.notes, S.Q pn := by
  unfold parseMeasure at h
  split at h
  · contradiction
  · rename_i st1 m1 h1
    obtain ⟨hP1, new, e1, q1⟩ := S.els l hP hok h1
    obtain ⟨⟨x, rfl⟩, hn⟩ := fixTimeSignature_cases h
    refine ⟨S.ts x hP1, ?_⟩
    rw [hn, e1]
    simpa using q1

theorem measures : ∀ (mss : List (List El)) {g : G} {st : PState} {st' : PState} {ms : List MState}, S.P g st →
    S.measuresOK g st mss → parseMeasures R st mss = .ok (st', ms) →
    S.P (S.run g (flatEls mss)) st' ∧ ∀ mi ∈ ms, ∀ pn ∈ mi.notes, S.Q pn := by
  intro mss
  induction mss with
  | nil =>
    intro g st st' ms hP _ h
    simp only [parseMeasures, Except.ok.injEq, Prod.mk.injEq] at h
    obtain ⟨rfl, rfl⟩ := h
    exact ⟨hP, by simp⟩
  | cons l rest ih =>
    intro g st st' ms hP hok h
    simp only [parseMeasures] at h
    split at h
    · contradiction
    · rename_i st1 m1 h1
      split at h
      · contradiction
      · rename_i st2 ms2 h2
        simp only [Except.ok.injEq, Prod.mk.injEq] at h
        obtain ⟨rfl, rfl⟩ := h
        obtain ⟨hP1, q1⟩ := S.measure hP hok.1 h1
        obtain ⟨hP2, q2⟩ := ih hP1 (hok.2 st1 m1 h1) h2
        rw [flatEls_cons, run_append]
        refine ⟨hP2, ?_⟩
        intro mi hmi
        rcases List.mem_cons.mp hmi with rfl | hx
        · exact q1
        · exact q2 mi hx

theorem measuresOK_append : ∀ (a : List (List El)) {b : List (List El)} {g : G} {st : PState} {st1 : PState}
    {ms1 : List MState}, S.measuresOK g st (a ++ b) → parseMeasures R st a = .ok (st1, ms1) →
    S.measuresOK (S.run g (flatEls a)) st1 b := by
  intro a
  induction a with
  | nil =>
    intro b g st st1 ms1 hok h
    simp only [parseMeasures, Except.ok.injEq, Prod.mk.injEq] at h
    obtain ⟨rfl, rfl⟩ := h
    exact hok
  | cons l rest ih =>
    intro b g st st1 ms1 hok h
    simp only [parseMeasures] at h
    split at h
    · contradiction
    · rename_i st2 m2 h2
      split at h
      · contradiction
      · rename_i st3 ms3 h3
        simp only [Except.ok.injEq, Prod.mk.injEq] at h
        obtain ⟨rfl, rfl⟩ := h
        rw [flatEls_cons, run_append]
        exact ih (hok.2 st2 m2 h2) h3

/-- the invariant in the state in which the element after `before` (whole measures) and `pre` is read, from a
ghost condition on that prefix only -/
theorem upto {okp : G → El → Prop} (hok : ∀ g s e, okp g e → S.ok g s e) {g : G} {st stb sa : PState}
    {msb : List MState} {ma : MState} {before : List (List El)} {pre : List El} (hP : S.P g st)
    (hg : ghostOK S.gs okp g (flatEls before ++ pre)) (h1 : parseMeasures R st before = .ok (stb, msb))
    (h2 : parseEls R stb {} pre = .ok (sa, ma)) : S.P (S.run g (flatEls before ++ pre)) sa := by
  rw [ghostOK_append] at hg
  have hok' : ∀ g s e, okp g e → True → S.ok g s e := fun g s e h _ => hok g s e h
  have hPb := (S.measures before hP (S.measuresOK_of hok' before _ _ hg.1 (measuresFit_true R _ _)) h1).1
  have hPa := (S.els pre hPb (S.elsOK_of hok' pre _ _ _ hg.2 (elsFit_true R _ _ _)) h2).1
  rwa [← S.run_append] at hPa

end Sim

/-! ## well-formed elements, cursor moves -/

def wfAttr : AttrChild → Bool
  | .divisions d => decide (0 < d)
  | _ => true

def wfSound (s : Sound) : Bool :=
  match s.tempo with
  | none => true
  | some q => decide (0 ≤ q)

/-- durations are not negative, declared divisions are positive, declared tempos are not negative
(`tempo="0"` stands for the default) -/
def wfEl : El → Bool
  | .attributes cs => cs.all wfAttr
  | .note n => match n.duration with
      | none => true
      | some d => decide (0 ≤ d)
  | .backup d => decide (0 ≤ d)
  | .forward d => decide (0 ≤ d)
  | .direction ss => ss.all wfSound
  | _ => true

def noBackup : El → Bool
  | .backup _ => false
  | _ => true

/-- the cursor move of an element: direction (`true` = forward) and length in divisions -/
def mvOf : El → Option (Bool × Int)
  | .note n => if n.chord then none else n.duration.map (fun d => (true, d))
  | .backup d => some (false, d)
  | .forward d => some (true, d)
  | _ => none

/-- number of cursor moves an element makes (0 or 1) -/
def mvCount (e : El) : Nat := if (mvOf e).isSome then 1 else 0

/-- number of cursor moves in a run: notes that are not chord or grace notes, `<forward>`s, `<backup>`s -/
def moves (els : List El) : Nat := (els.map mvCount).sum

theorem moves_append (a b : List El) : moves (a ++ b) = moves a + moves b := by simp [moves]

theorem ctxStep_pos {c : Ctx} {e : El} (hwf : wfEl e = true) (hd : 0 < c.div) (hq : 0 < c.qpm) :
    0 < (ctxStep c e).div ∧ 0 < (ctxStep c e).qpm := by
  cases e with
  | attributes cs =>
    simp only [ctxStep]
    simp only [wfEl, List.all_eq_true] at hwf
    induction cs generalizing c with
    | nil => exact ⟨hd, hq⟩
    | cons a as ih =>
      simp only [List.foldl]
      have ha := hwf a (by simp)
      apply ih _ _ (fun x hx => hwf x (by simp [hx]))
      · cases a with
        | divisions d => simpa [wfAttr, ctxAttr] using ha
        | _ => exact hd
      · cases a <;> exact hq
  | direction ss =>
    simp only [ctxStep]
    simp only [wfEl, List.all_eq_true] at hwf
    induction ss generalizing c with
    | nil => exact ⟨hd, hq⟩
    | cons a as ih =>
      simp only [List.foldl]
      have ha := hwf a (by simp)
      apply ih _ _ (fun x hx => hwf x (by simp [hx]))
      · unfold ctxSound; split <;> exact hd
      · unfold ctxSound
        split
        · exact hq
        · rename_i q hq'
          simp only [wfSound, hq', decide_eq_true_eq] at ha
          show 0 < (if q = 0 then Gen.DEFAULT_QPM else q)
          split
          · simp [Gen.DEFAULT_QPM]
          · rename_i hne
            exact lt_of_le_of_ne ha (Ne.symm hne)
  | _ => exact ⟨hd, hq⟩

/-- the float state follows the context in force, and divisions and tempo are positive -/
structure Base (R : ℚ → ℚ) (st : PState) (c : Ctx) : Prop where
  inv : InvF R st c
  div : 0 < c.div
  qpm : 0 < c.qpm

theorem Base.init {R : ℚ → ℚ} (hR : Rounding R) : Base R PState.init Ctx.init :=
  ⟨InvF.init hR, by decide, by simp [Ctx.init, Gen.INIT_QPM]⟩

theorem Base.seconds {R : ℚ → ℚ} {st : PState} {c : Ctx} (hb : Base R st c) (d : Int) :
    secondsOf R st d = .ok (secF R (Gen.STANDARD_PPQ : ℚ) (c.div : ℚ) (R (60 / c.qpm)) (d : ℚ)) := by
  rw [secondsOf_eq R st d (by rw [hb.inv.div]; exact hb.div.ne'), hb.inv.div, hb.inv.spq]

theorem Base.divq {R : ℚ → ℚ} {st : PState} {c : Ctx} (hb : Base R st c) : (0 : ℚ) < (c.div : ℚ) := by
  exact_mod_cast hb.div

/-- ONE ELEMENT, every `R`: the state keeps following the context; the cursor either stays (and the element
counts no move) or becomes `R (cursor ± secF …)` for the element's own non-negative duration, in which case
the context does not change; the element appends some notes to the measure -/
theorem parseEl_cursor {R : ℚ → ℚ} {st : PState} {m : MState} {e : El} {st' : PState} {m' : MState} {c : Ctx}
    (hb : Base R st c) (hwf : wfEl e = true) (h : parseEl R st m e = .ok (st', m')) :
    Base R st' (ctxStep c e) ∧ (∃ new, m'.notes = m.notes ++ new) ∧
    (match mvOf e with
     | none => st'.tp = st.tp ∧ moveOf e = 0
     | some (fwd, d) => 0 ≤ d ∧ moveOf e = (if fwd then d else -d) ∧ ctxStep c e = c ∧
         st'.tp = R (if fwd then st.tp + secF R (Gen.STANDARD_PPQ : ℚ) (c.div : ℚ) (R (60 / c.qpm)) (d : ℚ)
                     else st.tp - secF R (Gen.STANDARD_PPQ : ℚ) (c.div : ℚ) (R (60 / c.qpm)) (d : ℚ))) := by
  have hpos := ctxStep_pos hwf hb.div hb.qpm
  refine ⟨⟨parseEl_invF hb.inv h, hpos.1, hpos.2⟩, ?_⟩
  have hf := parseEl_float h
  cases e with
  | attributes cs => exact ⟨⟨[], by simp [hf.2.2]⟩, hf.1, rfl⟩
  | direction ss => exact ⟨⟨[], by simp [hf.2.2]⟩, hf.1, rfl⟩
  | harmony cs => exact ⟨⟨[], by simp [hf.2.2]⟩, hf.1, rfl⟩
  | other => exact ⟨⟨[], by simp [hf.2.2]⟩, hf.1, rfl⟩
  | backup d =>
    obtain ⟨sec, hsec, rfl, rfl⟩ := hf
    rw [hb.seconds d] at hsec
    simp only [Except.ok.injEq] at hsec
    subst hsec
    exact ⟨⟨[], by simp⟩, by simpa [wfEl] using hwf, rfl, rfl, rfl⟩
  | forward d =>
    obtain ⟨sec, hsec, rfl, rfl⟩ := hf
    rw [hb.seconds d] at hsec
    simp only [Except.ok.injEq] at hsec
    subst hsec
    exact ⟨⟨[], by simp⟩, by simpa [wfEl] using hwf, rfl, rfl, rfl⟩
  | note n =>
    obtain ⟨st1, pn, hn, rfl, hnotes⟩ := hf
    refine ⟨⟨[pn], hnotes⟩, ?_⟩
    obtain ⟨g1, g2, g3⟩ := parseNote_float hn
    cases hd : n.duration with
    | none =>
      obtain ⟨rfl, _⟩ := g1 hd
      cases hc : n.chord <;> simp [mvOf, hc, hd, moveOf]
    | some d =>
      cases hc : n.chord with
      | true =>
        obtain ⟨_, _, _, rfl, _⟩ := g2 d hd hc
        simp [mvOf, hc, moveOf]
      | false =>
        obtain ⟨rfl, _, _, hsec⟩ := g3 d hd hc
        rw [hb.seconds d] at hsec
        simp only [Except.ok.injEq] at hsec
        simp only [mvOf, hc, hd, Bool.false_eq_true, if_false, Option.map_some, moveOf, Option.getD_some, if_true,
          ctxStep, ← hsec, and_true]
        simpa [wfEl, hd] using hwf

theorem Base.ts {R : ℚ → ℚ} {st : PState} {c : Ctx} (x : Option TSig) (hb : Base R st c) :
    Base R { st with ts := x } c := ⟨⟨hb.inv.div, hb.inv.qpm, hb.inv.spq⟩, hb.div, hb.qpm⟩

theorem mvCount_none {e : El} (h : mvOf e = none) : mvCount e = 0 := by simp [mvCount, h]

theorem mvCount_some {e : El} {x : Bool × Int} (h : mvOf e = some x) : mvCount e = 1 := by simp [mvCount, h]

theorem mvOf_noBackup {e : El} {fwd : Bool} {d : Int} (hnb : noBackup e = true) (h : mvOf e = some (fwd, d)) :
    fwd = true := by
  cases e with
  | backup _ => simp [noBackup] at hnb
  | forward _ => simp only [mvOf, Option.some.injEq, Prod.mk.injEq] at h; exact h.1.symm
  | note n =>
    simp only [mvOf] at h
    split at h
    · contradiction
    · cases hd : n.duration with
      | none => simp [hd] at h
      | some d' => simp only [hd, Option.map_some, Option.some.injEq, Prod.mk.injEq] at h; exact h.1.symm
  | attributes _ => simp [mvOf] at h
  | direction _ => simp [mvOf] at h
  | harmony _ => simp [mvOf] at h
  | other => simp [mvOf] at h

/-! ## the ghost state: context in force, EXACT cursor, number of moves so far -/

structure Gh where
  c : Ctx
  t : ℚ
  k : ℕ

def ghStep (g : Gh) (e : El) : Gh := ⟨ctxStep g.c e, g.t + secs g.c (moveOf e), g.k + mvCount e⟩

theorem ghRun (els : List El) : ∀ g : Gh,
    els.foldl ghStep g = ⟨ctxAfter g.c els, g.t + specCursor g.c els, g.k + moves els⟩ := by
  induction els with
  | nil => intro g; simp [ctxAfter, specCursor, moves]
  | cons e es ih =>
    intro g
    simp only [List.foldl, ih, ghStep, ctxAfter, specCursor, moves, List.map_cons, List.sum_cons, add_assoc]

/-! ### relative error without `<backup>` -/

/-- the float cursor is `Near 53 (k+5)` the exact cursor after `k` forward moves -/
def simRel (R : ℚ → ℚ) (hR : Rounding R) : Sim R Gh where
  gs := ghStep
  P g st := Base R st g.c ∧ 0 ≤ g.t ∧ Near 53 (g.k + 5) st.tp g.t
  ok _ _ e := wfEl e = true ∧ noBackup e = true
  Q _ := True
  ts x h := ⟨h.1.ts x, h.2⟩
  step := by
    intro g st m e st' m' ⟨hb, ht, hn⟩ ⟨hwf, hnb⟩ h
    obtain ⟨hb', ⟨new, hnew⟩, hmv⟩ := parseEl_cursor hb hwf h
    refine ⟨⟨hb', ?_⟩, new, hnew, fun _ _ => trivial⟩
    cases hm : mvOf e with
    | none =>
      simp only [hm] at hmv
      simp only [ghStep, hmv.2, secs_zero, add_zero, mvCount_none hm, hmv.1]
      exact ⟨ht, hn⟩
    | some x =>
      obtain ⟨fwd, d⟩ := x
      obtain rfl := mvOf_noBackup hnb hm
      simp only [hm, if_true] at hmv
      obtain ⟨hd, hmo, _, htp⟩ := hmv
      have hdq : (0 : ℚ) ≤ (d : ℚ) := by exact_mod_cast hd
      have hσ : 0 ≤ secs g.c d := by
        unfold secs
        have := hb.divq; have := hb.qpm
        positivity
      simp only [ghStep, hmo, mvCount_some hm, htp]
      exact ⟨add_nonneg ht hσ, rel_step hR hn ht (secF_near hR ppq_pos hb.divq hb.qpm hdq) hσ⟩

/-! ### absolute error with `<backup>` -/

theorem simAbs_step {R : ℚ → ℚ} (hR : Rounding R) (M : ℚ) {g : Gh} {st : PState} {m : MState} {e : El}
    {st' : PState} {m' : MState}
    (hP : Base R st g.c ∧ 0 ≤ g.t ∧ g.t ≤ M ∧ |st.tp - g.t| ≤ 8 * (g.k : ℚ) * u53 * M)
    (hok : wfEl e = true ∧ 0 ≤ g.t + secs g.c (moveOf e) ∧ g.t + secs g.c (moveOf e) ≤ M ∧ 8 * g.k + 6 ≤ 2 ^ 53)
    (h : parseEl R st m e = .ok (st', m')) :
    (Base R st' (ghStep g e).c ∧ 0 ≤ (ghStep g e).t ∧ (ghStep g e).t ≤ M ∧
      |st'.tp - (ghStep g e).t| ≤ 8 * ((ghStep g e).k : ℚ) * u53 * M) ∧
    ∃ new, m'.notes = m.notes ++ new ∧ ∀ pn ∈ new, True := by
  obtain ⟨hb, ht0, htM, hE⟩ := hP
  obtain ⟨hwf, h0, hM, hk⟩ := hok
  obtain ⟨hb', ⟨new, hnew⟩, hmv⟩ := parseEl_cursor hb hwf h
  refine ⟨⟨hb', ?_⟩, new, hnew, fun _ _ => trivial⟩
  cases hm : mvOf e with
  | none =>
    simp only [hm] at hmv
    simp only [ghStep, hmv.2, secs_zero, add_zero, mvCount_none hm, hmv.1]
    exact ⟨ht0, htM, hE⟩
  | some x =>
    obtain ⟨fwd, d⟩ := x
    simp only [hm] at hmv
    obtain ⟨hd, hmo, _, htp⟩ := hmv
    have hdq : (0 : ℚ) ≤ (d : ℚ) := by exact_mod_cast hd
    have hσ : 0 ≤ secs g.c d := by
      unfold secs
      have := hb.divq; have := hb.qpm
      positivity
    have hS : |secF R (Gen.STANDARD_PPQ : ℚ) (g.c.div : ℚ) (R (60 / g.c.qpm)) (d : ℚ) - secs g.c d| ≤
        secs g.c d * (6 * u53) := secF_abs hR ppq_pos hb.divq hb.qpm hdq
    simp only [ghStep, mvCount_some hm, htp]
    refine ⟨h0, hM, ?_⟩
    cases fwd with
    | true =>
      simp only [if_true] at hmo ⊢
      rw [hmo] at h0 hM ⊢
      have h1 : |secs g.c d| ≤ M := by rw [abs_of_nonneg hσ]; linarith
      have h2 : |g.t + secs g.c d| ≤ M := by rw [abs_of_nonneg h0]; exact hM
      have h3 : |secF R (Gen.STANDARD_PPQ : ℚ) (g.c.div : ℚ) (R (60 / g.c.qpm)) (d : ℚ) - secs g.c d| ≤
          |secs g.c d| * (6 * u53) := by rwa [abs_of_nonneg hσ]
      exact abs_step hR hE h3 h1 h2 hk
    | false =>
      simp only [Bool.false_eq_true, if_false] at hmo ⊢
      rw [hmo, secs_neg] at h0 hM ⊢
      rw [sub_eq_add_neg st.tp]
      have h1 : |-secs g.c d| ≤ M := by rw [abs_neg, abs_of_nonneg hσ]; linarith
      have h2 : |g.t + -secs g.c d| ≤ M := by rw [abs_of_nonneg h0]; exact hM
      have h3 : |-secF R (Gen.STANDARD_PPQ : ℚ) (g.c.div : ℚ) (R (60 / g.c.qpm)) (d : ℚ) - -secs g.c d| ≤
          |-secs g.c d| * (6 * u53) := by
        rw [neg_sub_neg, abs_sub_comm, abs_neg, abs_of_nonneg hσ]; exact hS
      exact abs_step hR hE h3 h1 h2 hk

/-- while the exact cursor stays in `[0, M]`, the float cursor is within `8·k·2^-53·M` of it after `k` moves -/
def simAbs (R : ℚ → ℚ) (hR : Rounding R) (M : ℚ) : Sim R Gh where
  gs := ghStep
  P g st := Base R st g.c ∧ 0 ≤ g.t ∧ g.t ≤ M ∧ |st.tp - g.t| ≤ 8 * (g.k : ℚ) * u53 * M
  ok g _ e := wfEl e = true ∧ 0 ≤ g.t + secs g.c (moveOf e) ∧ g.t + secs g.c (moveOf e) ≤ M ∧
    8 * g.k + 6 ≤ 2 ^ 53
  Q _ := True
  ts x h := ⟨h.1.ts x, h.2⟩
  step := fun hP hok h => simAbs_step hR M hP hok h

/-! ### exactness on dyadic scores -/

/-- divisions a power of two, tempo `60·2^i` quarter notes per minute -/
def DyCtx (c : Ctx) : Prop := (∃ j : ℕ, c.div = 2 ^ j) ∧ (∃ i : ℤ, c.qpm = 60 * (2 : ℚ) ^ i)

def dyAttr : AttrChild → Prop
  | .divisions d => ∃ j : ℕ, d = 2 ^ j
  | _ => True

def dySound (s : Sound) : Prop := ∀ q, s.tempo = some q → q = 0 ∨ ∃ i : ℤ, q = 60 * (2 : ℚ) ^ i

/-- a duration whose tick count `d · STANDARD_PPQ` fits the significand -/
def dyDur (d : Int) : Prop := 0 ≤ d ∧ d * Gen.STANDARD_PPQ ≤ 2 ^ 53

/-- declared divisions are powers of two, declared tempos are `60·2^i` (or 0 = default), durations are
non-negative with `d · STANDARD_PPQ ≤ 2^53` -/
def dyEl : El → Prop
  | .attributes cs => ∀ a ∈ cs, dyAttr a
  | .direction ss => ∀ s ∈ ss, dySound s
  | .note n => ∀ d, n.duration = some d → dyDur d
  | .backup d => dyDur d
  | .forward d => dyDur d
  | _ => True

theorem DyCtx.init : DyCtx Ctx.init :=
  ⟨⟨0, rfl⟩, ⟨1, by simp only [Ctx.init, Gen.INIT_QPM]; norm_num⟩⟩

theorem DyCtx.pos {c : Ctx} (h : DyCtx c) : 0 < c.div ∧ 0 < c.qpm := by
  obtain ⟨⟨j, hj⟩, ⟨i, hi⟩⟩ := h
  refine ⟨by rw [hj]; positivity, ?_⟩
  rw [hi]
  have : (0 : ℚ) < (2 : ℚ) ^ i := zpow_pos (by norm_num) i
  positivity

theorem dyEl_wf {e : El} (h : dyEl e) : wfEl e = true := by
  cases e with
  | attributes cs =>
    simp only [wfEl, List.all_eq_true]
    intro a ha
    have := h a ha
    cases a with
    | divisions d =>
      obtain ⟨j, rfl⟩ := this
      simp only [wfAttr, decide_eq_true_eq]; positivity
    | _ => rfl
  | direction ss =>
    simp only [wfEl, List.all_eq_true]
    intro s hs
    have := h s hs
    unfold wfSound
    split
    · rfl
    · rename_i q hq
      simp only [decide_eq_true_eq]
      rcases this q hq with rfl | ⟨i, rfl⟩
      · exact le_refl _
      · have : (0 : ℚ) < (2 : ℚ) ^ i := zpow_pos (by norm_num) i
        positivity
  | note n =>
    simp only [wfEl]
    split
    · rfl
    · rename_i d hd
      simpa using (h d hd).1
  | backup d => simpa [wfEl] using h.1
  | forward d => simpa [wfEl] using h.1
  | harmony _ => rfl
  | other => rfl

theorem ctxStep_dy {c : Ctx} {e : El} (he : dyEl e) (hc : DyCtx c) : DyCtx (ctxStep c e) := by
  cases e with
  | attributes cs =>
    simp only [ctxStep]
    simp only [dyEl] at he
    induction cs generalizing c with
    | nil => exact hc
    | cons a as ih =>
      simp only [List.foldl]
      refine ih ?_ (fun x hx => he x (by simp [hx]))
      have ha := he a (by simp)
      cases a with
      | divisions d => exact ⟨ha, hc.2⟩
      | _ => exact hc
  | direction ss =>
    simp only [ctxStep]
    simp only [dyEl] at he
    induction ss generalizing c with
    | nil => exact hc
    | cons a as ih =>
      simp only [List.foldl]
      refine ih ?_ (fun x hx => he x (by simp [hx]))
      have ha := he a (by simp)
      unfold ctxSound
      split
      · exact hc
      · rename_i q hq
        refine ⟨hc.1, ?_⟩
        show ∃ i : ℤ, (if q = 0 then Gen.DEFAULT_QPM else q) = 60 * (2 : ℚ) ^ i
        rcases ha q hq with rfl | ⟨i, rfl⟩
        · exact ⟨1, by simp only [if_true, Gen.DEFAULT_QPM]; norm_num⟩
        · refine ⟨i, ?_⟩
          rw [if_neg]
          have : (0 : ℚ) < (2 : ℚ) ^ i := zpow_pos (by norm_num) i
          positivity
  | _ => exact hc

theorem dyEl_mv {e : El} {fwd : Bool} {d : Int} (he : dyEl e) (h : mvOf e = some (fwd, d)) : dyDur d := by
  cases e with
  | backup _ => simp only [mvOf, Option.some.injEq, Prod.mk.injEq] at h; rw [← h.2]; exact he
  | forward _ => simp only [mvOf, Option.some.injEq, Prod.mk.injEq] at h; rw [← h.2]; exact he
  | note n =>
    simp only [mvOf] at h
    split at h
    · contradiction
    · cases hd : n.duration with
      | none => simp [hd] at h
      | some d' =>
        simp only [hd, Option.map_some, Option.some.injEq, Prod.mk.injEq] at h
        rw [← h.2]; exact he d' hd
  | attributes _ => simp [mvOf] at h
  | direction _ => simp [mvOf] at h
  | harmony _ => simp [mvOf] at h
  | other => simp [mvOf] at h

/-- on a dyadic context `secondsOf` is exact -/
theorem DyCtx.secF {R : ℚ → ℚ} (hR : Rounding R) {c : Ctx} (hdy : DyCtx c) {d : Int} (hd : dyDur d) :
    secF R (Gen.STANDARD_PPQ : ℚ) (c.div : ℚ) (R (60 / c.qpm)) (d : ℚ) = secs c d := by
  obtain ⟨⟨j, hj⟩, ⟨i, hi⟩⟩ := hdy
  have hdiv : (c.div : ℚ) = (2 : ℚ) ^ j := by rw [hj]; push_cast; rfl
  unfold secs
  rw [hdiv, hi]
  exact secF_exact hR (by decide) hd.1 hd.2

theorem simExact_step {R : ℚ → ℚ} (hR : Rounding R) {g : Gh} {st : PState} {m : MState} {e : El}
    {st' : PState} {m' : MState} (hP : Base R st g.c ∧ DyCtx g.c ∧ st.tp = g.t)
    (hok : dyEl e ∧ Repr53 (g.t + secs g.c (moveOf e))) (h : parseEl R st m e = .ok (st', m')) :
    (Base R st' (ghStep g e).c ∧ DyCtx (ghStep g e).c ∧ st'.tp = (ghStep g e).t) ∧
    ∃ new, m'.notes = m.notes ++ new ∧ ∀ pn ∈ new, True := by
  obtain ⟨hb, hdy, ht⟩ := hP
  obtain ⟨hde, hrep⟩ := hok
  obtain ⟨hb', ⟨new, hnew⟩, hmv⟩ := parseEl_cursor hb (dyEl_wf hde) h
  refine ⟨⟨hb', ctxStep_dy hde hdy, ?_⟩, new, hnew, fun _ _ => trivial⟩
  cases hm : mvOf e with
  | none =>
    simp only [hm] at hmv
    simp only [ghStep, hmv.2, secs_zero, add_zero, hmv.1, ht]
  | some x =>
    obtain ⟨fwd, d⟩ := x
    simp only [hm] at hmv
    obtain ⟨hd, hmo, _, htp⟩ := hmv
    obtain ⟨_, hdp⟩ := dyEl_mv hde hm
    obtain ⟨⟨j, hj⟩, ⟨i, hi⟩⟩ := hdy
    have hS : secF R (Gen.STANDARD_PPQ : ℚ) (g.c.div : ℚ) (R (60 / g.c.qpm)) (d : ℚ) = secs g.c d := by
      have hdiv : (g.c.div : ℚ) = (2 : ℚ) ^ j := by rw [hj]; push_cast; rfl
      unfold secs
      rw [hdiv, hi]
      exact secF_exact hR (by decide) hd hdp
    rw [hS] at htp
    simp only [ghStep, htp, ht]
    have : (if fwd = true then g.t + secs g.c d else g.t - secs g.c d) = g.t + secs g.c (moveOf e) := by
      rw [hmo]
      cases fwd
      · simp only [Bool.false_eq_true, if_false, secs_neg]; ring
      · simp only [if_true]
    rw [this]
    exact hrep.fix hR

/-- on a dyadic score whose exact cursors are representable the float cursor IS the exact cursor -/
def simExact (R : ℚ → ℚ) (hR : Rounding R) : Sim R Gh where
  gs := ghStep
  P g st := Base R st g.c ∧ DyCtx g.c ∧ st.tp = g.t
  ok g _ e := dyEl e ∧ Repr53 (g.t + secs g.c (moveOf e))
  Q _ := True
  ts x h := ⟨h.1.ts x, h.2⟩
  step := fun hP hok h => simExact_step hR hP hok h

/-! ### structure: signs, order, representability -/

/-- a `<backup>` does not go back further than the cursor, as computed in floating point -/
def backupFits (R : ℚ → ℚ) (st : PState) : El → Prop
  | .backup d => ∀ sec, secondsOf R st d = .ok sec → sec ≤ st.tp
  | _ => True

def noGrace : El → Bool
  | .note n => n.duration.isSome
  | _ => true

/-- the cursor is a non-negative float; so is the onset kept in `previous_note`, whose duration is not negative -/
structure Safe (R : ℚ → ℚ) (st : PState) : Prop where
  fix : R st.tp = st.tp
  nonneg : 0 ≤ st.tp
  prev : ∀ pd pt, st.prev = some (pd, pt) → 0 ≤ pd ∧ R pt = pt ∧ 0 ≤ pt

/-- a parsed note starts at a non-negative float and does not last a negative time -/
def NoteOK (R : ℚ → ℚ) (pn : PNote) : Prop := R pn.time = pn.time ∧ 0 ≤ pn.time ∧ 0 ≤ pn.seconds

theorem Safe.init {R : ℚ → ℚ} (hR : Rounding R) : Safe R PState.init :=
  ⟨hR.zero, le_refl _, fun _ _ h => by simp [PState.init] at h⟩

theorem Base.sec_nonneg {R : ℚ → ℚ} (hR : Rounding R) {st : PState} {c : Ctx} (hb : Base R st c) {d : Int}
    (hd : 0 ≤ d) : 0 ≤ secF R (Gen.STANDARD_PPQ : ℚ) (c.div : ℚ) (R (60 / c.qpm)) (d : ℚ) :=
  secF_nonneg hR ppq_pos hb.divq (hR.nonneg (div_nonneg (by norm_num) hb.qpm.le)) (by exact_mod_cast hd)

theorem safe_step {R : ℚ → ℚ} (hR : Rounding R) {st : PState} {m : MState} {e : El} {st' : PState} {m' : MState}
    {c : Ctx} (hb : Base R st c) (hs : Safe R st) (hwf : wfEl e = true) (hfit : backupFits R st e)
    (h : parseEl R st m e = .ok (st', m')) :
    Base R st' (ctxStep c e) ∧ Safe R st' ∧ ∃ new, m'.notes = m.notes ++ new ∧ (∀ pn ∈ new, NoteOK R pn) ∧
      (noBackup e = true → st.tp ≤ st'.tp) ∧
      (∀ lo, noGrace e = true → (∀ pd pt, st.prev = some (pd, pt) → lo ≤ pt) → lo ≤ st.tp →
        (∀ pd pt, st'.prev = some (pd, pt) → lo ≤ pt) ∧ ∀ pn ∈ new, lo ≤ pn.time) := by
  obtain ⟨hb', _, _⟩ := parseEl_cursor hb hwf h
  refine ⟨hb', ?_⟩
  have hf := parseEl_float h
  have same : st'.tp = st.tp → st'.prev = st.prev → m'.notes = m.notes →
      Safe R st' ∧ ∃ new, m'.notes = m.notes ++ new ∧ (∀ pn ∈ new, NoteOK R pn) ∧
      (noBackup e = true → st.tp ≤ st'.tp) ∧
      (∀ lo, noGrace e = true → (∀ pd pt, st.prev = some (pd, pt) → lo ≤ pt) → lo ≤ st.tp →
        (∀ pd pt, st'.prev = some (pd, pt) → lo ≤ pt) ∧ ∀ pn ∈ new, lo ≤ pn.time) := by
    intro h1 h2 h3
    refine ⟨⟨by rw [h1]; exact hs.fix, by rw [h1]; exact hs.nonneg, by rw [h2]; exact hs.prev⟩, [], by simp [h3],
      by simp, fun _ => by rw [h1], fun lo _ hp _ => ⟨by rw [h2]; exact hp, by simp⟩⟩
  cases e with
  | attributes cs => exact same hf.1 hf.2.1 hf.2.2
  | direction ss => exact same hf.1 hf.2.1 hf.2.2
  | harmony cs => exact same hf.1 hf.2.1 hf.2.2
  | other => exact same hf.1 hf.2.1 hf.2.2
  | forward d =>
    obtain ⟨sec, hsec, rfl, rfl⟩ := hf
    have hd : 0 ≤ d := by simpa [wfEl] using hwf
    rw [hb.seconds d] at hsec
    simp only [Except.ok.injEq] at hsec
    have h0 : 0 ≤ sec := by rw [← hsec]; exact hb.sec_nonneg hR hd
    have hmono : st.tp ≤ R (st.tp + sec) := by
      have := hR.mono st.tp (st.tp + sec) (by linarith)
      rwa [hs.fix] at this
    exact ⟨⟨hR.idem _, hR.nonneg (add_nonneg hs.nonneg h0), hs.prev⟩, [], by simp, by simp, fun _ => hmono,
      fun lo _ hp _ => ⟨hp, by simp⟩⟩
  | backup d =>
    obtain ⟨sec, hsec, rfl, rfl⟩ := hf
    have hle : sec ≤ st.tp := hfit sec hsec
    exact ⟨⟨hR.idem _, hR.nonneg (by linarith), hs.prev⟩, [], by simp, by simp,
      fun hnb => by simp [noBackup] at hnb, fun lo _ hp _ => ⟨hp, by simp⟩⟩
  | note n =>
    obtain ⟨st1, pn, hn, rfl, hnotes⟩ := hf
    obtain ⟨g1, g2, g3⟩ := parseNote_float hn
    cases hd : n.duration with
    | none =>
      obtain ⟨rfl, t0, s0, d0⟩ := g1 hd
      refine ⟨⟨hs.fix, hs.nonneg, ?_⟩, [pn], hnotes, ?_, fun _ => le_refl _, fun lo hg => by simp [noGrace, hd] at hg⟩
      · intro pd pt hp
        simp only [Option.some.injEq, Prod.mk.injEq] at hp
        obtain ⟨rfl, rfl⟩ := hp
        rw [d0, t0]; exact ⟨le_refl _, hR.zero, le_refl _⟩
      · intro x hx
        simp only [List.mem_singleton] at hx; subst hx
        simp only [NoteOK, t0, s0, hR.zero, le_refl, and_self]
    | some d =>
      have hd0 : 0 ≤ d := by simpa [wfEl, hd] using hwf
      cases hc : n.chord with
      | true =>
        obtain ⟨pd, pt, hprev, rfl, t0, d0, hsec⟩ := g2 d hd hc
        obtain ⟨p1, p2, p3⟩ := hs.prev pd pt hprev
        rw [hb.seconds pd] at hsec
        simp only [Except.ok.injEq] at hsec
        refine ⟨⟨hs.fix, hs.nonneg, ?_⟩, [pn], hnotes, ?_, fun _ => le_refl _, ?_⟩
        · intro pd' pt' hp
          simp only [Option.some.injEq, Prod.mk.injEq] at hp
          obtain ⟨rfl, rfl⟩ := hp
          rw [d0, t0]; exact ⟨p1, p2, p3⟩
        · intro x hx
          simp only [List.mem_singleton] at hx; subst hx
          exact ⟨by rw [t0]; exact p2, by rw [t0]; exact p3, by rw [← hsec]; exact hb.sec_nonneg hR p1⟩
        · intro lo _ hp _
          refine ⟨?_, ?_⟩
          · intro pd' pt' hp'
            simp only [Option.some.injEq, Prod.mk.injEq] at hp'
            rw [← hp'.2, t0]; exact hp pd pt hprev
          · intro x hx
            simp only [List.mem_singleton] at hx; subst hx
            rw [t0]; exact hp pd pt hprev
      | false =>
        obtain ⟨rfl, t0, d0, hsec⟩ := g3 d hd hc
        rw [hb.seconds d] at hsec
        simp only [Except.ok.injEq] at hsec
        have h0 : 0 ≤ pn.seconds := by rw [← hsec]; exact hb.sec_nonneg hR hd0
        have hmono : st.tp ≤ R (st.tp + pn.seconds) := by
          have := hR.mono st.tp (st.tp + pn.seconds) (by linarith)
          rwa [hs.fix] at this
        refine ⟨⟨hR.idem _, hR.nonneg (add_nonneg hs.nonneg h0), ?_⟩, [pn], hnotes, ?_, fun _ => hmono, ?_⟩
        · intro pd' pt' hp
          simp only [Option.some.injEq, Prod.mk.injEq] at hp
          obtain ⟨rfl, rfl⟩ := hp
          rw [d0, t0]; exact ⟨hd0, hs.fix, hs.nonneg⟩
        · intro x hx
          simp only [List.mem_singleton] at hx; subst hx
          exact ⟨by rw [t0]; exact hs.fix, by rw [t0]; exact hs.nonneg, h0⟩
        · intro lo _ _ hlo
          refine ⟨?_, ?_⟩
          · intro pd' pt' hp'
            simp only [Option.some.injEq, Prod.mk.injEq] at hp'
            rw [← hp'.2, t0]; exact hlo
          · intro x hx
            simp only [List.mem_singleton] at hx; subst hx
            rw [t0]; exact hlo

/-- cursors and onsets are non-negative floats as long as every `<backup>` fits -/
def simSafe (R : ℚ → ℚ) (hR : Rounding R) : Sim R Gh where
  gs := ghStep
  P g st := Base R st g.c ∧ Safe R st
  ok _ st e := wfEl e = true ∧ backupFits R st e
  Q pn := NoteOK R pn
  ts x h := ⟨h.1.ts x, ⟨h.2.fix, h.2.nonneg, h.2.prev⟩⟩
  step := by
    intro g st m e st' m' ⟨hb, hs⟩ ⟨hwf, hfit⟩ h
    obtain ⟨a, b, new, c, d, _⟩ := safe_step hR hb hs hwf hfit h
    exact ⟨⟨a, b⟩, new, c, d⟩

theorem backupFits_of_noBackup (R : ℚ → ℚ) (st : PState) {e : El} (h : noBackup e = true) : backupFits R st e := by
  cases e <;> trivial

/-- without `<backup>` (and grace notes) the cursor never decreases: it stays `≥ hi`, and every onset is `≥ lo` -/
def simMono (R : ℚ → ℚ) (hR : Rounding R) (lo hi : ℚ) (hle : lo ≤ hi) : Sim R Gh where
  gs := ghStep
  P g st := Base R st g.c ∧ Safe R st ∧ hi ≤ st.tp ∧ ∀ pd pt, st.prev = some (pd, pt) → lo ≤ pt
  ok _ _ e := wfEl e = true ∧ noBackup e = true ∧ noGrace e = true
  Q pn := NoteOK R pn ∧ lo ≤ pn.time
  ts x h := ⟨h.1.ts x, ⟨h.2.1.fix, h.2.1.nonneg, h.2.1.prev⟩, h.2.2⟩
  step := by
    intro g st m e st' m' ⟨hb, hs, hhi, hp⟩ ⟨hwf, hnb, hng⟩ h
    obtain ⟨a, b, new, c, d, e1, e2⟩ := safe_step hR hb hs hwf (backupFits_of_noBackup R st hnb) h
    obtain ⟨f1, f2⟩ := e2 lo hng hp (hle.trans hhi)
    exact ⟨⟨a, b, hhi.trans (e1 hnb), f1⟩, new, c, fun pn hpn => ⟨d pn hpn, f2 pn hpn⟩⟩

/-! ## parts -/

/-- the float state follows the context in force: no condition on the elements -/
def simInv (R : ℚ → ℚ) : Sim R Ctx where
  gs := ctxStep
  P c st := InvF R st c
  ok _ _ _ := True
  Q _ := True
  ts _ h := ⟨h.div, h.qpm, h.spq⟩
  step := by
    intro c st m e st' m' hP _ h
    obtain ⟨_, _, ⟨ns, hns, _⟩, _⟩ := parseEls_out (R := R) (els := [e]) (st := st) (m := m) (st' := st') (m' := m')
      (by simp only [parseEls, h])
    exact ⟨parseEl_invF hP h, ns, hns, fun _ _ => trivial⟩

theorem simInv_ok (R : ℚ → ℚ) (mss : List (List El)) (c : Ctx) (st : PState) : (simInv R).measuresOK c st mss :=
  (simInv R).measuresOK_of (okg := fun _ _ => True) (oks := fun _ _ => True) (fun _ _ _ _ _ => (show True from trivial)) mss c st
    (ghostOK_of_forall (okp := fun _ => True) _ _ (fun _ _ => trivial)) (measuresFit_true R mss st)

theorem parsePart_invF {R : ℚ → ℚ} {sps : List ScorePartEl} {st : PState} {p : PartEl} {st' : PState}
    {ms : List MState} {c : Ctx} (hinv : InvF R st c) (h : parsePart R sps st p = .ok (st', ms)) :
    InvF R st' (ctxAfter c (partEls p)) := by
  unfold parsePart at h
  exact ((simInv R).measures p.measures (g := c) (st := partStart sps st p)
    (show InvF R (partStart sps st p) c from ⟨hinv.div, hinv.qpm, hinv.spq⟩) (simInv_ok R _ _ _) h).1

theorem parseParts_total_le {R : ℚ → ℚ} {sps : List ScorePartEl} : ∀ (ps : List PartEl) (st : PState) (total : ℚ)
    (r : PState × ℚ × List (List MState)), parseParts R sps st total ps = .ok r → total ≤ r.2.1 := by
    intro ps
    induction ps with
    | nil =>
      intro st total r h
      simp only [parseParts, Except.ok.injEq] at h
      subst h; exact le_refl _
    | cons q qs ih =>
      intro st total r h
      simp only [parseParts] at h
      split at h
      · contradiction
      · rename_i st1 ms1 h1
        split at h
        · contradiction
        · rename_i st2 t rest h2
          simp only [Except.ok.injEq] at h
          subst h
          have := ih _ _ _ h2
          simp only [] at this ⊢
          split at this <;> linarith

/-- the part loop for every `R`: each part is parsed from a state that follows the context the parts before it
left behind (divisions AND tempo: the tempo half is the open finding F-C05-4); its final cursor is at most
`total_time` -/
theorem parseParts_float {R : ℚ → ℚ} {sps : List ScorePartEl} {before : List PartEl} : ∀ {p : PartEl}
    {after : List PartEl} {st : PState} {total : ℚ} {r : PState × ℚ × List (List MState)} {c : Ctx},
    InvF R st c → parseParts R sps st total (before ++ p :: after) = .ok r →
    ∃ stb st1 msb ms msa, InvF R stb (scoreCtx c before) ∧ parsePart R sps stb p = .ok (st1, ms) ∧
      r.2.2 = msb ++ ms :: msa ∧ msb.length = before.length ∧ st1.tp ≤ r.2.1 ∧ total ≤ r.2.1 := by
  have mono := @parseParts_total_le R sps
  induction before with
  | nil =>
    intro p after st total r c hinv h
    simp only [List.nil_append, parseParts] at h
    split at h
    · contradiction
    · rename_i st1 ms h1
      split at h
      · contradiction
      · rename_i st2 t rest h2
        simp only [Except.ok.injEq] at h
        subst h
        have := mono _ _ _ _ h2
        simp only [] at this ⊢
        refine ⟨st, st1, [], ms, rest, hinv, h1, rfl, rfl, ?_, ?_⟩ <;> split at this <;> linarith
  | cons b bs ih =>
    intro p after st total r c hinv h
    simp only [List.cons_append, parseParts] at h
    split at h
    · contradiction
    · rename_i st1 msb1 h1
      split at h
      · contradiction
      · rename_i st2 t rest h2
        simp only [Except.ok.injEq] at h
        subst h
        obtain ⟨stb, st', msb, ms, msa, i, hp, e, l, t1, t2⟩ := ih (parsePart_invF hinv h1) h2
        refine ⟨stb, st', msb1 :: msb, ms, msa, i, hp, by simpa using e, by simp [l], t1, ?_⟩
        simp only [] at t2 ⊢
        split at t2 <;> linarith

theorem Base.partStart {R : ℚ → ℚ} {st : PState} {c : Ctx} (sps : List ScorePartEl) (p : PartEl)
    (hb : Base R st c) : Base R (partStart sps st p) c :=
  ⟨⟨hb.inv.div, hb.inv.qpm, hb.inv.spq⟩, hb.div, hb.qpm⟩

theorem Safe.partStart {R : ℚ → ℚ} (hR : Rounding R) {st : PState} (sps : List ScorePartEl) (p : PartEl)
    (hs : Safe R st) : Safe R (partStart sps st p) := ⟨hR.zero, le_refl _, hs.prev⟩

/-- the parser's note for the `<note>` standing after `before` and `pre`, for every `R` -/
theorem note_at {R : ℚ → ℚ} {st st' : PState} {ms : List MState} {before after : List (List El)}
    {l pre post : List El} {n : NoteEl} (h : parseMeasures R st (before ++ l :: after) = .ok (st', ms))
    (hs : repairMeasure l = pre ++ .note n :: post) :
    ∃ (stb : PState) (msb : List MState) (sa : PState) (ma : MState) (st1 : PState) (pn : PNote) (sb : PState)
      (mb : MState) (sc : PState) (mc : MState) (stm : PState) (mi : MState) (msa : List MState) (later : List PNote),
      parseMeasures R st before = .ok (stb, msb) ∧ parseEls R stb {} pre = .ok (sa, ma) ∧
      parseNote R sa n = .ok (st1, pn) ∧ sb = { st1 with prev := some (pn.duration, pn.time) } ∧
      parseEl R sa ma (.note n) = .ok (sb, mb) ∧ parseEls R sb mb post = .ok (sc, mc) ∧
      (∃ x, stm = { sc with ts := x }) ∧ parseMeasures R stm after = .ok (st', msa) ∧
      ms = msb ++ mi :: msa ∧ msb.length = before.length ∧ mb.notes = ma.notes ++ [pn] ∧
      mc.notes = mb.notes ++ later ∧ mi.notes = ma.notes ++ pn :: later ∧
      ms[before.length]? = some mi ∧ mi.notes[(pre.filter isNote).length]? = some pn := by
  obtain ⟨stb, msb, sa, ma, sb, mb, sc, mc, stm, mi, msa, h1, h2, h3, h4, h5, h6, h7, h8, h9, h10⟩ :=
    parseMeasures_at h hs
  obtain ⟨st1, pn, k1, k2, k3⟩ := parseEl_float h3
  obtain ⟨_, _, ⟨later, k4, _⟩, _, _, _⟩ := parseEls_out h4
  have hmi : mi.notes = ma.notes ++ pn :: later := by rw [h6, k4, k3]; simp
  exact ⟨stb, msb, sa, ma, st1, pn, sb, mb, sc, mc, stm, mi, msa, later, h1, h2, k1, k2, h3, h4, h5, h7, h8, h9, k3, k4,
    hmi, by rw [h8]; exact idx_mid _ _ _ _ h9.symm, by rw [hmi]; exact idx_mid _ _ _ _ h10.symm⟩

/-! ### conditions on every prefix of a run, as ghost conditions -/

theorem ghostOK_within {M : ℚ} : ∀ (els : List El) (g : Gh), (∀ e ∈ els, wfEl e = true) →
    (∀ a b, els = a ++ b → 0 ≤ g.t + specCursor g.c a ∧ g.t + specCursor g.c a ≤ M) →
    8 * (g.k + moves els) + 6 ≤ 2 ^ 53 →
    ghostOK ghStep (fun g e => wfEl e = true ∧ 0 ≤ g.t + secs g.c (moveOf e) ∧ g.t + secs g.c (moveOf e) ≤ M ∧
      8 * g.k + 6 ≤ 2 ^ 53) g els := by
  intro els
  induction els with
  | nil => intro g _ _ _; trivial
  | cons e es ih =>
    intro g hwf hpre hk
    have h1 := hpre [e] es rfl
    simp only [specCursor, add_zero] at h1
    have hmv : moves (e :: es) = mvCount e + moves es := by simp [moves]
    refine ⟨⟨hwf e (by simp), h1.1, h1.2, by omega⟩, ih _ (fun x hx => hwf x (by simp [hx])) ?_ ?_⟩
    · intro a b hab
      have := hpre (e :: a) b (by rw [hab]; rfl)
      simpa only [ghStep, specCursor, add_assoc] using this
    · simp only [ghStep]; omega

theorem ghostOK_repr : ∀ (els : List El) (g : Gh), (∀ e ∈ els, dyEl e) →
    (∀ a b, els = a ++ b → Repr53 (g.t + specCursor g.c a)) →
    ghostOK ghStep (fun g e => dyEl e ∧ Repr53 (g.t + secs g.c (moveOf e))) g els := by
  intro els
  induction els with
  | nil => intro g _ _; trivial
  | cons e es ih =>
    intro g hdy hpre
    have h1 := hpre [e] es rfl
    simp only [specCursor, add_zero] at h1
    refine ⟨⟨hdy e (by simp), h1⟩, ih _ (fun x hx => hdy x (by simp [hx])) ?_⟩
    intro a b hab
    have := hpre (e :: a) b (by rw [hab]; rfl)
    simpa only [ghStep, specCursor, add_assoc] using this

/-! ### decidable sufficient conditions for the hypotheses of the exactness theorem (for concrete scores) -/

def isPow2 (n : ℕ) : Bool := decide (2 ^ Nat.log2 n = n)

theorem isPow2_spec {n : ℕ} (h : isPow2 n = true) : ∃ j : ℕ, n = 2 ^ j :=
  ⟨Nat.log2 n, (of_decide_eq_true h).symm⟩

/-- `x = num / 2^k` with `|num| ≤ 2^53` -/
def repr53B (x : ℚ) : Bool := decide (x.num.natAbs ≤ 2 ^ 53) && isPow2 x.den

theorem repr53_of_B {x : ℚ} (h : repr53B x = true) : Repr53 x := by
  simp only [repr53B, Bool.and_eq_true, decide_eq_true_eq] at h
  obtain ⟨j, hj⟩ := isPow2_spec h.2
  refine ⟨x.num, -(j : ℤ), h.1, ?_⟩
  have hx : x = (x.num : ℚ) / (x.den : ℚ) := (Rat.num_div_den x).symm
  rw [zpow_neg, zpow_natCast, ← div_eq_mul_inv]
  conv_lhs => rw [hx, hj]
  push_cast
  rfl

/-- a positive rational that is a power of two (numerator and denominator are) -/
def pow2RatB (x : ℚ) : Bool := decide (0 < x.num) && isPow2 x.num.toNat && isPow2 x.den

theorem pow2Rat_spec {x : ℚ} (h : pow2RatB x = true) : ∃ i : ℤ, x = (2 : ℚ) ^ i := by
  simp only [pow2RatB, Bool.and_eq_true, decide_eq_true_eq] at h
  obtain ⟨⟨h0, h1⟩, h2⟩ := h
  obtain ⟨a, ha⟩ := isPow2_spec h1
  obtain ⟨b, hb⟩ := isPow2_spec h2
  refine ⟨(a : ℤ) - (b : ℤ), ?_⟩
  have hn : (x.num : ℚ) = (2 : ℚ) ^ a := by
    have : x.num = ((x.num.toNat : ℕ) : ℤ) := (Int.toNat_of_nonneg h0.le).symm
    rw [this, ha]; push_cast; rfl
  have hx : x = (x.num : ℚ) / (x.den : ℚ) := (Rat.num_div_den x).symm
  rw [zpow_sub₀ (by norm_num : (2 : ℚ) ≠ 0), zpow_natCast, zpow_natCast]
  conv_lhs => rw [hx, hn, hb]
  push_cast
  rfl

def dyAttrB : AttrChild → Bool
  | .divisions d => decide (0 < d) && isPow2 d.toNat
  | _ => true

def dySoundB (s : Sound) : Bool :=
  match s.tempo with
  | none => true
  | some q => decide (q = 0) || pow2RatB (q / 60)

def dyDurB (d : Int) : Bool := decide (0 ≤ d) && decide (d * Gen.STANDARD_PPQ ≤ 2 ^ 53)

/-- decidable form of `dyEl` -/
def dyElB : El → Bool
  | .attributes cs => cs.all dyAttrB
  | .direction ss => ss.all dySoundB
  | .note n => match n.duration with
      | none => true
      | some d => dyDurB d
  | .backup d => dyDurB d
  | .forward d => dyDurB d
  | _ => true

theorem dyDur_of_B {d : Int} (h : dyDurB d = true) : dyDur d := by
  simpa [dyDurB, dyDur] using h

theorem dyEl_of_B {e : El} (h : dyElB e = true) : dyEl e := by
  cases e with
  | attributes cs =>
    simp only [dyElB, List.all_eq_true] at h
    intro a ha
    have := h a ha
    cases a with
    | divisions d =>
      simp only [dyAttrB, Bool.and_eq_true, decide_eq_true_eq] at this
      obtain ⟨j, hj⟩ := isPow2_spec this.2
      refine ⟨j, ?_⟩
      have : d = ((d.toNat : ℕ) : ℤ) := (Int.toNat_of_nonneg this.1.le).symm
      rw [this, hj]; push_cast; rfl
    | _ => trivial
  | direction ss =>
    simp only [dyElB, List.all_eq_true] at h
    intro s hs q hq
    have := h s hs
    simp only [dySoundB, hq, Bool.or_eq_true, decide_eq_true_eq] at this
    rcases this with h0 | h1
    · exact Or.inl h0
    · obtain ⟨i, hi⟩ := pow2Rat_spec h1
      exact Or.inr ⟨i, by rw [← hi]; ring⟩
  | note n =>
    intro d hd
    simp only [dyElB, hd] at h
    exact dyDur_of_B h
  | backup d => exact dyDur_of_B h
  | forward d => exact dyDur_of_B h
  | harmony _ => trivial
  | other => trivial

theorem DyCtx_of_B {c : Ctx} (h1 : (decide (0 < c.div) && isPow2 c.div.toNat) = true)
    (h2 : pow2RatB (c.qpm / 60) = true) : DyCtx c := by
  simp only [Bool.and_eq_true, decide_eq_true_eq] at h1
  obtain ⟨j, hj⟩ := isPow2_spec h1.2
  obtain ⟨i, hi⟩ := pow2Rat_spec h2
  refine ⟨⟨j, ?_⟩, ⟨i, by rw [← hi]; ring⟩⟩
  have : c.div = ((c.div.toNat : ℕ) : ℤ) := (Int.toNat_of_nonneg h1.1.le).symm
  rw [this, hj]; push_cast; rfl

/-- every exact cursor reached in the run (counted from `t`) passes `repr53B` -/
def prefixesB (c : Ctx) (t : ℚ) : List El → Bool
  | [] => true
  | e :: es => repr53B (t + secs c (moveOf e)) && prefixesB (ctxStep c e) (t + secs c (moveOf e)) es

theorem prefixes_of_B : ∀ (els : List El) (c : Ctx) (t : ℚ), Repr53 t → prefixesB c t els = true →
    ∀ a b, els = a ++ b → Repr53 (t + specCursor c a) := by
  intro els
  induction els with
  | nil =>
    intro c t ht _ a b hab
    have : a = [] := by
      cases a with
      | nil => rfl
      | cons x xs => simp at hab
    subst this
    simpa [specCursor] using ht
  | cons e es ih =>
    intro c t ht h a b hab
    simp only [prefixesB, Bool.and_eq_true] at h
    cases a with
    | nil => simpa [specCursor] using ht
    | cons x xs =>
      simp only [List.cons_append, List.cons.injEq] at hab
      obtain ⟨rfl, hes⟩ := hab
      have := ih _ _ (repr53_of_B h.1) h.2 xs b hes
      simpa only [specCursor, add_assoc] using this

/-! ### "every `<backup>` fits": trivial without `<backup>`, decidable on concrete scores -/

theorem elsFit_of_forall {R : ℚ → ℚ} {oks : PState → El → Prop} {okp : El → Prop}
    (hk : ∀ st e, okp e → oks st e) : ∀ (els : List El) (st : PState) (m : MState), (∀ e ∈ els, okp e) →
    elsFit R oks st m els := by
  intro els
  induction els with
  | nil => intro st m _; trivial
  | cons e es ih =>
    intro st m h
    exact ⟨hk st e (h e (by simp)), fun st' m' _ => ih st' m' (fun x hx => h x (by simp [hx]))⟩

theorem measuresFit_of_forall {R : ℚ → ℚ} {oks : PState → El → Prop} {okp : El → Prop}
    (hk : ∀ st e, okp e → oks st e) : ∀ (mss : List (List El)) (st : PState), (∀ e ∈ flatEls mss, okp e) →
    measuresFit R oks st mss := by
  intro mss
  induction mss with
  | nil => intro st _; trivial
  | cons l rest ih =>
    intro st h
    rw [flatEls_cons] at h
    exact ⟨elsFit_of_forall hk _ _ _ (fun e he => h e (List.mem_append_left _ he)),
      fun st' _ _ => ih st' (fun e he => h e (List.mem_append_right _ he))⟩

/-- a part without `<backup>`: every `<backup>` fits -/
theorem measuresFit_noBackup (R : ℚ → ℚ) (mss : List (List El)) (st : PState)
    (h : ∀ e ∈ flatEls mss, noBackup e = true) : measuresFit R (backupFits R) st mss :=
  measuresFit_of_forall (okp := fun e => noBackup e = true) (fun st _ he => backupFits_of_noBackup R st he) mss st h

def backupFitsB (R : ℚ → ℚ) (st : PState) : El → Bool
  | .backup d => match secondsOf R st d with
      | .ok sec => decide (sec ≤ st.tp)
      | .error _ => true
  | _ => true

theorem backupFits_of_B {R : ℚ → ℚ} {st : PState} {e : El} (h : backupFitsB R st e = true) : backupFits R st e := by
  cases e with
  | backup d =>
    intro sec hsec
    simp only [backupFitsB, hsec, decide_eq_true_eq] at h
    exact h
  | _ => trivial

/-- run the parser and check every `<backup>` on the way -/
def elsFitB (R : ℚ → ℚ) : PState → MState → List El → Bool
  | _, _, [] => true
  | st, m, e :: es => backupFitsB R st e && (match parseEl R st m e with
      | .ok (st', m') => elsFitB R st' m' es
      | .error _ => true)

theorem elsFit_of_B {R : ℚ → ℚ} : ∀ (els : List El) (st : PState) (m : MState), elsFitB R st m els = true →
    elsFit R (backupFits R) st m els := by
  intro els
  induction els with
  | nil => intro st m _; trivial
  | cons e es ih =>
    intro st m h
    simp only [elsFitB, Bool.and_eq_true] at h
    refine ⟨backupFits_of_B h.1, fun st' m' hp => ?_⟩
    have h2 := h.2
    rw [hp] at h2
    exact ih st' m' h2

def measuresFitB (R : ℚ → ℚ) : PState → List (List El) → Bool
  | _, [] => true
  | st, l :: rest => elsFitB R st {} (repairMeasure l) && (match parseMeasure R st (repairMeasure l) with
      | .ok (st', _) => measuresFitB R st' rest
      | .error _ => true)

theorem measuresFit_of_B {R : ℚ → ℚ} : ∀ (mss : List (List El)) (st : PState), measuresFitB R st mss = true →
    measuresFit R (backupFits R) st mss := by
  intro mss
  induction mss with
  | nil => intro st _; trivial
  | cons l rest ih =>
    intro st h
    simp only [measuresFitB, Bool.and_eq_true] at h
    refine ⟨elsFit_of_B _ _ _ h.1, fun st' mi hp => ?_⟩
    have h2 := h.2
    rw [hp] at h2
    exact ih st' h2

end NSV.C05
