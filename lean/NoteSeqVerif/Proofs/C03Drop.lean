import NoteSeqVerif.Model.C03
import Mathlib.Tactic.Linarith
/-! helper lemmas for C03: `maxEnd` (the `max([n.end_time …] or [0])` of the drop cut-off) is the end of the note
that ends last. -/
namespace NSV.C03

theorem foldl_max_ge_init (l : List Note) (a : Rat) :
    a ≤ l.foldl (fun a x => if a < x.end_ then x.end_ else a) a := by
  induction l generalizing a with
  | nil => simp
  | cons h t ih =>
    simp only [List.foldl_cons]
    split
    · exact le_trans (le_of_lt ‹_›) (ih _)
    · exact ih _

theorem foldl_max_ge_mem (l : List Note) (a : Rat) (n : Note) (h : n ∈ l) :
    n.end_ ≤ l.foldl (fun a x => if a < x.end_ then x.end_ else a) a := by
  induction l generalizing a with
  | nil => cases h
  | cons x t ih =>
    simp only [List.foldl_cons]
    rcases List.mem_cons.mp h with rfl | h
    · split
      · exact foldl_max_ge_init _ _
      · exact le_trans (not_lt.mp ‹_›) (foldl_max_ge_init _ _)
    · exact ih _ h

theorem foldl_max_mem (l : List Note) (a : Rat) :
    l.foldl (fun a x => if a < x.end_ then x.end_ else a) a = a ∨
    ∃ n ∈ l, l.foldl (fun a x => if a < x.end_ then x.end_ else a) a = n.end_ := by
  induction l generalizing a with
  | nil => simp
  | cons x t ih =>
    simp only [List.foldl_cons]
    split
    · rcases ih x.end_ with h | ⟨n, hn, h⟩
      · exact .inr ⟨x, by simp, h⟩
      · exact .inr ⟨n, by simp [hn], h⟩
    · rcases ih a with h | ⟨n, hn, h⟩
      · exact .inl h
      · exact .inr ⟨n, by simp [hn], h⟩

/-- `maxEnd` is the end of the note that ends last: an upper bound of every note's end … -/
theorem maxEnd_ge (l : List Note) (n : Note) (h : n ∈ l) : n.end_ ≤ maxEnd l := by
  cases l with
  | nil => cases h
  | cons x t =>
    simp only [maxEnd]
    rcases List.mem_cons.mp h with rfl | h
    · exact foldl_max_ge_init _ _
    · exact foldl_max_ge_mem _ _ _ h

/-- … that is attained by some note (and `0` for a sequence without notes). -/
theorem maxEnd_mem (l : List Note) (hl : l ≠ []) : ∃ n ∈ l, maxEnd l = n.end_ := by
  cases l with
  | nil => exact absurd rfl hl
  | cons x t =>
    simp only [maxEnd]
    rcases foldl_max_mem t x.end_ with h | ⟨n, hn, h⟩
    · exact ⟨x, by simp, h⟩
    · exact ⟨n, by simp [hn], h⟩

end NSV.C03
