import NoteSeqVerif.Proofs.C06Drums
/-! C06 — PianorollSequence, discrete half: extraction (C07 model, through its specification
`pianoroll_frame_mem`) of a sequence whose notes are exactly the rendered runs — in any storage order — returns
the canonical roll; and every roll the extractor returns is canonical.  (core Lean only) -/
namespace NSV.C06
open NSV.C07

/-- where the run of `p` that is open after frame `k − 1` ends: `m` further frames all hold `p` -/
theorem runEnd_spec (p : Int) : ∀ (rest : List (List Int)) (k : Int),
    ∃ m : Nat, runEnd p k rest = k + m ∧ m ≤ rest.length ∧ ∀ j, j < m → p ∈ evAt rest j := by
  intro rest
  induction rest with
  | nil => intro k; exact ⟨0, by simp [runEnd], by simp, by intro j hj; omega⟩
  | cons fr rest ih =>
    intro k
    unfold runEnd
    split
    · rename_i hp
      obtain ⟨m, hm, hml, hmj⟩ := ih (k + 1)
      refine ⟨m + 1, by rw [hm]; push_cast; omega, by simpa using hml, ?_⟩
      intro j hj
      cases j with
      | zero => rw [evAt_zero]; exact hp
      | succ j => rw [evAt_succ]; exact hmj j (by omega)
    · exact ⟨0, by simp, by simp, by intro j hj; omega⟩

/-- the run does not end while the frames still hold `p` -/
theorem runEnd_ge (p : Int) : ∀ (rest : List (List Int)) (k : Int) (m0 : Nat), m0 ≤ rest.length →
    (∀ j, j < m0 → p ∈ evAt rest j) → k + m0 ≤ runEnd p k rest := by
  intro rest
  induction rest with
  | nil => intro k m0 h _; simp at h; subst h; simp [runEnd]
  | cons fr rest ih =>
    intro k m0 hm0 hall
    cases m0 with
    | zero =>
      obtain ⟨m, hm, _, _⟩ := runEnd_spec p (fr :: rest) k
      rw [hm]; simp only [Int.natCast_zero, Int.add_zero]; omega
    | succ m0 =>
      have hp : p ∈ fr := by have := hall 0 (by omega); rwa [evAt_zero] at this
      unfold runEnd
      rw [if_pos hp]
      have := ih (k + 1) m0 (by simpa using hm0) (fun j hj => by have := hall (j + 1) (by omega); rwa [evAt_succ] at this)
      push_cast; omega

/-- every rendered note is a run: it starts where `p` appears (`p` not in the previous frame), and every frame it
covers holds `p` -/
theorem rollNotesFrom_sound (minP : Int) : ∀ (ev : List (List Int)) (k : Int) (prev : List Int),
    ∀ d ∈ rollNotesFrom minP k prev ev,
      ∃ (p : Int) (i m : Nat), d = ⟨p + minP, k + i, k + m⟩ ∧ i < m ∧ m ≤ ev.length ∧
        (∀ j, i ≤ j → j < m → p ∈ evAt ev j) ∧ (i = 0 → p ∉ prev) ∧ (∀ i', i = i' + 1 → p ∉ evAt ev i') := by
  intro ev
  induction ev with
  | nil => intro k prev d hd; simp [rollNotesFrom] at hd
  | cons fr rest ih =>
    intro k prev d hd
    simp only [rollNotesFrom, List.mem_append, List.mem_map, List.mem_filter, mem_canonSet,
      decide_eq_true_eq] at hd
    rcases hd with ⟨p, ⟨hpfr, hpprev⟩, rfl⟩ | hd
    · obtain ⟨m, hm, hml, hmj⟩ := runEnd_spec p rest (k + 1)
      refine ⟨p, 0, m + 1, ?_, by omega, by simpa using hml, ?_, fun _ => hpprev, by intro i' h; omega⟩
      · rw [hm]; simp only [SNote.mk.injEq, true_and]; push_cast; omega
      · intro j _ hj
        cases j with
        | zero => rw [evAt_zero]; exact hpfr
        | succ j => rw [evAt_succ]; exact hmj j (by omega)
    · obtain ⟨p, i, m, rfl, him, hml, hcov, hstart0, hstart⟩ := ih (k + 1) fr d hd
      refine ⟨p, i + 1, m + 1, ?_, by omega, by simpa using hml, ?_, by intro h; omega, ?_⟩
      · simp only [SNote.mk.injEq, true_and]; push_cast; omega
      · intro j hij hjm
        cases j with
        | zero => omega
        | succ j => rw [evAt_succ]; exact hcov j (by omega) (by omega)
      · intro i' hi'
        have : i = i' := by omega
        subst this
        cases i with
        | zero => rw [evAt_zero]; exact hstart0 rfl
        | succ i => rw [evAt_succ]; exact hstart i rfl

/-- every pitch of every frame is covered by a rendered note — or belongs to a run that was open before -/
theorem rollNotesFrom_complete (minP : Int) : ∀ (ev : List (List Int)) (k : Int) (prev : List Int) (f : Nat) (p : Int),
    f < ev.length → p ∈ evAt ev f →
      (p ∈ prev ∧ ∀ j, j ≤ f → p ∈ evAt ev j) ∨
      ∃ d ∈ rollNotesFrom minP k prev ev, d.pitch = p + minP ∧ d.a ≤ k + f ∧ k + f < d.b := by
  intro ev
  induction ev with
  | nil => intro k prev f p hf; simp at hf
  | cons fr rest ih =>
    intro k prev f p hf hp
    have emit : p ∈ fr → p ∉ prev → ∀ m0 : Nat, m0 ≤ rest.length → (∀ j, j < m0 → p ∈ evAt rest j) →
        ∃ d ∈ rollNotesFrom minP k prev (fr :: rest), d.pitch = p + minP ∧ d.a ≤ k ∧ k + m0 < d.b := by
      intro hpfr hpprev m0 hm0 hall
      refine ⟨⟨p + minP, k, runEnd p (k + 1) rest⟩, ?_, rfl, by simp, ?_⟩
      · simp only [rollNotesFrom, List.mem_append, List.mem_map, List.mem_filter, mem_canonSet,
          decide_eq_true_eq]
        exact Or.inl ⟨p, ⟨hpfr, hpprev⟩, rfl⟩
      · have := runEnd_ge p rest (k + 1) m0 hm0 hall
        show k + (m0 : Int) < runEnd p (k + 1) rest
        omega
    cases f with
    | zero =>
      rw [evAt_zero] at hp
      by_cases hpp : p ∈ prev
      · left
        refine ⟨hpp, ?_⟩
        intro j hj
        have : j = 0 := by omega
        subst this; rw [evAt_zero]; exact hp
      · right
        obtain ⟨d, hd, h1, h2, h3⟩ := emit hp hpp 0 (by omega) (by intro j hj; omega)
        exact ⟨d, hd, h1, by simpa using h2, by simpa using h3⟩
    | succ f =>
      rw [evAt_succ] at hp
      have hf' : f < rest.length := by simpa using hf
      rcases ih (k + 1) fr f p hf' hp with ⟨hpfr, hall⟩ | ⟨d, hd, h1, h2, h3⟩
      · by_cases hpp : p ∈ prev
        · left
          refine ⟨hpp, ?_⟩
          intro j hj
          cases j with
          | zero => rw [evAt_zero]; exact hpfr
          | succ j => rw [evAt_succ]; exact hall j (by omega)
        · right
          obtain ⟨d, hd, h1, h2, h3⟩ := emit hpfr hpp (f + 1) (by omega) (fun j hj => hall j (by omega))
          exact ⟨d, hd, h1, by push_cast; omega, by push_cast at h3 ⊢; omega⟩
      · right
        refine ⟨d, ?_, h1, by push_cast; omega, by push_cast; omega⟩
        simp only [rollNotesFrom, List.mem_append]
        exact Or.inr hd

/-- **discrete half for PianorollSequence**: `s` is any relative-quantized sequence of `S + len` steps whose notes
are exactly the rendered runs of the canonical roll `ev` — in any storage order, with any other attributes.  Then
extraction over `[min_pitch, max_pitch]` from step `S` returns `ev`, with or without `split_repeats`. -/
theorem roll_discrete (s : NoteSeq) (ev : List (List Int)) (S minP maxP : Int) (split : Bool)
    (hq : 0 < s.spq) (hT : s.totalQSteps = S + ev.length)
    (hA : ∀ n ∈ s.notes, ∃ d ∈ rollNotes minP ev, n.qs = S + d.a ∧ n.qe = S + d.b ∧ n.pitch = d.pitch)
    (hB : ∀ d ∈ rollNotes minP ev, ∃ n ∈ s.notes, n.qs = S + d.a ∧ n.qe = S + d.b ∧ n.pitch = d.pitch)
    (hc : CanonicalPianoroll minP maxP S ev) :
    pianorollFromQuantized s S minP maxP split = .ok ev := by
  obtain ⟨hS, hW, hfr⟩ := hc
  have hsound := rollNotesFrom_sound minP ev 0 []
  have hwf : ∀ n ∈ s.notes, n.qs ≤ n.qe ∧ n.qs ≤ s.totalQSteps := by
    intro n hn
    obtain ⟨d, hd, h1, h2, _⟩ := hA n hn
    obtain ⟨p, i, m, rfl, him, hml, _⟩ := hsound d hd
    simp only at h1 h2
    omega
  obtain ⟨evs, hevs, hlen, hmem⟩ := pianoroll_frame_mem s S minP maxP split hq (by omega) hW hwf
  rw [hevs]
  congr 1
  have hl : evs.length = ev.length := by
    have : (evs.length : Int) = ev.length := by rw [hlen, hT]; omega
    exact_mod_cast this
  apply List.ext_getElem?
  intro f
  by_cases hf : f < ev.length
  · have hf' : f < evs.length := by omega
    rw [evAt_lt hf, List.getElem?_eq_getElem hf']
    congr 1
    obtain ⟨hsorted, hm⟩ := hmem f evs[f] (List.getElem?_eq_getElem hf')
    obtain ⟨hesorted, herange⟩ := hfr _ (evAt_mem hf)
    apply sorted_ext _ _ hsorted hesorted
    intro p
    rw [hm p, rollSpec_iff]
    simp only
    constructor
    · rintro ⟨_, _, ⟨n, hn, _, h1, h2, h3⟩, _⟩
      obtain ⟨d, hd, hq1, hq2, hq3⟩ := hA n hn
      obtain ⟨p', i, m, rfl, him, hml, hcov, _, _⟩ := hsound d hd
      simp only at hq1 hq2 hq3
      have hpp : p' = p := by omega
      subst hpp
      exact hcov f (by omega) (by omega)
    · intro hp
      obtain ⟨hp0, hp1⟩ := herange p hp
      refine ⟨hp0, hp1, ?_, ?_⟩
      · rcases rollNotesFrom_complete minP ev 0 [] f p hf hp with ⟨h, _⟩ | ⟨d, hd, h1, h2, h3⟩
        · simp at h
        · obtain ⟨n, hn, hq1, hq2, hq3⟩ := hB d hd
          obtain ⟨p', i, m, hdeq, _⟩ := hsound d hd
          refine ⟨n, hn, ?_, by omega, by omega, by omega⟩
          simp only [rollSel, Bool.and_eq_true, decide_eq_true_eq]
          rw [hdeq] at hq1 hq3 h1
          simp only at hq1 hq3 h1
          omega
      · intro _
        rintro ⟨n, hn, _, h1, h3⟩
        obtain ⟨d, hd, hq1, _, hq3⟩ := hA n hn
        obtain ⟨p', i, m, rfl, _, _, _, _, hstart⟩ := hsound d hd
        simp only at hq1 hq3
        have hpp : p' = p := by omega
        subst hpp
        exact hstart f (by omega) hp
  · rw [List.getElem?_eq_none (by omega), List.getElem?_eq_none (by omega)]

/-- **what extraction produces is canonical** (PianorollSequence): every frame of every roll the extractor
returns is a strictly increasing tuple of offsets inside the pitch range -/
theorem roll_extract_canonical (s : NoteSeq) (S minP maxP : Int) (split : Bool) (hS : 0 ≤ S)
    (evs : List (List Int)) (h : pianorollFromQuantized s S minP maxP split = .ok evs) :
    CanonicalPianoroll minP maxP S evs := by
  unfold pianorollFromQuantized at h
  split at h
  · cases h
  · simp only at h
    split at h
    · cases h
    · split at h
      · cases h
      · rename_i hdim _
        cases h
        refine ⟨hS, by omega, ?_⟩
        intro e he
        simp only [rollFrames, List.mem_map, List.mem_range] at he
        obtain ⟨f, _, rfl⟩ := he
        constructor
        · rw [List.pairwise_map]
          apply List.Pairwise.filter
          apply List.Pairwise.imp _ List.pairwise_lt_range
          intro a b h; omega
        · intro p hp
          simp only [List.mem_map, List.mem_filter, List.mem_range] at hp
          obtain ⟨q, ⟨hq, _⟩, rfl⟩ := hp
          omega

end NSV.C06
