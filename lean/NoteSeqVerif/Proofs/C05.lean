import NoteSeqVerif.Model.C05Spec
import Mathlib.Tactic.Linarith
import Mathlib.Tactic.Ring
import Mathlib.Tactic.FieldSimp
import Mathlib.Tactic.Tauto
import Mathlib.Data.Rat.Floor
/-! C05 — lemmas behind `Props/C05.lean`: the parser state follows the context in force (`Inv`),
the cursor is the sum of the preceding moves, what each element appends to its measure, the
chord-symbol assembly, the note attributes, the time-signature correction on complete measures. -/
namespace NSV.C05
open NSV

theorem truncR_intCast (i : Int) : truncR (i : Rat) = i := by
  unfold truncR
  split <;> simp

theorem specPc_cases {s : String} {pc : Int} (h : specPc s = some pc) :
    (s = "C" ∧ pc = 0) ∨ (s = "D" ∧ pc = 2) ∨ (s = "E" ∧ pc = 4) ∨ (s = "F" ∧ pc = 5) ∨
    (s = "G" ∧ pc = 7) ∨ (s = "A" ∧ pc = 9) ∨ (s = "B" ∧ pc = 11) := by
  unfold specPc at h
  split at h <;> simp_all

/-- the step table regenerated from `pitch_to_midi_pitch` is the standard one -/
theorem stepTable_spec (s : String) (pc : Int) (h : specPc s = some pc) :
    Gen.stepTable.lookup s = some pc := by
  rcases specPc_cases h with ⟨rfl, rfl⟩ | ⟨rfl, rfl⟩ | ⟨rfl, rfl⟩ | ⟨rfl, rfl⟩ | ⟨rfl, rfl⟩ | ⟨rfl, rfl⟩ | ⟨rfl, rfl⟩ <;> decide

theorem pitchToMidi_spec (s : String) (pc : Int) (h : specPc s = some pc) (alter octave : Int) :
    pitchToMidi s (alter : Rat) octave = .ok (specMidi pc alter octave 0) := by
  unfold pitchToMidi
  rw [stepTable_spec s pc h, truncR_intCast]
  simp only [specMidi]
  congr 1
  omega

/-- the `music_proto_keys` literal is `7·fifths mod 12` on the whole range −7..7 -/
theorem protoKeys_spec (f : Int) (h1 : -7 ≤ f) (h2 : f ≤ 7) :
    pyIndex Gen.musicProtoKeys (f + 7) = .ok ((7 * f) % 12) := by
  have : f = -7 ∨ f = -6 ∨ f = -5 ∨ f = -4 ∨ f = -3 ∨ f = -2 ∨ f = -1 ∨ f = 0 ∨ f = 1 ∨ f = 2 ∨
      f = 3 ∨ f = 4 ∨ f = 5 ∨ f = 6 ∨ f = 7 := by omega
  rcases this with h | h | h | h | h | h | h | h | h | h | h | h | h | h | h <;> subst h <;> decide

theorem readerKey_spec (f : Int) (h1 : -7 ≤ f) (h2 : f ≤ 7) (minor : Bool) :
    readerKey f minor = .ok (specTonic f minor, if minor then 1 else 0) := by
  unfold readerKey
  rw [protoKeys_spec f h1 h2]
  cases minor
  · simp [specTonic]
  · simp only [specTonic, if_true]
    rw [Int.fmod_eq_emod_of_nonneg _ (by omega)]
    congr 2
    omega

/-- the key arithmetic of `<transpose>` -/
def transposeKey (f t : Int) : Int :=
  let k := f + Int.fmod (t * (-5)) 12
  if k > 6 then k - 12 else k

theorem transposed_key (f t : Int) (h1 : -7 ≤ f) (h2 : f ≤ 7) :
    (-7 ≤ transposeKey f t) ∧ transposeKey f t ≤ 6 ∧ (7 * transposeKey f t) % 12 = (7 * f + t) % 12 := by
  unfold transposeKey
  rw [Int.fmod_eq_emod_of_nonneg _ (by omega)]
  simp only []
  split <;> omega

/-- the parser state agrees with the context in force -/
structure Inv (st : PState) (c : Ctx) : Prop where
  div : st.divisions = c.div
  qpm : st.qpm = c.qpm
  spq : st.spq = 60 / c.qpm

theorem secondsOf_id {st : PState} {c : Ctx} (h : Inv st c) {d : Int} {sec : Rat}
    (hs : secondsOf id st d = .ok sec) : sec = secs c d := by
  unfold secondsOf at hs
  split at hs
  · contradiction
  · rename_i hd
    injection hs with hs
    subst hs
    have hd' : (c.div : Rat) ≠ 0 := by rw [← h.div]; exact_mod_cast hd
    simp only [id, secs, h.div, h.spq, Gen.STANDARD_PPQ]
    field_simp

theorem parseAttr_inv {st : PState} {m : MState} {a : AttrChild} {st' : PState} {m' : MState} {c : Ctx}
    (hinv : Inv st c) (h : parseAttr st m a = .ok (st', m')) :
    st'.tp = st.tp ∧ Inv st' (ctxAttr c a) := by
  cases a with
  | divisions d =>
    simp only [parseAttr, Except.ok.injEq, Prod.mk.injEq] at h
    obtain ⟨rfl, rfl⟩ := h
    exact ⟨rfl, ⟨rfl, hinv.qpm, hinv.spq⟩⟩
  | key f mode =>
    simp only [parseAttr] at h
    split at h
    · contradiction
    · simp only [Except.ok.injEq, Prod.mk.injEq] at h
      obtain ⟨rfl, rfl⟩ := h
      exact ⟨rfl, hinv⟩
  | time b bt =>
    simp only [parseAttr] at h
    split at h
    · contradiction
    · split at h
      · contradiction
      · simp only [Except.ok.injEq, Prod.mk.injEq] at h
        obtain ⟨rfl, rfl⟩ := h
        exact ⟨rfl, ⟨hinv.div, hinv.qpm, hinv.spq⟩⟩
  | transpose t =>
    simp only [parseAttr] at h
    split at h <;>
    · simp only [Except.ok.injEq, Prod.mk.injEq] at h
      obtain ⟨rfl, rfl⟩ := h
      exact ⟨rfl, ⟨hinv.div, hinv.qpm, hinv.spq⟩⟩

theorem parseAttrs_inv {cs : List AttrChild} : ∀ {st : PState} {m : MState} {st' : PState} {m' : MState} {c : Ctx},
    Inv st c → parseAttrs st m cs = .ok (st', m') → st'.tp = st.tp ∧ Inv st' (cs.foldl ctxAttr c) := by
  induction cs with
  | nil =>
    intro st m st' m' c hinv h
    simp only [parseAttrs, Except.ok.injEq, Prod.mk.injEq] at h
    obtain ⟨rfl, rfl⟩ := h
    exact ⟨rfl, hinv⟩
  | cons a cs ih =>
    intro st m st' m' c hinv h
    simp only [parseAttrs] at h
    split at h
    · contradiction
    · rename_i st1 m1 h1
      obtain ⟨ht, hi⟩ := parseAttr_inv hinv h1
      obtain ⟨ht2, hi2⟩ := ih hi h
      exact ⟨ht2.trans ht, hi2⟩

theorem parseSound_inv {st : PState} {m : MState} {s : Sound} {c : Ctx} (hinv : Inv st c) :
    (parseSound id st m s).1.tp = st.tp ∧ Inv (parseSound id st m s).1 (ctxSound c s) := by
  unfold parseSound ctxSound
  cases ht : s.tempo with
  | none => exact ⟨rfl, hinv⟩
  | some q =>
    cases hd : s.dynamics <;> exact ⟨rfl, ⟨hinv.div, rfl, rfl⟩⟩

theorem parseSounds_inv {ss : List Sound} : ∀ {st : PState} {m : MState} {c : Ctx}, Inv st c →
    (parseSounds id st m ss).1.tp = st.tp ∧ Inv (parseSounds id st m ss).1 (ss.foldl ctxSound c) := by
  induction ss with
  | nil => intro st m c hinv; exact ⟨rfl, hinv⟩
  | cons s ss ih =>
    intro st m c hinv
    simp only [parseSounds, List.foldl]
    obtain ⟨h1, h2⟩ := parseSound_inv (m := m) (s := s) hinv
    obtain ⟨h3, h4⟩ := ih (m := (parseSound id st m s).2) h2
    exact ⟨h3.trans h1, h4⟩

theorem secs_zero (c : Ctx) : secs c 0 = 0 := by simp [secs]

theorem secs_neg (c : Ctx) (d : Int) : secs c (-d) = - secs c d := by
  simp only [secs]; push_cast; ring

theorem secs_add (c : Ctx) (a b : Int) : secs c (a + b) = secs c a + secs c b := by
  simp only [secs]; push_cast; ring

/-- what `parseNote` does to the state, and the times it stamps on the note -/
theorem parseNote_inv {st : PState} {n : NoteEl} {st' : PState} {pn : PNote} {c : Ctx}
    (hinv : Inv st c) (h : parseNote id st n = .ok (st', pn)) :
    st'.tp = st.tp + secs c (moveOf (.note n)) ∧ Inv st' c ∧
    st'.channel = st.channel ∧ st'.program = st.program ∧ st'.prev = st.prev ∧
    (∀ d, n.chord = false → n.duration = some d →
        pn.time = st.tp ∧ pn.seconds = secs c d ∧ pn.duration = d ∧ pn.grace = false) ∧
    (∀ d, n.chord = true → n.duration = some d → ∃ pd pt, st.prev = some (pd, pt) ∧
        pn.time = pt ∧ pn.seconds = secs c pd ∧ pn.duration = pd ∧ pn.grace = false) := by
  unfold parseNote at h
  simp only [] at h
  split at h
  · contradiction
  · rename_i pitch _
    split at h
    · contradiction
    · rename_i st1 dur time sec grace hdur
      split at h
      · contradiction
      · split at h
        · contradiction
        · simp only [Except.ok.injEq, Prod.mk.injEq] at h
          obtain ⟨rfl, rfl⟩ := h
          -- analyse the <duration> step
          cases hd : n.duration with
          | none =>
            simp only [hd, Except.ok.injEq, Prod.mk.injEq] at hdur
            obtain ⟨rfl, rfl, rfl, rfl, rfl⟩ := hdur
            refine ⟨?_, hinv, rfl, rfl, rfl, ?_, ?_⟩
            · simp [moveOf, hd, secs_zero]
            · intro d _ h2; simp at h2
            · intro d _ h2; simp at h2
          | some d0 =>
            simp only [hd] at hdur
            cases hc : n.chord with
            | true =>
              simp only [hc, if_true] at hdur
              split at hdur
              · contradiction
              · rename_i pd pt hprev
                split at hdur
                · contradiction
                · rename_i sec' hsec
                  simp only [Except.ok.injEq, Prod.mk.injEq] at hdur
                  obtain ⟨rfl, rfl, rfl, rfl, rfl⟩ := hdur
                  refine ⟨?_, hinv, rfl, rfl, rfl, ?_, ?_⟩
                  · simp [moveOf, hc, secs_zero]
                  · intro d h1 _; simp at h1
                  · intro d _ _
                    exact ⟨pd, pt, hprev, rfl, secondsOf_id hinv hsec, rfl, rfl⟩
            | false =>
              simp only [hc, Bool.false_eq_true, if_false] at hdur
              split at hdur
              · contradiction
              · rename_i sec' hsec
                simp only [Except.ok.injEq, Prod.mk.injEq] at hdur
                obtain ⟨rfl, rfl, rfl, rfl, rfl⟩ := hdur
                have hs := secondsOf_id hinv hsec
                refine ⟨?_, ⟨hinv.div, hinv.qpm, hinv.spq⟩, rfl, rfl, rfl, ?_, ?_⟩
                · simp [moveOf, hc, hd, hs]
                · intro d _ h2
                  simp only [Option.some.injEq] at h2
                  subst h2
                  exact ⟨rfl, hs, rfl, rfl⟩
                · intro d h1 _; simp at h1

theorem parseEl_inv {st : PState} {m : MState} {e : El} {st' : PState} {m' : MState} {c : Ctx}
    (hinv : Inv st c) (h : parseEl id st m e = .ok (st', m')) :
    st'.tp = st.tp + secs c (moveOf e) ∧ Inv st' (ctxStep c e) := by
  cases e with
  | attributes cs =>
    simp only [parseEl] at h
    obtain ⟨h1, h2⟩ := parseAttrs_inv hinv h
    exact ⟨by simp [moveOf, secs_zero, h1], h2⟩
  | backup d =>
    simp only [parseEl] at h
    split at h
    · contradiction
    · rename_i sec hsec
      simp only [Except.ok.injEq, Prod.mk.injEq] at h
      obtain ⟨rfl, rfl⟩ := h
      have hs := secondsOf_id hinv hsec
      refine ⟨?_, ⟨hinv.div, hinv.qpm, hinv.spq⟩⟩
      simp only [moveOf, secs_neg, id, hs]; ring
  | forward d =>
    simp only [parseEl] at h
    split at h
    · contradiction
    · rename_i sec hsec
      simp only [Except.ok.injEq, Prod.mk.injEq] at h
      obtain ⟨rfl, rfl⟩ := h
      have hs := secondsOf_id hinv hsec
      refine ⟨?_, ⟨hinv.div, hinv.qpm, hinv.spq⟩⟩
      simp only [moveOf, id, hs]
  | direction ss =>
    simp only [parseEl, Except.ok.injEq] at h
    obtain ⟨h1, h2⟩ := parseSounds_inv (ss := ss) (m := m) hinv
    rw [h] at h1 h2
    simp only [] at h1 h2
    exact ⟨by simp [moveOf, secs_zero, h1], h2⟩
  | note n =>
    simp only [parseEl] at h
    split at h
    · contradiction
    · rename_i st1 pn hn
      simp only [Except.ok.injEq, Prod.mk.injEq] at h
      obtain ⟨rfl, rfl⟩ := h
      obtain ⟨h1, h2, _⟩ := parseNote_inv hinv hn
      exact ⟨h1, ⟨h2.div, h2.qpm, h2.spq⟩⟩
  | harmony cs =>
    simp only [parseEl] at h
    split at h
    · contradiction
    · simp only [Except.ok.injEq, Prod.mk.injEq] at h
      obtain ⟨rfl, rfl⟩ := h
      exact ⟨by simp [moveOf, secs_zero], hinv⟩
  | other =>
    simp only [parseEl, Except.ok.injEq, Prod.mk.injEq] at h
    obtain ⟨rfl, rfl⟩ := h
    exact ⟨by simp [moveOf, secs_zero], hinv⟩

theorem parseEls_inv {els : List El} : ∀ {st : PState} {m : MState} {st' : PState} {m' : MState} {c : Ctx},
    Inv st c → parseEls id st m els = .ok (st', m') →
    st'.tp = st.tp + specCursor c els ∧ Inv st' (ctxAfter c els) := by
  induction els with
  | nil =>
    intro st m st' m' c hinv h
    simp only [parseEls, Except.ok.injEq, Prod.mk.injEq] at h
    obtain ⟨rfl, rfl⟩ := h
    exact ⟨by simp [specCursor], hinv⟩
  | cons e es ih =>
    intro st m st' m' c hinv h
    simp only [parseEls] at h
    split at h
    · contradiction
    · rename_i st1 m1 h1
      obtain ⟨ht, hi⟩ := parseEl_inv hinv h1
      obtain ⟨ht2, hi2⟩ := ih hi h
      refine ⟨?_, hi2⟩
      rw [ht2, ht]; simp only [specCursor]; ring

theorem parseEls_append {R : Rat → Rat} {a : List El} : ∀ {b : List El} {st : PState} {m : MState} {r : PState × MState},
    parseEls R st m (a ++ b) = .ok r →
    ∃ st1 m1, parseEls R st m a = .ok (st1, m1) ∧ parseEls R st1 m1 b = .ok r := by
  induction a with
  | nil => intro b st m r h; exact ⟨st, m, rfl, h⟩
  | cons e es ih =>
    intro b st m r h
    simp only [List.cons_append, parseEls] at h ⊢
    split at h
    · contradiction
    · rename_i st1 m1 h1
      exact ih h

theorem specCursor_append (a : List El) : ∀ (c : Ctx) (b : List El),
    specCursor c (a ++ b) = specCursor c a + specCursor (ctxAfter c a) b := by
  induction a with
  | nil => intro c b; simp [specCursor, ctxAfter]
  | cons e es ih =>
    intro c b
    simp only [List.cons_append, specCursor, ih, ctxAfter, List.foldl]
    ring

theorem ctxAfter_append (c : Ctx) (a b : List El) : ctxAfter c (a ++ b) = ctxAfter (ctxAfter c a) b := by
  simp [ctxAfter, List.foldl_append]

/-! ### what each element appends to the measure -/

theorem parseAttr_frame {st : PState} {m : MState} {a : AttrChild} {st' : PState} {m' : MState}
    (h : parseAttr st m a = .ok (st', m')) :
    m'.notes = m.notes ∧ m'.chords = m.chords ∧ m'.tempos = m.tempos ∧
    st'.channel = st.channel ∧ st'.program = st.program ∧ st'.prev = st.prev ∧ st'.velocity = st.velocity := by
  cases a with
  | divisions d =>
    simp only [parseAttr, Except.ok.injEq, Prod.mk.injEq] at h
    obtain ⟨rfl, rfl⟩ := h
    simp
  | key f mode =>
    simp only [parseAttr] at h
    split at h
    · contradiction
    · simp only [Except.ok.injEq, Prod.mk.injEq] at h
      obtain ⟨rfl, rfl⟩ := h
      simp
  | time b bt =>
    simp only [parseAttr] at h
    split at h
    · contradiction
    · split at h
      · contradiction
      · simp only [Except.ok.injEq, Prod.mk.injEq] at h
        obtain ⟨rfl, rfl⟩ := h
        simp
  | transpose t =>
    simp only [parseAttr] at h
    split at h <;>
    · simp only [Except.ok.injEq, Prod.mk.injEq] at h
      obtain ⟨rfl, rfl⟩ := h
      simp

theorem parseAttrs_frame {cs : List AttrChild} : ∀ {st : PState} {m : MState} {st' : PState} {m' : MState},
    parseAttrs st m cs = .ok (st', m') →
    m'.notes = m.notes ∧ m'.chords = m.chords ∧ m'.tempos = m.tempos ∧
    st'.channel = st.channel ∧ st'.program = st.program ∧ st'.prev = st.prev ∧ st'.velocity = st.velocity := by
  induction cs with
  | nil =>
    intro st m st' m' h
    simp only [parseAttrs, Except.ok.injEq, Prod.mk.injEq] at h
    obtain ⟨rfl, rfl⟩ := h
    simp
  | cons a cs ih =>
    intro st m st' m' h
    simp only [parseAttrs] at h
    split at h
    · contradiction
    · rename_i st1 m1 h1
      obtain ⟨a1, a2, a3, a4, a5, a6, a7⟩ := parseAttr_frame h1
      obtain ⟨b1, b2, b3, b4, b5, b6, b7⟩ := ih h
      exact ⟨b1.trans a1, b2.trans a2, b3.trans a3, b4.trans a4, b5.trans a5, b6.trans a6, b7.trans a7⟩

theorem parseSound_frame (R : Rat → Rat) (st : PState) (m : MState) (s : Sound) :
    (parseSound R st m s).2.notes = m.notes ∧ (parseSound R st m s).2.chords = m.chords ∧
    (parseSound R st m s).1.channel = st.channel ∧ (parseSound R st m s).1.program = st.program ∧
    (parseSound R st m s).1.prev = st.prev ∧ (parseSound R st m s).1.tp = st.tp ∧
    ∃ new, (parseSound R st m s).2.tempos = m.tempos ++ new ∧ ∀ t ∈ new, t.time = st.tp := by
  unfold parseSound
  cases ht : s.tempo with
  | none => exact ⟨rfl, rfl, rfl, rfl, rfl, rfl, [], by simp, by simp⟩
  | some q =>
    cases hd : s.dynamics <;>
    exact ⟨rfl, rfl, rfl, rfl, rfl, rfl, [⟨st.tp, if q = 0 then Gen.DEFAULT_QPM else q⟩], rfl, by simp⟩

theorem parseSounds_frame (R : Rat → Rat) (ss : List Sound) : ∀ (st : PState) (m : MState),
    (parseSounds R st m ss).2.notes = m.notes ∧ (parseSounds R st m ss).2.chords = m.chords ∧
    (parseSounds R st m ss).1.channel = st.channel ∧ (parseSounds R st m ss).1.program = st.program ∧
    (parseSounds R st m ss).1.prev = st.prev ∧ (parseSounds R st m ss).1.tp = st.tp ∧
    ∃ new, (parseSounds R st m ss).2.tempos = m.tempos ++ new ∧ ∀ t ∈ new, t.time = st.tp := by
  induction ss with
  | nil => intro st m; exact ⟨rfl, rfl, rfl, rfl, rfl, rfl, [], by simp [parseSounds], by simp⟩
  | cons s ss ih =>
    intro st m
    simp only [parseSounds]
    obtain ⟨a1, a2, a3, a4, a5, a6, n1, a7, a8⟩ := parseSound_frame R st m s
    obtain ⟨b1, b2, b3, b4, b5, b6, n2, b7, b8⟩ := ih (parseSound R st m s).1 (parseSound R st m s).2
    refine ⟨b1.trans a1, b2.trans a2, b3.trans a3, b4.trans a4, b5.trans a5, b6.trans a6, n1 ++ n2, ?_, ?_⟩
    · rw [b7, a7, List.append_assoc]
    · intro t ht
      rcases List.mem_append.mp ht with h | h
      · exact a8 t h
      · rw [b8 t h, a6]

/-- what one element does to the measure's lists and to channel / program / previous note -/
theorem parseEl_out {R : Rat → Rat} {st : PState} {m : MState} {e : El} {st' : PState} {m' : MState}
    (h : parseEl R st m e = .ok (st', m')) :
    st'.channel = st.channel ∧ st'.program = st.program ∧
    (match e with
     | .note n => ∃ st1 pn, parseNote R st n = .ok (st1, pn) ∧ m'.notes = m.notes ++ [pn] ∧
          st'.prev = some (pn.duration, pn.time) ∧ m'.chords = m.chords ∧ m'.tempos = m.tempos
     | .harmony cs => ∃ ch, parseHarmony R st cs = .ok ch ∧ m'.chords = m.chords ++ [ch] ∧
          m'.notes = m.notes ∧ m'.tempos = m.tempos ∧ st'.prev = st.prev
     | .direction _ => m'.notes = m.notes ∧ m'.chords = m.chords ∧ st'.prev = st.prev ∧
          ∃ new, m'.tempos = m.tempos ++ new ∧ ∀ t ∈ new, t.time = st.tp
     | _ => m'.notes = m.notes ∧ m'.chords = m.chords ∧ m'.tempos = m.tempos ∧ st'.prev = st.prev) := by
  cases e with
  | attributes cs =>
    simp only [parseEl] at h
    obtain ⟨a1, a2, a3, a4, a5, a6, _⟩ := parseAttrs_frame h
    exact ⟨a4, a5, a1, a2, a3, a6⟩
  | backup d =>
    simp only [parseEl] at h
    split at h
    · contradiction
    · simp only [Except.ok.injEq, Prod.mk.injEq] at h
      obtain ⟨rfl, rfl⟩ := h
      simp
  | forward d =>
    simp only [parseEl] at h
    split at h
    · contradiction
    · simp only [Except.ok.injEq, Prod.mk.injEq] at h
      obtain ⟨rfl, rfl⟩ := h
      simp
  | direction ss =>
    simp only [parseEl, Except.ok.injEq] at h
    obtain ⟨a1, a2, a3, a4, a5, _, a7⟩ := parseSounds_frame R ss st m
    rw [h] at a1 a2 a3 a4 a5 a7
    exact ⟨a3, a4, a1, a2, a5, a7⟩
  | note n =>
    simp only [parseEl] at h
    split at h
    · contradiction
    · rename_i st1 pn hn
      simp only [Except.ok.injEq, Prod.mk.injEq] at h
      obtain ⟨rfl, rfl⟩ := h
      have hcp : st1.channel = st.channel ∧ st1.program = st.program := by
        unfold parseNote at hn
        simp only [] at hn
        split at hn
        · contradiction
        · split at hn
          · contradiction
          · rename_i st2 dur time sec grace hdur
            split at hn
            · contradiction
            · split at hn
              · contradiction
              · simp only [Except.ok.injEq, Prod.mk.injEq] at hn
                obtain ⟨rfl, _⟩ := hn
                split at hdur
                · simp only [Except.ok.injEq, Prod.mk.injEq] at hdur
                  obtain ⟨rfl, _⟩ := hdur
                  exact ⟨rfl, rfl⟩
                · split at hdur
                  · split at hdur
                    · contradiction
                    · split at hdur
                      · contradiction
                      · simp only [Except.ok.injEq, Prod.mk.injEq] at hdur
                        obtain ⟨rfl, _⟩ := hdur
                        exact ⟨rfl, rfl⟩
                  · split at hdur
                    · contradiction
                    · simp only [Except.ok.injEq, Prod.mk.injEq] at hdur
                      obtain ⟨rfl, _⟩ := hdur
                      exact ⟨rfl, rfl⟩
      exact ⟨hcp.1, hcp.2, st1, pn, hn, rfl, rfl, rfl, rfl⟩
  | harmony cs =>
    simp only [parseEl] at h
    split at h
    · contradiction
    · rename_i ch hc
      simp only [Except.ok.injEq, Prod.mk.injEq] at h
      obtain ⟨rfl, rfl⟩ := h
      exact ⟨rfl, rfl, ch, hc, rfl, rfl, rfl, rfl⟩
  | other =>
    simp only [parseEl, Except.ok.injEq, Prod.mk.injEq] at h
    obtain ⟨rfl, rfl⟩ := h
    simp

theorem parseEls_out {R : Rat → Rat} {els : List El} : ∀ {st : PState} {m : MState} {st' : PState} {m' : MState},
    parseEls R st m els = .ok (st', m') →
    st'.channel = st.channel ∧ st'.program = st.program ∧
    (∃ ns, m'.notes = m.notes ++ ns ∧ ns.length = (els.filter isNote).length) ∧
    (∃ cs, m'.chords = m.chords ++ cs) ∧ (∃ ts, m'.tempos = m.tempos ++ ts) ∧
    ((∀ e ∈ els, isNote e = false) → st'.prev = st.prev) := by
  induction els with
  | nil =>
    intro st m st' m' h
    simp only [parseEls, Except.ok.injEq, Prod.mk.injEq] at h
    obtain ⟨rfl, rfl⟩ := h
    exact ⟨rfl, rfl, ⟨[], by simp, by simp⟩, ⟨[], by simp⟩, ⟨[], by simp⟩, fun _ => rfl⟩
  | cons e es ih =>
    intro st m st' m' h
    simp only [parseEls] at h
    split at h
    · contradiction
    · rename_i st1 m1 h1
      obtain ⟨a1, a2, a3⟩ := parseEl_out h1
      obtain ⟨b1, b2, ⟨ns, b3, b3'⟩, ⟨cs, b4⟩, ⟨ts, b5⟩, b6⟩ := ih h
      refine ⟨b1.trans a1, b2.trans a2, ?_⟩
      cases e with
      | note n =>
        obtain ⟨_, pn, _, c1, c2, c3, c4⟩ := a3
        refine ⟨⟨pn :: ns, by rw [b3, c1]; simp, by simp [List.filter, isNote, b3']⟩, ⟨cs, by rw [b4, c3]⟩, ⟨ts, by rw [b5, c4]⟩, ?_⟩
        intro hall
        have := hall (.note n) (by simp)
        simp [isNote] at this
      | harmony hc =>
        obtain ⟨ch, _, c1, c2, c3, c4⟩ := a3
        refine ⟨⟨ns, by rw [b3, c2], by simp [List.filter, isNote, b3']⟩, ⟨ch :: cs, by rw [b4, c1]; simp⟩, ⟨ts, by rw [b5, c3]⟩, ?_⟩
        intro hall
        rw [b6 (fun e he => hall e (by simp [he])), c4]
      | direction ss =>
        obtain ⟨c1, c2, c3, new, c4, _⟩ := a3
        refine ⟨⟨ns, by rw [b3, c1], by simp [List.filter, isNote, b3']⟩, ⟨cs, by rw [b4, c2]⟩, ⟨new ++ ts, by rw [b5, c4]; simp⟩, ?_⟩
        intro hall
        rw [b6 (fun e he => hall e (by simp [he])), c3]
      | attributes _ =>
        obtain ⟨c1, c2, c3, c4⟩ := a3
        refine ⟨⟨ns, by rw [b3, c1], by simp [List.filter, isNote, b3']⟩, ⟨cs, by rw [b4, c2]⟩, ⟨ts, by rw [b5, c3]⟩, ?_⟩
        intro hall
        rw [b6 (fun e he => hall e (by simp [he])), c4]
      | backup _ =>
        obtain ⟨c1, c2, c3, c4⟩ := a3
        refine ⟨⟨ns, by rw [b3, c1], by simp [List.filter, isNote, b3']⟩, ⟨cs, by rw [b4, c2]⟩, ⟨ts, by rw [b5, c3]⟩, ?_⟩
        intro hall
        rw [b6 (fun e he => hall e (by simp [he])), c4]
      | forward _ =>
        obtain ⟨c1, c2, c3, c4⟩ := a3
        refine ⟨⟨ns, by rw [b3, c1], by simp [List.filter, isNote, b3']⟩, ⟨cs, by rw [b4, c2]⟩, ⟨ts, by rw [b5, c3]⟩, ?_⟩
        intro hall
        rw [b6 (fun e he => hall e (by simp [he])), c4]
      | other =>
        obtain ⟨c1, c2, c3, c4⟩ := a3
        refine ⟨⟨ns, by rw [b3, c1], by simp [List.filter, isNote, b3']⟩, ⟨cs, by rw [b4, c2]⟩, ⟨ts, by rw [b5, c3]⟩, ?_⟩
        intro hall
        rw [b6 (fun e he => hall e (by simp [he])), c4]

/-- splitting a run at an element: the state before it is the cursor formula -/
theorem parseEls_split {pre post : List El} {e : El} {st : PState} {m : MState} {st' : PState} {m' : MState}
    {c : Ctx} (hinv : Inv st c) (h : parseEls id st m (pre ++ e :: post) = .ok (st', m')) :
    ∃ st1 m1 st2 m2, parseEls id st m pre = .ok (st1, m1) ∧
      st1.tp = st.tp + specCursor c pre ∧ Inv st1 (ctxAfter c pre) ∧
      parseEl id st1 m1 e = .ok (st2, m2) ∧ parseEls id st2 m2 post = .ok (st', m') := by
  obtain ⟨st1, m1, h1, h2⟩ := parseEls_append h
  simp only [parseEls] at h2
  split at h2
  · contradiction
  · rename_i st2 m2 he
    obtain ⟨ht, hi⟩ := parseEls_inv hinv h1
    exact ⟨st1, m1, st2, m2, h1, ht, hi, he, h2⟩

theorem idx_mid {α} (a b : List α) (x : α) (k : Nat) (hk : k = a.length) : (a ++ x :: b)[k]? = some x := by
  subst hk; simp

/-- onset and length of the note built for one `<note>` element of a measure -/
theorem measure_note_time {pre post : List El} {n : NoteEl} {st : PState} {m : MState} {st' : PState}
    {m' : MState} {c : Ctx} (hinv : Inv st c)
    (h : parseEls id st m (pre ++ .note n :: post) = .ok (st', m')) :
    ∃ pn, m'.notes[m.notes.length + (pre.filter isNote).length]? = some pn ∧
      (∀ d, n.chord = false → n.duration = some d →
          pn.time = st.tp + specCursor c pre ∧ pn.seconds = secs (ctxAfter c pre) d ∧ pn.duration = d) ∧
      (∀ d, n.chord = true → n.duration = some d → ∀ pre' n0 mid, pre = pre' ++ .note n0 :: mid →
          (∀ e ∈ mid, isNote e = false) →
          ∃ pn0, m'.notes[m.notes.length + (pre'.filter isNote).length]? = some pn0 ∧
            pn.time = pn0.time ∧ pn.duration = pn0.duration ∧
            pn.seconds = secs (ctxAfter c pre) pn0.duration) := by
  obtain ⟨st1, m1, st2, m2, h1, ht, hi, he, h2⟩ := parseEls_split hinv h
  obtain ⟨_, _, ⟨ns1, e1, l1⟩, _, _, _⟩ := parseEls_out h1
  obtain ⟨_, _, hout⟩ := parseEl_out he
  simp only [] at hout
  obtain ⟨st1', pn, hn, e2, _, _, _⟩ := hout
  obtain ⟨_, _, ⟨ns3, e3, _⟩, _, _, _⟩ := parseEls_out h2
  obtain ⟨_, _, _, _, _, hnc, hch⟩ := parseNote_inv hi hn
  have hnotes : m'.notes = (m.notes ++ ns1) ++ pn :: ns3 := by rw [e3, e2, e1]; simp
  refine ⟨pn, ?_, ?_, ?_⟩
  · rw [hnotes]; exact idx_mid _ _ _ _ (by simp [l1])
  · intro d hc hd
    obtain ⟨a, b, c', _⟩ := hnc d hc hd
    exact ⟨by rw [a, ht], b, c'⟩
  · intro d hc hd pre' n0 mid hpre hmid
    obtain ⟨pd, pt, hp, a, b, c', _⟩ := hch d hc hd
    subst hpre
    obtain ⟨sa, ma, sb, mb, ha, _, _, hb, hm⟩ := parseEls_split hinv h1
    obtain ⟨_, _, ⟨nsa, ea, la⟩, _, _, _⟩ := parseEls_out ha
    obtain ⟨_, _, houtb⟩ := parseEl_out hb
    simp only [] at houtb
    obtain ⟨_, pn0, _, eb, hprev, _, _⟩ := houtb
    obtain ⟨_, _, ⟨nsm, em, _⟩, _, _, hkeep⟩ := parseEls_out hm
    have hp1 : st1.prev = some (pn0.duration, pn0.time) := by rw [hkeep hmid, hprev]
    rw [hp1] at hp
    simp only [Option.some.injEq, Prod.mk.injEq] at hp
    obtain ⟨rfl, rfl⟩ := hp
    refine ⟨pn0, ?_, a, c', b⟩
    have : m'.notes = (m.notes ++ nsa) ++ pn0 :: (nsm ++ pn :: ns3) := by
      rw [e3, e2, em, eb, ea]; simp
    rw [this]; exact idx_mid _ _ _ _ (by simp [la])

theorem fixTimeSignature_frame {st : PState} {m : MState} {start : Rat} {st' : PState} {m' : MState}
    (h : fixTimeSignature st m start = .ok (st', m')) :
    st'.tp = st.tp ∧ st'.divisions = st.divisions ∧ st'.qpm = st.qpm ∧ st'.spq = st.spq ∧
    st'.channel = st.channel ∧ st'.program = st.program ∧ st'.prev = st.prev ∧
    m'.notes = m.notes ∧ m'.chords = m.chords ∧ m'.tempos = m.tempos ∧ m'.ks = m.ks := by
  unfold fixTimeSignature at h
  simp only [] at h
  split at h
  · contradiction
  · split at h
    · simp only [Except.ok.injEq, Prod.mk.injEq] at h
      obtain ⟨rfl, rfl⟩ := h
      simp
    · contradiction
    · split at h
      · contradiction
      · split at h <;>
        · simp only [Except.ok.injEq, Prod.mk.injEq] at h
          obtain ⟨rfl, rfl⟩ := h
          simp

theorem parseMeasure_inv {st : PState} {els : List El} {st' : PState} {m : MState} {c : Ctx}
    (hinv : Inv st c) (h : parseMeasure id st els = .ok (st', m)) :
    st'.tp = st.tp + specCursor c els ∧ Inv st' (ctxAfter c els) ∧
    st'.channel = st.channel ∧ st'.program = st.program := by
  unfold parseMeasure at h
  split at h
  · contradiction
  · rename_i st1 m1 h1
    obtain ⟨a1, a2⟩ := parseEls_inv hinv h1
    obtain ⟨b1, b2, _⟩ := parseEls_out h1
    obtain ⟨f1, f2, f3, f4, f5, f6, _⟩ := fixTimeSignature_frame h
    exact ⟨by rw [f1, a1], ⟨by rw [f2, a2.div], by rw [f3, a2.qpm], by rw [f4, a2.spq]⟩,
           by rw [f5, b1], by rw [f6, b2]⟩

theorem flatEls_cons (els : List El) (mss : List (List El)) :
    flatEls (els :: mss) = repairMeasure els ++ flatEls mss := by simp [flatEls]

theorem flatEls_append (a b : List (List El)) : flatEls (a ++ b) = flatEls a ++ flatEls b := by
  simp [flatEls]

theorem parseMeasures_split {before : List (List El)} : ∀ {els : List El} {after : List (List El)}
    {st : PState} {st' : PState} {ms : List MState} {c : Ctx},
    Inv st c → parseMeasures id st (before ++ els :: after) = .ok (st', ms) →
    ∃ stb msb st1 mi msa, msb.length = before.length ∧ ms = msb ++ mi :: msa ∧
      stb.tp = st.tp + specCursor c (flatEls before) ∧ Inv stb (ctxAfter c (flatEls before)) ∧
      stb.channel = st.channel ∧ stb.program = st.program ∧
      parseMeasure id stb (repairMeasure els) = .ok (st1, mi) := by
  induction before with
  | nil =>
    intro els after st st' ms c hinv h
    simp only [List.nil_append, parseMeasures] at h
    split at h
    · contradiction
    · rename_i st1 mi h1
      split at h
      · contradiction
      · rename_i st2 msa h2
        simp only [Except.ok.injEq, Prod.mk.injEq] at h
        obtain ⟨_, rfl⟩ := h
        exact ⟨st, [], st1, mi, msa, rfl, rfl, by simp [flatEls, specCursor], by simpa [flatEls, ctxAfter] using hinv,
               rfl, rfl, h1⟩
  | cons b bs ih =>
    intro els after st st' ms c hinv h
    simp only [List.cons_append, parseMeasures] at h
    split at h
    · contradiction
    · rename_i st1 mb h1
      split at h
      · contradiction
      · rename_i st2 rest h2
        simp only [Except.ok.injEq, Prod.mk.injEq] at h
        obtain ⟨_, rfl⟩ := h
        obtain ⟨a1, a2, a3, a4⟩ := parseMeasure_inv hinv h1
        obtain ⟨stb, msb, st3, mi, msa, l, e, t, i, ch, pr, hm⟩ := ih a2 h2
        refine ⟨stb, mb :: msb, st3, mi, msa, by simp [l], by simp [e], ?_, ?_, by rw [ch, a3], by rw [pr, a4], hm⟩
        · rw [t, a1, flatEls_cons, specCursor_append]; ring
        · rw [flatEls_cons, ctxAfter_append]; exact i

theorem parseMeasures_inv {mss : List (List El)} : ∀ {st : PState} {st' : PState} {ms : List MState} {c : Ctx},
    Inv st c → parseMeasures id st mss = .ok (st', ms) →
    st'.tp = st.tp + specCursor c (flatEls mss) ∧ Inv st' (ctxAfter c (flatEls mss)) := by
  induction mss with
  | nil =>
    intro st st' ms c hinv h
    simp only [parseMeasures, Except.ok.injEq, Prod.mk.injEq] at h
    obtain ⟨rfl, _⟩ := h
    exact ⟨by simp [flatEls, specCursor], by simpa [flatEls, ctxAfter] using hinv⟩
  | cons b bs ih =>
    intro st st' ms c hinv h
    simp only [parseMeasures] at h
    split at h
    · contradiction
    · rename_i st1 mb h1
      split at h
      · contradiction
      · rename_i st2 rest h2
        simp only [Except.ok.injEq, Prod.mk.injEq] at h
        obtain ⟨rfl, _⟩ := h
        obtain ⟨a1, a2, _, _⟩ := parseMeasure_inv hinv h1
        obtain ⟨b1, b2⟩ := ih a2 h2
        refine ⟨?_, ?_⟩
        · rw [b1, a1, flatEls_cons, specCursor_append]; ring
        · rw [flatEls_cons, ctxAfter_append]; exact b2

theorem partStart_inv {sps : List ScorePartEl} {st : PState} {p : PartEl} {c : Ctx} (hinv : Inv st c) :
    Inv (partStart sps st p) c ∧ (partStart sps st p).tp = 0 ∧
    (partStart sps st p).channel = (lookupScorePart sps p.id).1 ∧
    (partStart sps st p).program = (lookupScorePart sps p.id).2 ∧
    (partStart sps st p).transpose = 0 :=
  ⟨⟨hinv.div, hinv.qpm, hinv.spq⟩, rfl, rfl, rfl, rfl⟩

theorem parsePart_inv {sps : List ScorePartEl} {st : PState} {p : PartEl} {st' : PState} {ms : List MState}
    {c : Ctx} (hinv : Inv st c) (h : parsePart id sps st p = .ok (st', ms)) :
    st'.tp = specCursor c (partEls p) ∧ Inv st' (ctxAfter c (partEls p)) := by
  unfold parsePart at h
  simp only [partEls]
  obtain ⟨a, b⟩ := parseMeasures_inv (partStart_inv hinv).1 h
  exact ⟨by rw [a, (partStart_inv (sps := sps) (p := p) hinv).2.1]; ring, b⟩

theorem parseParts_split {sps : List ScorePartEl} {before : List PartEl} : ∀ {p : PartEl} {after : List PartEl}
    {st : PState} {total : Rat} {r : PState × Rat × List (List MState)} {c : Ctx},
    Inv st c → parseParts id sps st total (before ++ p :: after) = .ok r →
    ∃ stb st' msb ms msa, Inv stb (scoreCtx c before) ∧ parsePart id sps stb p = .ok (st', ms) ∧
      r.2.2 = msb ++ ms :: msa ∧ msb.length = before.length := by
  induction before with
  | nil =>
    intro p after st total r c hinv h
    simp only [List.nil_append, parseParts] at h
    split at h
    · contradiction
    · rename_i st1 ms h1
      split at h
      · contradiction
      · rename_i st2 t rest h2
        simp only [Except.ok.injEq] at h
        subst h
        exact ⟨st, st1, [], ms, rest, hinv, h1, rfl, rfl⟩
  | cons b bs ih =>
    intro p after st total r c hinv h
    simp only [List.cons_append, parseParts] at h
    split at h
    · contradiction
    · rename_i st1 msb1 h1
      split at h
      · contradiction
      · rename_i st2 t rest h2
        simp only [Except.ok.injEq] at h
        subst h
        obtain ⟨_, i1⟩ := parsePart_inv hinv h1
        obtain ⟨stb, st', msb, ms, msa, i, hp, e, l⟩ := ih i1 h2
        exact ⟨stb, st', msb1 :: msb, ms, msa, i, hp, by simpa using e, by simp [l]⟩

theorem parseParts_total {sps : List ScorePartEl} {parts : List PartEl} : ∀ {st : PState} {total : Rat}
    {st' : PState} {t : Rat} {mss : List (List MState)} {c : Ctx},
    Inv st c → parseParts id sps st total parts = .ok (st', t, mss) →
    t = specTotal c total parts ∧ Inv st' (scoreCtx c parts) ∧ mss.length = parts.length := by
  induction parts with
  | nil =>
    intro st total st' t mss c hinv h
    simp only [parseParts, Except.ok.injEq, Prod.mk.injEq] at h
    obtain ⟨rfl, rfl, rfl⟩ := h
    exact ⟨rfl, hinv, rfl⟩
  | cons p ps ih =>
    intro st total st' t mss c hinv h
    simp only [parseParts] at h
    split at h
    · contradiction
    · rename_i st1 ms h1
      split at h
      · contradiction
      · rename_i st2 t2 rest h2
        simp only [Except.ok.injEq, Prod.mk.injEq] at h
        obtain ⟨rfl, rfl, rfl⟩ := h
        obtain ⟨a1, a2⟩ := parsePart_inv hinv h1
        obtain ⟨b1, b2, b3⟩ := ih a2 h2
        refine ⟨?_, b2, by simp [b3]⟩
        rw [b1, a1]; rfl

theorem PState.init_inv : Inv PState.init Ctx.init := ⟨rfl, rfl, by
  simp only [PState.init, Ctx.init, Gen.INIT_SPQ, Gen.INIT_QPM]; norm_num⟩

/-! ### one tempo for the whole score -/

theorem ctxStep_qpm_of_tempoFree {c : Ctx} {e : El} (h : tempoFree e = true) : (ctxStep c e).qpm = c.qpm := by
  cases e with
  | attributes cs =>
    simp only [ctxStep]
    clear h
    induction cs generalizing c with
    | nil => rfl
    | cons a as ih =>
      simp only [List.foldl]
      rw [ih]
      cases a <;> rfl
  | direction ss =>
    simp only [ctxStep]
    simp only [tempoFree, List.all_eq_true, Option.isNone_iff_eq_none] at h
    induction ss generalizing c with
    | nil => rfl
    | cons s ss ih =>
      simp only [List.foldl]
      rw [ih (fun x hx => h x (by simp [hx]))]
      simp [ctxSound, h s (by simp)]
  | _ => rfl

theorem ctxAfter_qpm_of_tempoFree {els : List El} : ∀ {c : Ctx}, (∀ e ∈ els, tempoFree e = true) →
    (ctxAfter c els).qpm = c.qpm := by
  induction els with
  | nil => intro c _; rfl
  | cons e es ih =>
    intro c h
    simp only [ctxAfter, List.foldl]
    have := ih (c := ctxStep c e) (fun x hx => h x (by simp [hx]))
    simp only [ctxAfter] at this
    rw [this, ctxStep_qpm_of_tempoFree (h e (by simp))]

theorem scoreCtx_qpm_of_tempoFree {parts : List PartEl} : ∀ {c : Ctx},
    (∀ q ∈ parts, ∀ e ∈ partEls q, tempoFree e = true) → (scoreCtx c parts).qpm = c.qpm := by
  induction parts with
  | nil => intro c _; rfl
  | cons p ps ih =>
    intro c h
    simp only [scoreCtx, List.foldl]
    have := ih (c := ctxAfter c (partEls p)) (fun q hq => h q (by simp [hq]))
    simp only [scoreCtx] at this
    rw [this, ctxAfter_qpm_of_tempoFree (h p (by simp))]

theorem specCursor_of_still {els : List El} : ∀ {c : Ctx}, (∀ e ∈ els, still e = true) → specCursor c els = 0 := by
  induction els with
  | nil => intro c _; rfl
  | cons e es ih =>
    intro c h
    simp only [specCursor]
    rw [ih (fun x hx => h x (by simp [hx]))]
    have he := h e (by simp)
    cases e <;> simp_all [still, moveOf, secs_zero]

/-! ### harmony -/

theorem offsetSeconds_id {st : PState} {c : Ctx} (h : Inv st c) {o : Int} {sec : Rat}
    (hs : offsetSeconds id st o = .ok sec) : sec = secs c o := by
  unfold offsetSeconds at hs
  split at hs
  · contradiction
  · rename_i hd
    injection hs with hs
    subst hs
    have hd' : (c.div : Rat) ≠ 0 := by rw [← h.div]; exact_mod_cast hd
    simp only [id, secs, h.div, h.spq, Gen.STANDARD_PPQ]
    push_cast
    field_simp

theorem parseHChildren_time {st : PState} {c : Ctx} (hinv : Inv st c) {cs : List HChild} :
    ∀ {h h' : HState}, parseHChildren id st h cs = .ok h' → h'.time = h.time + secs c (offsetSum cs) := by
  induction cs with
  | nil =>
    intro h h' hh
    simp only [parseHChildren, Except.ok.injEq] at hh
    subst hh; simp [offsetSum, secs_zero]
  | cons x xs ih =>
    intro h h' hh
    simp only [parseHChildren] at hh
    split at hh
    · contradiction
    · rename_i h1 hx
      have := ih hh
      rw [this]
      cases x with
      | root s a =>
        simp only [parseHChild] at hx
        split at hx
        · contradiction
        · simp only [Except.ok.injEq] at hx; subst hx; simp [offsetSum]
      | kind t =>
        cases t with
        | none => simp only [parseHChild, Except.ok.injEq] at hx; subst hx; simp [offsetSum]
        | some t =>
          simp only [parseHChild] at hx
          split at hx
          · contradiction
          · simp only [Except.ok.injEq] at hx; subst hx; simp [offsetSum]
      | degree v a t =>
        simp only [parseHChild] at hx
        split at hx
        · contradiction
        · simp only [Except.ok.injEq] at hx; subst hx; simp [offsetSum]
      | bass s a =>
        simp only [parseHChild] at hx
        split at hx
        · contradiction
        · simp only [Except.ok.injEq] at hx; subst hx; simp [offsetSum]
      | offset v =>
        cases v with
        | bad => simp [parseHChild] at hx
        | int o =>
          simp only [parseHChild] at hx
          split at hx
          · contradiction
          · rename_i sec hsec
            simp only [Except.ok.injEq] at hx; subst hx
            simp only [offsetSum, secs_add, id, offsetSeconds_id hinv hsec]; ring

theorem parseHarmony_time {st : PState} {c : Ctx} (hinv : Inv st c) {cs : List HChild} {ch : ChordSym}
    (h : parseHarmony id st cs = .ok ch) : ch.time = st.tp + secs c (offsetSum cs) := by
  unfold parseHarmony at h
  split at h
  · contradiction
  · rename_i hs hh
    have := parseHChildren_time hinv hh
    split at h
    · simp only [Except.ok.injEq] at h; subst h; exact this
    · split at h
      · contradiction
      · simp only [Except.ok.injEq] at h; subst h; exact this

theorem alterStrings_spec (i : Int) : Gen.alterStrings.lookup i = specAcc i := by
  unfold specAcc
  split
  · decide
  · decide
  · decide
  · decide
  · decide
  · rename_i h1 h2 h3 h4 h5
    simp only [Gen.alterStrings, List.lookup]
    have e1 : (i == -2) = false := by simpa using h1
    have e2 : (i == -1) = false := by simpa using h2
    have e3 : (i == 0) = false := by simpa using h3
    have e4 : (i == 1) = false := by simpa using h4
    have e5 : (i == 2) = false := by simpa using h5
    simp [e1, e2, e3, e4, e5]

theorem accOf_none {acc : String} (h : accOf none = some acc) : acc = "" := by
  simp only [accOf, Option.getD, specAcc, Option.some.injEq] at h
  exact h.symm

theorem parseHPitch_spec (st : PState) (ht : st.transpose = 0) (s : String) (a : Option Int) (acc : String)
    (h : accOf a = some acc) : parseHPitch st (some s) (a.map .int) = .ok (s ++ acc) := by
  unfold parseHPitch
  cases a with
  | none => rw [accOf_none h]; simp [ht]
  | some i =>
    simp only [accOf, Option.getD_some] at h
    simp [alterToString, alterStrings_spec, h, ht]

theorem parseDegree_spec (v : Int) (a : Option Int) (ty : DegType) (acc : String) (h : accOf a = some acc)
    (halt : ty = .alter → acc ≠ "") :
    parseDegree (some v) (a.map .int) (some ty.text) = .ok (specDegree ty acc v) := by
  unfold parseDegree
  have h1 : ("alter" = "add") = False := by decide
  have h2 : ("alter" = "subtract") = False := by decide
  have h3 : ("subtract" = "add") = False := by decide
  cases a with
  | none =>
    rw [accOf_none h] at halt ⊢
    cases ty with
    | add => simp [DegType.text, specDegree]
    | subtract => simp [DegType.text, specDegree, h3]
    | alter => exact absurd rfl (halt rfl)
  | some i =>
    simp only [accOf, Option.getD_some] at h
    cases ty with
    | add => simp [DegType.text, specDegree, alterToString, alterStrings_spec, h]
    | subtract => simp [DegType.text, specDegree, alterToString, alterStrings_spec, h, h3]
    | alter => simp [DegType.text, specDegree, alterToString, alterStrings_spec, h, h1, h2, halt rfl]

theorem parseHChildren_degrees (R : Rat → Rat) (st : PState) : ∀ (ds : List DegSpec) (texts : List String) (h : HState),
    ds.mapM DegSpec.text = some texts →
    parseHChildren R st h (ds.map DegSpec.child) = .ok { h with degrees := h.degrees ++ texts } := by
  intro ds
  induction ds with
  | nil =>
    intro texts h hm
    simp only [List.mapM_nil, Option.pure_def, Option.some.injEq] at hm
    subst hm
    simp [parseHChildren]
  | cons d ds ih =>
    intro texts h hm
    simp only [List.mapM_cons, Option.pure_def, Option.bind_eq_bind] at hm
    cases hd : d.text with
    | none => simp [hd] at hm
    | some t =>
      cases hr : ds.mapM DegSpec.text with
      | none => simp [hd, hr] at hm
      | some ts =>
        simp only [hd, hr, Option.bind_some, Option.some.injEq] at hm
        subst hm
        simp only [List.map_cons, parseHChildren, DegSpec.child, parseHChild]
        unfold DegSpec.text at hd
        split at hd
        · contradiction
        · rename_i acc hacc
          split at hd
          · contradiction
          · rename_i hne
            simp only [Option.some.injEq] at hd
            subst hd
            rw [parseDegree_spec d.value d.alter d.type acc hacc (fun h1 h2 => hne ⟨h1, h2⟩)]
            simp only []
            have := ih ts { h with degrees := h.degrees ++ [specDegree d.type acc d.value] } hr
            rw [this]
            simp

theorem parseHarmony_spec (R : Rat → Rat) (st : PState) (ht : st.transpose = 0) (h : HarmonySpec)
    (racc abbr : String) (texts : List String)
    (hr : accOf h.rootAlter = some racc)
    (hk : Gen.chordKindAbbreviations.lookup h.kind = some abbr) (hnc : abbr ≠ "N.C.")
    (hd : h.degrees.mapM DegSpec.text = some texts)
    (bassText : Option String)
    (hb : match h.bass with
          | none => bassText = none
          | some (s, a) => ∃ bacc, accOf a = some bacc ∧ bassText = some (s ++ bacc) ∧ s ++ bacc ≠ "") :
    parseHarmony R st h.children =
      .ok ⟨st.tp, specFigure (h.rootStep ++ racc) abbr texts bassText⟩ := by
  unfold parseHarmony HarmonySpec.children
  simp only [parseHChildren, parseHChild, parseHPitch_spec st ht h.rootStep h.rootAlter racc hr, hk]
  cases hbass : h.bass with
  | none =>
    simp only [hbass] at hb
    subst hb
    simp only [List.nil_append]
    rw [parseHChildren_degrees R st h.degrees texts _ hd]
    simp [hnc, figureOf, specFigure]
  | some sa =>
    obtain ⟨s, a⟩ := sa
    simp only [hbass] at hb
    obtain ⟨bacc, hb1, hb2, hb3⟩ := hb
    subst hb2
    simp only [List.cons_append, List.nil_append, parseHChildren, parseHChild,
      parseHPitch_spec st ht s a bacc hb1]
    rw [parseHChildren_degrees R st h.degrees texts _ hd]
    simp [hnc, figureOf, specFigure, hb3]

/-! ### note attributes -/

theorem parseNote_attrs {R : Rat → Rat} {st : PState} {n : NoteEl} {st' : PState} {pn : PNote}
    (h : parseNote R st n = .ok (st', pn)) :
    pn.voice = n.voice.getD 1 ∧ pn.channel = st.channel ∧ pn.program = st.program ∧
    pn.velocity = st.velocity ∧ pn.isRest = (n.kind == .rest) ∧ pn.dots = n.dots ∧
    (∀ s a o, n.kind = .pitched s a o → ∃ p, pitchToMidi s a o = .ok p ∧ pn.pitch = p + st.transpose) ∧
    (match n.type with
     | none => pn.type = "quarter"
     | some t => pn.type = t ∧ (lookupType t).isSome) ∧
    (match n.tuplet with
     | none => pn.tuplet = 1
     | some (a, b) => b ≠ 0 ∧ pn.tuplet = pyFraction a b) := by
  unfold parseNote at h
  simp only [] at h
  split at h
  · contradiction
  · rename_i pitch hp
    split at h
    · contradiction
    · split at h
      · contradiction
      · rename_i ty hty
        split at h
        · contradiction
        · rename_i tup htup
          simp only [Except.ok.injEq, Prod.mk.injEq] at h
          obtain ⟨_, rfl⟩ := h
          refine ⟨rfl, rfl, rfl, rfl, rfl, rfl, ?_, ?_, ?_⟩
          · intro s a o hk
            simp only [hk] at hp
            split at hp
            · rename_i p hpm
              simp only [Except.ok.injEq] at hp
              exact ⟨p, hpm, hp.symm⟩
            · contradiction
          · cases hnt : n.type with
            | none => simp only [hnt, Except.ok.injEq] at hty; exact hty.symm
            | some t =>
              simp only [hnt] at hty
              split at hty
              · rename_i hl
                simp only [Except.ok.injEq] at hty
                exact ⟨hty.symm, hl⟩
              · contradiction
          · cases hnt : n.tuplet with
            | none => simp only [hnt, Except.ok.injEq] at htup; exact htup.symm
            | some ab =>
              obtain ⟨a, b⟩ := ab
              simp only [hnt] at htup
              split at htup
              · contradiction
              · rename_i hb
                simp only [Except.ok.injEq] at htup
                exact ⟨hb, htup.symm⟩

theorem dotSum_closed (r : Rat) (k : Nat) : r + dotSum r k = r * (2 - (1 / 2 : Rat) ^ k) := by
  induction k with
  | zero => simp [dotSum]; ring
  | succ k ih =>
    simp only [dotSum]
    rw [← add_assoc, ih, pow_succ]
    ring

theorem durationRatio_spec (n : PNote) (tr : Rat) (ht : lookupType n.type = some tr) (htup : n.tuplet ≠ 0)
    (hg : n.grace = false) : durationRatio n = .ok (specRatio tr n.tuplet n.dots) := by
  unfold durationRatio
  simp only [ht, htup, hg, if_false, Bool.false_eq_true]
  rw [dotSum_closed]
  rfl

theorem readerNote_fields {R : Rat → Rat} {part : Nat} {n : PNote} {x : Note}
    (h : readerNote R part n = .ok x) :
    x.pitch = n.pitch ∧ x.velocity = n.velocity ∧ x.instrument = n.channel ∧ x.program = n.program ∧
    x.voice = n.voice ∧ x.part = part ∧ x.start = (if n.time < 0 then 0 else n.time) ∧
    x.end_ = R (x.start + n.seconds) ∧
    ∃ r, durationRatio n = .ok r ∧ x.numerator = r.num ∧ x.denominator = r.den := by
  unfold readerNote at h
  split at h
  · contradiction
  · rename_i r hr
    simp only [Except.ok.injEq] at h
    subst h
    exact ⟨rfl, rfl, rfl, rfl, rfl, rfl, rfl, rfl, r, hr, rfl, rfl⟩

theorem readerNotes_spec {R : Rat → Rat} {part : Nat} {ns : List PNote} : ∀ {out : List Note},
    readerNotes R part ns = .ok out →
    List.Forall₂ (fun pn x => readerNote R part pn = .ok x) (ns.filter (fun n => !n.isRest)) out := by
  induction ns with
  | nil =>
    intro out h
    simp only [readerNotes, Except.ok.injEq] at h
    subst h; simp
  | cons n ns ih =>
    intro out h
    simp only [readerNotes] at h
    split at h
    · rename_i hr
      simp only [List.filter, hr, Bool.not_true]
      exact ih h
    · rename_i hr
      split at h
      · contradiction
      · rename_i x hx
        split at h
        · contradiction
        · rename_i r hrest
          simp only [Except.ok.injEq] at h
          subst h
          have hr' : n.isRest = false := by simpa using hr
          simp only [List.filter, hr', Bool.not_false]
          exact List.Forall₂.cons hx (ih hrest)

theorem parseEls_channel {R : Rat → Rat} {els : List El} : ∀ {st : PState} {m : MState} {st' : PState}
    {m' : MState}, parseEls R st m els = .ok (st', m') →
    (∀ pn ∈ m.notes, pn.channel = st.channel ∧ pn.program = st.program) →
    (∀ pn ∈ m'.notes, pn.channel = st.channel ∧ pn.program = st.program) := by
  induction els with
  | nil =>
    intro st m st' m' h hm
    simp only [parseEls, Except.ok.injEq, Prod.mk.injEq] at h
    obtain ⟨rfl, rfl⟩ := h
    exact hm
  | cons e es ih =>
    intro st m st' m' h hm
    simp only [parseEls] at h
    split at h
    · contradiction
    · rename_i st1 m1 h1
      obtain ⟨a1, a2, a3⟩ := parseEl_out h1
      have hm1 : ∀ pn ∈ m1.notes, pn.channel = st1.channel ∧ pn.program = st1.program := by
        rw [a1, a2]
        cases e with
        | note n =>
          obtain ⟨_, pn, hn, c1, _⟩ := a3
          rw [c1]
          intro x hx
          rcases List.mem_append.mp hx with hx | hx
          · exact hm x hx
          · simp only [List.mem_singleton] at hx
            subst hx
            obtain ⟨_, b2, b3, _⟩ := parseNote_attrs hn
            exact ⟨b2, b3⟩
        | harmony _ => obtain ⟨_, _, _, c1, _⟩ := a3; rw [c1]; exact hm
        | direction _ => obtain ⟨c1, _⟩ := a3; rw [c1]; exact hm
        | attributes _ => obtain ⟨c1, _⟩ := a3; rw [c1]; exact hm
        | backup _ => obtain ⟨c1, _⟩ := a3; rw [c1]; exact hm
        | forward _ => obtain ⟨c1, _⟩ := a3; rw [c1]; exact hm
        | other => obtain ⟨c1, _⟩ := a3; rw [c1]; exact hm
      have := ih h hm1
      rw [a1, a2] at this
      exact this

theorem parseMeasures_channel {R : Rat → Rat} {mss : List (List El)} : ∀ {st : PState} {st' : PState}
    {ms : List MState}, parseMeasures R st mss = .ok (st', ms) →
    ∀ m ∈ ms, ∀ pn ∈ m.notes, pn.channel = st.channel ∧ pn.program = st.program := by
  induction mss with
  | nil =>
    intro st st' ms h
    simp only [parseMeasures, Except.ok.injEq, Prod.mk.injEq] at h
    obtain ⟨_, rfl⟩ := h
    simp
  | cons els rest ih =>
    intro st st' ms h
    simp only [parseMeasures] at h
    split at h
    · contradiction
    · rename_i st1 m1 h1
      split at h
      · contradiction
      · rename_i st2 ms2 h2
        simp only [Except.ok.injEq, Prod.mk.injEq] at h
        obtain ⟨_, rfl⟩ := h
        unfold parseMeasure at h1
        split at h1
        · contradiction
        · rename_i sta ma ha
          obtain ⟨_, _, _, _, f5, f6, _, f8, _⟩ := fixTimeSignature_frame h1
          obtain ⟨b1, b2, _⟩ := parseEls_out ha
          have hch := parseEls_channel ha (by simp)
          intro m hm
          rcases List.mem_cons.mp hm with rfl | hm
          · rw [f8]; exact hch
          · have := ih h2 m hm
            rw [f5, f6, b1, b2] at this
            exact this

/-! ### time signatures of complete measures -/

theorem pyFraction_eq {n₁ d₁ n₂ d₂ : Int} (h1 : 0 < d₁) (h2 : 0 < d₂) (h : n₁ * d₂ = n₂ * d₁) :
    pyFraction n₁ d₁ = pyFraction n₂ d₂ := by
  unfold pyFraction
  rw [if_neg (by omega), if_neg (by omega), Rat.mkRat_eq_iff (by omega) (by omega)]
  rw [Int.natAbs_of_nonneg (by omega), Int.natAbs_of_nonneg (by omega)]
  exact h

theorem fixTimeSignature_complete (st : PState) (m : MState) (start : Rat) (g : TSig) (b : Int)
    (hts : st.ts = some g) (hnum : 0 ≤ g.num) (hden : 0 < g.den) (hb : 0 < b)
    (hbeat : st.divisions * 4 = b * g.den) (hfull : m.duration = g.num * b) :
    fixTimeSignature st m start = .ok (st, m) := by
  have hdiv : 0 < st.divisions * 4 := by rw [hbeat]; exact Int.mul_pos hb hden
  have heq : pyFraction m.duration (st.divisions * 4) = pyFraction g.num g.den := by
    apply pyFraction_eq hdiv hden
    rw [hfull, hbeat]; ring
  have hpick : ¬ (m.duration < g.num) := by
    rw [hfull]
    have : g.num * 1 ≤ g.num * b := Int.mul_le_mul_of_nonneg_left (by omega) hnum
    omega
  unfold fixTimeSignature
  simp only [hts]
  rw [if_neg (by omega), if_neg (by omega)]
  simp only [heq, hpick, decide_false, ne_eq, not_true_eq_false, and_false, or_false,
    Bool.false_eq_true, if_false]

/-! ### de-duplication in the `get_*` functions -/

theorem mem_dedup {α} [DecidableEq α] (l : List α) : ∀ (acc : List α) (x : α),
    x ∈ dedup acc l ↔ x ∈ acc ∨ x ∈ l := by
  induction l with
  | nil => intro acc x; simp [dedup]
  | cons y ys ih =>
    intro acc x
    simp only [dedup]
    split
    · rename_i hy
      rw [ih]
      constructor
      · rintro (h | h)
        · exact Or.inl h
        · exact Or.inr (by simp [h])
      · rintro (h | h)
        · exact Or.inl h
        · rcases List.mem_cons.mp h with rfl | h
          · exact Or.inl hy
          · exact Or.inr h
    · rw [ih]
      simp only [List.mem_append, List.mem_cons]
      tauto

theorem nodup_dedup {α} [DecidableEq α] (l : List α) : ∀ (acc : List α), acc.Nodup → (dedup acc l).Nodup := by
  induction l with
  | nil => intro acc h; simpa [dedup] using h
  | cons y ys ih =>
    intro acc h
    simp only [dedup]
    split
    · exact ih acc h
    · rename_i hy
      apply ih
      rw [List.nodup_append]
      refine ⟨h, by simp, ?_⟩
      intro a ha b hb
      simp only [List.mem_singleton] at hb
      subst hb
      intro hab; subst hab; exact hy ha

/-! ### tempo marks -/

theorem parseSounds_tempos (R : Rat → Rat) (ss : List Sound) : ∀ (st : PState) (m : MState),
    (parseSounds R st m ss).2.tempos = m.tempos ++
      ss.filterMap (fun s => s.tempo.map (fun q => ⟨st.tp, if q = 0 then Gen.DEFAULT_QPM else q⟩)) := by
  induction ss with
  | nil => intro st m; simp [parseSounds]
  | cons s ss ih =>
    intro st m
    simp only [parseSounds]
    rw [ih]
    obtain ⟨_, _, _, _, _, htp, _⟩ := parseSound_frame R st m s
    rw [htp]
    cases ht : s.tempo with
    | none => simp [parseSound, ht, List.filterMap]
    | some q =>
      cases hd : s.dynamics <;> simp [parseSound, ht, hd, List.filterMap]

/-! ### chords: the onset is COPIED, for every rounding operator -/

/-- an element that may stand between the first note of a chord and one of its later notes without
breaking the chain `previous_note`: anything that is not a note, or a `<chord/>` note with a `<duration>` -/
def chordRun : El → Bool
  | .note n => n.chord && n.duration.isSome
  | _ => true

/-- additionally nothing that changes divisions or tempo (so the chord notes also LAST as long) -/
def noRetime : El → Bool
  | .attributes _ => false
  | .direction _ => false
  | _ => true

/-- `parseNote` on a `<chord/>` note with a duration, any `R`: onset and duration are those of
`previous_note`, literally; the state is untouched; the length is `secondsOf` of the copied duration -/
theorem parseNote_chord {R : Rat → Rat} {st : PState} {n : NoteEl} {st' : PState} {pn : PNote}
    (h : parseNote R st n = .ok (st', pn)) (hc : n.chord = true) (hd : n.duration.isSome = true) :
    ∃ pd pt, st.prev = some (pd, pt) ∧ pn.time = pt ∧ pn.duration = pd ∧ st' = st ∧
      secondsOf R st pd = .ok pn.seconds := by
  unfold parseNote at h
  simp only [] at h
  split at h
  · contradiction
  · split at h
    · contradiction
    · rename_i st1 dur time sec grace hdur
      split at h
      · contradiction
      · split at h
        · contradiction
        · simp only [Except.ok.injEq, Prod.mk.injEq] at h
          obtain ⟨rfl, rfl⟩ := h
          cases hdd : n.duration with
          | none => simp [hdd] at hd
          | some d0 =>
            simp only [hdd, hc, if_true] at hdur
            split at hdur
            · contradiction
            · rename_i pd pt hprev
              split at hdur
              · contradiction
              · rename_i sec' hsec
                simp only [Except.ok.injEq, Prod.mk.injEq] at hdur
                obtain ⟨rfl, rfl, rfl, rfl, rfl⟩ := hdur
                exact ⟨pd, pt, hprev, rfl, rfl, rfl, hsec⟩

/-- `secondsOf` reads only divisions and seconds-per-quarter of the state -/
theorem secondsOf_congr (R : Rat → Rat) {a b : PState} (hd : a.divisions = b.divisions) (hs : a.spq = b.spq)
    (d : Int) : secondsOf R a d = secondsOf R b d := by
  unfold secondsOf
  rw [hd, hs]

/-- elements other than `<attributes>` and `<direction>` leave divisions and seconds-per-quarter alone -/
theorem parseEl_noRetime {R : Rat → Rat} {st : PState} {m : MState} {e : El} {st' : PState} {m' : MState}
    (h : parseEl R st m e = .ok (st', m')) (hn : noRetime e = true) :
    st'.divisions = st.divisions ∧ st'.spq = st.spq := by
  cases e with
  | attributes cs => simp [noRetime] at hn
  | direction ss => simp [noRetime] at hn
  | backup d =>
    simp only [parseEl] at h
    split at h
    · contradiction
    · simp only [Except.ok.injEq, Prod.mk.injEq] at h
      obtain ⟨rfl, rfl⟩ := h
      exact ⟨rfl, rfl⟩
  | forward d =>
    simp only [parseEl] at h
    split at h
    · contradiction
    · simp only [Except.ok.injEq, Prod.mk.injEq] at h
      obtain ⟨rfl, rfl⟩ := h
      exact ⟨rfl, rfl⟩
  | harmony cs =>
    simp only [parseEl] at h
    split at h
    · contradiction
    · simp only [Except.ok.injEq, Prod.mk.injEq] at h
      obtain ⟨rfl, rfl⟩ := h
      exact ⟨rfl, rfl⟩
  | other =>
    simp only [parseEl, Except.ok.injEq, Prod.mk.injEq] at h
    obtain ⟨rfl, rfl⟩ := h
    exact ⟨rfl, rfl⟩
  | note n =>
    simp only [parseEl] at h
    split at h
    · contradiction
    · rename_i st1 pn hn1
      simp only [Except.ok.injEq, Prod.mk.injEq] at h
      obtain ⟨rfl, rfl⟩ := h
      show st1.divisions = st.divisions ∧ st1.spq = st.spq
      unfold parseNote at hn1
      simp only [] at hn1
      split at hn1
      · contradiction
      · split at hn1
        · contradiction
        · rename_i st2 dur time sec grace hdur
          split at hn1
          · contradiction
          · split at hn1
            · contradiction
            · simp only [Except.ok.injEq, Prod.mk.injEq] at hn1
              obtain ⟨rfl, _⟩ := hn1
              split at hdur
              · simp only [Except.ok.injEq, Prod.mk.injEq] at hdur
                obtain ⟨rfl, _⟩ := hdur
                exact ⟨rfl, rfl⟩
              · split at hdur
                · split at hdur
                  · contradiction
                  · split at hdur
                    · contradiction
                    · simp only [Except.ok.injEq, Prod.mk.injEq] at hdur
                      obtain ⟨rfl, _⟩ := hdur
                      exact ⟨rfl, rfl⟩
                · split at hdur
                  · contradiction
                  · simp only [Except.ok.injEq, Prod.mk.injEq] at hdur
                    obtain ⟨rfl, _⟩ := hdur
                    exact ⟨rfl, rfl⟩

/-- a run of chord notes (and non-note elements) after a note: `previous_note` keeps the onset and the
duration of that note, and every note the run appends carries them, literally, for every `R`; when the run
does not change divisions or tempo every appended note has the length `secondsOf` gives that duration in the
state the run started in -/
theorem parseEls_chordRun {R : Rat → Rat} {mid : List El} : ∀ {st : PState} {m : MState} {st' : PState}
    {m' : MState} {pd : Int} {pt : Rat}, st.prev = some (pd, pt) → (∀ e ∈ mid, chordRun e = true) →
    parseEls R st m mid = .ok (st', m') →
    st'.prev = some (pd, pt) ∧
    ∃ ch, m'.notes = m.notes ++ ch ∧ ch.length = (mid.filter isNote).length ∧
      (∀ pn ∈ ch, pn.time = pt ∧ pn.duration = pd) ∧
      ((∀ e ∈ mid, noRetime e = true) →
        st'.divisions = st.divisions ∧ st'.spq = st.spq ∧ ∀ pn ∈ ch, secondsOf R st pd = .ok pn.seconds) := by
  induction mid with
  | nil =>
    intro st m st' m' pd pt hp _ h
    simp only [parseEls, Except.ok.injEq, Prod.mk.injEq] at h
    obtain ⟨rfl, rfl⟩ := h
    exact ⟨hp, [], by simp, by simp, by simp, fun _ => ⟨rfl, rfl, by simp⟩⟩
  | cons e es ih =>
    intro st m st' m' pd pt hp hall h
    simp only [parseEls] at h
    split at h
    · contradiction
    · rename_i st1 m1 h1
      have he : chordRun e = true := hall e (by simp)
      have hes : ∀ x ∈ es, chordRun x = true := fun x hx => hall x (by simp [hx])
      obtain ⟨_, _, hout⟩ := parseEl_out h1
      -- the previous-note register after `e`, and what `e` appended
      have key : st1.prev = some (pd, pt) ∧ ∃ c1, m1.notes = m.notes ++ c1 ∧
          c1.length = ([e].filter isNote).length ∧ (∀ pn ∈ c1, pn.time = pt ∧ pn.duration = pd) ∧
          (noRetime e = true → ∀ pn ∈ c1, secondsOf R st pd = .ok pn.seconds) := by
        cases e with
        | note n =>
          simp only [chordRun, Bool.and_eq_true] at he
          obtain ⟨st2, pn, hn, e1, e2, _, _⟩ := hout
          obtain ⟨pd', pt', hp', a, b, _, hs⟩ := parseNote_chord hn he.1 he.2
          rw [hp] at hp'
          simp only [Option.some.injEq, Prod.mk.injEq] at hp'
          obtain ⟨rfl, rfl⟩ := hp'
          refine ⟨by rw [e2, a, b], [pn], e1, by simp [List.filter, isNote], by simp [a, b], ?_⟩
          intro _ x hx
          simp only [List.mem_singleton] at hx
          subst hx
          exact hs
        | harmony cs =>
          obtain ⟨_, _, _, c2, _, c4⟩ := hout
          exact ⟨by rw [c4, hp], [], by simp [c2], by simp [List.filter, isNote], by simp, by simp⟩
        | direction ss =>
          obtain ⟨c1, _, c3, _⟩ := hout
          exact ⟨by rw [c3, hp], [], by simp [c1], by simp [List.filter, isNote], by simp, by simp⟩
        | attributes _ =>
          obtain ⟨c1, _, _, c4⟩ := hout
          exact ⟨by rw [c4, hp], [], by simp [c1], by simp [List.filter, isNote], by simp, by simp⟩
        | backup _ =>
          obtain ⟨c1, _, _, c4⟩ := hout
          exact ⟨by rw [c4, hp], [], by simp [c1], by simp [List.filter, isNote], by simp, by simp⟩
        | forward _ =>
          obtain ⟨c1, _, _, c4⟩ := hout
          exact ⟨by rw [c4, hp], [], by simp [c1], by simp [List.filter, isNote], by simp, by simp⟩
        | other =>
          obtain ⟨c1, _, _, c4⟩ := hout
          exact ⟨by rw [c4, hp], [], by simp [c1], by simp [List.filter, isNote], by simp, by simp⟩
      obtain ⟨hp1, c1, k1, k2, k3, k4⟩ := key
      obtain ⟨r1, c2, r2, r3, r4, r5⟩ := ih hp1 hes h
      refine ⟨r1, c1 ++ c2, by rw [r2, k1, List.append_assoc], ?_, ?_, ?_⟩
      · rw [List.length_append, k2, r3, ← List.length_append, ← List.filter_append]
        rfl
      · intro pn hpn
        rcases List.mem_append.mp hpn with hx | hx
        · exact k3 pn hx
        · exact r4 pn hx
      · intro hnr
        have hne : noRetime e = true := hnr e (by simp)
        obtain ⟨d1, d2⟩ := parseEl_noRetime h1 hne
        obtain ⟨d3, d4, d5⟩ := r5 (fun x hx => hnr x (by simp [hx]))
        refine ⟨d3.trans d1, d4.trans d2, ?_⟩
        intro pn hpn
        rcases List.mem_append.mp hpn with hx | hx
        · exact k4 hne pn hx
        · rw [← secondsOf_congr R d1 d2]
          exact d5 pn hx
end NSV.C05
