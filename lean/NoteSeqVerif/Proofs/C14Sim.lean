import NoteSeqVerif.Proofs.C14Basic
/-! C14 — layer 1 of the proof of `sustain_spec`: the concrete event loop (heap, active lists,
pedal flags) simulates, for every note `j` separately, a small automaton `astep j` whose state is
"is `j` in its instrument's active list / where does `j` end now / is `j`'s pedal down / how was
`j` closed".  Layer 2 (`C14Abs`) evaluates that automaton over the sorted event list. -/
set_option linter.unusedSimpArgs false
namespace NSV.C14
open Gen

theorem typ_distinct : SUSTAIN_ON ≠ SUSTAIN_OFF ∧ SUSTAIN_ON ≠ NOTE_ON ∧ SUSTAIN_ON ≠ NOTE_OFF ∧
    SUSTAIN_OFF ≠ NOTE_ON ∧ SUSTAIN_OFF ≠ NOTE_OFF ∧ NOTE_ON ≠ NOTE_OFF := by decide

inductive Tag where
  | none | byPed | byStrike
deriving DecidableEq

/-- per-note abstract state -/
structure Abs where
  act : Bool      -- the note is in its instrument's active list
  e : Rat         -- current end time of the note object
  ped : Bool      -- pedal flag of the note's instrument
  tag : Tag       -- how the note was taken out of the active list with a new end (ghost)

/-- the per-note automaton -/
def astep {n} (notes : Fin n → Note) (j : Fin n) (a : Abs) (ev : Ev n) : Abs :=
  match ev.obj with
  | .cc c =>
    if c.instrument = (notes j).instrument then
      if ev.typ = SUSTAIN_ON then { a with ped := true }
      else if ev.typ = SUSTAIN_OFF then
        if a.act = true ∧ a.e < ev.time then { act := false, e := ev.time, ped := false, tag := .byPed }
        else { a with ped := false }
      else a
    else a
  | .note k =>
    if ev.typ = NOTE_ON then
      if k = j then { a with act := true }
      else if (notes k).instrument = (notes j).instrument ∧ (notes k).pitch = (notes j).pitch ∧
          a.ped = true ∧ a.act = true then { a with act := false, e := ev.time, tag := .byStrike }
      else a
    else if ev.typ = NOTE_OFF then
      if k = j ∧ a.ped = false then { a with act := false } else a
    else a

/-- events as `sortedEvents` produces them -/
def EvOK {n} (notes : Fin n → Note) (ev : Ev n) : Prop :=
  match ev.obj with
  | .cc _ => ev.typ = SUSTAIN_ON ∨ ev.typ = SUSTAIN_OFF
  | .note k => (notes k).isDrum = false ∧
      ((ev.typ = NOTE_ON ∧ ev.time = (notes k).start) ∨ (ev.typ = NOTE_OFF ∧ ev.time = (notes k).end_))

/-- identities of the notes whose `_NOTE_ON` event is in the list -/
def onIds {n} (l : List (Ev n)) : List (Fin n) :=
  l.filterMap (fun ev => if ev.typ = NOTE_ON then
    (match ev.obj with | .note k => some k | .cc _ => none) else none)

structure Sim {n} (notes : Fin n → Note) (T0 : Rat) (st : St n) (a : Fin n → Abs)
    (rest : List (Ev n)) : Prop where
  act_iff : ∀ j, (notes j).isDrum = false →
    ((a j).act = true ↔ j ∈ dget st.active (notes j).instrument [])
  e_eq : ∀ j, (notes j).isDrum = false → (st.store j).end_ = (a j).e
  ped_eq : ∀ j, (notes j).isDrum = false → dget st.sus (notes j).instrument false = (a j).ped
  act_mem : ∀ k, ∀ j ∈ dget st.active k [], (notes j).isDrum = false ∧ (notes j).instrument = k
  act_nodup : ∀ k, (dget st.active k []).Nodup
  store_eq : ∀ j, st.store j = setEnd (notes j) (st.store j).end_
  drum_eq : ∀ j, (notes j).isDrum = true → st.store j = notes j
  seq_eq : st.seq = List.finRange n
  pending : ∀ j, (a j).act = true ∨ (a j).tag ≠ .none → j ∉ onIds rest
  closed : ∀ j, (a j).tag ≠ .none → (a j).act = false
  keys : (st.active.map (·.1)).Nodup
  tot_ge : T0 ≤ st.total
  tot_wit : st.total = T0 ∨ ∃ j, (notes j).isDrum = false ∧ (a j).tag = .byPed ∧ (a j).e = st.total
  tot_cov : ∀ j, (notes j).isDrum = false → (a j).tag = .byPed → (a j).e ≤ st.total

/-- distinct pitched notes of one pitch on one instrument start at different times -/
def DistinctStarts {n} (notes : Fin n → Note) : Prop :=
  ∀ i j, i ≠ j → (notes i).isDrum = false → (notes j).isDrum = false →
    (notes i).instrument = (notes j).instrument → (notes i).pitch = (notes j).pitch →
    (notes i).start ≠ (notes j).start

section steps
variable {n : Nat} {notes : Fin n → Note} {T0 : Rat}

theorem store_pitch {st : St n} {a rest} (hs : Sim notes T0 st a rest) (j : Fin n) :
    (st.store j).pitch = (notes j).pitch := by rw [hs.store_eq j]; rfl
theorem store_start {st : St n} {a rest} (hs : Sim notes T0 st a rest) (j : Fin n) :
    (st.store j).start = (notes j).start := by rw [hs.store_eq j]; rfl
theorem store_inst {st : St n} {a rest} (hs : Sim notes T0 st a rest) (j : Fin n) :
    (st.store j).instrument = (notes j).instrument := by rw [hs.store_eq j]; rfl

theorem onIds_cons_other (ev : Ev n) (rest : List (Ev n)) (h : ev.typ ≠ NOTE_ON) :
    onIds (ev :: rest) = onIds rest := by
  simp [onIds, h]

theorem onIds_cons_on (t : Rat) (k : Fin n) (rest : List (Ev n)) :
    onIds (⟨t, NOTE_ON, .note k⟩ :: rest) = k :: onIds rest := by
  simp [onIds]

/-- `_SUSTAIN_ON` -/
theorem sim_susOn {st : St n} {a : Fin n → Abs} {rest : List (Ev n)} (t : Rat) (c : CC)
    (hs : Sim notes T0 st a (⟨t, SUSTAIN_ON, .cc c⟩ :: rest)) :
    ∃ st', step st ⟨t, SUSTAIN_ON, .cc c⟩ = .ok st' ∧ st'.time = t ∧
      Sim notes T0 st' (fun j => astep notes j (a j) ⟨t, SUSTAIN_ON, .cc c⟩) rest := by
  refine ⟨{ st with time := t, sus := dset st.sus c.instrument true }, by simp [step, objInst], rfl, ?_⟩
  have hA : ∀ j, astep notes j (a j) ⟨t, SUSTAIN_ON, .cc c⟩ =
      if c.instrument = (notes j).instrument then { a j with ped := true } else a j := by
    intro j; simp [astep]
  have hact : ∀ j, (astep notes j (a j) ⟨t, SUSTAIN_ON, .cc c⟩).act = (a j).act := by
    intro j; rw [hA]; split <;> rfl
  have he : ∀ j, (astep notes j (a j) ⟨t, SUSTAIN_ON, .cc c⟩).e = (a j).e := by
    intro j; rw [hA]; split <;> rfl
  have htag : ∀ j, (astep notes j (a j) ⟨t, SUSTAIN_ON, .cc c⟩).tag = (a j).tag := by
    intro j; rw [hA]; split <;> rfl
  have hrest : onIds (⟨t, SUSTAIN_ON, .cc c⟩ :: rest) = onIds rest :=
    onIds_cons_other _ _ typ_distinct.2.1
  constructor
  · intro j hj; simp only [hact]; exact hs.act_iff j hj
  · intro j hj; simp only [he]; exact hs.e_eq j hj
  · intro j hj
    simp only [dget_dset, hA]
    have := hs.ped_eq j hj
    by_cases h : c.instrument = (notes j).instrument
    · simp [h]
    · have h' : ¬ (notes j).instrument = c.instrument := fun e => h e.symm
      simp [h, h', this]
  · exact hs.act_mem
  · exact hs.act_nodup
  · exact hs.store_eq
  · exact hs.drum_eq
  · exact hs.seq_eq
  · intro j hj; simp only [hact, htag] at hj; rw [← hrest]; exact hs.pending j hj
  · intro j hj; simp only [hact, htag] at hj ⊢; exact hs.closed j hj
  · exact hs.keys
  · exact hs.tot_ge
  · simp only [he, htag]; exact hs.tot_wit
  · intro j hj; simp only [he, htag]; exact hs.tot_cov j hj

/-- `_SUSTAIN_OFF` -/
theorem sim_susOff {st : St n} {a : Fin n → Abs} {rest : List (Ev n)} (t : Rat) (c : CC)
    (hs : Sim notes T0 st a (⟨t, SUSTAIN_OFF, .cc c⟩ :: rest)) :
    ∃ st', step st ⟨t, SUSTAIN_OFF, .cc c⟩ = .ok st' ∧ st'.time = t ∧
      Sim notes T0 st' (fun j => astep notes j (a j) ⟨t, SUSTAIN_OFF, .cc c⟩) rest := by
  obtain ⟨hr1, hr2, hr3⟩ := offLoop_spec t (dget st.active c.instrument []) st.store st.total
    (hs.act_nodup c.instrument)
  generalize hr : offLoop t (dget st.active c.instrument []) st.store st.total = r at hr1 hr2 hr3
  refine ⟨{ st with time := t, sus := dset st.sus c.instrument false, store := r.1, total := r.2.1,
                    active := dset st.active c.instrument r.2.2 }, ?_, rfl, ?_⟩
  · have := typ_distinct.1
    simp [step, objInst, hr, Ne.symm this]
  have hA : ∀ j, astep notes j (a j) ⟨t, SUSTAIN_OFF, .cc c⟩ =
      if c.instrument = (notes j).instrument then
        (if (a j).act = true ∧ (a j).e < t then { act := false, e := t, ped := false, tag := .byPed }
         else { a j with ped := false })
      else a j := by
    intro j; simp [astep, Ne.symm typ_distinct.1]
  have hrest : onIds (⟨t, SUSTAIN_OFF, .cc c⟩ :: rest) = onIds rest :=
    onIds_cons_other _ _ typ_distinct.2.2.2.1
  -- membership in the old active list of the pedal's instrument
  have hL : ∀ j, (notes j).isDrum = false →
      (j ∈ dget st.active c.instrument [] ↔ c.instrument = (notes j).instrument ∧ (a j).act = true) := by
    intro j hj
    constructor
    · intro hm
      have h1 := (hs.act_mem _ j hm).2
      refine ⟨h1.symm, ?_⟩
      rw [hs.act_iff j hj, h1]; exact hm
    · rintro ⟨h1, h2⟩
      rw [h1]; exact (hs.act_iff j hj).mp h2
  have hLd : ∀ j, (notes j).isDrum = true → j ∉ dget st.active c.instrument [] := by
    intro j hj hm
    have := (hs.act_mem _ j hm).1
    rw [hj] at this; cases this
  constructor
  · -- act_iff
    intro j hj
    simp only [dget_dset, hA, hr3]
    by_cases hi : c.instrument = (notes j).instrument
    · simp only [hi, if_true, List.mem_filter, decide_eq_true_eq]
      rw [← hi, hL j hj, hs.e_eq j hj]
      by_cases h1 : (a j).act = true <;> by_cases h2 : (a j).e < t <;> simp [h1, h2, hi]
    · have hi' : ¬ (notes j).instrument = c.instrument := fun e => hi e.symm
      simp only [hi, hi', if_false]
      exact hs.act_iff j hj
  · -- e_eq
    intro j hj
    simp only [hA, hr1, hL j hj, hs.e_eq j hj]
    by_cases hi : c.instrument = (notes j).instrument
    · by_cases h1 : (a j).act = true <;> by_cases h2 : (a j).e < t <;> simp [h1, h2, hi, hs.e_eq j hj]
    · simp [hi, hs.e_eq j hj]
  · -- ped_eq
    intro j hj
    simp only [dget_dset, hA]
    have := hs.ped_eq j hj
    by_cases hi : c.instrument = (notes j).instrument
    · simp only [hi, if_true]
      split <;> rfl
    · have hi' : ¬ (notes j).instrument = c.instrument := fun e => hi e.symm
      simp [hi, hi', this]
  · -- act_mem
    intro k j hm
    simp only [dget_dset, hr3] at hm
    by_cases hk : k = c.instrument
    · subst hk
      simp only [if_true, List.mem_filter] at hm
      exact hs.act_mem _ j hm.1
    · simp only [hk, if_false] at hm
      exact hs.act_mem _ j hm
  · -- act_nodup
    intro k
    simp only [dget_dset, hr3]
    split
    · exact (hs.act_nodup _).sublist List.filter_sublist
    · exact hs.act_nodup k
  · -- store_eq
    intro j
    simp only [hr1]
    split
    · rw [setEnd_end]; rw [hs.store_eq j]; rfl
    · exact hs.store_eq j
  · -- drum_eq
    intro j hj
    simp only [hr1, hLd j hj, false_and, if_false]
    exact hs.drum_eq j hj
  · exact hs.seq_eq
  · -- pending
    intro j hj
    rw [← hrest]
    apply hs.pending j
    simp only [hA] at hj
    by_cases hi : c.instrument = (notes j).instrument
    · simp only [hi, if_true] at hj
      by_cases h1 : (a j).act = true
      · exact Or.inl h1
      · simp only [h1, false_and, if_false] at hj
        simpa [h1] using hj
    · simpa [hi] using hj
  · -- closed
    intro j hj
    simp only [hA] at hj ⊢
    by_cases hi : c.instrument = (notes j).instrument
    · simp only [hi, if_true] at hj ⊢
      split
      · rfl
      · rename_i h
        simp only [h, if_false] at hj
        exact hs.closed j hj
    · simp only [hi, if_false] at hj ⊢
      exact hs.closed j hj
  · exact dset_keys_nodup _ _ _ hs.keys
  · -- tot_ge
    show T0 ≤ r.2.1
    rw [hr2]
    have := hs.tot_ge
    split
    · split <;> grind
    · exact this
  · -- tot_wit
    show r.2.1 = T0 ∨ _
    -- a note already closed by the pedal keeps its abstract state
    have hkeep : ∀ j, (a j).tag = .byPed →
        (astep notes j (a j) ⟨t, SUSTAIN_OFF, .cc c⟩).tag = .byPed ∧
        (astep notes j (a j) ⟨t, SUSTAIN_OFF, .cc c⟩).e = (a j).e := by
      intro j hj
      have hact : (a j).act = false := hs.closed j (by rw [hj]; decide)
      rw [hA]
      split
      · simp [hact, hj]
      · exact ⟨hj, rfl⟩
    rw [hr2]
    by_cases hex : ∃ j ∈ dget st.active c.instrument [], (st.store j).end_ < t
    · simp only [hex, if_true]
      by_cases hlt : st.total < t
      · simp only [hlt, if_true]
        obtain ⟨j, hm, hjt⟩ := hex
        have hjd := (hs.act_mem _ j hm).1
        have hji := (hL j hjd).mp hm
        refine Or.inr ⟨j, hjd, ?_⟩
        rw [hs.e_eq j hjd] at hjt
        rw [hA]
        simp [hji.1, hji.2, hjt]
      · simp only [hlt, if_false]
        rcases hs.tot_wit with h | ⟨j, hjd, hjt, hje⟩
        · exact Or.inl h
        · exact Or.inr ⟨j, hjd, (hkeep j hjt).1, by rw [(hkeep j hjt).2]; exact hje⟩
    · simp only [hex, if_false]
      rcases hs.tot_wit with h | ⟨j, hjd, hjt, hje⟩
      · exact Or.inl h
      · exact Or.inr ⟨j, hjd, (hkeep j hjt).1, by rw [(hkeep j hjt).2]; exact hje⟩
  · -- tot_cov
    intro j hj htag
    show _ ≤ r.2.1
    have hge : st.total ≤ r.2.1 := by
      rw [hr2]; split
      · split <;> grind
      · exact Rat.le_refl
    rw [hA] at htag ⊢
    by_cases hi : c.instrument = (notes j).instrument
    · simp only [hi, if_true] at htag ⊢
      by_cases hcl : (a j).act = true ∧ (a j).e < t
      · simp only [hcl, and_self, if_true]
        have hm : j ∈ dget st.active c.instrument [] := (hL j hj).mpr ⟨hi, hcl.1⟩
        have hex : ∃ j ∈ dget st.active c.instrument [], (st.store j).end_ < t :=
          ⟨j, hm, by rw [hs.e_eq j hj]; exact hcl.2⟩
        rw [hr2]
        simp only [hex, if_true]
        split <;> grind
      · simp only [hcl, if_false] at htag ⊢
        exact Rat.le_trans (hs.tot_cov j hj htag) hge
    · simp only [hi, if_false] at htag ⊢
      exact Rat.le_trans (hs.tot_cov j hj htag) hge

/-- `_NOTE_OFF` -/
theorem sim_noteOff {st : St n} {a : Fin n → Abs} {rest : List (Ev n)} (hds : DistinctStarts notes)
    (t : Rat) (k : Fin n) (hk : (notes k).isDrum = false)
    (hs : Sim notes T0 st a (⟨t, NOTE_OFF, .note k⟩ :: rest)) :
    ∃ st', step st ⟨t, NOTE_OFF, .note k⟩ = .ok st' ∧ st'.time = t ∧
      Sim notes T0 st' (fun j => astep notes j (a j) ⟨t, NOTE_OFF, .note k⟩) rest := by
  have hd := typ_distinct
  have hA : ∀ j, astep notes j (a j) ⟨t, NOTE_OFF, .note k⟩ =
      if k = j ∧ (a j).ped = false then { a j with act := false } else a j := by
    intro j; simp [astep, Ne.symm hd.2.2.2.2.2]
  have he : ∀ j, (astep notes j (a j) ⟨t, NOTE_OFF, .note k⟩).e = (a j).e := by
    intro j; rw [hA]; split <;> rfl
  have htag : ∀ j, (astep notes j (a j) ⟨t, NOTE_OFF, .note k⟩).tag = (a j).tag := by
    intro j; rw [hA]; split <;> rfl
  have hped : ∀ j, (astep notes j (a j) ⟨t, NOTE_OFF, .note k⟩).ped = (a j).ped := by
    intro j; rw [hA]; split <;> rfl
  have hrest : onIds (⟨t, NOTE_OFF, .note k⟩ :: rest) = onIds rest :=
    onIds_cons_other _ _ (Ne.symm hd.2.2.2.2.2)
  have hinst : (st.store k).instrument = (notes k).instrument := store_inst hs k
  have hpk := hs.ped_eq k hk
  by_cases hsus : dget st.sus (notes k).instrument false = true
  · -- pedal down: nothing happens
    refine ⟨{ st with time := t }, ?_, rfl, ?_⟩
    · simp [step, objInst, hinst, hsus, Ne.symm hd.2.2.1, Ne.symm hd.2.2.2.2.1, Ne.symm hd.2.2.2.2.2]
    have hA' : ∀ j, astep notes j (a j) ⟨t, NOTE_OFF, .note k⟩ = a j := by
      intro j; rw [hA]
      by_cases hkj : k = j
      · subst hkj; rw [← hpk, hsus]; simp
      · simp [hkj]
    simp only [hA']
    exact { hs with pending := fun j hj => by rw [← hrest]; exact hs.pending j hj }
  · -- pedal up: the note leaves the active list
    have hsus' : dget st.sus (notes k).instrument false = false := by simpa using hsus
    have herase : eraseVal st.store (st.store k) (dget st.active (notes k).instrument []) =
        (dget st.active (notes k).instrument []).erase k := by
      apply eraseVal_eq_erase
      intro j hm hv
      apply Classical.byContradiction
      intro hne
      have hj := hs.act_mem _ j hm
      have h1 : (notes j).pitch = (notes k).pitch := by
        rw [← store_pitch hs j, ← store_pitch hs k, hv]
      have h2 : (notes j).start = (notes k).start := by
        rw [← store_start hs j, ← store_start hs k, hv]
      exact hds j k hne hj.1 hk hj.2 h1 h2
    refine ⟨{ st with time := t, active := (dset st.active (notes k).instrument
        ((dget st.active (notes k).instrument []).erase k)) }, ?_, rfl, ?_⟩
    · simp [step, objInst, hinst, hsus', herase, Ne.symm hd.2.2.1, Ne.symm hd.2.2.2.2.1,
        Ne.symm hd.2.2.2.2.2]
    have hpk' : (a k).ped = false := by rw [← hpk]; exact hsus'
    have hact : ∀ j, (astep notes j (a j) ⟨t, NOTE_OFF, .note k⟩).act =
        if k = j then false else (a j).act := by
      intro j; rw [hA]
      by_cases hkj : k = j
      · subst hkj; simp [hpk']
      · simp [hkj]
    constructor
    · -- act_iff
      intro j hj
      simp only [hact, dget_dset]
      by_cases hkj : k = j
      · subst hkj
        simp only [if_true]
        constructor
        · intro h; cases h
        · intro h; exact absurd h (List.Nodup.not_mem_erase (hs.act_nodup _))
      · simp only [hkj, if_false]
        by_cases hi : (notes j).instrument = (notes k).instrument
        · simp only [hi, if_true]
          rw [List.mem_erase_of_ne (fun e => hkj e.symm), ← hi]
          exact hs.act_iff j hj
        · simp only [hi, if_false]; exact hs.act_iff j hj
    · intro j hj; simp only [he]; exact hs.e_eq j hj
    · intro j hj; simp only [hped]; exact hs.ped_eq j hj
    · intro i j hm
      simp only [dget_dset] at hm
      by_cases hi : i = (notes k).instrument
      · subst hi
        simp only [if_true] at hm
        exact hs.act_mem _ j (List.mem_of_mem_erase hm)
      · simp only [hi, if_false] at hm
        exact hs.act_mem _ j hm
    · intro i
      simp only [dget_dset]
      split
      · exact (hs.act_nodup _).erase k
      · exact hs.act_nodup i
    · exact hs.store_eq
    · exact hs.drum_eq
    · exact hs.seq_eq
    · intro j hj
      rw [← hrest]
      apply hs.pending j
      simp only [hact, htag] at hj
      by_cases hkj : k = j
      · simp only [hkj, if_true] at hj
        rcases hj with h | h
        · cases h
        · exact Or.inr h
      · simpa [hkj] using hj
    · intro j hj
      simp only [hact, htag] at hj ⊢
      split
      · rfl
      · exact hs.closed j hj
    · exact dset_keys_nodup _ _ _ hs.keys
    · exact hs.tot_ge
    · simp only [he, htag]; exact hs.tot_wit
    · intro j hj; simp only [he, htag]; exact hs.tot_cov j hj

/-- `_NOTE_ON` -/
theorem sim_noteOn {st : St n} {a : Fin n → Abs} {rest : List (Ev n)} (hds : DistinctStarts notes)
    (t : Rat) (k : Fin n) (hk : (notes k).isDrum = false) (ht : t = (notes k).start)
    (hnd : (onIds (⟨t, NOTE_ON, .note k⟩ :: rest)).Nodup)
    (hs : Sim notes T0 st a (⟨t, NOTE_ON, .note k⟩ :: rest)) :
    ∃ st', step st ⟨t, NOTE_ON, .note k⟩ = .ok st' ∧ st'.time = t ∧
      Sim notes T0 st' (fun j => astep notes j (a j) ⟨t, NOTE_ON, .note k⟩) rest := by
  have hd := typ_distinct
  rw [onIds_cons_on] at hnd
  have hkrest : k ∉ onIds rest := (List.nodup_cons.mp hnd).1
  have hkfresh : (a k).act = false ∧ (a k).tag = .none := by
    have := hs.pending k
    rw [onIds_cons_on] at this
    constructor
    · cases h : (a k).act
      · rfl
      · exact absurd (List.mem_cons_self) (this (Or.inl h))
    · apply Classical.byContradiction
      intro h
      exact absurd (List.mem_cons_self) (this (Or.inr h))
  have hinst : (st.store k).instrument = (notes k).instrument := store_inst hs k
  have hkL : k ∉ dget st.active (notes k).instrument [] := by
    intro hm
    have := (hs.act_iff k hk).mpr hm
    rw [hkfresh.1] at this; cases this
  have hA : ∀ j, astep notes j (a j) ⟨t, NOTE_ON, .note k⟩ =
      if k = j then { a j with act := true }
      else if (notes k).instrument = (notes j).instrument ∧ (notes k).pitch = (notes j).pitch ∧
          (a j).ped = true ∧ (a j).act = true then { a j with act := false, e := t, tag := .byStrike }
      else a j := by
    intro j; simp [astep]
  -- facts that do not depend on the pedal
  have hpending : ∀ j, (astep notes j (a j) ⟨t, NOTE_ON, .note k⟩).act = true ∨
      (astep notes j (a j) ⟨t, NOTE_ON, .note k⟩).tag ≠ .none → j ∉ onIds rest := by
    intro j hj
    by_cases hkj : k = j
    · subst hkj; exact hkrest
    · have hold : j ∉ onIds (⟨t, NOTE_ON, .note k⟩ :: rest) → j ∉ onIds rest := by
        rw [onIds_cons_on]; intro h hm; exact h (List.mem_cons_of_mem _ hm)
      apply hold
      apply hs.pending j
      rw [hA] at hj
      simp only [hkj, if_false] at hj
      split at hj
      · rename_i h; exact Or.inl h.2.2.2
      · exact hj
  have hclosed : ∀ j, (astep notes j (a j) ⟨t, NOTE_ON, .note k⟩).tag ≠ .none →
      (astep notes j (a j) ⟨t, NOTE_ON, .note k⟩).act = false := by
    intro j hj
    rw [hA] at hj ⊢
    by_cases hkj : k = j
    · subst hkj; simp only [if_true] at hj; exact absurd hkfresh.2 hj
    · simp only [hkj, if_false] at hj ⊢
      split
      · rfl
      · rename_i h; simp only [h, if_false] at hj; exact hs.closed j hj
  have hkeepPed : ∀ j, (a j).tag = .byPed →
      (astep notes j (a j) ⟨t, NOTE_ON, .note k⟩).tag = .byPed ∧
      (astep notes j (a j) ⟨t, NOTE_ON, .note k⟩).e = (a j).e := by
    intro j hj
    have hact : (a j).act = false := hs.closed j (by rw [hj]; decide)
    have hkj : k ≠ j := by intro e; subst e; rw [hkfresh.2] at hj; cases hj
    rw [hA]
    simp [hkj, hact, hj]
  have htagPed : ∀ j, (astep notes j (a j) ⟨t, NOTE_ON, .note k⟩).tag = .byPed →
      (a j).tag = .byPed ∧ (astep notes j (a j) ⟨t, NOTE_ON, .note k⟩).e = (a j).e := by
    intro j hj
    rw [hA] at hj ⊢
    by_cases hkj : k = j
    · subst hkj; simp only [if_true] at hj; rw [hkfresh.2] at hj; cases hj
    · simp only [hkj, if_false] at hj ⊢
      split
      · rename_i h; simp only [h, and_self, if_true] at hj; cases hj
      · rename_i h; simp only [h, if_false] at hj; exact ⟨hj, rfl⟩
  have htotwit : st.total = T0 ∨ ∃ j, (notes j).isDrum = false ∧
      (astep notes j (a j) ⟨t, NOTE_ON, .note k⟩).tag = .byPed ∧
      (astep notes j (a j) ⟨t, NOTE_ON, .note k⟩).e = st.total := by
    rcases hs.tot_wit with h | ⟨j, hjd, hjt, hje⟩
    · exact Or.inl h
    · exact Or.inr ⟨j, hjd, (hkeepPed j hjt).1, by rw [(hkeepPed j hjt).2]; exact hje⟩
  have htotcov : ∀ j, (notes j).isDrum = false →
      (astep notes j (a j) ⟨t, NOTE_ON, .note k⟩).tag = .byPed →
      (astep notes j (a j) ⟨t, NOTE_ON, .note k⟩).e ≤ st.total := by
    intro j hj h
    rw [(htagPed j h).2]; exact hs.tot_cov j hj (htagPed j h).1
  have hpedSame : ∀ j, (astep notes j (a j) ⟨t, NOTE_ON, .note k⟩).ped = (a j).ped := by
    intro j; rw [hA]; split
    · rfl
    · split <;> rfl
  by_cases hsus : dget st.sus (notes k).instrument false = true
  · -- pedal down: same-pitch active notes end now
    have hnodel : ∀ j ∈ dget st.active (notes k).instrument [],
        (st.store j).pitch = (st.store k).pitch → (st.store j).start ≠ t := by
      intro j hm hp
      have hj := hs.act_mem _ j hm
      have hne : j ≠ k := fun e => hkL (e ▸ hm)
      rw [store_pitch hs j, store_pitch hs k] at hp
      rw [store_start hs j, ht]
      exact hds j k hne hj.1 hk hj.2 hp
    obtain ⟨store', hrun, hstore'⟩ := strikeLoop_spec t k (dget st.active (notes k).instrument [])
      st.store st.seq (hs.act_nodup _) hnodel
    refine ⟨{ st with time := t, store := store', active := (dset st.active (notes k).instrument ((dget st.active (notes k).instrument []).filter (fun j => ¬ ((st.store j).pitch = (st.store k).pitch)) ++ [k])) }, ?_, rfl, ?_⟩
    · simp [step, objInst, hinst, hsus, hrun, Ne.symm hd.2.1, Ne.symm hd.2.2.2.1]
    -- "j is struck" in concrete terms
    have hstrike : ∀ j, (notes j).isDrum = false → k ≠ j →
        (((notes k).instrument = (notes j).instrument ∧ (notes k).pitch = (notes j).pitch ∧
          (a j).ped = true ∧ (a j).act = true) ↔
         (j ∈ dget st.active (notes k).instrument [] ∧ (st.store j).pitch = (st.store k).pitch)) := by
      intro j hj hkj
      rw [store_pitch hs j, store_pitch hs k]
      constructor
      · rintro ⟨h1, h2, _, h4⟩
        refine ⟨?_, h2.symm⟩
        rw [h1]; exact (hs.act_iff j hj).mp h4
      · rintro ⟨hm, hp⟩
        have hji := (hs.act_mem _ j hm).2
        refine ⟨hji.symm, hp.symm, ?_, ?_⟩
        · rw [← hs.ped_eq j hj, hji]; exact hsus
        · rw [hs.act_iff j hj, hji]; exact hm
    constructor
    · -- act_iff
      intro j hj
      by_cases hkj : k = j
      · subst hkj; simp [dget_dset, hA]
      · have hjk : ¬ j = k := fun e => hkj e.symm
        rw [hA, if_neg hkj]
        by_cases hst : (notes k).instrument = (notes j).instrument ∧ (notes k).pitch = (notes j).pitch ∧
            (a j).ped = true ∧ (a j).act = true
        · have h2 := (hstrike j hj hkj).mp hst
          rw [if_pos hst, dget_dset, if_pos hst.1.symm]
          simp [h2.2, hjk]
        · have hns := mt (hstrike j hj hkj).mpr hst
          rw [if_neg hst, dget_dset]
          by_cases hi : (notes j).instrument = (notes k).instrument
          · rw [if_pos hi]
            simp only [List.mem_append, List.mem_filter, List.mem_singleton, hjk, or_false,
              decide_eq_true_eq]
            rw [hs.act_iff j hj, hi]
            exact ⟨fun hm => ⟨hm, fun hp => hns ⟨hm, hp⟩⟩, fun h => h.1⟩
          · rw [if_neg hi]; exact hs.act_iff j hj
    · -- e_eq
      intro j hj
      simp only [hstore', hA]
      by_cases hkj : k = j
      · subst hkj; simp only [hkL, false_and, if_false, if_true]; exact hs.e_eq k hk
      · simp only [hkj, if_false]
        by_cases hst : (notes k).instrument = (notes j).instrument ∧ (notes k).pitch = (notes j).pitch ∧
            (a j).ped = true ∧ (a j).act = true
        · have h2 := (hstrike j hj hkj).mp hst
          rw [if_pos hst, if_pos h2]; rfl
        · simp only [hst, if_false]
          have hns := mt (hstrike j hj hkj).mpr hst
          simp only [hns, if_false]
          exact hs.e_eq j hj
    · intro j hj; simp only [hpedSame]; exact hs.ped_eq j hj
    · -- act_mem
      intro i j hm
      simp only [dget_dset] at hm
      by_cases hi : i = (notes k).instrument
      · subst hi
        simp only [if_true, List.mem_append, List.mem_filter, List.mem_singleton] at hm
        rcases hm with hm | hm
        · exact hs.act_mem _ j hm.1
        · subst hm; exact ⟨hk, rfl⟩
      · simp only [hi, if_false] at hm
        exact hs.act_mem _ j hm
    · -- act_nodup
      intro i
      simp only [dget_dset]
      split
      · rw [List.nodup_append]
        refine ⟨(hs.act_nodup _).sublist List.filter_sublist, by simp, ?_⟩
        intro x hx y hy
        simp only [List.mem_singleton] at hy
        subst hy
        intro e; subst e
        exact hkL (List.mem_filter.mp hx).1
      · exact hs.act_nodup i
    · -- store_eq
      intro j
      simp only [hstore']
      split
      · rw [setEnd_end]; rw [hs.store_eq j]; rfl
      · exact hs.store_eq j
    · -- drum_eq
      intro j hj
      have : j ∉ dget st.active (notes k).instrument [] := by
        intro hm
        have := (hs.act_mem _ j hm).1
        rw [hj] at this; cases this
      simp only [hstore', this, false_and, if_false]
      exact hs.drum_eq j hj
    · exact hs.seq_eq
    · exact hpending
    · exact hclosed
    · exact dset_keys_nodup _ _ _ hs.keys
    · exact hs.tot_ge
    · exact htotwit
    · exact htotcov
  · -- pedal up: the note just joins the active list
    have hsus' : dget st.sus (notes k).instrument false = false := by simpa using hsus
    refine ⟨{ st with time := t, active := (dset st.active (notes k).instrument (dget st.active (notes k).instrument [] ++ [k])) }, ?_, rfl, ?_⟩
    · simp [step, objInst, hinst, hsus', Ne.symm hd.2.1, Ne.symm hd.2.2.2.1]
    have hA' : ∀ j, (notes j).isDrum = false → astep notes j (a j) ⟨t, NOTE_ON, .note k⟩ =
        if k = j then { a j with act := true } else a j := by
      intro j hj
      rw [hA]
      by_cases hkj : k = j
      · simp [hkj]
      · simp only [hkj, if_false]
        have : ¬ ((notes k).instrument = (notes j).instrument ∧ (notes k).pitch = (notes j).pitch ∧
            (a j).ped = true ∧ (a j).act = true) := by
          rintro ⟨h1, _, h3, _⟩
          rw [← hs.ped_eq j hj, ← h1, hsus'] at h3
          cases h3
        simp [this]
    constructor
    · -- act_iff
      intro j hj
      simp only [dget_dset, hA' j hj]
      by_cases hkj : k = j
      · subst hkj; simp
      · have hjk : ¬ j = k := fun e => hkj e.symm
        simp only [hkj, if_false]
        by_cases hi : (notes j).instrument = (notes k).instrument
        · simp only [hi, if_true, List.mem_append, List.mem_singleton, hjk, or_false]
          rw [← hi]; exact hs.act_iff j hj
        · simp only [hi, if_false]; exact hs.act_iff j hj
    · intro j hj
      rw [hA' j hj]
      have := hs.e_eq j hj
      split <;> exact this
    · intro j hj; simp only [hpedSame]; exact hs.ped_eq j hj
    · intro i j hm
      simp only [dget_dset] at hm
      by_cases hi : i = (notes k).instrument
      · subst hi
        simp only [if_true, List.mem_append, List.mem_singleton] at hm
        rcases hm with hm | hm
        · exact hs.act_mem _ j hm
        · subst hm; exact ⟨hk, rfl⟩
      · simp only [hi, if_false] at hm
        exact hs.act_mem _ j hm
    · intro i
      simp only [dget_dset]
      split
      · rw [List.nodup_append]
        refine ⟨hs.act_nodup _, by simp, ?_⟩
        intro x hx y hy
        simp only [List.mem_singleton] at hy
        subst hy
        intro e; subst e
        exact hkL hx
      · exact hs.act_nodup i
    · exact hs.store_eq
    · exact hs.drum_eq
    · exact hs.seq_eq
    · exact hpending
    · exact hclosed
    · exact dset_keys_nodup _ _ _ hs.keys
    · exact hs.tot_ge
    · exact htotwit
    · exact htotcov

theorem sim_step {st : St n} {a : Fin n → Abs} (hds : DistinctStarts notes) (ev : Ev n)
    (rest : List (Ev n)) (hev : EvOK notes ev) (hnd : (onIds (ev :: rest)).Nodup)
    (hs : Sim notes T0 st a (ev :: rest)) :
    ∃ st', step st ev = .ok st' ∧ st'.time = ev.time ∧
      Sim notes T0 st' (fun j => astep notes j (a j) ev) rest := by
  obtain ⟨t, typ, obj⟩ := ev
  cases obj with
  | cc c =>
    simp only [EvOK] at hev
    rcases hev with h | h
    · subst h; exact sim_susOn t c hs
    · subst h; exact sim_susOff t c hs
  | note k =>
    simp only [EvOK] at hev
    obtain ⟨hk, h | h⟩ := hev
    · obtain ⟨h1, h2⟩ := h; subst h1; exact sim_noteOn hds t k hk h2 hnd hs
    · obtain ⟨h1, _⟩ := h; subst h1; exact sim_noteOff hds t k hk hs

theorem onIds_sublist (ev : Ev n) (rest : List (Ev n)) : (onIds rest).Sublist (onIds (ev :: rest)) :=
  List.Sublist.filterMap _ (List.sublist_cons_self ev rest)

/-- the loop variable `time` after the loop -/
def lastTimeOf (t0 : Rat) (E : List (Ev n)) : Rat := E.foldl (fun _ e => e.time) t0

theorem sim_run (hds : DistinctStarts notes) (E : List (Ev n)) :
    ∀ {st : St n} {a : Fin n → Abs}, (∀ ev ∈ E, EvOK notes ev) → (onIds E).Nodup →
      Sim notes T0 st a E →
      ∃ stF, run st E = .ok stF ∧ stF.time = lastTimeOf st.time E ∧
        Sim notes T0 stF (fun j => E.foldl (astep notes j) (a j)) [] := by
  induction E with
  | nil => intro st a _ _ hs; exact ⟨st, rfl, rfl, hs⟩
  | cons ev rest ih =>
    intro st a hok hnd hs
    obtain ⟨st', h1, h2, h3⟩ := sim_step hds ev rest (hok ev (by simp)) hnd hs
    obtain ⟨stF, g1, g2, g3⟩ := ih (fun e he => hok e (List.mem_cons_of_mem _ he))
      (hnd.sublist (onIds_sublist ev rest)) h3
    refine ⟨stF, ?_, ?_, ?_⟩
    · simp only [run, h1]; exact g1
    · rw [g2, h2]; rfl
    · exact g3

/-- the abstract state of every note before the loop -/
def abs0 (notes : Fin n → Note) (j : Fin n) : Abs :=
  { act := false, e := (notes j).end_, ped := false, tag := .none }

theorem sim_init (E : List (Ev n)) : Sim notes T0 (init notes T0) (abs0 notes) E := by
  constructor <;> simp [init, abs0, dget, Rat.le_refl]

end steps
end NSV.C14
