import NoteSeqVerif.Proofs.C12
import NoteSeqVerif.Proofs.C03
/-! C12 — helper lemmas for the storage-order invariance of MIDI export (`note_sequence_to_pretty_midi` =
`Model/C03.writePM`): PrettyMIDI objects up to the order inside their containers (`PMPerm`), the latest note end,
the time / key signature loops as filter + map, the grouping and the instrument loop on permuted groups. -/
namespace NSV.C12
open NSV NSV.C03

/-! ## PrettyMIDI objects up to storage order -/

/-- the same instrument (program, drum flag) holding the same notes / pitch bends / control changes in any order -/
structure PMInstPerm (a b : PMInst) : Prop where
  program : a.program = b.program
  isDrum : a.isDrum = b.isDrum
  notes : a.notes.Perm b.notes
  bends : a.bends.Perm b.bends
  ccs : a.ccs.Perm b.ccs

/-- instrument lists of the same length whose entries at equal positions are the same instrument up to the
order of its events (the ORDER OF THE INSTRUMENTS is part of the result and is kept) -/
def InstsPerm : List PMInst → List PMInst → Prop
  | [], [] => True
  | a :: l, b :: l' => PMInstPerm a b ∧ InstsPerm l l'
  | _, _ => False

/-- two PrettyMIDI objects that differ only in the order of the notes / bends / control changes inside each
instrument and of the time-signature and key-signature lists: same resolution, IDENTICAL `_tick_scales`, the
same instruments in the same order -/
structure PMPerm (a b : PM) : Prop where
  resolution : a.resolution = b.resolution
  map : a.map = b.map
  tsigs : a.tsigs.Perm b.tsigs
  ksigs : a.ksigs.Perm b.ksigs
  insts : InstsPerm a.insts b.insts

/-- results of the writer up to storage order: the same exception, or PrettyMIDI objects related by `PMPerm` -/
def PMResPerm (r r' : Except WErr PM) : Prop :=
  match r, r' with
  | .ok a, .ok b => PMPerm a b
  | .error e, .error e' => e = e'
  | _, _ => False

theorem PMInstPerm.refl (a : PMInst) : PMInstPerm a a := ⟨rfl, rfl, .refl _, .refl _, .refl _⟩

theorem InstsPerm.refl : ∀ l : List PMInst, InstsPerm l l
  | [] => trivial
  | a :: l => ⟨PMInstPerm.refl a, InstsPerm.refl l⟩

theorem InstsPerm.snoc : ∀ {l l' : List PMInst} {a b : PMInst}, InstsPerm l l' → PMInstPerm a b →
    InstsPerm (l ++ [a]) (l' ++ [b])
  | [], [], _, _, _, hab => ⟨hab, trivial⟩
  | _ :: _, _ :: _, _, _, h, hab => ⟨h.1, InstsPerm.snoc h.2 hab⟩
  | [], _ :: _, _, _, h, _ => h.elim
  | _ :: _, [], _, _, h, _ => h.elim

theorem InstsPerm.length_eq : ∀ {l l' : List PMInst}, InstsPerm l l' → l.length = l'.length
  | [], [], _ => rfl
  | _ :: _, _ :: _, h => by simp [InstsPerm.length_eq h.2]
  | [], _ :: _, h => h.elim
  | _ :: _, [], h => h.elim

theorem InstsPerm.get : ∀ {l l' : List PMInst}, InstsPerm l l' → ∀ (i : Nat) (a b : PMInst),
    l[i]? = some a → l'[i]? = some b → PMInstPerm a b
  | [], [], _, i, a, b, ha, _ => by simp at ha
  | x :: l, y :: l', h, 0, a, b, ha, hb => by
    simp at ha hb; subst ha hb; exact h.1
  | x :: l, y :: l', h, i + 1, a, b, ha, hb => by
    simp at ha hb; exact InstsPerm.get h.2 i a b ha hb
  | [], _ :: _, h, _, _, _, _, _ => h.elim
  | _ :: _, [], h, _, _, _, _, _ => h.elim

/-! ## `max([n.end_time for n in sequence.notes] or [0])` -/

theorem maxEnd_perm {l l' : List Note} (h : l.Perm l') : maxEnd l = maxEnd l' := by
  induction h with
  | nil => rfl
  | cons x hp _ =>
    simp only [maxEnd]
    exact hp.foldl_eq' (by intro a _ b _ z; grind) _
  | swap x y l =>
    simp only [maxEnd, List.foldl_cons]
    congr 1
    grind
  | trans _ _ ih1 ih2 => exact ih1.trans ih2

theorem maxEventTime_perm (R : Rat → Rat) {s s' : NoteSeq} (h : NSPerm s s') (drop : Option Rat) :
    maxEventTime R s drop = maxEventTime R s' drop := by
  unfold maxEventTime
  cases drop with
  | none => rfl
  | some d => simp only []; rw [maxEnd_perm h.notes]

/-! ## the time-signature and key-signature loops -/

/-- lists of written events up to order, or the same exception -/
def ResListPerm {α} (r r' : Except WErr (List α)) : Prop :=
  match r, r' with
  | .ok a, .ok b => a.Perm b
  | .error e, .error e' => e = e'
  | _, _ => False

def tsBad (ts : TimeSig) : Bool := decide (ts.num ≤ 0 ∨ ts.den ≤ 0 ∨ ts.time < 0)
def ksBad (ks : KeySig) : Bool :=
  decide (encodeKey ks.key ks.mode < 0 ∨ 24 ≤ encodeKey ks.key ks.mode ∨ ks.time < 0)

/-- the time-signature loop: ValueError iff some kept signature is invalid, else the kept signatures in storage order -/
theorem writeTimeSigs_eq (met : Option Rat) (l : List TimeSig) :
    writeTimeSigs met l =
      if (l.filter (fun ts => !dropped met ts.time)).any tsBad then .error .valueError
      else .ok ((l.filter (fun ts => !dropped met ts.time)).map (fun ts => ⟨ts.num, ts.den, ts.time⟩)) := by
  induction l with
  | nil => rfl
  | cons ts r ih =>
    unfold writeTimeSigs
    by_cases hd : dropped met ts.time = true
    · simp only [hd, if_true, ih, List.filter_cons, Bool.not_true, Bool.false_eq_true, if_false]
    · have hd' : dropped met ts.time = false := by simpa using hd
      by_cases hb : ts.num ≤ 0 ∨ ts.den ≤ 0 ∨ ts.time < 0
      · simp [hd', hb, tsBad]
      · have : tsBad ts = false := by simp [tsBad, hb]
        simp only [hd', Bool.false_eq_true, if_false, hb, ih, List.filter_cons, Bool.not_false, if_true,
          List.any_cons, this, Bool.false_or, List.map_cons]
        by_cases ha : (r.filter (fun ts => !dropped met ts.time)).any tsBad = true <;> simp [ha]

theorem writeKeySigs_eq (met : Option Rat) (l : List KeySig) :
    writeKeySigs met l =
      if (l.filter (fun ks => !dropped met ks.time)).any ksBad then .error .valueError
      else .ok ((l.filter (fun ks => !dropped met ks.time)).map
        (fun ks => ⟨encodeKey ks.key ks.mode, ks.time⟩)) := by
  induction l with
  | nil => rfl
  | cons ks r ih =>
    unfold writeKeySigs
    by_cases hd : dropped met ks.time = true
    · simp only [hd, if_true, ih, List.filter_cons, Bool.not_true, Bool.false_eq_true, if_false]
    · have hd' : dropped met ks.time = false := by simpa using hd
      by_cases hb : encodeKey ks.key ks.mode < 0 ∨ 24 ≤ encodeKey ks.key ks.mode ∨ ks.time < 0
      · simp [hd', hb, ksBad]
      · have : ksBad ks = false := by simp [ksBad, hb]
        simp only [hd', Bool.false_eq_true, if_false, hb, ih, List.filter_cons, Bool.not_false, if_true,
          List.any_cons, this, Bool.false_or, List.map_cons]
        by_cases ha : (r.filter (fun ks => !dropped met ks.time)).any ksBad = true <;> simp [ha]

theorem writeTimeSigs_perm (met : Option Rat) {l l' : List TimeSig} (h : l.Perm l') :
    ResListPerm (writeTimeSigs met l) (writeTimeSigs met l') := by
  rw [writeTimeSigs_eq, writeTimeSigs_eq, (h.filter _).any_eq]
  split
  · rfl
  · exact (h.filter _).map _

theorem writeKeySigs_perm (met : Option Rat) {l l' : List KeySig} (h : l.Perm l') :
    ResListPerm (writeKeySigs met l) (writeKeySigs met l') := by
  rw [writeKeySigs_eq, writeKeySigs_eq, (h.filter _).any_eq]
  split
  · rfl
  · exact (h.filter _).map _

/-! ## grouping and the instrument loop -/

theorem groupKeys_perm (met : Option Rat) {s s' : NoteSeq} (h : NSPerm s s') : groupKeys met s = groupKeys met s' := by
  apply KeySorted.ext (sorted_sortedKeys _) (sorted_sortedKeys _)
  intro k
  have hb : (keptBends met s).Perm (keptBends met s') := h.bends.filter _
  have hc : (keptCCs met s).Perm (keptCCs met s') := h.ccs.filter _
  rw [show k ∈ sortedKeys _ ↔ k ∈ groupKeys met s from Iff.rfl, show k ∈ sortedKeys _ ↔ k ∈ groupKeys met s' from Iff.rfl,
    mem_groupKeys, mem_groupKeys]
  constructor
  · rintro (⟨n, hn, e⟩ | ⟨b, hb', e⟩ | ⟨c, hc', e⟩)
    · exact Or.inl ⟨n, h.notes.subset hn, e⟩
    · exact Or.inr (Or.inl ⟨b, hb.subset hb', e⟩)
    · exact Or.inr (Or.inr ⟨c, hc.subset hc', e⟩)
  · rintro (⟨n, hn, e⟩ | ⟨b, hb', e⟩ | ⟨c, hc', e⟩)
    · exact Or.inl ⟨n, h.notes.symm.subset hn, e⟩
    · exact Or.inr (Or.inl ⟨b, hb.symm.subset hb', e⟩)
    · exact Or.inr (Or.inr ⟨c, hc.symm.subset hc', e⟩)

/-- the instrument a group is written to holds the same events whatever the storage order -/
theorem mkInst_perm (met : Option Rat) {s s' : NoteSeq} (h : NSPerm s s') (k : Key) :
    PMInstPerm (mkInst met s k) (mkInst met s' k) :=
  ⟨rfl, rfl, (h.notes.filter _).map _, ((h.bends.filter _).filter _).map _, ((h.ccs.filter _).filter _).map _⟩

/-- results of the instrument loop up to the order inside each instrument -/
def ResInstsPerm (r r' : Except WErr (List PMInst)) : Prop :=
  match r, r' with
  | .ok a, .ok b => InstsPerm a b
  | .error e, .error e' => e = e'
  | _, _ => False

/-- the instrument loop over ONE key list with two instrument constructors that agree up to event order -/
theorem instLoop_perm (mk mk' : Key → PMInst) (hmk : ∀ k, PMInstPerm (mk k) (mk' k)) :
    ∀ (ks : List Key) (used : Bool) (first first' : PMInst) (others others' : List PMInst),
      PMInstPerm first first' → InstsPerm others others' →
      ResInstsPerm (instLoop mk used first others ks) (instLoop mk' used first' others' ks)
  | [], _, _, _, _, _, hf, ho => ⟨hf, ho⟩
  | k :: r, used, first, first', others, others', hf, ho => by
    unfold instLoop
    split
    · split
      · rfl
      · exact instLoop_perm mk mk' hmk r used first first' _ _ hf (ho.snoc (hmk k))
    · exact instLoop_perm mk mk' hmk r true _ _ others others' (hmk k) ho

theorem any_reversed_perm {l l' : List Note} (h : l.Perm l') :
    l.any (fun n => decide (n.end_ < n.start)) = l'.any (fun n => decide (n.end_ < n.start)) := h.any_eq

end NSV.C12
