import NoteSeqVerif.Proofs.C14Abs
/-! C14 — facts about the sorted event list the model builds, and the link between the
event-level specification `HSpec` and the declarative `pedalDown` / `heldEnd`. -/
set_option linter.unusedSimpArgs false
set_option linter.unusedVariables false
namespace NSV.C14
open Gen

theorem evLe_trans {n} (a b c : Ev n) (h1 : evLe a b = true) (h2 : evLe b c = true) :
    evLe a c = true := by
  rw [evLe_iff] at *
  rcases h1 with h1 | h1 <;> rcases h2 with h2 | h2
  · left; grind
  · left; grind
  · left; grind
  · right; exact ⟨by grind, by omega⟩

theorem evLe_total {n} (a b : Ev n) : (evLe a b || evLe b a) = true := by
  rw [Bool.or_eq_true, evLe_iff, evLe_iff]
  by_cases h1 : a.time < b.time
  · exact Or.inl (Or.inl h1)
  · by_cases h2 : b.time < a.time
    · exact Or.inr (Or.inl h2)
    · have : a.time = b.time := by grind
      by_cases h3 : a.typ ≤ b.typ
      · exact Or.inl (Or.inr ⟨this, h3⟩)
      · exact Or.inr (Or.inr ⟨this.symm, by omega⟩)

section events
variable {n : Nat} (ctl : Int) (notes : Fin n → Note) (ccs : List CC)

/-- the event a control change of the pedal controller becomes -/
def ccEv (c : CC) : Ev n :=
  if 64 ≤ c.value then { time := c.time, typ := SUSTAIN_ON, obj := .cc c }
  else { time := c.time, typ := SUSTAIN_OFF, obj := .cc c }

theorem sorted_pairwise :
    (sortedEvents ctl notes ccs).Pairwise (fun a b => evLe a b = true) :=
  List.pairwise_mergeSort evLe_trans evLe_total _

theorem mem_sorted (ev : Ev n) :
    ev ∈ sortedEvents ctl notes ccs ↔
      (∃ k, (notes k).isDrum = false ∧ (ev = onEv notes k ∨ ev = offEv notes k)) ∨
      (∃ c ∈ ccs, c.number = ctl ∧ ev = ccEv c) := by
  unfold sortedEvents
  rw [(List.mergeSort_perm _ _).mem_iff, List.mem_append]
  constructor
  · rintro (h | h)
    · left
      simp only [noteEvents, List.mem_append, List.mem_map, List.mem_filter, List.mem_finRange,
        true_and] at h
      rcases h with ⟨k, hk, rfl⟩ | ⟨k, hk, rfl⟩
      · exact ⟨k, by simpa using hk, Or.inl rfl⟩
      · exact ⟨k, by simpa using hk, Or.inr rfl⟩
    · right
      simp only [ccEvents, List.mem_map, List.mem_filter] at h
      obtain ⟨c, ⟨hc, hn⟩, rfl⟩ := h
      exact ⟨c, hc, by simpa using hn, rfl⟩
  · rintro (⟨k, hk, h | h⟩ | ⟨c, hc, hn, rfl⟩)
    · left
      simp only [noteEvents, List.mem_append, List.mem_map, List.mem_filter, List.mem_finRange,
        true_and]
      exact Or.inl ⟨k, by simpa using hk, h.symm⟩
    · left
      simp only [noteEvents, List.mem_append, List.mem_map, List.mem_filter, List.mem_finRange,
        true_and]
      exact Or.inr ⟨k, by simpa using hk, h.symm⟩
    · right
      simp only [ccEvents, List.mem_map, List.mem_filter]
      exact ⟨c, ⟨hc, by simpa using hn⟩, rfl⟩

theorem sorted_ok : ∀ ev ∈ sortedEvents ctl notes ccs, EvOK notes ev := by
  intro ev hev
  rcases (mem_sorted ctl notes ccs ev).mp hev with ⟨k, hk, rfl | rfl⟩ | ⟨c, _, _, rfl⟩
  · simp [EvOK, onEv, hk]
  · simp [EvOK, offEv, hk]
  · unfold ccEv; split <;> simp [EvOK]

theorem onIds_unsorted :
    onIds (noteEvents notes ++ ccEvents ctl ccs) =
      (List.finRange n).filter (fun i => !(notes i).isDrum) := by
  have h1 : ∀ L : List (Fin n), onIds (L.map (fun i =>
      ({ time := (notes i).start, typ := NOTE_ON, obj := .note i } : Ev n))) = L := by
    intro L; induction L with
    | nil => rfl
    | cons a L ih => simp only [List.map_cons, onIds_cons_on, ih]
  have h2 : ∀ L : List (Fin n), onIds (L.map (fun i =>
      ({ time := (notes i).end_, typ := NOTE_OFF, obj := .note i } : Ev n))) = [] := by
    intro L; induction L with
    | nil => rfl
    | cons a L ih =>
      simp only [List.map_cons]
      rw [onIds_cons_other _ _ (Ne.symm t23)]; exact ih
  have h3 : onIds (ccEvents (n := n) ctl ccs) = [] := by
    unfold ccEvents
    generalize ccs.filter _ = L
    induction L with
    | nil => rfl
    | cons a L ih =>
      simp only [List.map_cons]
      rw [onIds_cons_other]
      · exact ih
      · split
        · exact t02
        · exact t12
  rw [onIds_append, noteEvents, onIds_append, h1, h2, h3]
  simp

theorem sorted_onIds_nodup : (onIds (sortedEvents ctl notes ccs)).Nodup := by
  have hp : (onIds (sortedEvents ctl notes ccs)).Perm (onIds (noteEvents notes ++ ccEvents ctl ccs)) :=
    List.Perm.filterMap _ (List.mergeSort_perm _ _)
  rw [hp.nodup_iff, onIds_unsorted]
  exact (List.nodup_finRange n).sublist List.filter_sublist

end events

/-! ### folds of `min` / `max` -/
theorem foldl_min_le_init (l : List Rat) (x : Rat) : l.foldl min x ≤ x := by
  induction l generalizing x with
  | nil => exact Rat.le_refl
  | cons a l ih => simp only [List.foldl_cons]; have := ih (min x a); grind

theorem foldl_min_le_mem (l : List Rat) (x y : Rat) (h : y ∈ l) : l.foldl min x ≤ y := by
  induction l generalizing x with
  | nil => cases h
  | cons a l ih =>
    simp only [List.foldl_cons]
    rcases List.mem_cons.mp h with h | h
    · subst h; have := foldl_min_le_init l (min x y); grind
    · exact ih _ h

theorem foldl_min_mem (l : List Rat) (x : Rat) : l.foldl min x = x ∨ l.foldl min x ∈ l := by
  induction l generalizing x with
  | nil => exact Or.inl rfl
  | cons a l ih =>
    simp only [List.foldl_cons]
    rcases ih (min x a) with h | h
    · rw [h]
      by_cases hx : x ≤ a
      · left; grind
      · right; have : min x a = a := by grind
        rw [this]; simp
    · exact Or.inr (List.mem_cons_of_mem _ h)

theorem foldl_max_ge_init (l : List Rat) (x : Rat) : x ≤ l.foldl max x := by
  induction l generalizing x with
  | nil => exact Rat.le_refl
  | cons a l ih => simp only [List.foldl_cons]; have := ih (max x a); grind

theorem foldl_max_ge_mem (l : List Rat) (x y : Rat) (h : y ∈ l) : y ≤ l.foldl max x := by
  induction l generalizing x with
  | nil => cases h
  | cons a l ih =>
    simp only [List.foldl_cons]
    rcases List.mem_cons.mp h with h | h
    · subst h; have := foldl_max_ge_init l (max x y); grind
    · exact ih _ h

theorem foldl_max_mem (l : List Rat) (x : Rat) : l.foldl max x = x ∨ l.foldl max x ∈ l := by
  induction l generalizing x with
  | nil => exact Or.inl rfl
  | cons a l ih =>
    simp only [List.foldl_cons]
    rcases ih (max x a) with h | h
    · rw [h]
      by_cases hx : a ≤ x
      · left; grind
      · right; have : max x a = a := by grind
        rw [this]; simp
    · exact Or.inr (List.mem_cons_of_mem _ h)

/-! ### the specification of one note, on the events of the sequence -/
section spec
variable (ctl : Int) (s : NoteSeq)

/-- the note objects of the deep copy, by original position -/
def notesOf (s : NoteSeq) : Fin s.notes.length → Note := fun i => s.notes[i]

theorem notesOf_mem (i : Fin s.notes.length) : notesOf s i ∈ s.notes := List.getElem_mem _

theorem exists_notesOf {m : Note} (h : m ∈ s.notes) : ∃ k, notesOf s k = m := by
  obtain ⟨i, hi, rfl⟩ := List.getElem_of_mem h
  exact ⟨⟨i, hi⟩, rfl⟩

theorem ccEv_time {n} (c : CC) : (ccEv (n := n) c).time = c.time := by unfold ccEv; split <;> rfl
theorem ccEv_obj {n} (c : CC) : (ccEv (n := n) c).obj = .cc c := by unfold ccEv; split <;> rfl

theorem mem_pedOn (j : Fin s.notes.length) (x : Ev s.notes.length) :
    (x ∈ sortedEvents ctl (notesOf s) s.ccs ∧ IsPedOn (notesOf s) j x) ↔
      ∃ c ∈ s.ccs, c.number = ctl ∧ c.instrument = (notesOf s j).instrument ∧ 64 ≤ c.value ∧
        x = ⟨c.time, SUSTAIN_ON, .cc c⟩ := by
  constructor
  · rintro ⟨hx, htyp, c', hobj, hi⟩
    rcases (mem_sorted ctl _ _ x).mp hx with ⟨k, _, rfl | rfl⟩ | ⟨c, hc, hn, rfl⟩
    · simp [onEv] at hobj
    · simp [offEv] at hobj
    · rw [ccEv_obj] at hobj
      simp only [Obj.cc.injEq] at hobj; subst hobj
      unfold ccEv at htyp ⊢
      split at htyp
      · rename_i hv; exact ⟨c, hc, hn, hi, hv, by simp [hv]⟩
      · exact absurd htyp (Ne.symm t01)
  · rintro ⟨c, hc, hn, hi, hv, rfl⟩
    refine ⟨(mem_sorted ctl _ _ _).mpr (Or.inr ⟨c, hc, hn, by simp [ccEv, hv]⟩), rfl, c, rfl, hi⟩

theorem mem_pedOff (j : Fin s.notes.length) (x : Ev s.notes.length) :
    (x ∈ sortedEvents ctl (notesOf s) s.ccs ∧ IsPedOff (notesOf s) j x) ↔
      ∃ c ∈ s.ccs, c.number = ctl ∧ c.instrument = (notesOf s j).instrument ∧ c.value < 64 ∧
        x = ⟨c.time, SUSTAIN_OFF, .cc c⟩ := by
  constructor
  · rintro ⟨hx, htyp, c', hobj, hi⟩
    rcases (mem_sorted ctl _ _ x).mp hx with ⟨k, _, rfl | rfl⟩ | ⟨c, hc, hn, rfl⟩
    · simp [onEv] at hobj
    · simp [offEv] at hobj
    · rw [ccEv_obj] at hobj
      simp only [Obj.cc.injEq] at hobj; subst hobj
      unfold ccEv at htyp ⊢
      split at htyp
      · exact absurd htyp t01
      · rename_i hv; exact ⟨c, hc, hn, hi, by omega, by simp [hv]⟩
  · rintro ⟨c, hc, hn, hi, hv, rfl⟩
    have hv' : ¬ 64 ≤ c.value := by omega
    refine ⟨(mem_sorted ctl _ _ _).mpr (Or.inr ⟨c, hc, hn, by simp [ccEv, hv']⟩), rfl, c, rfl, hi⟩

theorem mem_strike (j : Fin s.notes.length) (x : Ev s.notes.length) :
    (x ∈ sortedEvents ctl (notesOf s) s.ccs ∧ IsStrike (notesOf s) j x) ↔
      ∃ k, k ≠ j ∧ (notesOf s k).isDrum = false ∧
        (notesOf s k).instrument = (notesOf s j).instrument ∧
        (notesOf s k).pitch = (notesOf s j).pitch ∧ x = onEv (notesOf s) k := by
  constructor
  · rintro ⟨hx, htyp, k', hobj, hkj, hi, hp⟩
    rcases (mem_sorted ctl _ _ x).mp hx with ⟨k, hk, rfl | rfl⟩ | ⟨c, hc, hn, rfl⟩
    · simp only [onEv, Obj.note.injEq] at hobj; subst hobj
      exact ⟨k, hkj, hk, hi, hp, rfl⟩
    · exact absurd htyp (Ne.symm t23)
    · rw [ccEv_obj] at hobj; cases hobj
  · rintro ⟨k, hkj, hk, hi, hp, rfl⟩
    exact ⟨(mem_sorted ctl _ _ _).mpr (Or.inl ⟨k, hk, Or.inl rfl⟩), rfl, k, rfl, hkj, hi, hp⟩

end spec

section spec2
variable (ctl : Int) (s : NoteSeq)

theorem idx_wf (hw : WellFormed s) (i : Fin s.notes.length) (hi : (notesOf s i).isDrum = false) :
    (notesOf s i).start ≤ (notesOf s i).end_ := hw _ (notesOf_mem s i) hi

theorem idx_noov (ho : NoSamePitchOverlap s) (i k : Fin s.notes.length) (hik : i ≠ k)
    (hi : (notesOf s i).isDrum = false) (hk : (notesOf s k).isDrum = false)
    (h1 : (notesOf s i).instrument = (notesOf s k).instrument)
    (h2 : (notesOf s i).pitch = (notesOf s k).pitch) :
    (notesOf s i).start ≠ (notesOf s k).start ∧
      ((notesOf s i).start < (notesOf s k).start → (notesOf s i).end_ ≤ (notesOf s k).start) := by
  unfold NoSamePitchOverlap at ho
  rw [List.pairwise_iff_getElem] at ho
  have hne : i.val ≠ k.val := fun e => hik (Fin.ext e)
  rcases Nat.lt_or_gt_of_ne hne with hlt | hlt
  · have := ho i.val k.val i.isLt k.isLt hlt hi hk h1 h2
    exact ⟨this.1, this.2.1⟩
  · have := ho k.val i.val k.isLt i.isLt hlt hk hi h1.symm h2.symm
    exact ⟨fun e => this.1 e.symm, this.2.2⟩

theorem distinctStarts_of (ho : NoSamePitchOverlap s) : DistinctStarts (notesOf s) :=
  fun i k hik hi hk h1 h2 => (idx_noov s ho i k hik hi hk h1 h2).1

/-- event times of the model = event times of the specification -/
theorem time_mem_eventTimes (ev : Ev s.notes.length)
    (h : ev ∈ sortedEvents ctl (notesOf s) s.ccs) : ev.time ∈ eventTimes ctl s := by
  unfold eventTimes
  rcases (mem_sorted ctl _ _ ev).mp h with ⟨k, hk, rfl | rfl⟩ | ⟨c, hc, hn, rfl⟩
  · simp only [List.mem_append, List.mem_map, List.mem_filter]
    exact Or.inl (Or.inl ⟨notesOf s k, ⟨notesOf_mem s k, by simp [hk]⟩, rfl⟩)
  · simp only [List.mem_append, List.mem_map, List.mem_filter]
    exact Or.inl (Or.inr ⟨notesOf s k, ⟨notesOf_mem s k, by simp [hk]⟩, rfl⟩)
  · simp only [List.mem_append, List.mem_map, List.mem_filter]
    exact Or.inr ⟨c, ⟨hc, by simp [hn]⟩, (ccEv_time c).symm⟩

theorem eventTimes_mem_time (t : Rat) (h : t ∈ eventTimes ctl s) :
    ∃ ev ∈ sortedEvents ctl (notesOf s) s.ccs, ev.time = t := by
  unfold eventTimes at h
  simp only [List.mem_append, List.mem_map, List.mem_filter] at h
  rcases h with (⟨m, ⟨hm, hd⟩, rfl⟩ | ⟨m, ⟨hm, hd⟩, rfl⟩) | ⟨c, ⟨hc, hn⟩, rfl⟩
  · obtain ⟨k, rfl⟩ := exists_notesOf s hm
    exact ⟨onEv (notesOf s) k, (mem_sorted ctl _ _ _).mpr (Or.inl ⟨k, by simpa using hd, Or.inl rfl⟩), rfl⟩
  · obtain ⟨k, rfl⟩ := exists_notesOf s hm
    exact ⟨offEv (notesOf s) k, (mem_sorted ctl _ _ _).mpr (Or.inl ⟨k, by simpa using hd, Or.inr rfl⟩), rfl⟩
  · exact ⟨ccEv c, (mem_sorted ctl _ _ _).mpr (Or.inr ⟨c, hc, by simpa using hn, rfl⟩), ccEv_time c⟩

theorem lastEventTime_eq (ev0 : Ev s.notes.length)
    (h0 : ev0 ∈ sortedEvents ctl (notesOf s) s.ccs) :
    lastEventTime ctl s = lastTimeOf 0 (sortedEvents ctl (notesOf s) s.ccs) := by
  have hge := lastTimeOf_ge 0 _ (sorted_pairwise ctl (notesOf s) s.ccs)
  have h1 : ∀ t ∈ eventTimes ctl s, t ≤ lastEventTime ctl s ∧
      lastEventTime ctl s ∈ eventTimes ctl s := by
    intro t ht
    unfold lastEventTime
    generalize eventTimes ctl s = L at ht
    match L, ht with
    | a :: l, ht =>
      simp only
      constructor
      · rcases List.mem_cons.mp ht with h | h
        · rw [h]; exact foldl_max_ge_init l a
        · exact foldl_max_ge_mem l a t h
      · rcases foldl_max_mem l a with h | h
        · rw [h]; simp
        · exact List.mem_cons_of_mem _ h
  have hm0 := time_mem_eventTimes ctl s ev0 h0
  obtain ⟨_, hin⟩ := h1 _ hm0
  apply Rat.le_antisymm
  · obtain ⟨ev, hev, he⟩ := eventTimes_mem_time ctl s _ hin
    rw [← he]; exact hge ev hev
  · rcases lastTimeOf_cases 0 (sortedEvents ctl (notesOf s) s.ccs) with ⟨h, _⟩ | ⟨z, hz, h⟩
    · rw [h] at h0; cases h0
    · rw [h]; exact (h1 _ (time_mem_eventTimes ctl s z hz)).1


/-- the declarative specification of note `j` satisfies the event-level interface of layer 2 -/
theorem hspec_of_spec (hw : WellFormed s) (ho : NoSamePitchOverlap s) (j : Fin s.notes.length)
    (hj : (notesOf s j).isDrum = false) :
    HSpec (notes := notesOf s) (j := j) (sortedEvents ctl (notesOf s) s.ccs)
      (pedalDown ctl s.ccs (notesOf s j).instrument (notesOf s j).end_)
      (heldEnd ctl s (notesOf s j))
      (lastTimeOf 0 (sortedEvents ctl (notesOf s) s.ccs)) := by
  have hoffE : offEv (notesOf s) j ∈ sortedEvents ctl (notesOf s) s.ccs :=
    (mem_sorted ctl _ _ _).mpr (Or.inl ⟨j, hj, Or.inr rfl⟩)
  have hLT := lastEventTime_eq ctl s _ hoffE
  have hHpd : pedalDown ctl s.ccs (notesOf s j).instrument (notesOf s j).end_ →
      heldEnd ctl s (notesOf s j) =
        (releaseTimes ctl s (notesOf s j) ++ restrikeTimes s (notesOf s j)).foldl min
          (lastEventTime ctl s) := by
    intro hpd
    unfold heldEnd
    rw [if_neg]
    rw [hj]; simp [hpd]
  -- closing events are exactly the candidates of the minimum
  have hclosing : ∀ x ∈ sortedEvents ctl (notesOf s) s.ccs, Closing (notesOf s) j x →
      x.time ∈ releaseTimes ctl s (notesOf s j) ++ restrikeTimes s (notesOf s j) := by
    intro x hx hcl
    rw [List.mem_append]
    rcases hcl with ⟨hoff, hlt⟩ | ⟨hst, hle⟩
    · left
      obtain ⟨c, hc, hn, hi, hv, rfl⟩ := (mem_pedOff ctl s j x).mp ⟨hx, hoff⟩
      simp only [releaseTimes, List.mem_map, List.mem_filter]
      exact ⟨c, ⟨hc, by simp [hn, hi, hv]; exact hlt⟩, rfl⟩
    · right
      obtain ⟨k, hkj, hkd, hki, hkp, rfl⟩ := (mem_strike ctl s j x).mp ⟨hx, hst⟩
      simp only [restrikeTimes, List.mem_map, List.mem_filter]
      refine ⟨notesOf s k, ⟨notesOf_mem s k, ?_⟩, rfl⟩
      have hne : notesOf s k ≠ notesOf s j := by
        intro e
        exact (idx_noov s ho k j hkj hkd hj hki hkp).1 (by rw [e])
      simp only [onEv] at hle
      simp [hne, hkd, hki, hkp, hle]
  constructor
  · -- pd_iff
    unfold pedalDown
    constructor
    · rintro ⟨c, hc, hn, hi, hv, ht, hall⟩
      refine ⟨⟨c.time, SUSTAIN_ON, .cc c⟩, ((mem_pedOn ctl s j _).mpr ⟨c, hc, hn, hi, hv, rfl⟩).1,
        ((mem_pedOn ctl s j _).mpr ⟨c, hc, hn, hi, hv, rfl⟩).2, ht, ?_⟩
      intro y hy hoff hyt
      obtain ⟨c', hc', hn', hi', hv', rfl⟩ := (mem_pedOff ctl s j y).mp ⟨hy, hoff⟩
      exact hall c' hc' hn' hi' hv' hyt
    · rintro ⟨x, hx, hon, hxt, hall⟩
      obtain ⟨c, hc, hn, hi, hv, rfl⟩ := (mem_pedOn ctl s j x).mp ⟨hx, hon⟩
      refine ⟨c, hc, hn, hi, hv, hxt, ?_⟩
      intro c' hc' hn' hi' hv' ht'
      have := (mem_pedOff ctl s j ⟨c'.time, SUSTAIN_OFF, .cc c'⟩).mpr ⟨c', hc', hn', hi', hv', rfl⟩
      exact hall _ this.1 this.2 ht'
  · -- h_nopd
    intro hnpd
    unfold heldEnd
    rw [if_pos (Or.inr hnpd)]
  · -- h_le_last
    intro hpd
    rw [hHpd hpd, ← hLT]
    exact foldl_min_le_init _ _
  · -- h_le_closing
    intro hpd x hx hcl
    rw [hHpd hpd]
    exact foldl_min_le_mem _ _ _ (hclosing x hx hcl)
  · -- h_attained
    intro hpd
    rw [hHpd hpd]
    rcases foldl_min_mem (releaseTimes ctl s (notesOf s j) ++ restrikeTimes s (notesOf s j))
      (lastEventTime ctl s) with h | h
    · left; rw [h, hLT]
    · right
      rw [List.mem_append] at h
      rcases h with h | h
      · simp only [releaseTimes, List.mem_map, List.mem_filter] at h
        obtain ⟨c, ⟨hc, hcond⟩, hct⟩ := h
        simp only [decide_eq_true_eq] at hcond
        obtain ⟨hn, hi, hv, hlt⟩ := hcond
        have := (mem_pedOff ctl s j ⟨c.time, SUSTAIN_OFF, .cc c⟩).mpr ⟨c, hc, hn, hi, hv, rfl⟩
        exact ⟨_, this.1, Or.inl ⟨this.2, hlt⟩, hct.symm⟩
      · simp only [restrikeTimes, List.mem_map, List.mem_filter] at h
        obtain ⟨m, ⟨hm, hcond⟩, hmt⟩ := h
        simp only [decide_eq_true_eq] at hcond
        obtain ⟨hne, hmd, hmi, hmp, hle⟩ := hcond
        obtain ⟨k, rfl⟩ := exists_notesOf s hm
        have hkj : k ≠ j := fun e => hne (by rw [e])
        have := (mem_strike ctl s j (onEv (notesOf s) k)).mpr ⟨k, hkj, hmd, hmi, hmp, rfl⟩
        exact ⟨_, this.1, Or.inr ⟨this.2, hle⟩, hmt.symm⟩
  · exact lastTimeOf_ge 0 _ (sorted_pairwise ctl (notesOf s) s.ccs)

end spec2

end NSV.C14
