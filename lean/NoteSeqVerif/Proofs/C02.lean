import NoteSeqVerif.Model.C02
/-! C02 — specification vocabulary and helper lemmas.
Main result: `run_eq_spec`, the closed form of the generic single-pass loop: for sorted events and
sorted split times, piece `[a, b)` is

    enter (memory after all events "before" a)  ++  (events within (a, b)).map (place a b)

(`before`/`within` are `≤ a`, `a < · < b` for the state loops and `< a`, `a ≤ · < b` for notes and beats). -/
namespace NSV.C02

variable {α μ : Type}

/-! ## specification vocabulary -/

/-- the event time `t` lies inside the piece `[a, b)`: strictly after `a` for state events (an event
at `a` is carried state), from `a` on for notes and beats; always strictly before `b`. -/
def within (strict : Bool) (a b t : Rat) : Bool :=
  if strict then decide (a < t) && decide (t < b) else decide (a ≤ t) && decide (t < b)

/-- events stored inside the piece `[a, b)`, in the order of `E` -/
def inside (L : Loop α μ) (a b : Rat) (E : List α) : List α :=
  (E.filter (fun e => within L.strict a b (L.time e))).map (L.place a b)

/-- the remembered state at split time `x`: all events before `x` folded into `m` -/
def memAt (L : Loop α μ) (m : μ) (x : Rat) (E : List α) : μ :=
  (E.filter (fun e => before L.strict x (L.time e))).foldl L.upd m

def pieceSpec (L : Loop α μ) (m : μ) (E : List α) (ab : Rat × Rat) : List α :=
  L.enter (memAt L m ab.1 E) ++ inside L ab.1 ab.2 E

def tailSpec (L : Loop α μ) (m : μ) (E : List α) (l : List Rat) : List (List α) :=
  (pairs l).map (pieceSpec L m E)

/-- sorted split times -/
abbrev SortedLE (l : List Rat) : Prop := l.Pairwise (fun a b => a ≤ b)

/-! ## small facts -/

theorem before_mono {s : Bool} {x y t : Rat} (h : x ≤ y) (hb : before s x t = true) :
    before s y t = true := by
  unfold before at *; cases s <;> simp at * <;> grind

theorem before_anti {s : Bool} {x t t' : Rat} (h : t ≤ t') (hb : before s x t = false) :
    before s x t' = false := by
  unfold before at *; cases s <;> simp at * <;> grind

theorem within_before {s : Bool} {a b t : Rat} (h : within s a b t = true) : before s b t = true := by
  unfold within before at *; cases s <;> simp at * <;> grind

theorem within_not_before {s : Bool} {a b t : Rat} (h : within s a b t = true) : before s a t = false := by
  unfold within before at *; cases s <;> simp at * <;> grind

theorem pairs_length (b : Rat) (r : List Rat) : (pairs (b :: r)).length = r.length := by
  induction r generalizing b with
  | nil => simp [pairs]
  | cons c r ih => simp [pairs, ih]

theorem mem_pairs {l : List Rat} {p : Rat × Rat} (h : p ∈ pairs l) : p.1 ∈ l ∧ p.2 ∈ l := by
  induction l with
  | nil => simp [pairs] at h
  | cons a l ih =>
    cases l with
    | nil => simp [pairs] at h
    | cons b r =>
      simp only [pairs, List.mem_cons] at h
      rcases h with h | h
      · subst h; simp
      · have := ih h
        simp only [List.mem_cons] at this ⊢
        exact ⟨Or.inr this.1, Or.inr this.2⟩

theorem pairs_map_const {β : Type} (b : Rat) (r : List Rat) (x : β) :
    (pairs (b :: r)).map (fun _ => x) = List.replicate r.length x := by
  rw [List.map_const', pairs_length]

theorem finish_some (ent : List α) (done : List (List α)) (a : Rat) (c : List α) (b : Rat) (r : List Rat) :
    finish ent ⟨done, some (a, c), b :: r⟩ = done ++ c :: List.replicate r.length ent := by
  simp [finish]

theorem tailSpec_nil (L : Loop α μ) (m : μ) (b : Rat) (r : List Rat) :
    tailSpec L m [] (b :: r) = List.replicate r.length (L.enter m) := by
  unfold tailSpec
  rw [← pairs_map_const b r (L.enter m)]
  apply List.map_congr_left
  intro p _
  simp [pieceSpec, memAt, inside]

/-- consuming an event that is before every split time of `l` only updates the memory -/
theorem tailSpec_cons_before (L : Loop α μ) (m : μ) (e : α) (es : List α) (l : List Rat)
    (h : ∀ x ∈ l, before L.strict x (L.time e) = true) :
    tailSpec L m (e :: es) l = tailSpec L (L.upd m e) es l := by
  unfold tailSpec
  apply List.map_congr_left
  intro p hp
  have hx := h p.1 (mem_pairs hp).1
  have hw : within L.strict p.1 p.2 (L.time e) = false := by
    cases hw : within L.strict p.1 p.2 (L.time e) with
    | false => rfl
    | true => have := within_not_before hw; simp [hx] at this
  simp [pieceSpec, memAt, inside, hx, hw]

/-- events none of which is before `b`: the piece ending at `b` receives nothing, the memory at `b`
is unchanged -/
theorem inside_eq_nil (L : Loop α μ) (a b : Rat) (E : List α)
    (h : ∀ e ∈ E, before L.strict b (L.time e) = false) : inside L a b E = [] := by
  unfold inside
  rw [List.map_eq_nil_iff, List.filter_eq_nil_iff]
  intro e he hw
  have := within_before hw
  simp [h e he] at this

theorem memAt_eq (L : Loop α μ) (m : μ) (b : Rat) (E : List α)
    (h : ∀ e ∈ E, before L.strict b (L.time e) = false) : memAt L m b E = m := by
  unfold memAt
  have : E.filter (fun e => before L.strict b (L.time e)) = [] := by
    rw [List.filter_eq_nil_iff]; intro e he; simp [h e he]
  simp [this]

/-! ## the loop equals its closed form -/

theorem run_cons_pass (L : Loop α μ) (t0 : Rat) (e : α) (es : List α) (m : μ)
    (done : List (List α)) (a : Rat) (c : List α) (b b' : Rat) (r : List Rat)
    (hskip : before L.strict t0 (L.time e) = false) (hpass : before L.strict b (L.time e) = false) :
    run L t0 (e :: es) m ⟨done, some (a, c), b :: b' :: r⟩ =
      run L t0 (e :: es) m ⟨done ++ [c], some (b, L.enter m), b' :: r⟩ := by
  simp [run, hskip, adv, hpass]

theorem run_general (L : Loop α μ) (t0 : Rat) : ∀ (E : List α),
    E.Pairwise (fun x y => L.time x ≤ L.time y) →
    ∀ (r : List Rat) (b a : Rat) (c : List α) (done : List (List α)) (m : μ),
      t0 ≤ a → SortedLE (a :: b :: r) → (∀ e ∈ E, before L.strict a (L.time e) = false) →
      run L t0 E m ⟨done, some (a, c), b :: r⟩ =
        done ++ (c ++ inside L a b E) :: tailSpec L m E (b :: r) := by
  intro E
  induction E with
  | nil =>
    intro _ r b a c done m _ _ _
    simp [run, finish_some, tailSpec_nil, inside]
  | cons e es ih =>
    intro hE r
    have hes : es.Pairwise (fun x y => L.time x ≤ L.time y) := (List.pairwise_cons.mp hE).2
    have hle : ∀ e' ∈ es, L.time e ≤ L.time e' := (List.pairwise_cons.mp hE).1
    induction r with
    | nil =>
      intro b a c done m h0 hs hnb
      have hea : before L.strict a (L.time e) = false := hnb e (by simp)
      have hskip : before L.strict t0 (L.time e) = false := by
        cases hh : before L.strict t0 (L.time e) with
        | false => rfl
        | true => have := before_mono h0 hh; simp [hea] at this
      have hab : a ≤ b := by
        have := (List.pairwise_cons.mp hs).1 b (by simp); exact this
      cases hp : before L.strict b (L.time e) with
      | false =>
        -- passes the last split time: break
        have hall : ∀ e' ∈ e :: es, before L.strict b (L.time e') = false := by
          intro e' he'
          rcases List.mem_cons.mp he' with h | h
          · subst h; exact hp
          · exact before_anti (hle e' h) hp
        simp [run, hskip, adv, hp, finish, inside_eq_nil L a b (e :: es) hall, tailSpec, pairs]
      | true =>
        have hnb' : ∀ e' ∈ es, before L.strict a (L.time e') = false := by
          intro e' he'; exact before_anti (hle e' he') hea
        have hrec := ih hes [] b a
        have hts := tailSpec_cons_before L m e es [b] (by intro x hx; simp at hx; subst hx; exact hp)
        have hw : within L.strict a b (L.time e) = (if L.strict then decide (L.time e < b) else true) := by
          unfold within before at *
          cases hst : L.strict <;> simp [hst] at * <;> grind
        simp only [run, hskip, adv, hp]
        simp only [Bool.not_true, Bool.false_eq_true, ↓reduceIte]
        rw [hrec _ _ _ h0 hs hnb', hts]
        simp only [inside, List.filter_cons, hw]
        cases hst : L.strict <;> simp
        · split <;> simp
    | cons b' r ihr =>
      intro b a c done m h0 hs hnb
      have hea : before L.strict a (L.time e) = false := hnb e (by simp)
      have hskip : before L.strict t0 (L.time e) = false := by
        cases hh : before L.strict t0 (L.time e) with
        | false => rfl
        | true => have := before_mono h0 hh; simp [hea] at this
      have hab : a ≤ b := (List.pairwise_cons.mp hs).1 b (by simp)
      have hs' : SortedLE (b :: b' :: r) := (List.pairwise_cons.mp hs).2
      cases hp : before L.strict b (L.time e) with
      | false =>
        have hall : ∀ e' ∈ e :: es, before L.strict b (L.time e') = false := by
          intro e' he'
          rcases List.mem_cons.mp he' with h | h
          · subst h; exact hp
          · exact before_anti (hle e' h) hp
        rw [run_cons_pass L t0 e es m done a c b b' r hskip hp]
        rw [ihr b' b (L.enter m) (done ++ [c]) m (Rat.le_trans h0 hab) hs' hall]
        rw [inside_eq_nil L a b (e :: es) hall]
        simp [tailSpec, pairs, pieceSpec, memAt_eq L m b (e :: es) hall]
      | true =>
        have hnb' : ∀ e' ∈ es, before L.strict a (L.time e') = false := by
          intro e' he'; exact before_anti (hle e' he') hea
        have hrec := ih hes (b' :: r) b a
        have hts := tailSpec_cons_before L m e es (b :: b' :: r) (by
          intro x hx
          rcases List.mem_cons.mp hx with h | h
          · subst h; exact hp
          · exact before_mono ((List.pairwise_cons.mp hs').1 x h) hp)
        have hw : within L.strict a b (L.time e) = (if L.strict then decide (L.time e < b) else true) := by
          unfold within before at *
          cases hst : L.strict <;> simp [hst] at * <;> grind
        simp only [run, hskip, adv, hp]
        simp only [Bool.not_true, Bool.false_eq_true, ↓reduceIte]
        rw [hrec _ _ _ h0 hs hnb', hts]
        simp only [inside, List.filter_cons, hw]
        cases hst : L.strict <;> simp
        · split <;> simp

/-- **closed form of the generic single-pass loop** -/
theorem run_eq_spec (L : Loop α μ) (m0 : μ) (t0 : Rat) (r : List Rat) (E : List α)
    (hst : SortedLE (t0 :: r)) (hE : E.Pairwise (fun x y => L.time x ≤ L.time y)) :
    runLoop L m0 (t0 :: r) t0 E = (pairs (t0 :: r)).map (pieceSpec L m0 E) := by
  unfold runLoop
  induction E generalizing m0 with
  | nil =>
    have := tailSpec_nil L m0 t0 r
    simp [run, finish, tailSpec] at *
    exact this.symm
  | cons e es ih =>
    have hes : es.Pairwise (fun x y => L.time x ≤ L.time y) := (List.pairwise_cons.mp hE).2
    have hle : ∀ e' ∈ es, L.time e ≤ L.time e' := (List.pairwise_cons.mp hE).1
    cases hp : before L.strict t0 (L.time e) with
    | true =>
      have hts := tailSpec_cons_before L m0 e es (t0 :: r) (by
        intro x hx
        rcases List.mem_cons.mp hx with h | h
        · subst h; exact hp
        · exact before_mono ((List.pairwise_cons.mp hst).1 x h) hp)
      simp only [run, hp, ↓reduceIte]
      rw [ih (L.upd m0 e) hes]
      exact hts.symm
    | false =>
      have hall : ∀ e' ∈ e :: es, before L.strict t0 (L.time e') = false := by
        intro e' he'
        rcases List.mem_cons.mp he' with h | h
        · subst h; exact hp
        · exact before_anti (hle e' h) hp
      cases r with
      | nil => simp [run, hp, adv, finish, pairs]
      | cons b r =>
        have h1 : run L t0 (e :: es) m0 ⟨[], none, t0 :: b :: r⟩ =
            run L t0 (e :: es) m0 ⟨[], some (t0, L.enter m0), b :: r⟩ := by
          simp [run, hp, adv]
        rw [h1, run_general L t0 (e :: es) hE r b t0 (L.enter m0) [] m0 (Rat.le_refl) hst hall]
        simp [tailSpec, pairs, pieceSpec, memAt_eq L m0 t0 (e :: es) hall]

theorem runLoop_length (L : Loop α μ) (m0 : μ) (t0 : Rat) (r : List Rat) (E : List α)
    (hst : SortedLE (t0 :: r)) (hE : E.Pairwise (fun x y => L.time x ≤ L.time y)) :
    (runLoop L m0 (t0 :: r) t0 E).length = r.length := by
  rw [run_eq_spec L m0 t0 r E hst hE, List.length_map, pairs_length]

end NSV.C02
