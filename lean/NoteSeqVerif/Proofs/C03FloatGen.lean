import NoteSeqVerif.Proofs.C03Float
/-! helper lemmas for C03, part 4: the float round trip time → tick → time on a GENERAL piecewise tick map
(any number of tempo segments), for every `Rounding R`.

Route: every array entry is `R (b + R (c₀ · (k - s₀)))` for the base time `b`, start tick `s₀` and scale `c₀` of its
segment (`seg_repr` for two consecutive ticks, `tail_repr` for all ticks from the last tempo change on); the two
numeric lemmas `inside_num` / `beyond_num` bound the distance to the chosen tick in those terms. -/
namespace NSV.C03
open NSV

variable {R : ℚ → ℚ}

theorem ttAux_cons_ge (hR : Rounding R) (base : ℚ) (s : Int) (c : ℚ) (s' : Int) (c' : ℚ) (rest : List (Int × ℚ))
    (hs : SortedFrom s' rest) {j : Int} (hj : s' ≤ j) :
    ttAux R base s c ((s', c') :: rest) j = ttAux R (R (base + R (c * ((s' - s : Int) : ℚ)))) s' c' rest j := by
  simp only [ttAux]
  by_cases h : j ≤ s'
  · have : j = s' := by omega
    subst this
    rw [if_pos h, ttAux_start_R hR _ _ _ _ hs, hR.idem]
  · rw [if_neg h]

/-- two consecutive ticks `j`, `j + 1` are computed from the same segment data -/
theorem seg_repr (hR : Rounding R) (rest : List (Int × ℚ)) (base : ℚ) (s : Int) (c : ℚ) (hb : R base = base)
    (hb0 : 0 ≤ base) (hc : 0 ≤ c) (hp : ∀ p ∈ rest, 0 ≤ p.2) (hs : SortedFrom s rest) (j : Int) (hj : s ≤ j) :
    ∃ (b : ℚ) (s0 : Int) (c0 : ℚ), R b = b ∧ 0 ≤ b ∧ s0 ≤ j ∧ 0 ≤ c0 ∧ c0 ≤ maxScaleOf c rest ∧
      ttAux R base s c rest j = R (b + R (c0 * ((j - s0 : Int) : ℚ))) ∧
      ttAux R base s c rest (j + 1) = R (b + R (c0 * ((j + 1 - s0 : Int) : ℚ))) := by
  induction rest generalizing base s c with
  | nil => exact ⟨base, s, c, hb, hb0, hj, hc, le_refl _, rfl, rfl⟩
  | cons p r ih =>
    obtain ⟨s', c'⟩ := p
    have hc' : 0 ≤ c' := hp (s', c') (by simp)
    have hp' : ∀ q ∈ r, 0 ≤ q.2 := fun q hq => hp q (List.mem_cons_of_mem _ hq)
    by_cases h1 : j + 1 ≤ s'
    · refine ⟨base, s, c, hb, hb0, hj, hc, ?_, ?_, ?_⟩
      · simp only [maxScaleOf]; exact le_max_left _ _
      · simp only [ttAux]; rw [if_pos (by omega)]
      · simp only [ttAux]; rw [if_pos h1]
    · have hj' : s' ≤ j := by omega
      have hbase' : 0 ≤ base + R (c * ((s' - s : Int) : ℚ)) := by
        have h0 : (0 : ℚ) ≤ ((s' - s : Int) : ℚ) := by
          have := hs.1
          exact_mod_cast (by omega : 0 ≤ s' - s)
        have := hR.nonneg (mul_nonneg hc h0)
        linarith
      obtain ⟨b, s0, c0, e1, e2, e3, e4, e5, e6, e7⟩ :=
        ih (R (base + R (c * ((s' - s : Int) : ℚ)))) s' c' (hR.idem _) (hR.nonneg hbase') hc' hp' hs.2 hj'
      refine ⟨b, s0, c0, e1, e2, e3, e4, ?_, ?_, ?_⟩
      · simp only [maxScaleOf]; exact le_trans e5 (le_max_right _ _)
      · rw [ttAux_cons_ge hR _ _ _ _ _ _ hs.2 hj']; exact e6
      · rw [ttAux_cons_ge hR _ _ _ _ _ _ hs.2 (by omega)]; exact e7

/-- from the last tempo tick on, the array is one segment with the final scale -/
theorem tail_repr (hR : Rounding R) (rest : List (Int × ℚ)) (base : ℚ) (s : Int) (c : ℚ) (hb : R base = base)
    (hb0 : 0 ≤ base) (hc : 0 ≤ c) (hp : ∀ p ∈ rest, 0 ≤ p.2) (hs : SortedFrom s rest) :
    ∃ b : ℚ, R b = b ∧ 0 ≤ b ∧ ∀ k : Int, maxTickOf s rest ≤ k →
      ttAux R base s c rest k = R (b + R (lastOf c rest * ((k - maxTickOf s rest : Int) : ℚ))) := by
  induction rest generalizing base s c with
  | nil => exact ⟨base, hb, hb0, fun k _ => rfl⟩
  | cons p r ih =>
    obtain ⟨s', c'⟩ := p
    have hc' : 0 ≤ c' := hp (s', c') (by simp)
    have hp' : ∀ q ∈ r, 0 ≤ q.2 := fun q hq => hp q (List.mem_cons_of_mem _ hq)
    have hbase' : 0 ≤ base + R (c * ((s' - s : Int) : ℚ)) := by
      have h0 : (0 : ℚ) ≤ ((s' - s : Int) : ℚ) := by
        have := hs.1
        exact_mod_cast (by omega : 0 ≤ s' - s)
      have := hR.nonneg (mul_nonneg hc h0)
      linarith
    obtain ⟨b, e1, e2, e3⟩ :=
      ih (R (base + R (c * ((s' - s : Int) : ℚ)))) s' c' (hR.idem _) (hR.nonneg hbase') hc' hp' hs.2
    have hmax : maxTickOf s ((s', c') :: r) = maxTickOf s' r := by
      have := hs.1
      simp only [maxTickOf]
      split
      · rfl
      · rw [show s = s' by omega]
    refine ⟨b, e1, e2, ?_⟩
    intro k hk
    rw [hmax] at hk ⊢
    have hk' : s' ≤ k := le_trans (le_maxTickOf s' r).1 hk
    rw [ttAux_cons_ge hR _ _ _ _ _ _ hs.2 hk']
    exact e3 k hk

/-! ### numeric lemmas -/

/-- width of one float tick inside a segment -/
theorem width_R (hR : Rounding R) {b c0 x : ℚ} (hb : 0 ≤ b) (hc : 0 ≤ c0) (hx : 0 ≤ x) :
    R (b + R (c0 * (x + 1))) - R (b + R (c0 * x)) ≤ c0 + R (b + R (c0 * (x + 1))) * (5 / 2 ^ 53) := by
  have e : c0 * (x + 1) = c0 * x + c0 := by ring
  rw [e]
  have hcx : 0 ≤ c0 * x := mul_nonneg hc hx
  obtain ⟨pl, pu⟩ := hR.bounds hcx
  obtain ⟨pl', pu'⟩ := hR.bounds (show 0 ≤ c0 * x + c0 by linarith)
  have hp0 := hR.nonneg hcx
  have hp0' := hR.nonneg (show 0 ≤ c0 * x + c0 by linarith)
  obtain ⟨al, au⟩ := hR.bounds (show 0 ≤ b + R (c0 * x) by linarith)
  obtain ⟨al', au'⟩ := hR.bounds (show 0 ≤ b + R (c0 * x + c0) by linarith)
  norm_num at *
  linarith

/-- inside the array: `A = arr (i-1) < t ≤ A' = arr i`, both from the same segment; whichever of the two ticks
`time_to_tick`'s comparison of the rounded distances picks, it is within half a tick (plus roundings) of `t` -/
theorem inside_num (hR : Rounding R) {b c0 C x t : ℚ} (hb : 0 ≤ b) (hc : 0 ≤ c0) (hcC : c0 ≤ C) (hx : 0 ≤ x)
    (h1 : R (b + R (c0 * x)) < t) (h2 : t ≤ R (b + R (c0 * (x + 1)))) :
    (absR (R (t - R (b + R (c0 * x)))) < absR (R (t - R (b + R (c0 * (x + 1))))) →
      |R (b + R (c0 * x)) - t| ≤ C / 2 * (1 + 1 / 2 ^ 49) + t * (1 / 2 ^ 49)) ∧
    (¬ absR (R (t - R (b + R (c0 * x)))) < absR (R (t - R (b + R (c0 * (x + 1))))) →
      |R (b + R (c0 * (x + 1))) - t| ≤ C / 2 * (1 + 1 / 2 ^ 49) + t * (1 / 2 ^ 49)) := by
  have hw := width_R hR hb hc hx
  set A := R (b + R (c0 * x)) with hA
  set A' := R (b + R (c0 * (x + 1))) with hA'
  have hA0 : 0 ≤ A := hR.nonneg (by have := hR.nonneg (mul_nonneg hc hx); linarith)
  have hd1 : 0 ≤ t - A := by linarith
  have hd2 : 0 ≤ A' - t := by linarith
  obtain ⟨l1, u1⟩ := hR.bounds hd1
  obtain ⟨l2, u2⟩ := hR.bounds hd2
  have e2 : R (t - A') = - R (A' - t) := by rw [← hR.neg]; congr 1; ring
  have a1 : absR (R (t - A)) = R (t - A) := absR_of_nonneg (hR.nonneg hd1)
  have a2 : absR (R (t - A')) = R (A' - t) := by
    rw [e2, absR_of_nonpos (by have := hR.nonneg hd2; linarith)]; ring
  rw [a1, a2]
  constructor
  · intro hlt
    rw [abs_le]
    constructor <;> norm_num at * <;> linarith
  · intro hge
    have hge := not_lt.mp hge
    rw [abs_le]
    constructor <;> norm_num at * <;> linarith

/-- beyond the array: `K = round (R (M + R (R (t - arr M) / ls)))`, everything from the last segment -/
theorem beyond_num (hR : Rounding R) {b ls t Mq Kq sq : ℚ} (hb : 0 ≤ b) (hls : 0 < ls) (hs : 0 ≤ sq)
    (hsM : sq ≤ Mq) (hMK : Mq ≤ Kq)
    (hgt : R (b + R (ls * (Mq - sq))) < t)
    (hK1 : Kq ≤ R (Mq + R (R (t - R (b + R (ls * (Mq - sq)))) / ls)) + 1 / 2)
    (hK2 : R (Mq + R (R (t - R (b + R (ls * (Mq - sq)))) / ls)) - 1 / 2 ≤ Kq) :
    |R (b + R (ls * (Kq - sq))) - t| ≤ ls / 2 * (1 + 1 / 2 ^ 49) + (t + ls * Mq) * (1 / 2 ^ 49) := by
  have hM0 : 0 ≤ Mq := le_trans hs hsM
  have h1 : 0 ≤ ls * (Mq - sq) := mul_nonneg hls.le (by linarith)
  obtain ⟨pml, pmu⟩ := hR.bounds h1
  have hpm0 := hR.nonneg h1
  obtain ⟨aml, amu⟩ := hR.bounds (show 0 ≤ b + R (ls * (Mq - sq)) by linarith)
  set aM := R (b + R (ls * (Mq - sq))) with haM
  have hd0 : 0 ≤ t - aM := by linarith
  obtain ⟨dl, du⟩ := hR.bounds hd0
  have hD0 := hR.nonneg hd0
  set D := R (t - aM) with hD
  have hq0 : 0 ≤ D / ls := div_nonneg hD0 hls.le
  obtain ⟨ql, qu⟩ := hR.bounds hq0
  have hqq0 := hR.nonneg hq0
  set q := R (D / ls) with hq
  have elq : ls * (D / ls) = D := by field_simp
  have lql : D * (1 - 1 / 2 ^ 53) ≤ ls * q := by
    have := mul_le_mul_of_nonneg_left ql hls.le
    rwa [← mul_assoc, elq] at this
  have lqu : ls * q ≤ D * (1 + 1 / 2 ^ 53) := by
    have := mul_le_mul_of_nonneg_left qu hls.le
    rwa [← mul_assoc, elq] at this
  obtain ⟨zl, zu⟩ := hR.bounds (show 0 ≤ Mq + q by linarith)
  set z := R (Mq + q) with hz
  have lzl : (ls * Mq + ls * q) * (1 - 1 / 2 ^ 53) ≤ ls * z := by
    have := mul_le_mul_of_nonneg_left zl hls.le
    linarith
  have lzu : ls * z ≤ (ls * Mq + ls * q) * (1 + 1 / 2 ^ 53) := by
    have := mul_le_mul_of_nonneg_left zu hls.le
    linarith
  have lK1 : ls * Kq ≤ ls * z + ls / 2 := by
    have := mul_le_mul_of_nonneg_left hK1 hls.le
    linarith
  have lK2 : ls * z - ls / 2 ≤ ls * Kq := by
    have := mul_le_mul_of_nonneg_left hK2 hls.le
    linarith
  have lMK : ls * Mq ≤ ls * Kq := mul_le_mul_of_nonneg_left hMK hls.le
  have lsM : ls * sq ≤ ls * Mq := mul_le_mul_of_nonneg_left hsM hls.le
  have ls0 : 0 ≤ ls * sq := mul_nonneg hls.le hs
  have h2 : 0 ≤ ls * (Kq - sq) := mul_nonneg hls.le (by linarith)
  obtain ⟨pl, pu⟩ := hR.bounds h2
  have hp0 := hR.nonneg h2
  obtain ⟨al, au⟩ := hR.bounds (show 0 ≤ b + R (ls * (Kq - sq)) by linarith)
  rw [abs_le]
  constructor <;> norm_num at * <;> linarith

/-! ### the round trip on a general map -/

/-- beyond the array the computed tick is at least `M` -/
theorem beyond_ge (hR : Rounding R) (m : TickMap) (hw : WF m) (M : Int) (hM : 0 ≤ M) (hM2 : M ≤ 2 ^ 53) (t : ℚ)
    (hgt : tickToTime R m M < t) :
    M ≤ roundHalfEven (R ((M : ℚ) + R (R (t - tickToTime R m M) / lastScale m))) := by
  have hls := lastScale_pos m hw
  have h1 : 0 ≤ R (t - tickToTime R m M) := hR.nonneg (by linarith)
  have h2 : 0 ≤ R (R (t - tickToTime R m M) / lastScale m) := hR.nonneg (div_nonneg h1 hls.le)
  have h3 := hR.mono (M : ℚ) _ (show (M : ℚ) ≤ (M : ℚ) + R (R (t - tickToTime R m M) / lastScale m) by linarith)
  rw [hR.exact_int_le (by norm_num) M (by omega)] at h3
  have h4 := roundHalfEven_mono h3
  have h5 : roundHalfEven (M : ℚ) = M := roundHalfEven_eq_of_close (by simp)
  omega

/-- Float round trip time → tick → time on a general piecewise tick map: the tick is `≥ 0` and its float time is
within half the longest tick of `t`, up to a relative `2^-49` of the tick, of `t`, and of `lastScale · M` (the term the
addition `M + (t - arr[M]) / scale` beyond the array contributes).  The bound does not depend on the number of tempo
segments. -/
theorem tick_roundtrip_R (hR : Rounding R) (m : TickMap) (hw : WF m) (M : Int) (hM : maxScaleTick m ≤ M)
    (hM2 : M ≤ 2 ^ 53) (t : ℚ) (ht : 0 ≤ t) :
    0 ≤ timeToTick R m M t ∧
    |tickToTime R m (timeToTick R m M t) - t| ≤
      maxScale m / 2 * (1 + 1 / 2 ^ 49) + (t + lastScale m * (M : ℚ)) * (1 / 2 ^ 49) := by
  have hw0 := hw.toWF0
  have hs0 : 0 ≤ maxScaleTick m := (le_maxTickOf 0 m.rest).1
  have hM0 : 0 ≤ M := le_trans hs0 hM
  have hls := lastScale_pos m hw
  have hlsC := lastScale_le m hw
  have hMq : (0 : ℚ) ≤ (M : ℚ) := by exact_mod_cast hM0
  have hextra : 0 ≤ lastScale m * (M : ℚ) := mul_nonneg hls.le hMq
  have hC0 : 0 ≤ maxScale m := le_trans hls.le hlsC
  obtain ⟨a1, a2, a3, a4⟩ := ttIdx_spec hR m hw0 M hM0 t
  rw [timeToTick_eq]
  generalize ttIdx R m M t = i at *
  by_cases hi : i = M + 1
  · rw [if_pos hi]
    have hgt : tickToTime R m M < t := a3 M hM0 (by omega)
    have hKM := beyond_ge hR m hw M hM0 hM2 t hgt
    obtain ⟨b, _, hb0, hrep⟩ := tail_repr hR m.rest 0 0 m.c0 hR.zero (le_refl 0) hw0.c0 hw0.pos hw0.sorted
    have hrep' : ∀ k : Int, maxScaleTick m ≤ k →
        tickToTime R m k = R (b + R (lastScale m * ((k : ℚ) - (maxScaleTick m : ℚ)))) := by
      intro k hk
      have := hrep k hk
      unfold tickToTime
      rw [this]
      unfold lastScale maxScaleTick
      push_cast
      rfl
    obtain ⟨r1, r2, _⟩ := roundHalfEven_spec (R ((M : ℚ) + R (R (t - tickToTime R m M) / lastScale m)))
    generalize roundHalfEven (R ((M : ℚ) + R (R (t - tickToTime R m M) / lastScale m))) = K at *
    refine ⟨by omega, ?_⟩
    rw [hrep' K (by omega)]
    rw [hrep' M hM] at hgt r1 r2
    have hb := beyond_num hR hb0 hls (show (0 : ℚ) ≤ (maxScaleTick m : ℚ) by exact_mod_cast hs0)
      (show (maxScaleTick m : ℚ) ≤ (M : ℚ) by exact_mod_cast hM) (show (M : ℚ) ≤ (K : ℚ) by exact_mod_cast hKM)
      hgt r1 r2
    refine hb.trans ?_
    have : lastScale m / 2 * (1 + 1 / 2 ^ 49) ≤ maxScale m / 2 * (1 + 1 / 2 ^ 49) :=
      mul_le_mul_of_nonneg_right (by linarith) (by norm_num)
    linarith
  · rw [if_neg hi]
    by_cases hi0 : i = 0
    · subst hi0
      rw [if_neg (by simp)]
      have h0 := arr_zero_R hR m hw0
      have : t ≤ 0 := by have := a4 (by omega); rwa [h0] at this
      have : t = 0 := le_antisymm this ht
      subst this
      rw [h0]
      refine ⟨le_refl _, ?_⟩
      simp only [sub_self, abs_zero]
      positivity
    · have hi1 : 0 ≤ i - 1 := by omega
      have hA : tickToTime R m (i - 1) < t := a3 (i - 1) hi1 (by omega)
      have hA' : t ≤ tickToTime R m i := a4 (by omega)
      obtain ⟨b, s0, c0, _, hb0, hs0i, hc0, hcC, e6, e7⟩ :=
        seg_repr hR m.rest 0 0 m.c0 hR.zero (le_refl 0) hw0.c0 hw0.pos hw0.sorted (i - 1) hi1
      have hx : (0 : ℚ) ≤ ((i - 1 - s0 : Int) : ℚ) := by exact_mod_cast (by omega : 0 ≤ i - 1 - s0)
      have ecast : ((i - 1 + 1 - s0 : Int) : ℚ) = ((i - 1 - s0 : Int) : ℚ) + 1 := by push_cast; ring
      rw [ecast] at e7
      have e6' : tickToTime R m (i - 1) = R (b + R (c0 * ((i - 1 - s0 : Int) : ℚ))) := e6
      have e7' : tickToTime R m i = R (b + R (c0 * (((i - 1 - s0 : Int) : ℚ) + 1))) := by
        have : tickToTime R m (i - 1 + 1) = R (b + R (c0 * (((i - 1 - s0 : Int) : ℚ) + 1))) := e7
        rwa [show i - 1 + 1 = i by omega] at this
      rw [e6'] at hA
      rw [e7'] at hA'
      obtain ⟨n1, n2⟩ := inside_num hR hb0 hc0 (show c0 ≤ maxScale m from hcC) hx hA hA'
      have hbnd : maxScale m / 2 * (1 + 1 / 2 ^ 49) + t * (1 / 2 ^ 49) ≤
          maxScale m / 2 * (1 + 1 / 2 ^ 49) + (t + lastScale m * (M : ℚ)) * (1 / 2 ^ 49) := by
        have : (0 : ℚ) ≤ lastScale m * (M : ℚ) * (1 / 2 ^ 49) := mul_nonneg hextra (by norm_num)
        linarith
      by_cases hc : i ≠ 0 ∧ absR (R (t - tickToTime R m (i - 1))) < absR (R (t - tickToTime R m i))
      · rw [if_pos hc]
        refine ⟨hi1, ?_⟩
        have h2 := hc.2
        rw [e6', e7'] at h2
        rw [e6']
        exact (n1 h2).trans hbnd
      · rw [if_neg hc]
        refine ⟨a1, ?_⟩
        have h2 : ¬ absR (R (t - tickToTime R m (i - 1))) < absR (R (t - tickToTime R m i)) :=
          fun h => hc ⟨hi0, h⟩
        rw [e6', e7'] at h2
        rw [e7']
        exact (n2 h2).trans hbnd

/-- inside the array a float grid time is fixed exactly when it is strictly above its predecessor (`searchsorted`
returns the first of equal entries) -/
theorem grid_fixed_inside_R (hR : Rounding R) (m : TickMap) (hw : WF m) (M : Int) (k : Int) (hk : 0 ≤ k)
    (hkM : k ≤ M) : timeToTick R m M (tickToTime R m k) = k ↔ (k = 0 ∨ tickToTime R m (k - 1) < tickToTime R m k) := by
  have hw0 := hw.toWF0
  have hM0 : 0 ≤ M := by omega
  obtain ⟨a1, a2, a3, a4⟩ := ttIdx_spec hR m hw0 M hM0 (tickToTime R m k)
  have hik : ttIdx R m M (tickToTime R m k) ≤ k := by
    by_contra h
    have := a3 k hk (by omega)
    exact lt_irrefl _ this
  rw [timeToTick_eq]
  generalize ttIdx R m M (tickToTime R m k) = i at *
  rw [if_neg (by omega)]
  constructor
  · intro h
    by_cases hk0 : k = 0
    · exact Or.inl hk0
    · right
      split_ifs at h with hc
      · omega
      · subst h
        exact a3 (i - 1) (by omega) (by omega)
  · intro h
    have hi : i = k := by
      rcases h with h | h
      · omega
      · by_contra hne
        have h1 : tickToTime R m k ≤ tickToTime R m i := a4 (by omega)
        have h2 := arr_mono_R hR m hw0 (show i ≤ k - 1 by omega)
        linarith
    subst hi
    rw [if_neg]
    rintro ⟨_, hlt⟩
    rw [sub_self, hR.zero] at hlt
    have : absR 0 = 0 := by simp [absR]
    rw [this] at hlt
    have := absR_eq (R (tickToTime R m i - tickToTime R m (i - 1)))
    rw [this] at hlt
    exact absurd hlt (not_lt.mpr (abs_nonneg _))

/-- beyond the array, on a grid time: the float `z` that `round()` sees is closer than 1/2 to the tick -/
theorem beyond_grid_num (hR : Rounding R) {b ls Mq kq sq : ℚ} (hb : 0 ≤ b) (hls : 0 < ls) (hs : 0 ≤ sq)
    (hsM : sq ≤ Mq) (hMk : Mq ≤ kq)
    (hgt : R (b + R (ls * (Mq - sq))) < R (b + R (ls * (kq - sq))))
    (hbound : R (b + R (ls * (kq - sq))) + ls * kq ≤ 2 ^ 47 * ls) :
    |R (Mq + R (R (R (b + R (ls * (kq - sq))) - R (b + R (ls * (Mq - sq)))) / ls)) - kq| < 1 / 2 := by
  have hM0 : 0 ≤ Mq := le_trans hs hsM
  have h1 : 0 ≤ ls * (Mq - sq) := mul_nonneg hls.le (by linarith)
  obtain ⟨pml, pmu⟩ := hR.bounds h1
  have hpm0 := hR.nonneg h1
  obtain ⟨aml, amu⟩ := hR.bounds (show 0 ≤ b + R (ls * (Mq - sq)) by linarith)
  set aM := R (b + R (ls * (Mq - sq))) with haM
  have h2 : 0 ≤ ls * (kq - sq) := mul_nonneg hls.le (by linarith)
  obtain ⟨pl, pu⟩ := hR.bounds h2
  have hp0 := hR.nonneg h2
  obtain ⟨tl, tu⟩ := hR.bounds (show 0 ≤ b + R (ls * (kq - sq)) by linarith)
  set t := R (b + R (ls * (kq - sq))) with ht
  have hd0 : 0 ≤ t - aM := by linarith
  obtain ⟨dl, du⟩ := hR.bounds hd0
  have hD0 := hR.nonneg hd0
  set D := R (t - aM) with hD
  have hq0 : 0 ≤ D / ls := div_nonneg hD0 hls.le
  obtain ⟨ql, qu⟩ := hR.bounds hq0
  have hqq0 := hR.nonneg hq0
  set q := R (D / ls) with hq
  have elq : ls * (D / ls) = D := by field_simp
  have lql : D * (1 - 1 / 2 ^ 53) ≤ ls * q := by
    have := mul_le_mul_of_nonneg_left ql hls.le
    rwa [← mul_assoc, elq] at this
  have lqu : ls * q ≤ D * (1 + 1 / 2 ^ 53) := by
    have := mul_le_mul_of_nonneg_left qu hls.le
    rwa [← mul_assoc, elq] at this
  obtain ⟨zl, zu⟩ := hR.bounds (show 0 ≤ Mq + q by linarith)
  set z := R (Mq + q) with hz
  have lzl : (ls * Mq + ls * q) * (1 - 1 / 2 ^ 53) ≤ ls * z := by
    have := mul_le_mul_of_nonneg_left zl hls.le
    linarith
  have lzu : ls * z ≤ (ls * Mq + ls * q) * (1 + 1 / 2 ^ 53) := by
    have := mul_le_mul_of_nonneg_left zu hls.le
    linarith
  have lMk : ls * Mq ≤ ls * kq := mul_le_mul_of_nonneg_left hMk hls.le
  have lsM : ls * sq ≤ ls * Mq := mul_le_mul_of_nonneg_left hsM hls.le
  have ls0 : 0 ≤ ls * sq := mul_nonneg hls.le hs
  -- |ls z - ls k| < ls / 2
  have key : |ls * z - ls * kq| < ls / 2 := by
    rw [abs_lt]
    constructor <;> norm_num at * <;> linarith
  have : |ls * z - ls * kq| = ls * |z - kq| := by rw [← mul_sub, abs_mul, abs_of_pos hls]
  rw [this] at key
  by_contra hge
  have := mul_le_mul_of_nonneg_left (not_lt.mp hge) hls.le
  linarith

/-- a float grid time beyond the array is written back to its tick, provided it is a time beyond the array's end at
all and `arr[k] + lastScale · k ≤ 2^47 · lastScale` (times below `2^46` ticks of the final tempo) -/
theorem grid_fixed_beyond_R (hR : Rounding R) (m : TickMap) (hw : WF m) (M : Int) (hM : maxScaleTick m ≤ M)
    (k : Int) (hk : M ≤ k) (hstrict : tickToTime R m M < tickToTime R m k)
    (hbound : tickToTime R m k + lastScale m * (k : ℚ) ≤ 2 ^ 47 * lastScale m) :
    timeToTick R m M (tickToTime R m k) = k := by
  have hw0 := hw.toWF0
  have hs0 : 0 ≤ maxScaleTick m := (le_maxTickOf 0 m.rest).1
  have hM0 : 0 ≤ M := le_trans hs0 hM
  have hls := lastScale_pos m hw
  obtain ⟨a1, a2, a3, a4⟩ := ttIdx_spec hR m hw0 M hM0 (tickToTime R m k)
  have hi : ttIdx R m M (tickToTime R m k) = M + 1 := by
    by_contra hne
    have h1 := a4 (by omega)
    have h2 := arr_mono_R hR m hw0 (show ttIdx R m M (tickToTime R m k) ≤ M by omega)
    linarith
  rw [timeToTick_eq, if_pos hi]
  obtain ⟨b, _, hb0, hrep⟩ := tail_repr hR m.rest 0 0 m.c0 hR.zero (le_refl 0) hw0.c0 hw0.pos hw0.sorted
  have hrep' : ∀ j : Int, maxScaleTick m ≤ j →
      tickToTime R m j = R (b + R (lastScale m * ((j : ℚ) - (maxScaleTick m : ℚ)))) := by
    intro j hj
    have := hrep j hj
    unfold tickToTime
    rw [this]
    unfold lastScale maxScaleTick
    push_cast
    rfl
  rw [hrep' k (by omega), hrep' M hM] at hstrict ⊢
  rw [hrep' k (by omega)] at hbound
  apply roundHalfEven_eq_of_close
  exact beyond_grid_num hR hb0 hls (show (0 : ℚ) ≤ (maxScaleTick m : ℚ) by exact_mod_cast hs0)
    (show (maxScaleTick m : ℚ) ≤ (M : ℚ) by exact_mod_cast hM) (show (M : ℚ) ≤ (k : ℚ) by exact_mod_cast hk)
    hstrict hbound

end NSV.C03
