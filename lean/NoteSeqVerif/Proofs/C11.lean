import NoteSeqVerif.Model.C11
/-! C11 (a) — lemmas for the soundness of the purity checker (core Lean only). -/
namespace NSV.C11

/-! ### the provenance lattice -/

theorem AbsVal.le_refl (a : AbsVal) : a.le a = true := by
  cases a with | mk i f => cases i <;> cases f <;> rfl

theorem AbsVal.le_join_left (a b : AbsVal) : a.le (a.join b) = true := by
  cases a with | mk i f => cases b with | mk j g => cases i <;> cases f <;> cases j <;> cases g <;> rfl

theorem AbsVal.le_join_right (a b : AbsVal) : b.le (a.join b) = true := by
  cases a with | mk i f => cases b with | mk j g => cases i <;> cases f <;> cases j <;> cases g <;> rfl

theorem AbsVal.bot_le (a : AbsVal) : AbsVal.bot.le a = true := by
  cases a with | mk i f => cases i <;> cases f <;> rfl

theorem AbsVal.le_inp {a b : AbsVal} (h : a.le b = true) (hi : a.inp = true) : b.inp = true := by
  cases a with | mk i f => cases b with | mk j g => cases i <;> cases f <;> cases j <;> cases g <;> simp_all [AbsVal.le]

theorem AbsVal.le_fr {a b : AbsVal} (h : a.le b = true) (hi : a.fr = true) : b.fr = true := by
  cases a with | mk i f => cases b with | mk j g => cases i <;> cases f <;> cases j <;> cases g <;> simp_all [AbsVal.le]

/-! ### abstract environments -/

theorem AEnv.get_nil (x : Nat) : AEnv.get [] x = AbsVal.bot := by simp [AEnv.get]

theorem AEnv.get_cons_zero (a : AbsVal) (σ : AEnv) : AEnv.get (a :: σ) 0 = a := by simp [AEnv.get]

theorem AEnv.get_cons_succ (a : AbsVal) (σ : AEnv) (x : Nat) : AEnv.get (a :: σ) (x + 1) = AEnv.get σ x := by
  simp [AEnv.get]

theorem AEnv.get_set (σ : AEnv) (x : Nat) (a : AbsVal) (y : Nat) :
    (σ.set x a).get y = if y = x then a else σ.get y := by
  induction σ generalizing x y with
  | nil =>
    induction x generalizing y with
    | zero => cases y <;> simp [AEnv.set, AEnv.get_cons_zero, AEnv.get_cons_succ, AEnv.get_nil]
    | succ x ih =>
      cases y with
      | zero => simp [AEnv.set, AEnv.get_cons_zero, AEnv.get_nil]
      | succ y => simp [AEnv.set, AEnv.get_cons_succ, ih, AEnv.get_nil]
  | cons b σ ih =>
    cases x with
    | zero => cases y <;> simp [AEnv.set, AEnv.get_cons_zero, AEnv.get_cons_succ]
    | succ x =>
      cases y with
      | zero => simp [AEnv.set, AEnv.get_cons_zero]
      | succ y => simp [AEnv.set, AEnv.get_cons_succ, ih]

theorem AEnv.get_join (σ τ : AEnv) (x : Nat) : (σ.join τ).get x = (σ.get x).join (τ.get x) := by
  induction σ generalizing τ x with
  | nil => cases τ <;> simp [AEnv.join, AEnv.get_nil, AbsVal.join, AbsVal.bot]
  | cons a σ ih =>
    cases τ with
    | nil => simp [AEnv.join, AEnv.get_nil, AbsVal.join, AbsVal.bot]
    | cons b τ =>
      cases x with
      | zero => simp [AEnv.join, AEnv.get_cons_zero]
      | succ x => simp [AEnv.join, AEnv.get_cons_succ, ih]

theorem AEnv.le_get {σ τ : AEnv} (h : σ.le τ = true) (x : Nat) : (σ.get x).le (τ.get x) = true := by
  induction σ generalizing τ x with
  | nil => simp [AEnv.get_nil, AbsVal.bot_le]
  | cons a σ ih =>
    cases τ with
    | nil =>
      simp only [AEnv.le, Bool.and_eq_true] at h
      cases x with
      | zero => simpa [AEnv.get_cons_zero, AEnv.get_nil] using h.1
      | succ x => simpa [AEnv.get_cons_succ, AEnv.get_nil] using ih h.2 x
    | cons b τ =>
      simp only [AEnv.le, Bool.and_eq_true] at h
      cases x with
      | zero => simpa [AEnv.get_cons_zero] using h.1
      | succ x => simpa [AEnv.get_cons_succ] using ih h.2 x

theorem AEnv.get_topPre {n i : Nat} (h : i < n) : AEnv.get (topPre n) i = AbsVal.both := by
  simp [AEnv.get, topPre, List.getD, h]

/-! ### values -/

theorem Sub.trans {a b c : Val} (h1 : Sub a b) (h2 : Sub b c) : Sub a c := by
  induction h1 with
  | refl => exact h2
  | left _ ih => exact Sub.left (ih h2)
  | right _ ih => exact Sub.right (ih h2)

theorem Sub.scalar_ref {o : Nat} : ¬ Sub .scalar (.ref o) := by
  intro h; cases h

theorem Sub.ref_ref {o p : Nat} (h : Sub (.ref o) (.ref p)) : p = o := by
  cases h; rfl

theorem Sub.pair_ref {a b : Val} {o : Nat} (h : Sub (.pair a b) (.ref o)) : Sub a (.ref o) ∨ Sub b (.ref o) := by
  cases h with
  | left h => exact Or.inl h
  | right h => exact Or.inr h

/-! ### concretisation -/

/-- `v` contains pre-existing objects (`< w0`) only if `a.inp`, new ones only if `a.fr` -/
def Gam (w0 : Nat) (a : AbsVal) (v : Val) : Prop :=
  ∀ o, Sub v (.ref o) → (o < w0 → a.inp = true) ∧ (w0 ≤ o → a.fr = true)

def GamEnv (w0 : Nat) (σ : AEnv) (ρ : Env) : Prop := ∀ x, Gam w0 (σ.get x) (ρ x)

def GamArgs (w0 : Nat) (σ : AEnv) (vs : List Val) : Prop := ∀ i, Gam w0 (σ.get i) (vs.getD i .scalar)

theorem Gam.scalar (w0 : Nat) (a : AbsVal) : Gam w0 a .scalar := fun _ h => absurd h Sub.scalar_ref

theorem Gam.mono {w0 : Nat} {a b : AbsVal} {v : Val} (hab : a.le b = true) (h : Gam w0 a v) : Gam w0 b v :=
  fun o ho => ⟨fun hlt => AbsVal.le_inp hab ((h o ho).1 hlt), fun hge => AbsVal.le_fr hab ((h o ho).2 hge)⟩

theorem Gam.sub {w0 : Nat} {a : AbsVal} {v c : Val} (hs : Sub v c) (h : Gam w0 a v) : Gam w0 a c :=
  fun o ho => h o (hs.trans ho)

theorem Gam.pair {w0 : Nat} {a b : AbsVal} {va vb : Val} (ha : Gam w0 a va) (hb : Gam w0 b vb) :
    Gam w0 (a.join b) (.pair va vb) := by
  intro o ho
  rcases Sub.pair_ref ho with h | h
  · exact (Gam.mono (AbsVal.le_join_left a b) ha) o h
  · exact (Gam.mono (AbsVal.le_join_right a b) hb) o h

theorem Gam.both (w0 : Nat) (v : Val) : Gam w0 AbsVal.both v := fun _ _ => ⟨fun _ => rfl, fun _ => rfl⟩

theorem Gam.fresh_ref {w0 o : Nat} (h : w0 ≤ o) : Gam w0 AbsVal.fresh (.ref o) := by
  intro p hp
  have := Sub.ref_ref hp
  subst this
  refine ⟨fun hlt => ?_, fun _ => rfl⟩
  exfalso; omega

theorem GamEnv.empty (w0 : Nat) (σ : AEnv) : GamEnv w0 σ Env.empty := fun _ => Gam.scalar _ _

theorem GamEnv.upd {w0 : Nat} {σ : AEnv} {ρ : Env} {a : AbsVal} {v : Val} (h : GamEnv w0 σ ρ) (x : Var)
    (hv : Gam w0 a v) : GamEnv w0 (σ.set x a) (ρ.upd x v) := by
  intro y
  rw [AEnv.get_set]
  unfold Env.upd
  by_cases hy : y = x
  · simp [hy]; exact hv
  · simp [hy]; exact h y

theorem GamEnv.mono {w0 : Nat} {σ τ : AEnv} {ρ : Env} (hle : σ.le τ = true) (h : GamEnv w0 σ ρ) : GamEnv w0 τ ρ :=
  fun x => Gam.mono (AEnv.le_get hle x) (h x)

theorem GamEnv.join_left {w0 : Nat} {σ : AEnv} {ρ : Env} (τ : AEnv) (h : GamEnv w0 σ ρ) : GamEnv w0 (σ.join τ) ρ := by
  intro x; rw [AEnv.get_join]; exact Gam.mono (AbsVal.le_join_left _ _) (h x)

theorem GamEnv.join_right {w0 : Nat} {τ : AEnv} {ρ : Env} (σ : AEnv) (h : GamEnv w0 τ ρ) : GamEnv w0 (σ.join τ) ρ := by
  intro x; rw [AEnv.get_join]; exact Gam.mono (AbsVal.le_join_right _ _) (h x)

theorem GamArgs.mono {w0 : Nat} {σ τ : AEnv} {vs : List Val} (hle : σ.le τ = true) (h : GamArgs w0 σ vs) :
    GamArgs w0 τ vs :=
  fun i => Gam.mono (AEnv.le_get hle i) (h i)

theorem GamArgs.top {w0 : Nat} {vs : List Val} {n : Nat} (h : vs.length = n) : GamArgs w0 (topPre n) vs := by
  intro i
  by_cases hi : i < n
  · rw [AEnv.get_topPre hi]; exact Gam.both _ _
  · have : vs.getD i .scalar = .scalar := by
      have hle : vs.length ≤ i := by omega
      simp [List.getD, List.getElem?_eq_none hle]
    rw [this]; exact Gam.scalar _ _

/-! ### the heap invariant -/

/-- relative to the watermark `w0` and the heap `h0` at the time the entry operation was called:
no pre-existing object has changed; owners and kids are on the same side of `w0`. -/
structure Inv (w0 : Nat) (h0 h : Heap) : Prop where
  same : ∀ o, o < w0 → h.cell o = h0.cell o
  own : ∀ o k, k ∈ (h.cell o).kids → (o < w0 ↔ k < w0)
  le : w0 ≤ h.next

theorem Inv.init {h : Heap} (hwf : h.WF) : Inv h.next h h :=
  ⟨fun _ _ => rfl, hwf, Nat.le_refl _⟩

theorem Inv.alloc {w0 : Nat} {h0 h h' : Heap} (hi : Inv w0 h0 h) (ha : Alloc h h') : Inv w0 h0 h' := by
  refine ⟨fun o ho => ?_, fun o k hk => ?_, Nat.le_trans hi.le ha.mono⟩
  · rw [ha.old o (Nat.lt_of_lt_of_le ho hi.le)]; exact hi.same o ho
  · by_cases ho : o < h.next
    · rw [ha.old o ho] at hk; exact hi.own o k hk
    · have h1 : h.next ≤ o := Nat.le_of_not_lt ho
      have h2 := ha.own o k h1 hk
      have := hi.le
      constructor <;> intro hh <;> omega

theorem Inv.write {w0 : Nat} {h0 h h' : Heap} {o : Nat} (hi : Inv w0 h0 h) (ho : o < h.next) (hw0 : w0 ≤ o)
    (hw : WriteAt h o h') : Inv w0 h0 h' := by
  refine ⟨fun p hp => ?_, fun p k hk => ?_, Nat.le_trans hi.le hw.mono⟩
  · have hne : p ≠ o := by omega
    rw [hw.old p (Nat.lt_of_lt_of_le hp hi.le) hne]; exact hi.same p hp
  · by_cases hpo : p = o
    · subst hpo
      rcases hw.kids k hk with hk' | hk'
      · exact hi.own p k hk'
      · have := hi.le
        constructor <;> intro hh <;> omega
    · by_cases hp : p < h.next
      · rw [hw.old p hp hpo] at hk; exact hi.own p k hk
      · have h1 : h.next ≤ p := Nat.le_of_not_lt hp
        have h2 := hw.own p k h1 hk
        have := hi.le
        constructor <;> intro hh <;> omega

theorem Gam.nav {w0 : Nat} {h0 h : Heap} {a : AbsVal} {v c : Val} (hi : Inv w0 h0 h) (hn : Nav h v c)
    (hg : Gam w0 a v) : Gam w0 a c := by
  cases hn with
  | sub hs => exact hg.sub hs
  | scalar => exact Gam.scalar _ _
  | kid hs hk =>
    rename_i o k
    intro p hp
    have := Sub.ref_ref hp
    subst this
    have hside := hi.own o p hk
    have hgo := hg o hs
    constructor
    · intro hlt; exact hgo.1 (hside.2 hlt)
    · intro hge
      apply hgo.2
      apply Nat.le_of_not_lt
      intro hlt
      have := hside.1 hlt
      omega

/-! ### expressions -/

theorem eval_sound {args : List Val} {h : Heap} {ρ : Env} {e : Expr} {v : Val} {h' : Heap}
    (hev : Eval args h ρ e v h') :
    ∀ {w0 : Nat} {h0 : Heap} {aargs σ : AEnv}, Inv w0 h0 h → GamArgs w0 aargs args → GamEnv w0 σ ρ →
      Inv w0 h0 h' ∧ Gam w0 (absExpr aargs σ e) v := by
  induction hev with
  | param => intro w0 h0 aargs σ hi ha _; exact ⟨hi, ha _⟩
  | var => intro w0 h0 aargs σ hi _ he; exact ⟨hi, he _⟩
  | scalar => intro w0 h0 aargs σ hi _ _; exact ⟨hi, Gam.scalar _ _⟩
  | fresh hal hlo _ =>
    intro w0 h0 aargs σ hi _ _
    exact ⟨hi.alloc hal, Gam.fresh_ref (Nat.le_trans hi.le hlo)⟩
  | copyOf _ hal hlo _ ih =>
    intro w0 h0 aargs σ hi ha he
    have h1 := (ih hi ha he).1
    exact ⟨h1.alloc hal, Gam.fresh_ref (Nat.le_trans h1.le hlo)⟩
  | field _ hn ih =>
    intro w0 h0 aargs σ hi ha he
    have h1 := ih hi ha he
    exact ⟨h1.1, Gam.nav h1.1 hn h1.2⟩
  | elem _ hn ih =>
    intro w0 h0 aargs σ hi ha he
    have h1 := ih hi ha he
    exact ⟨h1.1, Gam.nav h1.1 hn h1.2⟩
  | proj _ hs ih =>
    intro w0 h0 aargs σ hi ha he
    have h1 := ih hi ha he
    exact ⟨h1.1, h1.2.sub hs⟩
  | pair _ _ iha ihb =>
    intro w0 h0 aargs σ hi ha he
    have h1 := iha hi ha he
    have h2 := ihb h1.1 ha he
    exact ⟨h2.1, Gam.pair h1.2 h2.2⟩

theorem evalList_sound {args : List Val} {h : Heap} {ρ : Env} {es : List Expr} {vs : List Val} {h' : Heap}
    (hev : EvalList args h ρ es vs h') :
    ∀ {w0 : Nat} {h0 : Heap} {aargs σ : AEnv}, Inv w0 h0 h → GamArgs w0 aargs args → GamEnv w0 σ ρ →
      Inv w0 h0 h' ∧ GamArgs w0 (es.map (absExpr aargs σ)) vs := by
  induction hev with
  | nil => intro w0 h0 aargs σ hi _ _; exact ⟨hi, fun i => by simp [List.getD]; exact Gam.scalar _ _⟩
  | cons he _ ih =>
    intro w0 h0 aargs σ hi ha hρ
    have h1 := eval_sound he hi ha hρ
    have h2 := ih h1.1 ha hρ
    refine ⟨h2.1, fun i => ?_⟩
    cases i with
    | zero => simpa [AEnv.get] using h1.2
    | succ i => simpa [AEnv.get] using h2.2 i

/-! ### the loop-head environment -/

theorem checkList_get {cs : List Contract} {ds : List OpDef} {cs' : List Contract}
    (h : checkList cs ds cs' = true) {f : Nat} {d : OpDef} {c : Contract}
    (hd : ds[f]? = some d) (hc : cs'[f]? = some c) : checkOp cs d c = true := by
  induction ds generalizing cs' f with
  | nil => simp at hd
  | cons d0 ds ih =>
    cases cs' with
    | nil => simp at hc
    | cons c0 cs' =>
      simp only [checkList, Bool.and_eq_true] at h
      cases f with
      | zero =>
        simp at hd hc
        subst hd; subst hc
        exact h.1
      | succ f =>
        simp at hd hc
        exact ih h.2 hd hc


/-! ### statements -/

/-- what the abstract result `out` promises about a concrete result -/
def ResOK (w0 : Nat) (out : AOut) : Res → Prop
  | .norm ρ' => ∃ σ', out.env = some σ' ∧ GamEnv w0 σ' ρ'
  | .ret v => Gam w0 out.ret v
  | .exc => True

theorem ResOK.of_not_norm {w0 : Nat} {o1 out : AOut} {r : Res} (hn : r.isNorm = false)
    (hret : o1.ret.le out.ret = true) (h : ResOK w0 o1 r) : ResOK w0 out r := by
  cases r with
  | norm ρ => simp [Res.isNorm] at hn
  | ret v => exact Gam.mono hret h
  | exc => trivial

theorem optJoin_left {a b : Option AEnv} {σ : AEnv} {w0 : Nat} {ρ : Env} (ha : a = some σ) (h : GamEnv w0 σ ρ) :
    ∃ σ', optJoin a b = some σ' ∧ GamEnv w0 σ' ρ := by
  subst ha
  cases b with
  | none => exact ⟨σ, rfl, h⟩
  | some τ => exact ⟨σ.join τ, rfl, h.join_left τ⟩

theorem optJoin_right {a b : Option AEnv} {τ : AEnv} {w0 : Nat} {ρ : Env} (hb : b = some τ) (h : GamEnv w0 τ ρ) :
    ∃ σ', optJoin a b = some σ' ∧ GamEnv w0 σ' ρ := by
  subst hb
  cases a with
  | none => exact ⟨τ, rfl, h⟩
  | some σ => exact ⟨σ.join τ, rfl, h.join_right σ⟩

theorem AEnv.le_refl (σ : AEnv) : σ.le σ = true := by
  induction σ with
  | nil => rfl
  | cons a σ ih => simp [AEnv.le, AbsVal.le_refl, ih]

theorem AbsVal.join_absorb (a b : AbsVal) : (a.join b).join b = a.join b := by
  cases a with | mk i f => cases b with | mk j g => cases i <;> cases f <;> cases j <;> cases g <;> rfl

theorem AEnv.join_nil (σ : AEnv) : σ.join [] = σ := by cases σ <;> rfl

theorem AbsVal.join_self (a : AbsVal) : a.join a = a := by
  cases a with | mk i f => cases i <;> cases f <;> rfl

theorem AEnv.join_self (σ : AEnv) : σ.join σ = σ := by
  induction σ with
  | nil => rfl
  | cons a σ ih => simp [AEnv.join, AbsVal.join_self, ih]

/-- the loop-head environment is stable under joining the invariant again -/
theorem AEnv.join_absorb (σ τ : AEnv) : (σ.join τ).join τ = σ.join τ := by
  induction σ generalizing τ with
  | nil => simp [AEnv.join, AEnv.join_self]
  | cons a σ ih =>
    cases τ with
    | nil => simp [AEnv.join_nil]
    | cons b τ => simp [AEnv.join, AbsVal.join_absorb, ih]

theorem AEnv.le_join_left (σ τ : AEnv) : σ.le (σ.join τ) = true := by
  induction σ generalizing τ with
  | nil => rfl
  | cons a σ ih =>
    cases τ with
    | nil => simp [AEnv.join_nil, AEnv.le_refl]
    | cons b τ => simp [AEnv.join, AEnv.le, AbsVal.le_join_left, ih]

/-- **Soundness of the abstract interpretation.**  If every operation honours its contract
(`checkList`), a statement analysed without a failing obligation (`bad = []`) preserves the heap
invariant — no pre-existing object changes — whatever way it ends, and its result has the computed
provenance. -/
theorem exec_sound {ops : List OpDef} {cs : List Contract} (hcs : checkList cs ops cs = true)
    {args : List Val} {h : Heap} {ρ : Env} {s : Stmt} {h' : Heap} {r : Res}
    (hex : Exec ops args h ρ s h' r) :
    ∀ {w0 : Nat} {h0 : Heap} {aargs σ : AEnv}, (absStmt cs aargs s σ).bad = [] →
      Inv w0 h0 h → GamArgs w0 aargs args → GamEnv w0 σ ρ →
      Inv w0 h0 h' ∧ ResOK w0 (absStmt cs aargs s σ) r := by
  induction hex with
  | skip => intro w0 h0 aargs σ _ hi _ hρ; exact ⟨hi, σ, rfl, hρ⟩
  | throw => intro w0 h0 aargs σ _ hi _ _; exact ⟨hi, trivial⟩
  | assign hev =>
    intro w0 h0 aargs σ _ hi ha hρ
    have h1 := eval_sound hev hi ha hρ
    exact ⟨h1.1, _, rfl, hρ.upd _ h1.2⟩
  | @write args h ρ ln e o h1 h2 hev hlt hw =>
    intro w0 h0 aargs σ hb hi ha hρ
    have h1 := eval_sound hev hi ha hρ
    have hinp : (absExpr aargs σ e).inp = false := by
      cases hc : (absExpr aargs σ e).inp with
      | false => rfl
      | true => simp [absStmt, hc] at hb
    have hge : w0 ≤ o := by
      apply Nat.le_of_not_lt
      intro hlt'
      have := (h1.2 o (Sub.refl _)).1 hlt'
      rw [hinp] at this
      exact Bool.noConfusion this
    exact ⟨h1.1.write hlt hge hw, σ, rfl, hρ⟩
  | writeNone hev =>
    intro w0 h0 aargs σ _ hi ha hρ
    exact ⟨(eval_sound hev hi ha hρ).1, σ, rfl, hρ⟩
  | @seq args h ρ s t h1 ρ1 h2 r _ _ ih1 ih2 =>
    intro w0 h0 aargs σ hb hi ha hρ
    cases hE : (absStmt cs aargs s σ).env with
    | none =>
      have hb1 : (absStmt cs aargs s σ).bad = [] := by simpa [absStmt, hE] using hb
      obtain ⟨_, σ', hσ', _⟩ := ih1 hb1 hi ha hρ
      rw [hE] at hσ'; cases hσ'
    | some σ1 =>
      have hb' : (absStmt cs aargs s σ).bad = [] ∧ (absStmt cs aargs t σ1).bad = [] := by
        simpa [absStmt, hE] using hb
      obtain ⟨hi1, σ', hσ', hρ1⟩ := ih1 hb'.1 hi ha hρ
      rw [hE] at hσ'; cases hσ'
      obtain ⟨hi2, hr⟩ := ih2 hb'.2 hi1 ha hρ1
      refine ⟨hi2, ?_⟩
      cases r with
      | norm ρ2 =>
        obtain ⟨σ2, hσ2, hρ2⟩ := hr
        exact ⟨σ2, by simp [absStmt, hE, hσ2], hρ2⟩
      | ret v =>
        have : ResOK w0 (absStmt cs aargs (.seq s t) σ) (.ret v) := by
          simp only [absStmt, hE, ResOK]
          exact Gam.mono (AbsVal.le_join_right _ _) hr
        exact this
      | exc => trivial
  | @seqStop args h ρ s t h1 r _ hn ih =>
    intro w0 h0 aargs σ hb hi ha hρ
    cases hE : (absStmt cs aargs s σ).env with
    | none =>
      have hb1 : (absStmt cs aargs s σ).bad = [] := by simpa [absStmt, hE] using hb
      obtain ⟨hi1, hr⟩ := ih hb1 hi ha hρ
      refine ⟨hi1, ?_⟩
      have : absStmt cs aargs (.seq s t) σ = absStmt cs aargs s σ := by simp [absStmt, hE]
      rw [this]; exact hr
    | some σ1 =>
      have hb' : (absStmt cs aargs s σ).bad = [] ∧ (absStmt cs aargs t σ1).bad = [] := by
        simpa [absStmt, hE] using hb
      obtain ⟨hi1, hr⟩ := ih hb'.1 hi ha hρ
      refine ⟨hi1, ResOK.of_not_norm hn ?_ hr⟩
      simp [absStmt, hE, AbsVal.le_join_left]
  | @iteL args h ρ s t h1 r _ ih =>
    intro w0 h0 aargs σ hb hi ha hρ
    have hb' : (absStmt cs aargs s σ).bad = [] ∧ (absStmt cs aargs t σ).bad = [] := by
      simpa [absStmt] using hb
    obtain ⟨hi1, hr⟩ := ih hb'.1 hi ha hρ
    refine ⟨hi1, ?_⟩
    cases r with
    | norm ρ1 =>
      obtain ⟨σ1, hσ1, hρ1⟩ := hr
      exact optJoin_left hσ1 hρ1
    | ret v => exact Gam.mono (AbsVal.le_join_left _ _) hr
    | exc => trivial
  | @iteR args h ρ s t h1 r _ ih =>
    intro w0 h0 aargs σ hb hi ha hρ
    have hb' : (absStmt cs aargs s σ).bad = [] ∧ (absStmt cs aargs t σ).bad = [] := by
      simpa [absStmt] using hb
    obtain ⟨hi1, hr⟩ := ih hb'.2 hi ha hρ
    refine ⟨hi1, ?_⟩
    cases r with
    | norm ρ1 =>
      obtain ⟨σ1, hσ1, hρ1⟩ := hr
      exact optJoin_right hσ1 hρ1
    | ret v => exact Gam.mono (AbsVal.le_join_right _ _) hr
    | exc => trivial
  | @loopDone args h ρ inv s =>
    intro w0 h0 aargs σ _ hi _ hρ
    exact ⟨hi, _, rfl, hρ.mono (AEnv.le_join_left σ inv)⟩
  | @loopStep args h ρ inv s h1 ρ1 h2 r _ _ ih1 ih2 =>
    intro w0 h0 aargs σ hb hi ha hρ
    have hb' := hb
    simp only [absStmt, List.append_eq_nil_iff] at hb'
    obtain ⟨hbody, hchk⟩ := hb'
    have hc : (absStmt cs aargs s (σ.join inv)).post.le (σ.join inv) = true := by
      split at hchk
      · assumption
      · simp at hchk
    have hρi : GamEnv w0 (σ.join inv) ρ := hρ.mono (AEnv.le_join_left σ inv)
    obtain ⟨hi1, σ1, hσ1, hρ1⟩ := ih1 hbody hi ha hρi
    have hpost : (absStmt cs aargs s (σ.join inv)).post = σ1 := by simp [AOut.post, hσ1]
    have hρ1i : GamEnv w0 (σ.join inv) ρ1 := hρ1.mono (by rw [← hpost]; exact hc)
    -- analysing the loop again from its own head environment gives the same result
    have hsame : absStmt cs aargs (.loop inv s) (σ.join inv) = absStmt cs aargs (.loop inv s) σ := by
      simp only [absStmt, AEnv.join_absorb]
    obtain ⟨hi2, hr⟩ := ih2 (by rw [hsame]; exact hb) hi1 ha hρ1i
    rw [hsame] at hr
    exact ⟨hi2, hr⟩
  | @loopStop args h ρ inv s h1 r _ hn ih =>
    intro w0 h0 aargs σ hb hi ha hρ
    have hb' := hb
    simp only [absStmt, List.append_eq_nil_iff] at hb'
    obtain ⟨hi1, hr⟩ := ih hb'.1 hi ha (hρ.mono (AEnv.le_join_left σ inv))
    refine ⟨hi1, ResOK.of_not_norm hn ?_ hr⟩
    simp [absStmt, AbsVal.le_refl]
  | raise => intro w0 h0 aargs σ _ hi _ _; exact ⟨hi, trivial⟩
  | ret hev =>
    intro w0 h0 aargs σ _ hi ha hρ
    have h1 := eval_sound hev hi ha hρ
    exact ⟨h1.1, h1.2⟩
  | @call args h ρ ln x f es vs h1 d h2 r hel hd _ ih =>
    intro w0 h0 aargs σ hb hi ha hρ
    cases hcf : cs[f]? with
    | none => simp [absStmt, hcf] at hb
    | some c =>
      have hle : AEnv.le (es.map (absExpr aargs σ)) c.pre = true := by
        cases hl : AEnv.le (es.map (absExpr aargs σ)) c.pre with
        | true => rfl
        | false => simp [absStmt, hcf, hl] at hb
      obtain ⟨hi1, hargs⟩ := evalList_sound hel hi ha hρ
      have hchk := checkList_get hcs hd hcf
      simp only [checkOp, Bool.and_eq_true, List.isEmpty_iff] at hchk
      obtain ⟨hi2, hr⟩ := ih hchk.1 hi1 (hargs.mono hle) (GamEnv.empty w0 [])
      refine ⟨hi2, ?_⟩
      cases r with
      | norm ρ' => exact ⟨σ.set x c.ret, by simp [absStmt, hcf], hρ.upd x (Gam.scalar _ _)⟩
      | ret v => exact ⟨σ.set x c.ret, by simp [absStmt, hcf], hρ.upd x (Gam.mono hchk.2 hr)⟩
      | exc => trivial

end NSV.C11
