import NoteSeqVerif.Model.C10
/-! C10 — helper lemmas (core Lean only). -/
namespace NSV.C10
open Gen

theorem fmod12 (a : Int) : Int.fmod a 12 = a % 12 := Int.fmod_eq_emod_of_nonneg a (by decide)

/-- decidable equality of results (used by the non-vacuity examples only) -/
instance instDecEqExcept {ε α : Type} [DecidableEq ε] [DecidableEq α] : DecidableEq (Except ε α)
  | .ok a, .ok b => if h : a = b then isTrue (by rw [h]) else isFalse (by intro e; cases e; exact h rfl)
  | .error a, .error b => if h : a = b then isTrue (by rw [h]) else isFalse (by intro e; cases e; exact h rfl)
  | .ok _, .error _ => isFalse (by intro e; cases e)
  | .error _, .ok _ => isFalse (by intro e; cases e)

/-! ### the generated pitch-class tables are consistent with each other -/

/-- going one scale step up adds `_STEPS_ABOVE[step]` semitones to `_STEPS_MIDI[step]` (mod 12) -/
theorem stepsMidi_next (s : Step) : (stepsMidi s.next - (stepsMidi s + stepsAbove s)) % 12 = 0 := by
  cases s <;> decide

theorem stepsAbove_le_two (s : Step) : stepsAbove s ≤ 2 := by cases s <;> decide

/-- invariant of the step walk of `_transpose_pitch_class` (termination is part of the definition
of `walk`: well-founded recursion on the remaining amount, using `stepsAbove_pos`) -/
theorem walk_spec (s : Step) (k : Int) (hk : 0 ≤ k) :
    0 ≤ (walk s k).2 ∧ (walk s k).2 < stepsAbove (walk s k).1 ∧
    (stepsMidi (walk s k).1 + (walk s k).2 - (stepsMidi s + k)) % 12 = 0 := by
  induction s, k using walk.induct with
  | case1 s k h ih =>
    rw [walk, if_pos h]
    have := stepsAbove_pos s
    have := stepsMidi_next s
    obtain ⟨a, b, c⟩ := ih (by omega)
    refine ⟨a, b, ?_⟩
    omega
  | case2 s k h =>
    rw [walk, if_neg h]
    simp only []
    omega

theorem walk_zero (s : Step) : walk s 0 = (s, 0) := by
  rw [walk, if_neg (by have := stepsAbove_pos s; omega)]

/-! ### the note loop of transpose_note_sequence -/

def maxEnd (e : Rat) (n : Note) : Rat := if e < n.end_ then n.end_ else e

theorem noteLoop_eq (k mn mx : Int) (ns acc : List Note) (del : Nat) (e : Rat) :
    noteLoop k mn mx ns acc del e =
      (acc ++ (ns.filter (keepNote k mn mx)).map (moveNote k),
       del + (ns.filter (fun n => !keepNote k mn mx n)).length,
       (ns.filter (keepNote k mn mx)).foldl maxEnd e) := by
  induction ns generalizing acc del e with
  | nil => simp [noteLoop]
  | cons n ns ih =>
    by_cases h : keepNote k mn mx n
    · simp [noteLoop, h, ih, maxEnd]
    · simp [noteLoop, h, ih]; omega

theorem foldl_maxEnd_ge (l : List Note) (e : Rat) : e ≤ l.foldl maxEnd e := by
  induction l generalizing e with
  | nil => simp
  | cons n l ih =>
    simp only [List.foldl_cons]
    have := ih (maxEnd e n)
    unfold maxEnd at *
    grind

theorem foldl_maxEnd_covers (l : List Note) (e : Rat) : ∀ n ∈ l, n.end_ ≤ l.foldl maxEnd e := by
  induction l generalizing e with
  | nil => simp
  | cons m l ih =>
    intro n hn
    simp only [List.foldl_cons]
    rcases List.mem_cons.mp hn with rfl | h
    · have := foldl_maxEnd_ge l (maxEnd e n)
      unfold maxEnd at *
      grind
    · exact ih _ n h

theorem foldl_maxEnd_attained (l : List Note) (e : Rat) :
    l.foldl maxEnd e = e ∨ ∃ n ∈ l, n.end_ = l.foldl maxEnd e := by
  induction l generalizing e with
  | nil => simp
  | cons m l ih =>
    simp only [List.foldl_cons]
    rcases ih (maxEnd e m) with h | ⟨n, hn, h⟩
    · by_cases hlt : e < m.end_
      · right; exact ⟨m, by simp, by rw [h]; simp [maxEnd, hlt]⟩
      · left; rw [h]; simp [maxEnd, hlt]
    · right; exact ⟨n, by simp [hn], h⟩

theorem moveNote_end (k : Int) (n : Note) : (moveNote k n).end_ = n.end_ := by
  unfold moveNote; split <;> rfl

/-! ### lists related element by element -/

def Pointwise {α β : Type} (R : α → β → Prop) : List α → List β → Prop
  | [], [] => True
  | a :: as, b :: bs => R a b ∧ Pointwise R as bs
  | _, _ => False

theorem Pointwise.length_eq {α β : Type} {R : α → β → Prop} :
    ∀ {l : List α} {r : List β}, Pointwise R l r → l.length = r.length
  | [], [], _ => rfl
  | _ :: _, _ :: _, h => by simp [Pointwise.length_eq h.2]
  | [], _ :: _, h => by simp [Pointwise] at h
  | _ :: _, [], h => by simp [Pointwise] at h

theorem Pointwise.get {α β : Type} {R : α → β → Prop} :
    ∀ {l : List α} {r : List β}, Pointwise R l r → ∀ (i : Nat) (h1 : i < l.length) (h2 : i < r.length),
      R l[i] r[i]
  | [], [], _, i, h1, _ => by simp at h1
  | _ :: _, _ :: _, h, 0, _, _ => h.1
  | _ :: _, _ :: _, h, i + 1, h1, h2 => by
      simpa using Pointwise.get h.2 i (by simpa using h1) (by simpa using h2)
  | [], _ :: _, h, _, _, _ => by simp [Pointwise] at h
  | _ :: _, [], h, _, _, _ => by simp [Pointwise] at h

theorem Pointwise.map {α β : Type} (R : α → β → Prop) (f : α → β) (l : List α) (h : ∀ a ∈ l, R a (f a)) :
    Pointwise R l (l.map f) := by
  induction l with
  | nil => simp [Pointwise]
  | cons a l ih => exact ⟨h a (by simp), ih (fun x hx => h x (by simp [hx]))⟩

/-! ### min / max pitch scans of augment_note_sequence -/

theorem minPitch_le (ns : List Note) (m : Int) : minPitch ns m ≤ m ∧ ∀ n ∈ ns, minPitch ns m ≤ n.pitch := by
  induction ns generalizing m with
  | nil => simp [minPitch]
  | cons a ns ih =>
    by_cases hc : a.pitch < m <;> simp only [minPitch, hc, ↓reduceIte]
    · obtain ⟨h1, h2⟩ := ih a.pitch
      exact ⟨by omega, fun n hn => by rcases List.mem_cons.mp hn with rfl | h; exact h1; exact h2 n h⟩
    · obtain ⟨h1, h2⟩ := ih m
      exact ⟨h1, fun n hn => by rcases List.mem_cons.mp hn with rfl | h; omega; exact h2 n h⟩

theorem minPitch_attained (ns : List Note) (m : Int) : minPitch ns m = m ∨ ∃ n ∈ ns, minPitch ns m = n.pitch := by
  induction ns generalizing m with
  | nil => simp [minPitch]
  | cons a ns ih =>
    by_cases hc : a.pitch < m <;> simp only [minPitch, hc, ↓reduceIte]
    · rcases ih a.pitch with h | ⟨n, hn, h⟩
      · right; exact ⟨a, by simp, h⟩
      · right; exact ⟨n, by simp [hn], h⟩
    · rcases ih m with h | ⟨n, hn, h⟩
      · left; exact h
      · right; exact ⟨n, by simp [hn], h⟩

theorem maxPitch_ge (ns : List Note) (m : Int) : m ≤ maxPitch ns m ∧ ∀ n ∈ ns, n.pitch ≤ maxPitch ns m := by
  induction ns generalizing m with
  | nil => simp [maxPitch]
  | cons a ns ih =>
    by_cases hc : m < a.pitch <;> simp only [maxPitch, hc, ↓reduceIte]
    · obtain ⟨h1, h2⟩ := ih a.pitch
      exact ⟨by omega, fun n hn => by rcases List.mem_cons.mp hn with rfl | h; exact h1; exact h2 n h⟩
    · obtain ⟨h1, h2⟩ := ih m
      exact ⟨h1, fun n hn => by rcases List.mem_cons.mp hn with rfl | h; omega; exact h2 n h⟩

theorem maxPitch_attained (ns : List Note) (m : Int) : maxPitch ns m = m ∨ ∃ n ∈ ns, maxPitch ns m = n.pitch := by
  induction ns generalizing m with
  | nil => simp [maxPitch]
  | cons a ns ih =>
    by_cases hc : m < a.pitch <;> simp only [maxPitch, hc, ↓reduceIte]
    · rcases ih a.pitch with h | ⟨n, hn, h⟩
      · right; exact ⟨a, by simp, h⟩
      · right; exact ⟨n, by simp [hn], h⟩
    · rcases ih m with h | ⟨n, hn, h⟩
      · left; exact h
      · right; exact ⟨n, by simp [hn], h⟩

/-! ### argmax -/

theorem argmaxFrom_spec (xs : List Nat) (i best bestv : Nat) (hb : best < i) :
    let r := argmaxFrom xs i best bestv
    (r = best ∨ (i ≤ r ∧ r < i + xs.length)) := by
  induction xs generalizing i best bestv with
  | nil => simp [argmaxFrom]
  | cons x xs ih =>
    simp only [argmaxFrom]
    split
    · have := ih (i + 1) i x (by omega)
      simp only [List.length_cons] at *
      omega
    · have := ih (i + 1) best bestv (by omega)
      simp only [List.length_cons] at *
      omega

theorem argmax_lt (xs : List Nat) (h : 0 < xs.length) : argmax xs < xs.length := by
  cases xs with
  | nil => simp at h
  | cons x xs =>
    have := argmaxFrom_spec xs 1 0 x (by omega)
    simp only [argmax, List.length_cons] at *
    omega

end NSV.C10
