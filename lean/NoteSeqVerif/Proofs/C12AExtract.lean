import NoteSeqVerif.Proofs.C12A
import NoteSeqVerif.Props.C02
/-! C12 — the closed-form pieces of `_extract_subsequences` (C02's `specPiece`) only depend on the
multiset of every repeated field, provided no two state events of one kind share a time. -/
namespace NSV.C12
open NSV NSV.C02

/-! ## the side condition -/

/-- two pedal events of one (instrument, control number) at the same time -/
def PedalTie (x y : CC) : Prop := x.time = y.time ∧ CC.key x = CC.key y

instance (x y : CC) : Decidable (PedalTie x y) := by unfold PedalTie; infer_instance

/-- **the quantifier's condition, as far as extraction needs it**: no two tempos, no two time
signatures, no two key signatures, no two chord symbols share a time, and no two of the preserved
control changes (sustain pedal …) of one instrument and controller share a time.  Nothing is asked of
the notes, the beat annotations, the other text annotations, the other control changes or the pitch
bends. -/
def NoTies (preserve : List Int) (s : NoteSeq) : Prop :=
  DistinctKeys (·.time) s.tempos ∧ DistinctKeys (·.time) s.timeSigs ∧
  DistinctKeys (·.time) s.keySigs ∧ DistinctKeys (·.time) (chords s) ∧
  (pedals preserve s).Pairwise (fun x y => ¬ PedalTie x y)

instance (preserve : List Int) (s : NoteSeq) : Decidable (NoTies preserve s) := by
  unfold NoTies DistinctKeys; infer_instance

theorem chords_perm {s s' : NoteSeq} (h : NSPerm s s') : (chords s).Perm (chords s') :=
  h.texts.filter _

theorem beats_perm {s s' : NoteSeq} (h : NSPerm s s') : (beats s).Perm (beats s') :=
  h.texts.filter _

theorem pedals_perm (preserve : List Int) {s s' : NoteSeq} (h : NSPerm s s') :
    (pedals preserve s).Perm (pedals preserve s') :=
  h.ccs.filter _

/-- the side condition does not depend on the storage order -/
theorem NoTies.perm {preserve : List Int} {s s' : NoteSeq} (h : NSPerm s s') (hn : NoTies preserve s) :
    NoTies preserve s' := by
  obtain ⟨h1, h2, h3, h4, h5⟩ := hn
  refine ⟨h1.perm h.tempos, h2.perm h.timeSigs, h3.perm h.keySigs, h4.perm (chords_perm h), ?_⟩
  refine (pedals_perm preserve h).pairwise h5 ?_
  intro x y hxy hyx
  exact hxy ⟨hyx.1.symm, hyx.2.symm⟩

/-! ## notes, total time, beats -/

theorem pieceTotal_perm {ns ns' : List Note} (h : ns.Perm ns') : pieceTotal ns = pieceTotal ns' := by
  unfold pieceTotal
  exact h.foldl_eq' (by intro x _ y _ z; grind) 0

theorem specNotes_perm (R : Rat → Rat) {s s' : NoteSeq} (h : NSPerm s s') (a b : Rat) :
    (specNotes R s a b).Perm (specNotes R s' a b) := by
  unfold specNotes
  exact ((sortByRat_perm_of_perm _ h.notes).filter _).map _

theorem specBeats_perm (R : Rat → Rat) {s s' : NoteSeq} (h : NSPerm s s') (a b : Rat) :
    (specBeats R s a b).Perm (specBeats R s' a b) := by
  unfold specBeats
  exact ((sortByRat_perm_of_perm _ (beats_perm h)).filter _).map _

/-! ## the four state kinds: the piece is *equal* -/

theorem specState_eq_of_perm {α : Type} (R : Rat → Rat) (time : α → Rat) (setTime : α → Rat → α)
    {evs evs' : List α} (h : evs.Perm evs') (hd : DistinctKeys time evs) (a b : Rat) :
    specState R time setTime evs a b = specState R time setTime evs' a b := by
  unfold specState
  rw [sortByRat_eq_of_perm time h hd]

/-! ## pedals -/

theorem foldl_assocSet_inv (l : List CC) (m : List (PedalKey × CC)) (h : AInv m) :
    AInv (l.foldl (fun m e => assocSet m (CC.key e) e) m) := by
  induction l generalizing m with
  | nil => exact h
  | cons e es ih => exact ih _ (assocSet_inv m e h).1

/-- the values of the remembered-pedal dictionary after the events `F`: one per key, the last of it -/
theorem mem_pedal_memory (F : List CC) (e : CC) :
    e ∈ (F.foldl (fun m e => assocSet m (CC.key e) e) []).map (·.2) ↔
      (F.filter (fun x => decide (CC.key x = CC.key e))).getLast? = some e := by
  have hp := proj_foldl (CC.key e) F [] ⟨by simp, by simp⟩
  have hmem : e ∈ (F.foldl (fun m e => assocSet m (CC.key e) e) []).map (·.2) ↔
      e ∈ proj (CC.key e) (F.foldl (fun m e => assocSet m (CC.key e) e) []) := by
    unfold proj
    rw [List.mem_filter]
    simp
  rw [hmem, hp]
  cases (F.filter (fun x => decide (CC.key x = CC.key e))).getLast? with
  | none => simp [proj]
  | some x =>
    simp only [List.mem_singleton, Option.some.injEq]
    exact ⟨fun h => h.symm, fun h => h.symm⟩

theorem pedal_memory_nodup (F : List CC) :
    ((F.foldl (fun m e => assocSet m (CC.key e) e) []).map (·.2)).Nodup := by
  obtain ⟨h1, h2⟩ := foldl_assocSet_inv F [] ⟨by simp, by simp⟩
  unfold List.Nodup
  rw [List.pairwise_map]
  refine List.Pairwise.imp_of_mem ?_ h2
  intro x y hx hy hxy he
  apply hxy
  rw [← h1 x hx, ← h1 y hy, he]

/-- events of one pedal key in two time-sorted storage orders: the same list -/
theorem filter_key_eq {F F' : List CC} (h : F.Perm F')
    (hs : F.Pairwise (fun x y => x.time ≤ y.time)) (hs' : F'.Pairwise (fun x y => x.time ≤ y.time))
    (hn : F.Pairwise (fun x y => ¬ PedalTie x y)) (κ : PedalKey) :
    F.filter (fun x => decide (CC.key x = κ)) = F'.filter (fun x => decide (CC.key x = κ)) := by
  refine sorted_unique (·.time) (h.filter _) (hs.filter _) (hs'.filter _) ?_
  refine List.Pairwise.imp_of_mem ?_ (hn.filter _)
  intro x y hx hy hxy he
  have kx := (List.mem_filter.mp hx).2
  have ky := (List.mem_filter.mp hy).2
  simp only [decide_eq_true_eq] at kx ky
  exact hxy ⟨he, kx.trans ky.symm⟩

theorem pedal_memory_perm {F F' : List CC} (h : F.Perm F')
    (hs : F.Pairwise (fun x y => x.time ≤ y.time)) (hs' : F'.Pairwise (fun x y => x.time ≤ y.time))
    (hn : F.Pairwise (fun x y => ¬ PedalTie x y)) :
    ((F.foldl (fun m e => assocSet m (CC.key e) e) []).map (·.2)).Perm
      ((F'.foldl (fun m e => assocSet m (CC.key e) e) []).map (·.2)) := by
  rw [List.perm_ext_iff_of_nodup (pedal_memory_nodup F) (pedal_memory_nodup F')]
  intro e
  rw [mem_pedal_memory, mem_pedal_memory, filter_key_eq h hs hs' hn]

theorem pedalPiece_perm (R : Rat → Rat) {S S' : List CC} (h : S.Perm S')
    (hs : S.Pairwise (fun x y => x.time ≤ y.time)) (hs' : S'.Pairwise (fun x y => x.time ≤ y.time))
    (hn : S.Pairwise (fun x y => ¬ PedalTie x y)) (ab : Rat × Rat) :
    (pieceSpec (pedalL R) [] S ab).Perm (pieceSpec (pedalL R) [] S' ab) := by
  unfold pieceSpec
  refine List.Perm.append ?_ ?_
  · have hm : ∀ T : List CC, (pedalL R).enter (memAt (pedalL R) [] ab.1 T) =
        (((T.filter (fun e => before true ab.1 e.time)).foldl
          (fun m e => assocSet m (CC.key e) e) []).map (·.2)).map (fun e => CC.setTime e 0) := by
      intro T
      simp only [pedalL, memAt, List.map_map]
      rfl
    rw [hm, hm]
    exact (pedal_memory_perm (h.filter _) (hs.filter _) (hs'.filter _) (hn.filter _)).map _
  · unfold inside
    exact (h.filter _).map _

theorem specPedals_perm (R : Rat → Rat) (preserve : List Int) {s s' : NoteSeq} (h : NSPerm s s')
    (hn : (pedals preserve s).Pairwise (fun x y => ¬ PedalTie x y)) (a b : Rat) :
    (specPedals R preserve s a b).Perm (specPedals R preserve s' a b) := by
  unfold specPedals
  refine pedalPiece_perm R (sortByRat_perm_of_perm _ (pedals_perm preserve h))
    (sortByRat_pairwise' _ _) (sortByRat_pairwise' _ _) ?_ (a, b)
  refine (sortByRat_perm' _ _).symm.pairwise hn ?_
  intro x y hxy hyx
  exact hxy ⟨hyx.1.symm, hyx.2.symm⟩

/-! ## one piece -/

/-- **the closed-form piece `[a, b)` does not depend on the storage order** -/
theorem specPiece_perm (R : Rat → Rat) (preserve : List Int) {s s' : NoteSeq} (h : NSPerm s s')
    (hn : NoTies preserve s) (ab : Rat × Rat) :
    NSPerm (specPiece R preserve s ab) (specPiece R preserve s' ab) := by
  obtain ⟨n1, n2, n3, n4, n5⟩ := hn
  have hnotes := specNotes_perm R h ab.1 ab.2
  have htot := pieceTotal_perm hnotes
  unfold specPiece emptied
  constructor <;> simp only []
  · exact hnotes
  · rw [specState_eq_of_perm R _ _ h.tempos n1]
  · rw [specState_eq_of_perm R _ _ h.timeSigs n2]
  · rw [specState_eq_of_perm R _ _ h.keySigs n3]
  · rw [specState_eq_of_perm R _ _ (chords_perm h) n4]
    exact List.Perm.append (List.Perm.refl _) (specBeats_perm R h ab.1 ab.2)
  · exact specPedals_perm R preserve h n5 ab.1 ab.2
  · exact List.Perm.refl _
  · exact h.sectionAnns
  · exact h.sgroups
  · exact htot
  · exact h.totalQSteps
  · exact h.spq
  · exact h.sps
  · rw [h.totalTime, htot]
  · exact h.tpq
  · exact h.metaTag

theorem valid_perm {s s' : NoteSeq} (h : NSPerm s s') {st : List Rat} (hv : Valid s st) : Valid s' st :=
  ⟨by rw [← h.isQuantized]; exact hv.unquantized, hv.two, hv.sorted,
   by rw [← h.totalTime]; exact hv.inside⟩

/-- `_extract_subsequences` on two storage orders of one sequence -/
theorem extractSubsequences_perm_aux (R : Rat → Rat) (preserve : List Int) {s s' : NoteSeq}
    (h : NSPerm s s') (hn : NoTies preserve s) (st : List Rat) :
    ResPermList (extractSubsequencesR R preserve s st) (extractSubsequencesR R preserve s' st) := by
  rcases extract_trichotomy R preserve s st with ⟨hq, e⟩ | ⟨hq, hv, e⟩ | ⟨hv, e⟩
  · rcases extract_trichotomy R preserve s' st with ⟨hq', e'⟩ | ⟨hq', _, _⟩ | ⟨hv', _⟩
    · rw [e, e']; rfl
    · rw [h.isQuantized, hq'] at hq; cases hq
    · rw [h.isQuantized, hv'.unquantized] at hq; cases hq
  · rcases extract_trichotomy R preserve s' st with ⟨hq', _⟩ | ⟨_, _, e'⟩ | ⟨hv', _⟩
    · rw [h.isQuantized, hq'] at hq; cases hq
    · rw [e, e']; rfl
    · exact absurd (valid_perm h.symm hv') hv
  · have e' := extract_eq_spec R preserve s' st (valid_perm h hv)
    rw [e, e']
    exact PermList.map _ _ _ (fun ab _ => specPiece_perm R preserve h hn ab)

/-! ## the candidate loops of the splitters only look at the multiset of notes -/

theorem crossStep_sorted (t : Rat) (rem cr : List Note)
    (hs : rem.Pairwise (fun x y => x.start ≤ y.start)) :
    crossStep t rem cr =
      (rem.filter (fun n => !decide (n.start < t)), cr ++ rem.filter (fun n => decide (n.start < t))) := by
  rw [crossStep_eq, takeWhile_eq_filter_of_sorted (·.start) t rem hs,
    dropWhile_eq_filter_of_sorted (·.start) t rem hs]

theorem hopLoop_perm (skip : Bool) : ∀ (ts : List Rat) (rem rem' cr cr' : List Note) (vs : List Rat),
    rem.Pairwise (fun x y => x.start ≤ y.start) → rem'.Pairwise (fun x y => x.start ≤ y.start) →
    rem.Perm rem' → cr.Perm cr' → hopLoop skip ts rem cr vs = hopLoop skip ts rem' cr' vs := by
  intro ts
  induction ts with
  | nil => intros; rfl
  | cons t ts ih =>
    intro rem rem' cr cr' vs hs hs' hp hc
    simp only [hopLoop]
    rw [crossStep_sorted t rem cr hs, crossStep_sorted t rem' cr' hs']
    simp only []
    have hcr : ((cr ++ rem.filter (fun n => decide (n.start < t))).filter (fun n => decide (n.end_ > t))).Perm
        ((cr' ++ rem'.filter (fun n => decide (n.start < t))).filter (fun n => decide (n.end_ > t))) :=
      (hc.append (hp.filter _)).filter _
    rw [isEmpty_perm hcr]
    exact ih _ _ _ _ _ (hs.filter _) (hs'.filter _) (hp.filter _) hcr

theorem tcLoop_perm (skip : Bool) : ∀ (E : List TC) (num den : Int) (qpm : Rat)
    (rem rem' cr cr' : List Note) (last : Rat) (vs : List Rat),
    rem.Pairwise (fun x y => x.start ≤ y.start) → rem'.Pairwise (fun x y => x.start ≤ y.start) →
    rem.Perm rem' → cr.Perm cr' →
    tcLoop skip E num den qpm rem cr last vs = tcLoop skip E num den qpm rem' cr' last vs := by
  intro E
  induction E with
  | nil => intros; rfl
  | cons e es ih =>
    intro num den qpm rem rem' cr cr' last vs hs hs' hp hc
    have hcr : ((cr ++ rem.filter (fun n => decide (n.start < e.time))).filter
          (fun n => decide (n.end_ > e.time))).Perm
        ((cr' ++ rem'.filter (fun n => decide (n.start < e.time))).filter
          (fun n => decide (n.end_ > e.time))) :=
      (hc.append (hp.filter _)).filter _
    simp only [tcLoop]
    rw [crossStep_sorted e.time rem cr hs, crossStep_sorted e.time rem' cr' hs']
    simp only []
    rw [isEmpty_perm hcr]
    cases e with
    | ts x =>
      simp only []
      split
      · exact ih _ _ _ _ _ _ _ _ _ hs hs' hp hc
      · exact ih _ _ _ _ _ _ _ _ _ (hs.filter _) (hs'.filter _) (hp.filter _) hcr
    | tp x =>
      simp only []
      split
      · exact ih _ _ _ _ _ _ _ _ _ hs hs' hp hc
      · exact ih _ _ _ _ _ _ _ _ _ (hs.filter _) (hs'.filter _) (hp.filter _) hcr

theorem sortedNotes_perm {s s' : NoteSeq} (h : NSPerm s s') : (sortedNotes s).Perm (sortedNotes s') :=
  sortByRat_perm_of_perm _ h.notes

theorem sortedNotes_sorted (s : NoteSeq) : (sortedNotes s).Pairwise (fun x y => x.start ≤ y.start) :=
  sortByRat_pairwise' _ _

/-- "Handle the final subsequence" + the extractor, on two storage orders and one candidate vector -/
theorem splitWith_perm (R : Rat → Rat) (preserve : List Int) {s s' : NoteSeq} (h : NSPerm s s')
    (hn : NoTies preserve s) (vs : List Rat) :
    ResPermList (splitWith R preserve s vs) (splitWith R preserve s' vs) := by
  rw [split_with_spec, split_with_spec, ← h.totalTime]
  split
  · exact extractSubsequences_perm_aux R preserve h hn _
  · split
    · exact PermList.refl _
    · exact extractSubsequences_perm_aux R preserve h hn _

end NSV.C12
