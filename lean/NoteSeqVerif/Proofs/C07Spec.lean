import NoteSeqVerif.Model.C07
/-! C07 — specification vocabulary: the declarative notions the property theorems are stated with
(definitions only; core Lean). -/
namespace NSV.C07

/-! ### pianoroll -/
/-- the property statement for one cell: some selected note sounds at step `f + start`, and
(with `split_repeats`) no selected note of that pitch starts at the next step -/
def rollSpec (notes : List Note) (c : RollCfg) (f p : Int) : Bool :=
  notes.any (fun n => rollSel c n && decide (n.qs ≤ f + c.start) && decide (f + c.start < n.qe)
                        && n.pitch == p + c.minP)
  && !(c.split && notes.any (fun n => rollSel c n && n.qs == f + c.start + 1 && n.pitch == p + c.minP))

/-- the frames demanded by the property statement -/
def specFrames (notes : List Note) (c : RollCfg) : List (List Int) :=
  (List.range c.rows.toNat).map fun (f : Nat) =>
    ((List.range (c.maxP - c.minP + 1).toNat).filter fun (p : Nat) => rollSpec notes c (f : Int) (p : Int)).map
      (fun (p : Nat) => (p : Int))


/-! ### chords -/
/-- the chord in force at step `t`: text of the last annotation (in list order) at or before `t` -/
def chordAt (dflt : String) (cs : List TextAnn) (t : Int) : String :=
  match (cs.filter (fun c => decide (c.qstep ≤ t))).getLast? with
  | some c => c.text
  | none => dflt

/-- two different chord symbols share a step inside `[start, end)` -/
def ChordsCoincident (s : NoteSeq) (start end_ : Int) : Prop :=
  ∃ a ∈ s.texts, ∃ b ∈ s.texts, a.kind = Gen.CHORD_SYMBOL ∧ b.kind = Gen.CHORD_SYMBOL ∧
    a.qstep = b.qstep ∧ start ≤ a.qstep ∧ a.qstep < end_ ∧ a.text ≠ b.text


/-! ### note-based performance -/
/-- the step the `i`-th shift is measured from: `start_step`, then the previous note's start -/
def prevStep (start : Int) (l : List Note) : Nat → Int
  | 0 => start
  | i + 1 => match l[i]? with
    | some n => n.qs
    | none => start

/-- the tuple the statement demands for the `i`-th note `n` of the `(start_time, pitch)` order -/
def npTuple (nb start : Int) (l : List Note) (i : Nat) (n : Note) : NPTuple :=
  ⟨n.qs - prevStep start l i, n.pitch, Gen.velocityToBin n.velocity nb, n.qe - n.qs⟩

/-- what a note may be for the note-based performance (pitch, velocity in MIDI range, positive length) -/
def NPValid (n : Note) : Prop :=
  0 ≤ n.pitch ∧ n.pitch ≤ 127 ∧ 1 ≤ n.velocity ∧ n.velocity ≤ 127 ∧ n.qs < n.qe


/-! ### performance event lists -/
/-- sum of the TIME_SHIFT values of an event list (Python `num_steps`) -/
def shiftSum : List PEvent → Int
  | [] => 0
  | .timeShift v :: r => v + shiftSum r
  | _ :: r => shiftSum r

/-- the NOTE_ON / NOTE_OFF events of an event list, each with the step at which it happens
(`cur` + the time shifts before it; Python `steps`) -/
def noteStream (cur : Int) : List PEvent → List (PEvent × Int)
  | [] => []
  | .timeShift v :: r => noteStream (cur + v) r
  | .noteOn p :: r => (.noteOn p, cur) :: noteStream cur r
  | .noteOff p :: r => (.noteOff p, cur) :: noteStream cur r
  | _ :: r => noteStream cur r

/-- the performance event a note event denotes -/
def NEv.toPEvent (e : NEv) : PEvent := if e.isOff then .noteOff e.note.pitch else .noteOn e.note.pitch

/-- the velocity bin in force after an event list (last VELOCITY event, else `vel`) -/
def lastVel (vel : Int) : List PEvent → Int
  | [] => vel
  | .velocity b :: r => lastVel b r
  | _ :: r => lastVel vel r

/-- the NOTE_ON events of an event list as `(pitch, step, velocity bin in force)` -/
def onStream (cur vel : Int) : List PEvent → List (Int × Int × Int)
  | [] => []
  | .timeShift v :: r => onStream (cur + v) vel r
  | .velocity b :: r => onStream cur b r
  | .noteOn p :: r => (p, cur, vel) :: onStream cur vel r
  | _ :: r => onStream cur vel r

/-- the velocity bin a NOTE_ON carries: `bin(velocity)` with velocity events, the untouched initial value without -/
def binOf (nb vel0 : Int) (n : Note) : Int := if nb = 0 then vel0 else Gen.velocityToBin n.velocity nb



/-! ### bar length -/
/-- the three float operations of `steps_per_bar_in_quantized_sequence` are exact on this input: true of binary64
arithmetic whenever the denominator is a power of two (which `quantize_note_sequence` enforces) and
`spq·4·num < 2^53`, and trivially of `R = id` -/
def SpbExact (R : Rat → Rat) (spq num den : Int) : Prop :=
  R (4 / (den : Rat)) = 4 / (den : Rat) ∧
  R (4 / (den : Rat) * (num : Rat)) = 4 / (den : Rat) * (num : Rat) ∧
  R ((spq : Rat) * (4 / (den : Rat) * (num : Rat))) = (spq : Rat) * (4 / (den : Rat) * (num : Rat))



/-! ### melody -/
/-- the per-step rule of the property statement, for the kept notes `K` (strictly increasing onsets): the pitch of
the note starting at `t`; else NOTE_OFF iff the note with the latest earlier onset ends at `t`; else NO_EVENT -/
def melRule (K : List Note) (t : Int) : Int :=
  match K.find? (fun k => k.qs == t) with
  | some k => k.pitch
  | none =>
    match (K.filter (fun k => decide (k.qs < t))).getLast? with
    | some k => if k.qe = t then Gen.MELODY_NOTE_OFF else Gen.MELODY_NO_EVENT
    | none => Gen.MELODY_NO_EVENT

/-- the notes the melody keeps after `k`, from the remaining notes in `(start step, −pitch)` order: a note on the
current onset is not kept (the highest one already is); a note starting `gap` steps or more after the current
note's end ends the melody; any other note is kept and becomes the current note -/
def keptFrom (gap : Int) : Note → List Note → List Note
  | _, [] => []
  | k, n :: ns =>
    if n.qs = k.qs then keptFrom gap k ns
    else if gap ≤ n.qs - k.qe then []
    else n :: keptFrom gap n ns

/-- a second note on a kept onset is met before the melody ends -/
def dupFrom (gap : Int) : Note → List Note → Bool
  | _, [] => false
  | k, n :: ns =>
    if n.qs = k.qs then true
    else if gap ≤ n.qs - k.qe then false
    else dupFrom gap n ns

/-- the order Melody extraction sorts by: start step ascending, then pitch descending, then (unquantized) start
time ascending — the key `(quantized_start_step, -pitch, start_time)` -/
def MelOrd (a b : Note) : Prop :=
  a.qs < b.qs ∨ (a.qs = b.qs ∧ (b.pitch < a.pitch ∨ (b.pitch = a.pitch ∧ a.start ≤ b.start)))

/-- the order ChordProgression extraction sorts by: step ascending, then (unquantized) time ascending — the key
`(quantized_step, time)` -/
def ChordOrd (a b : TextAnn) : Prop := a.qstep < b.qstep ∨ (a.qstep = b.qstep ∧ a.time ≤ b.time)



/-! ### reading an event list back as notes (`BasePerformance._to_sequence`) -/

structure DecState where
  step : Int
  vel : Int
  open_ : List (Int × Int × Int)        -- open notes `(pitch, start step, velocity bin)` in NOTE_ON order
  out : List (Int × Int × Int × Int)    -- finished notes `(pitch, start step, end step, velocity bin)`

/-- FIFO matching per pitch: a NOTE_OFF ends the *earliest* open note of its pitch (ignored if there is none);
a note of zero length is dropped; the velocity bin of a note is the one in force at its NOTE_ON -/
def decodeStep (st : DecState) : PEvent → DecState
  | .timeShift v => { st with step := st.step + v }
  | .velocity b => { st with vel := b }
  | .noteOn p => { st with open_ := st.open_ ++ [(p, st.step, st.vel)] }
  | .noteOff p =>
    match st.open_.find? (fun x => x.1 == p) with
    | none => st
    | some x => { st with open_ := st.open_.eraseP (fun x => x.1 == p),
                          out := if x.2.1 = st.step then st.out else st.out ++ [(p, x.2.1, st.step, x.2.2)] }
  | .duration _ => st

/-- the notes an event list denotes; notes still open at the end are closed at the final step -/
def decodeNotes (start : Int) (evs : List PEvent) : List (Int × Int × Int × Int) :=
  let st := evs.foldl decodeStep ⟨start, 0, [], []⟩
  st.out ++ (st.open_.filter (fun x => x.2.1 != st.step)).map (fun x => (x.1, x.2.1, st.step, x.2.2))

/-- no two notes of one pitch overlap -/
def NoSamePitchOverlap (l : List Note) : Prop :=
  l.Pairwise (fun a b => a.pitch = b.pitch → a.qe ≤ b.qs ∨ b.qe ≤ a.qs)

end NSV.C07
