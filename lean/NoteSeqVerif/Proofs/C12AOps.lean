import NoteSeqVerif.Proofs.C12A
import NoteSeqVerif.Props.C10
import NoteSeqVerif.Model.C13
/-! C12 — helper lemmas for the permutation invariance of transposition (model of C10) and of
stretching / shifting (model of C13). -/
namespace NSV.C12
open NSV

/-! ## transposition -/
section transpose
open NSV.C10 NSV.C10.Gen

theorem foldl_maxEnd_perm {l l' : List Note} (h : l.Perm l') (e : Rat) :
    l.foldl maxEnd e = l'.foldl maxEnd e :=
  h.foldl_eq' (by intro x _ y _ z; unfold maxEnd; grind) e

/-- the note loop of `transpose_note_sequence` on two storage orders: kept notes up to order, the
same number of deleted notes, the same largest end -/
theorem noteLoop_perm (k mn mx : Int) {l l' : List Note} (h : l.Perm l') :
    (noteLoop k mn mx l [] 0 0).1.Perm (noteLoop k mn mx l' [] 0 0).1 ∧
    (noteLoop k mn mx l [] 0 0).2.1 = (noteLoop k mn mx l' [] 0 0).2.1 ∧
    (noteLoop k mn mx l [] 0 0).2.2 = (noteLoop k mn mx l' [] 0 0).2.2 := by
  rw [noteLoop_eq, noteLoop_eq]
  refine ⟨?_, ?_, ?_⟩
  · simp only [List.nil_append]
    exact (h.filter _).map _
  · simp only [Nat.zero_add]
    exact (h.filter _).length_eq
  · exact foldl_maxEnd_perm (h.filter _) 0

/-- what the text loop does to one annotation when it succeeds -/
def moveText (split : String → Except Err Sym) (k : Int) (t : TextAnn) : TextAnn :=
  if t.kind = CHORD_SYMBOL ∧ t.text ≠ NO_CHORD then
    match split t.text with
    | .ok c => { t with text := render (transposeSym c k) }
    | .error _ => t
  else t

/-- a successful text loop is a `map`, and every chord symbol it met could be split -/
theorem textLoop_ok_map (split : String → Except Err Sym) (k : Int) (ts r : List TextAnn)
    (h : textLoop split k ts = .ok r) :
    r = ts.map (moveText split k) ∧ ∀ t ∈ ts, IsChord t → ∃ c, split t.text = .ok c := by
  induction ts generalizing r with
  | nil => simp [textLoop] at h; subst h; simp
  | cons t ts ih =>
    unfold textLoop at h
    by_cases hc : t.kind = CHORD_SYMBOL ∧ t.text ≠ NO_CHORD
    · rw [if_pos hc] at h
      unfold transposeFigure at h
      cases hs : split t.text with
      | error e => simp [hs] at h
      | ok c =>
        simp only [hs] at h
        cases hr : textLoop split k ts with
        | error e => simp [hr] at h
        | ok r' =>
          simp only [hr, Except.ok.injEq] at h
          subst h
          obtain ⟨i1, i2⟩ := ih r' hr
          refine ⟨?_, ?_⟩
          · simp only [List.map_cons, moveText, if_pos hc, hs, i1]
          · intro t' ht' hch
            rcases List.mem_cons.mp ht' with rfl | h'
            · exact ⟨c, hs⟩
            · exact i2 t' h' hch
    · rw [if_neg hc] at h
      cases hr : textLoop split k ts with
      | error e => simp [hr] at h
      | ok r' =>
        simp only [hr, Except.ok.injEq] at h
        subst h
        obtain ⟨i1, i2⟩ := ih r' hr
        refine ⟨?_, ?_⟩
        · simp only [List.map_cons, moveText, if_neg hc, i1]
        · intro t' ht' hch
          rcases List.mem_cons.mp ht' with rfl | h'
          · exact absurd hch hc
          · exact i2 t' h' hch

/-- the chord symbols of the sequence that cannot be split all fail with the same error
(in the implementation: `ChordSymbolError`) -/
def OneSplitError (split : String → Except Err Sym) (ts : List TextAnn) : Prop :=
  ∀ t ∈ ts, ∀ t' ∈ ts, IsChord t → IsChord t' →
    ∀ e e', split t.text = .error e → split t'.text = .error e' → e = e'

theorem OneSplitError.perm {split : String → Except Err Sym} {ts ts' : List TextAnn} (h : ts.Perm ts')
    (ho : OneSplitError split ts) : OneSplitError split ts' :=
  fun t ht t' ht' => ho t (h.mem_iff.mpr ht) t' (h.mem_iff.mpr ht')

/-- results of the text loop on two storage orders -/
theorem textLoop_perm (split : String → Except Err Sym) (k : Int) {ts ts' : List TextAnn}
    (h : ts.Perm ts') (ho : OneSplitError split ts) :
    match textLoop split k ts, textLoop split k ts' with
    | .ok r, .ok r' => r.Perm r'
    | .error e, .error e' => e = e'
    | _, _ => False := by
  cases h1 : textLoop split k ts with
  | ok r =>
    cases h2 : textLoop split k ts' with
    | ok r' =>
      simp only []
      rw [(textLoop_ok_map split k ts r h1).1, (textLoop_ok_map split k ts' r' h2).1]
      exact h.map _
    | error e' =>
      simp only []
      obtain ⟨t, ht, hc, hs⟩ := textLoop_error_iff split k ts' e' h2
      obtain ⟨c, hc'⟩ := (textLoop_ok_map split k ts r h1).2 t (h.mem_iff.mpr ht) hc
      rw [hc'] at hs; cases hs
  | error e =>
    obtain ⟨t, ht, hc, hs⟩ := textLoop_error_iff split k ts e h1
    cases h2 : textLoop split k ts' with
    | ok r' =>
      simp only []
      obtain ⟨c, hc'⟩ := (textLoop_ok_map split k ts' r' h2).2 t (h.mem_iff.mp ht) hc
      rw [hc'] at hs; cases hs
    | error e' =>
      simp only []
      obtain ⟨t', ht', hc', hs'⟩ := textLoop_error_iff split k ts' e' h2
      exact ho t ht t' (h.mem_iff.mpr ht') hc hc' e e' hs hs'

/-- lowest / highest pitch of a non-empty note list, whatever note is stored first -/
theorem minPitch_perm {n n' : Note} {ns ns' : List Note} (h : (n :: ns).Perm (n' :: ns')) :
    minPitch ns n.pitch = minPitch ns' n'.pitch := by
  have key : ∀ (a : Note) (as : List Note) (b : Note) (bs : List Note), (a :: as).Perm (b :: bs) →
      minPitch as a.pitch ≤ minPitch bs b.pitch := by
    intro a as b bs hp
    have hle := minPitch_le as a.pitch
    have hall : ∀ m ∈ a :: as, minPitch as a.pitch ≤ m.pitch := by
      intro m hm
      rcases List.mem_cons.mp hm with rfl | h'
      · exact hle.1
      · exact hle.2 m h'
    rcases minPitch_attained bs b.pitch with e | ⟨m, hm, e⟩
    · rw [e]; exact hall b (hp.mem_iff.mpr (by simp))
    · rw [e]; exact hall m (hp.mem_iff.mpr (by simp [hm]))
  exact Int.le_antisymm (key n ns n' ns' h) (key n' ns' n ns h.symm)

theorem maxPitch_perm {n n' : Note} {ns ns' : List Note} (h : (n :: ns).Perm (n' :: ns')) :
    maxPitch ns n.pitch = maxPitch ns' n'.pitch := by
  have key : ∀ (a : Note) (as : List Note) (b : Note) (bs : List Note), (a :: as).Perm (b :: bs) →
      maxPitch bs b.pitch ≤ maxPitch as a.pitch := by
    intro a as b bs hp
    have hge := maxPitch_ge as a.pitch
    have hall : ∀ m ∈ a :: as, m.pitch ≤ maxPitch as a.pitch := by
      intro m hm
      rcases List.mem_cons.mp hm with rfl | h'
      · exact hge.1
      · exact hge.2 m h'
    rcases maxPitch_attained bs b.pitch with e | ⟨m, hm, e⟩
    · rw [e]; exact hall b (hp.mem_iff.mpr (by simp))
    · rw [e]; exact hall m (hp.mem_iff.mpr (by simp [hm]))
  exact Int.le_antisymm (key n' ns' n ns h.symm) (key n ns n' ns' h)

end transpose

/-! ## stretching / shifting -/
section stretch
open NSV.C13

theorem mapNotes_perm (g : Rat → Rat) {l l' : List Note} (h : l.Perm l') :
    (mapNotes g l).Perm (mapNotes g l') := h.map _

/-- moving the times of the selected event containers commutes with permuting them -/
theorem mapEv_perm (sel : List String) (g : Rat → Rat) {s s' : NoteSeq} (h : NSPerm s s') :
    NSPerm (mapEv sel g s) (mapEv sel g s') := by
  unfold mapEv
  constructor <;> simp only []
  · exact h.notes
  · split
    · exact h.tempos.map _
    · exact h.tempos
  · split
    · exact h.timeSigs.map _
    · exact h.timeSigs
  · split
    · exact h.keySigs.map _
    · exact h.keySigs
  · split
    · exact h.texts.map _
    · exact h.texts
  · split
    · exact h.ccs.map _
    · exact h.ccs
  · split
    · exact h.bends.map _
    · exact h.bends
  · split
    · exact h.sectionAnns.map _
    · exact h.sectionAnns
  · exact h.sgroups
  · exact h.totalTime
  · exact h.totalQSteps
  · exact h.spq
  · exact h.sps
  · exact h.hasSub
  · exact h.subStart
  · exact h.subEnd
  · exact h.tpq
  · exact h.metaTag

/-- `stretch_note_sequence(note_sequence, stretch_factor)` on two storage orders of one sequence:
same error (quantized input, division by zero), or the same stretched sequence up to storage order -/
theorem stretch_perm_aux (R : Rat → Rat) (f : Rat) {s s' : NoteSeq} (h : NSPerm s s') :
    ResPerm (stretchR R f s) (stretchR R f s') := by
  unfold stretchR
  rw [← h.isQuantized]
  split
  · rfl
  · split
    · exact h
    · have h1 : NSPerm { s with notes := mapNotes (fun t => R (t * f)) s.notes,
                                totalTime := R (s.totalTime * f) }
                       { s' with notes := mapNotes (fun t => R (t * f)) s'.notes,
                                 totalTime := R (s'.totalTime * f) } := by
        constructor <;> simp only []
        · exact mapNotes_perm _ h.notes
        · exact h.tempos
        · exact h.timeSigs
        · exact h.keySigs
        · exact h.texts
        · exact h.ccs
        · exact h.bends
        · exact h.sectionAnns
        · exact h.sgroups
        · rw [h.totalTime]
        · exact h.totalQSteps
        · exact h.spq
        · exact h.sps
        · exact h.hasSub
        · exact h.subStart
        · exact h.subEnd
        · exact h.tpq
        · exact h.metaTag
      have h2 := mapEv_perm Gen.stretchEventFields (fun t => R (t * f)) h1
      simp only []
      have hemp : (mapEv Gen.stretchEventFields (fun t => R (t * f))
            { s with notes := mapNotes (fun t => R (t * f)) s.notes,
                     totalTime := R (s.totalTime * f) }).tempos.isEmpty =
          (mapEv Gen.stretchEventFields (fun t => R (t * f))
            { s' with notes := mapNotes (fun t => R (t * f)) s'.notes,
                      totalTime := R (s'.totalTime * f) }).tempos.isEmpty :=
        isEmpty_perm h2.tempos
      rw [hemp]
      split
      · rfl
      · constructor <;> simp only []
        · exact h2.notes
        · exact h2.tempos.map _
        · exact h2.timeSigs
        · exact h2.keySigs
        · exact h2.texts
        · exact h2.ccs
        · exact h2.bends
        · exact h2.sectionAnns
        · exact h2.sgroups
        · exact h2.totalTime
        · exact h2.totalQSteps
        · exact h2.spq
        · exact h2.sps
        · exact h2.hasSub
        · exact h2.subStart
        · exact h2.subEnd
        · exact h2.tpq
        · exact h2.metaTag

/-- `shift_sequence_times(sequence, shift_seconds)` on two storage orders of one sequence: same
error (non-positive shift, quantized input), or the same shifted sequence up to storage order -/
theorem shift_perm_aux (R : Rat → Rat) (d : Rat) {s s' : NoteSeq} (h : NSPerm s s') :
    ResPerm (shiftR R d s) (shiftR R d s') := by
  unfold shiftR
  rw [← h.isQuantized]
  split
  · rfl
  · split
    · rfl
    · have h1 : NSPerm { s with hasSub := false, subStart := 0, subEnd := 0,
                                notes := mapNotes (fun t => R (t + d)) s.notes }
                       { s' with hasSub := false, subStart := 0, subEnd := 0,
                                 notes := mapNotes (fun t => R (t + d)) s'.notes } := by
        constructor <;> simp only []
        · exact mapNotes_perm _ h.notes
        · exact h.tempos
        · exact h.timeSigs
        · exact h.keySigs
        · exact h.texts
        · exact h.ccs
        · exact h.bends
        · exact h.sectionAnns
        · exact h.sgroups
        · exact h.totalTime
        · exact h.totalQSteps
        · exact h.spq
        · exact h.sps
        · exact h.tpq
        · exact h.metaTag
      have h2 := mapEv_perm Gen.shiftEventFields (fun t => R (t + d)) h1
      constructor <;> simp only []
      · exact h2.notes
      · exact h2.tempos
      · exact h2.timeSigs
      · exact h2.keySigs
      · exact h2.texts
      · exact h2.ccs
      · exact h2.bends
      · exact h2.sectionAnns
      · exact h2.sgroups
      · rw [h2.totalTime]
      · exact h2.totalQSteps
      · exact h2.spq
      · exact h2.sps
      · exact h2.hasSub
      · exact h2.subStart
      · exact h2.subEnd
      · exact h2.tpq
      · exact h2.metaTag

end stretch
end NSV.C12
