import NoteSeqVerif.Proofs.C14Sim
/-! C14 — layer 2 of the proof of `sustain_spec`: the per-note automaton `astep j`, run over the
event list sorted by `(time, type)`, ends the note `j` exactly at the time the declarative
specification prescribes.  The specification enters through the structure `HSpec` (stated on
events); `Props/C14.lean` discharges it from `pedalDown` / `heldEnd`. -/
set_option linter.unusedSimpArgs false
set_option linter.unusedVariables false
namespace NSV.C14
open Gen

theorem t01 : SUSTAIN_ON ≠ SUSTAIN_OFF := by decide
theorem t02 : SUSTAIN_ON ≠ NOTE_ON := by decide
theorem t03 : SUSTAIN_ON ≠ NOTE_OFF := by decide
theorem t12 : SUSTAIN_OFF ≠ NOTE_ON := by decide
theorem t13 : SUSTAIN_OFF ≠ NOTE_OFF := by decide
theorem t23 : NOTE_ON ≠ NOTE_OFF := by decide

theorem typ_order : SUSTAIN_ON < SUSTAIN_OFF ∧ SUSTAIN_OFF < NOTE_ON ∧ NOTE_ON < NOTE_OFF := by decide

theorem evLe_iff {n} (a b : Ev n) :
    evLe a b = true ↔ a.time < b.time ∨ (a.time = b.time ∧ a.typ ≤ b.typ) := by
  simp [evLe]

theorem evLe_time {n} {a b : Ev n} (h : evLe a b = true) : a.time ≤ b.time := by
  rcases (evLe_iff a b).mp h with h | h
  · exact Rat.le_of_lt h
  · rw [h.1]; exact Rat.le_refl

theorem evLe_typ {n} {a b : Ev n} (h : evLe a b = true) (ht : b.time ≤ a.time) : a.typ ≤ b.typ := by
  rcases (evLe_iff a b).mp h with h | h
  · exact absurd h (Rat.not_lt.mpr ht)
  · exact h.2

section perNote
variable {n : Nat} (notes : Fin n → Note) (j : Fin n)

def onEv (k : Fin n) : Ev n := ⟨(notes k).start, NOTE_ON, .note k⟩
def offEv (k : Fin n) : Ev n := ⟨(notes k).end_, NOTE_OFF, .note k⟩

def IsPedOn (x : Ev n) : Prop :=
  x.typ = SUSTAIN_ON ∧ ∃ c, x.obj = .cc c ∧ c.instrument = (notes j).instrument
def IsPedOff (x : Ev n) : Prop :=
  x.typ = SUSTAIN_OFF ∧ ∃ c, x.obj = .cc c ∧ c.instrument = (notes j).instrument
def IsStrike (x : Ev n) : Prop :=
  x.typ = NOTE_ON ∧ ∃ k, x.obj = .note k ∧ k ≠ j ∧
    (notes k).instrument = (notes j).instrument ∧ (notes k).pitch = (notes j).pitch
def Closing (x : Ev n) : Prop :=
  (IsPedOff notes j x ∧ (notes j).end_ < x.time) ∨ (IsStrike notes j x ∧ (notes j).end_ ≤ x.time)
def PedP (P : List (Ev n)) : Prop :=
  ∃ x ∈ P, IsPedOn notes j x ∧ ∀ y ∈ P, IsPedOff notes j y → y.time < x.time

variable {notes j}

theorem pedP_append_on {P : List (Ev n)} {x : Ev n} (hx : IsPedOn notes j x)
    (hPx : ∀ y ∈ P, evLe y x = true) : PedP notes j (P ++ [x]) := by
  refine ⟨x, by simp, hx, ?_⟩
  intro y hy hoff
  rcases List.mem_append.mp hy with hy | hy
  · rcases (evLe_iff y x).mp (hPx y hy) with h | h
    · exact h
    · have := h.2; rw [hoff.1, hx.1] at this
      exact absurd this (by decide)
  · simp only [List.mem_singleton] at hy; subst hy
    have := hoff.1; rw [hx.1] at this; exact absurd this (by decide)

theorem pedP_append_off {P : List (Ev n)} {x : Ev n} (hx : IsPedOff notes j x)
    (hPx : ∀ y ∈ P, evLe y x = true) : ¬ PedP notes j (P ++ [x]) := by
  rintro ⟨w, hw, hwon, hall⟩
  have hlt := hall x (by simp) hx
  rcases List.mem_append.mp hw with hw | hw
  · exact absurd hlt (Rat.not_lt.mpr (evLe_time (hPx w hw)))
  · simp only [List.mem_singleton] at hw; subst hw; exact Rat.lt_irrefl hlt

theorem pedP_append_other {P : List (Ev n)} {x : Ev n} (h1 : ¬ IsPedOn notes j x)
    (h2 : ¬ IsPedOff notes j x) : PedP notes j (P ++ [x]) ↔ PedP notes j P := by
  constructor
  · rintro ⟨w, hw, hwon, hall⟩
    rcases List.mem_append.mp hw with hw | hw
    · exact ⟨w, hw, hwon, fun y hy => hall y (List.mem_append_left _ hy)⟩
    · simp only [List.mem_singleton] at hw; subst hw; exact absurd hwon h1
  · rintro ⟨w, hw, hwon, hall⟩
    refine ⟨w, List.mem_append_left _ hw, hwon, ?_⟩
    intro y hy hoff
    rcases List.mem_append.mp hy with hy | hy
    · exact hall y hy hoff
    · simp only [List.mem_singleton] at hy; subst hy; exact absurd hoff h2

/-- the specification of note `j`, stated on the events -/
structure HSpec (E : List (Ev n)) (PD : Prop) (H LT : Rat) : Prop where
  pd_iff : PD ↔ ∃ x ∈ E, IsPedOn notes j x ∧ x.time ≤ (notes j).end_ ∧
    ∀ y ∈ E, IsPedOff notes j y → y.time ≤ (notes j).end_ → y.time < x.time
  h_nopd : ¬ PD → H = (notes j).end_
  h_le_last : PD → H ≤ LT
  h_le_closing : PD → ∀ x ∈ E, Closing notes j x → H ≤ x.time
  h_attained : PD → H = LT ∨ ∃ x ∈ E, Closing notes j x ∧ H = x.time
  last_ge : ∀ x ∈ E, x.time ≤ LT

/-- what is fixed while the sorted list `E = P ++ x :: Q` is being processed -/
structure Ctx (E P : List (Ev n)) (x : Ev n) (Q : List (Ev n)) : Prop where
  split : ∀ y, y ∈ E ↔ y ∈ P ∨ y = x ∨ y ∈ Q
  before : ∀ y ∈ P, evLe y x = true
  after : ∀ y ∈ Q, evLe x y = true
  ok : ∀ y ∈ E, EvOK notes y
  uniq : onEv notes j ∈ P → x ≠ onEv notes j
  on_mem : onEv notes j ∈ E
  off_mem : offEv notes j ∈ E
  nondrum : (notes j).isDrum = false
  wf : (notes j).start ≤ (notes j).end_
  noov : ∀ k, k ≠ j → (notes k).isDrum = false → (notes k).instrument = (notes j).instrument →
    (notes k).pitch = (notes j).pitch →
    (notes k).start ≠ (notes j).start ∧ ((notes j).start < (notes k).start → (notes j).end_ ≤ (notes k).start)

/-- when the next event is at `j`'s end and is a note event, the pedal state reached is the
specification's `pedalDown` -/
theorem pedP_iff_PD {E P Q : List (Ev n)} {x : Ev n} {PD : Prop} {H LT : Rat}
    (hc : Ctx (notes := notes) (j := j) E P x Q) (hsp : HSpec (notes := notes) (j := j) E PD H LT)
    (hxt : x.time = (notes j).end_) (hxtyp : NOTE_ON ≤ x.typ) : PedP notes j P ↔ PD := by
  have hto := typ_order
  have key : ∀ y, (y.typ = SUSTAIN_ON ∨ y.typ = SUSTAIN_OFF) →
      (y ∈ P ↔ (y ∈ E ∧ y.time ≤ (notes j).end_)) := by
    intro y hy
    constructor
    · intro hp
      exact ⟨(hc.split y).mpr (Or.inl hp), by rw [← hxt]; exact evLe_time (hc.before y hp)⟩
    · rintro ⟨he, ht⟩
      rcases (hc.split y).mp he with h | h | h
      · exact h
      · subst h; rcases hy with hy | hy <;> (rw [hy] at hxtyp; omega)
      · have h1 := hc.after y h
        have h2 : x.typ ≤ y.typ := evLe_typ h1 (by rw [hxt]; exact ht)
        rcases hy with hy | hy <;> (rw [hy] at h2; omega)
  rw [hsp.pd_iff]
  constructor
  · rintro ⟨w, hw, hwon, hall⟩
    have hw' := (key w (Or.inl hwon.1)).mp hw
    refine ⟨w, hw'.1, hwon, hw'.2, ?_⟩
    intro y hy hoff hyt
    exact hall y ((key y (Or.inr hoff.1)).mpr ⟨hy, hyt⟩) hoff
  · rintro ⟨w, hw, hwon, hwt, hall⟩
    refine ⟨w, (key w (Or.inl hwon.1)).mpr ⟨hw, hwt⟩, hwon, ?_⟩
    intro y hy hoff
    have hy' := (key y (Or.inr hoff.1)).mp hy
    exact hall y hy'.1 hoff hy'.2

theorem e0_le_H {E : List (Ev n)} {PD : Prop} {H LT : Rat}
    (hsp : HSpec (notes := notes) (j := j) E PD H LT) (hoff : offEv notes j ∈ E) :
    (notes j).end_ ≤ H := by
  by_cases hpd : PD
  · rcases hsp.h_attained hpd with h | ⟨y, hy, hcl, h⟩
    · rw [h]; exact hsp.last_ge _ hoff
    · rw [h]
      rcases hcl with hcl | hcl
      · exact Rat.le_of_lt hcl.2
      · exact hcl.2
  · rw [hsp.h_nopd hpd]; exact Rat.le_refl

/-- the first closing event after the note's end is where the specification ends the note -/
theorem first_closing {E P Q : List (Ev n)} {x : Ev n} {PD : Prop} {H LT : Rat}
    (hc : Ctx (notes := notes) (j := j) E P x Q) (hsp : HSpec (notes := notes) (j := j) E PD H LT)
    (hpd : PD) (hnone : ∀ y ∈ P, ¬ Closing notes j y) (hx : Closing notes j x) : H = x.time := by
  have hxE : x ∈ E := (hc.split x).mpr (Or.inr (Or.inl rfl))
  apply Rat.le_antisymm (hsp.h_le_closing hpd x hxE hx)
  rcases hsp.h_attained hpd with h | ⟨y, hy, hcl, h⟩
  · rw [h]; exact hsp.last_ge x hxE
  · rw [h]
    rcases (hc.split y).mp hy with hy | hy | hy
    · exact absurd hcl (hnone y hy)
    · rw [hy]; exact Rat.le_refl
    · exact evLe_time (hc.after y hy)

def Idle (P : List (Ev n)) (a : Abs) : Prop :=
  onEv notes j ∉ P ∧ a.act = false ∧ a.e = (notes j).end_ ∧ a.tag = .none
def Sounding (P : List (Ev n)) (a : Abs) : Prop :=
  onEv notes j ∈ P ∧ offEv notes j ∉ P ∧ a.act = true ∧ a.e = (notes j).end_ ∧ a.tag = .none ∧
    ∀ y ∈ P, IsStrike notes j y → (notes j).end_ ≤ y.time → a.ped = false
def Held (PD : Prop) (P : List (Ev n)) (a : Abs) : Prop :=
  onEv notes j ∈ P ∧ offEv notes j ∈ P ∧ a.act = true ∧ a.ped = true ∧ a.e = (notes j).end_ ∧
    a.tag = .none ∧ PD ∧ ∀ y ∈ P, ¬ Closing notes j y
def Done (E : List (Ev n)) (PD : Prop) (H : Rat) (P : List (Ev n)) (a : Abs) : Prop :=
  onEv notes j ∈ P ∧ a.act = false ∧ a.e = H ∧ (a.tag = .byPed → PD) ∧
    (a.tag = .byStrike → PD ∧ ∃ y ∈ E, IsStrike notes j y ∧ y.time = H) ∧
    (a.tag = .none → H = (notes j).end_)

variable (notes j) in
def InvJ (E : List (Ev n)) (PD : Prop) (H : Rat) (P : List (Ev n)) (a : Abs) : Prop :=
  (a.ped = true ↔ PedP notes j P) ∧
  (Idle (notes := notes) (j := j) P a ∨ Sounding (notes := notes) (j := j) P a ∨
   Held (notes := notes) (j := j) PD P a ∨ Done (notes := notes) (j := j) E PD H P a)

theorem mem_snoc {α} {y x : α} {P : List α} : y ∈ P ++ [x] ↔ y ∈ P ∨ y = x := by simp

/-- an event that is neither a pedal event of `j`'s instrument, nor a re-strike of `j`'s pitch,
nor one of `j`'s own events changes nothing for `j` -/
theorem invJ_irrelevant {E P : List (Ev n)} {x : Ev n} {PD : Prop} {H : Rat} {a : Abs}
    (h1 : ¬ IsPedOn notes j x) (h2 : ¬ IsPedOff notes j x) (h3 : ¬ IsStrike notes j x)
    (h4 : x ≠ onEv notes j) (h5 : x ≠ offEv notes j)
    (hinv : InvJ notes j E PD H P a) : InvJ notes j E PD H (P ++ [x]) a := by
  have hon : onEv notes j ∈ P ++ [x] ↔ onEv notes j ∈ P := by
    rw [mem_snoc]; exact ⟨fun h => h.elim id (fun e => absurd e.symm h4), Or.inl⟩
  have hoff : offEv notes j ∈ P ++ [x] ↔ offEv notes j ∈ P := by
    rw [mem_snoc]; exact ⟨fun h => h.elim id (fun e => absurd e.symm h5), Or.inl⟩
  have hncl : ¬ Closing notes j x := by
    rintro (h | h)
    · exact h2 h.1
    · exact h3 h.1
  refine ⟨by rw [pedP_append_other h1 h2]; exact hinv.1, ?_⟩
  rcases hinv.2 with h | h | h | h
  · exact Or.inl ⟨by rw [hon]; exact h.1, h.2⟩
  · refine Or.inr (Or.inl ⟨hon.mpr h.1, by rw [hoff]; exact h.2.1, h.2.2.1, h.2.2.2.1, h.2.2.2.2.1, ?_⟩)
    intro y hy hs
    rcases mem_snoc.mp hy with hy | hy
    · exact h.2.2.2.2.2 y hy hs
    · subst hy; exact absurd hs h3
  · refine Or.inr (Or.inr (Or.inl ⟨hon.mpr h.1, hoff.mpr h.2.1, h.2.2.1, h.2.2.2.1, h.2.2.2.2.1,
      h.2.2.2.2.2.1, h.2.2.2.2.2.2.1, ?_⟩))
    intro y hy
    rcases mem_snoc.mp hy with hy | hy
    · exact h.2.2.2.2.2.2.2 y hy
    · subst hy; exact hncl
  · exact Or.inr (Or.inr (Or.inr ⟨hon.mpr h.1, h.2⟩))

/-- while `j`'s own note-off is still to come, the next event is not after `j`'s end -/
theorem ctx_before_off {E P Q : List (Ev n)} {x : Ev n}
    (hc : Ctx (notes := notes) (j := j) E P x Q) (h1 : offEv notes j ∉ P) (h2 : x ≠ offEv notes j) :
    evLe x (offEv notes j) = true := by
  rcases (hc.split _).mp hc.off_mem with h | h | h
  · exact absurd h h1
  · exact absurd h.symm h2
  · exact hc.after _ h

/-- pedal-down event of `j`'s instrument -/
theorem invJ_pedOn {E P Q : List (Ev n)} {PD : Prop} {H LT : Rat} {a : Abs} (t : Rat) (c : CC)
    (hi : c.instrument = (notes j).instrument)
    (hc : Ctx (notes := notes) (j := j) E P ⟨t, SUSTAIN_ON, .cc c⟩ Q)
    (hsp : HSpec (notes := notes) (j := j) E PD H LT) (hinv : InvJ notes j E PD H P a) :
    InvJ notes j E PD H (P ++ [⟨t, SUSTAIN_ON, .cc c⟩]) (astep notes j a ⟨t, SUSTAIN_ON, .cc c⟩) := by
  have hto := typ_order
  have hA : astep notes j a ⟨t, SUSTAIN_ON, .cc c⟩ = { a with ped := true } := by simp [astep, hi]
  have hx : IsPedOn notes j (⟨t, SUSTAIN_ON, .cc c⟩ : Ev n) := ⟨rfl, c, rfl, hi⟩
  have hns : ¬ IsStrike notes j (⟨t, SUSTAIN_ON, .cc c⟩ : Ev n) := by
    rintro ⟨h, _⟩; exact t02 h
  have hnoff : ¬ IsPedOff notes j (⟨t, SUSTAIN_ON, .cc c⟩ : Ev n) := by
    rintro ⟨h, _⟩; exact t01 h
  have h4 : (⟨t, SUSTAIN_ON, .cc c⟩ : Ev n) ≠ onEv notes j := by
    intro e; exact t02 (congrArg Ev.typ e)
  have h5 : (⟨t, SUSTAIN_ON, .cc c⟩ : Ev n) ≠ offEv notes j := by
    intro e; exact t03 (congrArg Ev.typ e)
  have hon : onEv notes j ∈ P ++ [(⟨t, SUSTAIN_ON, .cc c⟩ : Ev n)] ↔ onEv notes j ∈ P := by
    rw [mem_snoc]; exact ⟨fun h => h.elim id (fun e => absurd e.symm h4), Or.inl⟩
  have hoff : offEv notes j ∈ P ++ [(⟨t, SUSTAIN_ON, .cc c⟩ : Ev n)] ↔ offEv notes j ∈ P := by
    rw [mem_snoc]; exact ⟨fun h => h.elim id (fun e => absurd e.symm h5), Or.inl⟩
  have hncl : ¬ Closing notes j (⟨t, SUSTAIN_ON, .cc c⟩ : Ev n) := by
    rintro (h | h)
    · exact hnoff h.1
    · exact hns h.1
  rw [hA]
  refine ⟨⟨fun _ => pedP_append_on hx hc.before, fun _ => rfl⟩, ?_⟩
  rcases hinv.2 with h | h | h | h
  · exact Or.inl ⟨by rw [hon]; exact h.1, h.2⟩
  · refine Or.inr (Or.inl ⟨hon.mpr h.1, by rw [hoff]; exact h.2.1, h.2.2.1, h.2.2.2.1, h.2.2.2.2.1, ?_⟩)
    intro y hy hs hge
    exfalso
    rcases mem_snoc.mp hy with hy | hy
    · have h1 := hc.before y hy
      have h2 := evLe_time (ctx_before_off hc h.2.1 h5)
      have h3 : y.time < t := by
        rcases (evLe_iff _ _).mp h1 with h1 | h1
        · exact h1
        · have := h1.2; rw [hs.1] at this; simp only at this; omega
      simp only [offEv] at h2
      grind
    · subst hy; exact hns hs
  · refine Or.inr (Or.inr (Or.inl ⟨hon.mpr h.1, hoff.mpr h.2.1, h.2.2.1, rfl, h.2.2.2.2.1,
      h.2.2.2.2.2.1, h.2.2.2.2.2.2.1, ?_⟩))
    intro y hy
    rcases mem_snoc.mp hy with hy | hy
    · exact h.2.2.2.2.2.2.2 y hy
    · subst hy; exact hncl
  · exact Or.inr (Or.inr (Or.inr ⟨hon.mpr h.1, h.2⟩))

/-- pedal-up event of `j`'s instrument -/
theorem invJ_pedOff {E P Q : List (Ev n)} {PD : Prop} {H LT : Rat} {a : Abs} (t : Rat) (c : CC)
    (hi : c.instrument = (notes j).instrument)
    (hc : Ctx (notes := notes) (j := j) E P ⟨t, SUSTAIN_OFF, .cc c⟩ Q)
    (hsp : HSpec (notes := notes) (j := j) E PD H LT) (hinv : InvJ notes j E PD H P a) :
    InvJ notes j E PD H (P ++ [⟨t, SUSTAIN_OFF, .cc c⟩]) (astep notes j a ⟨t, SUSTAIN_OFF, .cc c⟩) := by
  have hto := typ_order
  have hA : astep notes j a ⟨t, SUSTAIN_OFF, .cc c⟩ =
      if a.act = true ∧ a.e < t then { act := false, e := t, ped := false, tag := .byPed }
      else { a with ped := false } := by simp [astep, hi, Ne.symm t01]
  have hx : IsPedOff notes j (⟨t, SUSTAIN_OFF, .cc c⟩ : Ev n) := ⟨rfl, c, rfl, hi⟩
  have hns : ¬ IsStrike notes j (⟨t, SUSTAIN_OFF, .cc c⟩ : Ev n) := by
    rintro ⟨h, _⟩; exact t12 h
  have h4 : (⟨t, SUSTAIN_OFF, .cc c⟩ : Ev n) ≠ onEv notes j := by
    intro e; exact t12 (congrArg Ev.typ e)
  have h5 : (⟨t, SUSTAIN_OFF, .cc c⟩ : Ev n) ≠ offEv notes j := by
    intro e; exact t13 (congrArg Ev.typ e)
  have hon : onEv notes j ∈ P ++ [(⟨t, SUSTAIN_OFF, .cc c⟩ : Ev n)] ↔ onEv notes j ∈ P := by
    rw [mem_snoc]; exact ⟨fun h => h.elim id (fun e => absurd e.symm h4), Or.inl⟩
  have hoff : offEv notes j ∈ P ++ [(⟨t, SUSTAIN_OFF, .cc c⟩ : Ev n)] ↔ offEv notes j ∈ P := by
    rw [mem_snoc]; exact ⟨fun h => h.elim id (fun e => absurd e.symm h5), Or.inl⟩
  have hnp := pedP_append_off hx hc.before
  have hped : (astep notes j a ⟨t, SUSTAIN_OFF, .cc c⟩).ped = false := by
    rw [hA]; split <;> rfl
  refine ⟨⟨fun h => (by rw [hped] at h; cases h), fun h => absurd h hnp⟩, ?_⟩
  rw [hA]
  rcases hinv.2 with h | h | h | h
  · have : ¬ (a.act = true ∧ a.e < t) := by rw [h.2.1]; simp
    rw [if_neg this]
    exact Or.inl ⟨by rw [hon]; exact h.1, h.2⟩
  · have h2 := evLe_time (ctx_before_off hc h.2.1 h5)
    simp only [offEv] at h2
    have : ¬ (a.act = true ∧ a.e < t) := by
      rw [h.2.2.2.1]; intro hh; exact absurd hh.2 (Rat.not_lt.mpr h2)
    rw [if_neg this]
    exact Or.inr (Or.inl ⟨hon.mpr h.1, by rw [hoff]; exact h.2.1, h.2.2.1, h.2.2.2.1, h.2.2.2.2.1,
      fun _ _ _ _ => rfl⟩)
  · have h1 := hc.before _ h.2.1
    have hlt : (notes j).end_ < t := by
      rcases (evLe_iff _ _).mp h1 with h1 | h1
      · exact h1
      · have := h1.2; simp only [offEv] at this; omega
    have hcl : Closing notes j (⟨t, SUSTAIN_OFF, .cc c⟩ : Ev n) := Or.inl ⟨hx, hlt⟩
    have hH := first_closing hc hsp h.2.2.2.2.2.2.1 h.2.2.2.2.2.2.2 hcl
    have : a.act = true ∧ a.e < t := ⟨h.2.2.1, by rw [h.2.2.2.2.1]; exact hlt⟩
    rw [if_pos this]
    refine Or.inr (Or.inr (Or.inr ⟨hon.mpr h.1, rfl, hH.symm, fun _ => h.2.2.2.2.2.2.1, ?_, ?_⟩))
    · intro hh; cases hh
    · intro hh; cases hh
  · have : ¬ (a.act = true ∧ a.e < t) := by rw [h.2.1]; simp
    rw [if_neg this]
    exact Or.inr (Or.inr (Or.inr ⟨hon.mpr h.1, h.2⟩))

/-- another note of `j`'s pitch starts on `j`'s instrument -/
theorem invJ_strike {E P Q : List (Ev n)} {PD : Prop} {H LT : Rat} {a : Abs} (t : Rat) (k : Fin n)
    (hkj : k ≠ j) (hkd : (notes k).isDrum = false) (ht : t = (notes k).start)
    (hki : (notes k).instrument = (notes j).instrument) (hkp : (notes k).pitch = (notes j).pitch)
    (hc : Ctx (notes := notes) (j := j) E P ⟨t, NOTE_ON, .note k⟩ Q)
    (hsp : HSpec (notes := notes) (j := j) E PD H LT) (hinv : InvJ notes j E PD H P a) :
    InvJ notes j E PD H (P ++ [⟨t, NOTE_ON, .note k⟩]) (astep notes j a ⟨t, NOTE_ON, .note k⟩) := by
  have hto := typ_order
  have hA : astep notes j a ⟨t, NOTE_ON, .note k⟩ =
      if a.ped = true ∧ a.act = true then { a with act := false, e := t, tag := .byStrike } else a := by
    simp [astep, hkj, hki, hkp]
  have hx : IsStrike notes j (⟨t, NOTE_ON, .note k⟩ : Ev n) := ⟨rfl, k, rfl, hkj, hki, hkp⟩
  have hnon : ¬ IsPedOn notes j (⟨t, NOTE_ON, .note k⟩ : Ev n) := by
    rintro ⟨h, _⟩; exact t02 h.symm
  have hnoff : ¬ IsPedOff notes j (⟨t, NOTE_ON, .note k⟩ : Ev n) := by
    rintro ⟨h, _⟩; exact t12 h.symm
  have h4 : (⟨t, NOTE_ON, .note k⟩ : Ev n) ≠ onEv notes j := by
    intro e
    have := congrArg Ev.obj e
    simp only [onEv, Obj.note.injEq] at this
    exact hkj this
  have h5 : (⟨t, NOTE_ON, .note k⟩ : Ev n) ≠ offEv notes j := by
    intro e; exact t23 (congrArg Ev.typ e)
  have hon : onEv notes j ∈ P ++ [(⟨t, NOTE_ON, .note k⟩ : Ev n)] ↔ onEv notes j ∈ P := by
    rw [mem_snoc]; exact ⟨fun h => h.elim id (fun e => absurd e.symm h4), Or.inl⟩
  have hoff : offEv notes j ∈ P ++ [(⟨t, NOTE_ON, .note k⟩ : Ev n)] ↔ offEv notes j ∈ P := by
    rw [mem_snoc]; exact ⟨fun h => h.elim id (fun e => absurd e.symm h5), Or.inl⟩
  have hxE : (⟨t, NOTE_ON, .note k⟩ : Ev n) ∈ E := (hc.split _).mpr (Or.inr (Or.inl rfl))
  have hped : (astep notes j a ⟨t, NOTE_ON, .note k⟩).ped = a.ped := by
    rw [hA]; split <;> rfl
  refine ⟨by rw [hped, pedP_append_other hnon hnoff]; exact hinv.1, ?_⟩
  rw [hA]
  rcases hinv.2 with h | h | h | h
  · have : ¬ (a.ped = true ∧ a.act = true) := by rw [h.2.1]; simp
    rw [if_neg this]
    exact Or.inl ⟨by rw [hon]; exact h.1, h.2⟩
  · -- sounding: the re-strike can only be exactly at `j`'s end
    have h1 := evLe_time (hc.before _ h.1)
    have h2 := evLe_time (ctx_before_off hc h.2.1 h5)
    simp only [onEv, offEv] at h1 h2
    have hno := hc.noov k hkj hkd hki hkp
    have hte : t = (notes j).end_ := by
      have : (notes j).start < (notes k).start := by
        have := hno.1; rw [← ht]; grind
      have := hno.2 this
      rw [← ht] at this
      exact Rat.le_antisymm h2 this
    by_cases hp : a.ped = true
    · have : a.ped = true ∧ a.act = true := ⟨hp, h.2.2.1⟩
      rw [if_pos this]
      have hpd : PD := (pedP_iff_PD hc hsp hte (Nat.le_refl _)).mp (hinv.1.mp hp)
      have hcl : Closing notes j (⟨t, NOTE_ON, .note k⟩ : Ev n) := Or.inr ⟨hx, by rw [hte]; exact Rat.le_refl⟩
      have hH : H = t := by
        apply Rat.le_antisymm (hsp.h_le_closing hpd _ hxE hcl)
        rw [hte]; exact e0_le_H hsp hc.off_mem
      refine Or.inr (Or.inr (Or.inr ⟨hon.mpr h.1, rfl, hH.symm, ?_, ?_, ?_⟩))
      · intro hh; cases hh
      · intro _; exact ⟨hpd, _, hxE, hx, hH.symm⟩
      · intro hh; cases hh
    · have : ¬ (a.ped = true ∧ a.act = true) := fun hh => hp hh.1
      rw [if_neg this]
      refine Or.inr (Or.inl ⟨hon.mpr h.1, by rw [hoff]; exact h.2.1, h.2.2.1, h.2.2.2.1, h.2.2.2.2.1, ?_⟩)
      intro y hy hs hge
      rcases mem_snoc.mp hy with hy | hy
      · exact h.2.2.2.2.2 y hy hs hge
      · simpa using hp
  · -- held: the re-strike is after `j`'s end and closes the note
    have h1 := hc.before _ h.2.1
    have hlt : (notes j).end_ < t := by
      rcases (evLe_iff _ _).mp h1 with h1 | h1
      · exact h1
      · have := h1.2; simp only [offEv] at this; omega
    have hcl : Closing notes j (⟨t, NOTE_ON, .note k⟩ : Ev n) := Or.inr ⟨hx, Rat.le_of_lt hlt⟩
    have hH := first_closing hc hsp h.2.2.2.2.2.2.1 h.2.2.2.2.2.2.2 hcl
    have : a.ped = true ∧ a.act = true := ⟨h.2.2.2.1, h.2.2.1⟩
    rw [if_pos this]
    refine Or.inr (Or.inr (Or.inr ⟨hon.mpr h.1, rfl, hH.symm, ?_, ?_, ?_⟩))
    · intro hh; cases hh
    · intro _; exact ⟨h.2.2.2.2.2.2.1, _, hxE, hx, hH.symm⟩
    · intro hh; cases hh
  · have : ¬ (a.ped = true ∧ a.act = true) := by rw [h.2.1]; simp
    rw [if_neg this]
    exact Or.inr (Or.inr (Or.inr ⟨hon.mpr h.1, h.2⟩))

theorem off_not_before_on (hwf : (notes j).start ≤ (notes j).end_) :
    ¬ evLe (offEv notes j) (onEv notes j) = true := by
  intro h
  have hto := typ_order
  rcases (evLe_iff _ _).mp h with h | h
  · simp only [offEv, onEv] at h; exact absurd h (Rat.not_lt.mpr hwf)
  · have := h.2; simp only [offEv, onEv] at this; omega

/-- `j`'s own note-on -/
theorem invJ_on {E P Q : List (Ev n)} {PD : Prop} {H LT : Rat} {a : Abs}
    (hc : Ctx (notes := notes) (j := j) E P (onEv notes j) Q)
    (hsp : HSpec (notes := notes) (j := j) E PD H LT) (hinv : InvJ notes j E PD H P a) :
    InvJ notes j E PD H (P ++ [onEv notes j]) (astep notes j a (onEv notes j)) := by
  have hto := typ_order
  have hA : astep notes j a (onEv notes j) = { a with act := true } := by simp [astep, onEv]
  have hnon : ¬ IsPedOn notes j (onEv notes j) := by rintro ⟨h, _⟩; exact t02 h.symm
  have hnoff : ¬ IsPedOff notes j (onEv notes j) := by rintro ⟨h, _⟩; exact t12 h.symm
  have hns : ¬ IsStrike notes j (onEv notes j) := by
    rintro ⟨_, k, hk, hkj, _⟩
    simp only [onEv, Obj.note.injEq] at hk
    exact hkj hk.symm
  have hnew : onEv notes j ∉ P := fun h => hc.uniq h rfl
  have hoffP : offEv notes j ∉ P := fun h => off_not_before_on hc.wf (hc.before _ h)
  have hne : offEv notes j ≠ onEv notes j := by intro e; exact t23 (congrArg Ev.typ e).symm
  rw [hA]
  refine ⟨by rw [pedP_append_other hnon hnoff]; exact hinv.1, ?_⟩
  rcases hinv.2 with h | h | h | h
  · refine Or.inr (Or.inl ⟨by simp, ?_, rfl, h.2.2.1, h.2.2.2, ?_⟩)
    · rw [mem_snoc]; rintro (h' | h')
      · exact hoffP h'
      · exact hne h'
    · intro y hy hs hge
      exfalso
      rcases mem_snoc.mp hy with hy | hy
      · have hyE : y ∈ E := (hc.split y).mpr (Or.inl hy)
        have hok := hc.ok y hyE
        have hle := evLe_time (hc.before y hy)
        obtain ⟨ty, typy, objy⟩ := y
        obtain ⟨htyp, k, hobj, hkj, hki, hkp⟩ := hs
        simp only at htyp hobj hge hle
        subst hobj htyp
        simp only [EvOK] at hok
        obtain ⟨hkd, hk | hk⟩ := hok
        · have hno := hc.noov k hkj hkd hki hkp
          simp only [onEv] at hle
          have hwf := hc.wf
          apply hno.1
          rw [← hk.2]
          grind
        · exact t23 hk.1
      · subst hy; exact hns hs
  · exact absurd h.1 hnew
  · exact absurd h.1 hnew
  · exact absurd h.1 hnew

/-- `j`'s own note-off -/
theorem invJ_off {E P Q : List (Ev n)} {PD : Prop} {H LT : Rat} {a : Abs}
    (hc : Ctx (notes := notes) (j := j) E P (offEv notes j) Q)
    (hsp : HSpec (notes := notes) (j := j) E PD H LT) (hinv : InvJ notes j E PD H P a) :
    InvJ notes j E PD H (P ++ [offEv notes j]) (astep notes j a (offEv notes j)) := by
  have hto := typ_order
  have hA : astep notes j a (offEv notes j) =
      if a.ped = false then { a with act := false } else a := by
    simp [astep, offEv, Ne.symm t23]
  have hnon : ¬ IsPedOn notes j (offEv notes j) := by rintro ⟨h, _⟩; exact t03 h.symm
  have hnoff : ¬ IsPedOff notes j (offEv notes j) := by rintro ⟨h, _⟩; exact t13 h.symm
  have hns : ¬ IsStrike notes j (offEv notes j) := by rintro ⟨h, _⟩; exact t23 h.symm
  have hncl : ¬ Closing notes j (offEv notes j) := by
    rintro (h | h)
    · exact hnoff h.1
    · exact hns h.1
  have h4 : offEv notes j ≠ onEv notes j := by intro e; exact t23 (congrArg Ev.typ e).symm
  have hon : onEv notes j ∈ P ++ [offEv notes j] ↔ onEv notes j ∈ P := by
    rw [mem_snoc]; exact ⟨fun h => h.elim id (fun e => absurd e.symm h4), Or.inl⟩
  have hped : (astep notes j a (offEv notes j)).ped = a.ped := by
    rw [hA]; split <;> rfl
  refine ⟨by rw [hped, pedP_append_other hnon hnoff]; exact hinv.1, ?_⟩
  rw [hA]
  rcases hinv.2 with h | h | h | h
  · -- idle is impossible: the note-on sorts before the note-off
    exfalso
    rcases (hc.split _).mp hc.on_mem with h' | h' | h'
    · exact h.1 h'
    · exact h4 h'.symm
    · exact off_not_before_on hc.wf (hc.after _ h')
  · have hiff := pedP_iff_PD hc hsp rfl (Nat.le_of_lt hto.2.2)
    by_cases hp : a.ped = true
    · have : ¬ a.ped = false := by rw [hp]; simp
      rw [if_neg this]
      have hpd : PD := hiff.mp (hinv.1.mp hp)
      refine Or.inr (Or.inr (Or.inl ⟨hon.mpr h.1, by simp, h.2.2.1, hp, h.2.2.2.1, h.2.2.2.2.1, hpd, ?_⟩))
      intro y hy
      rcases mem_snoc.mp hy with hy | hy
      · rintro (hcl | hcl)
        · have := evLe_time (hc.before y hy)
          simp only [offEv] at this
          exact absurd hcl.2 (Rat.not_lt.mpr this)
        · have := h.2.2.2.2.2 y hy hcl.1 hcl.2
          rw [hp] at this; cases this
      · subst hy; exact hncl
    · have hp' : a.ped = false := by simpa using hp
      rw [if_pos hp']
      have hnpd : ¬ PD := fun hpd => hp (hinv.1.mpr (hiff.mpr hpd))
      refine Or.inr (Or.inr (Or.inr ⟨hon.mpr h.1, rfl, ?_, ?_, ?_, ?_⟩))
      · show a.e = H
        rw [h.2.2.2.1, hsp.h_nopd hnpd]
      · intro hh; simp only [h.2.2.2.2.1] at hh; cases hh
      · intro hh; simp only [h.2.2.2.2.1] at hh; cases hh
      · intro _; exact hsp.h_nopd hnpd
  · have : ¬ a.ped = false := by rw [h.2.2.2.1]; simp
    rw [if_neg this]
    refine Or.inr (Or.inr (Or.inl ⟨hon.mpr h.1, by simp, h.2.2.1, h.2.2.2.1, h.2.2.2.2.1,
      h.2.2.2.2.2.1, h.2.2.2.2.2.2.1, ?_⟩))
    intro y hy
    rcases mem_snoc.mp hy with hy | hy
    · exact h.2.2.2.2.2.2.2 y hy
    · subst hy; exact hncl
  · refine Or.inr (Or.inr (Or.inr ⟨hon.mpr h.1, ?_, ?_, ?_⟩))
    · split
      · rfl
      · exact h.2.1
    · split <;> exact h.2.2.1
    · split <;> exact h.2.2.2

/-- one step of the per-note automaton preserves the invariant -/
theorem invJ_step {E P Q : List (Ev n)} {x : Ev n} {PD : Prop} {H LT : Rat} {a : Abs}
    (hc : Ctx (notes := notes) (j := j) E P x Q)
    (hsp : HSpec (notes := notes) (j := j) E PD H LT) (hinv : InvJ notes j E PD H P a) :
    InvJ notes j E PD H (P ++ [x]) (astep notes j a x) := by
  have hok := hc.ok x ((hc.split x).mpr (Or.inr (Or.inl rfl)))
  obtain ⟨t, typ, obj⟩ := x
  cases obj with
  | cc c =>
    simp only [EvOK] at hok
    by_cases hi : c.instrument = (notes j).instrument
    · rcases hok with h | h
      · subst h; exact invJ_pedOn t c hi hc hsp hinv
      · subst h; exact invJ_pedOff t c hi hc hsp hinv
    · have hA : astep notes j a ⟨t, typ, .cc c⟩ = a := by simp [astep, hi]
      rw [hA]
      apply invJ_irrelevant _ _ _ _ _ hinv
      · rintro ⟨_, c', hc', hi'⟩
        simp only [Obj.cc.injEq] at hc'; subst hc'; exact hi hi'
      · rintro ⟨_, c', hc', hi'⟩
        simp only [Obj.cc.injEq] at hc'; subst hc'; exact hi hi'
      · rintro ⟨_, k, hk, _⟩; cases hk
      · intro e; have := congrArg Ev.obj e; simp only [onEv] at this; cases this
      · intro e; have := congrArg Ev.obj e; simp only [offEv] at this; cases this
  | note k =>
    simp only [EvOK] at hok
    obtain ⟨hkd, ⟨htyp, ht⟩ | ⟨htyp, ht⟩⟩ := hok
    · subst htyp
      by_cases hkj : k = j
      · subst hkj
        have hx : (⟨t, NOTE_ON, .note k⟩ : Ev n) = onEv notes k := by simp [onEv, ht]
        rw [hx] at hc ⊢
        exact invJ_on hc hsp hinv
      · by_cases hs : (notes k).instrument = (notes j).instrument ∧ (notes k).pitch = (notes j).pitch
        · exact invJ_strike t k hkj hkd ht hs.1 hs.2 hc hsp hinv
        · have hA : astep notes j a ⟨t, NOTE_ON, .note k⟩ = a := by
            simp only [astep, if_true, hkj, if_false]
            have : ¬ ((notes k).instrument = (notes j).instrument ∧ (notes k).pitch = (notes j).pitch ∧
                a.ped = true ∧ a.act = true) := fun h => hs ⟨h.1, h.2.1⟩
            rw [if_neg this]
          rw [hA]
          apply invJ_irrelevant _ _ _ _ _ hinv
          · rintro ⟨h, _⟩; exact t02 h.symm
          · rintro ⟨h, _⟩; exact t12 h.symm
          · rintro ⟨_, k', hk', _, h1, h2⟩
            simp only [Obj.note.injEq] at hk'; subst hk'; exact hs ⟨h1, h2⟩
          · intro e
            have := congrArg Ev.obj e
            simp only [onEv, Obj.note.injEq] at this
            exact hkj this
          · intro e; exact t23 (congrArg Ev.typ e)
    · subst htyp
      by_cases hkj : k = j
      · subst hkj
        have hx : (⟨t, NOTE_OFF, .note k⟩ : Ev n) = offEv notes k := by simp [offEv, ht]
        rw [hx] at hc ⊢
        exact invJ_off hc hsp hinv
      · have hA : astep notes j a ⟨t, NOTE_OFF, .note k⟩ = a := by
          simp [astep, Ne.symm t23, hkj]
        rw [hA]
        apply invJ_irrelevant _ _ _ _ _ hinv
        · rintro ⟨h, _⟩; exact t03 h.symm
        · rintro ⟨h, _⟩; exact t13 h.symm
        · rintro ⟨h, _⟩; exact t23 h.symm
        · intro e; exact t23 (congrArg Ev.typ e).symm
        · intro e
          have := congrArg Ev.obj e
          simp only [offEv, Obj.note.injEq] at this
          exact hkj this

/-- what does not change during the run -/
structure Static (E : List (Ev n)) : Prop where
  ok : ∀ y ∈ E, EvOK notes y
  on_mem : onEv notes j ∈ E
  off_mem : offEv notes j ∈ E
  nondrum : (notes j).isDrum = false
  wf : (notes j).start ≤ (notes j).end_
  noov : ∀ k, k ≠ j → (notes k).isDrum = false → (notes k).instrument = (notes j).instrument →
    (notes k).pitch = (notes j).pitch →
    (notes k).start ≠ (notes j).start ∧ ((notes j).start < (notes k).start → (notes j).end_ ≤ (notes k).start)

theorem mem_onIds {L : List (Ev n)} (h : onEv notes j ∈ L) : j ∈ onIds L := by
  simp only [onIds, List.mem_filterMap]
  exact ⟨onEv notes j, h, by simp [onEv]⟩

theorem onIds_append (A B : List (Ev n)) : onIds (A ++ B) = onIds A ++ onIds B := by
  simp [onIds, List.filterMap_append]

theorem invJ_run {E : List (Ev n)} {PD : Prop} {H LT : Rat}
    (hst : Static (notes := notes) (j := j) E) (hsp : HSpec (notes := notes) (j := j) E PD H LT) :
    ∀ (Q P : List (Ev n)) (a : Abs), (∀ y, y ∈ E ↔ y ∈ P ∨ y ∈ Q) →
      Q.Pairwise (fun a b => evLe a b = true) → (∀ p ∈ P, ∀ q ∈ Q, evLe p q = true) →
      (onIds (P ++ Q)).Nodup → InvJ notes j E PD H P a →
      InvJ notes j E PD H (P ++ Q) (Q.foldl (astep notes j) a) := by
  intro Q
  induction Q with
  | nil => intro P a _ _ _ _ h; simpa using h
  | cons x Q ih =>
    intro P a hsplit hpw hPQ hnd hinv
    have hpw' := List.pairwise_cons.mp hpw
    have hc : Ctx (notes := notes) (j := j) E P x Q := {
      split := by intro y; rw [hsplit y, List.mem_cons]
      before := fun y hy => hPQ y hy x (by simp)
      after := hpw'.1
      ok := hst.ok
      uniq := by
        intro hP hx
        subst hx
        rw [onIds_append] at hnd
        have h1 : j ∈ onIds P := mem_onIds (notes := notes) hP
        have h2 : j ∈ onIds (onEv notes j :: Q) := mem_onIds (notes := notes) (by simp)
        exact (List.nodup_append.mp hnd).2.2 j h1 j h2 rfl
      on_mem := hst.on_mem
      off_mem := hst.off_mem
      nondrum := hst.nondrum
      wf := hst.wf
      noov := hst.noov }
    have hstep := invJ_step hc hsp hinv
    have := ih (P ++ [x]) (astep notes j a x)
      (by intro y; rw [hsplit y, mem_snoc, List.mem_cons, or_assoc])
      hpw'.2
      (by
        intro p hp q hq
        rcases mem_snoc.mp hp with hp | hp
        · exact hPQ p hp q (List.mem_cons_of_mem _ hq)
        · subst hp; exact hpw'.1 q hq)
      (by rw [List.append_assoc]; exact hnd)
      hstep
    rw [List.append_assoc] at this
    exact this

/-- the result of the per-note automaton on the whole sorted event list -/
theorem abs_final {E : List (Ev n)} {PD : Prop} {H LT : Rat}
    (hst : Static (notes := notes) (j := j) E) (hsp : HSpec (notes := notes) (j := j) E PD H LT)
    (hpw : E.Pairwise (fun a b => evLe a b = true)) (hnd : (onIds E).Nodup) :
    let aF := E.foldl (astep notes j) (abs0 notes j)
    (if aF.act = true then LT else aF.e) = H ∧
    ((aF.act = true ∨ aF.tag = .byPed) → PD) ∧
    (aF.tag = .byStrike → ∃ y ∈ E, IsStrike notes j y ∧ y.time = H) ∧
    (aF.act = false → aF.tag = .none → H = (notes j).end_) := by
  intro aF
  have h0 : InvJ notes j E PD H [] (abs0 notes j) := by
    refine ⟨?_, Or.inl ⟨by simp, rfl, rfl, rfl⟩⟩
    constructor
    · intro h; cases h
    · rintro ⟨x, hx, _⟩; cases hx
  have hF := invJ_run hst hsp E [] (abs0 notes j) (by simp) hpw (by simp) (by simpa using hnd) h0
  simp only [List.nil_append] at hF
  rcases hF.2 with h | h | h | h
  · exact absurd hst.on_mem h.1
  · exact absurd hst.off_mem h.2.1
  · have hact : aF.act = true := h.2.2.1
    have hpd : PD := h.2.2.2.2.2.2.1
    refine ⟨?_, fun _ => hpd, ?_, ?_⟩
    · rw [if_pos hact]
      rcases hsp.h_attained hpd with hh | ⟨y, hy, hcl, _⟩
      · exact hh.symm
      · exact absurd hcl (h.2.2.2.2.2.2.2 y hy)
    · intro hh; have : aF.tag = .none := h.2.2.2.2.2.1; rw [this] at hh; cases hh
    · intro hh; rw [hact] at hh; cases hh
  · have hact : aF.act = false := h.2.1
    refine ⟨?_, ?_, ?_, ?_⟩
    · have : ¬ aF.act = true := by rw [hact]; simp
      rw [if_neg this]; exact h.2.2.1
    · rintro (hh | hh)
      · rw [hact] at hh; cases hh
      · exact h.2.2.2.1 hh
    · intro hh; exact (h.2.2.2.2.1 hh).2
    · intro _ hh; exact h.2.2.2.2.2 hh

end perNote

/-! ### the loop variable `time` after a sorted loop is the largest event time -/
theorem lastTimeOf_cases {n} (t : Rat) (E : List (Ev n)) :
    (E = [] ∧ lastTimeOf t E = t) ∨ ∃ z ∈ E, lastTimeOf t E = z.time := by
  induction E generalizing t with
  | nil => exact Or.inl ⟨rfl, rfl⟩
  | cons x E ih =>
    right
    rcases ih x.time with ⟨h1, h2⟩ | ⟨z, hz, h⟩
    · exact ⟨x, by simp, by simp only [lastTimeOf, List.foldl_cons] at h2 ⊢; exact h2⟩
    · exact ⟨z, List.mem_cons_of_mem _ hz, by simp only [lastTimeOf, List.foldl_cons] at h ⊢; exact h⟩

theorem lastTimeOf_ge {n} (t : Rat) (E : List (Ev n))
    (hpw : E.Pairwise (fun a b => evLe a b = true)) : ∀ y ∈ E, y.time ≤ lastTimeOf t E := by
  induction E generalizing t with
  | nil => intro y hy; cases hy
  | cons x E ih =>
    intro y hy
    have hpw' := List.pairwise_cons.mp hpw
    have hstep : lastTimeOf t (x :: E) = lastTimeOf x.time E := by simp [lastTimeOf]
    rw [hstep]
    rcases List.mem_cons.mp hy with hy | hy
    · subst hy
      rcases lastTimeOf_cases y.time E with ⟨_, h⟩ | ⟨z, hz, h⟩
      · rw [h]; exact Rat.le_refl
      · rw [h]; exact evLe_time (hpw'.1 z hz)
    · exact ih x.time hpw'.2 y hy

end NSV.C14
