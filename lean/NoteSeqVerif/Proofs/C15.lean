import NoteSeqVerif.Model.C15
/-! C15 — helper lemmas for `Props/C15.lean` (core Lean only). -/
namespace NSV.C15
open Gen

deriving instance DecidableEq for Except

/-! ## facts about the generated tables (`decide` over the whole table) -/

/-- pitch class, relative to the root, that the *reader* gives a degree name -/
def namePitch (d : Deg) : Option Nat :=
  (dget DEGREE_OFFSETS (normDegree d.num)).map (fun off => pymod12 (off + d.alter))

/-- the modification the namer writes for a degree that the kind lacks -/
def addModOf (d : Deg) : Mod :=
  let alter := if d.num = 7 then d.alter + 1 else d.alter
  if alter ≠ 0 ∧ d.num > 7 then ⟨.alt, alter, d.num⟩ else ⟨.add, alter, d.num⟩

/-- the reader maps that modification to "insert `d.num ↦ d.alter`" -/
def EmitOk (d : Deg) : Prop :=
  match lookupMod (addModOf d) with
  | some (.add, a) => (if d.num = 7 then a - 1 else a) = d.alter
  | some (.alt, a) => a = d.alter
  | _ => False

instance (d : Deg) : Decidable (EmitOk d) := by
  unfold EmitOk; split <;> exact inferInstance

theorem scale_rows_len : SCALE_DEGREES.length = 12 := by decide

theorem scale_rows_pitch :
    ∀ p ∈ List.range 12, ∀ d ∈ (SCALE_DEGREES[p]?).getD [], namePitch d = some p := by decide +kernel

theorem scale_rows_emit : ∀ row ∈ SCALE_DEGREES, ∀ d ∈ row, EmitOk d := by decide +kernel

theorem kinds_nodup : ∀ k ∈ CHORD_KINDS, (k.degrees.map (·.num)).Nodup := by decide +kernel

theorem kinds_by_abbrev_nodup : ∀ kd ∈ KIND_DEGREES, (kd.map (·.num)).Nodup := by decide +kernel

theorem kinds_abbrev : ∀ k ∈ CHORD_KINDS, KIND_DEGREES[k.abbrev0]? = some k.degrees := by decide +kernel

theorem row_zero : SCALE_DEGREES[0]? = some [⟨1, 0⟩] := by decide

theorem ped_kind : ∃ k ∈ CHORD_KINDS, k.degrees = [⟨1, 0⟩] := by decide +kernel

theorem spell_ok : ∀ r ∈ List.range 12, (spellFromC r >>= pitchClassToMidi) = .ok r := by decide +kernel

/-! ## Python dict as association list -/

def pair (d : Deg) : Nat × Int := (d.num, d.alter)

theorem dget_append (d e : Dict) (q : Nat) :
    dget (d ++ e) q = match dget d q with | some x => some x | none => dget e q := by
  induction d with
  | nil => simp [dget]
  | cons a r ih =>
    obtain ⟨k, v⟩ := a
    simp only [List.cons_append, dget]
    split
    · rfl
    · exact ih

theorem dset_of_none (d : Dict) (k : Nat) (v : Int) (h : dget d k = none) :
    dset d k v = d ++ [(k, v)] := by
  induction d with
  | nil => rfl
  | cons a r ih =>
    obtain ⟨k', v'⟩ := a
    simp only [dget] at h
    split at h
    · cases h
    · rename_i hne
      simp [dset, hne, ih h]

theorem dget_some_mem (d : Dict) (k : Nat) (v : Int) (h : dget d k = some v) : (k, v) ∈ d := by
  induction d with
  | nil => simp [dget] at h
  | cons a r ih =>
    obtain ⟨k', v'⟩ := a
    simp only [dget] at h
    split at h
    · rename_i he
      cases h; subst he; simp
    · exact List.mem_cons_of_mem _ (ih h)

theorem dget_map_pair_none (l : List Deg) (n : Nat) (h : n ∉ l.map (·.num)) :
    dget (l.map pair) n = none := by
  induction l with
  | nil => rfl
  | cons a r ih =>
    simp only [List.map_cons, List.mem_cons, not_or] at h
    simp only [List.map_cons, pair, dget]
    split
    · rename_i he; exact absurd he.symm h.1
    · exact ih h.2

theorem dget_map_pair_mem (l : List Deg) (d : Deg) (hn : (l.map (·.num)).Nodup) (hd : d ∈ l) :
    dget (l.map pair) d.num = some d.alter := by
  induction l with
  | nil => cases hd
  | cons a r ih =>
    simp only [List.map_cons, List.nodup_cons] at hn
    simp only [List.map_cons, pair, dget]
    rcases List.mem_cons.mp hd with h | h
    · subst h; simp
    · split
      · rename_i he
        exact absurd (List.mem_map.mpr ⟨d, h, he.symm⟩) hn.1
      · exact ih hn.2 h

theorem dget_map_pair_some (l : List Deg) (n : Nat) (a : Int) (h : dget (l.map pair) n = some a) :
    ⟨n, a⟩ ∈ l := by
  have := dget_some_mem _ _ _ h
  obtain ⟨d, hd, he⟩ := List.mem_map.mp this
  cases d; simp only [pair, Prod.mk.injEq] at he
  obtain ⟨rfl, rfl⟩ := he
  exact hd

theorem foldl_dset (l : List Deg) : ∀ acc : Dict, (∀ d ∈ l, dget acc d.num = none) →
    (l.map (·.num)).Nodup →
    l.foldl (fun d x => dset d x.num x.alter) acc = acc ++ l.map pair := by
  induction l with
  | nil => intro acc _ _; simp
  | cons a r ih =>
    intro acc hacc hn
    simp only [List.map_cons, List.nodup_cons] at hn
    simp only [List.foldl_cons, List.map_cons]
    rw [dset_of_none _ _ _ (hacc a (List.mem_cons_self ..)), ih _ _ hn.2]
    · simp [pair]
    · intro d hd
      rw [dget_append, hacc d (List.mem_cons_of_mem _ hd)]
      simp only [dget]
      split
      · rename_i he
        exact absurd (List.mem_map.mpr ⟨d, hd, he.symm⟩) hn.1
      · rfl

theorem dictOf_nodup (l : List Deg) (hn : (l.map (·.num)).Nodup) : dictOf l = l.map pair := by
  unfold dictOf
  rw [foldl_dset l [] (fun _ _ => rfl) hn]; rfl

/-! ## exceptions -/

@[simp] theorem bind_ok {α β} (a : α) (f : α → Except Err β) : (Except.ok a >>= f) = f a := rfl
@[simp] theorem bind_error {α β} (e : Err) (f : α → Except Err β) :
    ((Except.error e : Except Err α) >>= f) = .error e := rfl

theorem nodup_num_inj (t : List Deg) (hn : (t.map (·.num)).Nodup) (a b : Deg) (ha : a ∈ t)
    (hb : b ∈ t) (h : a.num = b.num) : a = b := by
  induction t with
  | nil => cases ha
  | cons x r ih =>
    simp only [List.map_cons, List.nodup_cons] at hn
    rcases List.mem_cons.mp ha with ha' | ha' <;> rcases List.mem_cons.mp hb with hb' | hb'
    · rw [ha', hb']
    · subst ha'; exact absurd (show a.num ∈ r.map (·.num) from List.mem_map.mpr ⟨b, hb', h.symm⟩) hn.1
    · subst hb'; exact absurd (show b.num ∈ r.map (·.num) from List.mem_map.mpr ⟨a, ha', h⟩) hn.1
    · exact ih hn.2 ha' hb'

/-! ## `_degrees_to_modifications` when the kind is part of the target -/

theorem addModOf_degree (d : Deg) : (addModOf d).degree = d.num := by
  unfold addModOf; simp only; split <;> split <;> rfl

theorem modFor_none (D : Dict) (d : Deg) (h : dget D d.num = none) :
    modFor D d.num d.alter = .ok [addModOf d] := by
  unfold modFor addModOf
  simp only [h]
  split <;> split <;> simp_all

theorem modFor_same (D : Dict) (d : Deg) (h : dget D d.num = some d.alter) :
    modFor D d.num d.alter = .ok [] := by
  unfold modFor
  simp [h]

/-- the degrees of the target that the kind lacks -/
def extras (kd t : List Deg) : List Deg := t.filter (fun d => decide (d.num ∉ kd.map (·.num)))

theorem addMods_spec (kd : List Deg) (hkn : (kd.map (·.num)).Nodup) :
    ∀ t : List Deg, (∀ d ∈ t, d.num ∈ kd.map (·.num) → d ∈ kd) →
      addMods (kd.map pair) (t.map pair) = .ok ((extras kd t).map addModOf) := by
  intro t
  induction t with
  | nil => intro _; rfl
  | cons a r ih =>
    intro h
    have ihr := ih (fun d hd => h d (List.mem_cons_of_mem _ hd))
    simp only [List.map_cons, pair, addMods]
    by_cases hm : a.num ∈ kd.map (·.num)
    · have ha := h a (List.mem_cons_self ..) hm
      rw [modFor_same _ _ (dget_map_pair_mem kd a hkn ha)]
      simp only [bind_ok]
      rw [ihr]
      have : extras kd (a :: r) = extras kd r := by
        unfold extras; rw [List.filter_cons_of_neg]; simpa using hm
      simp [this]
    · rw [modFor_none _ _ (dget_map_pair_none kd a.num hm)]
      simp only [bind_ok]
      rw [ihr]
      have : extras kd (a :: r) = a :: extras kd r := by
        unfold extras; rw [List.filter_cons_of_pos]; simpa using hm
      simp [this]

theorem subMods_nil (tD : Dict) : ∀ l : List Deg, (∀ d ∈ l, dget tD d.num ≠ none) →
    subMods tD (l.map pair) = [] := by
  intro l
  induction l with
  | nil => intro _; rfl
  | cons a r ih =>
    intro h
    simp only [List.map_cons, pair, subMods]
    have := h a (List.mem_cons_self ..)
    split
    · rename_i he; exact absurd he this
    · exact ih (fun d hd => h d (List.mem_cons_of_mem _ hd))

theorem degreesToMods_spec (kd t : List Deg) (hkn : (kd.map (·.num)).Nodup)
    (htn : (t.map (·.num)).Nodup) (hsub : ∀ d ∈ kd, d ∈ t) :
    degreesToMods kd t = .ok ((extras kd t).map addModOf) := by
  unfold degreesToMods
  rw [dictOf_nodup kd hkn, dictOf_nodup t htn]
  have h1 : ∀ d ∈ t, d.num ∈ kd.map (·.num) → d ∈ kd := by
    intro d hd hm
    obtain ⟨k, hk, he⟩ := List.mem_map.mp hm
    have := nodup_num_inj t htn k d (hsub k hk) hd he
    exact this ▸ hk
  simp only [addMods_spec kd hkn t h1, bind_ok]
  rw [subMods_nil (t.map pair) kd]
  · simp
  · intro d hd
    rw [dget_map_pair_mem t d htn (hsub d hd)]
    simp

/-! ## the reader applied to `kind ++ added modifications` -/

theorem emit_step (D : Dict) (d : Deg) (he : EmitOk d) (hD : dget D d.num = none) :
    ∃ m, parseMod (addModOf d) = .ok m ∧
      ∀ rest, applyMods D (m :: rest) = applyMods (D ++ [pair d]) rest := by
  unfold EmitOk at he
  unfold parseMod
  split at he
  · rename_i a hl
    refine ⟨(.add, (addModOf d).degree, a), by simp [hl], ?_⟩
    intro rest
    rw [addModOf_degree]
    simp only [applyMods, applyMod, hD, bind_ok, he, dset_of_none _ _ _ hD, pair]
  · rename_i a hl
    refine ⟨(.alt, (addModOf d).degree, a), by simp [hl], ?_⟩
    intro rest
    rw [addModOf_degree]
    simp only [applyMods, applyMod, hD, bind_ok, he, dset_of_none _ _ _ hD, pair]
  · exact he.elim

theorem applyMods_spec : ∀ (tf : List Deg) (D : Dict), (∀ d ∈ tf, EmitOk d) →
    (tf.map (·.num)).Nodup → (∀ d ∈ tf, dget D d.num = none) →
    ∃ ms, mapE parseMod (tf.map addModOf) = .ok ms ∧ applyMods D ms = .ok (D ++ tf.map pair) := by
  intro tf
  induction tf with
  | nil => intro D _ _ _; exact ⟨[], rfl, by simp [applyMods]⟩
  | cons a r ih =>
    intro D he hn hD
    simp only [List.map_cons, List.nodup_cons] at hn
    obtain ⟨m, hm, hstep⟩ := emit_step D a (he a (List.mem_cons_self ..)) (hD a (List.mem_cons_self ..))
    obtain ⟨ms, hms, happ⟩ := ih (D ++ [pair a]) (fun d hd => he d (List.mem_cons_of_mem _ hd)) hn.2
      (by
        intro d hd
        have hne : ¬ a.num = d.num := fun h => hn.1 (List.mem_map.mpr ⟨d, hd, h.symm⟩)
        rw [dget_append, hD d (List.mem_cons_of_mem _ hd)]
        simp [pair, dget, hne])
    refine ⟨m :: ms, ?_, ?_⟩
    · simp only [List.map_cons, mapE, hm, hms, bind_ok]
    · rw [hstep, happ]; simp

theorem mem_extras (kd t : List Deg) (d : Deg) :
    d ∈ extras kd t ↔ d ∈ t ∧ d.num ∉ kd.map (·.num) := by
  unfold extras; simp

/-- **mods_rebuild** (helper form): for a kind that is part of a duplicate-free target, the
modifications the namer writes are accepted by the reader and rebuild the target: the reader's
dict is the kind's entries followed by the target's extra entries, and as a set it is the target -/
theorem mods_rebuild_aux (kd t : List Deg) (hkn : (kd.map (·.num)).Nodup)
    (htn : (t.map (·.num)).Nodup) (hsub : ∀ d ∈ kd, d ∈ t) (hemit : ∀ d ∈ t, EmitOk d) :
    ∃ mods ms, degreesToMods kd t = .ok mods ∧ mapE parseMod mods = .ok ms ∧
      applyMods (dictOf kd) ms = .ok (kd.map pair ++ (extras kd t).map pair) ∧
      ∀ e, e ∈ kd.map pair ++ (extras kd t).map pair ↔ ∃ d ∈ t, e = pair d := by
  have hex_sub : ∀ d ∈ extras kd t, d ∈ t := fun d hd => ((mem_extras kd t d).mp hd).1
  have hexn : ((extras kd t).map (·.num)).Nodup :=
    List.Nodup.sublist (List.Sublist.map _ List.filter_sublist) htn
  obtain ⟨ms, hms, happ⟩ := applyMods_spec (extras kd t) (kd.map pair)
    (fun d hd => hemit d (hex_sub d hd)) hexn
    (fun d hd => dget_map_pair_none kd d.num ((mem_extras kd t d).mp hd).2)
  refine ⟨_, ms, degreesToMods_spec kd t hkn htn hsub, hms, ?_, ?_⟩
  · rw [dictOf_nodup kd hkn]; exact happ
  · intro e
    simp only [List.mem_append, List.mem_map]
    constructor
    · rintro (⟨d, hd, rfl⟩ | ⟨d, hd, rfl⟩)
      · exact ⟨d, hsub d hd, rfl⟩
      · exact ⟨d, hex_sub d hd, rfl⟩
    · rintro ⟨d, hd, rfl⟩
      by_cases hm : d.num ∈ kd.map (·.num)
      · obtain ⟨k, hk, he⟩ := List.mem_map.mp hm
        have := nodup_num_inj t htn k d (hsub k hk) hd he
        exact Or.inl ⟨d, this ▸ hk, rfl⟩
      · exact Or.inr ⟨d, (mem_extras kd t d).mpr ⟨hd, hm⟩, rfl⟩

/-! ## `mapE` -/

/-- pointwise relation between two lists of the same length -/
inductive All2 {α β} (R : α → β → Prop) : List α → List β → Prop
  | nil : All2 R [] []
  | cons {a b l1 l2} : R a b → All2 R l1 l2 → All2 R (a :: l1) (b :: l2)

theorem All2.left {α β} {R : α → β → Prop} {l1 : List α} {l2 : List β} (h : All2 R l1 l2) :
    ∀ a ∈ l1, ∃ b ∈ l2, R a b := by
  induction h with
  | nil => intro a ha; cases ha
  | cons hab _ ih =>
    intro x hx
    rcases List.mem_cons.mp hx with rfl | hx
    · exact ⟨_, List.mem_cons_self .., hab⟩
    · obtain ⟨y, hy, hxy⟩ := ih x hx
      exact ⟨y, List.mem_cons_of_mem _ hy, hxy⟩

theorem All2.right {α β} {R : α → β → Prop} {l1 : List α} {l2 : List β} (h : All2 R l1 l2) :
    ∀ b ∈ l2, ∃ a ∈ l1, R a b := by
  induction h with
  | nil => intro a ha; cases ha
  | cons hab _ ih =>
    intro x hx
    rcases List.mem_cons.mp hx with rfl | hx
    · exact ⟨_, List.mem_cons_self .., hab⟩
    · obtain ⟨y, hy, hxy⟩ := ih x hx
      exact ⟨y, List.mem_cons_of_mem _ hy, hxy⟩

theorem mapE_eq_map {α β} (f : α → Except Err β) (g : α → β) :
    ∀ l : List α, (∀ a ∈ l, f a = .ok (g a)) → mapE f l = .ok (l.map g) := by
  intro l
  induction l with
  | nil => intro _; rfl
  | cons a r ih =>
    intro h
    simp only [mapE, h a (List.mem_cons_self ..), bind_ok,
      ih (fun x hx => h x (List.mem_cons_of_mem _ hx)), List.map_cons]

theorem mapE_ok_forall {α β} (f : α → Except Err β) :
    ∀ (l : List α) (bs : List β), mapE f l = .ok bs →
      (∀ a ∈ l, ∃ b ∈ bs, f a = .ok b) ∧ (∀ b ∈ bs, ∃ a ∈ l, f a = .ok b) ∧
      All2 (fun a b => f a = .ok b) l bs := by
  intro l
  induction l with
  | nil =>
    intro bs h
    simp only [mapE, Except.ok.injEq] at h
    subst h
    exact ⟨by simp, by simp, .nil⟩
  | cons a r ih =>
    intro bs h
    simp only [mapE] at h
    cases hfa : f a with
    | error e => simp [hfa] at h
    | ok b =>
      cases hr : mapE f r with
      | error e => simp [hfa, hr] at h
      | ok bs' =>
        simp only [hfa, hr, bind_ok, Except.ok.injEq] at h
        subst h
        obtain ⟨h1, h2, h3⟩ := ih bs' hr
        refine ⟨?_, ?_, .cons hfa h3⟩
        · intro x hx
          rcases List.mem_cons.mp hx with rfl | hx
          · exact ⟨b, List.mem_cons_self .., hfa⟩
          · obtain ⟨y, hy, hxy⟩ := h1 x hx
            exact ⟨y, List.mem_cons_of_mem _ hy, hxy⟩
        · intro y hy
          rcases List.mem_cons.mp hy with rfl | hy
          · exact ⟨a, List.mem_cons_self .., hfa⟩
          · obtain ⟨x, hx, hxy⟩ := h2 y hy
            exact ⟨x, List.mem_cons_of_mem _ hx, hxy⟩

/-! ## `_largest_chord_kind_from_degrees` -/

theorem kindStep_inv (T : List Kind) (degs : List Deg) (best : Option Nat × List Deg) (k : Kind)
    (hk : k ∈ T)
    (hb : ∀ a, best.1 = some a → ∃ k ∈ T, a = k.abbrev0 ∧ best.2 = k.degrees ∧ ∀ d ∈ k.degrees, d ∈ degs) :
    ∀ a, (kindStep degs best k).1 = some a →
      ∃ k' ∈ T, a = k'.abbrev0 ∧ (kindStep degs best k).2 = k'.degrees ∧ ∀ d ∈ k'.degrees, d ∈ degs := by
  intro a
  unfold kindStep
  split
  · exact hb a
  · split
    · rename_i hall
      intro h
      simp only [Option.some.injEq] at h
      refine ⟨k, hk, h.symm, rfl, ?_⟩
      intro d hd
      have := List.all_eq_true.mp hall d hd
      simpa using this
    · exact hb a

theorem foldl_kindStep_inv (T : List Kind) (degs : List Deg) :
    ∀ (tbl : List Kind) (best : Option Nat × List Deg), (∀ k ∈ tbl, k ∈ T) →
    (∀ a, best.1 = some a → ∃ k ∈ T, a = k.abbrev0 ∧ best.2 = k.degrees ∧ ∀ d ∈ k.degrees, d ∈ degs) →
    ∀ a, (tbl.foldl (kindStep degs) best).1 = some a →
      ∃ k ∈ T, a = k.abbrev0 ∧ ∀ d ∈ k.degrees, d ∈ degs := by
  intro tbl
  induction tbl with
  | nil =>
    intro best _ hb a h
    obtain ⟨k, hk, h1, _, h3⟩ := hb a h
    exact ⟨k, hk, h1, h3⟩
  | cons k r ih =>
    intro best hT hb a h
    simp only [List.foldl_cons] at h
    exact ih _ (fun x hx => hT x (List.mem_cons_of_mem _ hx))
      (kindStep_inv T degs best k (hT k (List.mem_cons_self ..)) hb) a h

/-- a kind the namer reports is in the table and all its degree names are among `degs` -/
theorem largestKind_spec (degs : List Deg) (a : Nat) (h : largestKindFromDegrees degs = some a) :
    ∃ k ∈ CHORD_KINDS, a = k.abbrev0 ∧ ∀ d ∈ k.degrees, d ∈ degs :=
  foldl_kindStep_inv CHORD_KINDS degs CHORD_KINDS (none, []) (fun _ h => h)
    (fun _ h => by simp at h) a h

theorem foldl_kindStep_some (degs : List Deg) :
    ∀ (tbl : List Kind) (best : Option Nat × List Deg), (best.2 ≠ [] → best.1 ≠ none) →
    (best.1 ≠ none ∨ ∃ k ∈ tbl, k.degrees ≠ [] ∧ ∀ d ∈ k.degrees, d ∈ degs) →
    (tbl.foldl (kindStep degs) best).1 ≠ none := by
  intro tbl
  induction tbl with
  | nil =>
    intro best _ h
    rcases h with h | ⟨k, hk, _⟩
    · exact h
    · cases hk
  | cons k0 r ih =>
    intro best hJ h
    simp only [List.foldl_cons]
    apply ih
    · unfold kindStep
      split
      · exact hJ
      · split
        · intro _; simp
        · exact hJ
    · by_cases hb : best.1 ≠ none
      · left
        unfold kindStep
        split
        · exact hb
        · split
          · simp
          · exact hb
      · rcases h with h | ⟨k, hk, hne, hsub⟩
        · exact absurd h hb
        · rcases List.mem_cons.mp hk with rfl | hk
          · left
            unfold kindStep
            split
            · rename_i hle
              have : best.2 ≠ [] := by
                intro he
                rw [he] at hle
                simp only [List.length_nil, Nat.le_zero_eq, List.length_eq_zero_iff] at hle
                exact hne hle
              exact hJ this
            · split
              · simp
              · rename_i hall
                exfalso
                apply hall
                apply List.all_eq_true.mpr
                intro d hd
                simpa using hsub d hd
          · right
            exact ⟨k, hk, hne, hsub⟩

/-- when the unison is among `degs`, some kind is found (the pedal point `['1']`) -/
theorem largestKind_some (degs : List Deg) (h1 : (⟨1, 0⟩ : Deg) ∈ degs) :
    ∃ k ∈ CHORD_KINDS, largestKindFromDegrees degs = some k.abbrev0 ∧ ∀ d ∈ k.degrees, d ∈ degs := by
  have hne : largestKindFromDegrees degs ≠ none := by
    obtain ⟨k, hk, hd⟩ := ped_kind
    apply foldl_kindStep_some degs CHORD_KINDS (none, []) (by simp)
    right
    refine ⟨k, hk, by simp [hd], ?_⟩
    intro d hdk
    rw [hd] at hdk
    simp only [List.mem_singleton] at hdk
    exact hdk ▸ h1
  cases h : largestKindFromDegrees degs with
  | none => exact absurd h hne
  | some a =>
    obtain ⟨k, hk, ha, hs⟩ := largestKind_spec degs a h
    exact ⟨k, hk, by rw [ha], hs⟩

/-! ## interpretations: `itertools.product` over the rows of `_SCALE_DEGREES` -/

theorem All2.comp {α β γ} {R : α → β → Prop} {S : γ → β → Prop} {l1 : List α} {l2 : List β}
    (A : All2 R l1 l2) : ∀ {l3 : List γ}, All2 S l3 l2 → All2 (fun a c => ∃ b, R a b ∧ S c b) l1 l3 := by
  induction A with
  | nil => intro l3 B; cases B; exact .nil
  | cons hab _ ih =>
    intro l3 B
    cases B with
    | cons hcb B' => exact .cons ⟨_, hab, hcb⟩ (ih B')

theorem All2.imp {α β} {R S : α → β → Prop} {l1 : List α} {l2 : List β}
    (h : ∀ a b, R a b → S a b) (A : All2 R l1 l2) : All2 S l1 l2 := by
  induction A with
  | nil => exact .nil
  | cons hab _ ih => exact .cons (h _ _ hab) ih

theorem mem_product {α} : ∀ (ls : List (List α)) (x : List α), x ∈ product ls → All2 (· ∈ ·) x ls := by
  intro ls
  induction ls with
  | nil =>
    intro x hx
    simp only [product, List.mem_singleton] at hx
    subst hx; exact .nil
  | cons l ls ih =>
    intro x hx
    simp only [product, List.mem_flatMap, List.mem_map] at hx
    obtain ⟨a, ha, y, hy, rfl⟩ := hx
    exact .cons ha (ih y hy)

/-- `d` is one of the names `_SCALE_DEGREES` lists for relative pitch `p` -/
def NameAt (d : Deg) (p : Nat) : Prop := ∃ row, SCALE_DEGREES[p]? = some row ∧ d ∈ row

theorem scaleDegreesAt_ok (p : Nat) (row : List Deg) :
    scaleDegreesAt p = .ok row ↔ SCALE_DEGREES[p]? = some row := by
  unfold scaleDegreesAt
  split
  · rename_i r hr; simp [hr]
  · rename_i hr; simp [hr]

theorem scaleDegreesAt_lt (p : Nat) (hp : p < 12) : ∃ row, scaleDegreesAt p = .ok row := by
  have : p < SCALE_DEGREES.length := by rw [scale_rows_len]; exact hp
  exact ⟨SCALE_DEGREES[p], (scaleDegreesAt_ok p _).mpr (List.getElem?_eq_getElem this)⟩

theorem interp_of_product (rel : List Nat) (rows : List (List Deg)) (degs : List Deg)
    (hr : mapE scaleDegreesAt rel = .ok rows) (hd : degs ∈ product rows) : All2 NameAt degs rel := by
  have A := mem_product rows degs hd
  have B := (mapE_ok_forall scaleDegreesAt rel rows hr).2.2
  refine All2.imp ?_ (All2.comp A B)
  rintro d p ⟨row, h1, h2⟩
  exact ⟨row, (scaleDegreesAt_ok _ _).mp h2, h1⟩

theorem nameAt_lt {d : Deg} {p : Nat} (h : NameAt d p) : p < 12 := by
  obtain ⟨row, hr, _⟩ := h
  have := (List.getElem?_eq_some_iff.mp hr).1
  rw [scale_rows_len] at this; exact this

theorem nameAt_pitch {d : Deg} {p : Nat} (h : NameAt d p) : namePitch d = some p := by
  have hp := nameAt_lt h
  obtain ⟨row, hr, hd⟩ := h
  apply scale_rows_pitch p (List.mem_range.mpr hp) d
  rw [hr]; exact hd

theorem nameAt_emit {d : Deg} {p : Nat} (h : NameAt d p) : EmitOk d := by
  obtain ⟨row, hr, hd⟩ := h
  exact scale_rows_emit row (List.mem_of_getElem? hr) d hd

theorem nameAt_zero {d : Deg} (h : NameAt d 0) : d = ⟨1, 0⟩ := by
  obtain ⟨row, hr, hd⟩ := h
  rw [row_zero] at hr
  cases hr
  simpa using hd

/-- two names of one pitch row / one name in two rows: the row is determined by the name -/
theorem nameAt_inj {d : Deg} {p q : Nat} (hp : NameAt d p) (hq : NameAt d q) : p = q := by
  have := nameAt_pitch hp
  rw [nameAt_pitch hq] at this
  cases this; rfl

/-! ## the loop over interpretations (`_largest_chord_kind_from_relative_pitches`) -/

attribute [local irreducible] largestKindFromDegrees

/-- invariant: a reported kind comes with the interpretation it was found for -/
def InterpInv (A : List (List Deg)) (best : Option Nat × List Deg) : Prop :=
  ∀ a, best.1 = some a →
    best.2 ∈ A ∧ hasDup (best.2.map (·.num)) = false ∧ largestKindFromDegrees best.2 = some a

theorem interpStep_inv (A : List (List Deg)) (best best' : Option Nat × List Deg) (degs : List Deg)
    (hd : degs ∈ A) (hb : InterpInv A best) (h : interpStep best degs = .ok best') :
    InterpInv A best' := by
  unfold interpStep at h
  split at h
  · cases h; exact hb
  · rename_i hdup
    simp only [Bool.not_eq_true] at hdup
    split at h
    · cases h
      intro a ha
      exact ⟨hd, hdup, ha⟩
    · cases hla : kindLenOpt (largestKindFromDegrees degs) with
      | error e => simp [hla] at h
      | ok la =>
        rename_i b _
        cases hlb : kindLen b with
        | error e => simp [hla, hlb] at h
        | ok lb =>
          simp only [hla, hlb, bind_ok] at h
          split at h
          · cases h
            intro a ha
            exact ⟨hd, hdup, ha⟩
          · cases h; exact hb

theorem foldE_interp_inv (A : List (List Deg)) :
    ∀ (L : List (List Deg)) (best res : Option Nat × List Deg), (∀ x ∈ L, x ∈ A) →
      InterpInv A best → foldE interpStep best L = .ok res → InterpInv A res := by
  intro L
  induction L with
  | nil => intro best res _ hb h; simp only [foldE, Except.ok.injEq] at h; exact h ▸ hb
  | cons x r ih =>
    intro best res hA hb h
    simp only [foldE] at h
    cases hs : interpStep best x with
    | error e => simp [hs] at h
    | ok best' =>
      simp only [hs, bind_ok] at h
      exact ih best' res (fun y hy => hA y (List.mem_cons_of_mem _ hy))
        (interpStep_inv A best best' x (hA x (List.mem_cons_self ..)) hb hs) h

/-- the kind in the loop state is one the table knows (so its length lookup cannot fail) -/
def GoodBest (o : Option Nat) : Prop := ∀ b, o = some b → ∃ k ∈ CHORD_KINDS, b = k.abbrev0

theorem kindLen_of_kind (k : Kind) (hk : k ∈ CHORD_KINDS) : kindLen k.abbrev0 = .ok k.degrees.length := by
  unfold kindLen kindDegrees
  rw [kinds_abbrev k hk]; rfl

theorem interpStep_total (best : Option Nat × List Deg) (degs : List Deg) (hg : GoodBest best.1)
    (hk : hasDup (degs.map (·.num)) = false →
      ∃ k ∈ CHORD_KINDS, largestKindFromDegrees degs = some k.abbrev0) :
    ∃ best', interpStep best degs = .ok best' ∧ GoodBest best'.1 ∧
      (best'.1 = none ↔ best.1 = none ∧ hasDup (degs.map (·.num)) = true) := by
  unfold interpStep
  cases hdup : hasDup (degs.map (·.num)) with
  | true => exact ⟨best, by simp, hg, by simp⟩
  | false =>
    obtain ⟨k, hkT, hka⟩ := hk hdup
    simp only [Bool.false_eq_true, ↓reduceIte, hka]
    cases hb : best.1 with
    | none =>
      refine ⟨(some k.abbrev0, degs), rfl, ?_, by simp⟩
      intro b hb'; simp only [Option.some.injEq] at hb'; exact ⟨k, hkT, hb'.symm⟩
    | some b =>
      obtain ⟨kb, hkb, rfl⟩ := hg b hb
      simp only [kindLenOpt, kindLen_of_kind k hkT, kindLen_of_kind kb hkb, bind_ok]
      split
      · refine ⟨_, rfl, ?_, by simp⟩
        intro b hb'; simp only [Option.some.injEq] at hb'; exact ⟨k, hkT, hb'.symm⟩
      · exact ⟨best, rfl, hg, by simp [hb]⟩

theorem foldE_interp_total :
    ∀ (L : List (List Deg)) (best : Option Nat × List Deg), GoodBest best.1 →
      (∀ degs ∈ L, hasDup (degs.map (·.num)) = false →
        ∃ k ∈ CHORD_KINDS, largestKindFromDegrees degs = some k.abbrev0) →
      ∃ res, foldE interpStep best L = .ok res ∧ GoodBest res.1 ∧
        (res.1 = none ↔ best.1 = none ∧ ∀ degs ∈ L, hasDup (degs.map (·.num)) = true) := by
  intro L
  induction L with
  | nil => intro best hg _; exact ⟨best, rfl, hg, by simp⟩
  | cons x r ih =>
    intro best hg hk
    obtain ⟨best', hs, hg', hiff⟩ := interpStep_total best x hg (hk x (List.mem_cons_self ..))
    obtain ⟨res, hr, hgr, hiffr⟩ := ih best' hg' (fun d hd => hk d (List.mem_cons_of_mem _ hd))
    refine ⟨res, by simp only [foldE, hs, bind_ok, hr], hgr, ?_⟩
    rw [hiffr, hiff]
    simp only [List.mem_cons, forall_eq_or_imp]
    constructor
    · rintro ⟨⟨h1, h2⟩, h3⟩; exact ⟨h1, h2, h3⟩
    · rintro ⟨h1, h2, h3⟩; exact ⟨⟨h1, h2⟩, h3⟩

theorem mapE_total {α β} (f : α → Except Err β) :
    ∀ l : List α, (∀ a ∈ l, ∃ b, f a = .ok b) → ∃ bs, mapE f l = .ok bs := by
  intro l
  induction l with
  | nil => intro _; exact ⟨[], rfl⟩
  | cons a r ih =>
    intro h
    obtain ⟨b, hb⟩ := h a (List.mem_cons_self ..)
    obtain ⟨bs, hbs⟩ := ih (fun x hx => h x (List.mem_cons_of_mem _ hx))
    exact ⟨b :: bs, by simp only [mapE, hb, hbs, bind_ok]⟩

/-- no interpretation of the relative pitches `rel` is free of repeated degree numbers -/
def Unnameable (rel : List Nat) : Prop :=
  ∀ rows, mapE scaleDegreesAt rel = .ok rows →
    ∀ degs ∈ product rows, hasDup (degs.map (·.num)) = true

/-- what a reported `(kind, interpretation)` satisfies for the relative pitches `rel` -/
def RelCand (rel : List Nat) (a : Nat) (degs : List Deg) : Prop :=
  All2 NameAt degs rel ∧ hasDup (degs.map (·.num)) = false ∧ largestKindFromDegrees degs = some a

theorem largestFromRel_spec (rel : List Nat) (hlt : ∀ p ∈ rel, p < 12) (h0 : 0 ∈ rel) :
    ∃ res, largestFromRel rel = .ok res ∧ GoodBest res.1 ∧
      (res.1 = none ↔ Unnameable rel) ∧ (∀ a, res.1 = some a → RelCand rel a res.2) := by
  obtain ⟨rows, hrows⟩ := mapE_total scaleDegreesAt rel (fun p hp => scaleDegreesAt_lt p (hlt p hp))
  have hkind : ∀ degs ∈ product rows, hasDup (degs.map (·.num)) = false →
      ∃ k ∈ CHORD_KINDS, largestKindFromDegrees degs = some k.abbrev0 := by
    intro degs hd _
    have A := interp_of_product rel rows degs hrows hd
    obtain ⟨d, hdm, hd0⟩ := A.right 0 h0
    have := nameAt_zero hd0
    obtain ⟨k, hk, h1, _⟩ := largestKind_some degs (this ▸ hdm)
    exact ⟨k, hk, h1⟩
  obtain ⟨res, hres, hg, hiff⟩ := foldE_interp_total (product rows) (none, []) (by intro b hb; cases hb) hkind
  have hinv := foldE_interp_inv (product rows) (product rows) (none, []) res (fun _ h => h)
    (by intro a ha; cases ha) hres
  refine ⟨res, ?_, hg, ?_, ?_⟩
  · unfold largestFromRel
    simp only [hrows, bind_ok, hres]
  · rw [hiff]
    constructor
    · rintro ⟨_, h⟩ rows' hrows'
      rw [hrows] at hrows'; cases hrows'; exact h
    · intro h; exact ⟨rfl, h rows hrows⟩
  · intro a ha
    obtain ⟨h1, h2, h3⟩ := hinv a ha
    exact ⟨interp_of_product rel rows res.2 hrows h1, h2, h3⟩

/-! ## the loop over candidate roots -/

abbrev RootBest := Option (Nat × Nat × List Deg)

def GoodRoot (best : RootBest) : Prop :=
  ∀ r b dg, best = some (r, b, dg) → ∃ k ∈ CHORD_KINDS, b = k.abbrev0

theorem rootStep_total (best : RootBest) (c : Nat × List Nat) (hg : GoodRoot best)
    (hlt : ∀ p ∈ c.2, p < 12) (h0 : 0 ∈ c.2) :
    ∃ best', rootStep best c = .ok best' ∧ GoodRoot best' ∧
      (best' = none ↔ best = none ∧ Unnameable c.2) ∧
      (∀ r a degs, best' = some (r, a, degs) → best = some (r, a, degs) ∨ (c.1 = r ∧ RelCand c.2 a degs)) := by
  obtain ⟨res, hres, hgb, hnone, hsome⟩ := largestFromRel_spec c.2 hlt h0
  unfold rootStep
  simp only [hres, bind_ok]
  cases ha : res.1 with
  | none =>
    refine ⟨best, rfl, hg, ?_, fun r a degs h => Or.inl h⟩
    have := hnone.mp ha
    simp [this]
  | some a =>
    have hun : ¬ Unnameable c.2 := fun h => by rw [hnone.mpr h] at ha; cases ha
    obtain ⟨k, hk, rfl⟩ := hgb a ha
    have hc := hsome _ ha
    cases hb : best with
    | none =>
      refine ⟨some (c.1, k.abbrev0, res.2), rfl, ?_, by simp [hun], ?_⟩
      · intro r b dg h
        simp only [Option.some.injEq, Prod.mk.injEq] at h
        exact ⟨k, hk, h.2.1.symm⟩
      · intro r a degs h
        simp only [Option.some.injEq, Prod.mk.injEq] at h
        obtain ⟨rfl, rfl, rfl⟩ := h
        exact Or.inr ⟨rfl, hc⟩
    | some t =>
      obtain ⟨r0, b, dg0⟩ := t
      obtain ⟨kb, hkb, rfl⟩ := hg r0 b dg0 hb
      simp only [kindLen_of_kind k hk, kindLen_of_kind kb hkb, bind_ok]
      split
      · refine ⟨_, rfl, ?_, by simp, ?_⟩
        · intro r b dg h
          simp only [Option.some.injEq, Prod.mk.injEq] at h
          exact ⟨k, hk, h.2.1.symm⟩
        · intro r a degs h
          simp only [Option.some.injEq, Prod.mk.injEq] at h
          obtain ⟨rfl, rfl, rfl⟩ := h
          exact Or.inr ⟨rfl, hc⟩
      · refine ⟨_, rfl, ?_, by simp, fun r a degs h => Or.inl h⟩
        intro r b dg h
        exact hg r b dg (hb ▸ h)

theorem foldE_root_total :
    ∀ (cands : List (Nat × List Nat)) (best : RootBest), GoodRoot best →
      (∀ c ∈ cands, (∀ p ∈ c.2, p < 12) ∧ 0 ∈ c.2) →
      ∃ res, foldE rootStep best cands = .ok res ∧ GoodRoot res ∧
        (res = none ↔ best = none ∧ ∀ c ∈ cands, Unnameable c.2) ∧
        (∀ r a degs, res = some (r, a, degs) →
          best = some (r, a, degs) ∨ ∃ c ∈ cands, c.1 = r ∧ RelCand c.2 a degs) := by
  intro cands
  induction cands with
  | nil => intro best hg _; exact ⟨best, rfl, hg, by simp, fun r a degs h => Or.inl h⟩
  | cons c r ih =>
    intro best hg hc
    obtain ⟨best', hs, hg', hiff, hsel⟩ :=
      rootStep_total best c hg (hc c (List.mem_cons_self ..)).1 (hc c (List.mem_cons_self ..)).2
    obtain ⟨res, hr, hgr, hiffr, hselr⟩ := ih best' hg' (fun d hd => hc d (List.mem_cons_of_mem _ hd))
    refine ⟨res, by simp only [foldE, hs, bind_ok, hr], hgr, ?_, ?_⟩
    · rw [hiffr, hiff]
      simp only [List.mem_cons, forall_eq_or_imp]
      constructor
      · rintro ⟨⟨h1, h2⟩, h3⟩; exact ⟨h1, h2, h3⟩
      · rintro ⟨h1, h2, h3⟩; exact ⟨⟨h1, h2⟩, h3⟩
    · intro r0 a degs h
      rcases hselr r0 a degs h with h | ⟨c', hc', h1, h2⟩
      · rcases hsel r0 a degs h with h | ⟨h1, h2⟩
        · exact Or.inl h
        · exact Or.inr ⟨c, List.mem_cons_self .., h1, h2⟩
      · exact Or.inr ⟨c', List.mem_cons_of_mem _ hc', h1, h2⟩

/-! ## `len(l) > len(set(l))` -/

theorem mem_dedup (l : List Nat) (x : Nat) : x ∈ dedup l ↔ x ∈ l := by
  induction l with
  | nil => simp [dedup]
  | cons a r ih =>
    simp only [dedup]
    split
    · rename_i h
      simp only [List.mem_cons, ih]
      constructor
      · exact Or.inr
      · rintro (rfl | h')
        · exact ih.mp h
        · exact h'
    · simp only [List.mem_cons, ih]

theorem dedup_length_le (l : List Nat) : (dedup l).length ≤ l.length := by
  induction l with
  | nil => simp [dedup]
  | cons a r ih =>
    simp only [dedup]
    split
    · simp only [List.length_cons]; omega
    · simp only [List.length_cons]; omega

theorem nodup_of_hasDup_false (l : List Nat) (h : hasDup l = false) : l.Nodup := by
  induction l with
  | nil => exact List.nodup_nil
  | cons a r ih =>
    unfold hasDup at h ih
    simp only [decide_eq_false_iff_not, Nat.not_lt] at h ih
    simp only [dedup] at h
    have hle := dedup_length_le r
    split at h
    · simp only [List.length_cons] at h; omega
    · rename_i hm
      simp only [List.length_cons] at h
      rw [List.nodup_cons]
      exact ⟨fun hx => hm ((mem_dedup r a).mpr hx), ih (by omega)⟩

/-! ## one candidate `(root, kind, interpretation)`: the name denotes the pitches -/

theorem notBassDegree_iff (row : List Deg) (d : Deg) : notBassDegree row d = true ↔ d ∉ row := by
  unfold notBassDegree
  simp only [List.all_eq_true, decide_eq_true_eq]
  constructor
  · intro h hm; exact h d hm rfl
  · intro h b hb he; exact h (he ▸ hb)

theorem spell_spec (r : Nat) (hr : r < 12) :
    ∃ sp, spellFromC r = .ok sp ∧ pitchClassToMidi sp = .ok r := by
  have := spell_ok r (List.mem_range.mpr hr)
  cases h : spellFromC r with
  | error e => rw [h] at this; cases this
  | ok sp => rw [h] at this; exact ⟨sp, rfl, this⟩

theorem degreePitch_name (rp : Nat) (d : Deg) (p : Nat) (h : namePitch d = some p) :
    degreePitch rp (pair d) = .ok ((rp + p) % 12) := by
  unfold namePitch at h
  cases hd : dget DEGREE_OFFSETS (normDegree d.num) with
  | none => simp [hd] at h
  | some off =>
    simp only [hd, Option.map_some, Option.some.injEq] at h
    unfold degreePitch lookupK pair
    simp only [hd, bind_ok, Except.ok.injEq]
    unfold pymod12 at *
    omega

theorem candidate_aux (bass r a : Nat) (degs : List Deg) (rel : List Nat) (hb : bass < 12)
    (hr : r < 12) (hc : RelCand rel a degs) :
    ∃ s ps, buildSymbol bass r a degs = .ok s ∧ chordSymbolPitches s = .ok ps ∧
      chordSymbolRoot s = .ok r ∧ chordSymbolBass s = .ok bass ∧
      ∀ x, (x ∈ ps ∨ x = bass) ↔ (x = bass ∨ ∃ p ∈ rel, x = (r + p) % 12) := by
  obtain ⟨hA, hdup, hk⟩ := hc
  obtain ⟨k, hkT, rfl, hsub⟩ := largestKind_spec degs a hk
  have hkd := kinds_abbrev k hkT
  have hkn := kinds_nodup k hkT
  have hdn : (degs.map (·.num)).Nodup := nodup_of_hasDup_false _ hdup
  have hpb : pymod12 ((bass : Int) - r) < 12 := by unfold pymod12; omega
  obtain ⟨brow, hbrow⟩ := scaleDegreesAt_lt _ hpb
  have hbrow' := (scaleDegreesAt_ok _ _).mp hbrow
  -- the target after the bass filter
  generalize ht : (if k.degrees.all (notBassDegree brow) then degs.filter (notBassDegree brow) else degs) = t
  have ht_sub : ∀ d ∈ t, d ∈ degs := by
    intro d hd; rw [← ht] at hd
    split at hd
    · exact (List.mem_filter.mp hd).1
    · exact hd
  have htn : (t.map (·.num)).Nodup := by
    rw [← ht]
    split
    · exact List.Nodup.sublist (List.Sublist.map _ List.filter_sublist) hdn
    · exact hdn
  have hkt : ∀ d ∈ k.degrees, d ∈ t := by
    intro d hd; rw [← ht]
    split
    · rename_i hall
      exact List.mem_filter.mpr ⟨hsub d hd, List.all_eq_true.mp hall d hd⟩
    · exact hsub d hd
  have hemit : ∀ d ∈ t, EmitOk d := by
    intro d hd
    obtain ⟨p, _, hp⟩ := hA.left d (ht_sub d hd)
    exact nameAt_emit hp
  obtain ⟨mods, ms, hmods, hms, happ, hset⟩ := mods_rebuild_aux k.degrees t hkn htn hkt hemit
  obtain ⟨sp, hsp, hspm⟩ := spell_spec r hr
  obtain ⟨bsp, hbsp, hbspm⟩ := spell_spec bass hb
  -- the symbol
  have hbuild : buildSymbol bass r k.abbrev0 degs =
      .ok ⟨sp.1, sp.2, k.abbrev0, mods, if bass = r then none else some bsp⟩ := by
    unfold buildSymbol kindDegrees
    simp only [hsp, hkd, hbrow, bind_ok, ht, hmods]
    split
    · rfl
    · simp only [hbsp, bind_ok]
  generalize hs : (⟨sp.1, sp.2, k.abbrev0, mods, if bass = r then none else some bsp⟩ : Symbol) = s
    at hbuild
  have hsplit : splitMods s = .ok ms := by
    rw [← hs]; unfold splitMods; simp only [hkd, hms]
  have hparse : parseChordSymbol s =
      .ok (sp, k.degrees.map pair ++ (extras k.degrees t).map pair, s.bass.getD sp) := by
    unfold parseChordSymbol
    rw [hsplit]
    rw [← hs]
    simp only [bind_ok, hkd, pure, Except.pure, happ]
  -- pitches
  have hD : ∀ e ∈ k.degrees.map pair ++ (extras k.degrees t).map pair,
      ∃ x, degreePitch r e = .ok x := by
    intro e he
    obtain ⟨d, hd, rfl⟩ := (hset e).mp he
    obtain ⟨p, _, hp⟩ := hA.left d (ht_sub d hd)
    exact ⟨_, degreePitch_name r d p (nameAt_pitch hp)⟩
  obtain ⟨ps, hps⟩ := mapE_total (degreePitch r) _ hD
  obtain ⟨hps1, hps2, _⟩ := mapE_ok_forall _ _ _ hps
  refine ⟨s, ps, hbuild, ?_, ?_, ?_, ?_⟩
  · unfold chordSymbolPitches
    simp only [hparse, bind_ok, hspm, hps]
  · unfold chordSymbolRoot
    rw [hsplit, ← hs]; simp only [bind_ok]; exact hspm
  · unfold chordSymbolBass
    rw [hsplit, ← hs]; simp only [bind_ok]
    split
    · rename_i he; simp only [Option.getD_none]; rw [he]; exact hspm
    · simp only [Option.getD_some]; exact hbspm
  · -- the set denoted
    have hmem : ∀ x, x ∈ ps ↔ ∃ d ∈ t, ∃ p ∈ rel, NameAt d p ∧ x = (r + p) % 12 := by
      intro x
      constructor
      · intro hx
        obtain ⟨e, he, hex⟩ := hps2 x hx
        obtain ⟨d, hd, rfl⟩ := (hset e).mp he
        obtain ⟨p, hpr, hp⟩ := hA.left d (ht_sub d hd)
        rw [degreePitch_name r d p (nameAt_pitch hp)] at hex
        cases hex
        exact ⟨d, hd, p, hpr, hp, rfl⟩
      · rintro ⟨d, hd, p, _, hp, rfl⟩
        obtain ⟨x, hx, hex⟩ := hps1 (pair d) ((hset _).mpr ⟨d, hd, rfl⟩)
        rw [degreePitch_name r d p (nameAt_pitch hp)] at hex
        cases hex
        exact hx
    have hbass_eq : (r + pymod12 ((bass : Int) - r)) % 12 = bass := by unfold pymod12; omega
    intro x
    rw [hmem]
    constructor
    · rintro (⟨d, _, p, hp, _, rfl⟩ | h)
      · exact Or.inr ⟨p, hp, rfl⟩
      · exact Or.inl h
    · rintro (h | ⟨p, hp, rfl⟩)
      · exact Or.inr h
      · by_cases hpb' : p = pymod12 ((bass : Int) - r)
        · right; rw [hpb']; exact hbass_eq
        · left
          obtain ⟨d, hd, hdp⟩ := hA.right p hp
          refine ⟨d, ?_, p, hp, hdp, rfl⟩
          rw [← ht]
          split
          · apply List.mem_filter.mpr ⟨hd, ?_⟩
            rw [notBassDegree_iff]
            intro hin
            exact hpb' (nameAt_inj hdp ⟨brow, hbrow', hin⟩)
          · exact hd

end NSV.C15
