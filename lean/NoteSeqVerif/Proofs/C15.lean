import NoteSeqVerif.Model.C15
/-! C15 — helper lemmas for `Props/C15.lean` (core Lean only). -/
namespace NSV.C15
open Gen

deriving instance DecidableEq for Except

/-! ## facts about the generated tables (`decide` over the whole table) -/

/-- pitch class, relative to the root, that the *reader* gives a degree name -/
def namePitch (d : Deg) : Option Nat :=
  (dget DEGREE_OFFSETS (normDegree d.num)).map (fun off => pymod12 (off + d.alter))

/-- the modification the namer writes for a degree that the kind lacks -/
def addModOf (d : Deg) : Mod :=
  let alter := if d.num = 7 then d.alter + 1 else d.alter
  if alter ≠ 0 ∧ d.num > 7 then ⟨.alt, alter, d.num⟩ else ⟨.add, alter, d.num⟩

/-- the reader maps that modification to "insert `d.num ↦ d.alter`" -/
def EmitOk (d : Deg) : Prop :=
  match lookupMod (addModOf d) with
  | some (.add, a) => (if d.num = 7 then a - 1 else a) = d.alter
  | some (.alt, a) => a = d.alter
  | _ => False

instance (d : Deg) : Decidable (EmitOk d) := by
  unfold EmitOk; split <;> exact inferInstance

theorem scale_rows_len : SCALE_DEGREES.length = 12 := by decide

theorem scale_rows_pitch :
    ∀ p ∈ List.range 12, ∀ d ∈ (SCALE_DEGREES[p]?).getD [], namePitch d = some p := by decide +kernel

theorem scale_rows_emit : ∀ row ∈ SCALE_DEGREES, ∀ d ∈ row, EmitOk d := by decide +kernel

theorem kinds_nodup : ∀ k ∈ CHORD_KINDS, (k.degrees.map (·.num)).Nodup := by decide +kernel

theorem kinds_by_abbrev_nodup : ∀ kd ∈ KIND_DEGREES, (kd.map (·.num)).Nodup := by decide +kernel

theorem kinds_abbrev : ∀ k ∈ CHORD_KINDS, KIND_DEGREES[k.abbrev0]? = some k.degrees := by decide +kernel

theorem row_zero : SCALE_DEGREES[0]? = some [⟨1, 0⟩] := by decide

theorem ped_kind : ∃ k ∈ CHORD_KINDS, k.degrees = [⟨1, 0⟩] := by decide +kernel

theorem spell_ok : ∀ r ∈ List.range 12, (spellFromC r >>= pitchClassToMidi) = .ok r := by decide +kernel

/-! ## Python dict as association list -/

def pair (d : Deg) : Nat × Int := (d.num, d.alter)

theorem dget_append (d e : Dict) (q : Nat) :
    dget (d ++ e) q = match dget d q with | some x => some x | none => dget e q := by
  induction d with
  | nil => simp [dget]
  | cons a r ih =>
    obtain ⟨k, v⟩ := a
    simp only [List.cons_append, dget]
    split
    · rfl
    · exact ih

theorem dset_of_none (d : Dict) (k : Nat) (v : Int) (h : dget d k = none) :
    dset d k v = d ++ [(k, v)] := by
  induction d with
  | nil => rfl
  | cons a r ih =>
    obtain ⟨k', v'⟩ := a
    simp only [dget] at h
    split at h
    · cases h
    · rename_i hne
      simp [dset, hne, ih h]

theorem dget_some_mem (d : Dict) (k : Nat) (v : Int) (h : dget d k = some v) : (k, v) ∈ d := by
  induction d with
  | nil => simp [dget] at h
  | cons a r ih =>
    obtain ⟨k', v'⟩ := a
    simp only [dget] at h
    split at h
    · rename_i he
      cases h; subst he; simp
    · exact List.mem_cons_of_mem _ (ih h)

theorem dget_map_pair_none (l : List Deg) (n : Nat) (h : n ∉ l.map (·.num)) :
    dget (l.map pair) n = none := by
  induction l with
  | nil => rfl
  | cons a r ih =>
    simp only [List.map_cons, List.mem_cons, not_or] at h
    simp only [List.map_cons, pair, dget]
    split
    · rename_i he; exact absurd he.symm h.1
    · exact ih h.2

theorem dget_map_pair_mem (l : List Deg) (d : Deg) (hn : (l.map (·.num)).Nodup) (hd : d ∈ l) :
    dget (l.map pair) d.num = some d.alter := by
  induction l with
  | nil => cases hd
  | cons a r ih =>
    simp only [List.map_cons, List.nodup_cons] at hn
    simp only [List.map_cons, pair, dget]
    rcases List.mem_cons.mp hd with h | h
    · subst h; simp
    · split
      · rename_i he
        exact absurd (List.mem_map.mpr ⟨d, h, he.symm⟩) hn.1
      · exact ih hn.2 h

theorem dget_map_pair_some (l : List Deg) (n : Nat) (a : Int) (h : dget (l.map pair) n = some a) :
    ⟨n, a⟩ ∈ l := by
  have := dget_some_mem _ _ _ h
  obtain ⟨d, hd, he⟩ := List.mem_map.mp this
  cases d; simp only [pair, Prod.mk.injEq] at he
  obtain ⟨rfl, rfl⟩ := he
  exact hd

theorem foldl_dset (l : List Deg) : ∀ acc : Dict, (∀ d ∈ l, dget acc d.num = none) →
    (l.map (·.num)).Nodup →
    l.foldl (fun d x => dset d x.num x.alter) acc = acc ++ l.map pair := by
  induction l with
  | nil => intro acc _ _; simp
  | cons a r ih =>
    intro acc hacc hn
    simp only [List.map_cons, List.nodup_cons] at hn
    simp only [List.foldl_cons, List.map_cons]
    rw [dset_of_none _ _ _ (hacc a (List.mem_cons_self ..)), ih _ _ hn.2]
    · simp [pair]
    · intro d hd
      rw [dget_append, hacc d (List.mem_cons_of_mem _ hd)]
      simp only [dget]
      split
      · rename_i he
        exact absurd (List.mem_map.mpr ⟨d, hd, he.symm⟩) hn.1
      · rfl

theorem dictOf_nodup (l : List Deg) (hn : (l.map (·.num)).Nodup) : dictOf l = l.map pair := by
  unfold dictOf
  rw [foldl_dset l [] (fun _ _ => rfl) hn]; rfl

/-! ## exceptions -/

@[simp] theorem bind_ok {α β} (a : α) (f : α → Except Err β) : (Except.ok a >>= f) = f a := rfl
@[simp] theorem bind_error {α β} (e : Err) (f : α → Except Err β) :
    ((Except.error e : Except Err α) >>= f) = .error e := rfl

theorem nodup_num_inj (t : List Deg) (hn : (t.map (·.num)).Nodup) (a b : Deg) (ha : a ∈ t)
    (hb : b ∈ t) (h : a.num = b.num) : a = b := by
  induction t with
  | nil => cases ha
  | cons x r ih =>
    simp only [List.map_cons, List.nodup_cons] at hn
    rcases List.mem_cons.mp ha with ha' | ha' <;> rcases List.mem_cons.mp hb with hb' | hb'
    · rw [ha', hb']
    · subst ha'; exact absurd (show a.num ∈ r.map (·.num) from List.mem_map.mpr ⟨b, hb', h.symm⟩) hn.1
    · subst hb'; exact absurd (show b.num ∈ r.map (·.num) from List.mem_map.mpr ⟨a, ha', h⟩) hn.1
    · exact ih hn.2 ha' hb'

/-! ## `_degrees_to_modifications` when the kind is part of the target -/

theorem addModOf_degree (d : Deg) : (addModOf d).degree = d.num := by
  unfold addModOf; simp only; split <;> split <;> rfl

theorem modFor_none (D : Dict) (d : Deg) (h : dget D d.num = none) :
    modFor D d.num d.alter = .ok [addModOf d] := by
  unfold modFor addModOf
  simp only [h]
  split <;> split <;> simp_all

theorem modFor_same (D : Dict) (d : Deg) (h : dget D d.num = some d.alter) :
    modFor D d.num d.alter = .ok [] := by
  unfold modFor
  simp [h]

/-- the degrees of the target that the kind lacks -/
def extras (kd t : List Deg) : List Deg := t.filter (fun d => decide (d.num ∉ kd.map (·.num)))

theorem addMods_spec (kd : List Deg) (hkn : (kd.map (·.num)).Nodup) :
    ∀ t : List Deg, (∀ d ∈ t, d.num ∈ kd.map (·.num) → d ∈ kd) →
      addMods (kd.map pair) (t.map pair) = .ok ((extras kd t).map addModOf) := by
  intro t
  induction t with
  | nil => intro _; rfl
  | cons a r ih =>
    intro h
    have ihr := ih (fun d hd => h d (List.mem_cons_of_mem _ hd))
    simp only [List.map_cons, pair, addMods]
    by_cases hm : a.num ∈ kd.map (·.num)
    · have ha := h a (List.mem_cons_self ..) hm
      rw [modFor_same _ _ (dget_map_pair_mem kd a hkn ha)]
      simp only [bind_ok]
      rw [ihr]
      have : extras kd (a :: r) = extras kd r := by
        unfold extras; rw [List.filter_cons_of_neg]; simpa using hm
      simp [this]
    · rw [modFor_none _ _ (dget_map_pair_none kd a.num hm)]
      simp only [bind_ok]
      rw [ihr]
      have : extras kd (a :: r) = a :: extras kd r := by
        unfold extras; rw [List.filter_cons_of_pos]; simpa using hm
      simp [this]

theorem subMods_nil (tD : Dict) : ∀ l : List Deg, (∀ d ∈ l, dget tD d.num ≠ none) →
    subMods tD (l.map pair) = [] := by
  intro l
  induction l with
  | nil => intro _; rfl
  | cons a r ih =>
    intro h
    simp only [List.map_cons, pair, subMods]
    have := h a (List.mem_cons_self ..)
    split
    · rename_i he; exact absurd he this
    · exact ih (fun d hd => h d (List.mem_cons_of_mem _ hd))

theorem degreesToMods_spec (kd t : List Deg) (hkn : (kd.map (·.num)).Nodup)
    (htn : (t.map (·.num)).Nodup) (hsub : ∀ d ∈ kd, d ∈ t) :
    degreesToMods kd t = .ok ((extras kd t).map addModOf) := by
  unfold degreesToMods
  rw [dictOf_nodup kd hkn, dictOf_nodup t htn]
  have h1 : ∀ d ∈ t, d.num ∈ kd.map (·.num) → d ∈ kd := by
    intro d hd hm
    obtain ⟨k, hk, he⟩ := List.mem_map.mp hm
    have := nodup_num_inj t htn k d (hsub k hk) hd he
    exact this ▸ hk
  simp only [addMods_spec kd hkn t h1, bind_ok]
  rw [subMods_nil (t.map pair) kd]
  · simp
  · intro d hd
    rw [dget_map_pair_mem t d htn (hsub d hd)]
    simp

/-! ## the reader applied to `kind ++ added modifications` -/

theorem emit_step (D : Dict) (d : Deg) (he : EmitOk d) (hD : dget D d.num = none) :
    ∃ m, parseMod (addModOf d) = .ok m ∧
      ∀ rest, applyMods D (m :: rest) = applyMods (D ++ [pair d]) rest := by
  unfold EmitOk at he
  unfold parseMod
  split at he
  · rename_i a hl
    refine ⟨(.add, (addModOf d).degree, a), by simp [hl], ?_⟩
    intro rest
    rw [addModOf_degree]
    simp only [applyMods, applyMod, hD, bind_ok, he, dset_of_none _ _ _ hD, pair]
  · rename_i a hl
    refine ⟨(.alt, (addModOf d).degree, a), by simp [hl], ?_⟩
    intro rest
    rw [addModOf_degree]
    simp only [applyMods, applyMod, hD, bind_ok, he, dset_of_none _ _ _ hD, pair]
  · exact he.elim

theorem applyMods_spec : ∀ (tf : List Deg) (D : Dict), (∀ d ∈ tf, EmitOk d) →
    (tf.map (·.num)).Nodup → (∀ d ∈ tf, dget D d.num = none) →
    ∃ ms, mapE parseMod (tf.map addModOf) = .ok ms ∧ applyMods D ms = .ok (D ++ tf.map pair) := by
  intro tf
  induction tf with
  | nil => intro D _ _ _; exact ⟨[], rfl, by simp [applyMods]⟩
  | cons a r ih =>
    intro D he hn hD
    simp only [List.map_cons, List.nodup_cons] at hn
    obtain ⟨m, hm, hstep⟩ := emit_step D a (he a (List.mem_cons_self ..)) (hD a (List.mem_cons_self ..))
    obtain ⟨ms, hms, happ⟩ := ih (D ++ [pair a]) (fun d hd => he d (List.mem_cons_of_mem _ hd)) hn.2
      (by
        intro d hd
        have hne : ¬ a.num = d.num := fun h => hn.1 (List.mem_map.mpr ⟨d, hd, h.symm⟩)
        rw [dget_append, hD d (List.mem_cons_of_mem _ hd)]
        simp [pair, dget, hne])
    refine ⟨m :: ms, ?_, ?_⟩
    · simp only [List.map_cons, mapE, hm, hms, bind_ok]
    · rw [hstep, happ]; simp

end NSV.C15
