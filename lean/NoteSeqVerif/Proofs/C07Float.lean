import NoteSeqVerif.Proofs.RoundingApps
import NoteSeqVerif.Proofs.C07Spec
/-! C07 — the floating-point bar length `spq * ((4.0 / den) * num)` of
`steps_per_bar_in_quantized_sequence`, for every rounding operator `R` with the `Rounding` facts
(`rounding_rne53 : Rounding rne53`).

* `spbExact_pow2`: a power-of-two denominator makes all three intermediate values dyadic with a
  significand `4`, `num`, `spq·num` of at most 53 bits, hence fixed points of `R` (the exponent of
  the model is unbounded, so no bound on the power is needed).
* `spb_float_int_sound`: for ANY positive denominator, if the float result is an integer then it is
  the exact `spq·4·num/den` (three roundings: relative error ≤ 2^-49, and a non-integer exact value
  is at least `1/den` away from every integer). -/
namespace NSV.C07

theorem spbExact_pow2 {R : ℚ → ℚ} (hR : Rounding R) (spq num : ℤ) (k : ℕ)
    (h1 : num.natAbs ≤ 2 ^ 53) (h2 : (spq * num).natAbs ≤ 2 ^ 53) :
    SpbExact R spq num (2 ^ k) := by
  have hp : 1 ≤ 53 := by norm_num
  have hk : (0 : ℚ) < 2 ^ k := by positivity
  have e0 : (((2 ^ k : ℤ)) : ℚ) = 2 ^ k := by push_cast; rfl
  have e1 : (4 : ℚ) / (2 ^ k) = ((4 : ℤ) : ℚ) * 2 ^ (-(k : ℤ)) := by
    rw [zpow_neg, zpow_natCast]; push_cast; ring
  have e2 : (4 : ℚ) / (2 ^ k) * (num : ℚ) = (num : ℚ) * 2 ^ (2 - (k : ℤ)) := by
    rw [zpow_sub₀ (by norm_num : (2 : ℚ) ≠ 0), zpow_natCast]; norm_num; ring
  have e3 : (spq : ℚ) * ((4 : ℚ) / (2 ^ k) * (num : ℚ)) =
      ((spq * num : ℤ) : ℚ) * 2 ^ (2 - (k : ℤ)) := by
    rw [e2]; push_cast; ring
  unfold SpbExact
  rw [e0]
  refine ⟨?_, ?_, ?_⟩
  · rw [e1]; exact hR.exact_dyadic hp 4 (by norm_num) _
  · rw [e2]; exact hR.exact_dyadic hp num h1 _
  · rw [e3]; exact hR.exact_dyadic hp (spq * num) h2 _

/-- any positive denominator: an integral float result is the exact quotient -/
theorem spb_float_int_sound {R : ℚ → ℚ} (hR : Rounding R) (spq num den : ℤ) (hq : 0 < spq)
    (hn : 0 < num) (hd : 0 < den) (hb : spq * 4 * num < 2 ^ 49) (m : ℤ)
    (hm : R ((spq : ℚ) * R (R (4 / (den : ℚ)) * (num : ℚ))) = (m : ℚ)) :
    spq * 4 * num = m * den := by
  have hq' : (0 : ℚ) < (spq : ℚ) := by exact_mod_cast hq
  have hn' : (0 : ℚ) < (num : ℚ) := by exact_mod_cast hn
  have hd' : (0 : ℚ) < (den : ℚ) := by exact_mod_cast hd
  have hb' : (spq : ℚ) * 4 * (num : ℚ) < 2 ^ 49 := by exact_mod_cast hb
  have h := FExpr.chain_rel_err hR
    (.mul (.lit (spq : ℚ)) (.mul (.div (.lit 4) (.lit (den : ℚ))) (.lit (num : ℚ))))
    ⟨hq', ⟨(by norm_num : (0 : ℚ) < 4), hd'⟩, hn'⟩ (by simp [FExpr.ops])
  simp only [FExpr.rounded, FExpr.exact] at h
  rw [hm] at h
  -- multiply by `den`
  have hx : (spq : ℚ) * (4 / (den : ℚ) * (num : ℚ)) * (den : ℚ) = (spq : ℚ) * 4 * (num : ℚ) := by
    field_simp
  have h2 : |(m : ℚ) * (den : ℚ) - (spq : ℚ) * 4 * (num : ℚ)| < 1 := by
    have : |(m : ℚ) - (spq : ℚ) * (4 / (den : ℚ) * (num : ℚ))| * (den : ℚ) =
        |(m : ℚ) * (den : ℚ) - (spq : ℚ) * 4 * (num : ℚ)| := by
      rw [← abs_of_pos hd', ← abs_mul, abs_of_pos hd', sub_mul, hx]
    rw [← this]
    calc |(m : ℚ) - (spq : ℚ) * (4 / (den : ℚ) * (num : ℚ))| * (den : ℚ)
        ≤ (spq : ℚ) * (4 / (den : ℚ) * (num : ℚ)) * (1 / 2 ^ 49) * (den : ℚ) :=
          mul_le_mul_of_nonneg_right h hd'.le
      _ = (spq : ℚ) * 4 * (num : ℚ) * (1 / 2 ^ 49) := by rw [← hx]; ring
      _ < 1 := by
          rw [mul_one_div, div_lt_one (by positivity)]; exact hb'
  have h3 : |m * den - spq * 4 * num| < 1 := by
    have : ((|m * den - spq * 4 * num| : ℤ) : ℚ) < ((1 : ℤ) : ℚ) := by
      push_cast; exact h2
    exact_mod_cast this
  have := Int.abs_lt_one_iff.mp h3
  omega

end NSV.C07
