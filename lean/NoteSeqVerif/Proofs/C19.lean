import Mathlib.Order.Defs.LinearOrder
import NoteSeqVerif.Model.C19
/-! C19 — helper lemmas for `Props/C19.lean`. -/
namespace NSV.C19

/-! ## `numpy.argmax` -/
section Generic
variable {S : Type} [LinearOrder S]

theorem argmaxLoop_spec (f : Nat → S) : ∀ (k i b : Nat) (vb : S), vb = f b → b < i →
    (∀ x, x < i → f x ≤ f b) → (∀ x, x < b → f x < f b) →
    let r := argmaxLoop f k i b vb
    r < i + k ∧ (∀ x, x < i + k → f x ≤ f r) ∧ (∀ x, x < r → f x < f r)
  | 0, i, b, vb, _, hb, hle, hlt => by
      simp only [argmaxLoop, Nat.add_zero]; exact ⟨hb, hle, hlt⟩
  | k + 1, i, b, vb, hv, hb, hle, hlt => by
      simp only [argmaxLoop]
      split
      · rename_i h
        subst hv
        have := argmaxLoop_spec f k (i + 1) i (f i) rfl (Nat.lt_succ_self i)
          (fun x hx => by
            rcases Nat.lt_succ_iff_lt_or_eq.mp hx with h1 | h1
            · exact le_of_lt (lt_of_le_of_lt (hle x h1) h)
            · subst h1; exact le_refl _)
          (fun x hx => lt_of_le_of_lt (hle x hx) h)
        simpa [Nat.add_assoc, Nat.add_comm 1 k] using this
      · rename_i h
        have := argmaxLoop_spec f k (i + 1) b vb hv (Nat.lt_succ_of_lt hb)
          (fun x hx => by
            rcases Nat.lt_succ_iff_lt_or_eq.mp hx with h1 | h1
            · exact hle x h1
            · subst h1; subst hv; exact not_lt.mp h)
          hlt
        simpa [Nat.add_assoc, Nat.add_comm 1 k] using this

theorem argmaxIdx_spec (f : Nat → S) (n : Nat) :
    argmaxIdx f (n + 1) < n + 1 ∧ (∀ x, x < n + 1 → f x ≤ f (argmaxIdx f (n + 1))) ∧
      (∀ x, x < argmaxIdx f (n + 1) → f x < f (argmaxIdx f (n + 1))) := by
  have := argmaxLoop_spec f n 1 0 (f 0) rfl (by omega) (fun x hx => by
      have : x = 0 := by omega
      subst this; exact le_refl _) (fun x hx => by omega)
  simpa [argmaxIdx, Nat.add_comm 1 n] using this

theorem argmaxIdx_lt (f : Nat → S) (n : Nat) (h : 0 < n) : argmaxIdx f n < n := by
  cases n with
  | zero => omega
  | succ n => exact (argmaxIdx_spec f n).1

theorem le_argmaxIdx (f : Nat → S) (n i : Nat) (h : i < n) : f i ≤ f (argmaxIdx f n) := by
  cases n with
  | zero => omega
  | succ n => exact (argmaxIdx_spec f n).2.1 i h

theorem lt_argmaxIdx_of_lt (f : Nat → S) (n i : Nat) (h : i < argmaxIdx f n) :
    f i < f (argmaxIdx f n) := by
  cases n with
  | zero => simp [argmaxIdx] at h
  | succ n => exact (argmaxIdx_spec f n).2.2 i h

/-! ## Viterbi: optimality -/
variable (add : S → S → S)

/-- the only property of the score combination that Viterbi needs -/
def Mono : Prop := ∀ a a' b : S, a ≤ a' → add a b ≤ add a' b

omit [LinearOrder S] in
theorem scoreFrom_append (T : Tables S) : ∀ (l : List Nat) (acc : S) (prev t j : Nat),
    scoreFrom add T acc prev t (l ++ [j]) =
      add (add (scoreFrom add T acc prev t l) (T.trans (l.getLastD prev) j)) (T.emit (t + l.length) j)
  | [], acc, prev, t, j => by simp [scoreFrom]
  | x :: l, acc, prev, t, j => by
      simp only [List.cons_append, scoreFrom, List.getLastD_cons, List.length_cons]
      rw [scoreFrom_append T l]
      congr 2; omega

theorem scoreFrom_le (hm : Mono add) (T : Tables S) : ∀ (rest : List Nat) (acc : S) (prev t : Nat),
    (∀ s ∈ rest, s < T.n) → prev < T.n → acc ≤ fwd add T t prev →
    ∃ j, j < T.n ∧ scoreFrom add T acc prev (t + 1) rest ≤ fwd add T (t + rest.length) j
  | [], acc, prev, t, _, hp, h => ⟨prev, hp, by simpa [scoreFrom] using h⟩
  | j :: rest, acc, prev, t, hs, hp, h => by
      have hj : j < T.n := hs j (by simp)
      have h1 : add acc (T.trans prev j) ≤ add (fwd add T t prev) (T.trans prev j) := hm _ _ _ h
      have h2 := le_argmaxIdx (fun i => add (fwd add T t i) (T.trans i j)) T.n prev hp
      have h3 : add (add acc (T.trans prev j)) (T.emit (t + 1) j) ≤ fwd add T (t + 1) j := by
        simp only [fwd]; exact hm _ _ _ (le_trans h1 h2)
      obtain ⟨j', hj', hle⟩ := scoreFrom_le hm T rest _ j (t + 1)
        (fun s hs' => hs s (List.mem_cons_of_mem _ hs')) hj h3
      refine ⟨j', hj', ?_⟩
      simp only [scoreFrom, List.length_cons]
      have e : t + (rest.length + 1) = t + 1 + rest.length := by omega
      rw [e]; exact hle

theorem backRev_spec (T : Tables S) : ∀ t j, ∃ h tl, (backRev add T t j).reverse = h :: tl ∧
    tl.getLastD h = j ∧ tl.length = t ∧ scoreFrom add T (T.init h) h 1 tl = fwd add T t j
  | 0, j => ⟨j, [], by simp [backRev, scoreFrom, fwd]⟩
  | t + 1, j => by
      obtain ⟨h, tl, e1, e2, e3, e4⟩ := backRev_spec T t (bp add T t j)
      refine ⟨h, tl ++ [j], by simp [backRev, e1], by simp, by simp [e3], ?_⟩
      rw [scoreFrom_append, e4, e2, e3]
      simp only [fwd, bp, Nat.add_comm 1 t]

theorem backRev_length (T : Tables S) : ∀ t j, (backRev add T t j).length = t + 1
  | 0, j => by simp [backRev]
  | t + 1, j => by simp [backRev, backRev_length T t]

theorem backRev_states (T : Tables S) (hn : 0 < T.n) : ∀ t j, j < T.n → ∀ s ∈ backRev add T t j, s < T.n
  | 0, j, hj, s, hs => by simp [backRev] at hs; omega
  | t + 1, j, hj, s, hs => by
      simp only [backRev, List.mem_cons] at hs
      rcases hs with h | h
      · omega
      · exact backRev_states T hn t _ (argmaxIdx_lt _ _ hn) s h

theorem score_viterbi (T : Tables S) (frames : Nat) :
    score add T (viterbiRev add T frames).reverse = some (optimum add T frames) := by
  obtain ⟨h, tl, e1, _, _, e4⟩ := backRev_spec add T (frames - 1) (argmaxIdx (fwd add T (frames - 1)) T.n)
  simp only [viterbiRev, e1, score, e4, optimum]

theorem score_le_optimum (hm : Mono add) (T : Tables S) (frames : Nat) (p : List Nat)
    (hp : p.length = frames) (hs : ∀ s ∈ p, s < T.n) (v : S) (hv : score add T p = some v) :
    v ≤ optimum add T frames := by
  cases p with
  | nil => simp [score] at hv
  | cons j rest =>
    simp only [score, Option.some.injEq] at hv
    subst hv
    obtain ⟨j', hj', hle⟩ := scoreFrom_le add hm T rest (T.init j) j 0
      (fun s hs' => hs s (List.mem_cons_of_mem _ hs')) (hs j (by simp)) (by simp [fwd])
    have hl : 0 + rest.length = frames - 1 := by simp at hp; omega
    rw [hl, Nat.zero_add] at hle
    exact le_trans hle (le_argmaxIdx _ _ _ hj')

/-! ## stored rows = equations -/
omit [LinearOrder S] in
theorem look_tab {α : Type} (n : Nat) (f : Nat → α) : look (tab n f) f = f := by
  funext i
  unfold look tab
  split
  · simp
  · rfl

theorem fwdExec_eq (T : Tables S) : ∀ t, fwdExec add T t =
    (tab T.n (fwd add T t), (List.range t).reverse.map fun s => tab T.n (bp add T s))
  | 0 => by simp [fwdExec, fwd]
  | t + 1 => by
      simp only [fwdExec, fwdExec_eq T t, look_tab, List.range_succ, List.reverse_append,
        List.reverse_cons, List.reverse_nil, List.nil_append, List.cons_append, List.map_cons]
      rfl

theorem backExec_eq (T : Tables S) : ∀ t j,
    backExec add T t ((List.range t).reverse.map fun s => tab T.n (bp add T s)) j = backRev add T t j
  | 0, j => by simp [backExec, backRev]
  | t + 1, j => by
      simp only [List.range_succ, List.reverse_append, List.reverse_cons, List.reverse_nil,
        List.nil_append, List.cons_append, List.map_cons, backExec, look_tab, backRev,
        backExec_eq T t]


/-! ## −∞ never lies on a path of finite score -/
omit [LinearOrder S] in
theorem scoreFrom_ne_bot (T : Tables S) (bot : S) (hL : ∀ b, add bot b = bot) (hR : ∀ a, add a bot = bot) :
    ∀ (rest : List Nat) (acc : S) (prev t : Nat), scoreFrom add T acc prev t rest ≠ bot →
      acc ≠ bot ∧ stepsFinite T bot prev t rest
  | [], acc, prev, t, h => ⟨by simpa [scoreFrom] using h, trivial⟩
  | j :: rest, acc, prev, t, h => by
      simp only [scoreFrom] at h
      obtain ⟨h1, h2⟩ := scoreFrom_ne_bot T bot hL hR rest _ j (t + 1) h
      have he : T.emit t j ≠ bot := fun e => h1 (by rw [e, hR])
      have ha : add acc (T.trans prev j) ≠ bot := fun e => h1 (by rw [e, hL])
      have ht : T.trans prev j ≠ bot := fun e => ha (by rw [e, hR])
      have hc : acc ≠ bot := fun e => ha (by rw [e, hL])
      exact ⟨hc, ht, he, h2⟩

/-! ## relabelling the states -/
omit [LinearOrder S] in
theorem scoreFrom_map (T T' : Tables S) (σ : Nat → Nat)
    (ht : ∀ i j, i < T.n → j < T.n → T'.trans (σ i) (σ j) = T.trans i j)
    (he : ∀ t j, j < T.n → T'.emit t (σ j) = T.emit t j) :
    ∀ (rest : List Nat) (acc : S) (prev t : Nat), prev < T.n → (∀ s ∈ rest, s < T.n) →
      scoreFrom add T' acc (σ prev) t (rest.map σ) = scoreFrom add T acc prev t rest
  | [], acc, prev, t, _, _ => by simp [scoreFrom]
  | j :: rest, acc, prev, t, hp, hs => by
      have hj : j < T.n := hs j (by simp)
      simp only [List.map_cons, scoreFrom, ht prev j hp hj, he t j hj]
      exact scoreFrom_map T T' σ ht he rest _ j (t + 1) hj (fun s hs' => hs s (List.mem_cons_of_mem _ hs'))

omit [LinearOrder S] in
theorem score_map (T T' : Tables S) (σ : Nat → Nat)
    (hi : ∀ i, i < T.n → T'.init (σ i) = T.init i)
    (ht : ∀ i j, i < T.n → j < T.n → T'.trans (σ i) (σ j) = T.trans i j)
    (he : ∀ t j, j < T.n → T'.emit t (σ j) = T.emit t j)
    (p : List Nat) (hs : ∀ s ∈ p, s < T.n) : score add T' (p.map σ) = score add T p := by
  cases p with
  | nil => rfl
  | cons j rest =>
    have hj : j < T.n := hs j (by simp)
    simp only [List.map_cons, score, hi j hj]
    rw [scoreFrom_map add T T' σ ht he rest _ j 1 hj (fun s hs' => hs s (List.mem_cons_of_mem _ hs'))]

theorem viterbiRev_states (T : Tables S) (hn : 0 < T.n) (frames : Nat) :
    ∀ s ∈ (viterbiRev add T frames).reverse, s < T.n := by
  intro s hs
  exact backRev_states add T hn _ _ (argmaxIdx_lt _ _ hn) s (List.mem_reverse.mp hs)

theorem optimum_le_of_map (hm : Mono add) (T T' : Tables S) (σ : Nat → Nat) (hn : 0 < T.n) (hn' : T'.n = T.n)
    (hσ : ∀ i, i < T.n → σ i < T.n)
    (hi : ∀ i, i < T.n → T'.init (σ i) = T.init i)
    (ht : ∀ i j, i < T.n → j < T.n → T'.trans (σ i) (σ j) = T.trans i j)
    (he : ∀ t j, j < T.n → T'.emit t (σ j) = T.emit t j) (frames : Nat) (hf : 0 < frames) :
    optimum add T frames ≤ optimum add T' frames := by
  have hst := viterbiRev_states add T hn frames
  have h1 := score_viterbi add T frames
  rw [← score_map add T T' σ hi ht he _ hst] at h1
  refine score_le_optimum add hm T' frames _ ?_ ?_ _ h1
  · simp [viterbiRev, backRev_length]; omega
  · intro s hs
    obtain ⟨x, hx, rfl⟩ := List.mem_map.mp hs
    rw [hn']; exact hσ x (hst x hx)

end Generic
end NSV.C19
