import Mathlib.Order.Defs.LinearOrder
import NoteSeqVerif.Model.C19
/-! C19 — helper lemmas for `Props/C19.lean`. -/
namespace NSV.C19

/-! ## `numpy.argmax` -/
section Generic
variable {S : Type} [LinearOrder S]

theorem argmaxLoop_spec (f : Nat → S) : ∀ (k i b : Nat) (vb : S), vb = f b → b < i →
    (∀ x, x < i → f x ≤ f b) → (∀ x, x < b → f x < f b) →
    let r := argmaxLoop f k i b vb
    r < i + k ∧ (∀ x, x < i + k → f x ≤ f r) ∧ (∀ x, x < r → f x < f r)
  | 0, i, b, vb, _, hb, hle, hlt => by
      simp only [argmaxLoop, Nat.add_zero]; exact ⟨hb, hle, hlt⟩
  | k + 1, i, b, vb, hv, hb, hle, hlt => by
      simp only [argmaxLoop]
      split
      · rename_i h
        subst hv
        have := argmaxLoop_spec f k (i + 1) i (f i) rfl (Nat.lt_succ_self i)
          (fun x hx => by
            rcases Nat.lt_succ_iff_lt_or_eq.mp hx with h1 | h1
            · exact le_of_lt (lt_of_le_of_lt (hle x h1) h)
            · subst h1; exact le_refl _)
          (fun x hx => lt_of_le_of_lt (hle x hx) h)
        simpa [Nat.add_assoc, Nat.add_comm 1 k] using this
      · rename_i h
        have := argmaxLoop_spec f k (i + 1) b vb hv (Nat.lt_succ_of_lt hb)
          (fun x hx => by
            rcases Nat.lt_succ_iff_lt_or_eq.mp hx with h1 | h1
            · exact hle x h1
            · subst h1; subst hv; exact not_lt.mp h)
          hlt
        simpa [Nat.add_assoc, Nat.add_comm 1 k] using this

theorem argmaxIdx_spec (f : Nat → S) (n : Nat) :
    argmaxIdx f (n + 1) < n + 1 ∧ (∀ x, x < n + 1 → f x ≤ f (argmaxIdx f (n + 1))) ∧
      (∀ x, x < argmaxIdx f (n + 1) → f x < f (argmaxIdx f (n + 1))) := by
  have := argmaxLoop_spec f n 1 0 (f 0) rfl (by omega) (fun x hx => by
      have : x = 0 := by omega
      subst this; exact le_refl _) (fun x hx => by omega)
  simpa [argmaxIdx, Nat.add_comm 1 n] using this

theorem argmaxIdx_lt (f : Nat → S) (n : Nat) (h : 0 < n) : argmaxIdx f n < n := by
  cases n with
  | zero => omega
  | succ n => exact (argmaxIdx_spec f n).1

theorem le_argmaxIdx (f : Nat → S) (n i : Nat) (h : i < n) : f i ≤ f (argmaxIdx f n) := by
  cases n with
  | zero => omega
  | succ n => exact (argmaxIdx_spec f n).2.1 i h

theorem lt_argmaxIdx_of_lt (f : Nat → S) (n i : Nat) (h : i < argmaxIdx f n) :
    f i < f (argmaxIdx f n) := by
  cases n with
  | zero => simp [argmaxIdx] at h
  | succ n => exact (argmaxIdx_spec f n).2.2 i h

/-! ## Viterbi: optimality -/
variable (add : S → S → S)

/-- the only property of the score combination that Viterbi needs -/
def Mono : Prop := ∀ a a' b : S, a ≤ a' → add a b ≤ add a' b

omit [LinearOrder S] in
theorem scoreFrom_append (T : Tables S) : ∀ (l : List Nat) (acc : S) (prev t j : Nat),
    scoreFrom add T acc prev t (l ++ [j]) =
      add (add (scoreFrom add T acc prev t l) (T.trans (l.getLastD prev) j)) (T.emit (t + l.length) j)
  | [], acc, prev, t, j => by simp [scoreFrom]
  | x :: l, acc, prev, t, j => by
      simp only [List.cons_append, scoreFrom, List.getLastD_cons, List.length_cons]
      rw [scoreFrom_append T l]
      congr 2; omega

theorem scoreFrom_le (hm : Mono add) (T : Tables S) : ∀ (rest : List Nat) (acc : S) (prev t : Nat),
    (∀ s ∈ rest, s < T.n) → prev < T.n → acc ≤ fwd add T t prev →
    ∃ j, j < T.n ∧ scoreFrom add T acc prev (t + 1) rest ≤ fwd add T (t + rest.length) j
  | [], acc, prev, t, _, hp, h => ⟨prev, hp, by simpa [scoreFrom] using h⟩
  | j :: rest, acc, prev, t, hs, hp, h => by
      have hj : j < T.n := hs j (by simp)
      have h1 : add acc (T.trans prev j) ≤ add (fwd add T t prev) (T.trans prev j) := hm _ _ _ h
      have h2 := le_argmaxIdx (fun i => add (fwd add T t i) (T.trans i j)) T.n prev hp
      have h3 : add (add acc (T.trans prev j)) (T.emit (t + 1) j) ≤ fwd add T (t + 1) j := by
        simp only [fwd]; exact hm _ _ _ (le_trans h1 h2)
      obtain ⟨j', hj', hle⟩ := scoreFrom_le hm T rest _ j (t + 1)
        (fun s hs' => hs s (List.mem_cons_of_mem _ hs')) hj h3
      refine ⟨j', hj', ?_⟩
      simp only [scoreFrom, List.length_cons]
      have e : t + (rest.length + 1) = t + 1 + rest.length := by omega
      rw [e]; exact hle

theorem backRev_spec (T : Tables S) : ∀ t j, ∃ h tl, (backRev add T t j).reverse = h :: tl ∧
    tl.getLastD h = j ∧ tl.length = t ∧ scoreFrom add T (T.init h) h 1 tl = fwd add T t j
  | 0, j => ⟨j, [], by simp [backRev, scoreFrom, fwd]⟩
  | t + 1, j => by
      obtain ⟨h, tl, e1, e2, e3, e4⟩ := backRev_spec T t (bp add T t j)
      refine ⟨h, tl ++ [j], by simp [backRev, e1], by simp, by simp [e3], ?_⟩
      rw [scoreFrom_append, e4, e2, e3]
      simp only [fwd, bp, Nat.add_comm 1 t]

theorem backRev_length (T : Tables S) : ∀ t j, (backRev add T t j).length = t + 1
  | 0, j => by simp [backRev]
  | t + 1, j => by simp [backRev, backRev_length T t]

theorem backRev_states (T : Tables S) (hn : 0 < T.n) : ∀ t j, j < T.n → ∀ s ∈ backRev add T t j, s < T.n
  | 0, j, hj, s, hs => by simp [backRev] at hs; omega
  | t + 1, j, hj, s, hs => by
      simp only [backRev, List.mem_cons] at hs
      rcases hs with h | h
      · omega
      · exact backRev_states T hn t _ (argmaxIdx_lt _ _ hn) s h

theorem score_viterbi (T : Tables S) (frames : Nat) :
    score add T (viterbiRev add T frames).reverse = some (optimum add T frames) := by
  obtain ⟨h, tl, e1, _, _, e4⟩ := backRev_spec add T (frames - 1) (argmaxIdx (fwd add T (frames - 1)) T.n)
  simp only [viterbiRev, e1, score, e4, optimum]

theorem score_le_optimum (hm : Mono add) (T : Tables S) (frames : Nat) (p : List Nat)
    (hp : p.length = frames) (hs : ∀ s ∈ p, s < T.n) (v : S) (hv : score add T p = some v) :
    v ≤ optimum add T frames := by
  cases p with
  | nil => simp [score] at hv
  | cons j rest =>
    simp only [score, Option.some.injEq] at hv
    subst hv
    obtain ⟨j', hj', hle⟩ := scoreFrom_le add hm T rest (T.init j) j 0
      (fun s hs' => hs s (List.mem_cons_of_mem _ hs')) (hs j (by simp)) (by simp [fwd])
    have hl : 0 + rest.length = frames - 1 := by simp at hp; omega
    rw [hl, Nat.zero_add] at hle
    exact le_trans hle (le_argmaxIdx _ _ _ hj')

/-! ## stored rows = equations -/
omit [LinearOrder S] in
theorem look_tab {α : Type} (n : Nat) (f : Nat → α) : look (tab n f) f = f := by
  funext i
  unfold look tab
  split
  · simp
  · rfl

theorem fwdExec_eq (T : Tables S) : ∀ t, fwdExec add T t =
    (tab T.n (fwd add T t), (List.range t).reverse.map fun s => tab T.n (bp add T s))
  | 0 => by simp [fwdExec, fwdCore, fwd]
  | t + 1 => by
      have ih := fwdExec_eq T t
      simp only [fwdExec] at ih ⊢
      simp only [fwdCore, ih, look_tab, List.range_succ, List.reverse_append,
        List.reverse_cons, List.reverse_nil, List.nil_append, List.cons_append, List.map_cons]
      rfl

theorem backExec_eq (T : Tables S) : ∀ t j,
    backExec add T t ((List.range t).reverse.map fun s => tab T.n (bp add T s)) j = backRev add T t j
  | 0, j => by simp [backExec, backRev]
  | t + 1, j => by
      simp only [List.range_succ, List.reverse_append, List.reverse_cons, List.reverse_nil,
        List.nil_append, List.cons_append, List.map_cons, backExec, look_tab, backRev,
        backExec_eq T t]


/-! ## −∞ never lies on a path of finite score -/
omit [LinearOrder S] in
theorem scoreFrom_ne_bot (T : Tables S) (bot : S) (hL : ∀ b, add bot b = bot) (hR : ∀ a, add a bot = bot) :
    ∀ (rest : List Nat) (acc : S) (prev t : Nat), scoreFrom add T acc prev t rest ≠ bot →
      acc ≠ bot ∧ stepsFinite T bot prev t rest
  | [], acc, prev, t, h => ⟨by simpa [scoreFrom] using h, trivial⟩
  | j :: rest, acc, prev, t, h => by
      simp only [scoreFrom] at h
      obtain ⟨h1, h2⟩ := scoreFrom_ne_bot T bot hL hR rest _ j (t + 1) h
      have he : T.emit t j ≠ bot := fun e => h1 (by rw [e, hR])
      have ha : add acc (T.trans prev j) ≠ bot := fun e => h1 (by rw [e, hL])
      have ht : T.trans prev j ≠ bot := fun e => ha (by rw [e, hR])
      have hc : acc ≠ bot := fun e => ha (by rw [e, hL])
      exact ⟨hc, ht, he, h2⟩

/-! ## relabelling the states -/
omit [LinearOrder S] in
theorem scoreFrom_map (T T' : Tables S) (σ : Nat → Nat)
    (ht : ∀ i j, i < T.n → j < T.n → T'.trans (σ i) (σ j) = T.trans i j)
    (he : ∀ t j, j < T.n → T'.emit t (σ j) = T.emit t j) :
    ∀ (rest : List Nat) (acc : S) (prev t : Nat), prev < T.n → (∀ s ∈ rest, s < T.n) →
      scoreFrom add T' acc (σ prev) t (rest.map σ) = scoreFrom add T acc prev t rest
  | [], acc, prev, t, _, _ => by simp [scoreFrom]
  | j :: rest, acc, prev, t, hp, hs => by
      have hj : j < T.n := hs j (by simp)
      simp only [List.map_cons, scoreFrom, ht prev j hp hj, he t j hj]
      exact scoreFrom_map T T' σ ht he rest _ j (t + 1) hj (fun s hs' => hs s (List.mem_cons_of_mem _ hs'))

omit [LinearOrder S] in
theorem score_map (T T' : Tables S) (σ : Nat → Nat)
    (hi : ∀ i, i < T.n → T'.init (σ i) = T.init i)
    (ht : ∀ i j, i < T.n → j < T.n → T'.trans (σ i) (σ j) = T.trans i j)
    (he : ∀ t j, j < T.n → T'.emit t (σ j) = T.emit t j)
    (p : List Nat) (hs : ∀ s ∈ p, s < T.n) : score add T' (p.map σ) = score add T p := by
  cases p with
  | nil => rfl
  | cons j rest =>
    have hj : j < T.n := hs j (by simp)
    simp only [List.map_cons, score, hi j hj]
    rw [scoreFrom_map add T T' σ ht he rest _ j 1 hj (fun s hs' => hs s (List.mem_cons_of_mem _ hs'))]

theorem viterbiRev_states (T : Tables S) (hn : 0 < T.n) (frames : Nat) :
    ∀ s ∈ (viterbiRev add T frames).reverse, s < T.n := by
  intro s hs
  exact backRev_states add T hn _ _ (argmaxIdx_lt _ _ hn) s (List.mem_reverse.mp hs)

theorem optimum_le_of_map (hm : Mono add) (T T' : Tables S) (σ : Nat → Nat) (hn : 0 < T.n) (hn' : T'.n = T.n)
    (hσ : ∀ i, i < T.n → σ i < T.n)
    (hi : ∀ i, i < T.n → T'.init (σ i) = T.init i)
    (ht : ∀ i j, i < T.n → j < T.n → T'.trans (σ i) (σ j) = T.trans i j)
    (he : ∀ t j, j < T.n → T'.emit t (σ j) = T.emit t j) (frames : Nat) (hf : 0 < frames) :
    optimum add T frames ≤ optimum add T' frames := by
  have hst := viterbiRev_states add T hn frames
  have h1 := score_viterbi add T frames
  rw [← score_map add T T' σ hi ht he _ hst] at h1
  refine score_le_optimum add hm T' frames _ ?_ ?_ _ h1
  · simp [viterbiRev, backRev_length]; omega
  · intro s hs
    obtain ⟨x, hx, rfl⟩ := List.mem_map.mp hs
    rw [hn']; exact hσ x (hst x hx)

end Generic

/-! ## the change-recording loop of the chord writer -/
section Writers
variable {α β : Type} [DecidableEq β] (name : α → β)

theorem changesFrom_mem : ∀ (l : List α) (cur : Option β) (t : Nat) (f : Nat) (x : α),
    (f, x) ∈ changesFrom name cur t l → t ≤ f ∧ f < t + l.length ∧ l[f - t]? = some x
  | [], _, _, _, _, h => by simp [changesFrom] at h
  | y :: rest, cur, t, f, x, h => by
      simp only [changesFrom] at h
      have hrec := fun c (h' : (f, x) ∈ changesFrom name c (t + 1) rest) => by
        have := changesFrom_mem rest c (t + 1) f x h'
        have e : f - t = (f - (t + 1)) + 1 := by omega
        exact (⟨by omega, by simp only [List.length_cons]; omega, by rw [e]; simpa using this.2.2⟩ :
          t ≤ f ∧ f < t + (y :: rest).length ∧ (y :: rest)[f - t]? = some x)
      split at h
      · rcases List.mem_cons.mp h with h | h
        · cases h; simp
        · exact hrec _ h
      · exact hrec _ h

theorem changesFrom_pairwise : ∀ (l : List α) (cur : Option β) (t : Nat),
    (changesFrom name cur t l).Pairwise (fun a b => a.1 < b.1)
  | [], _, _ => by simp [changesFrom]
  | y :: rest, cur, t => by
      simp only [changesFrom]
      split
      · refine List.pairwise_cons.mpr ⟨?_, changesFrom_pairwise rest _ _⟩
        intro a ha
        have := changesFrom_mem name rest _ (t + 1) a.1 a.2 ha
        simp only; omega
      · exact changesFrom_pairwise rest _ _

/-- the first change recorded differs from the current name, and neighbours differ -/
theorem changesFrom_adjacent : ∀ (l : List α) (cur : Option β) (t : Nat),
    Adjacent (fun a b => name a.2 ≠ name b.2) (changesFrom name cur t l) ∧
      ∀ a, (changesFrom name cur t l).head? = some a → some (name a.2) ≠ cur
  | [], _, _ => by simp [changesFrom, Adjacent]
  | y :: rest, cur, t => by
      simp only [changesFrom]
      split
      · rename_i hne
        obtain ⟨h1, h2⟩ := changesFrom_adjacent rest (some (name y)) (t + 1)
        refine ⟨?_, by simpa using hne⟩
        cases hc : changesFrom name (some (name y)) (t + 1) rest with
        | nil => simp [Adjacent]
        | cons b l' =>
          rw [hc] at h1 h2
          refine ⟨?_, h1⟩
          have := h2 b (by simp)
          simp only [ne_eq, Option.some.injEq] at this
          exact fun e => this e.symm
      · exact changesFrom_adjacent rest cur (t + 1)

/-- every frame carries the name announced by the last change at or before it -/
theorem changesFrom_reconstruct : ∀ (l : List α) (cur : Option β) (t i : Nat) (x : α), l[i]? = some x →
    (cur = some (name x) ∧ ∀ a ∈ changesFrom name cur t l, t + i < a.1) ∨
    ∃ a ∈ changesFrom name cur t l, a.1 ≤ t + i ∧ name a.2 = name x ∧
      ∀ b ∈ changesFrom name cur t l, b.1 ≤ t + i → b.1 ≤ a.1
  | [], _, _, _, _, h => by simp at h
  | y :: rest, cur, t, 0, x, h => by
      simp only [List.getElem?_cons_zero, Option.some.injEq] at h
      subst h
      simp only [changesFrom]
      split
      · right
        refine ⟨(t, y), by simp, by simp, rfl, ?_⟩
        intro b hb hle
        rcases List.mem_cons.mp hb with h | h
        · subst h; simp
        · have := changesFrom_mem name rest _ (t + 1) b.1 b.2 h
          omega
      · rename_i hne
        left
        refine ⟨(Decidable.not_not.mp hne).symm, ?_⟩
        · intro a ha
          have := changesFrom_mem name rest _ (t + 1) a.1 a.2 ha
          omega
  | y :: rest, cur, t, i + 1, x, h => by
      simp only [List.getElem?_cons_succ] at h
      simp only [changesFrom]
      have e : t + (i + 1) = t + 1 + i := by omega
      split
      · rcases changesFrom_reconstruct rest (some (name y)) (t + 1) i x h with ⟨h1, h2⟩ | ⟨a, ha, h1, h2, h3⟩
        · right
          refine ⟨(t, y), by simp, by simp, by simpa using h1, ?_⟩
          intro b hb hle
          rcases List.mem_cons.mp hb with h | h
          · subst h; simp
          · have := h2 b h; omega
        · right
          refine ⟨a, List.mem_cons_of_mem _ ha, by omega, h2, ?_⟩
          intro b hb hle
          rcases List.mem_cons.mp hb with h | h
          · subst h
            have := changesFrom_mem name rest _ (t + 1) a.1 a.2 ha
            simp only; omega
          · exact h3 b h (by omega)
      · rcases changesFrom_reconstruct rest cur (t + 1) i x h with ⟨h1, h2⟩ | ⟨a, ha, h1, h2, h3⟩
        · left; exact ⟨h1, fun a ha => by have := h2 a ha; omega⟩
        · right; exact ⟨a, ha, by omega, h2, fun b hb hle => h3 b hb (by omega)⟩
end Writers

/-! ## the melody note writer -/
section Mel
variable {τ : Type} [LinearOrder τ]

/-- what `melWriter` guarantees for each note -/
def NoteOK (total lo : τ) (cur : Option (Nat × τ)) (evs : List (MelEvent × τ)) (n : MelNote τ) : Prop :=
  lo ≤ n.start ∧ n.start < n.stop ∧ n.stop ≤ total ∧
  (cur = some (n.pitch, n.start) ∨ (MelEvent.note n.pitch true, n.start) ∈ evs) ∧
  (n.stop = total ∨ ∃ e ∈ evs, e.2 = n.stop ∧ (e.1 = .rest ∨ ∃ q, e.1 = .note q true))

theorem NoteOK.weaken {total lo lo' : τ} {cur cur'} {evs} {e : MelEvent × τ} {n : MelNote τ}
    (h : NoteOK total lo' cur' evs n) (hlo : lo ≤ lo')
    (hc : cur' = some (n.pitch, n.start) → cur = some (n.pitch, n.start) ∨ (MelEvent.note n.pitch true, n.start) = e) :
    NoteOK total lo cur (e :: evs) n := by
  obtain ⟨h1, h2, h3, h4, h5⟩ := h
  refine ⟨le_trans hlo h1, h2, h3, ?_, ?_⟩
  · rcases h4 with h4 | h4
    · rcases hc h4 with h | h
      · exact Or.inl h
      · exact Or.inr (by rw [h]; simp)
    · exact Or.inr (List.mem_cons_of_mem _ h4)
  · rcases h5 with h5 | ⟨e', he', h5⟩
    · exact Or.inl h5
    · exact Or.inr ⟨e', List.mem_cons_of_mem _ he', h5⟩

theorem melWriter_wf (total : τ) : ∀ (evs : List (MelEvent × τ)) (cur : Option (Nat × τ)) (lo : τ)
    (notes : List (MelNote τ)),
    evs.Pairwise (fun a b => a.2 < b.2) → (∀ e ∈ evs, lo ≤ e.2 ∧ e.2 < total) →
    (∀ p s, cur = some (p, s) → lo ≤ s ∧ s < total ∧ ∀ e ∈ evs, s < e.2) →
    melWriter total cur evs = .ok notes →
    (∀ n ∈ notes, NoteOK total lo cur evs n) ∧ notes.Pairwise (fun a b => a.stop ≤ b.start)
  | [], none, lo, notes, _, _, _, h => by
      simp only [melWriter, Except.ok.injEq] at h; subst h; simp
  | [], some (p, s), lo, notes, _, _, hc, h => by
      simp only [melWriter, Except.ok.injEq] at h; subst h
      obtain ⟨h1, h2, _⟩ := hc p s rfl
      simp [NoteOK, h1, h2]
  | (ev, time) :: rest, cur, lo, notes, hpw, hb, hc, h => by
      obtain ⟨hpw1, hpw2⟩ := List.pairwise_cons.mp hpw
      have hb' : ∀ e ∈ rest, time ≤ e.2 ∧ e.2 < total := fun e he =>
        ⟨le_of_lt (hpw1 e he), (hb e (List.mem_cons_of_mem _ he)).2⟩
      have hbt := hb (ev, time) (by simp)
      match ev, cur, h with
      | .rest, none, h =>
          simp only [melWriter] at h
          obtain ⟨r1, r2⟩ := melWriter_wf total rest none time notes hpw2 hb' (by simp) h
          exact ⟨fun n hn => (r1 n hn).weaken hbt.1 (by simp), r2⟩
      | .rest, some (p, s), h =>
          simp only [melWriter] at h
          cases hr : melWriter total none rest with
          | error e => simp [hr, consOk] at h
          | ok ns =>
            simp only [hr, consOk, Except.ok.injEq] at h
            subst h
            obtain ⟨r1, r2⟩ := melWriter_wf total rest none time ns hpw2 hb' (by simp) hr
            obtain ⟨c1, c2, c3⟩ := hc p s rfl
            refine ⟨?_, List.pairwise_cons.mpr ⟨fun n hn => (r1 n hn).1, r2⟩⟩
            intro n hn
            rcases List.mem_cons.mp hn with hn | hn
            · subst hn
              exact ⟨c1, c3 (.rest, time) (by simp), le_of_lt hbt.2, Or.inl rfl, Or.inr ⟨(.rest, time), by simp, rfl, Or.inl rfl⟩⟩
            · exact (r1 n hn).weaken hbt.1 (by simp)
      | .note q true, none, h =>
          simp only [melWriter] at h
          obtain ⟨r1, r2⟩ := melWriter_wf total rest (some (q, time)) time notes hpw2 hb'
            (by intro p s e; cases e; exact ⟨le_refl _, hbt.2, hpw1⟩) h
          refine ⟨fun n hn => (r1 n hn).weaken hbt.1 ?_, r2⟩
          intro e; cases e; exact Or.inr rfl
      | .note q true, some (p, s), h =>
          simp only [melWriter] at h
          cases hr : melWriter total (some (q, time)) rest with
          | error e => simp [hr, consOk] at h
          | ok ns =>
            simp only [hr, consOk, Except.ok.injEq] at h
            subst h
            obtain ⟨r1, r2⟩ := melWriter_wf total rest (some (q, time)) time ns hpw2 hb'
              (by intro p s e; cases e; exact ⟨le_refl _, hbt.2, hpw1⟩) hr
            obtain ⟨c1, c2, c3⟩ := hc p s rfl
            refine ⟨?_, List.pairwise_cons.mpr ⟨fun n hn => (r1 n hn).1, r2⟩⟩
            intro n hn
            rcases List.mem_cons.mp hn with hn | hn
            · subst hn
              exact ⟨c1, c3 (.note q true, time) (by simp), le_of_lt hbt.2, Or.inl rfl,
                Or.inr ⟨(.note q true, time), by simp, rfl, Or.inr ⟨q, rfl⟩⟩⟩
            · refine (r1 n hn).weaken hbt.1 ?_
              intro e; cases e; exact Or.inr rfl
      | .note q false, none, h => simp [melWriter] at h
      | .note q false, some (p, s), h =>
          simp only [melWriter] at h
          split at h
          · obtain ⟨c1, c2, c3⟩ := hc p s rfl
            obtain ⟨r1, r2⟩ := melWriter_wf total rest (some (p, s)) lo notes hpw2
              (fun e he => hb e (List.mem_cons_of_mem _ he))
              (by intro p' s' e; cases e; exact ⟨c1, c2, fun e he => c3 e (List.mem_cons_of_mem _ he)⟩) h
            exact ⟨fun n hn => (r1 n hn).weaken (le_refl _) (fun e => Or.inl e), r2⟩
          · simp at h
end Mel

section MapOk
variable {α β : Type} (f : α → Except String β)

theorem mapOk_cons_ok {a : α} {l : List α} {r : List β} (h : mapOk f (a :: l) = .ok r) :
    ∃ b r', f a = .ok b ∧ mapOk f l = .ok r' ∧ r = b :: r' := by
  simp only [mapOk] at h
  cases hf : f a with
  | error e => simp [hf] at h
  | ok b =>
    simp only [hf] at h
    cases hr : mapOk f l with
    | error e => simp [hr, consOk] at h
    | ok r' =>
      simp only [hr, consOk, Except.ok.injEq] at h
      exact ⟨b, r', rfl, rfl, h.symm⟩

theorem mapOk_mem : ∀ (l : List α) (r : List β), mapOk f l = .ok r → ∀ b ∈ r, ∃ a ∈ l, f a = .ok b
  | [], r, h, b, hb => by simp only [mapOk, Except.ok.injEq] at h; subst h; simp at hb
  | a :: l, r, h, b, hb => by
      obtain ⟨b', r', h1, h2, rfl⟩ := mapOk_cons_ok f h
      rcases List.mem_cons.mp hb with hb | hb
      · subst hb; exact ⟨a, by simp, h1⟩
      · obtain ⟨a', ha', h3⟩ := mapOk_mem l r' h2 b hb
        exact ⟨a', List.mem_cons_of_mem _ ha', h3⟩

theorem mapOk_mem' : ∀ (l : List α) (r : List β), mapOk f l = .ok r → ∀ a ∈ l, ∃ b ∈ r, f a = .ok b
  | [], r, h, a, ha => by simp at ha
  | a' :: l, r, h, a, ha => by
      obtain ⟨b', r', h1, h2, rfl⟩ := mapOk_cons_ok f h
      rcases List.mem_cons.mp ha with ha | ha
      · subst ha; exact ⟨b', by simp, h1⟩
      · obtain ⟨b, hb, h3⟩ := mapOk_mem' l r' h2 a ha
        exact ⟨b, List.mem_cons_of_mem _ hb, h3⟩

theorem mapOk_pairwise {R : α → α → Prop} {R' : β → β → Prop}
    (hR : ∀ a a' b b', f a = .ok b → f a' = .ok b' → R a a' → R' b b') :
    ∀ (l : List α) (r : List β), mapOk f l = .ok r → l.Pairwise R → r.Pairwise R'
  | [], r, h, _ => by simp only [mapOk, Except.ok.injEq] at h; subst h; simp
  | a :: l, r, h, hp => by
      obtain ⟨b, r', h1, h2, rfl⟩ := mapOk_cons_ok f h
      obtain ⟨p1, p2⟩ := List.pairwise_cons.mp hp
      refine List.pairwise_cons.mpr ⟨?_, mapOk_pairwise hR l r' h2 p2⟩
      intro b' hb'
      obtain ⟨a', ha', h3⟩ := mapOk_mem f l r' h2 b' hb'
      exact hR a a' b b' h1 h3 (p1 a' ha')

theorem mapOk_adjacent {R : α → α → Prop} {R' : β → β → Prop}
    (hR : ∀ a a' b b', f a = .ok b → f a' = .ok b' → R a a' → R' b b') :
    ∀ (l : List α) (r : List β), mapOk f l = .ok r → Adjacent R l → Adjacent R' r
  | [], r, h, _ => by simp only [mapOk, Except.ok.injEq] at h; subst h; simp [Adjacent]
  | [a], r, h, _ => by
      obtain ⟨b, r', _, h2, rfl⟩ := mapOk_cons_ok f h
      simp only [mapOk, Except.ok.injEq] at h2; subst h2; simp [Adjacent]
  | a :: a' :: l, r, h, hp => by
      obtain ⟨b, r', h1, h2, rfl⟩ := mapOk_cons_ok f h
      obtain ⟨b', r'', h3, h4, rfl⟩ := mapOk_cons_ok f h2
      exact ⟨hR a a' b b' h1 h3 hp.1, mapOk_adjacent hR (a' :: l) (b' :: r'') h2 hp.2⟩

theorem mapOk_total (hf : ∀ a, ∃ b, f a = .ok b) : ∀ l : List α, ∃ r, mapOk f l = .ok r ∧ r.length = l.length
  | [] => ⟨[], rfl, rfl⟩
  | a :: l => by
      obtain ⟨b, hb⟩ := hf a
      obtain ⟨r, hr, hl⟩ := mapOk_total hf l
      exact ⟨b :: r, by simp [mapOk, hb, hr, consOk], by simp [hl]⟩
end MapOk

/-! ## melody: a path of finite score is written without tripping the assertion -/
section MelOk
variable {τ : Type}

theorem melWriter_ok (total : τ) : ∀ (evs : List (MelEvent × τ)) (cur : Option (Nat × τ)),
    evLegal (cur.map (·.1)) (evs.map (·.1)) → ∃ notes, melWriter total cur evs = .ok notes
  | [], none, _ => ⟨_, rfl⟩
  | [], some (p, s), _ => ⟨_, rfl⟩
  | (.rest, t) :: rest, none, h => by
      simp only [List.map_cons, evLegal] at h
      obtain ⟨n, hn⟩ := melWriter_ok total rest none h
      exact ⟨n, by simp [melWriter, hn]⟩
  | (.rest, t) :: rest, some (p, s), h => by
      simp only [List.map_cons, evLegal] at h
      obtain ⟨n, hn⟩ := melWriter_ok total rest none h
      exact ⟨⟨s, t, p⟩ :: n, by simp [melWriter, hn, consOk]⟩
  | (.note q true, t) :: rest, none, h => by
      simp only [List.map_cons, evLegal] at h
      obtain ⟨n, hn⟩ := melWriter_ok total rest (some (q, t)) h
      exact ⟨n, by simp [melWriter, hn]⟩
  | (.note q true, t) :: rest, some (p, s), h => by
      simp only [List.map_cons, evLegal] at h
      obtain ⟨n, hn⟩ := melWriter_ok total rest (some (q, t)) h
      exact ⟨⟨s, t, p⟩ :: n, by simp [melWriter, hn, consOk]⟩
  | (.note q false, t) :: rest, none, h => by
      simp [evLegal] at h
  | (.note q false, t) :: rest, some (p, s), h => by
      simp only [List.map_cons, evLegal, Option.map_some, Option.some.injEq] at h
      obtain ⟨n, hn⟩ := melWriter_ok total rest (some (p, s)) (by simpa using h.2)
      exact ⟨n, by simp [melWriter, h.1.symm, hn]⟩

/-- the pitch sounding after state `i` -/
def curPitch (pitches : List Nat) (i : Nat) : Option Nat :=
  if i = 0 then none else if i ≤ pitches.length then pitches[i - 1]? else pitches[i - pitches.length - 1]?

def chainLegal (P : Nat) : Nat → List Nat → Prop
  | _, [] => True
  | i, j :: rest => melLegalStep P i j ∧ chainLegal P j rest

theorem melDecode_ok (pitches : List Nat) (i : Nat) (h : i < 2 * pitches.length + 1) :
    (i = 0 ∧ melDecode pitches i = .ok .rest) ∨
    (∃ p, 0 < i ∧ i ≤ pitches.length ∧ curPitch pitches i = some p ∧ melDecode pitches i = .ok (.note p true)) ∨
    (∃ p, pitches.length < i ∧ curPitch pitches i = some p ∧ melDecode pitches i = .ok (.note p false)) := by
  unfold melDecode curPitch
  by_cases h0 : i = 0
  · left; simp [h0]
  · right
    by_cases h1 : i ≤ pitches.length
    · left
      have hlt : i - 1 < pitches.length := by omega
      refine ⟨pitches[i - 1], by omega, h1, ?_⟩
      simp [h0, h1, List.getElem?_eq_getElem hlt]
    · right
      have hlt : i - pitches.length - 1 < pitches.length := by omega
      refine ⟨pitches[i - pitches.length - 1], by omega, ?_⟩
      simp [h0, h1, List.getElem?_eq_getElem hlt]

theorem chainLegal_evLegal (pitches : List Nat) : ∀ (path : List Nat) (i : Nat),
    (∀ s ∈ path, s < 2 * pitches.length + 1) → chainLegal pitches.length i path →
    ∃ evs, melEvents pitches path = .ok evs ∧ evs.length = path.length ∧ evLegal (curPitch pitches i) evs
  | [], i, _, _ => ⟨[], rfl, rfl, trivial⟩
  | j :: rest, i, hs, hc => by
      obtain ⟨hstep, hc'⟩ := hc
      obtain ⟨evs, he, hl, hev⟩ := chainLegal_evLegal pitches rest j
        (fun s h => hs s (List.mem_cons_of_mem _ h)) hc'
      unfold melEvents at he ⊢
      rcases melDecode_ok pitches j (hs j (by simp)) with ⟨h0, hd⟩ | ⟨p, h0, h1, hp, hd⟩ | ⟨p, h1, hp, hd⟩
      · refine ⟨.rest :: evs, by simp [mapOk, hd, he, consOk], by simp [hl], ?_⟩
        simpa [evLegal, h0, curPitch] using hev
      · refine ⟨.note p true :: evs, by simp [mapOk, hd, he, consOk], by simp [hl], ?_⟩
        simpa [evLegal, hp] using hev
      · refine ⟨.note p false :: evs, by simp [mapOk, hd, he, consOk], by simp [hl], ?_⟩
        simp only [evLegal]
        have hij : curPitch pitches i = curPitch pitches j := by
          rcases hstep with h | h | h
          · omega
          · rw [h]
          · unfold curPitch
            have : i ≠ 0 := by omega
            have e : j - pitches.length - 1 = i - 1 := by omega
            by_cases hi : i ≤ pitches.length
            · simp [this, hi, show j ≠ 0 by omega, show ¬ j ≤ pitches.length by omega, e]
            · have := hs j (by simp); omega
        rw [hij, hp]
        exact ⟨rfl, by rw [← hp]; exact hev⟩
end MelOk

/-! ## melody: finite score ⇒ legal chain -/
section MelFinite
variable {S : Type} (add : S → S → S)

theorem stepsFinite_chainLegal (P : Nat) (fl tr : Nat → Nat → S) (bot : S)
    (hstruct : ∀ i j, P < j → i ≠ j → i + P ≠ j → tr i j = bot) :
    ∀ (rest : List Nat) (prev t : Nat), stepsFinite (melTables add P fl tr) bot prev t rest →
      chainLegal P prev rest
  | [], _, _, _ => trivial
  | j :: rest, prev, t, h => by
      obtain ⟨h1, _, h3⟩ := h
      refine ⟨?_, stepsFinite_chainLegal P fl tr bot hstruct rest j (t + 1) h3⟩
      unfold melLegalStep
      by_cases a : j ≤ P
      · exact Or.inl a
      · by_cases b : prev = j
        · exact Or.inr (Or.inl b)
        · by_cases c : prev + P = j
          · exact Or.inr (Or.inr c)
          · exact absurd (hstruct prev j (by omega) b c) h1

theorem pathFinite_chainLegal (P : Nat) (fl tr : Nat → Nat → S) (bot : S) (hL : ∀ b, add bot b = bot)
    (hstruct : ∀ i j, P < j → i ≠ j → i + P ≠ j → tr i j = bot) (path : List Nat)
    (h : pathFinite (melTables add P fl tr) bot path) : chainLegal P 0 path := by
  cases path with
  | nil => trivial
  | cons j rest =>
    obtain ⟨h1, h2⟩ := h
    refine ⟨?_, stepsFinite_chainLegal add P fl tr bot hstruct rest j 1 h2⟩
    have ht : tr 0 j ≠ bot := fun e => h1 (by simp only [melTables]; rw [e, hL])
    unfold melLegalStep
    by_cases a : j ≤ P
    · exact Or.inl a
    · by_cases b : 0 = j
      · exact Or.inr (Or.inl b)
      · by_cases c : 0 + P = j
        · exact Or.inr (Or.inr c)
        · exact absurd (hstruct 0 j (by omega) b c) ht

theorem stepsFinite_emit (T : Tables S) (bot : S) : ∀ (rest : List Nat) (prev t k j : Nat),
    stepsFinite T bot prev t rest → rest[k]? = some j → T.emit (t + k) j ≠ bot
  | [], _, _, _, _, _, h => by simp at h
  | x :: rest, prev, t, 0, j, h, hk => by
      simp only [List.getElem?_cons_zero, Option.some.injEq] at hk
      subst hk; exact h.2.1
  | x :: rest, prev, t, k + 1, j, h, hk => by
      simp only [List.getElem?_cons_succ] at hk
      have := stepsFinite_emit T bot rest x (t + 1) k j h.2.2 hk
      have e : t + (k + 1) = t + 1 + k := by omega
      rw [e]; exact this
end MelFinite


/-! ## relabelling key-chord states by a transposition -/

theorem rotState_parts (C k : Nat) (rot : Nat → Nat) (hC : 0 < C) (i : Nat)
    (hr : rot (i % C) < C) :
    rotState C k rot i / C = (i / C + k) % 12 ∧ rotState C k rot i % C = rot (i % C) := by
  unfold rotState
  constructor
  · rw [Nat.mul_comm, Nat.mul_add_div hC, Nat.div_eq_of_lt hr, Nat.add_zero]
  · rw [Nat.mul_comm, Nat.mul_add_mod, Nat.mod_eq_of_lt hr]

theorem rotState_lt (C k : Nat) (rot : Nat → Nat) (i : Nat) (hr : rot (i % C) < C) :
    rotState C k rot i < 12 * C := by
  unfold rotState
  have h : (i / C + k) % 12 < 12 := Nat.mod_lt _ (by omega)
  calc (i / C + k) % 12 * C + rot (i % C) < (i / C + k) % 12 * C + C := by omega
    _ = ((i / C + k) % 12 + 1) * C := by rw [Nat.add_mul, Nat.one_mul]
    _ ≤ 12 * C := Nat.mul_le_mul_right _ (by omega)

theorem rotState_inv (C k k' : Nat) (rot rotInv : Nat → Nat) (hC : 0 < C) (hk : (k + k') % 12 = 0)
    (hr : ∀ c, c < C → rot c < C) (hinv : ∀ c, c < C → rotInv (rot c) = c) (i : Nat) (hi : i < 12 * C) :
    rotState C k' rotInv (rotState C k rot i) = i := by
  have hc : i % C < C := Nat.mod_lt _ hC
  obtain ⟨h1, h2⟩ := rotState_parts C k rot hC i (hr _ hc)
  have ha : i / C < 12 := by
    rw [Nat.div_lt_iff_lt_mul hC]; exact hi
  have e : rotState C k' rotInv (rotState C k rot i) =
      ((rotState C k rot i / C + k') % 12) * C + rotInv (rotState C k rot i % C) := rfl
  rw [e, h1, h2, hinv _ hc]
  have key : ∀ a, a < 12 → ((a + k) % 12 + k') % 12 = a := by
    clear hr hinv hi hc h1 h2 ha e
    intro a ha; omega
  have := key _ ha
  rw [this, Nat.mul_comm]
  exact Nat.div_add_mod i C

section KC
variable {S : Type} [LinearOrder S] (add : S → S → S)

theorem kc_optimum_le (hm : Mono add) (C k : Nat) (rot : Nat → Nat) (hC : 0 < C)
    (hr : ∀ c, c < C → rot c < C) (nl : S) (kc fl tr kc' fl' tr' : Nat → Nat → S)
    (hkc : ∀ a c, a < 12 → c < C → kc' ((a + k) % 12) (rot c) = kc a c)
    (hfl : ∀ t c, c < C → fl' t (rot c) = fl t c)
    (htr : ∀ i j, i < 12 * C → j < 12 * C → tr' (rotState C k rot i) (rotState C k rot j) = tr i j)
    (frames : Nat) (hf : 0 < frames) :
    optimum add (kcTables add C nl kc fl tr) frames ≤ optimum add (kcTables add C nl kc' fl' tr') frames := by
  refine optimum_le_of_map add hm (kcTables add C nl kc fl tr) (kcTables add C nl kc' fl' tr')
    (rotState C k rot) (show 0 < 12 * C by omega) rfl ?_ ?_ ?_ ?_ frames hf
  · intro i _; exact rotState_lt C k rot i (hr _ (Nat.mod_lt _ hC))
  · intro i hi
    have hc : i % C < C := Nat.mod_lt _ hC
    obtain ⟨h1, h2⟩ := rotState_parts C k rot hC i (hr _ hc)
    have ha : i / C < 12 := by
      rw [Nat.div_lt_iff_lt_mul hC]; exact hi
    simp only [kcTables, h1, h2, hkc _ _ ha hc, hfl _ _ hc]
  · intro i j hi hj; exact htr i j hi hj
  · intro t j _
    have hc : j % C < C := Nat.mod_lt _ hC
    obtain ⟨_, h2⟩ := rotState_parts C k rot hC j (hr _ hc)
    simp only [kcTables, h2, hfl _ _ hc]
end KC


/-! ## small facts used by `Props` -/
deriving instance DecidableEq for Except

theorem annOf_ok {R : Rat → Rat} {tm : Timing} {x : Nat × Nat × String × String} {b : ChordAnn}
    (h : annOf R tm x = .ok b) :
    frameTime R tm x.1 = .ok b.time ∧ frameStep tm x.1 = .ok b.step ∧ b.frame = x.1 ∧ b.text = x.2.2.2 := by
  unfold annOf at h
  split at h
  · rename_i t q ht hq
    simp only [Except.ok.injEq] at h; subst h; exact ⟨ht, hq, rfl, rfl⟩
  · simp at h
  · simp at h

theorem keyOf_ok {R : Rat → Rat} {tm : Timing} {x : Nat × Nat × String × String} {b : KeySig}
    (h : keyOf R tm x = .ok b) : frameTime R tm x.1 = .ok b.time ∧ b.frame = x.1 ∧ b.key = x.2.1 := by
  unfold keyOf at h
  split at h
  · rename_i t ht
    simp only [Except.ok.injEq] at h; subst h; exact ⟨ht, rfl, rfl⟩
  · simp at h

namespace Ext
@[simp] theorem fin_le_fin (a b : Int) : (fin a ≤ fin b) ↔ a ≤ b := Iff.rfl
@[simp] theorem ninf_le (b : Ext) : ninf ≤ b := by cases b <;> trivial
@[simp] theorem fin_le_ninf (a : Int) : ¬ (fin a ≤ ninf) := fun h => h
@[simp] theorem fin_lt_fin (a b : Int) : (fin a < fin b) ↔ a < b := Iff.rfl
@[simp] theorem ninf_lt_fin (b : Int) : ninf < fin b := trivial
@[simp] theorem not_lt_ninf (a : Ext) : ¬ (a < ninf) := by cases a <;> exact fun h => h
end Ext


/-! ## `sorted(set(..))`, `bisect` -/
section Sorted
variable {α : Type} [DecidableEq α]

structure StrictTotal (lt : α → α → Bool) : Prop where
  irrefl : ∀ a, lt a a = false
  trans : ∀ a b c, lt a b = true → lt b c = true → lt a c = true
  tri : ∀ a b, lt a b = false → a ≠ b → lt b a = true

variable {lt : α → α → Bool}

theorem mem_insertSorted (x y : α) : ∀ l : List α, y ∈ insertSorted lt x l ↔ y = x ∨ y ∈ l
  | [] => by simp [insertSorted]
  | z :: l => by
      simp only [insertSorted]
      split
      · simp
      · split
        · rename_i h; subst h; simp
        · simp only [List.mem_cons, mem_insertSorted x y l]
          constructor
          · rintro (h | h | h)
            · exact Or.inr (Or.inl h)
            · exact Or.inl h
            · exact Or.inr (Or.inr h)
          · rintro (h | h | h)
            · exact Or.inr (Or.inl h)
            · exact Or.inl h
            · exact Or.inr (Or.inr h)

theorem mem_sortedSet (y : α) : ∀ l : List α, y ∈ sortedSet lt l ↔ y ∈ l
  | [] => by simp [sortedSet]
  | x :: l => by
      have := mem_sortedSet y l
      simp only [sortedSet, List.foldr_cons] at this ⊢
      rw [mem_insertSorted, this]; simp

theorem sorted_insertSorted (h : StrictTotal lt) (x : α) : ∀ l : List α,
    l.Pairwise (fun a b => lt a b = true) → (insertSorted lt x l).Pairwise (fun a b => lt a b = true)
  | [], _ => by simp [insertSorted]
  | z :: l, hp => by
      obtain ⟨h1, h2⟩ := List.pairwise_cons.mp hp
      simp only [insertSorted]
      split
      · rename_i hxz
        refine List.pairwise_cons.mpr ⟨?_, hp⟩
        intro a ha
        rcases List.mem_cons.mp ha with ha | ha
        · subst ha; exact hxz
        · exact h.trans _ _ _ hxz (h1 a ha)
      · split
        · exact hp
        · rename_i hxz hne
          have hzx : lt z x = true := h.tri x z (by simpa using hxz) hne
          refine List.pairwise_cons.mpr ⟨?_, sorted_insertSorted h x l h2⟩
          intro a ha
          rcases (mem_insertSorted x a l).mp ha with ha | ha
          · subst ha; exact hzx
          · exact h1 a ha

theorem sorted_sortedSet (h : StrictTotal lt) : ∀ l : List α,
    (sortedSet lt l).Pairwise (fun a b => lt a b = true)
  | [] => by simp [sortedSet]
  | x :: l => by
      have := sorted_sortedSet h l
      simp only [sortedSet, List.foldr_cons] at this ⊢
      exact sorted_insertSorted h x _ this

omit [DecidableEq α] in
/-- in a strictly sorted list the number of elements below a member is its index -/
theorem index_of_sorted (h : StrictTotal lt) (x : α) : ∀ l : List α,
    l.Pairwise (fun a b => lt a b = true) → x ∈ l → l[(l.takeWhile (fun t => lt t x)).length]? = some x
  | [], _, hx => by simp at hx
  | z :: l, hp, hx => by
      obtain ⟨h1, h2⟩ := List.pairwise_cons.mp hp
      rcases List.mem_cons.mp hx with hx | hx
      · subst hx
        simp [h.irrefl]
      · have : lt z x = true := h1 x hx
        simp only [List.takeWhile_cons, this, if_true, List.length_cons, List.getElem?_cons_succ]
        exact index_of_sorted h x l h2 hx
end Sorted

theorem strictTotal_rat : StrictTotal (fun a b : Rat => decide (a < b)) where
  irrefl := fun a => by simp [Rat.lt_irrefl]
  trans := fun a b c hab hbc => by
    simp only [decide_eq_true_eq] at *
    rw [Rat.lt_iff_le_and_ne] at *
    refine ⟨Rat.le_trans hab.1 hbc.1, fun e => ?_⟩
    subst e
    exact hab.2 (Rat.le_antisymm hab.1 hbc.1)
  tri := fun a b hab hne => by
    simp only [decide_eq_false_iff_not, decide_eq_true_eq] at *
    rw [Rat.lt_iff_le_and_ne]
    exact ⟨Rat.not_lt.mp hab, fun e => hne e.symm⟩

theorem strictTotal_nat : StrictTotal (fun a b : Nat => decide (a < b)) where
  irrefl := fun a => by simp
  trans := fun a b c hab hbc => by simp only [decide_eq_true_eq] at *; omega
  tri := fun a b hab hne => by simp only [decide_eq_false_iff_not, decide_eq_true_eq] at *; omega

/-- `bisect_right` of a member of a strictly increasing list points just past it -/
theorem bisectRight_mem (x : Rat) : ∀ ts : List Rat, ts.Pairwise (fun a b => decide (a < b) = true) → x ∈ ts →
    ∃ k, bisectRight ts x = k + 1 ∧ ts[k]? = some x
  | [], _, hx => by simp at hx
  | t :: ts, hp, hx => by
      obtain ⟨h1, h2⟩ := List.pairwise_cons.mp hp
      unfold bisectRight
      rcases List.mem_cons.mp hx with hx | hx
      · subst hx
        have : ts.takeWhile (fun t => decide (t ≤ x)) = [] := by
          cases ts with
          | nil => rfl
          | cons u r =>
            have hu : x < u := by simpa using h1 u (by simp)
            simp [Rat.not_le.mpr hu]
        exact ⟨0, by simp [this], by simp⟩
      · have hlt : t < x := by simpa using h1 x hx
        obtain ⟨k, hk, hk'⟩ := bisectRight_mem x ts h2 hx
        unfold bisectRight at hk
        exact ⟨k + 1, by simp [Rat.le_of_lt hlt, hk], by simpa using hk'⟩

/-- below every element: index 0 -/
theorem bisectRight_below (x : Rat) (ts : List Rat) (h : ∀ t ∈ ts, x < t) : bisectRight ts x = 0 := by
  unfold bisectRight
  cases ts with
  | nil => rfl
  | cons u r => simp [Rat.not_le.mpr (h u (by simp))]


theorem foldl_max_ge : ∀ (rest : List Int) (a : Int), a ≤ rest.foldl max a ∧ ∀ x ∈ rest, x ≤ rest.foldl max a
  | [], a => by simp
  | y :: rest, a => by
      obtain ⟨h1, h2⟩ := foldl_max_ge rest (max a y)
      simp only [List.foldl_cons]
      refine ⟨by omega, ?_⟩
      intro x hx
      rcases List.mem_cons.mp hx with hx | hx
      · subst hx; omega
      · exact h2 x hx


end NSV.C19
