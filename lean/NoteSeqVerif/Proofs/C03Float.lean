import NoteSeqVerif.Proofs.C03Tick
import NoteSeqVerif.Proofs.RoundingApps
import Mathlib.Tactic.Linarith
import Mathlib.Tactic.Ring
import Mathlib.Tactic.FieldSimp
import Mathlib.Tactic.Push
import Mathlib.Tactic.NormNum
import Mathlib.Tactic.Positivity
import Mathlib.Data.Rat.Floor
/-! helper lemmas for C03, part 3: the tick map in FLOATING POINT — every statement is for every rounding
operator `R` with the `Rounding` facts of `Proofs/Rounding.lean` (monotone, `R 0 = 0`, idempotent, exact on
integers up to `2^53`, relative error `2^-53`), in particular for the executable float64 model `rne53`
(`rounding_rne53`) that the harness compares bit-exactly with pretty_midi. -/
namespace NSV.C03
open NSV

variable {R : ℚ → ℚ}

/-! ### `tick_to_time` is nondecreasing -/

/-- nonnegative scales, ticks non-decreasing (no sign condition on the first tick) -/
structure WF0 (m : TickMap) : Prop where
  c0 : 0 ≤ m.c0
  pos : ∀ p ∈ m.rest, 0 ≤ p.2
  sorted : SortedFrom 0 m.rest

theorem WF.toWF0 {m : TickMap} (h : WF m) : WF0 m :=
  ⟨h.c0.le, fun p hp => (h.pos p hp).le, h.sorted⟩

theorem ttAux_start_R (hR : Rounding R) (b : ℚ) (s : Int) (c : ℚ) (rest : List (Int × ℚ))
    (h : SortedFrom s rest) : ttAux R b s c rest s = R b := by
  cases rest with
  | nil => simp [ttAux, hR.zero]
  | cons p r =>
    obtain ⟨s', c'⟩ := p
    simp only [ttAux]
    rw [if_pos h.1]
    simp [hR.zero]

theorem seg_mono_R (hR : Rounding R) (base c : ℚ) (s : Int) (hc : 0 ≤ c) {j k : Int} (hjk : j ≤ k) :
    R (base + R (c * ((j - s : Int) : ℚ))) ≤ R (base + R (c * ((k - s : Int) : ℚ))) := by
  apply hR.mono
  have h1 : ((j - s : Int) : ℚ) ≤ ((k - s : Int) : ℚ) := by exact_mod_cast (by omega : j - s ≤ k - s)
  have := hR.mono _ _ (mul_le_mul_of_nonneg_left h1 hc)
  linarith

theorem ttAux_mono_R (hR : Rounding R) (rest : List (Int × ℚ)) (base : ℚ) (s : Int) (c : ℚ)
    (hc : 0 ≤ c) (hp : ∀ p ∈ rest, 0 ≤ p.2) (hs : SortedFrom s rest) {j k : Int} (hjk : j ≤ k) :
    ttAux R base s c rest j ≤ ttAux R base s c rest k := by
  induction rest generalizing base s c j k with
  | nil => simp only [ttAux]; exact seg_mono_R hR base c s hc hjk
  | cons p r ih =>
    obtain ⟨s', c'⟩ := p
    have hc' : 0 ≤ c' := hp (s', c') (by simp)
    have hp' : ∀ q ∈ r, 0 ≤ q.2 := fun q hq => hp q (List.mem_cons_of_mem _ hq)
    simp only [ttAux]
    by_cases hk : k ≤ s'
    · rw [if_pos hk, if_pos (by omega : j ≤ s')]
      exact seg_mono_R hR base c s hc hjk
    · rw [if_neg hk]
      by_cases hj : j ≤ s'
      · rw [if_pos hj]
        have h1 := seg_mono_R hR base c s hc hj
        have h2 := ih (R (base + R (c * ((s' - s : Int) : ℚ)))) s' c' hc' hp' hs.2
          (show s' ≤ k by omega)
        rw [ttAux_start_R hR _ _ _ _ hs.2, hR.idem] at h2
        exact h1.trans h2
      · rw [if_neg hj]
        exact ih _ s' c' hc' hp' hs.2 hjk

/-- `__tick_to_time` is nondecreasing in floating point, for every tick map with nonnegative scales and
sorted tempo ticks -/
theorem arr_mono_R (hR : Rounding R) (m : TickMap) (hw : WF0 m) {j k : Int} (hjk : j ≤ k) :
    tickToTime R m j ≤ tickToTime R m k :=
  ttAux_mono_R hR m.rest 0 0 m.c0 hw.c0 hw.pos hw.sorted hjk

theorem arr_zero_R (hR : Rounding R) (m : TickMap) (hw : WF0 m) : tickToTime R m 0 = 0 := by
  unfold tickToTime
  rw [ttAux_start_R hR 0 0 m.c0 m.rest hw.sorted, hR.zero]

theorem arr_nonneg_R (hR : Rounding R) (m : TickMap) (hw : WF0 m) {k : Int} (hk : 0 ≤ k) :
    0 ≤ tickToTime R m k := by
  have := arr_mono_R hR m hw hk
  rwa [arr_zero_R hR m hw] at this

/-! ### `round()` is monotone -/

theorem roundHalfEven_bounds (x : ℚ) : x.floor ≤ roundHalfEven x ∧ roundHalfEven x ≤ x.floor + 1 := by
  unfold roundHalfEven
  simp only
  split_ifs <;> omega

theorem roundHalfEven_mono {x y : ℚ} (h : x ≤ y) : roundHalfEven x ≤ roundHalfEven y := by
  have hf : x.floor ≤ y.floor := by
    rw [Rat.le_floor_iff]; exact (Rat.floor_le x).trans h
  rcases Int.lt_or_eq_of_le hf with hlt | heq
  · have := (roundHalfEven_bounds x).2
    have := (roundHalfEven_bounds y).1
    omega
  · have hd : x - (x.floor : ℚ) ≤ y - (y.floor : ℚ) := by rw [heq]; linarith
    unfold roundHalfEven
    simp only
    rw [heq] at hd ⊢
    split_ifs <;> first | omega | (exfalso; linarith)

/-- `round(x) = k` when `x` is closer than 1/2 to the integer `k` -/
theorem roundHalfEven_eq_of_close {x : ℚ} {k : Int} (h : |x - (k : ℚ)| < 1 / 2) : roundHalfEven x = k := by
  obtain ⟨r1, r2, _⟩ := roundHalfEven_spec x
  rw [abs_lt] at h
  have a : ((roundHalfEven x : Int) : ℚ) < ((k + 1 : Int) : ℚ) := by push_cast; linarith [h.1, h.2]
  have b : ((k - 1 : Int) : ℚ) < ((roundHalfEven x : Int) : ℚ) := by push_cast; linarith [h.1, h.2]
  have a' : roundHalfEven x < k + 1 := by exact_mod_cast a
  have b' : k - 1 < roundHalfEven x := by exact_mod_cast b
  omega

/-! ### `time_to_tick` is nondecreasing -/

/-- the `searchsorted` index of `time_to_tick` -/
def ttIdx (R : ℚ → ℚ) (m : TickMap) (M : Int) (t : ℚ) : Int :=
  leastGE (fun k => decide (t ≤ tickToTime R m k)) (M + 1).toNat 0 (M + 1)

theorem timeToTick_eq (R : ℚ → ℚ) (m : TickMap) (M : Int) (t : ℚ) :
    timeToTick R m M t =
      if ttIdx R m M t = M + 1 then
        roundHalfEven (R ((M : ℚ) + R (R (t - tickToTime R m M) / lastScale m)))
      else if ttIdx R m M t ≠ 0 ∧ absR (R (t - tickToTime R m (ttIdx R m M t - 1))) <
          absR (R (t - tickToTime R m (ttIdx R m M t))) then ttIdx R m M t - 1
      else ttIdx R m M t := rfl

/-- what `searchsorted(side='left')` returns on the float array -/
theorem ttIdx_spec (hR : Rounding R) (m : TickMap) (hw : WF0 m) (M : Int) (hM : 0 ≤ M) (t : ℚ) :
    0 ≤ ttIdx R m M t ∧ ttIdx R m M t ≤ M + 1 ∧
    (∀ i, 0 ≤ i → i < ttIdx R m M t → tickToTime R m i < t) ∧
    (ttIdx R m M t < M + 1 → t ≤ tickToTime R m (ttIdx R m M t)) := by
  unfold ttIdx
  have hmono : ∀ i j : Int, 0 ≤ i → i ≤ j → j < M + 1 →
      decide (t ≤ tickToTime R m i) = true → decide (t ≤ tickToTime R m j) = true := by
    intro i j _ hij _ h
    simp only [decide_eq_true_eq] at *
    exact le_trans h (arr_mono_R hR m hw hij)
  obtain ⟨s1, s2, s3, s4⟩ := leastGE_spec (fun k => decide (t ≤ tickToTime R m k)) (M + 1).toNat 0 (M + 1)
    (by omega) (by omega) hmono
  refine ⟨s1, s2, ?_, ?_⟩
  · intro i h0 hi
    have := s3 i h0 hi
    simpa using this
  · intro h
    simpa using s4 h

theorem ttIdx_mono (hR : Rounding R) (m : TickMap) (hw : WF0 m) (M : Int) (hM : 0 ≤ M) {t t' : ℚ}
    (h : t ≤ t') : ttIdx R m M t ≤ ttIdx R m M t' := by
  obtain ⟨a1, a2, a3, a4⟩ := ttIdx_spec hR m hw M hM t
  obtain ⟨b1, b2, b3, b4⟩ := ttIdx_spec hR m hw M hM t'
  by_contra hlt
  have hlt : ttIdx R m M t' < ttIdx R m M t := by omega
  have h1 := a3 _ b1 hlt
  have h2 := b4 (by omega)
  linarith

theorem absR_of_nonneg {x : ℚ} (h : 0 ≤ x) : absR x = x := by rw [absR_eq, abs_of_nonneg h]
theorem absR_of_nonpos {x : ℚ} (h : x ≤ 0) : absR x = -x := by rw [absR_eq, abs_of_nonpos h]

/-- `time_to_tick` is nondecreasing in floating point (array of any length `M + 1 ≤ 2^53 + 1`) -/
theorem timeToTick_mono_R (hR : Rounding R) (m : TickMap) (hw : WF m) (M : Int) (hM : 0 ≤ M)
    (hM2 : M ≤ 2 ^ 53) {t t' : ℚ} (h : t ≤ t') : timeToTick R m M t ≤ timeToTick R m M t' := by
  have hw0 := hw.toWF0
  obtain ⟨a1, a2, a3, a4⟩ := ttIdx_spec hR m hw0 M hM t
  obtain ⟨b1, b2, b3, b4⟩ := ttIdx_spec hR m hw0 M hM t'
  have hii := ttIdx_mono hR m hw0 M hM h
  have hls := lastScale_pos m hw
  rw [timeToTick_eq, timeToTick_eq]
  generalize ttIdx R m M t = i at *
  generalize ttIdx R m M t' = i' at *
  -- the value beyond the array is at least `M`
  have beyond : ∀ u : ℚ, tickToTime R m M < u →
      M ≤ roundHalfEven (R ((M : ℚ) + R (R (u - tickToTime R m M) / lastScale m))) := by
    intro u hu
    have h1 : 0 ≤ R (u - tickToTime R m M) := hR.nonneg (by linarith)
    have h2 : 0 ≤ R (R (u - tickToTime R m M) / lastScale m) := hR.nonneg (div_nonneg h1 hls.le)
    have h3 := hR.mono (M : ℚ) _ (show (M : ℚ) ≤ (M : ℚ) + R (R (u - tickToTime R m M) / lastScale m) by linarith)
    rw [hR.exact_int_le (by norm_num) M (by omega)] at h3
    have h4 := roundHalfEven_mono h3
    have h5 : roundHalfEven (M : ℚ) = M := roundHalfEven_eq_of_close (by simp)
    omega
  by_cases hi' : i' = M + 1
  · rw [if_pos hi']
    have hgt' : tickToTime R m M < t' := b3 M hM (by omega)
    by_cases hi : i = M + 1
    · rw [if_pos hi]
      apply roundHalfEven_mono
      apply hR.mono
      have h1 := hR.mono _ _ (show t - tickToTime R m M ≤ t' - tickToTime R m M by linarith)
      have h2 := hR.mono _ _ (div_le_div_of_nonneg_right h1 hls.le)
      linarith
    · rw [if_neg hi]
      have := beyond t' hgt'
      split_ifs <;> omega
  · rw [if_neg hi']
    have hi : i ≠ M + 1 := by omega
    rw [if_neg hi]
    rcases Int.lt_or_eq_of_le hii with hlt | heq
    · split_ifs <;> omega
    · subst heq
      by_cases hc' : i ≠ 0 ∧ absR (R (t' - tickToTime R m (i - 1))) < absR (R (t' - tickToTime R m i))
      · rw [if_pos hc']
        obtain ⟨hi0, hlt'⟩ := hc'
        have p1 : tickToTime R m (i - 1) < t := a3 (i - 1) (by omega) (by omega)
        have q1 : t' ≤ tickToTime R m i := b4 (by omega)
        have e1 : 0 ≤ R (t - tickToTime R m (i - 1)) := hR.nonneg (by linarith)
        have e2 := hR.mono _ _ (show t - tickToTime R m (i - 1) ≤ t' - tickToTime R m (i - 1) by linarith)
        have e3 := hR.mono _ _ (show t - tickToTime R m i ≤ t' - tickToTime R m i by linarith)
        have e4 : R (t' - tickToTime R m i) ≤ 0 := hR.nonpos (by linarith)
        rw [absR_of_nonneg (e1.trans e2), absR_of_nonpos e4] at hlt'
        have : absR (R (t - tickToTime R m (i - 1))) < absR (R (t - tickToTime R m i)) := by
          rw [absR_of_nonneg e1, absR_of_nonpos (e3.trans e4)]
          linarith
        rw [if_pos ⟨hi0, this⟩]
      · rw [if_neg hc']
        split_ifs <;> omega

/-! ### a single tempo: `_tick_scales = [(0, c)]`, array of length 1 (what `write` sees) -/

theorem tickToTime_single (hR : Rounding R) (c : ℚ) (k : Int) : tickToTime R ⟨c, []⟩ k = R (c * (k : ℚ)) := by
  simp [tickToTime, ttAux, hR.idem]

theorem wf_single {c : ℚ} (hc : 0 < c) : WF ⟨c, []⟩ := ⟨hc, by simp, trivial⟩

/-- with one tempo the tick of a positive time is `round(t / c)` (two roundings: `t - 0.0`, `/ c`;
adding the array index `0` is exact) -/
theorem timeToTick_single (hR : Rounding R) (c : ℚ) (hc : 0 < c) (t : ℚ) :
    timeToTick R ⟨c, []⟩ 0 t = if 0 < t then roundHalfEven (R (R t / c)) else 0 := by
  have hw0 := (wf_single hc).toWF0
  obtain ⟨a1, a2, a3, a4⟩ := ttIdx_spec hR ⟨c, []⟩ hw0 0 (le_refl 0) t
  have h0 := arr_zero_R hR ⟨c, []⟩ hw0
  rw [timeToTick_eq]
  by_cases ht : 0 < t
  · have hi : ttIdx R ⟨c, []⟩ 0 t = 0 + 1 := by
      by_contra hne
      have := a4 (by omega)
      rw [show ttIdx R ⟨c, []⟩ 0 t = 0 by omega, h0] at this
      linarith
    rw [if_pos hi, if_pos ht, h0]
    simp only [lastScale, lastOf, Int.cast_zero, zero_add, sub_zero, hR.idem]
  · have hi : ttIdx R ⟨c, []⟩ 0 t = 0 := by
      by_contra hne
      have := a3 0 (le_refl 0) (by omega)
      rw [h0] at this
      exact ht this
    rw [if_neg (by omega), if_neg ht, if_neg (by simp [hi]), hi]

/-- Float round trip time → tick → time under one tempo (tick length `c`): the read-back time differs from `t`
by at most half a tick (inflated by `2^-53`) plus `t·2^-51` — four roundings (`t - 0.0`, `/ c`, `c * k`, `0.0 + ·`
is exact) and one `round()`.  No bound on `t` is needed in the model (no overflow). -/
theorem single_roundtrip_R (hR : Rounding R) (c : ℚ) (hc : 0 < c) (t : ℚ) (ht : 0 ≤ t) :
    0 ≤ timeToTick R ⟨c, []⟩ 0 t ∧
    |tickToTime R ⟨c, []⟩ (timeToTick R ⟨c, []⟩ 0 t) - t| ≤ c / 2 * (1 + 1 / 2 ^ 53) + t * (1 / 2 ^ 51) := by
  rw [timeToTick_single hR c hc t]
  by_cases ht0 : 0 < t
  · rw [if_pos ht0, tickToTime_single hR]
    -- a1 = R t, x = R (a1 / c), K = round x, y = R (c K)
    obtain ⟨a1l, a1u⟩ := hR.bounds ht
    have ha1 : 0 ≤ R t := hR.nonneg ht
    have hq0 : 0 ≤ R t / c := div_nonneg ha1 hc.le
    obtain ⟨xl, xu⟩ := hR.bounds hq0
    have hx0 : 0 ≤ R (R t / c) := hR.nonneg hq0
    obtain ⟨r1, r2, r3⟩ := roundHalfEven_spec (R (R t / c))
    set x := R (R t / c) with hx
    set K := roundHalfEven x with hK
    have hK0 : 0 ≤ K := le_trans (by rw [Rat.le_floor_iff]; exact_mod_cast hx0) r3
    have hKq : (0 : ℚ) ≤ (K : ℚ) := by exact_mod_cast hK0
    have hcK : 0 ≤ c * (K : ℚ) := mul_nonneg hc.le hKq
    obtain ⟨yl, yu⟩ := hR.bounds hcK
    -- multiply the bounds on x and K by c
    have hcq : c * (R t / c) = R t := by field_simp
    have cxl : R t * (1 - 1 / 2 ^ 53) ≤ c * x := by
      have := mul_le_mul_of_nonneg_left xl hc.le
      rw [← mul_assoc, hcq] at this; exact this
    have cxu : c * x ≤ R t * (1 + 1 / 2 ^ 53) := by
      have := mul_le_mul_of_nonneg_left xu hc.le
      rw [← mul_assoc, hcq] at this; exact this
    have cK1 : c * (K : ℚ) ≤ c * x + c / 2 := by
      have := mul_le_mul_of_nonneg_left r1 hc.le
      linarith
    have cK2 : c * x - c / 2 ≤ c * (K : ℚ) := by
      have := mul_le_mul_of_nonneg_left r2 hc.le
      linarith
    refine ⟨hK0, ?_⟩
    rw [abs_le]
    constructor <;> norm_num at * <;> linarith
  · have : t = 0 := le_antisymm (not_lt.mp ht0) ht
    subst this
    rw [if_neg ht0, tickToTime_single hR]
    simp only [Int.cast_zero, mul_zero, hR.zero, sub_self, abs_zero]
    refine ⟨le_refl _, ?_⟩
    positivity

/-- Float grid times are fixed: the time `R (c·k)` pretty_midi assigns to tick `k` is written back to tick `k`,
for every `0 ≤ k ≤ 2^50` (three roundings, relative error `< 2^-51`, so `k·2^-51 < 1/2`). -/
theorem single_grid_fixed_R (hR : Rounding R) (c : ℚ) (hc : 0 < c) (k : Int) (hk : 0 ≤ k) (hk2 : k ≤ 2 ^ 50) :
    timeToTick R ⟨c, []⟩ 0 (tickToTime R ⟨c, []⟩ k) = k := by
  rw [timeToTick_single hR c hc, tickToTime_single hR]
  rcases Int.lt_or_eq_of_le hk with hpos | h0
  · have hkq : (0 : ℚ) < (k : ℚ) := by exact_mod_cast hpos
    have hkq2 : (k : ℚ) ≤ 2 ^ 50 := by exact_mod_cast hk2
    have hck : 0 < c * (k : ℚ) := mul_pos hc hkq
    obtain ⟨gl, gu⟩ := hR.bounds hck.le
    have hg : 0 < R (c * (k : ℚ)) := lt_of_lt_of_le (mul_pos hck (by norm_num)) gl
    rw [if_pos hg, hR.idem]
    have hq0 : 0 ≤ R (c * (k : ℚ)) / c := div_nonneg hg.le hc.le
    obtain ⟨xl, xu⟩ := hR.bounds hq0
    have ql : (k : ℚ) * (1 - 1 / 2 ^ 53) ≤ R (c * (k : ℚ)) / c := by
      rw [le_div_iff₀ hc]; linarith
    have qu : R (c * (k : ℚ)) / c ≤ (k : ℚ) * (1 + 1 / 2 ^ 53) := by
      rw [div_le_iff₀ hc]; linarith
    apply roundHalfEven_eq_of_close
    rw [abs_lt]
    constructor <;> norm_num at * <;> linarith
  · subst h0
    simp [hR.zero]

/-! ### the tempo formulas of `write` / `get_tempo_changes` in floating point -/

theorem round_pos_R (hR : Rounding R) {a : ℚ} (ha : 0 < a) : 0 < R a :=
  lt_of_lt_of_le (mul_pos ha (by norm_num)) (hR.bounds ha.le).1

/-- the PrettyMIDI constructor / the tempo loop never fail on a positive resolution and tempo -/
theorem scaleOfQpm_ok_R (hR : Rounding R) (res : Int) (hres : 0 < res) (qpm : ℚ) (hq : 0 < qpm) :
    scaleOfQpm R res qpm = .ok (R (60 / R ((res : ℚ) * qpm))) ∧ 0 < R (60 / R ((res : ℚ) * qpm)) := by
  have hr : (0 : ℚ) < (res : ℚ) := by exact_mod_cast hres
  have hd : 0 < R ((res : ℚ) * qpm) := round_pos_R hR (mul_pos hr hq)
  refine ⟨?_, round_pos_R hR (div_pos (by norm_num) hd)⟩
  unfold scaleOfQpm
  simp only
  rw [if_neg hd.ne', if_neg (not_lt.mpr hd.le)]

/-- `tempoMicros` is `int(6e7 / qpm')` with `qpm'` the tempo `get_tempo_changes` reports -/
theorem tempoMicros_eq (R : ℚ → ℚ) (res : Int) (c : ℚ) :
    tempoMicros R res c = truncR (R (60000000 / qpmOfScale R res c)) := rfl

/-- six roundings separate the microsecond value `write` truncates from the exact `6e7 / Q`, when the qpm stored
in the sequence is within one rounding of `Q` (`qpm = R (6e7 / n)` is how a microsecond tempo gets there) -/
theorem tempo_chain_near (hR : Rounding R) (res : Int) (hres : 0 < res) (qpm Q : ℚ) (hQ : 0 < Q)
    (hq : NSV.Near 53 1 qpm Q) :
    NSV.Near 53 5 (qpmOfScale R res (R (60 / R ((res : ℚ) * qpm)))) Q ∧
    NSV.Near 53 6 (R (60000000 / qpmOfScale R res (R (60 / R ((res : ℚ) * qpm))))) (60000000 / Q) := by
  have hp : 1 ≤ 53 := by norm_num
  have hr : (0 : ℚ) < (res : ℚ) := by exact_mod_cast hres
  have h60 : (0 : ℚ) < 60 := by norm_num
  have h1 : NSV.Near 53 2 (R ((res : ℚ) * qpm)) ((res : ℚ) * Q) :=
    (NSV.Near.mul hp hr hQ (NSV.Near.refl _) hq).round hR hp (mul_pos hr hQ)
  have p1 : 0 < (res : ℚ) * Q := mul_pos hr hQ
  have h2 : NSV.Near 53 3 (R (60 / R ((res : ℚ) * qpm))) (60 / ((res : ℚ) * Q)) :=
    (NSV.Near.div hp h60 p1 (NSV.Near.refl _) h1).round hR hp (div_pos h60 p1)
  have p2 : 0 < 60 / ((res : ℚ) * Q) := div_pos h60 p1
  have h3 : NSV.Near 53 4 (R (R (60 / R ((res : ℚ) * qpm)) * (res : ℚ))) (60 / ((res : ℚ) * Q) * (res : ℚ)) :=
    (NSV.Near.mul hp p2 hr h2 (NSV.Near.refl _)).round hR hp (mul_pos p2 hr)
  have p3 : 0 < 60 / ((res : ℚ) * Q) * (res : ℚ) := mul_pos p2 hr
  have h4 : NSV.Near 53 5 (R (60 / R (R (60 / R ((res : ℚ) * qpm)) * (res : ℚ))))
      (60 / (60 / ((res : ℚ) * Q) * (res : ℚ))) :=
    (NSV.Near.div hp h60 p3 (NSV.Near.refl _) h3).round hR hp (div_pos h60 p3)
  have e4 : 60 / (60 / ((res : ℚ) * Q) * (res : ℚ)) = Q := by field_simp
  rw [e4] at h4
  refine ⟨h4, ?_⟩
  exact (NSV.Near.div hp (by norm_num) hQ (NSV.Near.refl _) h4).round hR hp (div_pos (by norm_num) hQ)

/-- `int(g)` for a float `g` within six roundings of an integer `1 ≤ n ≤ 2^40` is `n` or `n - 1`, and which
of the two is decided by `n ≤ g` -/
theorem trunc_near_int {g : ℚ} {n : Int} (hn : 1 ≤ n) (hn2 : n ≤ 2 ^ 40) (h : NSV.Near 53 6 g (n : ℚ)) :
    (n ≤ g → truncR g = n) ∧ (g < n → truncR g = n - 1) := by
  have hnq : (1 : ℚ) ≤ (n : ℚ) := by exact_mod_cast hn
  have hnq2 : (n : ℚ) ≤ 2 ^ 40 := by exact_mod_cast hn2
  obtain ⟨h1, h2⟩ := h
  have hl : (n : ℚ) - 1 < g := by norm_num at *; linarith
  have hu : g < (n : ℚ) + 1 := by norm_num at *; linarith
  constructor
  · intro hge
    exact truncR_eq_of_floor (by linarith) hge hu
  · intro hlt
    exact truncR_eq_of_floor (by linarith) (by push_cast; linarith) (by push_cast; linarith)

/-! ### exact arithmetic: a uniformly rescaled tick map (a tempo written too fast by a constant factor) -/

/-- every tick scale multiplied by `ρ` -/
def scaleMap (ρ : ℚ) (m : TickMap) : TickMap := ⟨ρ * m.c0, m.rest.map (fun p => (p.1, ρ * p.2))⟩

theorem ttAux_scale (ρ : ℚ) (rest : List (Int × ℚ)) (base : ℚ) (s : Int) (c : ℚ) (k : Int) :
    ttAux id (ρ * base) s (ρ * c) (rest.map (fun p => (p.1, ρ * p.2))) k = ρ * ttAux id base s c rest k := by
  induction rest generalizing base s c with
  | nil => simp only [List.map_nil, ttAux, id]; ring
  | cons p r ih =>
    obtain ⟨s', c'⟩ := p
    simp only [List.map_cons, ttAux, id]
    split
    · ring
    · rw [show ρ * base + ρ * c * ((s' - s : Int) : ℚ) = ρ * (base + c * ((s' - s : Int) : ℚ)) by ring]
      exact ih _ _ _

theorem tickToTime_scaleMap (ρ : ℚ) (m : TickMap) (k : Int) :
    tickToTime id (scaleMap ρ m) k = ρ * tickToTime id m k := by
  unfold tickToTime scaleMap
  have := ttAux_scale ρ m.rest 0 0 m.c0 k
  rw [mul_zero] at this
  exact this

theorem scaleOfQpm_pos_R (hR : Rounding R) {res : Int} {q c : ℚ} (h : scaleOfQpm R res q = .ok c) : 0 < c := by
  unfold scaleOfQpm at h
  simp only at h
  split at h
  · cases h
  · split at h
    · cases h
    · rename_i h1 h2
      cases h
      have : 0 < R ((res : ℚ) * q) := lt_of_le_of_ne (not_lt.mp h2) (Ne.symm h1)
      exact round_pos_R hR (div_pos (by norm_num) this)

/-- `|a' - a| ≤ a·2^-53` gives `Near 53 1 a' a` -/
theorem near_of_abs {a' a : ℚ} (ha : 0 < a) (h : |a' - a| ≤ a * (1 / 2 ^ 53)) : NSV.Near 53 1 a' a := by
  rw [abs_le] at h
  constructor
  · rw [pow_one]; linarith [h.1]
  · rw [pow_one]
    have h2 : a' ≤ a * (1 + 1 / 2 ^ 53) := by linarith [h.2]
    have := mul_le_mul_of_nonneg_right h2 (show (0 : ℚ) ≤ 1 - 1 / 2 ^ 53 by norm_num)
    have e : a * (1 + 1 / 2 ^ 53) * (1 - 1 / 2 ^ 53) ≤ a := by nlinarith
    linarith

end NSV.C03
