import NoteSeqVerif.Common.Float
/-! GENERATED from /repo on every run by harness/c20.py through gen/translit2.py — do not edit.
Symbolic execution of the current Python source: `R` is applied after every float operation. -/
namespace NSV.C20.Gen2
open NSV
set_option linter.unusedVariables false

/-- symbolic execution of `note_seq.audio_io.crop_samples` up to the first statement outside the arithmetic fragment: local `samples_samples_to_crop` -/
def crop_samples_samples_to_crop (R : Rat → Rat) (sample_rate : Int) (crop_beginning_seconds : Rat) (total_length_seconds : Rat) : Int :=
  (truncR (R (crop_beginning_seconds * ((sample_rate : Int) : Rat))))

/-- symbolic execution of `note_seq.audio_io.crop_samples` up to the first statement outside the arithmetic fragment: local `samples_total_samples` -/
def crop_samples_total_samples (R : Rat → Rat) (sample_rate : Int) (crop_beginning_seconds : Rat) (total_length_seconds : Rat) : Int :=
  (truncR (R (total_length_seconds * ((sample_rate : Int) : Rat))))

/-- symbolic execution of `note_seq.audio_io.repeat_samples_to_duration` up to the first statement outside the arithmetic fragment: local `samples_to_duration_num_repeats` -/
def repeat_samples_to_duration_num_repeats (R : Rat → Rat) (sample_rate : Int) (duration : Rat) (n : Int) : Int :=
  (Rat.ceil (R (duration / (R (((n : Int) : Rat) / ((sample_rate : Int) : Rat))))))

end NSV.C20.Gen2
