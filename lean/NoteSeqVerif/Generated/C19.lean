/-! GENERATED from /repo on every run by harness/c19.py — do not edit. -/
namespace NSV.C19.Gen
def pitchClassNames : List String := ["C", "C#", "D", "Eb", "E", "F", "F#", "G", "Ab", "A", "Bb", "B"]
def keyPitches : List Nat := [0, 2, 4, 5, 7, 9, 11]
def kindNames : List String := ["", "m", "+", "dim", "7", "maj7", "m7", "m7b5"]
def kindPitches : List (List Nat) := [[0, 4, 7], [0, 3, 7], [0, 4, 8], [0, 3, 6], [0, 4, 7, 10], [0, 4, 7, 11], [0, 3, 7, 10], [0, 3, 6, 10]]
/-- `_CHORDS` in order: `none` = NO_CHORD, `some (root, index into kindPitches)` -/
def chords : List (Option (Nat × Nat)) := [none, some (0, 0), some (0, 1), some (0, 2), some (0, 3), some (0, 4), some (0, 5), some (0, 6), some (0, 7), some (1, 0), some (1, 1), some (1, 2), some (1, 3), some (1, 4), some (1, 5), some (1, 6), some (1, 7), some (2, 0), some (2, 1), some (2, 2), some (2, 3), some (2, 4), some (2, 5), some (2, 6), some (2, 7), some (3, 0), some (3, 1), some (3, 2), some (3, 3), some (3, 4), some (3, 5), some (3, 6), some (3, 7), some (4, 0), some (4, 1), some (4, 2), some (4, 3), some (4, 4), some (4, 5), some (4, 6), some (4, 7), some (5, 0), some (5, 1), some (5, 2), some (5, 3), some (5, 4), some (5, 5), some (5, 6), some (5, 7), some (6, 0), some (6, 1), some (6, 2), some (6, 3), some (6, 4), some (6, 5), some (6, 6), some (6, 7), some (7, 0), some (7, 1), some (7, 2), some (7, 3), some (7, 4), some (7, 5), some (7, 6), some (7, 7), some (8, 0), some (8, 1), some (8, 2), some (8, 3), some (8, 4), some (8, 5), some (8, 6), some (8, 7), some (9, 0), some (9, 1), some (9, 2), some (9, 3), some (9, 4), some (9, 5), some (9, 6), some (9, 7), some (10, 0), some (10, 1), some (10, 2), some (10, 3), some (10, 4), some (10, 5), some (10, 6), some (10, 7), some (11, 0), some (11, 1), some (11, 2), some (11, 3), some (11, 4), some (11, 5), some (11, 6), some (11, 7)]
/-- the figure string the annotation writer produces for each entry of `_CHORDS` -/
def figures : List String := ["N.C.", "C", "Cm", "C+", "Cdim", "C7", "Cmaj7", "Cm7", "Cm7b5", "C#", "C#m", "C#+", "C#dim", "C#7", "C#maj7", "C#m7", "C#m7b5", "D", "Dm", "D+", "Ddim", "D7", "Dmaj7", "Dm7", "Dm7b5", "Eb", "Ebm", "Eb+", "Ebdim", "Eb7", "Ebmaj7", "Ebm7", "Ebm7b5", "E", "Em", "E+", "Edim", "E7", "Emaj7", "Em7", "Em7b5", "F", "Fm", "F+", "Fdim", "F7", "Fmaj7", "Fm7", "Fm7b5", "F#", "F#m", "F#+", "F#dim", "F#7", "F#maj7", "F#m7", "F#m7b5", "G", "Gm", "G+", "Gdim", "G7", "Gmaj7", "Gm7", "Gm7b5", "Ab", "Abm", "Ab+", "Abdim", "Ab7", "Abmaj7", "Abm7", "Abm7b5", "A", "Am", "A+", "Adim", "A7", "Amaj7", "Am7", "Am7b5", "Bb", "Bbm", "Bb+", "Bbdim", "Bb7", "Bbmaj7", "Bbm7", "Bbm7b5", "B", "Bm", "B+", "Bdim", "B7", "Bmaj7", "Bm7", "Bm7b5"]
def numKeyChords : Nat := 1164
def maxNumChords : Nat := 1000
def chordsPerBar : List ((Nat × Nat) × Nat) := [((2, 2), 1), ((2, 4), 1), ((3, 4), 1), ((4, 4), 2), ((6, 8), 2)]
def melodyVelocity : Nat := 127
def maxNumFrames : Nat := 10000
def minMidiPitch : Nat := 0
def maxMidiPitch : Nat := 127
def unpitchedPrograms : List Nat := [96, 97, 98, 99, 100, 101, 102, 103, 112, 113, 114, 115, 116, 117, 118, 119, 120, 121, 122, 123, 124, 125, 126, 127]
end NSV.C19.Gen
